//go:build verif

package syncer

// C17 (part 4) — the WRITERS of the resume bookkeeping as one system, on the real code.
//
// lean/GunYu/Props/C17Reach.lean proves that every state reachable from an EMPTY target by
//   seed (first start + first setCheckpoint), sender lives, starts (rename), SetRunId (relabel),
//   gc passes — each stopped after any number of requests —, source failovers and crashes
// satisfies the invariant `Good` (Proofs/BookGood.lean), from which the preconditions of all C17
// safety theorems follow. This harness walks such traces with the REAL code against the target
// double — syncer.updateCheckpoint (through a loopback listener), RedisOutput.setCheckpoint,
// RedisOutput.StartPoint + sendAof (virtual time), RedisOutput.SetRunId, the gc closure — cutting
// operations after a random request (vfdoubles.Replay of the request prefix), and after EVERY step
//   tie (op c17good): the Lean driver evaluates `Good` on the dumped target state for the control
//     state the model's step functions (startCtl / relabelCtl) predict, and must read the same
//     position as the real GetCheckpointHash + GetCheckpoint;
//   tie (op c17w): the checkpoint-key HSETs the real sender issued vs `BookSys.writeReq`;
//   monitors: a maintenance step / a failover never changes the position the next start reads,
//     a life never lowers it (system-step-loses-position).
// Second part (op c17sr): RedisOutput.SetRunId across calls of one process with error replies planted
// at chosen requests of chosen attempts vs `BookSys.setRunId` (attempts, in-memory field, early
// return), requests of every attempt and the final field / position compared.

import (
	"bufio"
	"context"
	"fmt"
	"io"
	"os"
	"strconv"
	"strings"
	"testing"
	"testing/synctest"
	"time"

	"github.com/mgtv-tech/redis-GunYu/config"
	"github.com/mgtv-tech/redis-GunYu/pkg/log"
	"github.com/mgtv-tech/redis-GunYu/pkg/redis/checkpoint"
	"github.com/mgtv-tech/redis-GunYu/pkg/redis/client"
	usync "github.com/mgtv-tech/redis-GunYu/pkg/sync"
	"github.com/mgtv-tech/redis-GunYu/pkg/vfdoubles"
	"github.com/mgtv-tech/redis-GunYu/pkg/vfutil"
)

type vfSysCtl struct {
	key, lab, mas, sec string
	up                 bool
	pend               string
	nameSeq            int
}

func (c *vfSysCtl) ids() []string { return []string{c.mas, c.sec} }

// the model's startCtl (Proofs/BookWrites.lean)
func (c *vfSysCtl) afterStart(loc string, k, n int) {
	switch {
	case n == 0:
		c.up, c.pend = true, ""
	case k == 0:
		c.up = false
	case k == 1:
		c.up, c.pend = false, loc
	default:
		c.key, c.up, c.pend = loc, n <= k, ""
	}
}

func vfSysOutput(tg *vfdoubles.Target, key, runId string) *RedisOutput {
	ro := NewRedisOutput(RedisOutputConfig{InputName: "vf", CheckpointName: key, RunId: runId, EnableResumeFromBreakPoint: true, Redis: checkpoint.VfRedisCfg()})
	ro.newRedisConn = func(ctx context.Context) (client.Redis, error) { return checkpoint.VfConn(tg), nil }
	return ro
}

func vfSysRealStart(tg *vfdoubles.Target, loc string, ids []string) (string, error) {
	ln := checkpoint.VfListen(tg)
	defer ln.Close()
	sy := &syncer{cfg: SyncerConfig{Output: checkpoint.VfDialCfg(ln.Addr().String())}, logger: log.WithLogger("[vf] ")}
	return sy.updateCheckpoint(usync.NewWaitCloser(nil), loc, ids)
}

// indices (into log) of the write requests after position n0
func vfSysWrites(log []vfdoubles.LogEntry, n0 int) (idx []int) {
	for i := n0; i < len(log); i++ {
		if _, ok := checkpoint.VfRenderWrite(log[i]); ok {
			idx = append(idx, i)
		}
	}
	return
}

// cut an operation after k of its write requests (k = len(ws): complete)
func vfSysCut(log []vfdoubles.LogEntry, n0 int, ws []int, k int) *vfdoubles.Target {
	end := len(log)
	if k < len(ws) {
		end = n0
		if k > 0 {
			end = ws[k-1] + 1
		}
	}
	return vfdoubles.ReplayWith(log[:end], 0, true)
}

type vfSysRun struct {
	gen  int
	t    *testing.T
	s    *vfutil.Session
	r    *vfutil.Rand
	op   string
	tg   *vfdoubles.Target
	c    vfSysCtl
	tag  *int
	step int
	pos  string
	bad  bool
	bare bool // ResetStartPoint ran, no setCheckpoint since
	// ghost state of Props/C17Reach.lean (Ctl.names / Ctl.ids): every key name that was the current one or the one a cut
	// rename wrote to, every id the source ever reported - recorded at every check, evaluated by op c17fresh
	names, idsEver []string
}

func vfSysAddNew(xs []string, v string) []string {
	if v == "" {
		return xs
	}
	for _, x := range xs {
		if x == v {
			return xs
		}
	}
	return append(xs, v)
}

// the freshness hypotheses of goodChecks_decide_good / bareChecks_decide_bare (a name / id never used does not occur on
// the target; key, ids and the pending name are among those used) evaluated on the dump: Drive/C17Fresh.lean, theorems
// Props/C17Fresh.lean namesOk_decides / idsOk_decides
func (x *vfSysRun) fresh() {
	x.names = vfSysAddNew(vfSysAddNew(x.names, x.c.key), x.c.pend)
	x.idsEver = vfSysAddNew(vfSysAddNew(vfSysAddNew(x.idsEver, x.c.mas), x.c.sec), x.c.lab)
	pend := "-"
	if x.c.pend != "" {
		pend = vfutil.HexS(x.c.pend)
	}
	st := checkpoint.VfDumpState(x.tg)
	*x.tag++
	x.s.Op(fmt.Sprintf("c17fresh %d %s %s %s %s %s %s %s", *x.tag, checkpoint.VfHexList(x.names), checkpoint.VfHexList(x.idsEver), vfutil.HexS(x.c.key),
		vfutil.HexS(x.c.mas), vfutil.HexS(x.c.sec), pend, st.Encode()), fmt.Sprintf("#%d fresh ok", *x.tag))
	x.s.Count("sys_fresh_checked")
}

// The log of the current target with the connections of the requests issued since position n0 renumbered:
// a target rebuilt by vfdoubles.Replay numbers its new connections from the same base again, and a later
// Replay of a log in which two connections of different generations share an id would let the second inherit
// the selected database of the first (the client does not repeat a SELECT it believes to be in effect).
func (x *vfSysRun) relog(n0 int) []vfdoubles.LogEntry {
	x.gen++
	log := x.tg.LogCopy()
	for i := n0; i < len(log); i++ {
		log[i].Conn += x.gen << 22
	}
	return log
}

// steering only: the number of write requests a complete gc pass (everything before now stale) would issue on a
// copy of the current target
func (x *vfSysRun) gcWould() int {
	cp := vfdoubles.ReplayWith(x.tg.LogCopy(), 0, true)
	n0 := cp.LogLen()
	cli := checkpoint.VfConn(cp)
	checkpoint.VfGcStaleCp(cli, map[string]struct{}{x.c.mas: {}, x.c.sec: {}}, time.Nanosecond)
	cli.Close()
	n := len(vfSysWrites(cp.LogCopy(), n0))
	cp.CloseAll()
	return n
}

func (x *vfSysRun) rep(extra map[string]interface{}) map[string]interface{} {
	m := map[string]interface{}{"op": x.op, "step": x.step}
	for k, v := range extra {
		m[k] = v
	}
	return m
}

func vfPosOff(p string) (int64, string, bool) {
	ab := strings.Split(p, "@")
	if len(ab) != 2 {
		return 0, "", false
	}
	o, err := strconv.ParseInt(ab[0], 10, 64)
	return o, ab[1], err == nil
}

// after a step: the position the real start reads, the monitor, the tie with the invariant
func (x *vfSysRun) check(what string, life bool) {
	p := checkpoint.VfStartPoint(x.tg, x.c.ids())
	x.s.Count("sys_step_" + strings.Fields(what)[0])
	if os.Getenv("VERIF_C17SYS_TRACE") != "" {
		fmt.Fprintf(os.Stderr, "TRACE step %d %s -> %s | key=%q lab=%.6s mas=%.6s sec=%.6s up=%v pend=%q\n   %s\n", x.step, what, p, x.c.key, x.c.lab, x.c.mas, x.c.sec, x.c.up, x.c.pend, checkpoint.VfDumpState(x.tg).Encode())
	}
	if x.bare {
		// between ResetStartPoint and the next setCheckpoint: no position (the placeholder -1 in database 0 at most)
		if o, _, ok := vfPosOff(p); ok && o >= 0 {
			x.s.Violate("position-after-reset", fmt.Sprintf("step %d (%s): ResetStartPoint deleted the position, no setCheckpoint since; the next start reads %s", x.step, what, p), x.rep(map[string]interface{}{"after": p, "what": what}))
			x.bad = true
			return
		}
		x.fresh()
		st := checkpoint.VfDumpState(x.tg)
		*x.tag++
		x.s.Op(fmt.Sprintf("c17bare %d %s %s %s %s %s %s", *x.tag, vfutil.HexS(config.Version), vfutil.HexS(x.c.mas), vfutil.HexS(x.c.sec),
			vfutil.HexS(x.c.lab), vfutil.HexS(x.c.key), st.Encode()), fmt.Sprintf("#%d bare %s", *x.tag, p))
		x.s.Count("sys_bare_checked")
		x.pos = ""
		return
	}
	if x.pos != "" {
		o0, d0, ok0 := vfPosOff(x.pos)
		o1, d1, ok1 := vfPosOff(p)
		// the property: not smaller, same database (a life may move to another database)
		lost := !ok1 || (ok0 && (o1 < o0 || (!life && d1 != d0)))
		if lost {
			x.s.Violate("system-step-loses-position", fmt.Sprintf("step %d (%s): the next start read %s before, reads %s after (ids [%s.., %s..], key %q, label %s..)",
				x.step, what, x.pos, p, x.c.mas[:6], x.c.sec[:6], x.c.key, x.c.lab[:6]), x.rep(map[string]interface{}{"before": x.pos, "after": p, "what": what}))
			x.bad = true
			return
		}
		if !life && p != x.pos {
			// the theorems say EQUAL (reach_start_safe / reach_relabel_safe / reach_gc_safe): a larger offset is a
			// difference from the model, not a violation of the property
			*x.tag++
			x.s.Op(fmt.Sprintf("c17eq %d %s", *x.tag, x.pos), fmt.Sprintf("#%d %s", *x.tag, p))
		}
	}
	x.pos = p
	x.fresh()
	st := checkpoint.VfDumpState(x.tg)
	pend := "-"
	if x.c.pend != "" {
		pend = vfutil.HexS(x.c.pend)
	}
	up := "0"
	if x.c.up {
		up = "1"
	}
	*x.tag++
	x.s.Op(fmt.Sprintf("c17good %d %s %s %s %s %s %s %s %s", *x.tag, vfutil.HexS(config.Version), vfutil.HexS(x.c.mas), vfutil.HexS(x.c.sec),
		vfutil.HexS(x.c.lab), vfutil.HexS(x.c.key), pend, up, st.Encode()), fmt.Sprintf("#%d good %s", *x.tag, p))
	x.s.Count("sys_good_checked")
	if x.c.lab != x.c.mas {
		x.s.Count("sys_state_label_is_second_id")
	}
	if x.c.pend != "" {
		x.s.Count("sys_state_rename_pending")
	}
	if x.c.key != config.CheckpointKey {
		x.s.Count("sys_state_key_renamed")
	}
	if len(st.Items) > 1 {
		x.s.Count("sys_state_several_entries")
	}
}

func vfSysId(r *vfutil.Rand) string { return fmt.Sprintf("%x", r.Bytes(20)) }

// the requests of a sender session as they reached the target, one token each (lean/GunYu/Drive/C17.lean c17life):
// the model (BookSys.logTrace) follows SELECT / MULTI / EXEC itself, the harness only names what each request is
func vfSysConn(seg []vfdoubles.LogEntry) int {
	for _, e := range seg {
		switch e.Cmd() {
		case "set", "hset", "multi", "ping":
			return e.Conn // the session's connection (StartPoint reads on another one, gc on a third)
		}
	}
	return -1
}

func vfSysWire(seg []vfdoubles.LogEntry, conn int, key, rid string) (toks []string, odd string) {
	for _, e := range seg {
		if e.Conn != conn {
			continue
		}
		switch e.Cmd() {
		case "select":
			toks = append(toks, "s"+string(e.Args[1]))
		case "multi":
			toks = append(toks, "M")
		case "exec":
			toks = append(toks, "E")
		case "ping":
			toks = append(toks, "p")
		case "hset":
			if string(e.Args[1]) != key {
				toks = append(toks, "c")
				break
			}
			fs := map[string]string{}
			for i := 2; i+1 < len(e.Args); i += 2 {
				fs[string(e.Args[i])] = string(e.Args[i+1])
			}
			switch {
			case len(fs) == 2 && fs[rid+checkpoint.CheckpointRunIdSuffix] == rid && fs[rid+checkpoint.CheckpointVersionSuffix] == config.Version:
				toks = append(toks, "m")
			case len(fs) == 1 && fs[rid+checkpoint.CheckpointOffsetSuffix] != "":
				toks = append(toks, "o"+fs[rid+checkpoint.CheckpointOffsetSuffix])
			default:
				odd = e.String()
			}
		default:
			toks = append(toks, "c")
		}
	}
	return
}

// the fields of the checkpoint key per database, as the driver renders them
func vfSysKeyLines(tag int, tg *vfdoubles.Target, key string) (out []string) {
	for _, it := range checkpoint.VfDumpState(tg).Items {
		if it.Key == key && len(it.Fields) > 0 {
			one := &checkpoint.VfState{Items: []checkpoint.VfItem{it}}
			out = append(out, fmt.Sprintf("#%d %s", tag, strings.Fields(one.Encode())[2]))
		}
	}
	return
}

func vfC17Sys(t *testing.T, s *vfutil.Session, seed uint64, nsteps int, tag *int, src string) {
	r := vfutil.NewRand(seed)
	x := &vfSysRun{t: t, s: s, r: r, op: fmt.Sprintf("c17sys seed=%d steps=%d", seed, nsteps), tag: tag}
	s.Count("sys_" + src)
	zero := "0000000000000000000000000000000000000000"
	// ---- seed: the first start on an EMPTY target, then the first setCheckpoint
	x.tg = vfdoubles.NewTarget()
	x.tg.Lenient = true
	a := vfSysId(r)
	z := zero
	if r.Chance(1, 3) {
		z = vfSysId(r)
	}
	x.c = vfSysCtl{key: config.CheckpointKey, mas: a, sec: z}
	label, err := vfSysRealStart(x.tg, x.c.key, x.c.ids())
	if err != nil {
		s.Violate("system-start-fails", err.Error(), x.rep(nil))
		return
	}
	x.c.lab, x.c.up = label, true
	x0 := int64(r.Range(0, 5000))
	if err := vfSysOutput(x.tg, x.c.key, label).setCheckpoint(context.Background(), a, x0, config.Version); err != nil {
		s.Violate("system-setcheckpoint-fails", err.Error(), x.rep(nil))
		return
	}
	x.check("seed", true)
	if want := fmt.Sprintf("%d@0", x0); x.pos != want && !x.bad {
		if o, _, ok := vfPosOff(x.pos); !ok || o < x0 {
			s.Violate("first-position-unreadable", fmt.Sprintf("empty target: the first start (updateCheckpoint) and setCheckpoint(%s.., %d) were run; the next start reads %s", a[:6], x0, x.pos), x.rep(map[string]interface{}{"want": want, "after": x.pos}))
			return
		}
		*tag++
		s.Op(fmt.Sprintf("c17eq %d %s", *tag, want), fmt.Sprintf("#%d %s", *tag, x.pos))
	}
	streamKey := 0
	for x.step = 1; x.step <= nsteps && !x.bad; x.step++ {
		var enabled []string
		if x.bare {
			enabled = append(enabled, "gc", "crash", "startB")
			if x.c.up && x.c.lab != x.c.mas {
				enabled = append(enabled, "relabelB", "relabelB", "relabelB")
			}
			if x.c.up && x.c.lab == x.c.mas {
				enabled = append(enabled, "reseed", "reseed", "reseed")
			}
		} else {
			enabled = append(enabled, "start", "start", "gc", "crash")
			if x.c.up && x.c.lab == x.c.mas && x.c.pend == "" {
				enabled = append(enabled, "life", "life", "life")
			}
			if x.c.up && x.c.lab != x.c.mas && x.c.pend == "" {
				enabled = append(enabled, "relabel", "relabel", "relabel")
			}
			if x.c.lab == x.c.mas {
				enabled = append(enabled, "failover", "second")
			}
			if x.c.up && x.c.pend == "" {
				enabled = append(enabled, "reset")
			}
			if x.gcWould() > 0 { // a gc pass has something to delete
				enabled = append(enabled, "gc", "gc", "gc", "gc")
			}
		}
		switch vfutil.Pick(r, enabled) {
		case "life":
			c := &vfSCase{cp: x.c.key, rid: x.c.mas, tdb: -1, sdb: -1, resume: true, txn: r.Bool(), pipeline: r.Chance(1, 3),
				bc: uint(vfutil.Pick(r, []int{1, 3, 100})), bb: 1 << 30, perB: 1000000, perK: 1501000, perC: 2503000}
			var chunks [][]byte
			pingpong := r.Chance(1, 3)
			if pingpong {
				// the D24 scenario on purpose: database a, database b, (gc: a is stale now), back to a, where the session
				// remembers having written its run id and writes the offset field alone
				da := r.Intn(4)
				db := (da + 1 + r.Intn(3)) % 4
				for i, n := 0, r.Range(3, 4); i < n; i++ {
					d := da
					if i%2 == 1 {
						d = db
					}
					b := vfEncodeCmd([][]byte{[]byte("select"), []byte(strconv.Itoa(d))})
					for k, m := 0, r.Range(1, 2); k < m; k++ {
						streamKey++
						b = append(b, vfEncodeCmd([][]byte{[]byte("set"), []byte(fmt.Sprintf("k%d", streamKey)), []byte("v")})...)
					}
					chunks = append(chunks, b)
				}
			}
			for i, n := 0, r.Range(1, 4); !pingpong && i < n; i++ {
				var b []byte
				if r.Chance(4, 5) {
					b = append(b, vfEncodeCmd([][]byte{[]byte("select"), []byte(strconv.Itoa(r.Intn(4)))})...)
				}
				for k, m := 0, r.Range(0, 3); k < m; k++ {
					streamKey++
					b = append(b, vfEncodeCmd([][]byte{[]byte("set"), []byte(fmt.Sprintf("k%d", streamKey)), []byte("v")})...)
				}
				if len(b) > 0 {
					chunks = append(chunks, b)
				}
			}
			n0 := x.tg.LogLen()
			tg := x.tg
			before := checkpoint.VfDumpState(x.tg).Encode()
			var spErr error
			gcAt, gcLogAt, gcLogEnd := -1, -1, -1
			if len(chunks) > 1 && (pingpong || r.Bool()) {
				gcAt = r.Range(1, len(chunks)-1) // the cron of the replaying process fires while the session is alive
				if pingpong {
					gcAt = r.Range(2, len(chunks)-1)
				}
			}
			synctest.Test(t, func(t *testing.T) {
				ro := vfNewOutput(c, tg)
				sp, err := ro.StartPoint(context.Background(), x.c.ids())
				if err != nil {
					spErr = err
					return
				}
				ctx, cancel := context.WithCancel(context.Background())
				defer cancel()
				pr, pw := io.Pipe()
				done := make(chan error, 1)
				go func() { done <- ro.sendAof(ctx, c.rid, bufio.NewReaderSize(pr, 4096), sp.Offset, -1) }()
				settle := time.Duration(c.perC+c.perB+c.perK) * time.Microsecond * 2
				for i, ch := range chunks {
					if i == gcAt {
						gcLogAt = tg.LogLen()
						cli := checkpoint.VfConn(tg)
						// the bubble's clock starts in 2000, the mtime fields of earlier steps carry the real clock: "stale" is
						// every entry written before this session (a negative duration puts the limit 50 years ahead)
						checkpoint.VfGcStaleCp(cli, map[string]struct{}{x.c.mas: {}, x.c.sec: {}}, -50*365*24*time.Hour)
						cli.Close()
						gcLogEnd = tg.LogLen()
					}
					pw.Write(ch)
					time.Sleep(settle)
				}
				pw.Close()
				<-done
				pr.Close()
				synctest.Wait()
				tg.CloseAll()
			})
			if spErr != nil {
				s.Violate("system-startpoint-fails", spErr.Error(), x.rep(nil))
				return
			}
			log := x.relog(n0)
			end := len(log)
			if r.Bool() && end > n0 {
				end = n0 + r.Intn(end-n0+1)
			}
			// tie of the sender's part of the model: the wire log up to the gc pass (or the cut) through BookSys.lifeReqs
			// vs what the target double really holds under the key then
			wend := end
			if gcLogAt >= 0 && gcLogAt < wend {
				wend = gcLogAt
			}
			conn := vfSysConn(log[n0:])
			toks, odd := vfSysWire(log[n0:wend], conn, x.c.key, x.c.mas)
			if odd != "" {
				s.Violate("sender-bookkeeping-write-shape", "a checkpoint-key HSET of the replay path is neither (run id, version) nor (offset): "+odd, x.rep(nil))
				return
			}
			*tag++
			wire := "."
			if len(toks) > 0 {
				wire = strings.Join(toks, ",")
			}
			atW := vfdoubles.ReplayWith(log[:wend], 0, true)
			s.Op(fmt.Sprintf("c17life %d %s %s %s %s %s", *tag, vfutil.HexS(config.Version), vfutil.HexS(x.c.key), vfutil.HexS(x.c.mas), wire, before),
				vfSysKeyLines(*tag, atW, x.c.key)...)
			atW.CloseAll()
			s.Add("sys_wire_requests", len(toks))
			if gcLogAt >= 0 && end > gcLogEnd {
				// the rest of the session, after the gc pass: the same tie from the state the pass left, the connection still
				// in the database it had selected
				cur := "0"
				for _, e := range log[n0:gcLogEnd] {
					if e.Conn == conn && e.Cmd() == "select" {
						cur = string(e.Args[1])
					}
				}
				toks2, odd2 := vfSysWire(log[gcLogEnd:end], conn, x.c.key, x.c.mas)
				if odd2 != "" {
					s.Violate("sender-bookkeeping-write-shape", "a checkpoint-key HSET of the replay path is neither (run id, version) nor (offset): "+odd2, x.rep(nil))
					return
				}
				atG := vfdoubles.ReplayWith(log[:gcLogEnd], 0, true)
				atE := vfdoubles.ReplayWith(log[:end], 0, true)
				*tag++
				s.Op(fmt.Sprintf("c17life %d %s %s %s %s %s", *tag, vfutil.HexS(config.Version), vfutil.HexS(x.c.key), vfutil.HexS(x.c.mas),
					strings.Join(append([]string{"s" + cur}, toks2...), ","), checkpoint.VfDumpState(atG).Encode()),
					vfSysKeyLines(*tag, atE, x.c.key)...)
				atG.CloseAll()
				atE.CloseAll()
				s.Add("sys_wire_requests_after_gc", len(toks2))
			}
			if gcLogAt >= 0 && end > gcLogAt {
				s.Count("sys_life_with_gc_inside")
				if os.Getenv("VERIF_C17SYS_TRACE") != "" {
					full, _ := vfSysWire(log[n0:], conn, x.c.key, x.c.mas)
					fmt.Fprintf(os.Stderr, "TRACE gcinside before=%s wire=%v gcAt=%d full=%v gcw=%d\n", before, toks, gcAt, full, len(vfSysWrites(log[:gcLogEnd], gcLogAt)))
				}
				s.Add("sys_gc_inside_requests", len(vfSysWrites(log[:vfutil.Min(end, gcLogEnd)], gcLogAt)))
			}
			x.tg = vfdoubles.ReplayWith(log[:end], 0, true)
			x.check(fmt.Sprintf("life cut=%d/%d gcAt=%d", end-n0, len(log)-n0, gcAt), true)
		case "start":
			loc := x.c.key
			switch {
			case x.c.pend != "" && r.Chance(2, 3):
				loc = x.c.pend
			case r.Chance(1, 2):
				x.c.nameSeq++
				loc = fmt.Sprintf("%s-{%d}", config.CheckpointKey, x.c.nameSeq)
			}
			n0 := x.tg.LogLen()
			if _, err := vfSysRealStart(x.tg, loc, x.c.ids()); err != nil {
				s.Violate("system-start-fails", err.Error(), x.rep(nil))
				return
			}
			log := x.relog(n0)
			ws := vfSysWrites(log, n0)
			k := len(ws)
			switch {
			case len(ws) > 0 && r.Chance(1, 4):
				k = 1 // a rename stopped after its first request: the pending state
			case r.Bool():
				k = r.Intn(len(ws) + 1)
			}
			x.tg = vfSysCut(log, n0, ws, k)
			x.c.afterStart(loc, k, len(ws))
			x.check(fmt.Sprintf("start loc=%q cut=%d/%d", loc, k, len(ws)), false)
		case "relabel":
			n0 := x.tg.LogLen()
			ro := vfSysOutput(x.tg, x.c.key, x.c.lab)
			if err := ro.SetRunId(context.Background(), x.c.mas); err != nil {
				s.Violate("system-setrunid-fails", err.Error(), x.rep(nil))
				return
			}
			log := x.relog(n0)
			ws := vfSysWrites(log, n0)
			if len(ws) < 2 {
				// Props/C17RunId.lean relabel_len: on a reachable state with the label still the second id the relabel issues
				// at least the entry HSET and the repointing of the hash (a difference from the model, tie level)
				*tag++
				s.Op(fmt.Sprintf("c17eq %d relabel-writes>=2", *tag), fmt.Sprintf("#%d relabel-writes=%d", *tag, len(ws)))
			}
			k := len(ws)
			if r.Bool() {
				k = r.Intn(len(ws) + 1)
			}
			x.tg = vfSysCut(log, n0, ws, k)
			if k >= 2 {
				x.c.lab = x.c.mas
			}
			x.check(fmt.Sprintf("relabel cut=%d/%d", k, len(ws)), false)
		case "gc":
			n0 := x.tg.LogLen()
			cli := checkpoint.VfConn(x.tg)
			live := map[string]struct{}{x.c.mas: {}, x.c.sec: {}}
			checkpoint.VfGcStaleCp(cli, live, vfutil.Pick(r, []time.Duration{time.Nanosecond, time.Nanosecond, time.Nanosecond, time.Hour}))
			cli.Close()
			log := x.relog(n0)
			ws := vfSysWrites(log, n0)
			k := len(ws)
			if r.Bool() {
				k = r.Intn(len(ws) + 1)
			}
			x.tg = vfSysCut(log, n0, ws, k)
			s.Add("sys_gc_requests", len(ws))
			if len(ws) > 0 {
				s.Count("sys_gc_passes_deleting")
			}
			x.check(fmt.Sprintf("gc cut=%d/%d", k, len(ws)), false)
		case "reset":
			// the source answered FULLRESYNC: the sanctioned deletion of the position (complete)
			ro := vfSysOutput(x.tg, x.c.key, x.c.lab)
			n0 := x.tg.LogLen()
			if err := ro.ResetStartPoint(context.Background(), x.c.ids()); err != nil {
				s.Violate("system-reset-fails", err.Error(), x.rep(nil))
				return
			}
			log := x.relog(n0)
			s.Add("sys_reset_requests", len(vfSysWrites(log, n0)))
			x.tg = vfdoubles.ReplayWith(log, 0, true)
			x.bare = true
			x.check("reset", false)
		case "relabelB":
			n0 := x.tg.LogLen()
			ro := vfSysOutput(x.tg, x.c.key, x.c.lab)
			if err := ro.SetRunId(context.Background(), x.c.mas); err != nil {
				s.Violate("system-setrunid-fails", err.Error(), x.rep(nil))
				return
			}
			log := x.relog(n0)
			ws := vfSysWrites(log, n0)
			k := len(ws)
			if r.Bool() {
				k = r.Intn(len(ws) + 1)
			}
			x.tg = vfSysCut(log, n0, ws, k)
			if k >= 2 {
				x.c.lab = x.c.mas
			}
			x.check(fmt.Sprintf("relabelB cut=%d/%d", k, len(ws)), false)
		case "startB":
			n0 := x.tg.LogLen()
			if _, err := vfSysRealStart(x.tg, x.c.key, x.c.ids()); err != nil {
				s.Violate("system-start-fails", err.Error(), x.rep(nil))
				return
			}
			log := x.relog(n0)
			if ws := vfSysWrites(log, n0); len(ws) != 0 {
				*tag++
				s.Op(fmt.Sprintf("c17eq %d startB-writes=0", *tag), fmt.Sprintf("#%d startB-writes=%d", *tag, len(ws)))
			}
			x.tg = vfdoubles.ReplayWith(log, 0, true)
			x.c.up = true
			x.check("startB", false)
		case "reseed":
			x0 := int64(r.Range(0, 9000))
			n0 := x.tg.LogLen()
			if err := vfSysOutput(x.tg, x.c.key, x.c.mas).setCheckpoint(context.Background(), x.c.mas, x0, config.Version); err != nil {
				s.Violate("system-setcheckpoint-fails", err.Error(), x.rep(nil))
				return
			}
			x.tg = vfdoubles.ReplayWith(x.relog(n0), 0, true)
			x.bare = false
			x.check("reseed", true)
			if want := fmt.Sprintf("%d@0", x0); x.pos != want && !x.bad {
				if o, _, ok := vfPosOff(x.pos); !ok || o < x0 {
					s.Violate("first-position-unreadable", fmt.Sprintf("no position (ResetStartPoint), then setCheckpoint(%s.., %d): the next start reads %s", x.c.mas[:6], x0, x.pos), x.rep(map[string]interface{}{"want": want, "after": x.pos}))
					return
				}
				*tag++
				s.Op(fmt.Sprintf("c17eq %d %s", *tag, want), fmt.Sprintf("#%d %s", *tag, x.pos))
			}
		case "failover":
			x.c.sec, x.c.mas = x.c.mas, vfSysId(r)
			x.check("failover", false)
		case "second":
			if r.Bool() {
				x.c.sec = vfSysId(r)
			} else {
				x.c.sec = zero[:39] + strconv.Itoa(x.step%10)
			}
			x.check("second", false)
		case "crash":
			x.c.up = false
			x.s.Count("sys_step_crash")
		}
	}
	x.tg.CloseAll()
	s.Distinct(fmt.Sprintf("sys|%v|%v|%v", x.c.key != config.CheckpointKey, x.c.lab == x.c.mas, x.c.pend != ""))
}

// ------------------------------------------------------------ SetRunId across calls, with error replies

type vfSrAttempt struct {
	k, n   int // writes applied / writes the attempt would issue at least (k when it failed later)
	now    int64
	o1, o2 []int
	lines  []string
	done   bool
}

func vfDots(xs []int) string {
	if len(xs) == 0 {
		return "."
	}
	p := make([]string, len(xs))
	for i, v := range xs {
		p[i] = strconv.Itoa(v)
	}
	return strings.Join(p, ".")
}

// one attempt = one connection: its applied writes, the orders of its two database loops, its clock value
func vfSrSegment(seg []vfdoubles.LogEntry, failed map[int]bool, base int) *vfSrAttempt {
	a := &vfSrAttempt{}
	infos := 0
	firstWrite := false
	for i, e := range seg {
		isFail := failed[base+i]
		switch e.Cmd() {
		case "info":
			infos++
		case "exists":
			if infos == 1 && !firstWrite {
				a.o1 = append(a.o1, e.DB)
			}
		case "hdel":
			if string(e.Args[1]) != config.CheckpointKeyHashKey {
				a.o2 = append(a.o2, e.DB)
			}
		}
		if l, ok := checkpoint.VfRenderWrite(e); ok {
			if !firstWrite {
				for j := 2; j+1 < len(e.Args); j += 2 {
					if strings.HasSuffix(string(e.Args[j]), checkpoint.CheckpointMtimeSuffix) {
						a.now, _ = strconv.ParseInt(string(e.Args[j+1]), 10, 64)
					}
				}
			}
			firstWrite = true
			if !isFail {
				a.k++
				a.lines = append(a.lines, l)
			}
		}
	}
	return a
}

func vfC17SetRunIdCalls(t *testing.T, s *vfutil.Session, r *vfutil.Rand, tag *int) {
	// a state as the system reaches it: position labelled with the second id, the master id new
	old, new := vfSysId(r), vfSysId(r)
	key := config.CheckpointKey
	tg0 := vfdoubles.NewTarget()
	st := &checkpoint.VfState{}
	st.Hash = append(st.Hash, [2]string{old, key})
	top := int64(r.Range(1000, 900000))
	dbs := []int{r.Intn(3) * r.Intn(2)}
	if r.Bool() {
		dbs = append(dbs, 3+r.Intn(3))
	}
	for i, d := range dbs {
		st.Items = append(st.Items, checkpoint.VfItem{Db: d, Key: key, Fields: [][2]string{{old + "_runid", old}, {old + "_version", config.Version},
			{old + "_offset", strconv.FormatInt(top-int64(i)*40, 10)}}})
	}
	st.Seed(tg0)
	base := tg0.LogCopy()
	tg0.CloseAll()
	// the plan: per call, per attempt the number of write requests that succeed before an error reply (-1: none planted)
	ncalls := r.Range(1, 3)
	plan := make([][]int, ncalls)
	for c := range plan {
		if r.Chance(1, 4) { // the whole call fails before the hash is repointed: the next call of the process starts over
			plan[c] = []int{r.Intn(2), r.Intn(2), r.Intn(2)}
			continue
		}
		for i := 0; i < 3; i++ {
			switch {
			case r.Chance(1, 6) || (i == 2 && r.Bool()):
				plan[c] = append(plan[c], -1)
			case r.Bool():
				plan[c] = append(plan[c], r.Intn(2)) // before the hash is repointed
			default:
				plan[c] = append(plan[c], r.Range(2, 5))
			}
		}
	}
	const msg = "LOADING Redis is loading the dataset in memory"
	type result struct {
		log     []vfdoubles.LogEntry
		callEnd []int
		rets    []error
		runIds  []string
	}
	run := func(faults map[int]string) *result {
		res := &result{}
		synctest.Test(t, func(t *testing.T) {
			tf := vfdoubles.Replay(base, 0)
			for k, v := range faults {
				tf.FailAt[k] = v
			}
			ro := vfSysOutput(tf, key, old)
			for c := 0; c < ncalls; c++ {
				err := ro.SetRunId(context.Background(), new)
				res.rets = append(res.rets, err)
				res.runIds = append(res.runIds, ro.cfg.RunId)
				res.callEnd = append(res.callEnd, tf.LogLen())
			}
			tf.CloseAll()
			res.log = tf.LogCopy()
		})
		return res
	}
	// segments (one per connection = attempt) of a call
	segments := func(res *result, c int) [][2]int {
		lo := len(base)
		if c > 0 {
			lo = res.callEnd[c-1]
		}
		var segs [][2]int
		for i := lo; i < res.callEnd[c]; i++ {
			if len(segs) == 0 || res.log[i].Conn != res.log[segs[len(segs)-1][0]].Conn {
				segs = append(segs, [2]int{i, i + 1})
			} else {
				segs[len(segs)-1][1] = i + 1
			}
		}
		return segs
	}
	faults := map[int]string{}
	var res *result
	for round := 0; round < 12; round++ {
		res = run(faults)
		planted := false
		for c := 0; c < ncalls && !planted; c++ {
			for i, sg := range segments(res, c) {
				if i >= len(plan[c]) || plan[c][i] < 0 {
					continue
				}
				has := false
				for j := sg[0]; j < sg[1]; j++ {
					if faults[j] != "" {
						has = true
					}
				}
				if has {
					continue
				}
				ws := 0
				for j := sg[0]; j < sg[1]; j++ {
					if _, ok := checkpoint.VfRenderWrite(res.log[j]); ok {
						if ws == plan[c][i] {
							faults[j] = msg
							planted = true
							break
						}
						ws++
					}
				}
				if planted {
					break
				}
				plan[c][i] = -1 // the attempt issues fewer writes: it completes
			}
		}
		if !planted {
			break
		}
	}
	failed := map[int]bool{}
	for j := range faults {
		failed[j] = true
	}
	*tag++
	var calls []string
	var out []string
	for c := 0; c < ncalls; c++ {
		segs := segments(res, c)
		var atts []string
		for i, sg := range segs {
			a := vfSrSegment(res.log[sg[0]:sg[1]], failed, sg[0])
			hasFault := false
			for j := sg[0]; j < sg[1]; j++ {
				hasFault = hasFault || failed[j]
			}
			a.done = !hasFault && i == len(segs)-1 && res.rets[c] == nil
			atts = append(atts, fmt.Sprintf("%d:%d:%s:%s", a.k, a.now, vfDots(a.o1), vfDots(a.o2)))
			out = append(out, fmt.Sprintf("#%d att n=%d done=%v", *tag, a.k, a.done))
			for _, l := range a.lines {
				out = append(out, fmt.Sprintf("#%d %s", *tag, l))
			}
		}
		as := "_"
		if len(atts) > 0 {
			as = strings.Join(atts, "+")
		}
		calls = append(calls, vfutil.HexS(new)+"/"+as)
		out = append(out, fmt.Sprintf("#%d call ret=%v runId=%s", *tag, res.rets[c] == nil, vfutil.HexS(res.runIds[c])))
		s.Add("sr_attempts", len(segs))
		if len(segs) == 0 {
			s.Count("sr_early_return")
		}
	}
	after := vfdoubles.ReplayFaults(res.log, 0, false, faults)
	ids := []string{new, old}
	p := checkpoint.VfStartPoint(after, ids)
	after.CloseAll()
	out = append(out, fmt.Sprintf("#%d end runId=%s sp=%s", *tag, vfutil.HexS(res.runIds[ncalls-1]), p))
	s.Op(fmt.Sprintf("c17sr %d %s %s %s %s %s %s", *tag, vfutil.HexS(config.Version), vfutil.HexS(key), vfutil.HexS(old), checkpoint.VfHexList(ids),
		strings.Join(calls, ";"), st.Encode()), out...)
	s.Count("sr_cases")
	s.Add("sr_faults", len(faults))
	// monitor (Props/C17RunId.lean setRunId_good: a call that returns nil has relabelled): once a call returned nil the
	// position must be readable when the source stops reporting the previous id
	okCall := -1
	for c := 0; c < ncalls; c++ {
		if res.rets[c] == nil && okCall < 0 {
			okCall = c
		}
	}
	if okCall >= 0 {
		after2 := vfdoubles.ReplayFaults(res.log, 0, false, faults)
		p2 := checkpoint.VfStartPoint(after2, []string{new, "eeeeeeeeeeeeeeeeeeeeeeeeeeeeeeeeeeeeeeee"})
		after2.CloseAll()
		if o, d, ok := vfPosOff(p2); !ok || o < top || d != strconv.Itoa(dbs[0]) {
			s.Violate("setrunid-nil-without-relabel", fmt.Sprintf("position %d@%d labelled with the previous id; call #%d of SetRunId(new id) returned nil (error replies at requests %v before), but once the source stops reporting the previous id the next start (ids [new, other]) reads %s",
				top, dbs[0], okCall+1, faults, p2), map[string]interface{}{"state": st.Encode(), "plan": plan, "new": new, "old": old, "after": p2})
		}
	}
	// monitor: whatever failed, the position is still read, not smaller, same database
	want := fmt.Sprintf("%d@%d", top, dbs[0])
	if o, d, ok := vfPosOff(p); !ok || o < top || d != strconv.Itoa(dbs[0]) {
		s.Violate("setrunid-calls-lose-position", fmt.Sprintf("position %s labelled with the previous id; %d calls of SetRunId(new id) with error replies at requests %v: the next start (ids [new, old]) reads %s",
			want, ncalls, faults, p), map[string]interface{}{"state": st.Encode(), "plan": plan, "before": want, "after": p})
	}
}

func vfC17SysParse(op string) (uint64, int, bool) {
	if !strings.HasPrefix(op, "c17sys ") {
		return 0, 0, false
	}
	var seed uint64
	var steps int
	for _, tok := range strings.Fields(op)[1:] {
		if strings.HasPrefix(tok, "seed=") {
			seed, _ = strconv.ParseUint(tok[5:], 10, 64)
		}
		if strings.HasPrefix(tok, "steps=") {
			steps, _ = strconv.Atoi(tok[6:])
		}
	}
	return seed, steps, steps > 0
}

func TestVerifC17Sys(t *testing.T) {
	s := vfutil.NewSession("C17sys")
	defer s.Close()
	r := vfutil.NewRand(vfutil.Seed())
	tag := 0
	if rp := os.Getenv("VERIF_REPLAY"); rp != "" {
		b, _ := os.ReadFile(rp)
		op := string(b)
		if i := strings.Index(op, "c17sys "); i >= 0 {
			op = op[i:]
			if j := strings.IndexAny(op, "\"\n"); j >= 0 {
				op = op[:j]
			}
			if seed, steps, ok := vfC17SysParse(op); ok {
				vfC17Sys(t, s, seed, steps, &tag, "replay")
			}
		}
		return
	}
	for _, l := range vfutil.Corpus("C17") {
		if seed, steps, ok := vfC17SysParse(l); ok {
			vfC17Sys(t, s, seed, steps, &tag, "corpus")
		}
	}
	for i, n := 0, vfutil.Scale(60, 1500); i < n; i++ {
		vfC17Sys(t, s, r.U64(), r.Range(6, 14), &tag, "gen")
	}
	for i, n := 0, vfutil.Scale(60, 1500); i < n; i++ {
		vfC17SetRunIdCalls(t, s, r.Fork(), &tag)
	}
}
