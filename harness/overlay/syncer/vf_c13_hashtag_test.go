//go:build verif

package syncer

// C13, session 5: replaceHashTag x the namespace filter of the snapshot phase.
//
// rdbReplayBisync withholds the bisync control keys found in the source's snapshot by testing the SOURCE key
// (isBisyncNamespaceKey(e.Key), outFilter.FilterKey(e.Key)); with `replaceHashTag` the unit is then written under the
// key with its first brace pair removed (bisyncRdbTargetKey). A client key such as
// "{redis-gunyu-bisync:}<cp>:latest:{slot-0}" is outside the reserved namespace (it starts with '{'), passes the
// test and is written INTO the namespace at the other site. This probe decides, on the real code, whether that
// breaks C13: a whole scripted history through the REAL rdbReplayBisync (real rdb.Loader entries), the real send
// loop of both links, the real resolveBisyncCheckpointNameWithClient (format switch: cleanupBisyncNamespace) and
// the site doubles:
//
//   1. a client write at A, forwarded by link A (marker + latest record exist at B);
//   2. a snapshot of A holding three client keys with braces - a hash "{redis-gunyu-bisync:}<cpA>:latest:{slot-0}"
//      with an expiry of one hour, a string "{redis-gunyu-checkpoint}-x", and an ordinary "{u}ser" - replayed by
//      the real rdbReplayBisync with replaceHashTag on;
//   3. link B (the opposite link) reads everything B's master propagated;
//   4. two hours pass at B; link A's syncer switches its recovery format (the real clean-up deletes the latest
//      / index keys of the retired namespace in one multi-key DEL);
//   5. link B reads again.
//
// Judged: (a) every snapshot block is marker-led and passed over by link B; (b) after step 2 no key of the reserved
// namespace other than a marker carries an expiry at B and no key under a reserved prefix holds a client value -
// the premise (NsTtl / EvGen's snapshot condition) of the no-loop theorems; (c) nothing the tool wrote in step 4
// comes back as a unit in step 5 (monitor tool-block-came-back-as-unit of the closed loop).

import (
	"bytes"
	"context"
	"fmt"
	"strings"
	"testing"
	"time"

	"github.com/mgtv-tech/redis-GunYu/config"
	"github.com/mgtv-tech/redis-GunYu/pkg/rdb"
	"github.com/mgtv-tech/redis-GunYu/pkg/redis/checkpoint"
	"github.com/mgtv-tech/redis-GunYu/pkg/redis/client"
	"github.com/mgtv-tech/redis-GunYu/pkg/redis/client/conn"
	"github.com/mgtv-tech/redis-GunYu/pkg/vfc20"
	"github.com/mgtv-tech/redis-GunYu/pkg/vfutil"
)

// vfc13RdbReplay: the REAL rdbReplayBisync of a second RedisOutput of link `src` (same namespace, same target
// double; its own unit counter) over the entries the real loader reads from a snapshot of `kvs`. The MULTI blocks
// the target received are executed at the destination site as snapshot blocks. Returns the requests.
func (w *vfc13World) vfc13RdbReplay(src int, kvs []vfc20.KV, replaceHashTag bool, thr int, policy string) ([]vfc13Req, error) {
	l := w.links[src]
	bins, err := vfc20.Load(vfc20.BuildRDB(kvs, vfc20.Opts{Aux: true}), thr, "7.0.0")
	w.s.Add("hashtag_probe_bins", len(bins))
	if err != nil {
		return nil, fmt.Errorf("generated snapshot rejected by the loader: %v", err)
	}
	cfg := l.ro.cfg
	cfg.ReplaceHashTag = replaceHashTag
	cfg.KeyExists = policy
	cfg.MaxProtoBulkLen = 512 << 20
	cfg.ReplayRdbEnableRestore = false
	cfg.Stats = config.OutputStats{DisableLog: true}
	cfg.Redis.Version = "7.0.0"
	ro := NewRedisOutput(cfg)
	rc := ro.cfg.Redis
	tg := l.tg
	ro.newRedisConn = func(ctx context.Context) (client.Redis, error) {
		return conn.VerifNewRedisConn(tg.Dial(), rc), nil
	}
	pipe := make(chan *rdb.BinEntry, len(bins)+1)
	for _, e := range bins {
		pipe <- e
	}
	close(pipe)
	l.newRequests()
	runErr := ro.rdbReplayBisync(context.Background(), "runid-"+vfc13SiteName(src), l.off, pipe)
	l.tg.CloseAll()
	reqs := l.newRequests()
	for _, q := range reqs {
		if q.multi && len(q.cmds) > 0 && vfc13IsMarkerSet(q.cmds[0]) {
			w.sites[l.dst].exec(true, q.cmds, func(int) string { return "snap" })
			w.s.Count("hashtag_probe_snapshot_unit")
			continue
		}
		w.violate("snapshot-block-without-marker", "the snapshot replay sent something that is not a marker-led MULTI block: "+vfc13CmdsTok(q.cmds),
			map[string]interface{}{"cmds": vfc13CmdsTok(q.cmds)})
		w.viol = true
		w.sites[l.dst].exec(q.multi, q.cmds, func(int) string { return "book" })
	}
	return reqs, runErr
}

// vfc13HashTagProbe: see the head of this file. replay.rerun = "hashtagprobe".
func vfc13HashTagProbe(t *testing.T, s *vfutil.Session) {
	for _, bits := range []string{"011", "111", "010"} { // Redis >= 7 (lazy expiry inside MULTI) with DEL / UNLINK, and an older master
		for mi, mode := range []config.ReplayMode{config.ReplayModeSync, config.ReplayModePipeline} {
			// dimension audit: every keyExists policy of the snapshot phase, and replaceHashTag off as well as on
			for pi, policy := range []string{"replace", "ignore", "error", ""} {
				rh := !(pi == 3 || (pi == 1 && mi == 1)) // off with the default policy and once with "ignore"
				s.Count("cfg_keyExists_" + map[string]string{"": "default"}[policy] + policy)
				s.Count(fmt.Sprintf("cfg_replaceHashTag_%v", rh))
				rc := vfc13RedisCfg{bits[0] == '1', bits[1] == '1', bits[2] == '1'}
				r := vfutil.NewRand(13)
				w := vfc13NewWorld(t, s, r, rc, rc, "none", mode)
				w.rerun = "hashtagprobe"
				base := map[string]interface{}{"redis": bits, "mode": string(mode), "keyExists": policy, "replaceHashTag": rh, "rerun": "hashtagprobe"}
				lA := w.links[0]
				tag0 := checkpoint.BisyncSlotTag(0)

				// 1. a client write at A, forwarded
				w.client(0, false, []vfc13Cmd{vfc13C("SET", "k0", "v0")}, true)
				w.linkRun(r, 0, 1)

				// 2. the snapshot of A through the real rdbReplayBisync, replaceHashTag on
				srcLatest := "{" + checkpoint.BisyncKeyPrefix + ":}" + lA.cp + ":latest:{" + tag0 + "}"
				dstLatest := checkpoint.BisyncLatestCheckpointKey(lA.cp, tag0)
				srcRoot := "{" + config.CheckpointKey + "}-x"
				exp := uint64(time.Now().UnixMilli()) + 3600_000
				// the hash is large enough to be split into several bins by the loader (threshold 256 bytes): every bin of a
				// withheld key must be withheld, not only the first
				var big [][]byte
				for i := 0; i < 60; i++ {
					big = append(big, []byte(fmt.Sprintf("field-%03d", i)), []byte("client-value-0123456789"))
				}
				kvs := []vfc20.KV{
					{DB: 0, Key: []byte(srcLatest), Type: 4, ExpireAt: exp, Items: big},
					{DB: 0, Key: []byte(srcRoot), Type: 0, Str: []byte("client-value")},
					{DB: 0, Key: []byte("{u}ser"), Type: 0, Str: []byte("v")},
					// the same names WITHOUT the braces are the tool's own keys in a snapshot: they must be withheld (control of the probe)
					{DB: 0, Key: []byte(checkpoint.BisyncLatestCheckpointKey("othercp", tag0)), Type: 4, Items: [][]byte{[]byte("f"), []byte("x")}},
				}
				reqs, err := w.vfc13RdbReplay(0, kvs, rh, 256, policy)
				if err != nil {
					s.Violate("hashtag-probe-failed", "rdbReplayBisync: "+err.Error(), base)
					continue
				}
				if len(reqs) == 0 {
					s.Violate("hashtag-probe-failed", "rdbReplayBisync committed no unit", base)
					continue
				}
				site := w.sites[1]
				if !rh {
					// replaceHashTag off: every key is replayed under its own name - the braced client keys are client keys
					for _, k := range []string{"{u}ser", srcLatest, srcRoot} {
						if _, ok := site.store[k]; !ok {
							s.Violate("foreign-block-suppressed", "snapshot replay without replaceHashTag: the client key "+k+" did not arrive under its own name", base)
						}
					}
					for w.linkRun(r, 1, 4) {
					}
					if w.links[1].halted {
						s.Violate("tool-block-halts-opposite-link", "the opposite link stopped in the hash-tag probe (replaceHashTag off)", base)
					}
					continue
				}
				// (b) the premise of the no-loop theorems at B after the snapshot
				for k, e := range site.store {
					kb := []byte(k)
					if !vfc13IsReserved(kb) {
						continue
					}
					if e.exp >= 0 && !checkpoint.IsBisyncMarkerKey(k) {
						m := map[string]interface{}{"shape": "snapshot key replayed into the reserved namespace with an expiry", "redis": bits, "mode": string(mode),
							"source_key": srcLatest, "target_key": k, "rerun": "hashtagprobe"}
						s.Violate("client-key-replayed-into-reserved-namespace",
							fmt.Sprintf("replaceHashTag: the snapshot key %q passed the namespace filter and was written as %q WITH an expiry: a control key other than a marker now expires (premise NsTtl of the no-loop theorems)", srcLatest, k), m)
					}
				}
				if e, ok := site.store[strings.Replace(strings.Replace(srcRoot, "{", "", 1), "}", "", 1)]; ok && e != nil {
					m := map[string]interface{}{"shape": "snapshot key replayed under the checkpoint prefix", "redis": bits, "mode": string(mode),
						"source_key": srcRoot, "rerun": "hashtagprobe"}
					s.Violate("client-key-replayed-into-reserved-namespace",
						fmt.Sprintf("replaceHashTag: the snapshot key %q passed the output filter's reserved prefix and was written under %q", srcRoot, config.CheckpointKey), m)
				}
				if _, ok := site.store["user"]; !ok {
					s.Violate("hashtag-probe-failed", "the ordinary key {u}ser was not replayed as user", base)
				}
				if _, ok := site.store[checkpoint.BisyncLatestCheckpointKey("othercp", tag0)]; ok {
					s.Violate("hashtag-probe-failed", "a control key of another link found in the snapshot was replayed", base)
				}
				_ = dstLatest

				// 3. the opposite link reads what B's master propagated (monitors of linkRun: nothing comes back, no halt)
				for w.linkRun(r, 1, 4) {
				}

				// 4. two hours later link A's syncer switches its recovery format: real clean-up of the retired namespace
				w.tick(1, 2*3600_000)
				w.retire(r, 0)

				// 5. the opposite link reads again
				for w.linkRun(r, 1, 4) {
				}
				if w.links[1].halted {
					s.Violate("tool-block-halts-opposite-link", "the opposite link stopped in the hash-tag probe", base)
				}
				s.Count("hashtag_probe_" + bits + "_" + string(mode))
				_ = bytes.Equal
			}
		}
	}
}
