//go:build verif

package syncer

// C06 — ATTEMPTS of RedisInput.Run's loop (session C06c).
//
// One `att` op = one real RedisInput.run() in which ONE call fails (or none), or whose
// PSYNC is answered by the successor of the source that answered INFO (fail-over in
// between), against the source double, the real channel backends and the REAL
// RedisOutput bookkeeping (newOutput / StartPoint / SetRunId / ResetStartPoint /
// setCheckpoint on the target double). Compared with the Lean model (Model/PsyncAtt.lean
// `stageOf` / `attemptP`, Model/Psync.lean `attempt` / `staleAttempt`): the decision, how
// far the attempt got, whether Run stops, the cache it leaves, and the position
// output.StartPoint then reads. Unusual replies: `$EOF:<40 bytes>`, `$abc`, `$0`, `$-n`
// after +FULLRESYNC; a stored offset of 2^63-1 (offset+1 wraps); channel.StartPoint
// answering with an error; output.StartPoint failing 1..3 times (slow lane, in parallel).
// One `runloop` op = the real RedisInput.Run() against scripted attempts.

import (
	"bytes"
	"context"
	"errors"
	"fmt"
	"io"
	"os"
	"path/filepath"
	"strconv"
	"strings"
	"sync"
	"sync/atomic"
	"testing"
	"time"

	"github.com/mgtv-tech/redis-GunYu/config"
	"github.com/mgtv-tech/redis-GunYu/pkg/log"
	"github.com/mgtv-tech/redis-GunYu/pkg/redis/checkpoint"
	usync "github.com/mgtv-tech/redis-GunYu/pkg/sync"
	"github.com/mgtv-tech/redis-GunYu/pkg/vfdoubles"
	"github.com/mgtv-tech/redis-GunYu/pkg/vfutil"
)

// ---------------------------------------------------------------- fault layers

// vf6FaultOut fails one bookkeeping call of the output it wraps.
type vf6FaultOut struct {
	Output
	mu         sync.Mutex
	failReset  int   // the n-th ResetStartPoint fails (1-based)
	failSetRun bool  // SetRunId fails
	spFail     int32 // the first n StartPoint calls fail
	nReset     int
	nSP        int32
	fired      string
	late       func() // waits until the writer stored everything (a failure in sendOutput comes after it)
	writers    func() int
}

func (o *vf6FaultOut) StartPoint(ctx context.Context, ids []string) (StartPoint, error) {
	if atomic.AddInt32(&o.nSP, 1) <= o.spFail {
		return StartPoint{}, fmt.Errorf("injected by the C06 harness: output.StartPoint failed")
	}
	return o.Output.StartPoint(ctx, ids)
}

func (o *vf6FaultOut) ResetStartPoint(ctx context.Context, ids []string) error {
	o.mu.Lock()
	o.nReset++
	fail := o.failReset == o.nReset
	o.mu.Unlock()
	if fail {
		if o.writers() > 0 {
			o.late()
		}
		o.mu.Lock()
		o.fired = "reset"
		o.mu.Unlock()
		return fmt.Errorf("injected by the C06 harness: output.ResetStartPoint failed")
	}
	return o.Output.ResetStartPoint(ctx, ids)
}

func (o *vf6FaultOut) SetRunId(ctx context.Context, id string) error {
	if o.failSetRun {
		o.mu.Lock()
		o.fired = "out_setrunid"
		o.mu.Unlock()
		return fmt.Errorf("injected by the C06 harness: output.SetRunId failed")
	}
	return o.Output.SetRunId(ctx, id)
}

// vf6ChanF fails writer / reader creation or channel.StartPoint of the proxy it wraps.
type vf6ChanF struct {
	*vf6Chan
	failWriter bool
	failReader bool
	failLoc    bool
	firedW     atomic.Bool
	firedR     atomic.Bool
	late       func()
}

func (p *vf6ChanF) StartPoint(ids []string) (StartPoint, error) {
	if p.failLoc && len(ids) > 0 {
		return StartPoint{}, fmt.Errorf("injected by the C06 harness: channel.StartPoint failed")
	}
	return p.vf6Chan.StartPoint(ids)
}
func (p *vf6ChanF) NewRdbWriter(r io.Reader, off int64, size int64) (RdbChannelWriter, error) {
	if p.failWriter {
		p.firedW.Store(true)
		return nil, fmt.Errorf("injected by the C06 harness: channel.NewRdbWriter failed")
	}
	return p.vf6Chan.NewRdbWriter(r, off, size)
}
func (p *vf6ChanF) NewAofWritter(r io.Reader, off int64) (AofChannelWriter, error) {
	if p.failWriter {
		p.firedW.Store(true)
		return nil, fmt.Errorf("injected by the C06 harness: channel.NewAofWritter failed")
	}
	return p.vf6Chan.NewAofWritter(r, off)
}
func (p *vf6ChanF) NewReader(o Offset) (ChannelReader, error) {
	if p.failReader {
		p.late()
		p.firedR.Store(true)
		return nil, fmt.Errorf("injected by the C06 harness: channel.NewReader failed")
	}
	return p.vf6Chan.NewReader(o)
}

// ---------------------------------------------------------------- one attempt

type vf6Att struct {
	c      *vf6Case
	plan   string
	resume bool
	hdr    string // len | eof | junk
	spAns  string // tries of output.StartPoint: "1", "01", "001", "000"
	stale  *vf6Source
	seedB  uint64
}

func (a *vf6Att) staleTok() string {
	if a.stale == nil {
		return "-"
	}
	p := a.stale
	return fmt.Sprintf("%s:%d:%s:%d:%d:%d:%d:%s:%d:%d", vfutil.HexS(p.id1), p.switchOff, vf6B(p.backlog), p.first, p.blen, p.master, p.snapLen,
		vf6B(p.capaId), p.k, a.seedB)
}

func (a *vf6Att) opLine(tag string, e int64) string {
	sync := a.c.opLine(tag)
	f := strings.SplitN(sync, " ", 3) // "sync" tag rest
	return fmt.Sprintf("att %s %s %s %d %s %s %s %s", tag, a.plan, vf6B(a.resume), e, a.hdr, a.spAns, a.staleTok(), f[2])
}

func (a *vf6Att) String() string { return a.opLine("-", 0) }

func vf6ParseAtt(line string) (*vf6Att, error) {
	f := strings.Fields(line)
	if len(f) < 9 || f[0] != "att" {
		return nil, fmt.Errorf("bad att line")
	}
	c, err := vf6ParseCase("sync " + f[1] + " " + strings.Join(f[8:], " "))
	if err != nil {
		return nil, err
	}
	a := &vf6Att{c: c, plan: f[2], resume: f[3] == "1", hdr: f[5], spAns: f[6]}
	if f[7] != "-" {
		p := strings.Split(f[7], ":")
		if len(p) != 10 {
			return nil, fmt.Errorf("bad stale token")
		}
		i64 := func(s string) int64 { v, _ := strconv.ParseInt(s, 10, 64); return v }
		a.stale = &vf6Source{id1: string(vfutil.UnHex(p[0])), id2: c.src.id1, switchOff: i64(p[1]), backlog: p[2] == "1", first: i64(p[3]),
			blen: i64(p[4]), master: i64(p[5]), snapLen: i64(p[6]), capaId: p[7] == "1", k: i64(p[8])}
		a.seedB = uint64(i64(p[9]))
	}
	return a, nil
}

type vf6AttH struct {
	*vf6H
	bridge *vf6Bridge
	hang   int // attempts that did not end
}

// waitIngested: the input reached its log-writer phase and the cache holds everything the source sent
func (h *vf6AttH) waitIngested(ri *RedisInput, proxy *vf6Chan, final int64) {
	lim := time.Duration(h.patience.Load()) * time.Millisecond
	select {
	case <-ri.StateNotify(SyncStateFullSynced):
	case <-time.After(lim):
		h.missed.Store(true)
		vf6MissNote.Store("att-writer-phase")
		return
	}
	deadline := time.Now().Add(lim)
	for time.Now().Before(deadline) {
		if proxy.aofWriterSeen() {
			in := proxy.inner
			_, r := in.GetOffsetRange(in.RunId())
			if r == final || (final <= proxy.aofWriterOff() && r <= proxy.aofWriterOff()) {
				return
			}
		}
		time.Sleep(200 * time.Microsecond)
	}
	h.missed.Store(true)
	vf6MissNote.Store("att-ingest")
}

// runAtt runs one attempt; lines are buffered in h.sink (committed by the caller).
var vf6CfgMu sync.Mutex // the resume flag newOutput reads is global: lanes take turns

func (h *vf6AttH) runAtt(a *vf6Att, inCfg, outCfg config.RedisConfig, ln *vf6Listener, bridge *vf6Bridge, replay map[string]interface{}) {
	s := h.sink
	t := h.t
	c := a.c
	tag := "#T"
	w := c.world()
	src := c.src
	src.w = w
	switch a.hdr {
	case "eof", "junk":
		src.hdr = a.hdr
	}
	if a.plan == "dial" {
		src.failInfo = true
	}
	ansSrc := &src
	if a.stale != nil {
		w.b, w.bSwitch, w.sB = a.stale.id1, a.stale.switchOff, a.seedB
		p := *a.stale
		p.w = w
		src.psyncBy = &p
		ansSrc = &p
	}
	ids := []string{src.id1, src.id2}
	nextIds := []string{ansSrc.id1, ansSrc.id2}
	final := ansSrc.master + ansSrc.k

	// ---- the real output on a fresh target, the stored position seeded
	h.nCase++
	dir := filepath.Join(h.tmp, fmt.Sprintf("a%d", h.nCase))
	os.MkdirAll(dir, 0o777)
	defer os.RemoveAll(dir)
	tg := vfdoubles.NewTarget()
	tg.Lenient = true
	bridge.cur.Store(tg)
	okSrc := src
	okSrc.failInfo = false
	ln.cur.Store(&okSrc) // newOutput asks the source for its ids
	sy := &syncer{cfg: SyncerConfig{Input: inCfg, Output: outCfg},
		logger: log.WithLogger("[vf6a] "), wait: usync.NewWaitCloser(nil)}
	bg := context.Background()
	vf6CfgMu.Lock()
	*config.GetSyncerConfig().Output.Replay.ResumeFromBreakPoint = a.resume
	var ro *RedisOutput
	var err error
	if a.resume && c.sp.RunId != "?" {
		// the position is on the target BEFORE this process starts, stored by a process that
		// followed a source whose current id was the position's id; newOutput (updateCheckpoint)
		// then labels the new output with the id the position is found under, as a restart does
		seedSrc := okSrc
		seedSrc.id1, seedSrc.id2 = c.sp.RunId, vf6ZeroId
		ln.cur.Store(&seedSrc)
		if ro, err = sy.newOutput(); err == nil {
			err = ro.setCheckpoint(bg, c.sp.RunId, c.sp.Offset, config.Version)
		}
		ln.cur.Store(&okSrc)
	}
	if err == nil {
		ro, err = sy.newOutput()
	}
	vf6CfgMu.Unlock()
	if err != nil {
		t.Fatalf("newOutput: %v", err)
	}
	if !a.resume && c.sp.RunId != "?" {
		ro.checkpointInMem = checkpoint.CheckpointInfo{Key: ro.cfg.CheckpointName, RunId: c.sp.RunId, Offset: c.sp.Offset, Version: config.Version}
	}
	// dimension audit (session 5): the OTHER side's state. Half of the attempts run on a target that is not the tool's
	// alone: another syncer's checkpoint (another name) under the SAME run ids and far ahead in databases 0 and 7, a
	// record of an older source (another run id) under OUR name far ahead in database 7, plain data in databases 3
	// and 9 (so that GetCheckpoint's walk over the non-empty databases visits four of them and ends in the last).
	// None of it may change what StartPoint answers, nor anything the attempt does afterwards (compared as before).
	foreign := (c.s1>>1)%2 == 1
	var spBefore StartPoint
	if foreign {
		spBefore, err = ro.StartPoint(bg, ids)
		if err != nil {
			t.Fatalf("real StartPoint: %v", err)
		}
		cli, cerr := ro.NewRedisConn(bg)
		if cerr != nil {
			t.Fatal(cerr)
		}
		for _, db := range []int{0, 7} {
			cli.Do("select", db)
			checkpoint.SetCheckpoint(cli, &checkpoint.CheckpointInfo{Key: "another-syncer-checkpoint", RunId: ids[0], Offset: 9000000 + int64(db), Version: config.Version})
		}
		checkpoint.SetCheckpoint(cli, &checkpoint.CheckpointInfo{Key: ro.cfg.CheckpointName, RunId: strings.Repeat("c", 40), Offset: 8000000, Version: config.Version})
		cli.Do("select", 3)
		cli.Do("set", "plain-key", "v")
		cli.Do("select", 9)
		cli.Do("hset", "plain-hash", "f", "v")
		cli.Close()
		h.s.Count("tgt_foreign_records_seeded")
	} else {
		h.s.Count("tgt_alone")
	}
	sp0, err := ro.StartPoint(bg, ids)
	if err != nil {
		t.Fatalf("real StartPoint: %v", err)
	}
	if foreign && (sp0.RunId != spBefore.RunId || sp0.Offset != spBefore.Offset) {
		h.s.Violate("foreign-record-read", fmt.Sprintf("output.StartPoint(%v) answered %s:%d on the tool's own records and %s:%d once another syncer's checkpoint, a record of another run id and plain data in other databases were on the target",
			ids, spBefore.RunId, spBefore.Offset, sp0.RunId, sp0.Offset), map[string]interface{}{"att": a.String()})
	}
	c.sp = StartPoint{RunId: sp0.RunId, Offset: sp0.Offset}

	// ---- the cache
	h.s.Count("cfg_resumeFromBreakPoint_" + vf6B(a.resume))
	h.drawCrc(c)
	if a.stale != nil && a.stale.snapLen > 8 && !c.cmd {
		config.GetSyncerConfig().Channel.VerifyCrc = false // the successor's PRF snapshot has no CRC trailer
	}
	inner := h.newChannel(c, dir)
	defer inner.Close()
	if err := h.populate(c, inner, w); err != nil {
		h.s.Count("att_populate_failed")
		s.aborted, s.abortWhy = false, ""
		return
	}

	// ---- the attempt
	ln.cur.Store(&src)
	proxy := &vf6Chan{inner: inner}
	rec := &vf6Output{sp: c.sp, final: final, proxy: proxy, patience: &h.patience, missed: &h.missed}
	real := &vf6RealOut{ro: ro, rec: rec, tg: tg, patience: &h.patience, missed: &h.missed}
	riCfg := inCfg
	if a.plan == "conn" {
		// the source refuses the connection (a port nobody listens on): newRedisConn, 3 tries, ErrRestart
		dl, err := vf6NewListener()
		if err != nil {
			t.Fatal(err)
		}
		riCfg.Addresses = []string{dl.ln.Addr().String()}
		dl.ln.Close()
	}
	ri := NewRedisInput(riCfg)
	rec.incr = func() usync.WaitChannel { return ri.StateNotify(SyncStateFullSynced) }
	late := func() { h.waitIngested(ri, proxy, final) }
	fo := &vf6FaultOut{Output: real, late: late, writers: func() int { proxy.mu.Lock(); defer proxy.mu.Unlock(); return len(proxy.wr) }}
	pf := &vf6ChanF{vf6Chan: proxy, late: late}
	switch a.plan {
	case "chan_del":
		proxy.failDel = true
	case "chan_set":
		proxy.failSet = true
	case "reset1":
		fo.failReset = 1
	case "reset2":
		fo.failReset = 2
	case "out_setrunid":
		fo.failSetRun = true
	case "writer":
		pf.failWriter = true
	case "reader":
		pf.failReader = true
	case "send":
		rec.failSnapshot = true
	case "locerr":
		pf.failLoc = true
	}
	fo.spFail = int32(strings.Index(a.spAns+"1", "1"))
	if !strings.Contains(a.spAns, "1") {
		fo.spFail = 1 << 20
	}
	ri.SetOutput(fo)
	ri.SetChannel(pf)
	done := make(chan error, 1)
	go func() { done <- ri.run() }()
	var runErr error
	ended := true
	select {
	case runErr = <-done:
	case <-time.After(time.Duration(h.patience.Load()) * time.Millisecond * 2):
		ended = false
	}
	op := a.opLine(tag, 0)
	rp := func() map[string]interface{} {
		m := map[string]interface{}{"case": op}
		for k, v := range replay {
			m[k] = v
		}
		return m
	}
	if !ended {
		// the attempt never returns (e.g. `$0`: sendPsync waits for a size that never comes and
		// looks at no context): the input neither delivers nor reconnects, Stop() cannot end it
		h.hang++
		h.s.Violate("attempt-never-ends", fmt.Sprintf("run() did not return within %d ms after the source answered (hdr=%s snapLen=%d)", 2*h.patience.Load(), a.hdr, src.snapLen), rp())
		h.s.Count("att_hang")
		return
	}

	src.mu.Lock()
	psyncs := append([]string(nil), src.psync...)
	reply := src.reply
	src.mu.Unlock()

	// ---- meta
	mline := tag + " meta none"
	full := strings.HasPrefix(reply, "full:")
	if len(psyncs) > 0 {
		f := strings.SplitN(psyncs[len(psyncs)-1], " ", 2)
		br := 0
		switch {
		case len(proxy.valid) > 0 && strings.HasSuffix(proxy.valid[0], "=1"):
			br = 1
		case len(proxy.valid) > 0:
			br = 2
		case len(proxy.rdbq) > 0 && !strings.HasPrefix(proxy.rdbq[0], "-1,") && !strings.HasSuffix(proxy.rdbq[0], ",-1"):
			br = 4
		case len(proxy.rdbq) > 0:
			br = 5
		case f[0] == "?":
			br = 6
		default:
			br = 3
		}
		// the decision's outcome (DelRunId due, run id) is observable only when the attempt got that far
		del, rid := "?", "?"
		if len(proxy.sets) > 0 {
			del, rid = vf6B(len(proxy.dels) > 0), vfutil.HexS(vf6Last(proxy.sets, ""))
		} else if len(proxy.dels) > 0 {
			del = "1"
		}
		mline = fmt.Sprintf("%s meta br=%d psync=%s:%s reply=%s full=%s del=%s rid=%s", tag, br, vfutil.HexS(f[0]), f[1], reply, vf6B(full), del, rid)
		if len(psyncs) != 1 {
			mline += fmt.Sprintf(" !psyncs=%d", len(psyncs))
		}
	}

	// ---- how far it got (from the calls observed, not from the plan)
	fo.mu.Lock()
	fired := fo.fired
	fo.mu.Unlock()
	switch {
	case proxy.failDel && proxy.faulted.Load():
		fired = "chan_del"
	case proxy.failSet && proxy.faulted.Load():
		fired = "chan_set"
	case pf.firedW.Load():
		fired = "writer"
	case pf.firedR.Load():
		fired = "reader"
	}
	stage := "?"
	switch fired {
	case "chan_del":
		stage = "early"
	case "chan_set":
		stage = "cleared"
	case "reset":
		stage = "relabelled"
		if len(proxy.wr) > 0 {
			stage = "written"
		}
	case "out_setrunid":
		stage = "reset"
	case "writer":
		stage = "metaDone"
	case "reader":
		stage = "written"
	default:
		switch {
		case rec.sent && rec.interrupted:
			stage = "interrupted"
		case rec.sent:
			stage = "delivered"
		case len(proxy.sets) == 0 && len(proxy.dels) == 0 && len(proxy.wr) == 0:
			stage = "early"
		default:
			stage = "aborted"
		}
	}
	stop := errors.Is(runErr, ErrBreak)
	sline := fmt.Sprintf("%s stage=%s stop=%s", tag, stage, vf6B(stop))
	if a.plan == "conn" && !stop {
		h.s.Violate("break-not-reported", fmt.Sprintf("the source refused the connection, run() returned %v: not ErrRestart/ErrBreak", runErr), rp())
	}
	if !strings.Contains(a.spAns, "1") && a.plan != "dial" && a.plan != "conn" && !stop {
		h.s.Violate("break-not-reported", fmt.Sprintf("output.StartPoint failed at every try, run() returned %v: not ErrBreak, the loop would go on asking a target that cannot tell its position", runErr), rp())
	}
	if fired != "" || stage == "early" || stage == "interrupted" {
		if runErr == nil {
			h.s.Violate("failed-attempt-not-reported", fmt.Sprintf("plan %s: the attempt stopped at stage %s, run() returned no error", a.plan, stage), rp())
		}
	}

	// ---- after / tgt
	arid := inner.RunId()
	al, as := inner.GetRdb(arid)
	cl, cr := inner.GetOffsetRange(arid)
	lsp, _ := inner.StartPoint(nil)
	aline := fmt.Sprintf("%s after runid=%s rdb=%d,%d range=%d,%d latest=%d", tag, vfutil.HexS(arid), al, as, cl, cr, lsp.Offset)
	ln.cur.Store(&okSrc)
	sp2, _ := ro.StartPoint(bg, nextIds)
	if sp2.Offset < 0 {
		sp2.RunId, sp2.Offset = "?", -1 // no position, whatever label it carries
	}
	tline := fmt.Sprintf("%s tgt stored=%s:%d", tag, vfutil.HexS(sp2.RunId), sp2.Offset)

	e := int64(0)
	if rec.sent && rec.kind == "aof" {
		e = rec.left + int64(len(rec.got))
	}
	op = a.opLine(tag, e)
	if a.plan == "locerr" {
		s.Op(op, mline, aline)
	} else {
		s.Op(op, mline, sline, aline, tline)
	}

	// ---- coverage
	kind := "plain"
	if a.stale != nil {
		kind = "stale"
	}
	h.s.Count("att_" + kind + "_plan_" + a.plan + "_stage_" + stage)
	h.s.Count("att_hdr_" + a.hdr + map[bool]string{true: "_full", false: "_cont"}[full])
	if src.snapLen <= 0 {
		h.s.Count("att_snaplen_nonpositive" + map[bool]string{true: "_full", false: "_cont"}[full])
	}
	if c.sp.Offset == 9223372036854775807 {
		h.s.Count("att_offset_wrap")
	}
	h.s.Count("att_resume_" + vf6B(a.resume))
	if a.stale != nil && len(psyncs) > 0 {
		h.s.Count("att_stale_" + map[bool]string{true: "full", false: "cont"}[full])
	}
	h.s.Distinct(fmt.Sprintf("att|%s|%s|%s|%s|%s|%s|%s", kind, a.plan, stage, vf6B(full), c.backend, vf6B(a.resume), a.hdr))

	// ---- monitors (independent of the Lean model)
	if al >= 0 && as <= 0 {
		h.s.Violate("snapshot-of-invalid-size-recorded", fmt.Sprintf("after the attempt the cache offers a snapshot (left %d, size %d) that it cannot have received (header hdr=%s snapLen=%d)", al, as, a.hdr, src.snapLen), rp())
	}
	if stage == "early" && (len(proxy.wr) > 0 || rec.sent) {
		h.s.Violate("early-failure-went-on", fmt.Sprintf("plan %s: writers=%v sent=%v", a.plan, proxy.wr, rec.sent), rp())
	}
	if fired != "" && rec.sent {
		h.s.Violate("delivered-after-failed-bookkeeping", fmt.Sprintf("%s failed, yet a %s reader (left %d) was handed to the output", fired, rec.kind, rec.left), rp())
	}
	if rec.sent && rec.kind == "aof" && c.wf() {
		want := w.histRange(ansSrc.id1, c.sp.Offset, final)
		if rec.left != c.sp.Offset || full || !bytes.Equal(rec.got, want) {
			h.s.Violate("stream-bytes", fmt.Sprintf("attempt (%s): log delivered from %d (%d bytes, full=%v); stored position %s:%d, expected the answering source's history from there (%d bytes)",
				kind, rec.left, len(rec.got), full, c.sp.RunId, c.sp.Offset, len(want)), rp())
		}
		if a.stale != nil && c.sp.Offset > a.stale.switchOff {
			h.s.Violate("continue-other-history", fmt.Sprintf("stored %s:%d is beyond the successor's switch offset %d, yet the stream continued", c.sp.RunId, c.sp.Offset, a.stale.switchOff), rp())
		}
	}
	if rec.sent && rec.kind == "rdb" && full && c.wf() && !rec.interrupted {
		if rec.left != ansSrc.master || rec.size != ansSrc.snapLen || !bytes.Equal(rec.got, w.snapBytes(ansSrc.id1, ansSrc.master, ansSrc.snapLen)) {
			h.s.Violate("snapshot-bytes", fmt.Sprintf("attempt (%s): snapshot (%d,%d, %d bytes) is not the answering source's (%d,%d)", kind, rec.left, rec.size, len(rec.got), ansSrc.master, ansSrc.snapLen), rp())
		}
	}
}

func vf6GenAtt(r *vfutil.Rand) *vf6Att {
	var c *vf6Case
	for {
		c = vf6GenCase(r)
		if !c.nonContig && c.wf() {
			break
		}
	}
	c.fresh = false
	a := &vf6Att{c: c, resume: r.Bool(), hdr: "len", spAns: "1"}
	a.plan = vfutil.Pick(r, []string{"dial", "chan_del", "chan_set", "reset1", "reset1", "out_setrunid", "writer", "reader", "reset2", "send", "none", "none", "locerr"})
	s := &c.src
	switch r.Intn(24) {
	case 0:
		a.hdr = "eof"
	case 1:
		a.hdr = "junk"
	case 2:
		s.snapLen = 0
	case 3:
		s.snapLen = -int64(r.Range(1, 9))
	}
	if r.Chance(1, 14) && c.sp.RunId != "?" {
		c.sp.Offset = 9223372036854775807 // offset+1 wraps
	}
	if r.Chance(1, 3) && a.plan != "locerr" {
		// the source failed over between INFO and PSYNC: the successor's previous id is the id INFO reported
		pts := []int64{c.sp.Offset, c.sp.Offset - 1, c.sp.Offset + 1, s.master, s.master - 5, s.master / 2}
		if c.hasAof {
			pts = append(pts, c.aofR, c.aofR-1, c.aofR+1, c.aofL)
		}
		if c.hasRdb {
			pts = append(pts, c.rdbLeft, c.rdbLeft+1)
		}
		sw := vf6Clamp(vfutil.Pick(r, pts) + int64(r.Range(-1, 1)))
		if sw > s.master {
			sw = s.master
		}
		p := &vf6Source{id1: vf6HexId(r), id2: s.id1, switchOff: sw, backlog: !r.Chance(1, 10), snapLen: int64(r.Range(1, 200)), capaId: !r.Chance(1, 8), k: int64(r.Intn(90))}
		p.master = sw + int64(r.Intn(300))
		switch r.Intn(3) {
		case 0:
			p.first = 1
		case 1:
			p.first = 1 + int64(r.Intn(int(sw)+1))
		default:
			p.first = 1 + int64(r.Intn(int(p.master)+1))
		}
		p.blen = p.master + 1 - p.first
		a.stale, a.seedB = p, uint64(r.Range(1, 99999))
		if s.snapLen <= 0 {
			p.snapLen = s.snapLen
		}
	}
	return a
}

// ---------------------------------------------------------------- the loop (real RedisInput.Run)

type vf6LoopOut struct {
	*vf6Output
	okCalls int32 // StartPoint answers this many times, then fails
	n       int32
	onStart func(n int32)
	fail1st atomic.Bool // the first Send fails after it received everything
	failErr error       // … with this error (nil: a plain error)
	atSend  func()
}

func (o *vf6LoopOut) StartPoint(ctx context.Context, ids []string) (StartPoint, error) {
	n := atomic.AddInt32(&o.n, 1)
	if o.onStart != nil {
		o.onStart(n)
	}
	if n > o.okCalls {
		return StartPoint{}, fmt.Errorf("injected by the C06 harness: output.StartPoint failed")
	}
	return o.vf6Output.StartPoint(ctx, ids)
}

func (o *vf6LoopOut) Send(ctx context.Context, reader ChannelReader) error {
	err := o.vf6Output.Send(ctx, reader)
	if o.atSend != nil {
		o.atSend()
	}
	if err == nil && o.fail1st.CompareAndSwap(true, false) {
		if o.failErr != nil {
			return errors.Join(o.failErr, fmt.Errorf("injected by the C06 harness: replay failed"))
		}
		return fmt.Errorf("injected by the C06 harness: replay failed")
	}
	return err
}

type vf6LoopRes struct {
	op    string
	lines []string
	viol  []vf6Viol
	count []string
}

// vf6RunLoop: events f (attempt 1: FULLRESYNC, the replay fails -> 2 s back-off), c (attempt 2
// completes, Send returns nil -> the next attempt at once), b (attempt 3: output.StartPoint fails
// three times -> ErrBreak): Run must return ErrBreak after exactly three attempts, the cache
// must not change between the end of attempt 1 and the start of attempt 2, and no attempt may
// follow the break.
// Scripts "k" / "q": the first attempt's Send ends with an error that wraps ErrBreak - ErrCorrupted (what
// RedisOutput.Send returns when the reader met a damaged segment; Run then calls DelRunId) or ErrQuit:
// Run must return after that ONE attempt, the cache dropped (k) / kept (q).
func vf6RunLoop(t *testing.T, inCfg config.RedisConfig, ln *vf6Listener, backend string, seed uint64, script string) *vf6LoopRes {
	res := &vf6LoopRes{op: "runloop #T " + script}
	id := vf6HexId(vfutil.NewRand(seed))
	w := &vf6World{id1: id, id2: vf6ZeroId, switchOff: -2, sb: 1, s1: seed%99999 + 1, s2: 2, so: 3}
	var nInfo atomic.Int32
	src := &vf6Source{id1: id, id2: vf6ZeroId, switchOff: -2, backlog: true, first: 1, blen: 400, master: 400, snapLen: 8, capaId: true, k: 20, w: w, nInfo: &nInfo} // 8 bytes: legal for a verifying reader too (the main sequence draws channel.verifyCrc meanwhile)
	ln.cur.Store(src)
	var ch Channel
	dir, _ := os.MkdirTemp("", "vfc06l-")
	defer os.RemoveAll(dir)
	if backend == "m" {
		ch = NewMemoryChannel(MemoryConf{InputId: "vfl", MaxSize: 0, LogSize: 1 << 20})
	} else {
		ch = NewStoreChannel(StorerConf{InputId: "vfl", Dir: dir, MaxSize: -1, LogSize: 1 << 20})
	}
	defer ch.Close()
	var patience atomic.Int64
	var missed atomic.Bool
	patience.Store(10000)
	proxy := &vf6Chan{inner: ch}
	rec := &vf6Output{sp: StartPoint{RunId: "?", Offset: -1}, final: 420, proxy: proxy, patience: &patience, missed: &missed}
	state := func() string {
		rid := ch.RunId()
		l, sz := ch.GetRdb(rid)
		a, b := ch.GetOffsetRange(rid)
		return fmt.Sprintf("%s rdb=%d,%d range=%d,%d", rid, l, sz, a, b)
	}
	var mu sync.Mutex
	var atSend1, atStart2 string
	var tSend1, tStart2 time.Time
	lo := &vf6LoopOut{vf6Output: rec, okCalls: 2}
	lo.fail1st.Store(true)
	switch script {
	case "k":
		lo.failErr = ErrCorrupted
	case "q":
		lo.failErr = ErrQuit
	}
	sends := 0
	lo.atSend = func() {
		mu.Lock()
		sends++
		if sends == 1 {
			atSend1, tSend1 = state(), time.Now()
		}
		mu.Unlock()
	}
	lo.onStart = func(n int32) {
		if n == 2 {
			mu.Lock()
			atStart2, tStart2 = state(), time.Now()
			mu.Unlock()
		}
	}
	ri := NewRedisInput(inCfg)
	rec.incr = func() usync.WaitChannel { return ri.StateNotify(SyncStateFullSynced) }
	ri.SetOutput(lo)
	ri.SetChannel(proxy)
	done := make(chan error, 1)
	go func() { done <- ri.Run() }()
	var runErr error
	returned := true
	select {
	case runErr = <-done:
	case <-time.After(45 * time.Second):
		returned = false
	}
	atEnd := nInfo.Load()
	time.Sleep(300 * time.Millisecond)
	after := nInfo.Load()
	cacheS := "kept"
	if rid := ch.RunId(); rid == "" {
		if l, _ := ch.GetRdb(rid); l < 0 {
			if a, b := ch.GetOffsetRange(rid); a < 0 && b < 0 {
				cacheS = "cleared"
			}
		}
	}
	res.lines = []string{fmt.Sprintf("#T attempts=%d stopped=%s cache=%s", after, vf6B(returned && errors.Is(runErr, ErrBreak)), cacheS)}
	rp := map[string]interface{}{"scenario": "runloop " + script + " backend=" + backend}
	if script != "f s c b" {
		if !returned {
			res.viol = append(res.viol, vf6Viol{"loop-does-not-stop-on-break", "Run() did not return within 45 s although the attempt ended with an error that wraps ErrBreak (" + script + ")", rp})
			ri.Stop()
		}
		if script == "k" && returned && cacheS != "cleared" {
			// the reader reported a damaged segment; the loop is left (ErrCorrupted wraps ErrBreak): the cache the
			// next process opens must not hold those bytes any more
			res.viol = append(res.viol, vf6Viol{"corrupted-cache-kept", fmt.Sprintf("the attempt ended with ErrCorrupted and Run() returned, yet the cache still holds %s: the next start serves the damaged bytes again", state()), rp})
		}
		res.count = append(res.count, "runloop_"+script+"_"+backend)
		return res
	}
	if !returned {
		res.viol = append(res.viol, vf6Viol{"loop-does-not-stop-on-break", "Run() did not return within 45 s although output.StartPoint failed three times", rp})
		ri.Stop()
		return res
	}
	if after != atEnd {
		res.viol = append(res.viol, vf6Viol{"attempt-after-break", fmt.Sprintf("the source was asked INFO %d times when Run returned, %d times 300 ms later", atEnd, after), rp})
	}
	mu.Lock()
	defer mu.Unlock()
	if atSend1 != "" && atStart2 != "" && atSend1 != atStart2 {
		res.viol = append(res.viol, vf6Viol{"state-changed-during-backoff", fmt.Sprintf("cache at the end of the failed attempt: %s ; at the start of the next: %s", atSend1, atStart2), rp})
	}
	if !tStart2.IsZero() && tStart2.Sub(tSend1) < 1900*time.Millisecond {
		res.viol = append(res.viol, vf6Viol{"no-backoff-after-failed-attempt", fmt.Sprintf("the next attempt started %v after the failed one", tStart2.Sub(tSend1)), rp})
	}
	res.count = append(res.count, "runloop_"+backend)
	return res
}

// ---------------------------------------------------------------- bisync start feeding syncMeta

// bisyncStart: the REAL RedisOutput in bisync mode (frontier snapshot in pipeline mode, per-slot
// latest record in sync mode, root checkpoint) answers StartPoint; the REAL RedisInput.run takes that
// answer through syncMeta. One `sync` op (the Lean `run` on the answer, `step` for the position
// afterwards); the monitor requires a log delivery to start exactly at the committed position X.
func (h *vf6AttH) bisyncStart(mode config.ReplayMode, lost bool, r *vfutil.Rand) {
	t := h.t
	ctx := context.Background()
	A := vf6HexId(r)
	tg := vfdoubles.NewTarget()
	tg.Lenient = true
	defer tg.CloseAll()
	ro := vf6BisyncOutput(tg, mode, A)
	e0, x := int64(r.Range(50, 400)), int64(0)
	x = e0 + int64(r.Range(10, 300))
	if err := ro.setCheckpoint(ctx, A, e0, config.Version); err != nil {
		t.Fatal(err)
	}
	cli, _ := ro.NewRedisConn(ctx)
	checkpoint.SetCheckpointHash(cli, A, "vfcp")
	if mode.UsesFrontier() {
		if err := checkpoint.SaveBisyncFrontierSnapshot(cli, checkpoint.BisyncFrontierKey("vfcp"),
			&checkpoint.BisyncFrontierSnapshot{Version: config.Version, RunID: A, UnitSeq: 5, Offset: x, MTime: 1}); err != nil {
			t.Fatal(err)
		}
	} else {
		rec := &checkpoint.BisyncCommitRecord{RecordType: "latest", Version: config.Version, RunID: A, SyncerID: "vf", UnitSeq: 5,
			StartOffset: x - 10, EndOffset: x, Slot: 0, Digest: "d", MTime: 1}
		rec.Key = checkpoint.BisyncLatestCheckpointKey("vfcp", checkpoint.BisyncSlotTag(0))
		args := append([]interface{}{rec.Key}, rec.HashArgs()...)
		if _, err := cli.Do("hset", args...); err != nil {
			t.Fatal(err)
		}
	}
	cli.Close()
	c := &vf6Case{backend: vfutil.Pick(r, []string{"d", "m"}), logSize: 1 << 20}
	c.sb, c.s1, c.s2, c.so = 1, uint64(r.Range(1, 99999)), 2, 3
	master := x + int64(r.Range(0, 200))
	c.src = vf6Source{id1: A, id2: vf6ZeroId, switchOff: -2, backlog: true, first: 1, blen: master, master: master, snapLen: int64(r.Range(1, 100)), capaId: true, k: int64(r.Intn(60))}
	if lost {
		c.src.first, c.src.blen = x+2, master-x-1 // the backlog no longer holds X+1: FULLRESYNC
		if c.src.blen < 0 {
			c.src.first, c.src.blen = master+1, 0
		}
	}
	h.nCase++
	dir := filepath.Join(h.tmp, fmt.Sprintf("b%d", h.nCase))
	os.MkdirAll(dir, 0o777)
	defer os.RemoveAll(dir)
	ch := h.newChannel(c, dir)
	defer ch.Close()
	real := &vf6RealOut{ro: ro, tg: tg, patience: &h.patience, missed: &h.missed}
	truth := &vf6Truth{id: A, upto: x}
	res := h.round(c, ch, map[string]interface{}{"scenario": fmt.Sprintf("bisync-start mode=%s root=%d committed=%d lost=%v", mode, e0, x, lost)}, real, truth)
	if c.sp.RunId != A || c.sp.Offset != x {
		h.sink.Violate("bisync-start-not-committed-position", fmt.Sprintf("mode %s: root %d, recovery state at %d; StartPoint answered %s:%d", mode, e0, x, c.sp.RunId, c.sp.Offset),
			map[string]interface{}{"mode": string(mode)})
	}
	h.s.Count(fmt.Sprintf("bisync_start_%s_%s", mode, res.delivered))
}

// ---------------------------------------------------------------- collector pass inside syncMeta

// vf6GcChan runs a collector pass right after syncMeta's GetRdb query (before the PSYNC round trip
// and the later GetOffsetRange / writer creation).
type vf6GcChan struct {
	*vf6Chan
	once sync.Once
	pass func()
}

func (p *vf6GcChan) GetRdb(id string) (int64, int64) {
	l, sz := p.vf6Chan.GetRdb(id)
	p.once.Do(p.pass)
	return l, sz
}

// gcRace (monitor only; review C05-r4 3 ii): disk cache with a size limit below its newest segment -
// one pass of the REAL collector (the 30 s job) removes snapshot and log. The target has no position,
// the cache holds a snapshot: syncMeta asks GetRdb (valid), the pass runs, PSYNC <id> latest+1 is
// granted, and syncMeta re-reads the cache (GetOffsetRange) for the writer's offset. The writer must
// store the bytes the source sends at the offsets they have (psync-offset-convention), the cache must
// read back as the history, and whatever is delivered must start at the stored position.
func (h *vf6AttH) gcRace(r *vfutil.Rand) {
	id := vf6HexId(r)
	size := int64(r.Range(2, 12))
	left := size + int64(r.Range(0, 6)) // the reader start left-size is small and non-negative
	n := int64(r.Range(30, 90))
	w := &vf6World{id1: id, id2: vf6ZeroId, switchOff: -2, sb: 1, s1: uint64(r.Range(1, 99999)), s2: 2, so: 3}
	h.nCase++
	dir := filepath.Join(h.tmp, fmt.Sprintf("g%d", h.nCase))
	os.MkdirAll(dir, 0o777)
	defer os.RemoveAll(dir)
	sc := NewStoreChannel(StorerConf{InputId: "vf", Dir: dir, MaxSize: 16, LogSize: 1 << 20})
	defer sc.Close()
	c := &vf6Case{backend: "d", cRun: id, tokId: id, hasRdb: true, rdbLeft: left, rdbSize: size, hasAof: true, aofL: left, aofR: left + n, s1: w.s1}
	c.src.id1, c.src.id2, c.src.switchOff = id, vf6ZeroId, -2
	if err := h.populate(c, sc, w); err != nil {
		h.s.Count("gcrace_populate_failed")
		return
	}
	master := left + n
	k := int64(r.Range(20, 60))
	src := &vf6Source{id1: id, id2: vf6ZeroId, switchOff: -2, backlog: true, first: 1, blen: master, master: master, snapLen: size, capaId: true, k: k, w: w}
	h.ln.cur.Store(src)
	h.missed.Store(false)
	proxy := &vf6Chan{inner: sc}
	gp := &vf6GcChan{vf6Chan: proxy, pass: func() { sc.(*StoreChannel).storer.VerifGcLog() }}
	out := &vf6Output{sp: StartPoint{RunId: "?", Offset: -1}, final: master + k, proxy: proxy, patience: &h.patience, missed: &h.missed, noWait: true}
	ri := NewRedisInput(h.inCfg)
	ri.SetOutput(out)
	ri.SetChannel(gp)
	out.incr = func() usync.WaitChannel { return ri.StateNotify(SyncStateFullSynced) }
	runErr := ri.run()
	src.mu.Lock()
	psyncs := append([]string(nil), src.psync...)
	reply := src.reply
	src.mu.Unlock()
	state := fmt.Sprintf("disk cache maxSize=16: snapshot (%d,%d), log [%d,%d) in one segment; collector pass after syncMeta's GetRdb; psync=%v reply=%s writers=%v reader=%v sent=%v kind=%s left=%d err=%v",
		left, size, left, left+n, psyncs, reply, proxy.wr, proxy.rd, out.sent, out.kind, out.left, runErr != nil)
	rp := map[string]interface{}{"scenario": state}
	h.s.Count("gcrace")
	if len(psyncs) == 1 && strings.HasPrefix(reply, "cont:") && len(proxy.wr) > 0 {
		req, _ := strconv.ParseInt(strings.SplitN(psyncs[0], " ", 2)[1], 10, 64)
		if proxy.wr[0] != fmt.Sprintf("aof:%d", req-1) {
			h.s.Violate("psync-offset-convention", fmt.Sprintf("PSYNC asked for byte %d but the writer stores from %s (%s)", req, proxy.wr[0], state), rp)
		}
	}
	if out.sent && out.kind == "aof" {
		h.s.Violate("continue-foreign-id", fmt.Sprintf("the target has no position, yet a log reader at %d was handed to the output (%s)", out.left, state), rp)
	}
	if len(proxy.wr) == 0 {
		h.s.Count("gcrace_attempt_refused")
	}
}

// ---------------------------------------------------------------- request-level cuts

// vf6Cut: the process dies at EVERY target request of a (re)connection.
//
// The target follows history A up to X (position stored by the real output; optionally a stale
// lower record of the same label in another database, as multi-database traffic leaves it). The
// source changes (kind): "replaced" = an unrelated history C; "failover" = C with A as previous id
// and a switch offset below X; "behind" = the same id A whose offset is below X (writes lost).
// One connection runs un-cut on the real output (newOutput, syncMeta's bookkeeping, sendOutput, the
// position stored after the replay); its target request log is the crash-point space: for every
// prefix the target double is rebuilt from the prefix, the cache is lost, the process starts again
// (newOutput = updateCheckpoint, then the real run) against the source, whose backlog covers X+1 and
// the stale offset + 1. Judged by the ground truth of the target's data: before the replay began it
// is A up to X, afterwards the new snapshot; a log delivery must start exactly there, in a history
// that agrees with it (continue-other-history / stream-after-interrupted-snapshot otherwise).
type vf6Cut struct {
	kind    string // replaced | failover | behind
	backend string
	send    string // rec: Send records and stores the position as SendRdb/sendAof do; real: the REAL RedisOutput.Send replays onto the target double and the truth is read from its data
	stale   string // "" | same: a stale lower record of label A in database 5 | other: a stale lower record under the NEW id (failover), as an interrupted relabel leaves it
	x       int64  // position the target holds in A
	low     int64  // stale record
	s       int64  // switch offset (failover)
	o       int64  // the source's offset when the tool connects
	snap    int64
	seedA   uint64
	seedC   uint64
}

func (cd *vf6Cut) String() string {
	return fmt.Sprintf("cut kind=%s backend=%s send=%s stale=%s x=%d low=%d s=%d o=%d snap=%d seedA=%d seedC=%d", cd.kind, cd.backend, cd.send, cd.stale, cd.x, cd.low, cd.s, cd.o, cd.snap, cd.seedA, cd.seedC)
}

func vf6ParseCut(l string) (*vf6Cut, error) {
	f := strings.Fields(l)
	if len(f) < 2 || f[0] != "cut" {
		return nil, fmt.Errorf("not a cut line")
	}
	cd := &vf6Cut{send: "rec"}
	for _, kv := range f[1:] {
		p := strings.SplitN(kv, "=", 2)
		if len(p) != 2 {
			return nil, fmt.Errorf("bad field %q", kv)
		}
		n, _ := strconv.ParseInt(p[1], 10, 64)
		switch p[0] {
		case "kind":
			cd.kind = p[1]
		case "backend":
			cd.backend = p[1]
		case "send":
			cd.send = p[1]
		case "stale":
			cd.stale = p[1]
			if p[1] == "true" {
				cd.stale = "same"
			} else if p[1] == "false" {
				cd.stale = ""
			}
		case "x":
			cd.x = n
		case "low":
			cd.low = n
		case "s":
			cd.s = n
		case "o":
			cd.o = n
		case "snap":
			cd.snap = n
		case "seedA":
			cd.seedA = uint64(n)
		case "seedC":
			cd.seedC = uint64(n)
		}
	}
	return cd, nil
}

func vf6GenCut(r *vfutil.Rand, kind, send string) *vf6Cut {
	cd := &vf6Cut{kind: kind, send: send, backend: vfutil.Pick(r, []string{"d", "m"}),
		snap: int64(r.Range(1, 120)), seedA: uint64(r.Range(1, 99999)), seedC: uint64(r.Range(1, 99999))}
	for cd.seedC%26 == cd.seedA%26 {
		cd.seedC++ // real streams: the two histories carry different tags
	}
	if cd.kind == "" {
		cd.kind = vfutil.Pick(r, []string{"replaced", "failover", "failover", "behind"})
	}
	if send == "real" && cd.kind == "behind" {
		cd.kind = "failover" // same id, same tag: the data cannot tell the source's timeline from the target's
	}
	cd.stale = vfutil.Pick(r, []string{"", "same", "same"})
	if cd.kind == "failover" {
		cd.stale = vfutil.Pick(r, []string{"", "same", "other", "other"})
	}
	cd.x = int64(r.Range(160, 500))
	cd.low = int64(r.Range(10, int(cd.x)-100))
	switch cd.kind {
	case "replaced":
		cd.s, cd.o = -2, cd.x+1+int64(r.Range(0, 300)) // the new history's backlog covers X+1
	case "failover":
		cd.s = cd.low + int64(r.Intn(int(cd.x-cd.low)-50)) // low <= s < x : the old master was ahead
		cd.o = cd.s + int64(r.Range(0, 300))
	case "behind":
		cd.s, cd.o = -2, cd.low+1+int64(r.Intn(int(cd.x-cd.low)-50)) // low < o < x
	}
	if send == "real" {
		// real streams and snapshots: every offset is a command boundary
		for _, p := range []*int64{&cd.x, &cd.low, &cd.o} {
			*p = (*p/8 + 1) * vf6CmdLen
		}
		if cd.kind == "failover" {
			cd.s = (cd.s / 8) * vf6CmdLen
			if cd.o < cd.s {
				cd.o = cd.s
			}
		}
	}
	return cd
}

// vf6TruthFromData reads what the target double really holds: the newest complete snapshot (both of
// its keys) and the stream commands of that history applied on top of it; one key of a snapshot alone
// is an interrupted replay.
func vf6TruthFromData(tg *vfdoubles.Target, A string, tagA byte, oA int64, C string, tagC byte, o int64) *vf6Truth {
	has := func(tag byte, off int64, part string) bool { return tg.Get(0, vf6SnapKey(tag, off, part)) != nil }
	count := func(tag byte, from int64) int64 {
		var n int64
		for _, k := range tg.Keys(0) {
			if len(k) != 8 || k[0] != 'k' {
				continue
			}
			if v := tg.Get(0, k); v != nil && len(v.Str) == 8 && v.Str[0] == tag {
				if i, err := strconv.ParseInt(string(v.Str[1:]), 10, 64); err == nil && i >= from/vf6CmdLen {
					n++
				}
			}
		}
		return n
	}
	ca, cb := has(tagC, o, "a"), has(tagC, o, "b")
	switch {
	case ca != cb:
		return &vf6Truth{dirty: true}
	case ca && cb:
		return &vf6Truth{id: C, upto: o + vf6CmdLen*count(tagC, o)}
	case has(tagA, oA, "a") && has(tagA, oA, "b"):
		return &vf6Truth{id: A, upto: oA + vf6CmdLen*count(tagA, oA)}
	}
	return &vf6Truth{none: true}
}

// cutSweep runs the schedule; every == false samples the cut points after the hand-over (quick tier).
func (h *vf6AttH) cutSweep(cd *vf6Cut, inCfg, outCfg config.RedisConfig, ln *vf6Listener, bridge *vf6Bridge, r *vfutil.Rand, every bool) {
	t := h.t
	bg := context.Background()
	realSend := cd.send == "real"
	unit := int64(1)
	if realSend {
		unit = vf6CmdLen
	}
	idOf := func(seed uint64, tag byte) string {
		return strings.Repeat(string([]byte{tag}), 8) + fmt.Sprintf("%032x", seed)
	}
	A, C := idOf(cd.seedA, 'a'), idOf(cd.seedC, 'c')
	sy := &syncer{cfg: SyncerConfig{Input: inCfg, Output: outCfg}, logger: log.WithLogger("[vf6c] "), wait: usync.NewWaitCloser(nil)}
	newOut := func(src vf6Source, tg *vfdoubles.Target) *vf6RealOut {
		bridge.cur.Store(tg)
		ln.cur.Store(&src) // newOutput asks the source for its ids
		vf6CfgMu.Lock()
		*config.GetSyncerConfig().Output.Replay.ResumeFromBreakPoint = true
		ro, err := sy.newOutput()
		vf6CfgMu.Unlock()
		if err != nil {
			t.Fatalf("newOutput: %v", err)
		}
		return &vf6RealOut{ro: ro, tg: tg, realSend: realSend, patience: &h.patience, missed: &h.missed}
	}
	mkdir := func() string {
		h.nCase++
		dir := filepath.Join(h.tmp, fmt.Sprintf("k%d", h.nCase))
		os.MkdirAll(dir, 0o777)
		return dir
	}
	oA := cd.x - 2*unit // real: A's snapshot was taken here, the stream carried the target on to X
	srcA := vf6Source{id1: A, id2: vf6ZeroId, switchOff: -2, backlog: true, first: 1, blen: oA, master: oA, snapLen: cd.snap, capaId: true}
	src := vf6Source{id1: C, id2: vf6ZeroId, switchOff: -2, backlog: true, first: 1, blen: cd.o, master: cd.o, snapLen: cd.snap, capaId: true, k: unit * int64(r.Intn(6))}
	switch cd.kind {
	case "failover":
		src.id2, src.switchOff = A, cd.s
	case "behind":
		src.id1 = A
	}
	seeds := func(c *vf6Case) {
		switch cd.kind {
		case "failover":
			c.s1, c.sb, c.s2, c.so = cd.seedC, cd.seedA, cd.seedA, 3
		case "behind":
			c.s1, c.sb, c.s2, c.so = cd.seedA, 1, 2, 3
		default:
			c.s1, c.sb, c.s2, c.so = cd.seedC, 1, 2, cd.seedA
		}
	}
	tagA, tagC := vf6Tag(cd.seedA), vf6Tag(cd.seedC)
	all := []*vf6Sink{}
	keep := func() bool {
		ok := !h.sink.aborted && !h.missed.Load()
		h.missed.Store(false)
		if ok {
			all = append(all, h.sink)
		}
		return ok
	}

	// ---- the life before: A replicated up to X
	tg := vfdoubles.NewTarget()
	tg.Lenient = true
	defer tg.CloseAll()
	truth := &vf6Truth{id: A, upto: cd.x}
	r0 := newOut(srcA, tg)
	if realSend {
		// really: the snapshot of A at oA and the stream up to X, through the real Send
		*truth = vf6Truth{none: true}
		dirA := mkdir()
		cA := vf6Case{backend: cd.backend, logSize: 1 << 20, src: srcA, cmd: true, s1: cd.seedA, sb: 1, s2: 2, so: 3}
		chA := h.newChannel(&cA, dirA)
		h.sink = &vf6Sink{}
		res := h.round(&cA, chA, map[string]interface{}{"schedule": cd.String(), "cut": -3, "round": 0}, r0, truth)
		if keep() {
			n := res.after
			n.src = srcA
			n.src.k = cd.x - oA
			n.s1, n.sb, n.s2, n.so = cd.seedA, 1, 2, 3
			h.sink = &vf6Sink{}
			h.round(&n, chA, map[string]interface{}{"schedule": cd.String(), "cut": -2, "round": 0}, r0, truth)
		}
		chA.Close()
		os.RemoveAll(dirA)
		if !keep() || truth.id != A || truth.upto != cd.x {
			h.s.Count("cut_first_life_unusable")
			return
		}
	} else if err := r0.ro.setCheckpoint(bg, A, cd.x, config.Version); err != nil {
		t.Fatalf("seed checkpoint: %v", err)
	}
	if cd.stale != "" {
		label := A
		if cd.stale == "other" && cd.kind == "failover" {
			label = C
		}
		cli, err := r0.ro.NewRedisConn(bg)
		if err != nil {
			t.Fatal(err)
		}
		if _, err := cli.Do("select", 5); err != nil {
			t.Fatal(err)
		}
		if err := checkpoint.SetCheckpoint(cli, &checkpoint.CheckpointInfo{Key: r0.ro.cfg.CheckpointName, RunId: label, Offset: cd.low, Version: config.Version}); err != nil {
			t.Fatal(err)
		}
		cli.Close()
	}
	base := tg.LogLen()

	// ---- the connection whose requests are the crash points
	real1 := newOut(src, tg)
	logAtSend := -1
	real1.onSend = func() {
		if logAtSend < 0 {
			logAtSend = tg.LogLen()
		}
	}
	dir1 := mkdir()
	c1 := vf6Case{backend: cd.backend, logSize: 1 << 20, src: src, cmd: realSend}
	seeds(&c1)
	ch1 := h.newChannel(&c1, dir1)
	h.sink = &vf6Sink{}
	h.round(&c1, ch1, map[string]interface{}{"schedule": cd.String(), "cut": -1, "round": 0}, real1, truth)
	ch1.Close()
	os.RemoveAll(dir1)
	if !keep() {
		h.s.Count("cut_uncut_run_unusable")
		return
	}
	log0 := tg.LogCopy()
	if logAtSend < 0 {
		logAtSend = len(log0)
	}
	n := len(log0) - base
	h.s.Count("cut_schedules_" + cd.kind + "_" + cd.send)
	if cd.stale != "" {
		h.s.Count("cut_schedules_stale_" + cd.stale)
	}
	h.s.Add("cut_requests", n)
	for k := 0; k <= n; k++ {
		// every request up to the hand-over to Send (newOutput and syncMeta's bookkeeping: the windows are one
		// or two requests wide); the requests of the replay and of its position write are sampled in the quick tier
		if !every && base+k > logAtSend+1 && k < n-1 && !r.Chance(1, 3) {
			continue
		}
		h.sink = &vf6Sink{}
		tgk := vfdoubles.ReplayWith(log0[:base+k], 0, true)
		var tk *vf6Truth
		if realSend {
			tk = vf6TruthFromData(tgk, A, tagA, oA, src.id1, tagC, cd.o)
		} else if base+k > logAtSend {
			// the recording Send had received the new snapshot in full before this request
			tk = &vf6Truth{id: src.id1, upto: cd.o}
		} else {
			tk = &vf6Truth{id: A, upto: cd.x}
		}
		if tk.dirty {
			h.s.Count("cut_points_dirty_target")
		}
		src2 := src
		src2.master += unit * int64(r.Intn(5))
		src2.blen = src2.master
		src2.k = unit * int64(r.Intn(6))
		real2 := newOut(src2, tgk)
		dir := mkdir()
		c2 := vf6Case{backend: cd.backend, logSize: 1 << 20, src: src2, cmd: realSend}
		seeds(&c2)
		ch := h.newChannel(&c2, dir) // the cache is lost with the process (memory channel, or another instance takes over)
		h.round(&c2, ch, map[string]interface{}{"schedule": cd.String(), "cut": k, "round": 0,
			"cut_at": fmt.Sprintf("request %d of %d of the connection: %s", k, n, vf6LogAt(log0, base+k-1))}, real2, tk)
		ch.Close()
		os.RemoveAll(dir)
		tgk.CloseAll()
		if !keep() {
			h.s.Count("cut_restart_unusable")
			continue
		}
		h.s.Count("cut_points")
	}
	for _, sk := range all {
		sk.commit(h.vf6H)
	}
}

func vf6LogAt(l []vfdoubles.LogEntry, i int) string {
	if i < 0 || i >= len(l) {
		return "(none)"
	}
	s := l[i].String()
	if len(s) > 160 {
		s = s[:160] + "…"
	}
	return s
}

// ---------------------------------------------------------------- test

func TestVerifC06Att(t *testing.T) {
	s := vfutil.NewSession("C06c")
	defer s.Close()
	r := vfutil.NewRand(vfutil.Seed() ^ 0x6a77)

	tmp, err := os.MkdirTemp("", "vfc06a-")
	if err != nil {
		t.Fatal(err)
	}
	defer os.RemoveAll(tmp)
	mk := func() (*vf6Listener, *vf6Bridge) {
		ln, err := vf6NewListener()
		if err != nil {
			t.Fatal(err)
		}
		b, err := vf6NewBridge()
		if err != nil {
			t.Fatal(err)
		}
		return ln, b
	}
	ln, bridge := mk()
	defer ln.ln.Close()
	defer bridge.ln.Close()
	yml := fmt.Sprintf("input:\n  redis:\n    addresses: [\"%s\"]\noutput:\n  redis:\n    addresses: [\""+bridge.ln.Addr().String()+"\"]\nchannel:\n  storer:\n    dirPath: %s\nlog:\n  level: panic\n",
		ln.ln.Addr().String(), filepath.Join(tmp, "cfgdir"))
	yp := filepath.Join(tmp, "cfg.yaml")
	if err := os.WriteFile(yp, []byte(yml), 0o644); err != nil {
		t.Fatal(err)
	}
	if err := config.InitSyncerConfig(yp); err != nil {
		t.Fatal(err)
	}
	log.InitLog(*config.GetSyncerConfig().Log)
	config.GetSyncerConfig().Output.Replay.BatchTicker = 2 * time.Millisecond
	config.GetSyncerConfig().Output.Replay.UpdateCheckpointTicker = 3 * time.Millisecond
	config.GetSyncerConfig().Output.Replay.Stats.DisableLog = true
	inCfg := *config.GetSyncerConfig().Input.Redis
	outCfg := *config.GetSyncerConfig().Output.Redis
	h := &vf6AttH{vf6H: &vf6H{t: t, s: s, ln: ln, tmp: tmp, inCfg: inCfg}, bridge: bridge}
	h.patience.Store(10000)

	// one attempt op on a lane of its own (listener, bridge, sink); the caller commits the sink
	lane := func(a0 *vf6Att, name string) *vf6AttH {
		ln2, b2 := mk()
		in2, out2 := inCfg, outCfg
		in2.Addresses = []string{ln2.ln.Addr().String()}
		out2.Addresses = []string{b2.ln.Addr().String()}
		d := filepath.Join(tmp, name)
		os.MkdirAll(d, 0o777)
		h2 := &vf6AttH{vf6H: &vf6H{t: t, s: s, ln: ln2, tmp: d, inCfg: in2, noCrc: true}, bridge: b2}
		h2.patience.Store(20000)
		h2.begin(1)
		h2.runAtt(a0, in2, out2, ln2, b2, map[string]interface{}{"att": a0.String()})
		ln2.ln.Close()
		b2.ln.Close()
		return h2
	}

	run := func(a0 *vf6Att, srcTag string) {
		for attempt := 0; ; attempt++ {
			c := *a0.c
			a := *a0
			a.c = &c
			if a0.stale != nil {
				p := *a0.stale
				a.stale = &p
			}
			h.begin(attempt)
			h.runAtt(&a, inCfg, outCfg, ln, bridge, map[string]interface{}{"att": a0.String()})
			if h.again(attempt) {
				continue
			}
			h.s.Count("src_" + srcTag)
			h.sink.commit(h.vf6H)
			return
		}
	}

	// ---- slow lane (own listener): the real Run() loop and failing output.StartPoint, in parallel
	slow := make(chan *vf6LoopRes, 4)
	nSlow := 0
	if os.Getenv("VERIF_REPLAY_CASE") == "" {
		for i, be := range []string{"m", "d"} {
			if i == 1 && !vfutil.Thorough() {
				break
			}
			ln2, err := vf6NewListener()
			if err != nil {
				t.Fatal(err)
			}
			defer ln2.ln.Close()
			cfg2 := inCfg
			cfg2.Addresses = []string{ln2.ln.Addr().String()}
			nSlow++
			go func(be string, seed uint64) { slow <- vf6RunLoop(t, cfg2, ln2, be, seed, "f s c b") }(be, r.U64())
			for _, sc := range []string{"k", "q"} {
				ln3, err := vf6NewListener()
				if err != nil {
					t.Fatal(err)
				}
				defer ln3.ln.Close()
				cfg3 := inCfg
				cfg3.Addresses = []string{ln3.ln.Addr().String()}
				nSlow++
				go func(be string, seed uint64, sc string) { slow <- vf6RunLoop(t, cfg3, ln3, be, seed, sc) }(be, r.U64(), sc)
			}
		}
	}

	// output.StartPoint failing once / three times (2 s per try): few, they are slow - lanes of their own
	lanes := make(chan *vf6AttH, 4)
	nLanes := 0
	if os.Getenv("VERIF_REPLAY_CASE") == "" {
		// dimension audit: "001" (two failures, then an answer) is drawn too; the lanes run beside the main sequence,
		// which draws channel.verifyCrc: their snapshots are at most 8 bytes, legal under both values of the flag
		for _, ans := range []string{"01", "001", "000", "conn"} {
			a := vf6GenAtt(r)
			a.plan, a.spAns, a.hdr, a.stale = "none", ans, "len", nil
			if ans == "conn" {
				a.plan, a.spAns = "conn", "1"
			}
			if a.c.src.snapLen <= 0 || a.c.src.snapLen > 8 {
				a.c.src.snapLen = 7
			}
			if a.c.hasRdb && a.c.rdbSize > 8 {
				a.c.rdbSize = 1 + a.c.rdbSize%8
			}
			s.Count("cfg_outputStartPoint_tries_" + ans)
			nLanes++
			go func(a *vf6Att, name string) { lanes <- lane(a, name) }(a, "lane"+ans)
		}
	}

	for _, l := range vfutil.Corpus("C06") {
		if !strings.HasPrefix(l, "att ") || os.Getenv("VERIF_REPLAY_CASE") != "" {
			continue
		}
		a, err := vf6ParseAtt(l)
		if err != nil {
			t.Fatalf("corpus line: %v: %s", err, l)
		}
		run(a, "corpus")
	}
	if rp := os.Getenv("VERIF_REPLAY_CASE"); strings.HasPrefix(rp, "att ") {
		a, err := vf6ParseAtt(rp)
		if err != nil {
			t.Fatal(err)
		}
		run(a, "replay")
		return
	}
	if os.Getenv("VERIF_REPLAY_CASE") == "" {
		for _, mode := range []config.ReplayMode{config.ReplayModePipeline, config.ReplayModeSync} {
			for _, lost := range []bool{false, true} {
				for attempt := 0; ; attempt++ {
					h.begin(attempt)
					h.bisyncStart(mode, lost, vfutil.NewRand(vfutil.Seed()+uint64(len(mode))))
					if h.again(attempt) {
						continue
					}
					h.sink.commit(h.vf6H)
					break
				}
			}
		}
	}
	if rp := os.Getenv("VERIF_REPLAY_CASE"); strings.HasPrefix(rp, "cut ") {
		cd, err := vf6ParseCut(rp)
		if err != nil {
			t.Fatal(err)
		}
		h.cutSweep(cd, inCfg, outCfg, ln, bridge, r, true)
		return
	}
	if os.Getenv("VERIF_REPLAY_CASE") == "" {
		for _, l := range vfutil.Corpus("C06") {
			if strings.HasPrefix(l, "cut ") {
				cd, err := vf6ParseCut(l)
				if err != nil {
					t.Fatalf("corpus line: %v: %s", err, l)
				}
				h.cutSweep(cd, inCfg, outCfg, ln, bridge, r, true)
			}
		}
		for i := 0; i < vfutil.Scale(1, 4); i++ { // superseded by the enumeration of session C06d (pt 3); kept as a kind
			h.gcRace(r)
		}
		// every kind in every run; one schedule with the REAL Send (truth read from the target double's data)
		plan := [][2]string{{"behind", "rec"}, {vfutil.Pick(r, []string{"replaced", "failover"}), "real"}, {"failover", "rec"}, {"replaced", "rec"}}
		for i := 0; i < vfutil.Scale(len(plan), 48); i++ {
			p := plan[i%len(plan)]
			if i >= len(plan) && r.Chance(1, 2) {
				p = [2]string{"", vfutil.Pick(r, []string{"rec", "real"})}
			}
			h.cutSweep(vf6GenCut(r, p[0], p[1]), inCfg, outCfg, ln, bridge, r, vfutil.Thorough())
		}
	}
	n := vfutil.Scale(240, 1800)
	for i := 0; i < n; i++ {
		if len(s.Viol) >= 30 {
			s.Count("stopped_after_30_violations")
			break
		}
		if h.hang >= 3 {
			s.Count("stopped_after_3_hanging_attempts")
			break
		}
		run(vf6GenAtt(r), "generated")
	}
	for i := 0; i < nLanes; i++ {
		h2 := <-lanes
		h2.sink.commit(h.vf6H)
	}
	for i := 0; i < nSlow; i++ {
		res := <-slow
		tag := fmt.Sprintf("#%d", h.nOps)
		h.nOps++
		ls := []string{}
		for _, l := range res.lines {
			ls = append(ls, strings.Replace(l, "#T", tag, 1))
		}
		s.Op(strings.Replace(res.op, "#T", tag, 1), ls...)
		for _, k := range res.count {
			s.Count(k)
		}
		for _, v := range res.viol {
			s.Violate(v.what, v.detail, v.rp)
		}
	}
	s.Add("slowest_round_ms", int(h.slowMs))
}
