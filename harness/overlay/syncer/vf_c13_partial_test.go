//go:build verif

package syncer

// C13, session 5 (round-8 seeded mutation): links with a PARTIAL key filter. A link whose key filter removes only SOME
// keys of a multi-key command (prefixKeyBlacklist ["tmp:"]) forwards DEL / UNLINK / MSET with the remaining keys
// (RedisKeyFilter.FilterCmdKey projects the arguments). The projected argument list lives on in the replay unit - in
// the parser's transaction buffer until EXEC, then in the unit queued between parser and sender - so it must be the
// command's OWN list: if a later projection reuses it, an earlier client write that has not been sent yet becomes a
// copy of the later one (swallowed / applied twice). Two monitors on the implementation alone:
//   (a) the REAL parser over the whole stream, ALL units held until the parser has finished (the unit channel holds
//       what a slow sender has not taken yet), then compared with the projection of each client block computed here;
//   (b) the REAL send loop (sync and pipeline) over the same stream into the target double: the business commands of the
//       commit transactions the target executed, in order, are exactly the projected client blocks, each once (two
//       projections inside one client transaction need no timing; the parser-ahead-of-the-sender interleaving of
//       consecutive units is what (a) holds still - the real loops with a slow target were tried and dropped: the
//       request log of a delayed target interleaves connections and cannot be grouped into blocks reliably).
// Streams: two fixed ones (two projected DELs in consecutive units; two projected MSETs inside one client MULTI/EXEC)
// and generated ones (DEL / UNLINK / MSET with 1-4 keys over user:N / tmp:N, SET, single commands and transactions of
// 2-4). replay.rerun = "partialfilter <subseed>".

import (
	"fmt"
	"strings"
	"testing"
	"time"

	"github.com/mgtv-tech/redis-GunYu/config"
	"github.com/mgtv-tech/redis-GunYu/pkg/vfdoubles"
	"github.com/mgtv-tech/redis-GunYu/pkg/vfutil"
)

type vfc13PfBlock struct {
	multi bool
	cmds  []vfc13Cmd
}

func vfc13PfFiltered(k []byte) bool { return strings.HasPrefix(string(k), "tmp:") || vfc13IsReserved(k) }

// the projection the configuration documents: DEL / UNLINK keep the keys that pass, MSET the pairs whose key passes,
// any other command goes as a whole or not at all (its first argument is its key here)
func vfc13PfProject(c vfc13Cmd) (vfc13Cmd, bool) {
	out := vfc13Cmd{Name: []byte(c.lower())}
	switch c.lower() {
	case "del", "unlink":
		for _, k := range c.Args {
			if !vfc13PfFiltered(k) {
				out.Args = append(out.Args, k)
			}
		}
	case "mset":
		for i := 0; i+1 < len(c.Args); i += 2 {
			if !vfc13PfFiltered(c.Args[i]) {
				out.Args = append(out.Args, c.Args[i], c.Args[i+1])
			}
		}
	default:
		if len(c.Args) > 0 && vfc13PfFiltered(c.Args[0]) {
			return out, false
		}
		out.Args = c.Args
	}
	return out, len(out.Args) > 0
}

func vfc13PfGen(r *vfutil.Rand) []vfc13PfBlock {
	key := func() string {
		if r.Chance(2, 5) {
			return fmt.Sprintf("tmp:%d", r.Intn(4))
		}
		return fmt.Sprintf("user:%d", r.Intn(6))
	}
	cmd := func() vfc13Cmd {
		switch r.Intn(5) {
		case 0, 1:
			args := []string{}
			for i, n := 0, r.Range(1, 4); i < n; i++ {
				args = append(args, key())
			}
			return vfc13C(vfutil.Pick(r, []string{"DEL", "del", "UNLINK"}), args...)
		case 2, 3:
			args := []string{}
			for i, n := 0, r.Range(1, 4); i < n; i++ {
				args = append(args, key(), fmt.Sprintf("v%d", r.Intn(100)))
			}
			return vfc13C("MSET", args...)
		default:
			return vfc13C("SET", key(), fmt.Sprintf("v%d", r.Intn(100)))
		}
	}
	var out []vfc13PfBlock
	for i, n := 0, r.Range(2, 7); i < n; i++ {
		if r.Chance(1, 2) {
			b := vfc13PfBlock{multi: true}
			for j, m := 0, r.Range(2, 4); j < m; j++ {
				b.cmds = append(b.cmds, cmd())
			}
			out = append(out, b)
		} else {
			out = append(out, vfc13PfBlock{cmds: []vfc13Cmd{cmd()}})
		}
	}
	return out
}

func vfc13PfSame(a, b []vfc13Cmd) bool {
	if len(a) != len(b) {
		return false
	}
	for i := range a {
		if a[i].lower() != b[i].lower() || len(a[i].Args) != len(b[i].Args) {
			return false
		}
		for j := range a[i].Args {
			if string(a[i].Args[j]) != string(b[i].Args[j]) {
				return false
			}
		}
	}
	return true
}

func vfc13PfCase(t *testing.T, s *vfutil.Session, blocks []vfc13PfBlock, rerun string) {
	var wire []byte
	var want [][]vfc13Cmd
	var toks []string
	for _, b := range blocks {
		var cs []vfc13Cmd
		if b.multi {
			cs = append(cs, vfc13C("MULTI"))
		}
		cs = append(cs, b.cmds...)
		if b.multi {
			cs = append(cs, vfc13C("EXEC"))
		}
		for _, c := range cs {
			wire = append(wire, vfc13Resp(c)...)
			toks = append(toks, c.tok())
		}
		var proj []vfc13Cmd
		for _, c := range b.cmds {
			if p, ok := vfc13PfProject(c); ok {
				proj = append(proj, p)
			}
		}
		if len(proj) > 0 {
			want = append(want, proj)
		}
	}
	replay := map[string]interface{}{"rerun": rerun, "stream": strings.Join(toks, " "), "filter": "prefixKeyBlacklist=tmp:"}
	cp := "redis-gunyu-checkpoint-bisync:0000000000000000000000f8"
	render := func(us [][]vfc13Cmd) string {
		p := make([]string, len(us))
		for i, u := range us {
			p[i] = vfc13CmdsTok(u)
		}
		return strings.Join(p, " | ")
	}
	judge := func(where string, got [][]vfc13Cmd) {
		if len(got) != len(want) {
			s.Violate("foreign-block-suppressed", fmt.Sprintf("partial key filter, %s: %d units for %d client blocks with a key that passes the filter (got %s; want %s)", where, len(got), len(want), render(got), render(want)), replay)
			return
		}
		for i := range want {
			if !vfc13PfSame(got[i], want[i]) {
				s.Violate("unit-content-differs", fmt.Sprintf("partial key filter, %s: unit %d holds %s, the client block projected by the filter is %s (all units: %s)", where, i, vfc13CmdsTok(got[i]), vfc13CmdsTok(want[i]), render(got)), replay)
				return
			}
		}
	}
	// (a) the real parser, every unit held until the parser has finished
	{
		ro := vfc13NewOutput(false, "none", cp, []string{"tmp:"}, nil, nil)
		units, err := vfc13Parse(ro, 0, 1, wire)
		if st := vfc13ParseStatus(err); st != "eof" {
			s.Violate("tool-block-halts-opposite-link", "partial key filter: the parser stopped on client commands: "+st, replay)
			return
		}
		var got [][]vfc13Cmd
		for _, u := range units {
			var cs []vfc13Cmd
			for _, c := range u.Commands {
				cs = append(cs, vfc13Cmd{Name: []byte(c.Cmd), Args: c.Args})
			}
			got = append(got, cs)
		}
		judge("units held between parser and sender", got)
	}
	// (b) the real send loop into a slow target: what the other site executed
	for _, mode := range []config.ReplayMode{config.ReplayModeSync, config.ReplayModePipeline} {
		tg := vfdoubles.NewTarget()
		tg.Lenient = true
		ro := vfc13NewOutput(false, "none", cp, []string{"tmp:"}, nil, tg)
		ro.cfg.ReplayMode = mode
		err, log := vfBisyncLoopRun(t, ro, tg, "runid-pf", wire, 0, 150*time.Millisecond)
		if st := vfc13ParseStatus(err); st != "eof" && st != "nil" {
			s.Violate("tool-block-halts-opposite-link", "partial key filter: the send loop stopped on client commands: "+st, replay)
			continue
		}
		nCtl := 1
		if mode != config.ReplayModeSync {
			nCtl = 2
		}
		var got [][]vfc13Cmd
		for _, q := range vfc13GroupLog(log) {
			if q.multi && len(q.cmds) >= 1+nCtl && vfc13IsMarkerSet(q.cmds[0]) {
				got = append(got, q.cmds[1:len(q.cmds)-nCtl])
			}
		}
		judge("executed at the other site ("+string(mode)+" loop)", got)
		s.Count("partial_filter_loop_" + string(mode))
	}
	s.Count("partial_filter_case")
	s.Add("partial_filter_units", len(want))
}

func vfc13PartialFilterProbe(t *testing.T, s *vfutil.Session, only uint64) {
	if only == 0 {
		vfc13PfCase(t, s, []vfc13PfBlock{
			{cmds: []vfc13Cmd{vfc13C("DEL", "user:1", "tmp:1")}}, {cmds: []vfc13Cmd{vfc13C("DEL", "tmp:2", "user:2")}}, {cmds: []vfc13Cmd{vfc13C("SET", "user:3", "v")}},
		}, "partialfilter 1")
		vfc13PfCase(t, s, []vfc13PfBlock{
			{multi: true, cmds: []vfc13Cmd{vfc13C("MSET", "user:a", "1", "tmp:a", "x"), vfc13C("MSET", "tmp:b", "y", "user:b", "2")}},
		}, "partialfilter 2")
	}
	r := vfutil.NewRand(vfutil.Seed() ^ 0xf8f8)
	for i := 0; i < vfutil.Scale(25, 600); i++ {
		sub := r.U64() | 4
		if only != 0 && only != sub {
			if only > 2 {
				continue
			}
		}
		if only == 1 || only == 2 {
			break
		}
		vfc13PfCase(t, s, vfc13PfGen(vfutil.NewRand(sub)), fmt.Sprintf("partialfilter %d", sub))
	}
	if only == 1 || only == 2 {
		vfc13PartialFilterProbe(t, s, 0)
	}
}
