//go:build verif

package syncer

// C14 (part 3) — the REAL send loops and the REAL StartPoint wrapper.
//
// RedisOutput.StartPoint (bisync branch: bisyncStartPoint + the hand-over of
// seq / offset into bisyncSeq / bisyncOffset) and RedisOutput.sendAofBisync
// (parseAofReplayUnits numbering from bisyncSeq+1, then sendBisyncSync /
// sendBisyncPipeline / sendBisyncParallel with their lane workers, receive loop,
// handleResult, frontier coordinator, final flush) run over the real
// conn.RedisConn against the target double under virtual time
// (vfBisyncLoopRun). A case is a stream of N replay units (one key each); every
// request the target received is a crash point: the prefix is replayed into a
// fresh double (a prefix inside MULTI applies nothing of it), a FRESH process
// calls StartPoint.
//
// Monitor, independent of any model — unit i is COMMITTED in a prefix iff its data
// key exists in the replayed target:
//   * the resume offset is the start of the stream or the end of a committed unit,
//     and every unit before it is committed (none skipped);
//   * sync mode: it is exactly the end of the last committed unit (nothing twice);
//   * bisyncSeq after StartPoint is the number of that unit (numbering hand-over);
//   * after a clean end of the loop the in-memory bisyncSeq / bisyncOffset name a
//     contiguous committed prefix too;
//   * a second process that resumes from a crash point and replays the rest of the
//     stream ends with EVERY unit committed.
// Fault injection (vfdoubles.Target.FailAt): the frontier HSET of the coordinator
// or of the recovery fails, a queued command of a unit fails (EXECABORT), one
// journal DEL fails. Variants: fresh namespace; a stale frontier of an earlier
// numbering below a newer root checkpoint (what a finished full sync leaves);
// two lanes (cluster-typed configuration over the standalone double) with one
// lane stalled.

import (
	"context"
	"fmt"
	"os"
	"strconv"
	"strings"
	"sync"
	"sync/atomic"
	"testing"
	"time"

	"github.com/mgtv-tech/redis-GunYu/config"
	"github.com/mgtv-tech/redis-GunYu/pkg/redis"
	"github.com/mgtv-tech/redis-GunYu/pkg/redis/checkpoint"
	"github.com/mgtv-tech/redis-GunYu/pkg/redis/client"
	"github.com/mgtv-tech/redis-GunYu/pkg/vfdoubles"
	"github.com/mgtv-tech/redis-GunYu/pkg/vfutil"
)

type vfLCase struct {
	mode    string // L sync | P pipeline | F parallel
	lanes   int    // 1 = standalone; 2 = cluster-typed configuration, two lanes
	n       int    // units
	txnAt   int    // unit index (1-based) that is a source transaction of two commands, 0 = none
	stale   int    // > 0: a stale frontier (seq = stale, old offsets) + journal leftovers below a newer root
	fault   string // "" | "frontier" | "queued:<unit>" | "del"
	settle  int    // ms of virtual time before the stream ends; -1 = clean end
	slow    []int  // units whose lane is stalled (lanes == 2)
	cutSeed uint64
}

func (c *vfLCase) op() string {
	return fmt.Sprintf("c14l mode=%s lanes=%d n=%d txn=%d stale=%d fault=%s settle=%d slow=%s seed=%d", c.mode, c.lanes, c.n, c.txnAt,
		c.stale, vfOr(c.fault, "-"), c.settle, checkpoint.VfInts(c.slow), c.cutSeed)
}

func vfOr(a, b string) string {
	if a == "" {
		return b
	}
	return a
}

const vfLRid = "1111111111111111111111111111111111111111"
const vfLStart = int64(5000)

// keys of the units: with two lanes, slow units map to lane 1, the others to lane 0
func (c *vfLCase) keys() []string {
	ks := make([]string, c.n+1)
	slow := map[int]bool{}
	for _, u := range c.slow {
		slow[u] = true
	}
	for i := 1; i <= c.n; i++ {
		for j := 0; ; j++ {
			k := fmt.Sprintf("u%d_%d", i, j)
			lane := 0
			if c.lanes > 1 {
				lane = int(redis.KeyToSlot(k)) % c.lanes
			}
			want := 0
			if slow[i] {
				want = 1
			}
			if c.lanes == 1 || lane == want {
				ks[i] = k
				break
			}
		}
	}
	return ks
}

// the stream and the end offset of every unit (ends[0] = start)
func (c *vfLCase) wire() ([]byte, []int64, []string) {
	ks := c.keys()
	var w []byte
	ends := []int64{vfLStart}
	add := func(args ...string) {
		bs := make([][]byte, len(args))
		for i, a := range args {
			bs[i] = []byte(a)
		}
		w = append(w, vfEncodeCmd(bs)...)
	}
	for i := 1; i <= c.n; i++ {
		if i == c.txnAt {
			add("multi")
			add("set", ks[i], "v")
			add("append", ks[i], "w")
			add("exec")
		} else {
			add("set", ks[i], "v"+strconv.Itoa(i))
		}
		ends = append(ends, vfLStart+int64(len(w)))
	}
	return w, ends, ks
}

func (c *vfLCase) output(tg *vfdoubles.Target) *RedisOutput {
	rm := config.ReplayModeParallel
	switch c.mode {
	case "L":
		rm = config.ReplayModeSync
	case "P":
		rm = config.ReplayModePipeline
	}
	rc := checkpoint.VfRedisCfg()
	cfg := RedisOutputConfig{InputName: "vf", CheckpointName: vfC14Cp, BisyncEnabled: true, RunId: vfLRid,
		ReplayMode: rm, Redis: rc, EnableResumeFromBreakPoint: true, BatchCmdCount: 4, CanTransaction: true}
	if c.lanes > 1 {
		cfg.Redis.Type = config.RedisTypeCluster
		cfg.Redis.Otype = config.RedisTypeCluster
		cfg.Parallelism = c.lanes
	}
	ro := NewRedisOutput(cfg)
	ro.newRedisConn = func(ctx context.Context) (client.Redis, error) { return checkpoint.VfConn(tg), nil }
	return ro
}

func (c *vfLCase) seed(tg *vfdoubles.Target) {
	tg.Lenient = true
	// root checkpoint: where the numbering of this stream starts
	tg.Seed(0, "hset", vfC14Cp, vfLRid+"_runid", vfLRid, vfLRid+"_version", config.Version,
		vfLRid+"_offset", strconv.FormatInt(vfLStart, 10), "bisync_mode", "parallel")
	if c.stale > 0 {
		// what a full resync leaves behind (ResetStartPoint drops only the root, the finished
		// snapshot replay writes a new, larger root): frontier + journal of the EARLIER numbering
		tag := checkpoint.BisyncSlotTag(0)
		fr := &checkpoint.BisyncFrontierSnapshot{Version: config.Version, RunID: vfLRid, UnitSeq: int64(c.stale), Offset: 300, MTime: 1}
		tg.Seed(0, vfArgs(checkpoint.BisyncFrontierKey(vfC14Cp), fr.HashArgs())...)
		old := int64(c.stale) - 1
		if old > 0 {
			k := checkpoint.BisyncCommitRecordKey(vfC14Cp, tag, old)
			rec := &checkpoint.BisyncCommitRecord{Key: k, Version: config.Version, RunID: vfLRid, SyncerID: "vf", UnitSeq: old, StartOffset: 200, EndOffset: 250, MTime: 1, Digest: "d"}
			tg.Seed(0, vfArgs(k, rec.HashArgs())...)
			tg.Seed(0, "zadd", checkpoint.BisyncCommitIndexKey(vfC14Cp, tag), strconv.FormatInt(old, 10), k)
		}
	}
}

type vfLPoint struct {
	ok   bool
	off  int64
	seq  int64
	text string
}

func vfLRead(c *vfLCase, tg *vfdoubles.Target) (vfLPoint, *RedisOutput) {
	ro := c.output(tg)
	sp, err := ro.StartPoint(context.Background(), []string{vfLRid, "0000000000000000000000000000000000000000"})
	if err != nil {
		return vfLPoint{text: "err:" + err.Error()}, ro
	}
	if sp.RunId != vfLRid {
		return vfLPoint{text: fmt.Sprintf("initial(%s:%d)", sp.RunId, sp.Offset)}, ro
	}
	return vfLPoint{ok: true, off: sp.Offset, seq: ro.bisyncSeq.Load(), text: fmt.Sprintf("%d/seq%d", sp.Offset, ro.bisyncSeq.Load())}, ro
}

func vfLCommitted(tg *vfdoubles.Target, ks []string) []bool {
	out := make([]bool, len(ks))
	for i := 1; i < len(ks); i++ {
		out[i] = tg.Get(0, ks[i]) != nil
	}
	return out
}

func vfLIndexOf(ends []int64, off int64) int {
	for i, e := range ends {
		if e == off {
			return i
		}
	}
	return -1
}

func vfC14Loop(t *testing.T, s *vfutil.Session, c *vfLCase, src string) {
	wire, ends, ks := c.wire()
	var samples [][3]int64
	var samplesMu sync.Mutex
	var startEnd int
	var startConns map[int]bool
	inner := strings.HasPrefix(c.fault, "inner:")
	run := func(failAt map[int]string) (*vfdoubles.Target, int, error, *RedisOutput, vfLPoint) {
		tg := vfdoubles.NewTarget()
		c.seed(tg)
		for k, v := range failAt {
			if inner {
				tg.FailInner[k] = v // the command fails when EXEC runs it (the rest of the unit is applied)
			} else {
				tg.FailAt[k] = v
			}
		}
		if len(c.slow) > 0 {
			slowKey := map[string]bool{}
			for _, u := range c.slow {
				slowKey[ks[u]] = true
			}
			var stalled atomic.Bool
			tg.Hook = func(idx int, e vfdoubles.LogEntry) {
				if stalled.Load() {
					return
				}
				// the lane that carries a slow unit stalls inside that unit's MULTI (a queued
				// command has no effect before EXEC, so log order stays execution order)
				if e.Cmd() == "set" && e.Queued && len(e.Args) > 1 && slowKey[string(e.Args[1])] {
					if stalled.Swap(true) {
						return
					}
					time.Sleep(60 * time.Millisecond) // once, shorter than the settle time of these cases
				}
			}
		}
		nSeed := tg.LogLen()
		st, ro := vfLRead(c, tg)
		if !st.ok && len(failAt) > 0 {
			// the injected fault hit the recovery of the first start: it fails, the caller retries
			// (RetryLinearJitter in getOutputStartPoint) — the fault is transient
			for k := range tg.FailAt {
				delete(tg.FailAt, k)
			}
			st, ro = vfLRead(c, tg)
		}
		if !st.ok {
			return tg, nSeed, fmt.Errorf("first start: %s", st.text), ro, st
		}
		// the start (with its recovery requests) has returned: the connections it used
		startEnd = tg.LogLen()
		startConns = map[int]bool{}
		for _, e := range tg.LogCopy()[nSeed:] {
			startConns[e.Conn] = true
		}
		w := wire
		if i := vfLIndexOf(ends, st.off); i >= 0 {
			w = wire[ends[i]-vfLStart:]
		}
		settle := time.Duration(c.settle) * time.Millisecond
		if c.settle < 0 {
			settle = -1
		}
		// sample the in-memory frontier (bisyncSeq / bisyncOffset: what the next send loop of
		// this process and the frontier-miss fast path start from) at every request
		stall := tg.Hook
		samples = samples[:0]
		tg.Hook = func(idx int, e vfdoubles.LogEntry) {
			// (the hook runs on the connection goroutines, two with two lanes, outside the double's lock)
			// The values are read first, the length of the request log after: whatever the sender counts as
			// committed had its EXEC received (logged) before the sender saw the reply. (The index of the
			// request that triggered the hook is NOT usable: the hook may run late, after later requests of
			// the other lane were received and answered.)
			sq, so := ro.bisyncSeq.Load(), ro.bisyncOffset.Load()
			n := tg.LogLen()
			samplesMu.Lock()
			samples = append(samples, [3]int64{int64(n), sq, so})
			samplesMu.Unlock()
			if stall != nil {
				stall(idx, e)
			}
		}
		err, _ := vfBisyncLoopRun(t, ro, tg, vfLRid, w, st.off, settle)
		tg.Hook = nil
		return tg, nSeed, err, ro, st
	}
	// a dry run locates the request a fault is injected at
	var failAt map[int]string
	if c.fault != "" {
		tg0, n0, _, _, _ := run(nil)
		log0 := tg0.LogCopy()
		for i := n0; i < len(log0) && failAt == nil; i++ {
			e := log0[i]
			switch {
			case c.fault == "frontier" && e.Cmd() == "hset" && !e.Queued && string(e.Args[1]) == checkpoint.BisyncFrontierKey(vfC14Cp):
				failAt = map[int]string{i: "OOM command not allowed when used memory > 'maxmemory'"}
			case c.fault == "del" && e.Cmd() == "del":
				failAt = map[int]string{i: "ERR injected"}
			case (strings.HasPrefix(c.fault, "queued:") || inner) && e.Queued && e.Cmd() == "set" && len(e.Args) > 1:
				u, _ := strconv.Atoi(c.fault[strings.Index(c.fault, ":")+1:])
				if u < len(ks) && string(e.Args[1]) == ks[u] {
					failAt = map[int]string{i: "OOM command not allowed when used memory > 'maxmemory'"}
				}
			}
		}
		if failAt == nil {
			s.Count("loop_fault_not_applicable")
			failAt = map[int]string{}
		} else {
			s.Count("loop_fault_" + strings.SplitN(c.fault, ":", 2)[0])
		}
	}
	tg, nSeed, loopErr, ro, first := run(failAt)
	log := tg.LogCopy()
	// a crash state = the request prefix, the injected fault failing again where it did
	replay := func(l []vfdoubles.LogEntry) *vfdoubles.Target { return vfdoubles.ReplayFaults(l, 0, true, failAt) }
	s.Count("loop_" + c.mode + "_" + src)
	if c.stale > 0 {
		s.Count("loop_stale_frontier")
	}
	rep := func(extra map[string]interface{}) map[string]interface{} {
		m := map[string]interface{}{"op": c.op()}
		for k, v := range extra {
			m[k] = v
		}
		return m
	}
	if !first.ok {
		s.Violate("loop-first-start-fails", first.text, rep(nil))
		return
	}
	// the recovery of the start is over before the send loop issues its first request (the split queue of
	// Model/FrontierTraffic.lean): no connection the start used appears again once the loop runs
	for i := startEnd; i < len(log); i++ {
		if startConns[log[i].Conn] {
			s.Violate("loop-recovery-overlaps-send-loop", fmt.Sprintf("request #%d (%s) comes from a connection StartPoint used, after StartPoint returned", i-nSeed, log[i].String()), rep(nil))
			break
		}
	}
	s.Count("loop_recovery_before_loop_checked")
	startIdx := vfLIndexOf(ends, first.off)
	if startIdx < 0 {
		startIdx = 0
	}
	judge := func(tk *vfdoubles.Target, st vfLPoint, where string, k int) bool {
		com := vfLCommitted(tk, ks)
		last := 0
		for i := 1; i < len(com); i++ {
			if com[i] {
				last = i
			}
		}
		ex := map[string]interface{}{"crash_after_request": k - nSeed, "start": st.text, "committed": fmt.Sprint(com[1:])}
		if !st.ok {
			s.Violate("loop-restart-fails", fmt.Sprintf("%s: after request #%d a fresh StartPoint: %s (committed %v)", where, k-nSeed, st.text, com[1:]), rep(ex))
			return false
		}
		m := vfLIndexOf(ends, st.off)
		if m < 0 {
			s.Violate("loop-resume-inside-unit", fmt.Sprintf("%s: after request #%d resume offset %d is not a unit boundary %v", where, k-nSeed, st.off, ends), rep(ex))
			return false
		}
		for i := startIdx + 1; i <= m; i++ {
			if !com[i] {
				s.Violate("loop-resume-skips-unit", fmt.Sprintf("%s: after request #%d a fresh start resumes after unit %d (offset %d) but unit %d is not committed (committed %v)", where, k-nSeed, m, st.off, i, com[1:]), rep(ex))
				return false
			}
		}
		if c.mode == "L" && m < last && m >= startIdx {
			s.Violate("loop-sync-resume-before-last-committed", fmt.Sprintf("%s: after request #%d sync mode resumes after unit %d but unit %d is committed: it would be applied twice", where, k-nSeed, m, last), rep(ex))
			return false
		}
		if st.seq != 0 && st.seq != int64(m-startIdx)+first.seq {
			s.Violate("loop-start-seq-mismatch", fmt.Sprintf("%s: after request #%d StartPoint left bisyncSeq %d for unit %d (run started at seq %d, unit %d)", where, k-nSeed, st.seq, m, first.seq, startIdx), rep(ex))
			return false
		}
		return true
	}
	// in-memory frontier after a clean end
	if c.fault == "" && len(c.slow) == 0 {
		m := vfLIndexOf(ends, ro.bisyncOffset.Load())
		com := vfLCommitted(replay(log), ks)
		bad := m < 0
		for i := startIdx + 1; i <= m && !bad; i++ {
			bad = !com[i]
		}
		if !bad && m > startIdx && ro.bisyncSeq.Load() != int64(m-startIdx)+first.seq {
			bad = true
		}
		if bad {
			s.Violate("loop-memory-frontier", fmt.Sprintf("after the loop ended bisyncSeq/bisyncOffset = %d/%d (unit %d), committed %v, err %v", ro.bisyncSeq.Load(), ro.bisyncOffset.Load(), m, com[1:], loopErr), rep(nil))
		}
	}
	// the in-memory frontier at every request of the run names a committed prefix of what the
	// target had applied by then. The sample is taken on the target's connection goroutine while the
	// send loop runs: it stores bisyncSeq and bisyncOffset one after the other, so a sample may pair
	// the sequence of one store with the offset of the one before (or after). That is an artefact of
	// sampling from outside: in the code the only readers (StartPoint's fast path, the start of the
	// next loop) run on the goroutine that ran the send loop, after it returned. So each value is
	// judged on its own - the unit it names and every unit before it are committed - and that the two
	// name the SAME unit is checked where the code reads them: after the loop ended and at the second /
	// third StartPoint of the same process.
	if c.fault == "" || inner {
		step := 1
		if len(samples) > 60 {
			step = len(samples) / 60
		}
		for i := 0; i < len(samples); i += step {
			sm := samples[i]
			mOff := vfLIndexOf(ends, sm[2])
			mSeq := int(sm[1]-first.seq) + startIdx
			if sm[1] <= first.seq && (mOff >= 0 && mOff <= startIdx) {
				continue
			}
			com := vfLCommitted(replay(log[:sm[0]]), ks)
			bad := ""
			switch {
			case sm[2] != first.off && mOff < 0:
				bad = fmt.Sprintf("bisyncOffset %d is not a unit boundary", sm[2])
			case mSeq < startIdx || mSeq >= len(ends):
				bad = fmt.Sprintf("bisyncSeq %d names no unit of this run (started at seq %d)", sm[1], first.seq)
			}
			top := mSeq
			if mOff > top {
				top = mOff
			}
			for u := startIdx + 1; u <= top && bad == ""; u++ {
				if !com[u] {
					bad = fmt.Sprintf("unit %d is not committed", u)
				}
			}
			if bad != "" {
				s.Violate("loop-memory-frontier", fmt.Sprintf("at request #%d bisyncSeq = %d (unit %d), bisyncOffset = %d (unit %d): %s; the target had committed %v", sm[0]-int64(nSeed), sm[1], mSeq, sm[2], mOff, bad, com[1:]), rep(nil))
				break
			}
			if mSeq != mOff {
				s.Count("loop_memory_samples_between_the_two_stores")
			}
			s.Count("loop_memory_samples")
		}
	}
	if inner && len(failAt) == 0 {
		return
	}
	if inner {
		// a command failing inside EXEC is a data conflict on the target, not a crash: the unit's
		// record is applied without its data whatever the tool does. What the tool must do: stop,
		// and not count the unit as committed (checked above through the in-memory frontier).
		if c.settle >= 0 && (loopErr == nil || strings.Contains(loopErr.Error(), "EOF")) { // (an abrupt end of the stream may win the race for the returned error)
			s.Violate("loop-ignores-failed-exec", fmt.Sprintf("a command of a unit failed inside EXEC; the send loop ended with: %v", loopErr), rep(nil))
		}
		s.Count("loop_inner_fault")
		return
	}
	// the same process starts again (RedisOutput kept: the frontier-miss fast path may answer from memory)
	if c.fault == "" && len(c.slow) == 0 {
		sp, err := ro.StartPoint(context.Background(), []string{vfLRid, "0000000000000000000000000000000000000000"})
		st := vfLPoint{text: fmt.Sprint(err)}
		if err == nil && sp.RunId == vfLRid {
			st = vfLPoint{ok: true, off: sp.Offset, seq: ro.bisyncSeq.Load(), text: fmt.Sprintf("%d/seq%d", sp.Offset, ro.bisyncSeq.Load())}
		}
		judge(replay(log), st, "same process, second StartPoint", len(log))
		s.Count("loop_same_process_restart")
		// ... and again after the root checkpoint moved forward under the same process: a full
		// resynchronisation (ResetStartPoint as syncMeta calls it, then the root a completed snapshot
		// replay writes), (a) with the in-memory offset a completed SendRdb leaves, (b) the root alone
		// (written by another writer of the same namespace). The position is the new root: the
		// in-memory frontier of the abandoned numbering is before the snapshot.
		if st.ok && c.lanes == 1 {
			ids := []string{vfLRid, "0000000000000000000000000000000000000000"}
			newRoot := ends[len(ends)-1] + 1000 + int64(c.cutSeed%7)
			variant := "root-only"
			if c.cutSeed%2 == 0 {
				variant = "completed-snapshot-replay"
			}
			ctx := context.Background()
			err := ro.ResetStartPoint(ctx, ids)
			if err == nil {
				if variant == "completed-snapshot-replay" {
					ro.bisyncOffset.Store(newRoot)
				}
				err = ro.setCheckpoint(ctx, vfLRid, newRoot, config.Version)
			}
			if err != nil {
				s.Violate("loop-resync-bookkeeping-fails", err.Error(), rep(nil))
			} else {
				sp3, err3 := ro.StartPoint(ctx, ids)
				txt := fmt.Sprintf("%s:%d/seq%d err=%v", sp3.RunId, sp3.Offset, ro.bisyncSeq.Load(), err3)
				if ro.bisyncSeq.Load() != 0 {
					s.Count("loop_same_process_new_root_keeps_numbering") // not a position matter: counted only
				}
				if err3 != nil || sp3.RunId != vfLRid || sp3.Offset != newRoot {
					s.Violate("loop-same-process-resumes-before-new-root", fmt.Sprintf("after the loop (in-memory frontier %s) a full resynchronisation moved the root checkpoint to %d (%s); StartPoint of the same process: %s",
						st.text, newRoot, variant, txt), rep(map[string]interface{}{"variant": variant, "new_root": newRoot, "start": txt}))
				}
				fr, _ := vfLRead(c, vfdoubles.ReplayWith(tg.LogCopy(), 0, true))
				if !fr.ok || fr.off != newRoot {
					s.Violate("loop-fresh-process-resumes-before-new-root", fmt.Sprintf("root checkpoint moved to %d by a full resynchronisation; a fresh process resumes at %s", newRoot, fr.text), rep(nil))
				}
				s.Count("loop_same_process_new_root_" + variant)
			}
		}
	}
	// crash points
	r := vfutil.NewRand(c.cutSeed + 17)
	var cuts []int
	for k := nSeed; k <= len(log); k++ {
		if k < len(log) && k > 0 && log[k-1].Queued {
			continue
		}
		cuts = append(cuts, k)
	}
	maxCuts := 400
	if c.lanes > 1 {
		// a cluster-typed start scans 16384 slot keys: the crash points right after a unit's EXEC
		// (and the ends) only
		maxCuts = 12
		var sel []int
		for _, k := range cuts {
			if k == nSeed || k == len(log) || (k > 0 && log[k-1].Cmd() == "exec") {
				sel = append(sel, k)
			}
		}
		cuts = sel
	}
	for len(cuts) > maxCuts {
		i := 1 + r.Intn(len(cuts)-2)
		cuts = append(cuts[:i], cuts[i+1:]...)
	}
	okAll := true
	prevOff := int64(-1 << 62)
	for _, k := range cuts {
		tk := replay(log[:k])
		st, _ := vfLRead(c, tk)
		s.Count("loop_crash_points")
		if !judge(tk, st, "first run", k) {
			okAll = false
			break
		}
		// the later the process stops, the further (never the less far) a fresh start resumes
		if st.off < prevOff {
			s.Violate("loop-resume-moves-backwards", fmt.Sprintf("a stop after an earlier request resumed at %d, a stop after request #%d resumes at %d", prevOff, k-nSeed, st.off),
				rep(map[string]interface{}{"crash_after_request": k - nSeed, "start": st.text}))
			okAll = false
			break
		}
		prevOff = st.off
		// the recovery of that start itself hits a failing frontier HSET: whatever it answered,
		// the start after it must not resume before it
		if r.Chance(1, 5) && c.lanes == 1 {
			t1 := replay(log[:k])
			n1 := t1.LogLen()
			vfLRead(c, t1) // dry: where is its frontier HSET
			l1 := t1.LogCopy()
			at := -1
			for i := n1; i < len(l1); i++ {
				if l1[i].Cmd() == "hset" && string(l1[i].Args[1]) == checkpoint.BisyncFrontierKey(vfC14Cp) {
					at = i
					break
				}
			}
			if at >= 0 {
				t2 := replay(log[:k])
				t2.FailAt[at] = "OOM command not allowed when used memory > 'maxmemory'"
				a, _ := vfLRead(c, t2)
				fa2 := map[int]string{at: "OOM"}
				for i, m := range failAt {
					fa2[i] = m
				}
				t3 := vfdoubles.ReplayFaults(t2.LogCopy(), 0, true, fa2)
				b, _ := vfLRead(c, t3)
				s.Count("loop_recovery_fault")
				if a.ok && (!b.ok || b.off < a.off) {
					s.Violate("loop-recovery-fault-moves-backwards", fmt.Sprintf("after request #%d a start whose frontier HSET failed answered %s; the next start: %s", k-nSeed, a.text, b.text),
						rep(map[string]interface{}{"crash_after_request": k - nSeed, "start": a.text, "next": b.text}))
					okAll = false
					break
				}
			}
		}
	}
	// resume from one crash point and replay the rest: nothing may be missing at the end
	if okAll && len(cuts) > 0 {
		k := cuts[r.Intn(len(cuts))]
		tk := replay(log[:k])
		// in the log of the resumed run only the requests before the crash point failed
		fa := map[int]string{}
		for i, m := range failAt {
			if i < k {
				fa[i] = m
			}
		}
		replay2 := func(l []vfdoubles.LogEntry) *vfdoubles.Target { return vfdoubles.ReplayFaults(l, 0, true, fa) }
		st, ro2 := vfLRead(c, tk)
		if st.ok {
			if i := vfLIndexOf(ends, st.off); i >= 0 {
				n2 := tk.LogLen()
				_, _ = vfBisyncLoopRun(t, ro2, tk, vfLRid, wire[ends[i]-vfLStart:], st.off, 300*time.Millisecond)
				log2 := tk.LogCopy()
				com := vfLCommitted(replay2(log2), ks)
				for u := startIdx + 1; u < len(com); u++ {
					if !com[u] {
						s.Violate("loop-resumed-run-skips-unit", fmt.Sprintf("a process restarted after request #%d resumed at %s and replayed the rest of the stream; unit %d was never committed (committed %v)", k-nSeed, st.text, u, com[1:]),
							rep(map[string]interface{}{"crash_after_request": k - nSeed, "start": st.text}))
						break
					}
				}
				// and its own crash points
				for kk := n2; kk <= len(log2); kk += 1 + r.Intn(3) {
					if kk < len(log2) && kk > 0 && log2[kk-1].Queued {
						continue
					}
					if c.lanes > 1 && r.Chance(2, 3) {
						continue
					}
					t2 := replay2(log2[:kk])
					st2, _ := vfLRead(c, t2)
					s.Count("loop_crash_points")
					if !judge(t2, st2, "resumed run", kk) {
						break
					}
				}
				s.Count("loop_resumed_runs")
			}
		}
	}
	s.Distinct(fmt.Sprintf("l|%s|%d|%d|%s|%d|%d", c.mode, c.lanes, c.n, strings.SplitN(c.fault, ":", 2)[0], c.stale, len(log)-nSeed))
}

func vfC14LoopGen(r *vfutil.Rand) *vfLCase {
	c := &vfLCase{mode: vfutil.Pick(r, []string{"L", "P", "F", "F"}), lanes: 1, n: r.Range(2, 7), settle: vfutil.Pick(r, []int{-1, -1, 0, 50, 150, 250}), cutSeed: r.U64() % 1000}
	if r.Chance(1, 4) {
		c.txnAt = r.Range(1, c.n)
	}
	if c.mode != "L" && r.Chance(1, 4) {
		c.stale = r.Range(1, 4)
	}
	switch r.Intn(4) {
	case 0:
		if c.mode != "L" {
			c.fault = "frontier"
		}
	case 1:
		c.fault = "queued:" + strconv.Itoa(r.Range(1, c.n))
	case 2:
		if c.mode != "L" {
			c.fault = "del"
		} else {
			c.fault = "inner:" + strconv.Itoa(r.Range(1, c.n))
		}
	case 3:
		if r.Bool() {
			c.fault = "inner:" + strconv.Itoa(r.Range(1, c.n))
		}
	}
	return c
}

func vfC14LoopGenLanes(r *vfutil.Rand) *vfLCase {
	c := &vfLCase{mode: "F", lanes: 2, n: r.Range(3, 6), settle: vfutil.Pick(r, []int{150, 250}), cutSeed: r.U64() % 1000}
	// a random non-empty subset of the units rides the stalled lane
	for u := 1; u <= c.n; u++ {
		if r.Chance(1, 2) {
			c.slow = append(c.slow, u)
		}
	}
	if len(c.slow) == 0 {
		c.slow = []int{2}
	}
	if r.Chance(1, 2) {
		c.stale = r.Range(1, 3)
	}
	return c
}

func vfC14LoopParse(op string) *vfLCase {
	if !strings.HasPrefix(op, "c14l ") {
		return nil
	}
	kv := map[string]string{}
	for _, tok := range strings.Fields(op)[1:] {
		if i := strings.IndexByte(tok, '='); i > 0 {
			kv[tok[:i]] = tok[i+1:]
		}
	}
	atoi := func(s string) int { n, _ := strconv.Atoi(s); return n }
	c := &vfLCase{mode: kv["mode"], lanes: atoi(kv["lanes"]), n: atoi(kv["n"]), txnAt: atoi(kv["txn"]), stale: atoi(kv["stale"]),
		settle: atoi(kv["settle"]), slow: checkpoint.VfUnInts(kv["slow"])}
	if kv["fault"] != "-" {
		c.fault = kv["fault"]
	}
	sd, _ := strconv.ParseUint(kv["seed"], 10, 64)
	c.cutSeed = sd
	if c.lanes < 1 {
		c.lanes = 1
	}
	return c
}

func TestVerifC14Loop(t *testing.T) {
	s := vfutil.NewSession("C14loop")
	defer s.Close()
	r := vfutil.NewRand(vfutil.Seed())
	vfC14Cp = checkpoint.BisyncCheckpointKeyPrefix + ":0a1b2c3d4e5f60718293a4b5"
	if rp := os.Getenv("VERIF_REPLAY"); rp != "" {
		b, _ := os.ReadFile(rp)
		op := string(b)
		if i := strings.Index(op, "c14l "); i >= 0 {
			op = op[i:]
			if j := strings.IndexAny(op, "\"\n"); j >= 0 {
				op = op[:j]
			}
			if c := vfC14LoopParse(op); c != nil {
				vfC14Loop(t, s, c, "replay")
			}
		}
		return
	}
	for _, l := range vfutil.Corpus("C14") {
		if c := vfC14LoopParse(l); c != nil {
			vfC14Loop(t, s, c, "corpus")
		}
	}
	n := vfutil.Scale(60, 1500)
	for i := 0; i < n; i++ {
		vfC14Loop(t, s, vfC14LoopGen(r.Fork()), "gen")
	}
	n = vfutil.Scale(14, 600)
	for i := 0; i < n; i++ {
		vfC14Loop(t, s, vfC14LoopGenLanes(r.Fork()), "lanes")
	}
}
