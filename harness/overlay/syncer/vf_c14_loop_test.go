//go:build verif

package syncer

// C14 (part 3) — the REAL send loops and the REAL StartPoint wrapper.
//
// RedisOutput.StartPoint (bisync branch: bisyncStartPoint + the hand-over of
// seq / offset into bisyncSeq / bisyncOffset) and RedisOutput.sendAofBisync
// (parseAofReplayUnits numbering from bisyncSeq+1, then sendBisyncSync /
// sendBisyncPipeline / sendBisyncParallel with their lane workers, receive loop,
// handleResult, frontier coordinator, final flush) run over the real
// conn.RedisConn against the target double under virtual time
// (vfBisyncLoopRun). A case is a stream of N replay units (one key each); every
// request the target received is a crash point: the prefix is replayed into a
// fresh double (a prefix inside MULTI applies nothing of it), a FRESH process
// calls StartPoint.
//
// Monitor, independent of any model — unit i is COMMITTED in a prefix iff its data
// key exists in the replayed target:
//   * the resume offset is the start of the stream or the end of a committed unit,
//     and every unit before it is committed (none skipped);
//   * sync mode: it is exactly the end of the last committed unit (nothing twice);
//   * bisyncSeq after StartPoint is the number of that unit (numbering hand-over);
//   * after a clean end of the loop the in-memory bisyncSeq / bisyncOffset name a
//     contiguous committed prefix too;
//   * a second process that resumes from a crash point and replays the rest of the
//     stream ends with EVERY unit committed.
// Fault injection (vfdoubles.Target.FailAt): the frontier HSET of the coordinator
// or of the recovery fails, a queued command of a unit fails (EXECABORT), one
// journal DEL fails. Variants: fresh namespace; a stale frontier of an earlier
// numbering below a newer root checkpoint (what a finished full sync leaves);
// two lanes (cluster-typed configuration over the standalone double) with one
// lane stalled.

import (
	"bufio"
	"context"
	"fmt"
	"io"
	"net"
	"os"
	"strconv"
	"strings"
	"sync"
	"sync/atomic"
	"testing"
	"testing/synctest"
	"time"

	"github.com/mgtv-tech/redis-GunYu/config"
	"github.com/mgtv-tech/redis-GunYu/pkg/redis"
	"github.com/mgtv-tech/redis-GunYu/pkg/redis/checkpoint"
	"github.com/mgtv-tech/redis-GunYu/pkg/redis/client"
	"github.com/mgtv-tech/redis-GunYu/pkg/redis/client/conn"
	"github.com/mgtv-tech/redis-GunYu/pkg/vfdoubles"
	"github.com/mgtv-tech/redis-GunYu/pkg/vfutil"
)

type vfLCase struct {
	mode    string // L sync | P pipeline | F parallel
	lanes   int    // 1 = standalone; 2 = cluster-typed configuration, two lanes
	n       int    // units
	txnAt   int    // unit index (1-based) that is a source transaction of two commands, 0 = none
	stale   int    // > 0: a stale frontier (seq = stale, old offsets) + journal leftovers below a newer root
	fault   string // "" | "frontier" | "queued:<unit>" | "del"
	settle  int    // ms of virtual time before the stream ends; -1 = clean end
	slow    []int  // units whose lane is stalled (lanes == 2)
	cutSeed uint64
	txnLen  int  // commands of the source transaction (0 = 2); larger than BatchCmdCount = a unit beyond the window
	bcc     uint // BatchCmdCount (0 = 4): pipeline window / lane buffers / unit buffer = 2*bcc
}

func (c *vfLCase) op() string {
	return fmt.Sprintf("c14l mode=%s lanes=%d n=%d txn=%d stale=%d fault=%s settle=%d slow=%s seed=%d txnlen=%d bcc=%d", c.mode, c.lanes, c.n, c.txnAt,
		c.stale, vfOr(c.fault, "-"), c.settle, checkpoint.VfInts(c.slow), c.cutSeed, c.txnLen, c.bcc)
}

func vfOr(a, b string) string {
	if a == "" {
		return b
	}
	return a
}

const vfLRid = "1111111111111111111111111111111111111111"
const vfLStart = int64(5000)

// keys of the units: with two lanes, slow units map to lane 1, the others to lane 0
func (c *vfLCase) keys() []string {
	ks := make([]string, c.n+1)
	slow := map[int]bool{}
	for _, u := range c.slow {
		slow[u] = true
	}
	for i := 1; i <= c.n; i++ {
		for j := 0; ; j++ {
			k := fmt.Sprintf("u%d_%d", i, j)
			lane := 0
			if c.lanes > 1 {
				lane = int(redis.KeyToSlot(k)) % c.lanes
			}
			want := 0
			if slow[i] {
				want = 1
			} else if c.lanes > 2 {
				// many lanes: the other units are spread over lanes 0, 2, 3, …
				want = []int{0, 2, 3, 4, 5, 6, 7}[i%(c.lanes-1)]
			}
			if c.lanes == 1 || lane == want {
				ks[i] = k
				break
			}
		}
	}
	return ks
}

// the stream and the end offset of every unit (ends[0] = start)
func (c *vfLCase) wire() ([]byte, []int64, []string) {
	ks := c.keys()
	var w []byte
	ends := []int64{vfLStart}
	add := func(args ...string) {
		bs := make([][]byte, len(args))
		for i, a := range args {
			bs[i] = []byte(a)
		}
		w = append(w, vfEncodeCmd(bs)...)
	}
	for i := 1; i <= c.n; i++ {
		if i == c.txnAt {
			add("multi")
			add("set", ks[i], "v")
			for j := 1; j < c.txnLen || j < 2; j++ {
				add("append", ks[i], "w")
			}
			add("exec")
		} else {
			add("set", ks[i], "v"+strconv.Itoa(i))
		}
		ends = append(ends, vfLStart+int64(len(w)))
	}
	return w, ends, ks
}

func (c *vfLCase) output(tg *vfdoubles.Target) *RedisOutput {
	rm := config.ReplayModeParallel
	switch c.mode {
	case "L":
		rm = config.ReplayModeSync
	case "P":
		rm = config.ReplayModePipeline
	}
	rc := checkpoint.VfRedisCfg()
	cfg := RedisOutputConfig{InputName: "vf", CheckpointName: vfC14Cp, BisyncEnabled: true, RunId: vfLRid,
		ReplayMode: rm, Redis: rc, EnableResumeFromBreakPoint: c.cutSeed%5 != 0, BatchCmdCount: 4, CanTransaction: true}
	if c.bcc > 0 {
		cfg.BatchCmdCount = c.bcc
	}
	if c.lanes > 1 {
		cfg.Redis.Type = config.RedisTypeCluster
		cfg.Redis.Otype = config.RedisTypeCluster
		cfg.Parallelism = c.lanes
	}
	ro := NewRedisOutput(cfg)
	ro.newRedisConn = func(ctx context.Context) (client.Redis, error) { return checkpoint.VfConn(tg), nil }
	return ro
}

func (c *vfLCase) seed(tg *vfdoubles.Target) {
	tg.Lenient = true
	// root checkpoint: where the numbering of this stream starts
	tg.Seed(0, "hset", vfC14Cp, vfLRid+"_runid", vfLRid, vfLRid+"_version", config.Version,
		vfLRid+"_offset", strconv.FormatInt(vfLStart, 10), "bisync_mode", "parallel")
	// application data in other databases of the stand-alone target (GetCheckpoint visits every non-empty database in
	// random map order and leaves the connection there: D21 / seeded C14-r8-m1)
	tg.Seed(2, "set", "app:other", "x")
	tg.Seed(1+2*int(c.cutSeed&1), "set", "app:more", "y")
	if c.stale > 0 {
		// what a full resync leaves behind (ResetStartPoint drops only the root, the finished
		// snapshot replay writes a new, larger root): frontier + journal of the EARLIER numbering
		tag := checkpoint.BisyncSlotTag(0)
		fr := &checkpoint.BisyncFrontierSnapshot{Version: config.Version, RunID: vfLRid, UnitSeq: int64(c.stale), Offset: 300, MTime: 1}
		tg.Seed(0, vfArgs(checkpoint.BisyncFrontierKey(vfC14Cp), fr.HashArgs())...)
		old := int64(c.stale) - 1
		if old > 0 {
			k := checkpoint.BisyncCommitRecordKey(vfC14Cp, tag, old)
			rec := &checkpoint.BisyncCommitRecord{Key: k, Version: config.Version, RunID: vfLRid, SyncerID: "vf", UnitSeq: old, StartOffset: 200, EndOffset: 250, MTime: 1, Digest: "d"}
			tg.Seed(0, vfArgs(k, rec.HashArgs())...)
			tg.Seed(0, "zadd", checkpoint.BisyncCommitIndexKey(vfC14Cp, tag), strconv.FormatInt(old, 10), k)
		}
	}
}

type vfLPoint struct {
	ok   bool
	off  int64
	seq  int64
	text string
}

func vfLRead(c *vfLCase, tg *vfdoubles.Target) (vfLPoint, *RedisOutput) {
	ro := c.output(tg)
	sp, err := ro.StartPoint(context.Background(), []string{vfLRid, "0000000000000000000000000000000000000000"})
	if err != nil {
		return vfLPoint{text: "err:" + err.Error()}, ro
	}
	if sp.RunId != vfLRid {
		return vfLPoint{text: fmt.Sprintf("initial(%s:%d)", sp.RunId, sp.Offset)}, ro
	}
	return vfLPoint{ok: true, off: sp.Offset, seq: ro.bisyncSeq.Load(), text: fmt.Sprintf("%d/seq%d", sp.Offset, ro.bisyncSeq.Load())}, ro
}

func vfLCommitted(tg *vfdoubles.Target, ks []string) []bool {
	out := make([]bool, len(ks))
	for i := 1; i < len(ks); i++ {
		out[i] = tg.Get(0, ks[i]) != nil
	}
	return out
}

func vfLIndexOf(ends []int64, off int64) int {
	for i, e := range ends {
		if e == off {
			return i
		}
	}
	return -1
}


// ---------------------------------------------------------------- StartPoint of a LIVE process vs Model/FrontierProc.lean

var vfLTag int

const vfLRid0 = "0000000000000000000000000000000000000000"

// what the RedisOutput holds between two loops
func vfLMem(ro *RedisOutput) (string, int64, int64) {
	ro.bisyncMissGuard.RLock()
	miss := ro.bisyncMissRunID
	ro.bisyncMissGuard.RUnlock()
	return miss, ro.bisyncSeq.Load(), ro.bisyncOffset.Load()
}

func vfLMissStr(m string) string {
	if m == "" {
		return "-"
	}
	return vfutil.HexS(m)
}

// vfLProcStart: the REAL RedisOutput.StartPoint of a process that is alive (ro kept from its earlier starts / loops),
// compared with `pstart` of the model (op c14p): input = the memory of the RedisOutput before the call (bisyncMissRunID,
// bisyncSeq, bisyncOffset) + the namespace read back from the target; output = the answer, whether the recovery state
// was read at all (fast path), the write requests, and the memory after the call. failAt >= 0: that request of the log
// gets an error reply (a start that purges returns the error and stores nothing).
func vfLProcStart(s *vfutil.Session, c *vfLCase, ro *RedisOutput, tg *vfdoubles.Target, failAt int, where string) (vfLPoint, []string) {
	ids := []string{vfLRid, vfLRid0}
	tie := c.lanes == 1 && c.mode != "L"
	miss0, seq0, off0 := vfLMem(ro)
	var nsEnc []string
	if tie {
		nsEnc = strings.Fields(vfC14Dump(tg, ids).encode())
	}
	n0 := tg.LogLen()
	failK := 0
	if failAt >= 0 {
		tg.FailAt[failAt] = "ERR vf injected"
	}
	sp, err := ro.StartPoint(context.Background(), ids)
	if failAt >= 0 {
		delete(tg.FailAt, failAt)
	}
	st := vfLPoint{text: "err:" + fmt.Sprint(err)}
	startTxt := "err"
	if err == nil && sp.RunId == vfLRid {
		st = vfLPoint{ok: true, off: sp.Offset, seq: ro.bisyncSeq.Load(), text: fmt.Sprintf("%d/seq%d", sp.Offset, ro.bisyncSeq.Load())}
		startTxt = fmt.Sprintf("%d:%s:%d:%d", sp.DbId, vfutil.HexS(sp.RunId), sp.Offset, ro.bisyncSeq.Load())
	} else if err == nil {
		st.text = fmt.Sprintf("initial(%s:%d)", sp.RunId, sp.Offset)
		startTxt = "empty"
	}
	log := tg.LogCopy()
	fast := true
	var lines []string
	for i := n0; i < len(log); i++ {
		e := log[i]
		if e.Cmd() == "hgetall" && len(e.Args) > 1 && string(e.Args[1]) == checkpoint.BisyncFrontierKey(vfC14Cp) {
			fast = false
		}
		if l, ok := vfC14RenderWrite(e); ok {
			lines = append(lines, l)
			if i == failAt {
				failK = len(lines)
			}
		}
	}
	if !tie || len(nsEnc) < 4 {
		return st, lines
	}
	vfLTag++
	tag := vfLTag
	miss1, seq1, off1 := vfLMem(ro)
	op := fmt.Sprintf("c14p %d %s %s %s %s %s %s %s %d %d %d", tag, vfutil.HexS(config.Version), checkpoint.VfHexList(ids),
		nsEnc[0], nsEnc[1], nsEnc[2], nsEnc[3], vfLMissStr(miss0), seq0, off0, failK)
	var out []string
	switch {
	case startTxt == "empty":
		out = []string{fmt.Sprintf("#%d start=empty miss=%s mem=%d/%d", tag, vfLMissStr(miss1), seq1, off1)}
	case failK > 0:
		out = []string{fmt.Sprintf("#%d start=%s fast=0 miss=%s mem=%d/%d", tag, startTxt, vfLMissStr(miss1), seq1, off1)}
	default:
		f := 0
		if fast {
			f = 1
		}
		out = []string{fmt.Sprintf("#%d start=%s n=%d fast=%d miss=%s mem=%d/%d", tag, startTxt, len(lines), f, vfLMissStr(miss1), seq1, off1)}
		for _, l := range lines {
			out = append(out, fmt.Sprintf("#%d %s", tag, l))
		}
	}
	s.Op(op, out...)
	s.Count("proc_start_" + where)
	if fast {
		if st.ok && st.seq > 0 {
			s.Count("proc_start_fast_from_memory")
		} else {
			s.Count("proc_start_fast_root_without_purge")
		}
	} else if failK > 0 {
		s.Count("proc_start_purge_failed")
	} else if len(lines) > 0 {
		s.Count("proc_start_read_with_requests")
	} else {
		s.Count("proc_start_read")
	}
	s.Distinct(fmt.Sprintf("p|%s|%v|%d|%d|%s", c.mode, fast, len(lines), failK, where))
	return st, lines
}

func vfC14Loop(t *testing.T, s *vfutil.Session, c *vfLCase, src string) {
	wire, ends, ks := c.wire()
	var samples [][3]int64
	var samplesMu sync.Mutex
	var startEnd int
	inner := strings.HasPrefix(c.fault, "inner:")
	lost := strings.HasPrefix(c.fault, "lostreply:") || c.fault == "lostsave"
	// cutexec:<u> = the connection is cut when the EXEC of unit u arrives: the transaction is NOT executed, no reply
	cut := strings.HasPrefix(c.fault, "cutexec:")
	run := func(failAt map[int]string) (*vfdoubles.Target, int, error, *RedisOutput, vfLPoint) {
		tg := vfdoubles.NewTarget()
		c.seed(tg)
		for k, v := range failAt {
			if lost {
				// the EXEC of the unit is executed by the target, its reply never arrives (the connection is closed)
				if tg.LoseReplyAt == nil {
					tg.LoseReplyAt = map[int]bool{}
				}
				tg.LoseReplyAt[k] = true
			} else if cut {
				if tg.DropAt == nil {
					tg.DropAt = map[int]bool{}
				}
				tg.DropAt[k] = true
			} else if inner {
				tg.FailInner[k] = v // the command fails when EXEC runs it (the rest of the unit is applied)
			} else {
				tg.FailAt[k] = v
			}
		}
		if len(c.slow) > 0 {
			slowKey := map[string]bool{}
			for _, u := range c.slow {
				slowKey[ks[u]] = true
			}
			var stalled atomic.Bool
			tg.Hook = func(idx int, e vfdoubles.LogEntry) {
				if stalled.Load() {
					return
				}
				// the lane that carries a slow unit stalls inside that unit's MULTI (a queued
				// command has no effect before EXEC, so log order stays execution order)
				if e.Cmd() == "set" && e.Queued && len(e.Args) > 1 && slowKey[string(e.Args[1])] {
					if stalled.Swap(true) {
						return
					}
					time.Sleep(60 * time.Millisecond) // once, shorter than the settle time of these cases
				}
			}
		}
		nSeed := tg.LogLen()
		st, ro := vfLRead(c, tg)
		if !st.ok && len(failAt) > 0 {
			// the injected fault hit the recovery of the first start: it fails, the caller retries
			// (RetryLinearJitter in getOutputStartPoint) — the fault is transient
			for k := range tg.FailAt {
				delete(tg.FailAt, k)
			}
			st, ro = vfLRead(c, tg)
		}
		if !st.ok {
			return tg, nSeed, fmt.Errorf("first start: %s", st.text), ro, st
		}
		// the start (with its recovery requests) has returned
		startEnd = tg.LogLen()
		w := wire
		if i := vfLIndexOf(ends, st.off); i >= 0 {
			w = wire[ends[i]-vfLStart:]
		}
		settle := time.Duration(c.settle) * time.Millisecond
		if c.settle < 0 {
			settle = -1
		}
		// sample the in-memory frontier (bisyncSeq / bisyncOffset: what the next send loop of
		// this process and the frontier-miss fast path start from) at every request
		stall := tg.Hook
		samples = samples[:0]
		tg.Hook = func(idx int, e vfdoubles.LogEntry) {
			// (the hook runs on the connection goroutines, two with two lanes, outside the double's lock)
			// The values are read first, the length of the request log after: whatever the sender counts as
			// committed had its EXEC received (logged) before the sender saw the reply. (The index of the
			// request that triggered the hook is NOT usable: the hook may run late, after later requests of
			// the other lane were received and answered.)
			sq, so := ro.bisyncSeq.Load(), ro.bisyncOffset.Load()
			n := tg.LogLen()
			samplesMu.Lock()
			samples = append(samples, [3]int64{int64(n), sq, so})
			samplesMu.Unlock()
			if stall != nil {
				stall(idx, e)
			}
		}
		err, _ := vfBisyncLoopRun(t, ro, tg, vfLRid, w, st.off, settle)
		tg.Hook = nil
		return tg, nSeed, err, ro, st
	}
	// a dry run locates the request a fault is injected at
	var failAt map[int]string
	if c.fault != "" {
		tg0, n0, _, _, _ := run(nil)
		log0 := tg0.LogCopy()
		for i := n0; i < len(log0) && failAt == nil; i++ {
			e := log0[i]
			switch {
			case c.fault == "frontier" && e.Cmd() == "hset" && !e.Queued && string(e.Args[1]) == checkpoint.BisyncFrontierKey(vfC14Cp):
				failAt = map[int]string{i: "OOM command not allowed when used memory > 'maxmemory'"}
			case c.fault == "del" && e.Cmd() == "del":
				failAt = map[int]string{i: "ERR injected"}
			case c.fault == "lostsave":
				// the coordinator's frontier save is applied by the target, its reply never arrives
				if e.Cmd() == "hset" && !e.Queued && string(e.Args[1]) == checkpoint.BisyncFrontierKey(vfC14Cp) {
					failAt = map[int]string{i: "reply lost"}
				}
			case (lost || cut) && e.Queued && e.Cmd() == "set" && len(e.Args) > 1:
				u, _ := strconv.Atoi(c.fault[strings.Index(c.fault, ":")+1:])
				if u < len(ks) && string(e.Args[1]) == ks[u] {
					for j := i + 1; j < len(log0); j++ {
						if log0[j].Conn == e.Conn && log0[j].Cmd() == "exec" {
							failAt = map[int]string{j: "reply lost"}
							break
						}
					}
				}
			case (strings.HasPrefix(c.fault, "queued:") || inner) && e.Queued && e.Cmd() == "set" && len(e.Args) > 1:
				u, _ := strconv.Atoi(c.fault[strings.Index(c.fault, ":")+1:])
				if u < len(ks) && string(e.Args[1]) == ks[u] {
					failAt = map[int]string{i: "OOM command not allowed when used memory > 'maxmemory'"}
				}
			}
		}
		if failAt == nil {
			s.Count("loop_fault_not_applicable")
			if src == "matrix" {
				s.Count("loop_matrix_fault_not_applicable")
			}
			failAt = map[int]string{}
		} else {
			s.Count("loop_fault_" + strings.SplitN(c.fault, ":", 2)[0])
		}
	}
	tg, nSeed, loopErr, ro, first := run(failAt)
	log := tg.LogCopy()
	for k := range failAt {
		if k >= len(log) {
			// the run never reached the request the fault was planned for: it must not hit a later, unrelated request
			delete(failAt, k)
			delete(tg.FailAt, k)
			delete(tg.FailInner, k)
			delete(tg.LoseReplyAt, k)
			delete(tg.DropAt, k)
			s.Count("loop_fault_not_reached")
		}
	}
	if lost {
		// a lost reply is no fault of the target's state: the request was executed, a replay executes it
		failAt = map[int]string{}
	}
	// a crash state = the request prefix, the injected fault failing again where it did
	cutIdx := -1
	if cut {
		for k := range failAt {
			cutIdx = k
		}
		failAt = map[int]string{}
	}
	replay := func(l []vfdoubles.LogEntry) *vfdoubles.Target {
		if cutIdx >= 0 && cutIdx < len(l) {
			// the EXEC that was cut never ran: the prefix without it (its MULTI stays open on a closed connection: no effect)
			l2 := append(append([]vfdoubles.LogEntry{}, l[:cutIdx]...), l[cutIdx+1:]...)
			return vfdoubles.ReplayFaults(l2, 0, true, nil)
		}
		return vfdoubles.ReplayFaults(l, 0, true, failAt)
	}
	s.Count("loop_" + c.mode + "_" + src)
	s.Count(fmt.Sprintf("cfg_replay_mode_%s", map[string]string{"L": "sync", "P": "pipeline", "F": "parallel"}[c.mode]))
	s.Count(fmt.Sprintf("cfg_lanes_%d", c.lanes))
	s.Count(fmt.Sprintf("cfg_batchCmdCount_%d", map[bool]uint{true: c.bcc, false: 4}[c.bcc > 0]))
	s.Count(fmt.Sprintf("cfg_resumeFromBreakPoint_%v", c.cutSeed%5 != 0))
	if c.txnAt > 0 {
		s.Count(fmt.Sprintf("unit_txn_commands_%d", map[bool]int{true: c.txnLen, false: 2}[c.txnLen > 2]))
	} else {
		s.Count("unit_single_command_only")
	}
	if c.stale > 0 {
		s.Count("loop_stale_frontier")
	}
	rep := func(extra map[string]interface{}) map[string]interface{} {
		m := map[string]interface{}{"op": c.op()}
		for k, v := range extra {
			m[k] = v
		}
		return m
	}
	if !first.ok {
		s.Violate("loop-first-start-fails", first.text, rep(nil))
		return
	}
	// tie to the shape Model/FrontierTraffic.lean assumes (not the property itself): the recovery of a start is
	// over when StartPoint returns. Recovery requests are recognised by KIND and number, not by connection:
	// after a start that resumed after unit K no request saves a frontier numbered <= K, deletes the
	// snapshot, or deletes / un-indexes a journal record numbered <= K (the coordinator of the loop that
	// follows only saves frontiers > K and deletes records > K).
	if at, what := vfLRecoveryAfterStart(log, startEnd, first.seq); at >= 0 {
		s.Violate("tie-shape:recovery-request-after-start-returned", fmt.Sprintf("StartPoint returned (resume after unit %d) before request #%d; request #%d is a recovery request: %s", first.seq, startEnd-nSeed+1, at-nSeed+1, what), rep(nil))
	}
	s.Count("loop_recovery_before_loop_checked")
	startIdx := vfLIndexOf(ends, first.off)
	if startIdx < 0 {
		startIdx = 0
	}
	judge := func(tk *vfdoubles.Target, st vfLPoint, where string, k int) bool {
		com := vfLCommitted(tk, ks)
		last := 0
		for i := 1; i < len(com); i++ {
			if com[i] {
				last = i
			}
		}
		ex := map[string]interface{}{"crash_after_request": k - nSeed, "start": st.text, "committed": fmt.Sprint(com[1:])}
		if !st.ok {
			s.Violate("loop-restart-fails", fmt.Sprintf("%s: after request #%d a fresh StartPoint: %s (committed %v)", where, k-nSeed, st.text, com[1:]), rep(ex))
			return false
		}
		m := vfLIndexOf(ends, st.off)
		if m < 0 {
			s.Violate("loop-resume-inside-unit", fmt.Sprintf("%s: after request #%d resume offset %d is not a unit boundary %v", where, k-nSeed, st.off, ends), rep(ex))
			return false
		}
		for i := startIdx + 1; i <= m; i++ {
			if !com[i] {
				s.Violate("loop-resume-skips-unit", fmt.Sprintf("%s: after request #%d a fresh start resumes after unit %d (offset %d) but unit %d is not committed (committed %v)", where, k-nSeed, m, st.off, i, com[1:]), rep(ex))
				return false
			}
		}
		if c.mode == "L" && m < last && m >= startIdx {
			s.Violate("loop-sync-resume-before-last-committed", fmt.Sprintf("%s: after request #%d sync mode resumes after unit %d but unit %d is committed: it would be applied twice", where, k-nSeed, m, last), rep(ex))
			return false
		}
		if st.seq != 0 && st.seq != int64(m-startIdx)+first.seq {
			s.Violate("loop-start-seq-mismatch", fmt.Sprintf("%s: after request #%d StartPoint left bisyncSeq %d for unit %d (run started at seq %d, unit %d)", where, k-nSeed, st.seq, m, first.seq, startIdx), rep(ex))
			return false
		}
		return true
	}
	// in-memory frontier after a clean end
	if c.fault == "" && len(c.slow) == 0 {
		m := vfLIndexOf(ends, ro.bisyncOffset.Load())
		com := vfLCommitted(replay(log), ks)
		bad := m < 0
		for i := startIdx + 1; i <= m && !bad; i++ {
			bad = !com[i]
		}
		if !bad && m > startIdx && ro.bisyncSeq.Load() != int64(m-startIdx)+first.seq {
			bad = true
		}
		if bad {
			s.Violate("loop-memory-frontier", fmt.Sprintf("after the loop ended bisyncSeq/bisyncOffset = %d/%d (unit %d), committed %v, err %v", ro.bisyncSeq.Load(), ro.bisyncOffset.Load(), m, com[1:], loopErr), rep(nil))
		}
	}
	// the in-memory frontier at every request of the run names a committed prefix of what the
	// target had applied by then. The sample is taken on the target's connection goroutine while the
	// send loop runs: it stores bisyncSeq and bisyncOffset one after the other, so a sample may pair
	// the sequence of one store with the offset of the one before (or after). That is an artefact of
	// sampling from outside: in the code the only readers (StartPoint's fast path, the start of the
	// next loop) run on the goroutine that ran the send loop, after it returned. So each value is
	// judged on its own - the unit it names and every unit before it are committed - and that the two
	// name the SAME unit is checked where the code reads them: after the loop ended and at the second /
	// third StartPoint of the same process.
	if c.fault == "" || inner {
		step := 1
		if len(samples) > 60 {
			step = len(samples) / 60
		}
		for i := 0; i < len(samples); i += step {
			sm := samples[i]
			mOff := vfLIndexOf(ends, sm[2])
			mSeq := int(sm[1]-first.seq) + startIdx
			if sm[1] <= first.seq && (mOff >= 0 && mOff <= startIdx) {
				continue
			}
			com := vfLCommitted(replay(log[:sm[0]]), ks)
			bad := ""
			switch {
			case sm[2] != first.off && mOff < 0:
				bad = fmt.Sprintf("bisyncOffset %d is not a unit boundary", sm[2])
			case mSeq < startIdx || mSeq >= len(ends):
				bad = fmt.Sprintf("bisyncSeq %d names no unit of this run (started at seq %d)", sm[1], first.seq)
			}
			top := mSeq
			if mOff > top {
				top = mOff
			}
			for u := startIdx + 1; u <= top && bad == ""; u++ {
				if !com[u] {
					bad = fmt.Sprintf("unit %d is not committed", u)
				}
			}
			if bad != "" {
				s.Violate("loop-memory-frontier", fmt.Sprintf("at request #%d bisyncSeq = %d (unit %d), bisyncOffset = %d (unit %d): %s; the target had committed %v", sm[0]-int64(nSeed), sm[1], mSeq, sm[2], mOff, bad, com[1:]), rep(nil))
				break
			}
			if mSeq != mOff {
				s.Count("loop_memory_samples_between_the_two_stores")
			}
			s.Count("loop_memory_samples")
		}
	}
	if inner && len(failAt) == 0 {
		return
	}
	if inner {
		// a command failing inside EXEC is a data conflict on the target, not a crash: the unit's
		// record is applied without its data whatever the tool does. What the tool must do: stop,
		// and not count the unit as committed (checked above through the in-memory frontier).
		if c.settle >= 0 && (loopErr == nil || strings.Contains(loopErr.Error(), "EOF")) { // (an abrupt end of the stream may win the race for the returned error)
			s.Violate("loop-ignores-failed-exec", fmt.Sprintf("a command of a unit failed inside EXEC; the send loop ended with: %v", loopErr), rep(nil))
		}
		s.Count("loop_inner_fault")
		return
	}
	// the same process starts again (RedisOutput kept: the frontier-miss fast path may answer from memory) - after EVERY
	// kind of loop end: clean, settled, abrupt, stopped by a fault, with a lane that stalled. The start is compared with
	// the model of the live process (op c14p), judged like a fresh one (it names a committed prefix), must not be below
	// what the first start of this process returned, and the process replays on from it.
	{
		st, _ := vfLProcStart(s, c, ro, tg, -1, "second")
		ok2 := judge(replay(log), st, "same process, second StartPoint", len(log))
		s.Count("loop_same_process_restart")
		if c.fault != "" || len(c.slow) > 0 {
			s.Count("loop_same_process_restart_after_aborted_loop")
		}
		if ok2 && st.off < first.off {
			s.Violate("loop-same-process-start-below-earlier", fmt.Sprintf("the first start of the process resumed at %s, its second start (after the loop ended with %v) at %s", first.text, loopErr, st.text),
				rep(map[string]interface{}{"start": st.text}))
			ok2 = false
		}
		last := st
		if ok2 {
			i := vfLIndexOf(ends, st.off)
			n2 := tg.LogLen()
			_, _ = vfBisyncLoopRun(t, ro, tg, vfLRid, wire[ends[i]-vfLStart:], st.off, 300*time.Millisecond)
			log2 := tg.LogCopy()
			com := vfLCommitted(replay(log2), ks)
			for u := startIdx + 1; u < len(com); u++ {
				if !com[u] {
					s.Violate("loop-same-process-resumed-run-skips-unit", fmt.Sprintf("the loop ended (%v), the same process started again at %s and replayed the rest of the stream; unit %d was never committed (committed %v)", loopErr, st.text, u, com[1:]),
						rep(map[string]interface{}{"start": st.text}))
					ok2 = false
					break
				}
			}
			// crash points of the second loop of the process: a fresh start names a committed prefix and never moves backwards
			r2 := vfutil.NewRand(c.cutSeed + 29)
			budget := 4
			if c.lanes > 1 {
				budget = 1 // (a cluster-typed start scans 16384 slot keys)
			}
			prev2 := int64(-1 << 62)
			for kk := n2; kk <= len(log2) && ok2 && budget > 0; kk += 1 + r2.Intn(4) {
				if kk < len(log2) && kk > 0 && log2[kk-1].Queued {
					continue
				}
				budget--
				tk := replay(log2[:kk])
				fr, _ := vfLRead(c, tk)
				s.Count("loop_crash_points")
				if !judge(tk, fr, "second loop of the same process", kk) {
					ok2 = false
					break
				}
				if fr.off < prev2 {
					s.Violate("loop-resume-moves-backwards", fmt.Sprintf("second loop of the same process (started at %s): a stop after an earlier request resumed at %d, a stop after request #%d resumes at %d", st.text, prev2, kk-nSeed, fr.off),
						rep(map[string]interface{}{"crash_after_request": kk - nSeed, "start": fr.text}))
					ok2 = false
					break
				}
				prev2 = fr.off
			}
			if ok2 && (c.lanes == 1 || r2.Chance(1, 3)) {
				st3, _ := vfLProcStart(s, c, ro, tg, -1, "third")
				if judge(replay(log2), st3, "same process, third StartPoint", len(log2)) && st3.off < st.off {
					s.Violate("loop-same-process-start-below-earlier", fmt.Sprintf("the second start of the process resumed at %s, its third start at %s", st.text, st3.text),
						rep(map[string]interface{}{"start": st3.text}))
				}
				last = st3
				s.Count("loop_same_process_second_loop")
			}
		}
		// ... and again after the root checkpoint moved forward under the same process: a full
		// resynchronisation (ResetStartPoint as syncMeta calls it, then the root a completed snapshot
		// replay writes), (a) with the in-memory offset a completed SendRdb leaves, (b) the root alone
		// (written by another writer of the same namespace). The position is the new root: the
		// in-memory frontier of the abandoned numbering is before the snapshot.
		if c.fault == "" && len(c.slow) == 0 && ok2 && last.ok && c.lanes == 1 {
			ids := []string{vfLRid, vfLRid0}
			newRoot := ends[len(ends)-1] + 1000 + int64(c.cutSeed%7)
			variant := "root-only"
			if c.cutSeed%2 == 0 {
				variant = "completed-snapshot-replay"
			}
			ctx := context.Background()
			err := ro.ResetStartPoint(ctx, ids)
			if err == nil {
				if variant == "completed-snapshot-replay" {
					ro.bisyncOffset.Store(newRoot)
				}
				err = ro.setCheckpoint(ctx, vfLRid, newRoot, config.Version)
			}
			if err != nil {
				s.Violate("loop-resync-bookkeeping-fails", err.Error(), rep(nil))
			} else {
				st4, _ := vfLProcStart(s, c, ro, tg, -1, "newroot")
				if ro.bisyncSeq.Load() != 0 {
					s.Count("loop_same_process_new_root_keeps_numbering") // not a position matter: counted only
				}
				resume := c.cutSeed%5 != 0
				if !resume {
					// resumeFromBreakPoint: false - setCheckpoint keeps the new root in memory only, the bidirectional start
					// reads the TARGET: no root there, the answer is a full synchronisation (nothing resumes, nothing is
					// skipped). OBSERVATION: with bisync every restart of such a configuration is a full resynchronisation,
					// also inside the process (the one-directional path would use the in-memory position).
					fr, _ := vfLRead(c, vfdoubles.ReplayWith(tg.LogCopy(), 0, true))
					if !st4.ok && !fr.ok {
						s.Count("cfg_resumeFromBreakPoint_false_new_root_full_sync")
					} else {
						s.Count("cfg_resumeFromBreakPoint_false_new_root_resumed")
					}
				} else if !st4.ok || st4.off != newRoot {
					s.Violate("loop-same-process-resumes-before-new-root", fmt.Sprintf("after the loop (in-memory frontier %s) a full resynchronisation moved the root checkpoint to %d (%s); StartPoint of the same process: %s",
						last.text, newRoot, variant, st4.text), rep(map[string]interface{}{"variant": variant, "new_root": newRoot, "start": st4.text}))
				}
				fr, _ := vfLRead(c, vfdoubles.ReplayWith(tg.LogCopy(), 0, true))
				if resume && (!fr.ok || fr.off != newRoot) {
					s.Violate("loop-fresh-process-resumes-before-new-root", fmt.Sprintf("root checkpoint moved to %d by a full resynchronisation; a fresh process resumes at %s", newRoot, fr.text), rep(nil))
				}
				s.Count("loop_same_process_new_root_" + variant)
			}
		}
	}
	// crash points
	r := vfutil.NewRand(c.cutSeed + 17)
	var cuts []int
	for k := nSeed; k <= len(log); k++ {
		if k < len(log) && k > 0 && log[k-1].Queued {
			continue
		}
		cuts = append(cuts, k)
	}
	maxCuts := 400
	if c.lanes > 1 {
		// a cluster-typed start scans 16384 slot keys: the crash points right after a unit's EXEC
		// (and the ends) only
		maxCuts = 12
		var sel []int
		for _, k := range cuts {
			if k == nSeed || k == len(log) || (k > 0 && log[k-1].Cmd() == "exec") {
				sel = append(sel, k)
			}
		}
		cuts = sel
	}
	for len(cuts) > maxCuts {
		i := 1 + r.Intn(len(cuts)-2)
		cuts = append(cuts[:i], cuts[i+1:]...)
	}
	okAll := true
	prevOff := int64(-1 << 62)
	for _, k := range cuts {
		tk := replay(log[:k])
		st, _ := vfLRead(c, tk)
		s.Count("loop_crash_points")
		if !judge(tk, st, "first run", k) {
			okAll = false
			break
		}
		// the later the process stops, the further (never the less far) a fresh start resumes
		if st.off < prevOff {
			s.Violate("loop-resume-moves-backwards", fmt.Sprintf("a stop after an earlier request resumed at %d, a stop after request #%d resumes at %d", prevOff, k-nSeed, st.off),
				rep(map[string]interface{}{"crash_after_request": k - nSeed, "start": st.text}))
			okAll = false
			break
		}
		prevOff = st.off
		// the recovery of that start itself hits a failing frontier HSET: whatever it answered,
		// the start after it must not resume before it
		if r.Chance(1, 5) && c.lanes == 1 {
			t1 := replay(log[:k])
			n1 := t1.LogLen()
			vfLRead(c, t1) // dry: where is its frontier HSET
			l1 := t1.LogCopy()
			at := -1
			for i := n1; i < len(l1); i++ {
				if l1[i].Cmd() == "hset" && string(l1[i].Args[1]) == checkpoint.BisyncFrontierKey(vfC14Cp) {
					at = i
					break
				}
			}
			if at >= 0 {
				t2 := replay(log[:k])
				t2.FailAt[at] = "OOM command not allowed when used memory > 'maxmemory'"
				a, _ := vfLRead(c, t2)
				fa2 := map[int]string{at: "OOM"}
				for i, m := range failAt {
					fa2[i] = m
				}
				t3 := vfdoubles.ReplayFaults(t2.LogCopy(), 0, true, fa2)
				b, _ := vfLRead(c, t3)
				s.Count("loop_recovery_fault")
				if a.ok && (!b.ok || b.off < a.off) {
					s.Violate("loop-recovery-fault-moves-backwards", fmt.Sprintf("after request #%d a start whose frontier HSET failed answered %s; the next start: %s", k-nSeed, a.text, b.text),
						rep(map[string]interface{}{"crash_after_request": k - nSeed, "start": a.text, "next": b.text}))
					okAll = false
					break
				}
			}
		}
	}
	// resume from one crash point and replay the rest: nothing may be missing at the end
	if okAll && len(cuts) > 0 {
		k := cuts[r.Intn(len(cuts))]
		tk := replay(log[:k])
		// in the log of the resumed run only the requests before the crash point failed
		fa := map[int]string{}
		for i, m := range failAt {
			if i < k {
				fa[i] = m
			}
		}
		replay2 := func(l []vfdoubles.LogEntry) *vfdoubles.Target { return vfdoubles.ReplayFaults(l, 0, true, fa) }
		st, ro2 := vfLRead(c, tk)
		if st.ok {
			if i := vfLIndexOf(ends, st.off); i >= 0 {
				n2 := tk.LogLen()
				_, _ = vfBisyncLoopRun(t, ro2, tk, vfLRid, wire[ends[i]-vfLStart:], st.off, 300*time.Millisecond)
				log2 := tk.LogCopy()
				// (the start of the resumed run ended at the first unit transaction: everything before the first MULTI)
				firstMulti := n2
				for firstMulti < len(log2) && log2[firstMulti].Cmd() != "multi" {
					firstMulti++
				}
				if at, what := vfLRecoveryAfterStart(log2, firstMulti, st.seq); at >= 0 {
					s.Violate("tie-shape:recovery-request-after-start-returned", fmt.Sprintf("resumed run (restart after request #%d, resume after unit %d): request #%d of its log, after the first unit transaction began, is a recovery request: %s", k-nSeed, st.seq, at-n2+1, what),
						rep(map[string]interface{}{"crash_after_request": k - nSeed, "start": st.text}))
				}
				com := vfLCommitted(replay2(log2), ks)
				for u := startIdx + 1; u < len(com); u++ {
					if !com[u] {
						s.Violate("loop-resumed-run-skips-unit", fmt.Sprintf("a process restarted after request #%d resumed at %s and replayed the rest of the stream; unit %d was never committed (committed %v)", k-nSeed, st.text, u, com[1:]),
							rep(map[string]interface{}{"crash_after_request": k - nSeed, "start": st.text}))
						break
					}
				}
				// and its own crash points
				for kk := n2; kk <= len(log2); kk += 1 + r.Intn(3) {
					if kk < len(log2) && kk > 0 && log2[kk-1].Queued {
						continue
					}
					if c.lanes > 1 && r.Chance(2, 3) {
						continue
					}
					t2 := replay2(log2[:kk])
					st2, _ := vfLRead(c, t2)
					s.Count("loop_crash_points")
					if !judge(t2, st2, "resumed run", kk) {
						break
					}
				}
				s.Count("loop_resumed_runs")
			}
		}
	}
	s.Distinct(fmt.Sprintf("l|%s|%d|%d|%s|%d|%d", c.mode, c.lanes, c.n, strings.SplitN(c.fault, ":", 2)[0], c.stale, len(log)-nSeed))
}

func vfC14LoopGen(r *vfutil.Rand) *vfLCase {
	c := &vfLCase{mode: vfutil.Pick(r, []string{"L", "P", "F", "F"}), lanes: 1, n: r.Range(2, 7), settle: vfutil.Pick(r, []int{-1, -1, 0, 50, 150, 250}), cutSeed: r.U64() % 1000}
	if r.Chance(1, 4) {
		c.txnAt = r.Range(1, c.n)
		c.txnLen = vfutil.Pick(r, []int{2, 2, 9, 40})
	}
	c.bcc = vfutil.Pick(r, []uint{4, 4, 1, 100})
	if c.mode != "L" && r.Chance(1, 4) {
		c.stale = r.Range(1, 4)
	}
	switch r.Intn(5) {
	case 4:
		// the unit's transaction is executed, the reply is lost: the loop stops, the SAME process starts again
		c.fault = "lostreply:" + strconv.Itoa(r.Range(1, c.n))
	case 0:
		if c.mode != "L" {
			c.fault = "frontier"
		}
	case 1:
		c.fault = "queued:" + strconv.Itoa(r.Range(1, c.n))
	case 2:
		if c.mode != "L" {
			c.fault = "del"
		} else {
			c.fault = "inner:" + strconv.Itoa(r.Range(1, c.n))
		}
	case 3:
		if r.Bool() {
			c.fault = "inner:" + strconv.Itoa(r.Range(1, c.n))
		}
	}
	return c
}

// a unit's transaction executed by the target with the reply lost (connection reset between EXEC and its answer),
// every mode (sync mode must then resume exactly after that unit - also when the SAME process starts again)
func vfC14LoopGenLost(r *vfutil.Rand, mode string) *vfLCase {
	c := &vfLCase{mode: mode, lanes: 1, n: r.Range(2, 6), settle: vfutil.Pick(r, []int{-1, 50, 150}), cutSeed: r.U64() % 1000}
	c.fault = "lostreply:" + strconv.Itoa(r.Range(1, c.n))
	if mode != "L" && r.Chance(1, 3) {
		c.fault = "lostsave"
		c.settle = vfutil.Pick(r, []int{150, 250})
	}
	if r.Chance(1, 5) {
		c.txnAt = r.Range(1, c.n)
	}
	return c
}

// the lost-reply x restart matrix, enumerated: every mode x every unit k of an n-unit stream x the three ways a
// unit's transaction can go wrong on the wire (queued command refused = EXECABORT; connection cut BEFORE the EXEC
// ran; EXEC executed, reply lost) x flush tick before the end or not. vfC14Loop then takes every request prefix to a fresh
// process AND lets the same process start again (c14p) - the (fresh, same process) dimension.
func vfC14LoopMatrix() []*vfLCase {
	var out []*vfLCase
	ns := []int{3}
	if vfutil.Scale(0, 1) == 1 {
		ns = []int{2, 3, 4}
	}
	for _, mode := range []string{"L", "P", "F"} {
		for _, n := range ns {
			for k := 1; k <= n; k++ {
				for fi, f := range []string{"queued", "cutexec", "lostreply"} {
					settle := []int{0, 150}[(k+fi)%2] // (settle < 0 = abrupt end: the parser may drop buffered units, the fault may not be reached)
					if vfutil.Scale(0, 1) == 1 {
						out = append(out, &vfLCase{mode: mode, lanes: 1, n: n, fault: f + ":" + strconv.Itoa(k), settle: 150 - settle, cutSeed: uint64(7*k + n)})
					}
					out = append(out, &vfLCase{mode: mode, lanes: 1, n: n, fault: f + ":" + strconv.Itoa(k), settle: settle, cutSeed: uint64(k + n)})
				}
			}
		}
	}
	return out
}

func vfC14LoopGenLanes(r *vfutil.Rand) *vfLCase {
	c := &vfLCase{mode: "F", lanes: vfutil.Pick(r, []int{2, 2, 3, 4}), n: r.Range(3, 6), settle: vfutil.Pick(r, []int{150, 250}), cutSeed: r.U64() % 1000}
	c.bcc = vfutil.Pick(r, []uint{4, 1, 100})
	// a random non-empty subset of the units rides the stalled lane
	for u := 1; u <= c.n; u++ {
		if r.Chance(1, 2) {
			c.slow = append(c.slow, u)
		}
	}
	if len(c.slow) == 0 {
		c.slow = []int{2}
	}
	if r.Chance(1, 2) {
		c.stale = r.Range(1, 3)
	}
	return c
}

func vfC14LoopParse(op string) *vfLCase {
	if !strings.HasPrefix(op, "c14l ") {
		return nil
	}
	kv := map[string]string{}
	for _, tok := range strings.Fields(op)[1:] {
		if i := strings.IndexByte(tok, '='); i > 0 {
			kv[tok[:i]] = tok[i+1:]
		}
	}
	atoi := func(s string) int { n, _ := strconv.Atoi(s); return n }
	c := &vfLCase{mode: kv["mode"], lanes: atoi(kv["lanes"]), n: atoi(kv["n"]), txnAt: atoi(kv["txn"]), stale: atoi(kv["stale"]),
		settle: atoi(kv["settle"]), slow: checkpoint.VfUnInts(kv["slow"]), txnLen: atoi(kv["txnlen"]), bcc: uint(atoi(kv["bcc"]))}
	if kv["fault"] != "-" {
		c.fault = kv["fault"]
	}
	sd, _ := strconv.ParseUint(kv["seed"], 10, 64)
	c.cutSeed = sd
	if c.lanes < 1 {
		c.lanes = 1
	}
	return c
}

// vfLRecoveryAfterStart: first request at index >= from that only the recovery of a start (resumed after unit k0)
// issues: HSET <cp>:frontier with unit_seq <= k0, DEL <cp>:frontier, DEL / ZREM of journal keys numbered <= k0.
func vfLRecoveryAfterStart(log []vfdoubles.LogEntry, from int, k0 int64) (int, string) {
	fkey := checkpoint.BisyncFrontierKey(vfC14Cp)
	num := func(key string) (int64, bool) {
		if !strings.Contains(key, ":commit:{") {
			return 0, false
		}
		n, err := strconv.ParseInt(key[strings.LastIndexByte(key, ':')+1:], 10, 64)
		return n, err == nil
	}
	for i := from; i < len(log); i++ {
		e := log[i]
		if e.Queued || len(e.Args) < 2 {
			continue
		}
		switch e.Cmd() {
		case "hset":
			if string(e.Args[1]) == fkey {
				for j := 2; j+1 < len(e.Args); j += 2 {
					if string(e.Args[j]) == "unit_seq" {
						if n, err := strconv.ParseInt(string(e.Args[j+1]), 10, 64); err == nil && n <= k0 {
							return i, fmt.Sprintf("hset frontier unit_seq=%d", n)
						}
					}
				}
			}
		case "del", "unlink":
			for _, a := range e.Args[1:] {
				if string(a) == fkey {
					return i, "del frontier"
				}
				if n, ok := num(string(a)); ok && n <= k0 {
					return i, fmt.Sprintf("del journal record %d", n)
				}
			}
		case "zrem":
			for _, a := range e.Args[2:] {
				if n, ok := num(string(a)); ok && n <= k0 {
					return i, fmt.Sprintf("zrem journal record %d", n)
				}
			}
		}
	}
	return -1, ""
}

// A parallel loop that is stopped while a lane still holds a unit, then the SAME process starts again
// (RedisInput.Run loops: run() -> syncMeta -> output.StartPoint -> Send): the next start reads and cleans
// the commit journal, the next loop re-sends from the point it returned. A unit transaction of the stopped
// loop that reaches the target after that is applied out of order - after newer writes of the same key -
// and its journal record lands in a numbering that has moved on. What must hold: once the loop has
// returned, none of its lanes commits any more; and after the whole stream was replayed the target holds
// the last value of every key.
// Shape: two lanes; unit 1 (key A) rides the lane that stalls inside the unit's MULTI, unit 2 (key B)
// commits on the other lane, the run is stopped; the next run resumes and replays units 1, 2 and 3
// (unit 3 writes key A again); then the stalled lane is released.
func vfC14Linger(t *testing.T, s *vfutil.Session, mode string) {
	c := &vfLCase{mode: mode, lanes: 2, n: 2, slow: []int{1}}
	ks := c.keys()
	var wire []byte
	ends := []int64{vfLStart}
	for _, cmd := range [][]string{{"set", ks[1], "v1"}, {"set", ks[2], "v2"}, {"set", ks[1], "v3"}} {
		bs := make([][]byte, len(cmd))
		for i, a := range cmd {
			bs[i] = []byte(a)
		}
		wire = append(wire, vfEncodeCmd(bs)...)
		ends = append(ends, vfLStart+int64(len(wire)))
	}
	tg := vfdoubles.NewTarget()
	c.seed(tg)
	var stalled atomic.Bool
	tg.Hook = func(idx int, e vfdoubles.LogEntry) {
		if e.Cmd() == "set" && e.Queued && len(e.Args) > 1 && string(e.Args[1]) == ks[1] && !stalled.Swap(true) {
			time.Sleep(60 * time.Millisecond)
		}
	}
	ids := []string{vfLRid, "0000000000000000000000000000000000000000"}
	nSeed := tg.LogLen()
	var nRet, nSp int
	var sp1, sp2 StartPoint
	var errS1, errS2, err1, err2 error
	synctest.Test(t, func(t *testing.T) {
		ro := c.output(tg)
		ctx := context.Background()
		sp1, errS1 = ro.StartPoint(ctx, ids)
		if errS1 != nil {
			tg.CloseAll()
			return
		}
		loop := func(lctx context.Context, from int64, upTo int64) (chan error, *io.PipeReader, *io.PipeWriter) {
			pr, pw := io.Pipe()
			done := make(chan error, 1)
			go func() { done <- ro.sendAofBisync(lctx, vfLRid, bufio.NewReaderSize(pr, 4096), from, 0) }()
			go func() { pw.Write(wire[from-vfLStart : upTo-vfLStart]) }()
			return done, pr, pw
		}
		ctx1, cancel1 := context.WithCancel(ctx)
		done1, pr1, pw1 := loop(ctx1, sp1.Offset, ends[2]) // units 1 and 2 so far
		synctest.Wait()                                    // unit 2 is committed, the other lane stalls inside unit 1
		cancel1()                                          // the run is stopped
		err1 = <-done1
		pr1.Close()
		pw1.Close()
		nRet = tg.LogLen()
		// the same process starts again
		sp2, errS2 = ro.StartPoint(ctx, ids)
		nSp = tg.LogLen()
		if errS2 == nil {
			ctx2, cancel2 := context.WithCancel(ctx)
			done2, pr2, pw2 := loop(ctx2, sp2.Offset, ends[3]) // the stream has gone on: unit 3 writes key A again
			synctest.Wait()
			time.Sleep(300 * time.Millisecond) // the stalled lane of the first loop is released meanwhile
			synctest.Wait()
			pw2.Close()
			err2 = <-done2
			pr2.Close()
			cancel2()
		}
		time.Sleep(300 * time.Millisecond)
		synctest.Wait()
		tg.CloseAll()
	})
	s.Count("linger_" + mode)
	op := fmt.Sprintf("c14linger mode=%s", mode)
	rep := map[string]interface{}{"op": op}
	if errS1 != nil || errS2 != nil {
		s.Violate("loop-restart-fails", fmt.Sprintf("start: %v / %v", errS1, errS2), rep)
		return
	}
	log := tg.LogCopy()
	oldConn := map[int]bool{}
	for _, e := range log[nSeed:nRet] {
		oldConn[e.Conn] = true
	}
	for i := nRet; i < len(log); i++ {
		if log[i].Cmd() == "exec" && oldConn[log[i].Conn] {
			s.Violate("tie-shape:loop-commits-after-loop-returned", fmt.Sprintf("the first loop returned (%v) after request #%d; the same process started again (resume %d, requests #%d..#%d) and replayed on; request #%d is the EXEC of a unit of the FIRST loop's stalled lane",
				err1, nRet-nSeed, sp2.Offset, nRet-nSeed+1, nSp-nSeed, i-nSeed+1), rep)
			break
		}
	}
	final := vfdoubles.ReplayWith(log, 0, true)
	if v := final.Get(0, ks[1]); v == nil || string(v.Str) != "v3" {
		got := "<absent>"
		if v != nil {
			got = string(v.Str)
		}
		s.Violate("loop-stale-unit-overwrites-newer", fmt.Sprintf("stream: set A v1; set B v2; set A v3 - replayed to the end (second loop: %v); the target holds A = %s: the first loop's unit 1 was applied after the second loop's unit 3", err2, got), rep)
	}
	if v := final.Get(0, ks[2]); v == nil || string(v.Str) != "v2" {
		s.Violate("loop-unit-lost", "key B missing after the whole stream was replayed", rep)
	}
}


// ---------------------------------------------------------------- a connection with a send buffer

// vfLSock puts what a socket has between the client and the target double: a send buffer. Write never blocks on the
// peer (the bytes are queued and delivered by a drainer), Close delivers what is queued before the peer sees the
// end of the stream - as close(2) does on a TCP socket. (net.Pipe alone is synchronous: a writer cannot run ahead of
// a target that is busy, which hides every transaction that was sent but not yet answered when the sender stops.)
type vfLSock struct {
	net.Conn
	mu     sync.Mutex
	cond   *sync.Cond
	buf    []byte
	closed bool
}

func vfLNewSock(c net.Conn) *vfLSock {
	k := &vfLSock{Conn: c}
	k.cond = sync.NewCond(&k.mu)
	go func() {
		for {
			k.mu.Lock()
			for len(k.buf) == 0 && !k.closed {
				k.cond.Wait()
			}
			if len(k.buf) == 0 {
				k.mu.Unlock()
				k.Conn.Close()
				return
			}
			out := k.buf
			k.buf = nil
			k.mu.Unlock()
			if _, err := k.Conn.Write(out); err != nil {
				return
			}
		}
	}()
	return k
}

func (k *vfLSock) Write(p []byte) (int, error) {
	k.mu.Lock()
	defer k.mu.Unlock()
	if k.closed {
		return 0, net.ErrClosed
	}
	k.buf = append(k.buf, p...)
	k.cond.Signal()
	return len(p), nil
}

func (k *vfLSock) Close() error {
	k.mu.Lock()
	k.closed = true
	k.cond.Signal()
	k.mu.Unlock()
	return nil
}

// A pipeline loop that is stopped while transactions it has SENT are not answered yet, then the SAME process starts
// again and replays on. The pipeline sender runs ahead of the receiver by up to BatchCmdCount units; what it has written
// is in the socket and will be executed by the target whatever the sender does afterwards. What must hold (as for the
// lanes of the parallel loop, D35): once the loop has returned no transaction of it is executed any more - the next start
// of the process reads the recovery state and the next loop re-sends from there; a transaction of the stopped loop
// executed after that is applied after newer writes of the same key.
// Shape: units `set A v1; set B v2; set C v3` are sent by the first run, the target is slow inside each of them (60 ms);
// the run is stopped with all three written; the stream goes on with `set B v4; set C v5`; the second run of the process
// replays from where its start says to the end; then the target gets to what the first run had sent. Odd trials: window
// (BatchCmdCount) 1 - the third unit is written but can no longer be handed to the receiver.
func vfC14LingerPipelined(t *testing.T, s *vfutil.Session, trial int) {
	c := &vfLCase{mode: "P", lanes: 1, n: 3}
	ks := c.keys()
	var wire []byte
	ends := []int64{vfLStart}
	for _, cmd := range [][]string{{"set", ks[1], "v1"}, {"set", ks[2], "v2"}, {"set", ks[3], "v3"}, {"set", ks[2], "v4"}, {"set", ks[3], "v5"}} {
		bs := make([][]byte, len(cmd))
		for i, a := range cmd {
			bs[i] = []byte(a)
		}
		wire = append(wire, vfEncodeCmd(bs)...)
		ends = append(ends, vfLStart+int64(len(wire)))
	}
	tg := vfdoubles.NewTarget()
	c.seed(tg)
	var stalled [4]atomic.Bool
	tg.Hook = func(idx int, e vfdoubles.LogEntry) {
		if e.Cmd() != "set" || !e.Queued || len(e.Args) < 3 {
			return
		}
		for u := 1; u <= 3; u++ {
			if string(e.Args[1]) == ks[u] && string(e.Args[2]) == "v"+strconv.Itoa(u) && !stalled[u].Swap(true) {
				time.Sleep(60 * time.Millisecond)
			}
		}
	}
	ids := []string{vfLRid, vfLRid0}
	nSeed := tg.LogLen()
	var nRet, nSp int
	var sp2 StartPoint
	var errS1, errS2, err1, err2 error
	window := 4
	if trial%2 == 1 {
		window = 1
	}
	synctest.Test(t, func(t *testing.T) {
		ro := c.output(tg)
		ro.cfg.BatchCmdCount = uint(window)
		rc := checkpoint.VfRedisCfg()
		ro.newRedisConn = func(ctx context.Context) (client.Redis, error) {
			return conn.VerifNewRedisConn(vfLNewSock(tg.Dial()), rc), nil
		}
		ctx := context.Background()
		var sp1 StartPoint
		sp1, errS1 = ro.StartPoint(ctx, ids)
		if errS1 != nil {
			tg.CloseAll()
			return
		}
		loop := func(lctx context.Context, from int64, upTo int64) (chan error, *io.PipeReader, *io.PipeWriter) {
			pr, pw := io.Pipe()
			done := make(chan error, 1)
			go func() { done <- ro.sendAofBisync(lctx, vfLRid, bufio.NewReaderSize(pr, 4096), from, 0) }()
			go func() { pw.Write(wire[from-vfLStart : upTo-vfLStart]) }()
			return done, pr, pw
		}
		ctx1, cancel1 := context.WithCancel(ctx)
		done1, pr1, pw1 := loop(ctx1, sp1.Offset, ends[3]) // units 1, 2, 3 so far
		synctest.Wait()                                    // all three are written; the target is inside unit 1
		cancel1()                                          // the run is stopped
		err1 = <-done1
		pr1.Close()
		pw1.Close()
		nRet = tg.LogLen()
		sp2, errS2 = ro.StartPoint(ctx, ids) // the same process starts again
		nSp = tg.LogLen()
		if errS2 == nil && sp2.Offset >= vfLStart && sp2.Offset <= ends[5] {
			ctx2, cancel2 := context.WithCancel(ctx)
			done2, pr2, pw2 := loop(ctx2, sp2.Offset, ends[5]) // the stream has gone on: units 4, 5 write keys B, C again
			synctest.Wait()
			time.Sleep(400 * time.Millisecond)
			synctest.Wait()
			pw2.Close()
			err2 = <-done2
			pr2.Close()
			cancel2()
		}
		time.Sleep(400 * time.Millisecond)
		synctest.Wait()
		tg.CloseAll()
	})
	s.Count(fmt.Sprintf("linger_pipelined_window%d", window))
	op := fmt.Sprintf("c14linger2 mode=P trial=%d window=%d", trial, window)
	rep := map[string]interface{}{"op": op}
	if errS1 != nil || errS2 != nil {
		s.Violate("loop-restart-fails", fmt.Sprintf("start: %v / %v", errS1, errS2), rep)
		return
	}
	log := tg.LogCopy()
	oldConn := map[int]bool{}
	for _, e := range log[nSeed:nRet] {
		oldConn[e.Conn] = true
	}
	for i := nRet; i < len(log); i++ {
		if log[i].Cmd() == "exec" && oldConn[log[i].Conn] {
			s.Violate("tie-shape:loop-commits-after-loop-returned", fmt.Sprintf("pipeline mode (window %d): the first loop had sent units 1, 2, 3 when it was stopped; it returned (%v) after request #%d; the same process started again (resume %d, requests #%d..#%d) and replayed on; request #%d is the EXEC of a unit the FIRST loop had sent",
				window, err1, nRet-nSeed, sp2.Offset, nRet-nSeed+1, nSp-nSeed, i-nSeed+1), rep)
			break
		}
	}
	final := vfdoubles.ReplayWith(log, 0, true)
	for u, want := range map[int]string{1: "v1", 2: "v4", 3: "v5"} {
		got := "<absent>"
		if v := final.Get(0, ks[u]); v != nil {
			got = string(v.Str)
		}
		if got != want {
			s.Violate("loop-stale-unit-overwrites-newer", fmt.Sprintf("stream: set A v1; set B v2; set C v3; set B v4; set C v5 - replayed to the end (second loop: %v); the target holds key %d (A=1, B=2, C=3) = %s, not %s: a unit the first loop had sent was applied after the second loop's newer write", err2, u, got, want), rep)
			break
		}
	}
}


// ---------------------------------------------------------------- a paced stream: the in-memory frontier vs the STORED one

// vfLPacedLoop runs the real send loop on a stream that arrives piece by piece (gap of virtual time between the pieces):
// flush ticks fall between units, so the coordinator saves frontiers while the loop is under way.
func vfLPacedLoop(t *testing.T, ro *RedisOutput, tg *vfdoubles.Target, pieces [][]byte, gap time.Duration, start int64) (retErr error) {
	synctest.Test(t, func(t *testing.T) {
		ctx, cancel := context.WithCancel(context.Background())
		defer cancel()
		pr, pw := io.Pipe()
		done := make(chan error, 1)
		go func() { done <- ro.sendAofBisync(ctx, vfLRid, bufio.NewReaderSize(pr, 4096), start, 0) }()
		wrote := make(chan struct{})
		go func() {
			defer close(wrote)
			for _, p := range pieces {
				if _, err := pw.Write(p); err != nil {
					return
				}
				time.Sleep(gap)
			}
		}()
		select {
		case retErr = <-done: // the loop stopped by itself (error)
		case <-wrote:
			synctest.Wait()
			pw.Close()
			retErr = <-done
		}
		pr.Close()
		<-wrote
		synctest.Wait()
		tg.CloseAll()
	})
	return retErr
}

// A process whose first start missed (fast path armed) replays a stream that arrives slowly: the coordinator saves
// frontiers 1, 2, ... as it goes. Unit failU is refused by the target (EXECABORT): the loop stops with an error, the
// SAME process starts again - answered from memory - and replays the rest, slowly again, flush ticks in between.
// What the memory must guarantee (invariant snapLe of Model/FrontierProc.lean: the in-memory frontier is not below the
// snapshot stored on the target): the next coordinator starts from it and SAVES what it reaches - starting below the
// stored snapshot it would overwrite the snapshot with an older frontier whose journal records are long deleted.
// Monitors: the in-process start like every start; at every request prefix of the second loop a fresh start names a
// committed prefix and never moves backwards.
func vfC14PacedRestart(t *testing.T, s *vfutil.Session, mode string, n int, failU int, gapMs int) {
	c := &vfLCase{mode: mode, lanes: 1, n: n}
	wire, ends, ks := c.wire()
	pieces := func(from int) [][]byte {
		var ps [][]byte
		for u := from + 1; u <= n; u++ {
			ps = append(ps, wire[ends[u-1]-vfLStart:ends[u]-vfLStart])
		}
		return ps
	}
	gap := time.Duration(gapMs) * time.Millisecond
	op := fmt.Sprintf("c14paced mode=%s n=%d fail=%d gap=%d", mode, n, failU, gapMs)
	rep := map[string]interface{}{"op": op}
	run := func(failAt int, record bool) (*vfdoubles.Target, *RedisOutput, vfLPoint, error, int) {
		tg := vfdoubles.NewTarget()
		c.seed(tg)
		if failAt >= 0 {
			tg.FailAt[failAt] = "OOM command not allowed when used memory > 'maxmemory'"
		}
		nSeed := tg.LogLen()
		ro := c.output(tg)
		var first vfLPoint
		if record {
			first, _ = vfLProcStart(s, c, ro, tg, -1, "paced_first")
		} else {
			vfC14Dump(tg, []string{vfLRid, vfLRid0}) // (the same requests as the recorded run)
			first, _ = vfLRead2(ro)
		}
		if !first.ok {
			return tg, ro, first, nil, nSeed
		}
		err := vfLPacedLoop(t, ro, tg, pieces(0), gap, first.off)
		return tg, ro, first, err, nSeed
	}
	// dry run: where is the queued command of unit failU
	tg0, _, f0, _, _ := run(-1, false)
	failAt := -1
	for i, e := range tg0.LogCopy() {
		if e.Queued && e.Cmd() == "set" && len(e.Args) > 1 && string(e.Args[1]) == ks[failU] {
			failAt = i
			break
		}
	}
	if !f0.ok || failAt < 0 {
		s.Count("paced_not_applicable")
		return
	}
	tg, ro, first, err1, nSeed := run(failAt, true)
	s.Count("paced_" + mode)
	if !first.ok {
		s.Violate("loop-first-start-fails", first.text, rep)
		return
	}
	fa := map[int]string{failAt: "OOM"}
	replay := func(l []vfdoubles.LogEntry) *vfdoubles.Target { return vfdoubles.ReplayFaults(l, 0, true, fa) }
	judge := func(tk *vfdoubles.Target, st vfLPoint, where string, k int) bool {
		com := vfLCommitted(tk, ks)
		ex := map[string]interface{}{"op": op, "crash_after_request": k - nSeed, "start": st.text, "committed": fmt.Sprint(com[1:])}
		m := vfLIndexOf(ends, st.off)
		switch {
		case !st.ok:
			s.Violate("loop-restart-fails", fmt.Sprintf("%s: after request #%d a start: %s", where, k-nSeed, st.text), ex)
			return false
		case m < 0:
			s.Violate("loop-resume-inside-unit", fmt.Sprintf("%s: after request #%d resume offset %d is not a unit boundary %v", where, k-nSeed, st.off, ends), ex)
			return false
		}
		for u := 1; u <= m; u++ {
			if !com[u] {
				s.Violate("loop-resume-skips-unit", fmt.Sprintf("%s: after request #%d a start resumes after unit %d (offset %d) but unit %d is not committed (committed %v)", where, k-nSeed, m, st.off, u, com[1:]), ex)
				return false
			}
		}
		if st.seq != int64(m) {
			s.Violate("loop-start-seq-mismatch", fmt.Sprintf("%s: after request #%d StartPoint left bisyncSeq %d for unit %d", where, k-nSeed, st.seq, m), ex)
			return false
		}
		return true
	}
	log1 := tg.LogCopy()
	// what a fresh process would resume from when the first loop has stopped
	fr1, _ := vfLRead(c, replay(log1))
	second, _ := vfLProcStart(s, c, ro, tg, -1, "paced_second")
	if !judge(replay(tg.LogCopy()), second, "same process, second StartPoint", tg.LogLen()) {
		return
	}
	if second.off < first.off {
		s.Violate("loop-same-process-start-below-earlier", fmt.Sprintf("the first start of the process resumed at %s, its second start (after the loop ended with %v) at %s", first.text, err1, second.text), rep)
		return
	}
	from := vfLIndexOf(ends, second.off)
	n2 := tg.LogLen()
	_ = vfLPacedLoop(t, ro, tg, pieces(from), gap, second.off)
	log2 := tg.LogCopy()
	com := vfLCommitted(replay(log2), ks)
	for u := 1; u < len(com); u++ {
		if !com[u] {
			s.Violate("loop-same-process-resumed-run-skips-unit", fmt.Sprintf("the loop stopped (%v), the same process started again at %s and replayed the rest; unit %d was never committed (committed %v)", err1, second.text, u, com[1:]), rep)
			return
		}
	}
	prev := fr1.off
	for k := n2; k <= len(log2); k++ {
		if k < len(log2) && k > 0 && log2[k-1].Queued {
			continue
		}
		tk := replay(log2[:k])
		fr, _ := vfLRead(c, tk)
		s.Count("paced_crash_points")
		if !judge(tk, fr, "second loop of the same process", k) {
			return
		}
		if fr.off < prev {
			what := "-"
			if k > 0 {
				what = log2[k-1].String()
			}
			s.Violate("loop-resume-moves-backwards", fmt.Sprintf("the first loop of the process stopped (%v) with a fresh start resuming at %d; the same process started again at %s and replayed on: a stop after request #%d (%s) resumes at %d, a stop before it at %d",
				err1, fr1.off, second.text, k-nSeed, what, fr.off, prev), map[string]interface{}{"op": op, "crash_after_request": k - nSeed, "start": fr.text})
			return
		}
		prev = fr.off
	}
}

// A start that finds NO root checkpoint (initial sync): StartPoint stores bisyncSeq 0 and the offset of Initialize() over
// whatever the process held - compared with `pstart` (op c14p: start=empty and the memory after the call).
func vfC14RootlessStart(s *vfutil.Session, mode string, seq, off int64, miss string) {
	c := &vfLCase{mode: mode, lanes: 1, n: 2}
	tg := vfdoubles.NewTarget()
	tg.Lenient = true
	tg.Seed(0, "hset", vfC14Cp, "bisync_mode", "parallel")
	ro := c.output(tg)
	ro.bisyncSeq.Store(seq)
	ro.bisyncOffset.Store(off)
	ro.bisyncMissRunID = miss
	st, _ := vfLProcStart(s, c, ro, tg, -1, "rootless")
	if st.ok {
		s.Violate("loop-restart-fails", "a namespace without root checkpoint: StartPoint returned a position: "+st.text, map[string]interface{}{"op": "c14rootless"})
	}
}

// (StartPoint without the comparison with the model: the dry run of a paced case)
func vfLRead2(ro *RedisOutput) (vfLPoint, error) {
	sp, err := ro.StartPoint(context.Background(), []string{vfLRid, vfLRid0})
	if err != nil {
		return vfLPoint{text: "err:" + err.Error()}, err
	}
	if sp.RunId != vfLRid {
		return vfLPoint{text: fmt.Sprintf("initial(%s:%d)", sp.RunId, sp.Offset)}, nil
	}
	return vfLPoint{ok: true, off: sp.Offset, seq: ro.bisyncSeq.Load(), text: fmt.Sprintf("%d/seq%d", sp.Offset, ro.bisyncSeq.Load())}, nil
}

// A start that has journal records to consume (snapshot at unit 1, records 2 and 3: resume after unit 3, the
// rebuilt frontier is saved and the records deleted), then - in the same process, same virtual clock - the send
// loop for units 4 and 5 with its flush ticks. After StartPoint returned: no recovery request any more
// (tie-shape), and at every request prefix a fresh start resumes at a point not before the previous prefix's.
func vfC14RecoverThenLoop(t *testing.T, s *vfutil.Session, mode string) {
	c := &vfLCase{mode: mode, lanes: 1, n: 5}
	wire, ends, ks := c.wire()
	tg := vfdoubles.NewTarget()
	c.seed(tg)
	tag := checkpoint.BisyncSlotTag(0)
	for q := 1; q <= 3; q++ {
		tg.Seed(0, "set", ks[q], "v"+strconv.Itoa(q))
	}
	fr := &checkpoint.BisyncFrontierSnapshot{Version: config.Version, RunID: vfLRid, UnitSeq: 1, Offset: ends[1], MTime: 1}
	tg.Seed(0, vfArgs(checkpoint.BisyncFrontierKey(vfC14Cp), fr.HashArgs())...)
	for q := int64(2); q <= 3; q++ {
		k := checkpoint.BisyncCommitRecordKey(vfC14Cp, tag, q)
		rec := &checkpoint.BisyncCommitRecord{Key: k, Version: config.Version, RunID: vfLRid, SyncerID: "vf", UnitSeq: q, StartOffset: ends[q-1], EndOffset: ends[q], MTime: 1, Digest: "d"}
		tg.Seed(0, vfArgs(k, rec.HashArgs())...)
		tg.Seed(0, "zadd", checkpoint.BisyncCommitIndexKey(vfC14Cp, tag), strconv.FormatInt(q, 10), k)
	}
	nSeed := tg.LogLen()
	ids := []string{vfLRid, "0000000000000000000000000000000000000000"}
	var sp StartPoint
	var seq int64
	var errS, errL error
	nStart := 0
	var ro *RedisOutput
	synctest.Test(t, func(t *testing.T) {
		ro = c.output(tg)
		ctx, cancel := context.WithCancel(context.Background())
		defer cancel()
		sp, errS = ro.StartPoint(ctx, ids)
		seq = ro.bisyncSeq.Load()
		nStart = tg.LogLen()
		if errS == nil && sp.Offset >= vfLStart && sp.Offset <= ends[len(ends)-1] {
			pr, pw := io.Pipe()
			done := make(chan error, 1)
			go func() { done <- ro.sendAofBisync(ctx, vfLRid, bufio.NewReaderSize(pr, 4096), sp.Offset, 0) }()
			go func() { pw.Write(wire[sp.Offset-vfLStart:]) }()
			synctest.Wait()
			time.Sleep(400 * time.Millisecond)
			synctest.Wait()
			pw.Close()
			errL = <-done
			pr.Close()
		}
		time.Sleep(400 * time.Millisecond)
		synctest.Wait()
		tg.CloseAll()
	})
	s.Count("recover_then_loop_" + mode)
	rep := map[string]interface{}{"op": "c14recoverloop mode=" + mode}
	if errS != nil || sp.Offset != ends[3] {
		s.Violate("loop-restart-fails", fmt.Sprintf("snapshot at unit 1, journal 2, 3: StartPoint = %d (%v), expected %d", sp.Offset, errS, ends[3]), rep)
		return
	}
	log := tg.LogCopy()
	if at, what := vfLRecoveryAfterStart(log, nStart, seq); at >= 0 {
		s.Violate("tie-shape:recovery-request-after-start-returned", fmt.Sprintf("StartPoint returned (resume after unit %d) before request #%d; request #%d is a recovery request: %s (loop: %v)", seq, nStart-nSeed+1, at-nSeed+1, what, errL), rep)
	}
	prev := int64(-1)
	for k := nStart; k <= len(log); k++ {
		if k < len(log) && k > 0 && log[k-1].Queued {
			continue
		}
		st, _ := vfLRead(c, vfdoubles.ReplayWith(log[:k], 0, true))
		if !st.ok || st.off < prev {
			s.Violate("loop-resume-moves-backwards", fmt.Sprintf("start consumed the journal and resumed after unit 3, the loop replayed units 4, 5: a stop after an earlier request resumed at %d, a stop after request #%d (%s) resumes at %s", prev, k-nSeed, log[k-1].String(), st.text),
				rep)
			break
		}
		prev = st.off
		s.Count("recover_then_loop_crash_points")
	}
	// the same process starts again: its first start SELECTED a frontier (the fast path is not armed), so this one
	// reads the target like a fresh process (clean-up requests included) - compared with the model of the live process
	st2, _ := vfLProcStart(s, c, ro, tg, -1, "recoverloop")
	m := vfLIndexOf(ends, st2.off)
	com := vfLCommitted(vfdoubles.ReplayWith(tg.LogCopy(), 0, true), ks)
	bad := !st2.ok || m < 3
	for u := 1; u <= m && !bad; u++ {
		bad = !com[u]
	}
	if bad {
		s.Violate("loop-same-process-start-below-earlier", fmt.Sprintf("start consumed the journal and resumed after unit 3 (offset %d), the loop replayed units 4, 5 (%v); the second start of the same process: %s (committed %v)", ends[3], errL, st2.text, com[1:]), rep)
	}
}

// A start whose purge fails half-way, retried by the SAME process (getOutputStartPoint retries StartPoint on the same
// RedisOutput). Journal leftovers `left` of THIS numbering without the units before them (a crash before the first flush
// with the lanes finishing out of order): the start misses (journal gap), arms the frontier-miss fast path and purges;
// the failK-th write request of the purge gets an error reply: StartPoint returns the error and stores nothing. The retry
// is answered by the fast path - the root, sequence 0 - WITHOUT reading or purging what the failed purge left behind.
// Both starts are compared with the model of the live process (op c14p); then the process replays the stream: every
// unit committed at the end, and at every request prefix a fresh start names a committed prefix and never moves backwards.
func vfC14Retry(t *testing.T, s *vfutil.Session, mode string, n int, left []int, failK int, seed uint64) {
	c := &vfLCase{mode: mode, lanes: 1, n: n, cutSeed: seed}
	wire, ends, ks := c.wire()
	ids := []string{vfLRid, vfLRid0}
	mk := func() *vfdoubles.Target {
		tg := vfdoubles.NewTarget()
		c.seed(tg)
		tag := checkpoint.BisyncSlotTag(0)
		for _, q := range left {
			tg.Seed(0, "set", ks[q], "v"+strconv.Itoa(q))
			k := checkpoint.BisyncCommitRecordKey(vfC14Cp, tag, int64(q))
			rec := &checkpoint.BisyncCommitRecord{Key: k, Version: config.Version, RunID: vfLRid, SyncerID: "vf", UnitSeq: int64(q), StartOffset: ends[q-1], EndOffset: ends[q], MTime: 1, Digest: "d"}
			tg.Seed(0, vfArgs(k, rec.HashArgs())...)
			tg.Seed(0, "zadd", checkpoint.BisyncCommitIndexKey(vfC14Cp, tag), strconv.Itoa(q), k)
		}
		return tg
	}
	op := fmt.Sprintf("c14retry mode=%s n=%d left=%s fail=%d seed=%d", mode, n, checkpoint.VfInts(left), failK, seed)
	rep := map[string]interface{}{"op": op}
	// dry run: the write requests of the first start
	tg0 := mk()
	vfC14Dump(tg0, ids)
	nA := tg0.LogLen()
	c.output(tg0).StartPoint(context.Background(), ids)
	var ws []int
	for i, e := range tg0.LogCopy() {
		if _, ok := vfC14RenderWrite(e); ok && i >= nA {
			ws = append(ws, i)
		}
	}
	if len(ws) == 0 {
		s.Count("retry_not_applicable")
		return
	}
	if failK > len(ws) {
		failK = len(ws)
	}
	tg := mk()
	nSeed := tg.LogLen()
	ro := c.output(tg)
	failAt := map[int]string{ws[failK-1]: "ERR vf injected"}
	a, _ := vfLProcStart(s, c, ro, tg, ws[failK-1], "retry_failing")
	if a.ok {
		s.Count("retry_start_survived_the_fault")
	}
	b, _ := vfLProcStart(s, c, ro, tg, -1, "retry")
	s.Count("retry_" + mode)
	if !b.ok {
		s.Violate("loop-restart-fails", fmt.Sprintf("request #%d of the start failed (%s); the retry of the same process: %s", failK, a.text, b.text), rep)
		return
	}
	i := vfLIndexOf(ends, b.off)
	if i < 0 {
		s.Violate("loop-resume-inside-unit", fmt.Sprintf("retry of the same process resumes at %d, not a unit boundary %v", b.off, ends), rep)
		return
	}
	replay := func(l []vfdoubles.LogEntry) *vfdoubles.Target { return vfdoubles.ReplayFaults(l, 0, true, failAt) }
	judge := func(tk *vfdoubles.Target, st vfLPoint, where string, k int) bool {
		com := vfLCommitted(tk, ks)
		ex := map[string]interface{}{"op": op, "crash_after_request": k - nSeed, "start": st.text, "committed": fmt.Sprint(com[1:])}
		m := vfLIndexOf(ends, st.off)
		switch {
		case !st.ok:
			s.Violate("loop-restart-fails", fmt.Sprintf("%s: after request #%d a start: %s", where, k-nSeed, st.text), ex)
			return false
		case m < 0:
			s.Violate("loop-resume-inside-unit", fmt.Sprintf("%s: after request #%d resume offset %d is not a unit boundary %v", where, k-nSeed, st.off, ends), ex)
			return false
		}
		for u := 1; u <= m; u++ {
			if !com[u] {
				s.Violate("loop-resume-skips-unit", fmt.Sprintf("%s: after request #%d a start resumes after unit %d (offset %d) but unit %d is not committed (committed %v)", where, k-nSeed, m, st.off, u, com[1:]), ex)
				return false
			}
		}
		if st.seq != int64(m) {
			s.Violate("loop-start-seq-mismatch", fmt.Sprintf("%s: after request #%d StartPoint left bisyncSeq %d for unit %d", where, k-nSeed, st.seq, m), ex)
			return false
		}
		return true
	}
	if !judge(replay(tg.LogCopy()), b, "retry of the same process", tg.LogLen()) {
		return
	}
	nL := tg.LogLen()
	_, _ = vfBisyncLoopRun(t, ro, tg, vfLRid, wire[ends[i]-vfLStart:], b.off, 300*time.Millisecond)
	log := tg.LogCopy()
	com := vfLCommitted(replay(log), ks)
	for u := 1; u < len(com); u++ {
		if !com[u] {
			s.Violate("loop-same-process-resumed-run-skips-unit", fmt.Sprintf("the retried start resumed at %s and the process replayed the stream; unit %d was never committed (committed %v)", b.text, u, com[1:]), rep)
			return
		}
	}
	prev := int64(-1 << 62)
	for k := nL; k <= len(log); k++ {
		if k < len(log) && k > 0 && log[k-1].Queued {
			continue
		}
		tk := replay(log[:k])
		fr, _ := vfLRead(c, tk)
		s.Count("retry_crash_points")
		if !judge(tk, fr, "loop after the retried start", k) {
			return
		}
		if fr.off < prev {
			s.Violate("loop-resume-moves-backwards", fmt.Sprintf("loop after the retried start (the failed purge left journal records behind): a stop after an earlier request resumed at %d, a stop after request #%d resumes at %d", prev, k-nSeed, fr.off),
				map[string]interface{}{"op": op, "crash_after_request": k - nSeed, "start": fr.text})
			return
		}
		prev = fr.off
	}
	st3, _ := vfLProcStart(s, c, ro, tg, -1, "retry_third")
	if judge(replay(log), st3, "third start of the same process", len(log)) && st3.off < b.off {
		s.Violate("loop-same-process-start-below-earlier", fmt.Sprintf("the retried start resumed at %s, the next start of the process at %s", b.text, st3.text), rep)
	}
}

func vfC14RetryParse(op string) (string, int, []int, int, uint64, bool) {
	if !strings.HasPrefix(op, "c14retry ") {
		return "", 0, nil, 0, 0, false
	}
	kv := map[string]string{}
	for _, tok := range strings.Fields(op)[1:] {
		if i := strings.IndexByte(tok, '='); i > 0 {
			kv[tok[:i]] = tok[i+1:]
		}
	}
	n, _ := strconv.Atoi(kv["n"])
	f, _ := strconv.Atoi(kv["fail"])
	sd, _ := strconv.ParseUint(kv["seed"], 10, 64)
	return kv["mode"], n, checkpoint.VfUnInts(kv["left"]), f, sd, true
}

func TestVerifC14Loop(t *testing.T) {
	s := vfutil.NewSession("C14loop")
	defer s.Close()
	r := vfutil.NewRand(vfutil.Seed())
	vfC14Cp = checkpoint.BisyncCheckpointKeyPrefix + ":0a1b2c3d4e5f60718293a4b5"
	if rp := os.Getenv("VERIF_REPLAY"); rp != "" {
		b, _ := os.ReadFile(rp)
		op := string(b)
		if i := strings.Index(op, "c14l "); i >= 0 {
			op = op[i:]
			if j := strings.IndexAny(op, "\"\n"); j >= 0 {
				op = op[:j]
			}
			if c := vfC14LoopParse(op); c != nil {
				vfC14Loop(t, s, c, "replay")
			}
		}
		if i := strings.Index(op, "c14linger mode="); i >= 0 {
			vfC14Linger(t, s, op[i+len("c14linger mode="):][:1])
		}
		if i := strings.Index(op, "c14linger2 "); i >= 0 {
			for k := 0; k < 12; k++ {
				vfC14LingerPipelined(t, s, k)
			}
		}
		if i := strings.Index(op, "c14paced "); i >= 0 {
			kv := map[string]string{}
			for _, tok := range strings.Fields(op[i:])[1:] {
				if j := strings.IndexByte(tok, '='); j > 0 {
					kv[tok[:j]] = strings.TrimRight(tok[j+1:], "\",}")
				}
			}
			n, _ := strconv.Atoi(kv["n"])
			f, _ := strconv.Atoi(kv["fail"])
			g, _ := strconv.Atoi(kv["gap"])
			vfC14PacedRestart(t, s, kv["mode"], n, f, g)
		}
		if i := strings.Index(op, "c14recoverloop mode="); i >= 0 {
			vfC14RecoverThenLoop(t, s, op[i+len("c14recoverloop mode="):][:1])
		}
		if i := strings.Index(op, "c14retry "); i >= 0 {
			op = op[i:]
			if j := strings.IndexAny(op, "\"\n"); j >= 0 {
				op = op[:j]
			}
			if m, n, left, f, sd, ok := vfC14RetryParse(op); ok {
				vfC14Retry(t, s, m, n, left, f, sd)
			}
		}
		return
	}
	for _, l := range vfutil.Corpus("C14") {
		if c := vfC14LoopParse(l); c != nil {
			vfC14Loop(t, s, c, "corpus")
		}
	}
	n := vfutil.Scale(60, 800)
	for i := 0; i < n; i++ {
		vfC14Loop(t, s, vfC14LoopGen(r.Fork()), "gen")
	}
	n = vfutil.Scale(12, 120)
	for i := 0; i < n; i++ {
		vfC14Loop(t, s, vfC14LoopGenLost(r.Fork(), []string{"L", "L", "P", "F"}[i%4]), "lost")
	}
	for _, c := range vfC14LoopMatrix() {
		vfC14Loop(t, s, c, "matrix")
		s.Count("loop_matrix_" + c.mode + "_" + strings.SplitN(c.fault, ":", 2)[0])
	}
	n = vfutil.Scale(14, 300)
	for i := 0; i < n; i++ {
		vfC14Loop(t, s, vfC14LoopGenLanes(r.Fork()), "lanes")
	}
	for _, m := range []string{"F", "P", "L"} {
		vfC14Linger(t, s, m)
	}
	for _, m := range []string{"F", "P"} {
		vfC14RecoverThenLoop(t, s, m)
	}
	vfC14RootlessStart(s, "F", 3, 5077, vfLRid)
	vfC14RootlessStart(s, "P", 0, -1, "")
	for _, m := range []string{"F", "P"} {
		vfC14PacedRestart(t, s, m, 5, 4, 150)
		vfC14PacedRestart(t, s, m, 4+int(r.U64()%3), 3+int(r.U64()%2), 120+10*int(r.U64()%8))
	}
	// (whether the receiver of the stopped pipeline loop takes the next sent unit or the stop is a coin the Go
	// runtime tosses: several trials)
	for k := 0; k < vfutil.Scale(12, 40); k++ {
		vfC14LingerPipelined(t, s, k)
	}
	for _, l := range vfutil.Corpus("C14") {
		if m, n, left, f, sd, ok := vfC14RetryParse(l); ok {
			vfC14Retry(t, s, m, n, left, f, sd)
		}
	}
	n = vfutil.Scale(8, 60)
	for i := 0; i < n; i++ {
		rr := r.Fork()
		nn := rr.Range(3, 6)
		left := [][]int{{2}, {2, 3}, {3}, {nn}, {2, nn}}[rr.Intn(5)]
		vfC14Retry(t, s, vfutil.Pick(rr, []string{"F", "P"}), nn, left, rr.Range(1, 4), rr.U64()%1000)
	}
}
