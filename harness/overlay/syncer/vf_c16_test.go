//go:build verif

package syncer

// C16 — a follower's cache is a faithful copy of the leader's stream.
//
// The real ReplicaLeader.Handle and the real ReplicaFollower steps
// (protoHandShake, preSync, metaSync, rdbSync, aofSync — driven exactly like
// ReplicaFollower.Run's state machine) run in-process, in real time (the disk
// reader sleeps while holding its mutex, which a synctest bubble cannot advance
// past), over two real channels (StoreChannel on t.TempDir() / MemoryChannel). gRPC is
// replaced by c16Net: the generated client/server stream interfaces over Go
// channels, which can cut the transfer after any message and re-chunk CONTINUE
// messages. One op line per follower session:
//
//   sess <bk> <L> <F> <ch> <cut> <lost>   ->  m … / end <stage> <class> / F <store>
//
// (formats: lean/GunYu/Drive/C16.lean). Monitors (independent of the Lean model):
// every byte / snapshot the follower holds under an id is the leader's byte at the
// same (id, offset) or was already stored there before the session; segments are
// contiguous; an ahead follower is offered leadership and left untouched.

import (
	"bufio"
	"bytes"
	"context"
	"errors"
	"fmt"
	"io"
	"os"
	"path/filepath"
	"sort"
	"strconv"
	"strings"
	"sync"
	"testing"
	"time"

	"google.golang.org/grpc"
	"google.golang.org/grpc/metadata"

	"github.com/mgtv-tech/redis-GunYu/config"
	pb "github.com/mgtv-tech/redis-GunYu/pkg/api/golang"
	usync "github.com/mgtv-tech/redis-GunYu/pkg/sync"
	"github.com/mgtv-tech/redis-GunYu/pkg/vfutil"
)

// ---------------------------------------------------------------- specs

type c16Data struct {
	Base    int64
	Bytes   []byte
	HasSnap bool
	Snap    []byte
}

func (d *c16Data) right() int64 { return d.Base + int64(len(d.Bytes)) }

func (d *c16Data) String() string {
	if d == nil {
		return "-"
	}
	sn := "~"
	if d.HasSnap {
		sn = vfutil.Hex(d.Snap)
	}
	return fmt.Sprintf("%d/%s/%s", d.Base, vfutil.Hex(d.Bytes), sn)
}

func c16ParseData(s string) *c16Data {
	if s == "-" {
		return nil
	}
	f := strings.Split(s, "/")
	if len(f) != 3 {
		panic("bad data spec " + s)
	}
	b, err := strconv.ParseInt(f[0], 10, 64)
	if err != nil {
		panic(err)
	}
	d := &c16Data{Base: b, Bytes: vfutil.UnHex(f[1])}
	if f[2] != "~" {
		d.HasSnap = true
		d.Snap = vfutil.UnHex(f[2])
	}
	return d
}

func c16Id(s string) string {
	if s == "" {
		return "_"
	}
	return s
}
func c16UnId(s string) string {
	if s == "_" {
		return ""
	}
	return s
}

type c16Entry struct {
	Id string
	D  *c16Data
}

type c16Store struct {
	Cur  string
	Dirs []c16Entry
}

func (f c16Store) get(id string) (*c16Data, bool) {
	for _, e := range f.Dirs {
		if e.Id == id {
			return e.D, true
		}
	}
	return nil, false
}

func (f c16Store) String() string {
	es := append([]c16Entry(nil), f.Dirs...)
	sort.Slice(es, func(i, j int) bool { return es[i].Id < es[j].Id })
	parts := []string{c16Id(f.Cur)}
	for _, e := range es {
		parts = append(parts, c16Id(e.Id)+"="+e.D.String())
	}
	return strings.Join(parts, "|")
}

func c16ParseStore(s string) c16Store {
	f := strings.Split(s, "|")
	st := c16Store{Cur: c16UnId(f[0])}
	for _, e := range f[1:] {
		kv := strings.SplitN(e, "=", 2)
		st.Dirs = append(st.Dirs, c16Entry{c16UnId(kv[0]), c16ParseData(kv[1])})
	}
	return st
}

type c16Leader struct {
	Started bool
	Ids     []string
	Cur     string
	D       *c16Data
	WOpen   bool
	Tail    []byte // appended to the leader's open writer once a stream reader of the session is open
}

// the leader's contents once the tail has arrived
func (l c16Leader) grown() *c16Data {
	if l.D == nil || len(l.Tail) == 0 {
		return l.D
	}
	d := *l.D
	d.Bytes = append(append([]byte(nil), l.D.Bytes...), l.Tail...)
	return &d
}

func c16B(b bool) string {
	if b {
		return "1"
	}
	return "0"
}

func (l c16Leader) String() string {
	ids := "."
	if len(l.Ids) > 0 {
		p := make([]string, len(l.Ids))
		for i, x := range l.Ids {
			p[i] = c16Id(x)
		}
		ids = strings.Join(p, ",")
	}
	return fmt.Sprintf("%s:%s:%s:%s:%s:%s", c16B(l.Started), ids, c16Id(l.Cur), l.D.String(), c16B(l.WOpen), vfutil.Hex(l.Tail))
}

func c16ParseLeader(s string) c16Leader {
	f := strings.Split(s, ":")
	if len(f) == 5 {
		f = append(f, "-")
	}
	if len(f) != 6 {
		panic("bad leader spec " + s)
	}
	l := c16Leader{Started: f[0] == "1", Cur: c16UnId(f[2]), D: c16ParseData(f[3]), WOpen: f[4] == "1", Tail: vfutil.UnHex(f[5])}
	if f[1] != "." {
		for _, x := range strings.Split(f[1], ",") {
			l.Ids = append(l.Ids, c16UnId(x))
		}
	}
	return l
}

// one follower session of a case
type c16Round struct {
	L       c16Leader
	Cut     int  // messages delivered before the transport fails (<0: never)
	Split   int  // >0: CONTINUE messages are re-chunked into pieces of 1..Split bytes
	Quiet   bool // the cut happens when the follower has persisted everything it received
	Restart bool // (disk) the follower process is restarted before this session
}

func (r c16Round) String() string {
	return fmt.Sprintf("%s@%d@%d@%s@%s", r.L.String(), r.Cut, r.Split, c16B(r.Quiet), c16B(r.Restart))
}

type c16Case struct {
	Bk      string // "d" | "m"
	LogSize int64
	F       c16Store
	Rounds  []c16Round
	Seed    uint64
}

// corpus / replay line:  <bk> <logsize> <seed> <F> <round> <round> …
func (c c16Case) String() string {
	p := []string{c.Bk, strconv.FormatInt(c.LogSize, 10), strconv.FormatUint(c.Seed, 10), c.F.String()}
	for _, r := range c.Rounds {
		p = append(p, r.String())
	}
	return strings.Join(p, " ")
}

func c16ParseCase(line string) (c c16Case, err error) {
	defer func() {
		if r := recover(); r != nil {
			err = fmt.Errorf("%v", r)
		}
	}()
	f := strings.Fields(line)
	if len(f) < 5 {
		return c, fmt.Errorf("short case line")
	}
	c.Bk = f[0]
	c.LogSize, _ = strconv.ParseInt(f[1], 10, 64)
	c.Seed, _ = strconv.ParseUint(f[2], 10, 64)
	c.F = c16ParseStore(f[3])
	for _, rs := range f[4:] {
		q := strings.Split(rs, "@")
		if len(q) != 5 {
			return c, fmt.Errorf("bad round %q", rs)
		}
		cut, _ := strconv.Atoi(q[1])
		sp, _ := strconv.Atoi(q[2])
		c.Rounds = append(c.Rounds, c16Round{L: c16ParseLeader(q[0]), Cut: cut, Split: sp, Quiet: q[3] == "1", Restart: q[4] == "1"})
	}
	return c, nil
}

// ---------------------------------------------------------------- history oracle

func c16Mix(x uint64) uint64 {
	x += 0x9E3779B97F4A7C15
	x = (x ^ (x >> 30)) * 0xBF58476D1CE4E5B9
	x = (x ^ (x >> 27)) * 0x94D049BB133111EB
	return x ^ (x >> 31)
}

// distinct non-zero masks: two histories differ at EVERY offset
var c16Masks = map[string]byte{"idA": 0x11, "idB": 0x6e, "idC": 0xa5, "idD": 0xd3}

func c16Hist(id string, off int64) byte { return byte(c16Mix(uint64(off))) ^ c16Masks[id] }

func c16HistSeg(id string, from, to int64) []byte {
	if to <= from {
		return nil
	}
	b := make([]byte, to-from)
	for i := range b {
		b[i] = c16Hist(id, from+int64(i))
	}
	return b
}

func c16SnapLen(id string, left int64) int {
	m := int(c16Mix(uint64(left)*7+uint64(c16Masks[id])) % 5000)
	if left%5 == 0 {
		return 6000 + m
	}
	return 3 + m%70
}

func c16SnapBytes(id string, left int64) []byte {
	n := c16SnapLen(id, left)
	b := make([]byte, n)
	for i := range b {
		b[i] = byte(c16Mix(uint64(left)*1000003+uint64(i))>>8) ^ c16Masks[id] ^ 0x5a
	}
	return b
}

func c16MkData(id string, base, right int64, snap bool) *c16Data {
	d := &c16Data{Base: base, Bytes: c16HistSeg(id, base, right)}
	if snap {
		d.HasSnap = true
		d.Snap = c16SnapBytes(id, base)
	}
	return d
}

// ---------------------------------------------------------------- real channels

type c16Input struct{ ids []string }

func (i *c16Input) Id() string                              { return "vf-input" }
func (i *c16Input) Run() error                              { return nil }
func (i *c16Input) Stop() error                             { return nil }
func (i *c16Input) SetOutput(Output)                        {}
func (i *c16Input) SetChannel(Channel)                      {}
func (i *c16Input) StateNotify(SyncState) usync.WaitChannel { return nil }
func (i *c16Input) RunIds() []string                        { return i.ids }

func c16NewChannel(bk string, dir string, logSize int64) Channel {
	if bk == "d" {
		return NewStoreChannel(StorerConf{InputId: "vf", Dir: dir, MaxSize: 1 << 40, LogSize: logSize})
	}
	return NewMemoryChannel(MemoryConf{InputId: "vf", MaxSize: 1 << 40, LogSize: logSize})
}

// c16Fill writes d into the channel's current run id through the real writers.
// With keepOpen the AOF writer stays open (a live leader); the returned func closes it.
func c16Fill(ch Channel, d *c16Data, keepOpen bool) (closeFn func(), err error) {
	closeFn, _, err = c16FillW(ch, d, keepOpen)
	return
}

// c16FillW also returns a function appending more stream bytes through the open writer.
func c16FillW(ch Channel, d *c16Data, keepOpen bool) (closeFn func(), appendFn func([]byte) error, err error) {
	closeFn = func() {}
	appendFn = func([]byte) error { return errors.New("no open writer") }
	if d == nil {
		return
	}
	if d.HasSnap {
		pr, pw := io.Pipe()
		w, e := ch.NewRdbWriter(bufio.NewReader(pr), d.Base, int64(len(d.Snap)))
		if e != nil {
			return closeFn, appendFn, e
		}
		w.Start()
		if len(d.Snap) > 0 {
			pw.Write(d.Snap)
		}
		e = w.Wait(context.Background())
		w.Close()
		pw.Close()
		if e != nil {
			return closeFn, appendFn, fmt.Errorf("fill snapshot: %v", e)
		}
	}
	if len(d.Bytes) > 0 || keepOpen {
		pr, pw := io.Pipe()
		w, e := ch.NewAofWritter(bufio.NewReader(pr), d.Base)
		if e != nil {
			return closeFn, appendFn, e
		}
		w.Start()
		if len(d.Bytes) > 0 {
			pw.Write(d.Bytes)
		}
		// (the writer's own counter runs ahead of the data set's: wait for what readers see)
		latest := func() int64 { sp, _ := ch.StartPoint(nil); return sp.Offset }
		c16Wait(func() bool { return latest() == d.right() }, 3*time.Second)
		if latest() != d.right() {
			return closeFn, appendFn, fmt.Errorf("fill aof: right %d want %d", latest(), d.right())
		}
		closeFn = func() { w.Close(); pw.Close() }
		appendFn = func(b []byte) error {
			want := latest() + int64(len(b))
			pw.Write(b)
			if !c16Wait(func() bool { return latest() == want }, 3*time.Second) {
				return fmt.Errorf("append: right %d want %d", latest(), want)
			}
			return nil
		}
		if !keepOpen {
			closeFn()
			closeFn = func() {}
		}
	}
	return
}

// follower channel in the state `st`
func c16BuildFollower(bk, dir string, logSize int64, st c16Store) (Channel, error) {
	if bk == "m" {
		ch := c16NewChannel(bk, dir, logSize)
		if st.Cur != "" {
			ch.SetRunId(st.Cur)
		}
		if d, ok := st.get(st.Cur); ok {
			if _, err := c16Fill(ch, d, false); err != nil {
				return nil, err
			}
		}
		return ch, nil
	}
	for _, e := range st.Dirs {
		ch := c16NewChannel(bk, dir, logSize) // a fresh storer has no current id: SetRunId creates the directory
		if err := ch.SetRunId(e.Id); err != nil {
			return nil, err
		}
		if _, err := c16Fill(ch, e.D, false); err != nil {
			return nil, err
		}
		ch.Close()
	}
	ch := c16NewChannel(bk, dir, logSize)
	if st.Cur != "" {
		if _, err := ch.StartPoint([]string{st.Cur}); err != nil {
			return nil, err
		}
	}
	return ch, nil
}

// ---------------------------------------------------------------- observation

var c16ErrRead = errors.New("read")

func c16Wait(cond func() bool, max time.Duration) bool {
	dl := time.Now().Add(max)
	for !cond() {
		if time.Now().After(dl) {
			return false
		}
		time.Sleep(100 * time.Microsecond)
	}
	return true
}

// one reader opened at off: reads up to len(buf) bytes, gives up when no byte arrives
// for `idle`
func c16ReadOnce(ch Channel, id string, off int64, buf []byte, idle time.Duration) (int, bool, error) {
	rd, err := ch.NewReader(Offset{RunId: id, Offset: off})
	if err != nil {
		return 0, false, err
	}
	w := usync.NewWaitCloser(nil)
	rd.Start(w)
	isAof := rd.IsAof()
	type part struct {
		n   int
		err error
	}
	parts := make(chan part, 16)
	stop := make(chan struct{})
	go func() {
		got := 0
		for got < len(buf) {
			n, e := rd.IoReader().Read(buf[got:])
			got += n
			select {
			case parts <- part{n, e}:
			case <-stop:
				return
			}
			if e != nil {
				return
			}
		}
	}()
	got := 0
	for got < len(buf) && err == nil {
		select {
		case p := <-parts:
			got += p.n
			if p.err != nil && got < len(buf) {
				err = p.err
			}
		case <-time.After(idle):
			err = fmt.Errorf("%w: no byte for %v at offset %d", c16ErrRead, idle, off+int64(got))
		}
	}
	close(stop)
	w.Close(nil)
	rd.Close()
	return got, isAof, err
}

// read n bytes at off. A reader that stops making progress although the channel offers
// the range (memory backend: a segment left open by a closed writer) is replaced by a
// fresh reader at the offset reached; `stalls` counts that.
func c16ReadAt(ch Channel, id string, off int64, n int) (buf []byte, isAof bool, stalls int, err error) {
	buf = make([]byte, n)
	got := 0
	for got < n {
		var k int
		k, isAof, err = c16ReadOnce(ch, id, off+int64(got), buf[got:], 2*time.Second)
		got += k
		if err == nil {
			break
		}
		if k == 0 || !errors.Is(err, c16ErrRead) {
			return
		}
		stalls++
		err = nil
	}
	return
}

// what the channel API serves under its current id
func c16ObserveAPI(ch Channel) (cur string, d *c16Data, problems []string, stalls int) {
	cur = ch.RunId()
	if cur == "" {
		return
	}
	l, r := ch.GetOffsetRange(cur)
	rl, rs := ch.GetRdb(cur)
	if l < 0 && rl < 0 {
		return
	}
	d = &c16Data{}
	if rl >= 0 {
		d.HasSnap = true
		d.Base = rl
		if rs > 0 {
			b, isAof, st, err := c16ReadAt(ch, cur, rl-1, int(rs))
			stalls += st
			if err != nil || isAof {
				problems = append(problems, fmt.Sprintf("snapshot (%d,%d) offered but not readable: aof=%v err=%v", rl, rs, isAof, err))
			}
			d.Snap = b
		}
	}
	if l >= 0 {
		if rl >= 0 && l != rl {
			problems = append(problems, fmt.Sprintf("snapshot at %d but range starts at %d", rl, l))
		}
		d.Base = l
		if r > l {
			b, isAof, st, err := c16ReadAt(ch, cur, l, int(r-l))
			stalls += st
			if err != nil || !isAof {
				problems = append(problems, fmt.Sprintf("range [%d,%d] offered but not readable: aof=%v err=%v", l, r, isAof, err))
			}
			d.Bytes = b
		}
	}
	if len(d.Bytes) == 0 && !d.HasSnap {
		d = nil
	}
	return
}

// what the disk backend holds in every run-id directory
func c16ObserveDisk(dir string) (dirs []c16Entry, problems []string) {
	ents, _ := os.ReadDir(dir)
	for _, e := range ents {
		if !e.IsDir() {
			problems = append(problems, "stray file "+e.Name())
			continue
		}
		id := e.Name()
		files, _ := os.ReadDir(filepath.Join(dir, id))
		type seg struct {
			left int64
			data []byte
		}
		var segs []seg
		var d c16Data
		any := false
		for _, f := range files {
			p := filepath.Join(dir, id, f.Name())
			switch {
			case strings.HasSuffix(f.Name(), ".aof"):
				left, err := strconv.ParseInt(strings.TrimSuffix(f.Name(), ".aof"), 10, 64)
				b, _ := os.ReadFile(p)
				if err != nil || len(b) < 16 {
					problems = append(problems, id+": bad aof file "+f.Name())
					continue
				}
				if len(b) > 16 {
					segs = append(segs, seg{left, b[16:]})
				}
			case strings.HasSuffix(f.Name(), ".rdb"):
				q := strings.Split(strings.TrimSuffix(f.Name(), ".rdb"), "_")
				left, _ := strconv.ParseInt(q[0], 10, 64)
				size, _ := strconv.ParseInt(q[len(q)-1], 10, 64)
				b, _ := os.ReadFile(p)
				if int64(len(b)) != size {
					problems = append(problems, fmt.Sprintf("%s: snapshot file %s holds %d bytes", id, f.Name(), len(b)))
				}
				if d.HasSnap {
					problems = append(problems, id+": two snapshot files")
				}
				d.HasSnap, d.Snap, d.Base = true, b, left
				any = true
			default:
				problems = append(problems, id+": leftover file "+f.Name())
			}
		}
		sort.Slice(segs, func(i, j int) bool { return segs[i].left < segs[j].left })
		for i, s := range segs {
			if i == 0 {
				if d.HasSnap && d.Base != s.left {
					problems = append(problems, fmt.Sprintf("%s: snapshot at %d, first segment at %d", id, d.Base, s.left))
				}
				d.Base = s.left
			} else if d.Base+int64(len(d.Bytes)) != s.left {
				problems = append(problems, fmt.Sprintf("%s: segment %d does not start at %d", id, s.left, d.Base+int64(len(d.Bytes))))
			}
			d.Bytes = append(d.Bytes, s.data...)
			any = true
		}
		if any {
			dd := d
			dirs = append(dirs, c16Entry{id, &dd})
		} else {
			dirs = append(dirs, c16Entry{id, nil})
		}
	}
	return
}

func c16SameData(a, b *c16Data) bool {
	if a == nil || b == nil {
		return a == nil && b == nil
	}
	return a.Base == b.Base && bytes.Equal(a.Bytes, b.Bytes) && a.HasSnap == b.HasSnap && bytes.Equal(a.Snap, b.Snap)
}

// c16Observe returns the follower's store and structural problems
// (non-contiguous segments, API/file disagreement, unreadable ranges).
func c16Observe(bk string, ch Channel, dir string) (c16Store, []string, int) {
	var st c16Store
	var problems []string
	if bk == "d" {
		st.Dirs, problems = c16ObserveDisk(dir)
		st.Cur = ch.RunId()
		if st.Cur != "" {
			// the next user of the channel re-reads the directory first (StartPoint -> VerifyRunId)
			ch.StartPoint([]string{st.Cur})
			cur, d, p2, stalls := c16ObserveAPI(ch)
			problems = append(problems, p2...)
			fd, _ := st.get(cur)
			if cur != st.Cur || !c16SameData(d, fd) {
				problems = append(problems, fmt.Sprintf("channel serves %s=%s, files hold %s", cur, d.String(), fd.String()))
			}
			return st, problems, stalls
		}
		return st, problems, 0
	}
	cur, d, problems, stalls := c16ObserveAPI(ch)
	st.Cur = cur
	if d != nil {
		st.Dirs = []c16Entry{{cur, d}}
	}
	return st, problems, stalls
}

// ---------------------------------------------------------------- fake gRPC

var c16ErrCut = errors.New("vf: transport cut")

type c16RpcErr struct{ err error }

func (e c16RpcErr) Error() string { return "rpc error: " + e.err.Error() }

type c16Net struct {
	mu        sync.Mutex
	leader    *ReplicaLeader
	lwait     usync.WaitCloser
	ctx       context.Context
	cancel    context.CancelFunc
	cut       int
	split     int
	quiet     bool
	rnd       *vfutil.Rand
	delivered []*pb.SyncResponse
	complete  bool // cut because every byte the leader holds was delivered
	lright    int64
	aofOn     bool
	aofStart  int64
	aofBytes  int64
	everAof   bool
	fch       Channel
	tail      []byte
	grow      func([]byte) error
	growErr   error
}

type c16Srv struct {
	n  *c16Net
	ch chan *pb.SyncResponse
}

func (s *c16Srv) push(r *pb.SyncResponse) error {
	select {
	case s.ch <- r:
		return nil
	case <-s.n.ctx.Done():
		return c16ErrCut
	}
}

func (s *c16Srv) Send(r *pb.SyncResponse) error {
	if r.GetCode() == pb.SyncResponse_META && r.GetMeta().GetAof() {
		// the leader's stream reader is open: its input goes on writing
		s.n.mu.Lock()
		tail := s.n.tail
		s.n.tail = nil
		s.n.mu.Unlock()
		if len(tail) > 0 {
			err := s.n.grow(tail)
			s.n.mu.Lock()
			s.n.growErr = err
			s.n.lright += int64(len(tail))
			s.n.mu.Unlock()
		}
	}
	if s.n.split > 0 && r.GetCode() == pb.SyncResponse_CONTINUE && len(r.GetData()) > 1 {
		// what sendData emits had ioReader.Read returned smaller pieces
		data := r.GetData()
		start := r.GetOffset() - int64(len(data))
		for len(data) > 0 {
			s.n.mu.Lock()
			k := 1 + s.n.rnd.Intn(s.n.split)
			s.n.mu.Unlock()
			if k > len(data) {
				k = len(data)
			}
			start += int64(k)
			if err := s.push(&pb.SyncResponse{Code: pb.SyncResponse_CONTINUE, Offset: start, Size: int64(k), Data: data[:k]}); err != nil {
				return err
			}
			data = data[k:]
		}
		return nil
	}
	return s.push(r)
}
func (s *c16Srv) SetHeader(metadata.MD) error  { return nil }
func (s *c16Srv) SendHeader(metadata.MD) error { return nil }
func (s *c16Srv) SetTrailer(metadata.MD)       {}
func (s *c16Srv) Context() context.Context     { return s.n.ctx }
func (s *c16Srv) SendMsg(m interface{}) error  { return nil }
func (s *c16Srv) RecvMsg(m interface{}) error  { return nil }

type c16Cli struct {
	n    *c16Net
	ch   chan *pb.SyncResponse
	done chan error
	fin  bool
	ferr error
}

func (c *c16Cli) Recv() (*pb.SyncResponse, error) {
	n := c.n
	n.mu.Lock()
	stop := len(n.delivered) >= n.cut
	if !stop && n.aofOn && n.aofStart+n.aofBytes >= n.lright {
		stop = true
		n.complete = true
	}
	n.mu.Unlock()
	if stop {
		if n.quiet && n.aofOn && n.aofBytes > 0 {
			// the follower has persisted everything it received
			want := n.aofStart + n.aofBytes
			c16Wait(func() bool { _, r := n.fch.GetOffsetRange(n.fch.RunId()); return r >= want }, time.Second)
		}
		n.cancel()
		return nil, c16ErrCut
	}
	if c.fin {
		return nil, c.ferr
	}
	select {
	case m := <-c.ch:
		n.mu.Lock()
		n.delivered = append(n.delivered, m)
		if n.aofOn && m.GetCode() == pb.SyncResponse_CONTINUE {
			n.aofBytes += m.GetSize()
		}
		if m.GetCode() == pb.SyncResponse_META && m.GetMeta().GetAof() {
			n.aofOn, n.everAof = true, true
			n.aofStart, n.aofBytes = m.GetOffset(), 0
		}
		n.mu.Unlock()
		return m, nil
	case err := <-c.done:
		c.fin = true
		if err == nil {
			c.ferr = io.EOF
		} else {
			c.ferr = c16RpcErr{err}
		}
		return nil, c.ferr
	case <-n.ctx.Done():
		return nil, c16ErrCut
	}
}
func (c *c16Cli) Header() (metadata.MD, error) { return nil, nil }
func (c *c16Cli) Trailer() metadata.MD         { return nil }
func (c *c16Cli) CloseSend() error             { return nil }
func (c *c16Cli) Context() context.Context     { return c.n.ctx }
func (c *c16Cli) SendMsg(m interface{}) error  { return nil }
func (c *c16Cli) RecvMsg(m interface{}) error  { return nil }

// pb.ApiServiceClient
func (n *c16Net) Sync(ctx context.Context, in *pb.SyncRequest, opts ...grpc.CallOption) (pb.ApiService_SyncClient, error) {
	n.mu.Lock()
	n.aofOn = false
	n.mu.Unlock()
	ch := make(chan *pb.SyncResponse)
	done := make(chan error, 1)
	srv := &c16Srv{n: n, ch: ch}
	go func() { done <- n.leader.Handle(n.lwait, in, srv) }()
	return &c16Cli{n: n, ch: ch, done: done}, nil
}

// ---------------------------------------------------------------- one session

type c16Result struct {
	msgs     []*pb.SyncResponse
	stage    string
	cls      string
	cutModel int
	lost     int64
	chunks   []int64
}

func c16CodeName(c pb.SyncResponse_Code) string {
	switch c {
	case pb.SyncResponse_META:
		return "META"
	case pb.SyncResponse_CONTINUE:
		return "CONTINUE"
	case pb.SyncResponse_HANDOVER:
		return "HANDOVER"
	case pb.SyncResponse_CLEAR:
		return "CLEAR"
	case pb.SyncResponse_FAULT:
		return "FAULT"
	case pb.SyncResponse_ERROR:
		return "ERROR"
	case pb.SyncResponse_FAILURE:
		return "FAILURE"
	}
	return fmt.Sprintf("CODE%d", int(c))
}

func c16MsgLine(m *pb.SyncResponse) string {
	return fmt.Sprintf("m %s id=%s aof=%s off=%d size=%d data=%s", c16CodeName(m.GetCode()), c16Id(m.GetMeta().GetRunId()),
		c16B(m.GetMeta().GetAof()), m.GetOffset(), m.GetSize(), vfutil.Hex(m.GetData()))
}

func c16Classify(err error, last *pb.SyncResponse) string {
	switch {
	case err == nil:
		return "nil"
	case errors.Is(err, c16ErrCut):
		return "cut"
	case errors.Is(err, ErrLeaderTakeover):
		return "takeover"
	case strings.Contains(err.Error(), "empty run id"):
		return "emptyid"
	case strings.Contains(err.Error(), "discontinuous"):
		return "discont"
	}
	var re c16RpcErr
	if errors.As(err, &re) {
		return "rpcerr"
	}
	if errors.Is(err, io.EOF) {
		return "eof"
	}
	if last != nil {
		switch last.GetCode() {
		case pb.SyncResponse_FAILURE:
			return "failure"
		case pb.SyncResponse_ERROR:
			return "error"
		case pb.SyncResponse_FAULT:
			return "fault"
		case pb.SyncResponse_CLEAR:
			return "clear"
		}
	}
	if errors.Is(err, ErrRestart) {
		return "restart"
	}
	return "other:" + err.Error()
}

// metaSync rounds per session (the model's `fuel`)
const c16Fuel = 3

// c16Session runs ReplicaFollower.Run's state machine (states 1..5) once, until
// the first error, against a freshly built leader channel in state r.L.
func c16Session(t *testing.T, bk string, logSize int64, fch Channel, r c16Round, rnd *vfutil.Rand) (res c16Result, err error) {
	ldir := t.TempDir()
	lch := c16NewChannel(bk, ldir, logSize)
	defer func() { lch.Close(); os.RemoveAll(ldir) }()
	if r.L.Cur != "" {
		if err = lch.SetRunId(r.L.Cur); err != nil {
			return
		}
	}
	closeW, appendW, err := c16FillW(lch, r.L.D, r.L.WOpen)
	if err != nil {
		return
	}
	defer closeW()

	leader := NewReplicaLeader(&c16Input{ids: r.L.Ids}, lch)
	if r.L.Started {
		leader.Start()
	}
	ctx, cancel := context.WithCancel(context.Background())
	lwait := usync.NewWaitCloser(nil)
	cut := r.Cut
	if cut < 0 {
		cut = 1 << 30
	}
	lright := int64(-1)
	if r.L.D != nil {
		lright = r.L.D.right()
	}
	net := &c16Net{leader: leader, lwait: lwait, ctx: ctx, cancel: cancel, cut: cut, split: r.Split, quiet: r.Quiet, rnd: rnd, lright: lright, fch: fch,
		tail: r.L.Tail, grow: appendW}
	rf := NewReplicaFollower(1, "vf-addr", fch, nil)

	state := 1
	var leaderSp, followerSp StartPoint
	var stream pb.ApiService_SyncClient
	var resp *pb.SyncResponse
	var serr error
	metaRounds, fuelOut := 0, false
loop:
	for {
		switch state {
		case 1:
			leaderSp, serr = rf.protoHandShake(net)
		case 2:
			followerSp, serr = rf.preSync(leaderSp)
		case 3:
			if metaRounds == c16Fuel { // a leader that keeps answering with its snapshot: stop here
				fuelOut = true
				break loop
			}
			metaRounds++
			stream, resp, serr = rf.metaSync(followerSp, net)
			if serr == nil {
				if resp.GetMeta().GetAof() {
					state = 5
				} else {
					state = 4
				}
				continue
			}
		case 4:
			serr = rf.rdbSync(followerSp, stream, resp)
			if serr == nil {
				followerSp, serr = rf.channel.StartPoint([]string{leaderSp.RunId})
				if serr == nil {
					state = 3
					continue
				}
			}
		case 5:
			serr = rf.aofSync(followerSp, stream, resp)
		default:
			break loop
		}
		if serr != nil {
			break loop
		}
		state++
	}
	cancel()
	rf.wait.Close(nil)
	lwait.Close(nil)

	if net.growErr != nil {
		return res, net.growErr
	}
	res.msgs = net.delivered
	res.stage = map[int]string{1: "hs", 2: "pre", 3: "meta", 4: "rdb", 5: "aof", 6: "end"}[state]
	var last *pb.SyncResponse
	if len(res.msgs) > 0 {
		last = res.msgs[len(res.msgs)-1]
	}
	res.cls = c16Classify(serr, last)
	if fuelOut {
		res.cls = "fuel"
	}
	res.cutModel = cut
	if net.complete {
		res.cutModel = len(net.delivered)
	}
	for _, m := range res.msgs {
		if m.GetCode() == pb.SyncResponse_CONTINUE {
			res.chunks = append(res.chunks, m.GetSize())
		}
	}
	if net.aofOn && state == 5 {
		_, right := fch.GetOffsetRange(fch.RunId())
		if want := net.aofStart + net.aofBytes; right >= net.aofStart && right <= want {
			res.lost = want - right
		} else if right < 0 && net.aofBytes > 0 {
			res.lost = net.aofBytes
		}
	}
	return
}

// ---------------------------------------------------------------- monitors

// every byte under `id` in the final store is the leader's byte at (id, offset)
// or was stored under (id, offset) before the session; same for snapshots
func c16CheckFaithful(before, after c16Store, L c16Leader) (string, string) {
	for _, e := range after.Dirs {
		if e.D == nil {
			continue
		}
		old, _ := before.get(e.Id)
		var ld *c16Data
		if e.Id == L.Cur {
			ld = L.grown()
		}
		for i, b := range e.D.Bytes {
			o := e.D.Base + int64(i)
			ok := false
			if ld != nil && o >= ld.Base && o < ld.right() && ld.Bytes[o-ld.Base] == b {
				ok = true
			}
			if old != nil && o >= old.Base && o < old.right() && old.Bytes[o-old.Base] == b {
				ok = true
			}
			if !ok {
				return "follower-bytes-differ", fmt.Sprintf("byte %#02x stored under (%s,%d) is neither the leader's byte there nor was it stored there before", b, e.Id, o)
			}
		}
		if e.D.HasSnap {
			ok := false
			if ld != nil && ld.HasSnap && ld.Base == e.D.Base && bytes.Equal(ld.Snap, e.D.Snap) {
				ok = true
			}
			if old != nil && old.HasSnap && old.Base == e.D.Base && bytes.Equal(old.Snap, e.D.Snap) {
				ok = true
			}
			if !ok {
				return "follower-phantom-snapshot", fmt.Sprintf("snapshot (%d, %d bytes) under %s is neither the leader's snapshot nor was it stored before", e.D.Base, len(e.D.Snap), e.Id)
			}
		}
	}
	return "", ""
}

// ---------------------------------------------------------------- running a case

type c16Ctx struct {
	s *vfutil.Session
}

func (x *c16Ctx) runCase(t *testing.T, c c16Case, src string) (uncutMsgs []int) {
	s := x.s
	func() {
		rnd := vfutil.NewRand(c.Seed)
		dir := t.TempDir()
		fch, err := c16BuildFollower(c.Bk, dir, c.LogSize, c.F)
		if err != nil {
			s.Count("skip_build_follower")
			t.Logf("c16: cannot build follower %s: %v", c.F.String(), err)
			return
		}
		defer func() { fch.Close(); os.RemoveAll(dir) }()
		before, problems, _ := c16Observe(c.Bk, fch, dir)
		if len(problems) > 0 || before.String() != c.F.String() {
			// the constructed state is not the requested one: not a statement about the follower
			s.Count("skip_initial_state_differs")
			t.Logf("c16: initial state %s != %s %v", before.String(), c.F.String(), problems)
			return
		}
		for ri, r := range c.Rounds {
			if r.Restart && c.Bk == "d" {
				fch.Close()
				fch = c16NewChannel(c.Bk, dir, c.LogSize)
				before.Cur = ""
			}
			res, err := c16Session(t, c.Bk, c.LogSize, fch, r, rnd)
			if err != nil {
				s.Count("skip_build_leader")
				t.Logf("c16: cannot build leader %s: %v", r.L.String(), err)
				return
			}
			after, problems, stalls := c16Observe(c.Bk, fch, dir)
			if stalls > 0 {
				// the bytes are there, but a reader does not get past a segment boundary (C05's claim
				// "a reader keeps following"): counted, not a C16 verdict
				s.Add("reader_stall_at_boundary", stalls)
			}
			uncutMsgs = append(uncutMsgs, len(res.msgs))

			replay := map[string]interface{}{"case": c.String(), "round": ri, "leader": r.L.String(), "follower_before": before.String(),
				"follower_after": after.String(), "backend": c.Bk}
			// ---- model op
			ch := "."
			if len(res.chunks) > 0 {
				p := make([]string, len(res.chunks))
				for i, n := range res.chunks {
					p[i] = strconv.FormatInt(n, 10)
				}
				ch = strings.Join(p, ",")
			}
			op := fmt.Sprintf("sess %s %s %s %s %d %d %d", c.Bk, r.L.String(), before.String(), ch, res.cutModel, res.lost, c16Fuel)
			var out []string
			for _, m := range res.msgs {
				out = append(out, c16MsgLine(m))
			}
			out = append(out, "end "+res.stage+" "+res.cls, "F "+after.String())
			s.Op(op, out...)

			// ---- monitors
			for _, p := range problems {
				s.Violate("follower-not-contiguous", p, replay)
			}
			if what, detail := c16CheckFaithful(before, after, r.L); what != "" {
				s.Violate(what, detail, replay)
			}
			fd, _ := before.get(r.L.Cur)
			sameId := r.L.Started && len(r.L.Ids) > 0 && r.L.Ids[0] == r.L.Cur && fd != nil &&
				(c.Bk == "d" || before.Cur == r.L.Cur)
			lr := int64(-1)
			if r.L.D != nil {
				lr = r.L.D.right()
			}
			if sameId && fd.right() > lr && r.Cut != 0 && r.Cut != 1 {
				s.Count("ahead")
				if res.cls != "takeover" || !c16SameData(fd, func() *c16Data { d, _ := after.get(r.L.Cur); return d }()) {
					s.Violate("ahead-not-handover", fmt.Sprintf("follower holds %s up to %d, leader up to %d: outcome %s/%s, follower now %s",
						r.L.Cur, fd.right(), lr, res.stage, res.cls, after.String()), replay)
				}
			}
			if r.Quiet && res.lost != 0 {
				s.Count("lost_in_quiet_mode")
			}
			if res.lost > 0 {
				s.Count("cut_lost_bytes")
			}
			// ---- coverage
			s.Count("sessions")
			s.Count("bk_" + c.Bk)
			s.Count("src_" + src)
			s.Count("end_" + res.stage + "_" + res.cls)
			for _, m := range res.msgs {
				s.Count("msg_" + c16CodeName(m.GetCode()))
			}
			s.Count("rel_" + c16Relation(before, r.L))
			if len(res.chunks) > 1 {
				s.Distinct(fmt.Sprintf("%s|%s|%s|%d|%s", c.Bk, c16Relation(before, r.L), res.stage+res.cls, len(res.msgs), c16Shape(r.L)))
			}
			before = after
		}
	}()
	return
}

func c16Shape(l c16Leader) string {
	if l.D == nil {
		return "empty"
	}
	s := ""
	if l.D.HasSnap {
		s += "snap"
	}
	if len(l.D.Bytes) > 0 {
		s += "aof"
	}
	if l.WOpen {
		s += "+w"
	}
	return s
}

// relation of the follower's cache to the leader's (coverage classes)
func c16Relation(f c16Store, l c16Leader) string {
	fd, has := f.get(l.Cur)
	if f.Cur != "" && f.Cur != l.Cur {
		od, _ := f.get(f.Cur)
		switch {
		case od == nil:
			return "otherid-empty"
		case has && fd != nil:
			return "otherid+own"
		case l.D == nil:
			return "otherid-leader-empty"
		case od.right() > l.D.right():
			return "otherid-above"
		case od.right() >= l.D.Base:
			return "otherid-within"
		default:
			return "otherid-below"
		}
	}
	if fd == nil {
		if len(f.Dirs) > 0 && !has {
			return "stale-dirs-only"
		}
		return "empty"
	}
	if l.D == nil {
		return "leader-empty"
	}
	switch {
	case fd.right() > l.D.right():
		return "ahead"
	case fd.right() == l.D.right():
		return "equal"
	case l.D.right()-fd.right() > 10*1024*1024:
		return "far-behind"
	case fd.right() < l.D.Base:
		if l.D.HasSnap {
			return "collected-snap"
		}
		return "collected"
	default:
		return "prefix"
	}
}

// ---------------------------------------------------------------- generators

func c16GenLeader(r *vfutil.Rand, id string) c16Leader {
	l := c16Leader{Started: true, Ids: []string{id}, Cur: id, WOpen: true}
	base := int64(r.Range(1, 3000))
	if r.Chance(1, 4) {
		base = int64(r.Range(4, 400)) * 5 // large snapshot (several 4 KiB reads)
	}
	n := int64(r.Range(0, 300))
	if r.Chance(1, 8) {
		n = int64(r.Range(4000, 12000))
	}
	switch r.Intn(10) {
	case 0: // nothing yet
		l.D = nil
		l.WOpen = r.Bool()
	case 1, 2: // snapshot only
		l.D = c16MkData(id, base, base, true)
	case 3, 4, 5: // snapshot + stream
		l.D = c16MkData(id, base, base+n, true)
	default: // stream only (snapshot collected)
		if n == 0 {
			n = 1
		}
		l.D = c16MkData(id, base, base+n, false)
	}
	if l.D != nil && r.Chance(1, 6) {
		l.WOpen = false
	}
	if l.D == nil && l.WOpen {
		l.D = &c16Data{Base: base}
	}
	if l.D != nil && l.WOpen && r.Chance(1, 2) { // a live leader: more stream arrives during the session
		l.Tail = c16HistSeg(id, l.D.right(), l.D.right()+int64(r.Range(1, 200)))
	}
	switch r.Intn(24) {
	case 0:
		l.Started = false
	case 1:
		l.Ids = nil
	case 2:
		l.Ids = []string{"idD", id} // the input already follows a newer id: "wait a moment"
	case 3, 4:
		l.Ids = []string{id, "idD"}
	}
	return l
}

func c16GenFollowerData(r *vfutil.Rand, id string, l c16Leader, rel int) *c16Data {
	lb, lr := int64(1000), int64(1000)
	if l.D != nil {
		lb, lr = l.D.Base, l.D.right()
	}
	pos := func(x int64) int64 {
		if x < 0 {
			return 0
		}
		return x
	}
	switch rel {
	case 0: // prefix: ends inside the leader's range
		fr := lb + int64(r.Intn(int(lr-lb)+1))
		fb := pos(fr - int64(r.Range(0, 200)))
		return c16MkData(id, fb, fr, r.Chance(1, 4))
	case 1: // equal
		fb := pos(lr - int64(r.Range(0, 200)))
		return c16MkData(id, fb, lr, r.Chance(1, 4))
	case 2: // ahead
		fr := lr + int64(r.Range(1, 300))
		fb := pos(fr - int64(r.Range(1, 400)))
		return c16MkData(id, fb, fr, r.Chance(1, 4))
	case 3: // already collected at the leader
		fr := pos(lb - int64(r.Range(1, 300)))
		fb := pos(fr - int64(r.Range(0, 200)))
		return c16MkData(id, fb, fr, r.Chance(1, 4))
	default: // anywhere around
		fb := pos(lb + int64(r.Range(-300, 300)))
		return c16MkData(id, fb, fb+int64(r.Range(0, 400)), r.Chance(1, 3))
	}
}

func c16GenCase(r *vfutil.Rand) c16Case {
	c := c16Case{Bk: "d", Seed: r.U64() >> 1}
	if r.Bool() {
		c.Bk = "m"
	}
	c.LogSize = int64(vfutil.Pick(r, []int{40, 64, 200, 1 << 20}))
	lid := "idA"
	l := c16GenLeader(r, lid)
	// follower
	var f c16Store
	k := r.Intn(12)
	switch {
	case k == 0: // nothing at all
	case k == 1: // empty directory / id adopted but no data
		f.Cur = lid
		f.Dirs = []c16Entry{{lid, nil}}
	case k <= 6: // same id
		d := c16GenFollowerData(r, lid, l, r.Intn(5))
		if len(d.Bytes) == 0 && !d.HasSnap {
			d = nil
		}
		f.Cur = lid
		f.Dirs = []c16Entry{{lid, d}}
	case k <= 9: // another id, current (the process was following the old id)
		d := c16GenFollowerData(r, "idB", l, r.Intn(5))
		if len(d.Bytes) == 0 && !d.HasSnap {
			d.Bytes = c16HistSeg("idB", d.Base, d.Base+7)
		}
		f.Cur = "idB"
		f.Dirs = []c16Entry{{"idB", d}}
	default: // disk: directories of both ids
		d1 := c16GenFollowerData(r, "idB", l, r.Intn(5))
		if len(d1.Bytes) == 0 && !d1.HasSnap {
			d1.Bytes = c16HistSeg("idB", d1.Base, d1.Base+5)
		}
		d2 := c16GenFollowerData(r, lid, l, r.Intn(5))
		if len(d2.Bytes) == 0 && !d2.HasSnap {
			d2 = nil
		}
		f.Cur = vfutil.Pick(r, []string{"idB", lid, ""})
		f.Dirs = []c16Entry{{lid, d2}, {"idB", d1}}
		if c.Bk == "m" {
			f.Cur = "idB"
			f.Dirs = f.Dirs[1:]
		}
	}
	if c.Bk == "d" && r.Chance(1, 6) {
		f.Cur = "" // fresh process over an existing directory tree
	}
	if c.Bk == "m" { // the memory backend has no directories: an id without data is just the id
		if f.Cur == "" {
			f.Dirs = nil
		}
		var keep []c16Entry
		for _, e := range f.Dirs {
			if e.D != nil {
				keep = append(keep, e)
			}
		}
		f.Dirs = keep
	}
	sort.Slice(f.Dirs, func(i, j int) bool { return f.Dirs[i].Id < f.Dirs[j].Id })
	c.F = f
	if r.Chance(1, 10) && l.D != nil { // the leader is more than 10 MiB ahead of anything the follower holds
		sh := int64(11 * 1024 * 1024)
		l.D = c16MkData(lid, l.D.Base+sh, l.D.right()+sh, l.D.HasSnap)
		if len(l.Tail) > 0 {
			l.Tail = c16HistSeg(lid, l.D.right(), l.D.right()+int64(len(l.Tail)))
		}
	}
	rd := c16Round{L: l, Cut: -1, Quiet: true}
	if r.Chance(1, 3) {
		rd.Split = vfutil.Pick(r, []int{1, 3, 17, 100})
	}
	c.Rounds = []c16Round{rd}
	return c
}

// a later state of the same leader: more stream, possibly an older part collected,
// a new snapshot, or another run id (fail-over / full resynchronisation at the source)
func c16Evolve(r *vfutil.Rand, l c16Leader) c16Leader {
	n := l
	if l.D == nil {
		return c16GenLeader(r, l.Cur)
	}
	id := l.Cur
	base, right, snap := l.D.Base, l.D.right(), l.D.HasSnap
	switch r.Intn(6) {
	case 0, 1: // grows
		right += int64(r.Range(1, 200))
	case 2: // grows, old part collected
		right += int64(r.Range(1, 200))
		base += int64(r.Intn(int(right-base) + 1))
		snap = false
	case 3: // new snapshot further on
		base = right + int64(r.Range(0, 100))
		right = base + int64(r.Range(0, 100))
		snap = true
	case 4: // the source now has another run id
		id = "idC"
		if l.Cur == "idC" {
			id = "idA"
		}
		if r.Bool() {
			base = int64(r.Range(1, 3000))
			right = base + int64(r.Range(0, 300))
			snap = r.Bool()
		}
		if right == base && !snap {
			right++
		}
	default: // unchanged
	}
	n.Cur = id
	n.Ids = []string{id}
	if id != l.Cur && r.Bool() {
		n.Ids = []string{id, l.Cur}
	}
	n.Started = true
	n.WOpen = true
	n.D = c16MkData(id, base, right, snap)
	n.Tail = nil
	if r.Chance(1, 3) {
		n.Tail = c16HistSeg(id, right, right+int64(r.Range(1, 100)))
	}
	return n
}

// ---------------------------------------------------------------- the test

func TestVerifC16(t *testing.T) {
	config.GetSyncerConfig().Channel = &config.ChannelConfig{}
	s := vfutil.NewSession("C16")
	defer s.Close()
	x := &c16Ctx{s: s}
	r := vfutil.NewRand(c16Mix(vfutil.Seed())) // (NewRand(s) and NewRand(s+1) are the same stream shifted by one)

	if rp := os.Getenv("VERIF_REPLAY"); rp != "" {
		if b, err := os.ReadFile(rp); err == nil {
			if i := strings.Index(string(b), `"case": "`); i >= 0 {
				line := string(b)[i+9:]
				line = line[:strings.Index(line, `"`)]
				if c, err := c16ParseCase(line); err == nil {
					x.runCase(t, c, "replay")
				}
			}
		}
	}
	for _, line := range vfutil.Corpus("C16") {
		c, err := c16ParseCase(line)
		if err != nil {
			t.Logf("c16: bad corpus line %q: %v", line, err)
			continue
		}
		x.runCase(t, c, "corpus")
	}

	pairs := vfutil.Scale(70, 2500)
	maxCuts := vfutil.Scale(6, 40)
	// every family (one generated pair + its cuts + later leader states) draws from its
	// own fork of the seed; families run concurrently (a CLEAR answer makes the real
	// follower sleep one second)
	type job struct {
		c c16Case
		r *vfutil.Rand
	}
	jobs := make(chan job)
	var wg sync.WaitGroup
	for w := 0; w < 12; w++ {
		wg.Add(1)
		go func() {
			defer wg.Done()
			for j := range jobs {
				x.family(t, j.c, j.r, maxCuts)
			}
		}()
	}
	for i := 0; i < pairs; i++ {
		fr := r.Fork()
		jobs <- job{c16GenCase(fr), fr}
	}
	close(jobs)
	wg.Wait()
}

func (x *c16Ctx) family(t *testing.T, c c16Case, r *vfutil.Rand, maxCuts int) {
	ms := x.runCase(t, c, "gen")
	if len(ms) == 0 {
		return
	}
	m := ms[0]
	// cut after every message (all of them when few, a sample otherwise)
	var cuts []int
	for k := 0; k < m; k++ {
		cuts = append(cuts, k)
	}
	for len(cuts) > maxCuts {
		j := r.Intn(len(cuts))
		cuts = append(cuts[:j], cuts[j+1:]...)
	}
	for _, k := range cuts {
		cc := c
		r0 := c.Rounds[0]
		r0.Cut = k
		r0.Quiet = !r.Chance(1, 4)
		cc.Rounds = []c16Round{r0}
		// … and resynchronise afterwards against a later state of the leader
		if r.Chance(1, 2) {
			l2 := c16Evolve(r, r0.L)
			r1 := c16Round{L: l2, Cut: -1, Quiet: true, Restart: r.Chance(1, 5)}
			if r.Chance(1, 3) {
				r1.Cut = r.Intn(6)
			}
			if r.Chance(1, 4) {
				r1.Split = vfutil.Pick(r, []int{2, 50})
			}
			cc.Rounds = append(cc.Rounds, r1)
			if r.Chance(1, 3) {
				cc.Rounds = append(cc.Rounds, c16Round{L: c16Evolve(r, l2), Cut: -1, Quiet: true})
			}
		}
		x.runCase(t, cc, "cut")
	}
}
