//go:build verif

package syncer

// C16 — a follower's cache is a faithful copy of the leader's stream.
//
// The real ReplicaFollower.Run talks over real gRPC (loopback TCP, generated
// client and server code) to the real syncer.ServiceReplica -> ReplicaLeader.Handle,
// in real time (the disk reader sleeps while holding its mutex, which a synctest
// bubble cannot advance past), over two real channels (StoreChannel on t.TempDir() /
// MemoryChannel). The harness owns only: the server-side stream wrapper (counts and
// re-chunks CONTINUE messages, fails every Send after `cut` messages), the follower's
// WaitCloser/Logger wrappers (Run's error pauses end a session; the logged error gives
// the outcome), and the leader's Input/Channel wrappers, which let the leader's own
// input act (switch run id, resynchronise, grow, collect) between the reads of one
// request. One op line per pass of Run (handshake .. first error):
//
//   sess <bk> <Ls> <views> <F> <ch> <cut> <lost> <fuel>  ->  m … / end <stage> <class> / F <store>
//
// (formats: lean/GunYu/Drive/C16.lean). Monitors (independent of the Lean model):
// every byte / snapshot the follower holds under an id is the leader's byte at the
// same (id, offset) or was already stored there before the session; segments are
// contiguous; an ahead follower is offered leadership and left untouched.

import (
	"bufio"
	"bytes"
	"context"
	"encoding/binary"
	"errors"
	"fmt"
	"io"
	"net"
	"os"
	"path/filepath"
	"sort"
	"strconv"
	"strings"
	"sync"
	"testing"
	"time"

	"google.golang.org/grpc"

	"github.com/mgtv-tech/redis-GunYu/config"
	pb "github.com/mgtv-tech/redis-GunYu/pkg/api/golang"
	"github.com/mgtv-tech/redis-GunYu/pkg/cluster"
	"github.com/mgtv-tech/redis-GunYu/pkg/digest"
	"github.com/mgtv-tech/redis-GunYu/pkg/log"
	"github.com/mgtv-tech/redis-GunYu/pkg/store"
	usync "github.com/mgtv-tech/redis-GunYu/pkg/sync"
	"github.com/mgtv-tech/redis-GunYu/pkg/vfutil"
)

// ---------------------------------------------------------------- specs

type c16Data struct {
	Base    int64
	Bytes   []byte
	HasSnap bool
	Snap    []byte
}

func (d *c16Data) right() int64 { return d.Base + int64(len(d.Bytes)) }

func (d *c16Data) String() string {
	if d == nil {
		return "-"
	}
	sn := "~"
	if d.HasSnap {
		sn = vfutil.Hex(d.Snap)
	}
	return fmt.Sprintf("%d/%s/%s", d.Base, vfutil.Hex(d.Bytes), sn)
}

func c16ParseData(s string) *c16Data {
	if s == "-" {
		return nil
	}
	f := strings.Split(s, "/")
	if len(f) != 3 {
		panic("bad data spec " + s)
	}
	b, err := strconv.ParseInt(f[0], 10, 64)
	if err != nil {
		panic(err)
	}
	d := &c16Data{Base: b, Bytes: vfutil.UnHex(f[1])}
	if f[2] != "~" {
		d.HasSnap = true
		d.Snap = vfutil.UnHex(f[2])
	}
	return d
}

func c16Id(s string) string {
	if s == "" {
		return "_"
	}
	return s
}
func c16UnId(s string) string {
	if s == "_" {
		return ""
	}
	return s
}

type c16Entry struct {
	Id string
	D  *c16Data
}

type c16Store struct {
	Cur  string
	Dirs []c16Entry
}

func (f c16Store) get(id string) (*c16Data, bool) {
	for _, e := range f.Dirs {
		if e.Id == id {
			return e.D, true
		}
	}
	return nil, false
}

func (f c16Store) String() string {
	es := append([]c16Entry(nil), f.Dirs...)
	sort.Slice(es, func(i, j int) bool { return es[i].Id < es[j].Id })
	parts := []string{c16Id(f.Cur)}
	for _, e := range es {
		parts = append(parts, c16Id(e.Id)+"="+e.D.String())
	}
	return strings.Join(parts, "|")
}

func c16ParseStore(s string) c16Store {
	f := strings.Split(s, "|")
	st := c16Store{Cur: c16UnId(f[0])}
	for _, e := range f[1:] {
		kv := strings.SplitN(e, "=", 2)
		st.Dirs = append(st.Dirs, c16Entry{c16UnId(kv[0]), c16ParseData(kv[1])})
	}
	return st
}

type c16Leader struct {
	Serving bool // ServiceReplica's gate: role leader, state run
	Started bool
	Ids     []string
	Cur     string
	D       *c16Data
	WOpen   bool
	Tail    []byte // appended to the leader's open writer once a stream reader of the session is open
	Halt    *c16Halt
}

// the leader was stopped during this request's transfer (observed): K CONTINUE messages
// got out, then its handler ended with a FAULT answer or cleanly
type c16Halt struct {
	K     int
	Fault bool
	Err   bool // … with an ERROR answer: the id check after a read found the channel relabelled
}

func (h *c16Halt) end() string {
	switch {
	case h.Err:
		return "2"
	case h.Fault:
		return "1"
	}
	return "0"
}

// the leader's contents once the tail has arrived
func (l c16Leader) grown() *c16Data {
	if l.D == nil || len(l.Tail) == 0 {
		return l.D
	}
	d := *l.D
	d.Bytes = append(append([]byte(nil), l.D.Bytes...), l.Tail...)
	return &d
}

func c16B(b bool) string {
	if b {
		return "1"
	}
	return "0"
}

func (l c16Leader) String() string {
	ids := "."
	if len(l.Ids) > 0 {
		p := make([]string, len(l.Ids))
		for i, x := range l.Ids {
			p[i] = c16Id(x)
		}
		ids = strings.Join(p, ",")
	}
	halt := "-"
	if l.Halt != nil {
		halt = fmt.Sprintf("%d,%s", l.Halt.K, l.Halt.end())
	}
	return fmt.Sprintf("%s:%s:%s:%s:%s:%s:%s:%s", c16B(l.Serving), c16B(l.Started), ids, c16Id(l.Cur), l.D.String(), c16B(l.WOpen), vfutil.Hex(l.Tail), halt)
}

func c16ParseLeader(s string) c16Leader {
	f := strings.Split(s, ":")
	if len(f) == 5 { // older corpus lines: no tail, no gate
		f = append(f, "-")
	}
	if len(f) == 6 {
		f = append([]string{"1"}, f...)
	}
	if len(f) == 7 {
		f = append(f, "-")
	}
	if len(f) != 8 {
		panic("bad leader spec " + s)
	}
	l := c16Leader{Serving: f[0] == "1", Started: f[1] == "1", Cur: c16UnId(f[3]), D: c16ParseData(f[4]), WOpen: f[5] == "1", Tail: vfutil.UnHex(f[6])}
	if f[7] != "-" {
		q := strings.Split(f[7], ",")
		k, _ := strconv.Atoi(q[0])
		l.Halt = &c16Halt{K: k, Fault: len(q) > 1 && q[1] == "1", Err: len(q) > 1 && q[1] == "2"}
	}
	if f[2] != "." {
		for _, x := range strings.Split(f[2], ",") {
			l.Ids = append(l.Ids, c16UnId(x))
		}
	}
	return l
}

// one pass of the follower's Run (handshake .. first error) of a case
type c16Round struct {
	Ls      []c16Leader // states of the leader during the session, Ls[0] at its start
	Views   [][6]int    // per request: state read at gate + selfInspection's input ids, selfInspection's channel id, Handle's input ids, StartPoint(nil), IsValidOffset, NewReader
	Cut     int         // messages delivered before the transport fails (<0: never)
	Split   int         // >0: CONTINUE messages are re-chunked into pieces of 1..Split bytes
	Quiet   bool        // the cut happens when the follower has persisted everything it received
	Restart bool        // (disk) the follower process is restarted before this session
	Stop    int         // >0: the leader is stopped (its syncer's wait closed) once that many CONTINUE messages of a transfer are out
	Relabel int         // >0: the leader's input relabels the channel (source fail-over: writer closed, SetRunId(other id), new writer, the new master's bytes) once that many CONTINUE messages of a STREAM transfer are out — its stream reader is open
	RelRead bool        // the same relabel, but at the instant the leader's stream reader has delivered everything the old id holds and sendData's next ioReader.Read is entered (it would block): the new master's bytes are what that read returns — between the read and the id check
	WFault  int         // >0: (disk follower) the follower's store fails the file write that would take the payload of this session's FIRST transfer past WFault bytes (descriptor closed underneath the writer: EIO / ENOSPC)
	WSync   int         // >0: (disk follower) when WSync payload bytes of the snapshot being received are on its file, the rest of the writer's output is lost and its fsync at the commit fails (a pipe dup2'ed over the descriptor: writes "succeed", Sync returns an error)
	WRename bool        // (disk follower) the commit (rename) of the snapshot received in this session fails
	Crash   int         // >0: (disk follower) before this session the follower process is killed: it restarts over the directory image frozen when Crash payload bytes of the PREVIOUS session's transfer had been written
	FStop   int         // >0: the FOLLOWER's own Stop() (its syncer is stopped: role change, restart of the command) is called once that many CONTINUE messages of a transfer are out (a snapshot transfer: only while bytes are still to come); with Quiet after the follower has stored every sent byte
}

func (r c16Round) extras() string {
	var p []string
	if r.Relabel > 0 {
		p = append(p, fmt.Sprintf("rl=%d", r.Relabel))
	}
	if r.RelRead {
		p = append(p, "rr=1")
	}
	if r.WFault > 0 {
		p = append(p, fmt.Sprintf("wf=%d", r.WFault))
	}
	if r.WSync > 0 {
		p = append(p, fmt.Sprintf("ws=%d", r.WSync))
	}
	if r.WRename {
		p = append(p, "wr=1")
	}
	if r.Crash > 0 {
		p = append(p, fmt.Sprintf("cr=%d", r.Crash))
	}
	if r.FStop > 0 {
		p = append(p, fmt.Sprintf("fs=%d", r.FStop))
	}
	if len(p) == 0 {
		return "-"
	}
	return strings.Join(p, ",")
}

func (r c16Round) view(n int) [6]int {
	if n < len(r.Views) {
		return r.Views[n]
	}
	if len(r.Views) == 0 {
		return [6]int{}
	}
	k := r.Views[len(r.Views)-1][5]
	return [6]int{k, k, k, k, k, k}
}

func (r c16Round) static() bool {
	for _, v := range r.Views {
		if v != [6]int{} {
			return false
		}
	}
	return true
}

func (r c16Round) lsString() string {
	p := make([]string, len(r.Ls))
	for i, l := range r.Ls {
		p[i] = l.String()
	}
	return strings.Join(p, ";")
}

func (r c16Round) viewsString() string {
	if len(r.Views) == 0 {
		return "."
	}
	p := make([]string, len(r.Views))
	for i, v := range r.Views {
		p[i] = fmt.Sprintf("%d.%d.%d.%d.%d.%d", v[0], v[1], v[2], v[3], v[4], v[5])
	}
	return strings.Join(p, ",")
}

func (r c16Round) String() string {
	return fmt.Sprintf("%s@%s@%d@%d@%s@%s@%d@%s", r.lsString(), r.viewsString(), r.Cut, r.Split, c16B(r.Quiet), c16B(r.Restart), r.Stop, r.extras())
}

func c16ParseRound(rs string) (r c16Round, err error) {
	q := strings.Split(rs, "@")
	if len(q) == 5 { // older corpus lines: one static leader
		q = append([]string{q[0], "."}, q[1:]...)
	}
	if len(q) == 6 {
		q = append(q, "0")
	}
	if len(q) == 7 {
		q = append(q, "-")
	}
	if len(q) != 8 {
		return r, fmt.Errorf("bad round %q", rs)
	}
	r.Stop, _ = strconv.Atoi(q[6])
	if q[7] != "-" {
		for _, kv := range strings.Split(q[7], ",") {
			f := strings.SplitN(kv, "=", 2)
			if len(f) != 2 {
				return r, fmt.Errorf("bad round extras %q", q[7])
			}
			n, _ := strconv.Atoi(f[1])
			switch f[0] {
			case "rl":
				r.Relabel = n
			case "rr":
				r.RelRead = n == 1
			case "wf":
				r.WFault = n
			case "ws":
				r.WSync = n
			case "wr":
				r.WRename = n == 1
			case "cr":
				r.Crash = n
			case "fs":
				r.FStop = n
			default:
				return r, fmt.Errorf("bad round extras %q", q[7])
			}
		}
	}
	for _, ls := range strings.Split(q[0], ";") {
		r.Ls = append(r.Ls, c16ParseLeader(ls))
	}
	if q[1] != "." {
		for _, vs := range strings.Split(q[1], ",") {
			var v [6]int
			f := strings.Split(vs, ".")
			if len(f) == 4 { // older lines: four read points a.b.c.d = a.a.b.b.c.d
				f = []string{f[0], f[0], f[1], f[1], f[2], f[3]}
			}
			if len(f) != 6 {
				return r, fmt.Errorf("bad view %q", vs)
			}
			for i := range v {
				v[i], _ = strconv.Atoi(f[i])
				if v[i] < 0 || v[i] >= len(r.Ls) {
					return r, fmt.Errorf("bad view %q", vs)
				}
			}
			r.Views = append(r.Views, v)
		}
	}
	r.Cut, _ = strconv.Atoi(q[2])
	r.Split, _ = strconv.Atoi(q[3])
	r.Quiet = q[4] == "1"
	r.Restart = q[5] == "1"
	return r, nil
}

type c16Case struct {
	Bk      string // "d" | "m"
	LogSize int64
	F       c16Store
	Rounds  []c16Round
	Seed    uint64
}

// corpus / replay line:  <bk> <logsize> <seed> <F> <round> <round> …
func (c c16Case) String() string {
	p := []string{c.Bk, strconv.FormatInt(c.LogSize, 10), strconv.FormatUint(c.Seed, 10), c.F.String()}
	for _, r := range c.Rounds {
		p = append(p, r.String())
	}
	return strings.Join(p, " ")
}

func c16ParseCase(line string) (c c16Case, err error) {
	defer func() {
		if r := recover(); r != nil {
			err = fmt.Errorf("%v", r)
		}
	}()
	f := strings.Fields(line)
	if len(f) < 5 {
		return c, fmt.Errorf("short case line")
	}
	c.Bk = f[0]
	c.LogSize, _ = strconv.ParseInt(f[1], 10, 64)
	c.Seed, _ = strconv.ParseUint(f[2], 10, 64)
	c.F = c16ParseStore(f[3])
	for _, rs := range f[4:] {
		r, e := c16ParseRound(rs)
		if e != nil {
			return c, e
		}
		c.Rounds = append(c.Rounds, r)
	}
	return c, nil
}

// ---------------------------------------------------------------- history oracle

func c16Mix(x uint64) uint64 {
	x += 0x9E3779B97F4A7C15
	x = (x ^ (x >> 30)) * 0xBF58476D1CE4E5B9
	x = (x ^ (x >> 27)) * 0x94D049BB133111EB
	return x ^ (x >> 31)
}

// distinct non-zero masks: two histories differ at EVERY offset
var c16Masks = map[string]byte{"idA": 0x11, "idB": 0x6e, "idC": 0xa5, "idD": 0xd3}

func c16Hist(id string, off int64) byte { return byte(c16Mix(uint64(off))) ^ c16Masks[id] }

func c16HistSeg(id string, from, to int64) []byte {
	if to <= from {
		return nil
	}
	b := make([]byte, to-from)
	for i := range b {
		b[i] = c16Hist(id, from+int64(i))
	}
	return b
}

func c16SnapLen(id string, left int64) int {
	m := int(c16Mix(uint64(left)*7+uint64(c16Masks[id])) % 5000)
	if left%5 == 0 {
		return 6000 + m
	}
	return 3 + m%70
}

func c16SnapBytes(id string, left int64) []byte {
	n := c16SnapLen(id, left)
	b := make([]byte, n)
	for i := range b {
		b[i] = byte(c16Mix(uint64(left)*1000003+uint64(i))>>8) ^ c16Masks[id] ^ 0x5a
	}
	if n > 8 {
		// an RDB file ends with the little-endian CRC64 of everything before it: a VERIFYING snapshot reader
		// (channel.verifyCrc: true) accepts the oracle's snapshots (files of up to 8 bytes are not checked)
		h := digest.New()
		h.Write(b[:n-8])
		if h.Sum64() == 0 {
			b[0] ^= 1
			h.Reset()
			h.Write(b[:n-8])
		}
		binary.LittleEndian.PutUint64(b[n-8:], h.Sum64())
	}
	return b
}

func c16MkData(id string, base, right int64, snap bool) *c16Data {
	d := &c16Data{Base: base, Bytes: c16HistSeg(id, base, right)}
	if snap {
		d.HasSnap = true
		d.Snap = c16SnapBytes(id, base)
	}
	return d
}

// ---------------------------------------------------------------- real channels

type c16Input struct {
	mu   sync.Mutex
	ids  []string
	hook func() // called before every RunIds read
}

func (i *c16Input) Id() string                              { return "vf-input" }
func (i *c16Input) Run() error                              { return nil }
func (i *c16Input) Stop() error                             { return nil }
func (i *c16Input) SetOutput(Output)                        {}
func (i *c16Input) SetChannel(Channel)                      {}
func (i *c16Input) StateNotify(SyncState) usync.WaitChannel { return nil }
func (i *c16Input) RunIds() []string {
	if i.hook != nil {
		i.hook()
	}
	i.mu.Lock()
	defer i.mu.Unlock()
	return i.ids
}
func (i *c16Input) set(ids []string) { i.mu.Lock(); i.ids = ids; i.mu.Unlock() }

func c16NewChannel(bk string, dir string, logSize int64) Channel {
	if bk == "d" {
		return NewStoreChannel(StorerConf{InputId: "vf", Dir: dir, MaxSize: 1 << 40, LogSize: logSize})
	}
	return NewMemoryChannel(MemoryConf{InputId: "vf", MaxSize: 1 << 40, LogSize: logSize})
}

// c16Fill writes d into the channel's current run id through the real writers.
// With keepOpen the AOF writer stays open (a live leader); the returned func closes it.
func c16Fill(ch Channel, d *c16Data, keepOpen bool) (closeFn func(), err error) {
	closeFn, _, err = c16FillW(ch, d, keepOpen)
	return
}

// c16FillW also returns a function appending more stream bytes through the open writer.
func c16FillW(ch Channel, d *c16Data, keepOpen bool) (closeFn func(), appendFn func([]byte) error, err error) {
	closeFn = func() {}
	appendFn = func([]byte) error { return errors.New("no open writer") }
	if d == nil {
		return
	}
	if d.HasSnap {
		pr, pw := io.Pipe()
		w, e := ch.NewRdbWriter(bufio.NewReader(pr), d.Base, int64(len(d.Snap)))
		if e != nil {
			return closeFn, appendFn, e
		}
		w.Start()
		if len(d.Snap) > 0 {
			pw.Write(d.Snap)
		}
		e = w.Wait(context.Background())
		w.Close()
		pw.Close()
		if e != nil {
			return closeFn, appendFn, fmt.Errorf("fill snapshot: %v", e)
		}
	}
	if len(d.Bytes) > 0 || keepOpen {
		pr, pw := io.Pipe()
		w, e := ch.NewAofWritter(bufio.NewReader(pr), d.Base)
		if e != nil {
			return closeFn, appendFn, e
		}
		w.Start()
		if len(d.Bytes) > 0 {
			pw.Write(d.Bytes)
		}
		// (the writer's own counter runs ahead of the data set's: wait for what readers see)
		latest := func() int64 { sp, _ := ch.StartPoint(nil); return sp.Offset }
		c16Wait(func() bool { return latest() == d.right() }, c16Patience)
		if latest() != d.right() {
			return closeFn, appendFn, fmt.Errorf("fill aof: right %d want %d", latest(), d.right())
		}
		closeFn = func() { w.Close(); pw.Close() }
		appendFn = func(b []byte) error {
			want := latest() + int64(len(b))
			pw.Write(b)
			if !c16Wait(func() bool { return latest() == want }, c16Patience) {
				return fmt.Errorf("append: right %d want %d", latest(), want)
			}
			return nil
		}
		if !keepOpen {
			closeFn()
			closeFn = func() {}
		}
	}
	return
}

// follower channel in the state `st`
func c16BuildFollower(bk, dir string, logSize int64, st c16Store) (Channel, error) {
	if bk == "m" {
		ch := c16NewChannel(bk, dir, logSize)
		if st.Cur != "" {
			ch.SetRunId(st.Cur)
		}
		if d, ok := st.get(st.Cur); ok {
			if _, err := c16Fill(ch, d, false); err != nil {
				return nil, err
			}
		}
		return ch, nil
	}
	for _, e := range st.Dirs {
		ch := c16NewChannel(bk, dir, logSize) // a fresh storer has no current id: SetRunId creates the directory
		if err := ch.SetRunId(e.Id); err != nil {
			return nil, err
		}
		if _, err := c16Fill(ch, e.D, false); err != nil {
			return nil, err
		}
		ch.Close()
	}
	ch := c16NewChannel(bk, dir, logSize)
	if st.Cur != "" {
		if _, err := ch.StartPoint([]string{st.Cur}); err != nil {
			return nil, err
		}
	}
	return ch, nil
}

// ---------------------------------------------------------------- observation

var c16ErrRead = errors.New("read")

// hard limit of every wait for the code under test to reach a state it must reach; the
// waits end as soon as the condition holds, the limit only bounds a hang
const c16Patience = 120 * time.Second

func c16Wait(cond func() bool, max time.Duration) bool {
	dl := time.Now().Add(max)
	for !cond() {
		if time.Now().After(dl) {
			return false
		}
		time.Sleep(100 * time.Microsecond)
	}
	return true
}

// one reader opened at off: reads up to len(buf) bytes, gives up when no byte arrives
// for `idle`
func c16ReadOnce(ch Channel, id string, off int64, buf []byte, idle time.Duration) (int, bool, error) {
	rd, err := ch.NewReader(Offset{RunId: id, Offset: off})
	if err != nil {
		return 0, false, err
	}
	w := usync.NewWaitCloser(nil)
	rd.Start(w)
	isAof := rd.IsAof()
	type part struct {
		n   int
		err error
	}
	parts := make(chan part, 16)
	stop := make(chan struct{})
	go func() {
		got := 0
		for got < len(buf) {
			n, e := rd.IoReader().Read(buf[got:])
			got += n
			select {
			case parts <- part{n, e}:
			case <-stop:
				return
			}
			if e != nil {
				return
			}
		}
	}()
	got := 0
	for got < len(buf) && err == nil {
		select {
		case p := <-parts:
			got += p.n
			if p.err != nil && got < len(buf) {
				err = p.err
			}
		case <-time.After(idle):
			err = fmt.Errorf("%w: no byte for %v at offset %d", c16ErrRead, idle, off+int64(got))
		}
	}
	close(stop)
	w.Close(nil)
	rd.Close()
	return got, isAof, err
}

// read n bytes at off. A reader that stops making progress although the channel offers
// the range (memory backend: a segment left open by a closed writer) is replaced by a
// fresh reader at the offset reached; `stalls` counts that.
func c16ReadAt(ch Channel, id string, off int64, n int) (buf []byte, isAof bool, stalls int, err error) {
	buf = make([]byte, n)
	got := 0
	for got < n {
		var k int
		k, isAof, err = c16ReadOnce(ch, id, off+int64(got), buf[got:], 30*time.Second)
		got += k
		if err == nil {
			break
		}
		if k == 0 || !errors.Is(err, c16ErrRead) {
			return
		}
		stalls++
		err = nil
	}
	return
}

// what the channel API serves under its current id
func c16ObserveAPI(ch Channel) (cur string, d *c16Data, problems []string, stalls int) {
	cur = ch.RunId()
	if cur == "" {
		return
	}
	l, r := ch.GetOffsetRange(cur)
	rl, rs := ch.GetRdb(cur)
	if l < 0 && rl < 0 {
		return
	}
	d = &c16Data{}
	if rl >= 0 {
		d.HasSnap = true
		d.Base = rl
		if rs > 0 {
			b, isAof, st, err := c16ReadAt(ch, cur, rl-1, int(rs))
			stalls += st
			if err != nil || isAof {
				problems = append(problems, fmt.Sprintf("snapshot (%d,%d) offered but not readable: aof=%v err=%v", rl, rs, isAof, err))
			}
			d.Snap = b
		}
	}
	if l >= 0 {
		if rl >= 0 && l != rl {
			problems = append(problems, fmt.Sprintf("snapshot at %d but range starts at %d", rl, l))
		}
		d.Base = l
		if r > l {
			b, isAof, st, err := c16ReadAt(ch, cur, l, int(r-l))
			stalls += st
			if err != nil || !isAof {
				problems = append(problems, fmt.Sprintf("range [%d,%d] offered but not readable: aof=%v err=%v", l, r, isAof, err))
			}
			d.Bytes = b
		}
	}
	if len(d.Bytes) == 0 && !d.HasSnap {
		d = nil
	}
	return
}

// what the disk backend holds in every run-id directory
// after a kill a `.rdb.tmp` may be left in a directory (a fresh Storer never reads it; the next
// reset of the directory removes it): c16TolerateTmp says whether the case being run has a crash
// restart (per goroutine: cases of one worker run one after the other)
func c16ObserveDisk(dir string, tolerateTmp bool) (dirs []c16Entry, problems []string) {
	ents, _ := os.ReadDir(dir)
	for _, e := range ents {
		if !e.IsDir() {
			problems = append(problems, "stray file "+e.Name())
			continue
		}
		id := e.Name()
		files, _ := os.ReadDir(filepath.Join(dir, id))
		type seg struct {
			left int64
			data []byte
		}
		var segs []seg
		var d c16Data
		any := false
		for _, f := range files {
			p := filepath.Join(dir, id, f.Name())
			switch {
			case strings.HasSuffix(f.Name(), ".aof"):
				left, err := strconv.ParseInt(strings.TrimSuffix(f.Name(), ".aof"), 10, 64)
				b, _ := os.ReadFile(p)
				if err != nil || len(b) < 16 {
					problems = append(problems, id+": bad aof file "+f.Name())
					continue
				}
				if len(b) > 16 {
					segs = append(segs, seg{left, b[16:]})
				}
			case strings.HasSuffix(f.Name(), ".rdb"):
				q := strings.Split(strings.TrimSuffix(f.Name(), ".rdb"), "_")
				left, _ := strconv.ParseInt(q[0], 10, 64)
				size, _ := strconv.ParseInt(q[len(q)-1], 10, 64)
				b, _ := os.ReadFile(p)
				if int64(len(b)) != size {
					problems = append(problems, fmt.Sprintf("%s: snapshot file %s holds %d bytes", id, f.Name(), len(b)))
				}
				if d.HasSnap {
					problems = append(problems, id+": two snapshot files")
				}
				d.HasSnap, d.Snap, d.Base = true, b, left
				any = true
			case strings.HasSuffix(f.Name(), ".rdb.tmp") && tolerateTmp:
				// left by the killed process
			default:
				problems = append(problems, id+": leftover file "+f.Name())
			}
		}
		sort.Slice(segs, func(i, j int) bool { return segs[i].left < segs[j].left })
		for i, s := range segs {
			if i == 0 {
				if d.HasSnap && d.Base != s.left {
					problems = append(problems, fmt.Sprintf("%s: snapshot at %d, first segment at %d", id, d.Base, s.left))
				}
				d.Base = s.left
			} else if d.Base+int64(len(d.Bytes)) != s.left {
				problems = append(problems, fmt.Sprintf("%s: segment %d does not start at %d", id, s.left, d.Base+int64(len(d.Bytes))))
			}
			d.Bytes = append(d.Bytes, s.data...)
			any = true
		}
		if any {
			dd := d
			dirs = append(dirs, c16Entry{id, &dd})
		} else {
			dirs = append(dirs, c16Entry{id, nil})
		}
	}
	return
}

func c16SameData(a, b *c16Data) bool {
	if a == nil || b == nil {
		return a == nil && b == nil
	}
	return a.Base == b.Base && bytes.Equal(a.Bytes, b.Bytes) && a.HasSnap == b.HasSnap && bytes.Equal(a.Snap, b.Snap)
}

// c16Observe returns the follower's store and structural problems
// (non-contiguous segments, API/file disagreement, unreadable ranges).
func c16Observe(bk string, ch Channel, dir string, tolerateTmp bool) (c16Store, []string, int) {
	var st c16Store
	var problems []string
	if bk == "d" {
		st.Dirs, problems = c16ObserveDisk(dir, tolerateTmp)
		st.Cur = ch.RunId()
		if st.Cur != "" {
			// the next user of the channel re-reads the directory first (StartPoint -> VerifyRunId)
			ch.StartPoint([]string{st.Cur})
			cur, d, p2, stalls := c16ObserveAPI(ch)
			problems = append(problems, p2...)
			fd, _ := st.get(cur)
			if cur != st.Cur || !c16SameData(d, fd) {
				problems = append(problems, fmt.Sprintf("channel serves %s=%s, files hold %s", cur, d.String(), fd.String()))
			}
			return st, problems, stalls
		}
		return st, problems, 0
	}
	cur, d, problems, stalls := c16ObserveAPI(ch)
	st.Cur = cur
	if d != nil {
		st.Dirs = []c16Entry{{cur, d}}
	}
	return st, problems, stalls
}

// ---------------------------------------------------------------- the live leader

var c16ErrCut = errors.New("vf: transport cut")

// c16LeaderRT is the real leader side of one session: real channel, real
// ReplicaLeader, real syncer (for ServiceReplica's gate). moveTo performs, on the
// real channel, what the leader's input does (syncer/input.go: setRunIds, DelRunId,
// SetRunId, NewRdbWriter/NewAofWritter, stream bytes) to get from one state to another.
type c16LeaderRT struct {
	bk      string
	logSize int64
	dir     string
	lch     Channel
	input   *c16Input
	leader  *ReplicaLeader
	sy      *syncer
	ls      []c16Leader
	cur     int
	closeW  func()
	appendW func([]byte) error
	err     error
}

func c16Extends(a, b *c16Data) bool { // b = a + more stream
	return a != nil && b != nil && a.Base == b.Base && a.HasSnap == b.HasSnap && bytes.Equal(a.Snap, b.Snap) &&
		len(b.Bytes) >= len(a.Bytes) && bytes.Equal(a.Bytes, b.Bytes[:len(a.Bytes)])
}

func (rt *c16LeaderRT) moveTo(j int) {
	if j == rt.cur || rt.err != nil {
		return
	}
	a, b := rt.ls[rt.cur], rt.ls[j]
	rt.cur = j
	rt.input.set(b.Ids)
	rt.leader.start.Store(b.Started)
	rt.sy.guard.Lock()
	if b.Serving {
		rt.sy.role, rt.sy.state = SyncerRoleLeader, SyncerStateRun
	} else {
		rt.sy.role, rt.sy.state = SyncerRoleFollower, SyncerStateRun
	}
	rt.sy.guard.Unlock()
	switch {
	case a.Cur == b.Cur && c16SameData(a.D, b.D) && a.WOpen == b.WOpen:
		// only the input ids / flags changed
	case a.Cur == b.Cur && a.WOpen && b.WOpen && c16Extends(a.D, b.D):
		if extra := b.D.Bytes[len(a.D.Bytes):]; len(extra) > 0 {
			rt.err = rt.appendW(extra)
		}
	case a.Cur != b.Cur && a.Cur != "" && b.Cur != "" && a.D != nil && c16SameData(a.D, b.D):
		// PSYNC2 fail-over: +CONTINUE <new id> on reconnect — the cache is relabelled
		rt.closeW()
		if rt.err = rt.lch.SetRunId(b.Cur); rt.err == nil && b.WOpen {
			rt.closeW, rt.appendW, rt.err = c16FillW(rt.lch, &c16Data{Base: b.D.right()}, true)
		}
	default:
		// full resynchronisation / collection: the cache is replaced
		rt.closeW()
		if id := rt.lch.RunId(); id != "" {
			rt.err = rt.lch.DelRunId(id)
		}
		if rt.err == nil && b.Cur != "" {
			rt.err = rt.lch.SetRunId(b.Cur)
		}
		if rt.err == nil {
			rt.closeW, rt.appendW, rt.err = c16FillW(rt.lch, b.D, b.WOpen)
		}
	}
}

// failover performs, on the real channel, the input's reconnect after a PSYNC2 fail-over of the
// source that is answered +CONTINUE <new id>: the cache is kept and relabelled, the new master's
// bytes follow at the same offset (syncer/input.go syncMeta: setRunIds, channel.SetRunId; syncData:
// NewAofWritter(locSp.Offset))
func (rt *c16LeaderRT) failover() (appended int64) {
	if rt.err != nil {
		return
	}
	cur := rt.lch.RunId()
	other := "idC"
	if cur == "idC" {
		other = "idD"
	}
	rt.closeW()
	rt.input.set([]string{other, cur})
	if rt.err = rt.lch.SetRunId(other); rt.err != nil {
		return
	}
	sp, _ := rt.lch.StartPoint(nil)
	if sp.Offset < 0 {
		return
	}
	if rt.closeW, rt.appendW, rt.err = c16FillW(rt.lch, &c16Data{Base: sp.Offset}, true); rt.err == nil {
		rt.err = rt.appendW(c16HistSeg(other, sp.Offset, sp.Offset+97))
		appended = 97
	}
	return
}

// the leader's channel as Handle sees it: IsValidOffset and NewReader are read points
type c16LChan struct {
	Channel
	hook func(point int)
	ss   *c16Sess
}

func (c *c16LChan) RunId() string { c.hook(1); return c.Channel.RunId() } // selfInspection (first read of a request); sendData's check after every read of its loop (not a read point: hook ignores it)
func (c *c16LChan) StartPoint(ids []string) (StartPoint, error) { // Handle: StartPoint(nil)
	c.hook(3)
	return c.Channel.StartPoint(ids)
}
func (c *c16LChan) IsValidOffset(o Offset) bool { c.hook(4); return c.Channel.IsValidOffset(o) }
func (c *c16LChan) NewReader(o Offset) (ChannelReader, error) {
	c.hook(5)
	var rd ChannelReader
	var err error
	if sc, ok := c.Channel.(*StoreChannel); ok && c.ss != nil && c.ss.vcrc {
		// the leader runs with channel.verifyCrc: true (a process-wide option: StoreChannel.NewReader reads it
		// from the configuration; here per session): every segment its reader opens — the first one and each
		// one it FOLLOWS INTO across a rotation, closed or still being written — goes through the CRC check first
		// The oracle's generated snapshots end with a valid CRC64 footer: a verifying snapshot reader accepts them;
		// hand-written corpus snapshots do not (refused: the plain reader is used, counted).
		var sr *store.Reader
		sr, err = sc.storer.GetReader(o.Offset, true)
		if err == nil {
			rd = sr
			c.ss.mu.Lock()
			if sr.IsAof() {
				c.ss.vcrcAof = true
			} else {
				c.ss.vcrcRdb = true
			}
			c.ss.mu.Unlock()
		} else {
			rd, err = c.Channel.NewReader(o)
			if err == nil {
				c.ss.mu.Lock()
				if rd.IsAof() {
					c.ss.vcrcAofRefused = true
				} else {
					c.ss.vcrcRdbRefused = true
				}
				c.ss.mu.Unlock()
			}
		}
	} else {
		rd, err = c.Channel.NewReader(o)
	}
	if err == nil && c.ss != nil && c.ss.round.RelRead && rd.IsAof() {
		return &c16LReader{ChannelReader: rd, ss: c.ss, off: o.Offset}, nil
	}
	return rd, err
}

// c16LReader is the leader's stream reader with a read point INSIDE sendData's loop: when
// everything the old id holds has been handed to sendData and its next ioReader.Read is entered
// (the read that would block for more), the leader's input fails over (relabel, new writer,
// the new master's bytes): that read returns the NEW history's bytes — the instant between
// the read and the id check.
type c16LReader struct {
	ChannelReader
	ss  *c16Sess
	off int64
	br  *bufio.Reader
	n   int64
}

func (r *c16LReader) IoReader() *bufio.Reader {
	if r.br == nil {
		r.br = bufio.NewReaderSize(&c16ReadPoint{r: r, in: r.ChannelReader.IoReader()}, 4096)
	}
	return r.br
}

type c16ReadPoint struct {
	r  *c16LReader
	in *bufio.Reader
}

func (p *c16ReadPoint) Read(b []byte) (int, error) {
	ss := p.r.ss
	ss.mu.Lock()
	now := !ss.stopped && ss.aofOn && ss.xright >= 0 && p.r.off+p.r.n >= ss.xright
	if now {
		ss.stopped, ss.stopRPC, ss.relabel = true, ss.rpc, true
		ss.readsAt, ss.relOff = len(ss.reads[ss.rpc]), ss.aofStart
		if ss.halts == nil {
			ss.halts = map[int]*c16Halt{}
		}
		ss.halts[ss.rpc] = &c16Halt{K: ss.contRPC}
	}
	ss.mu.Unlock()
	if now {
		ss.rt.failover()
	}
	n, err := p.in.Read(b)
	p.r.n += int64(n)
	return n, err
}

// ---------------------------------------------------------------- faults of the follower's own store

// c16FChan is the follower's channel as its ReplicaFollower sees it: the real channel, except
// that the io.Reader a snapshot / stream writer ingests from is wrapped when the round asks for
// a fault of the follower's store. The wrapper acts between two reads of the writer's ingest()
// loop, i.e. between two file writes — deterministically, whatever the chunking on the wire.
type c16FChan struct {
	Channel
	dir     string
	mu      sync.Mutex
	wfault  int   // >0: every writer gets wfault payload bytes onto its file, the next write fails
	wrename bool  // the commit (rename) of a completely written snapshot fails
	wsync   int   // >0: a snapshot writer's output beyond wsync bytes is lost, its fsync fails
	keep    []*os.File
	freeze  int   // >0: when a writer has written freeze payload bytes the directory tree is copied (the image a kill at that instant leaves)
	image   string // where the frozen image is
	fired   bool  // a fault was injected AND a byte was handed to the writer afterwards
	frozen  bool
	writers int   // snapshot / stream writers the follower has created on this channel
}

func (c *c16FChan) writersMade() int {
	c.mu.Lock()
	defer c.mu.Unlock()
	return c.writers
}

func (c *c16FChan) arm(wfault int, wrename bool, wsync int, freeze int, image string) {
	c.mu.Lock()
	c.wfault, c.wrename, c.wsync, c.freeze, c.image, c.fired, c.frozen = wfault, wrename, wsync, freeze, image, false, false
	for _, f := range c.keep {
		f.Close()
	}
	c.keep = nil
	c.mu.Unlock()
}

func (c *c16FChan) state() (fired, frozen bool) {
	c.mu.Lock()
	defer c.mu.Unlock()
	return c.fired, c.frozen
}

type c16FaultReader struct {
	r      io.Reader
	c      *c16FChan
	w      interface{} // the writer ingesting from this reader
	n      int         // payload bytes handed to the writer so far
	total  int64       // snapshot: announced size
	k      int
	sync   bool // at k: lose the rest and fail the fsync (instead of failing the next write)
	rename bool
	freeze int
	done   bool
}

func (f *c16FaultReader) Read(p []byte) (int, error) {
	if f.freeze > 0 && !f.done {
		if f.n < f.freeze {
			if len(p) > f.freeze-f.n {
				p = p[:f.freeze-f.n]
			}
			n, err := f.r.Read(p)
			f.n += n
			return n, err
		}
		// exactly `freeze` payload bytes are in the file (ingest writes before it reads on): the
		// image a kill at this instant leaves
		f.done = true
		c16CopyTree(f.c.dir, f.c.image)
		f.c.mu.Lock()
		f.c.frozen = true
		f.c.mu.Unlock()
	}
	if f.k > 0 && !f.done {
		if f.n < f.k {
			if len(p) > f.k-f.n {
				p = p[:f.k-f.n]
			}
			n, err := f.r.Read(p)
			f.n += n
			return n, err
		}
		n, err := f.r.Read(p)
		if n > 0 {
			f.done = true
			if f.sync {
				if pr := store.VerifLoseSync(f.w); pr != nil {
					f.c.mu.Lock()
					f.c.fired = true
					f.c.keep = append(f.c.keep, pr)
					f.c.mu.Unlock()
				}
			} else {
				store.VerifBreakFile(f.w)
				f.c.mu.Lock()
				f.c.fired = true
				f.c.mu.Unlock()
			}
		}
		f.n += n
		return n, err
	}
	if f.rename && !f.done {
		n, err := f.r.Read(p)
		f.n += n
		if n > 0 && int64(f.n) == f.total {
			f.done = true
			if store.VerifLoseRdbTmp(f.w) {
				f.c.mu.Lock()
				f.c.fired = true
				f.c.mu.Unlock()
			}
		}
		return n, err
	}
	return f.r.Read(p)
}

func (c *c16FChan) NewRdbWriter(r io.Reader, off int64, size int64) (RdbChannelWriter, error) {
	c.mu.Lock()
	k, ren, fz, ws := c.wfault, c.wrename, c.freeze, c.wsync
	c.writers++
	c.mu.Unlock()
	if k == 0 && !ren && fz == 0 && ws == 0 {
		return c.Channel.NewRdbWriter(r, off, size)
	}
	fr := &c16FaultReader{r: r, c: c, total: size, k: k, rename: ren, freeze: fz}
	if ws > 0 {
		fr.k, fr.sync = ws, true
	}
	w, err := c.Channel.NewRdbWriter(fr, off, size)
	fr.w = w
	return w, err
}

func (c *c16FChan) NewAofWritter(r io.Reader, off int64) (AofChannelWriter, error) {
	c.mu.Lock()
	k, fz := c.wfault, c.freeze
	c.writers++
	c.mu.Unlock()
	if k == 0 && fz == 0 {
		return c.Channel.NewAofWritter(r, off)
	}
	fr := &c16FaultReader{r: r, c: c, k: k, freeze: fz}
	w, err := c.Channel.NewAofWritter(fr, off)
	fr.w = w
	return w, err
}

func c16CopyTree(src, dst string) {
	os.RemoveAll(dst)
	filepath.Walk(src, func(p string, info os.FileInfo, err error) error {
		if err != nil {
			return nil
		}
		rel, _ := filepath.Rel(src, p)
		if info.IsDir() {
			os.MkdirAll(filepath.Join(dst, rel), 0o777)
			return nil
		}
		if b, e := os.ReadFile(p); e == nil {
			os.WriteFile(filepath.Join(dst, rel), b, 0o666)
		}
		return nil
	})
}

// ---------------------------------------------------------------- one session on the server side

// metaSync rounds per session (the model's `fuel`)
const c16Fuel = 3

type c16Sess struct {
	mu       sync.Mutex
	rt       *c16LeaderRT
	round    c16Round
	cut      int
	rnd      *vfutil.Rand
	fch      Channel
	sent     []*pb.SyncResponse
	sentIn   []int // request each message was sent in
	rpc      int // requests seen
	runIds   int // RunIds reads of the current request
	chanIds  int // channel.RunId reads of the current request
	sentRPC  int
	firstRPC *pb.SyncResponse
	metas    int
	cutOn    bool // every further Send fails
	complete bool // … because everything the leader holds was delivered
	fuelHit  bool
	rpcErr   bool
	aofOn    bool
	aofStart int64
	aofBytes int64
	lright   int64
	tail     []byte
	contRPC  int  // CONTINUE messages sent in the current request
	faultRPC bool // a FAULT was sent in the current request
	errRPC   bool // an ERROR was sent in the current request after the stop / relabel
	relabel  bool // the leader's input relabelled the channel under the open stream reader (round.Relabel)
	inflight int  // requests being served
	reads    map[int][]int // per request: the sizes of the CONTINUE messages as sendData sent them (= its reads), before re-chunking
	readsAt  int   // … how many of them at the instant of the relabel
	relOff   int64 // … and the offset that request's stream reader was opened at
	xright   int64 // RelRead: where the old id's bytes end (lright is moved on to let an unrepaired leader's leak through)
	reqSeen  bool // a data request (run id given) was seen; the first one:
	reqId    string
	reqOff   int64
	stopped  bool // the leader was stopped (round.Stop) …
	stopRPC  int  // … during this request
	halts    map[int]*c16Halt // per request from the stop on: what still got out
	unquiet  bool // a quiescent cut could not be awaited within the limit
	quiesced bool // the session was ended by a cut made after the follower had stored every sent byte
	rdbLeft  int64  // bytes of the snapshot being sent that are still to come
	fstopFn  func() // round.FStop: calls the follower's own Stop()
	fstopped bool   // … it was called …
	fstopAt  int    // … when that many messages were out
	xfers    int    // data transfers announced in this session (META answers to data requests)
	w0       int    // writers the follower's channel had created when the session began
	unsynced bool   // round.FStop: the follower did not open the writer of the announced transfer within the limit
	vcrc     bool   // the leader's disk channel reads with verifyCrc on (3 of 4 sessions, by a hash of the round)
	vcrcAof, vcrcRdb, vcrcAofRefused, vcrcRdbRefused bool // … a verifying stream / snapshot reader was opened / refused (the plain one used)
}

func (ss *c16Sess) hook(point int) {
	ss.mu.Lock()
	n := ss.rpc - 1
	if point == 1 {
		// channel.RunId(): selfInspection's read is the first of a request; the later ones are
		// sendData's id check after every read of its loop — the leader's input acts there only
		// through round.Relabel
		ss.chanIds++
		if ss.chanIds > 1 {
			ss.mu.Unlock()
			return
		}
	}
	ss.mu.Unlock()
	ss.rt.moveTo(ss.round.view(n)[point])
}

// a quiescent cut: the transport fails only after the follower has persisted everything
// that was sent (explicit condition; the limit only bounds a hang and then the cut counts
// as abrupt)
func (ss *c16Sess) quiesce() {
	ss.mu.Lock()
	on, want := ss.round.Quiet && ss.aofOn && ss.aofBytes > 0 && ss.round.WFault == 0 && !ss.round.WRename && ss.round.WSync == 0, ss.aofStart+ss.aofBytes
	ss.mu.Unlock()
	if on {
		ok := c16Wait(func() bool { _, r := ss.fch.GetOffsetRange(ss.fch.RunId()); return r >= want }, c16Patience)
		ss.mu.Lock()
		if ok {
			ss.quiesced = true
		} else {
			ss.unquiet = true
		}
		ss.mu.Unlock()
	}
}

type c16Srv struct {
	pb.ApiService_SyncServer
	ss *c16Sess
}

func (w *c16Srv) push(m *pb.SyncResponse) error {
	ss := w.ss
	ss.mu.Lock()
	if ss.cutOn || len(ss.sent) >= ss.cut {
		ss.cutOn = true
		ss.mu.Unlock()
		ss.quiesce()
		return c16ErrCut
	}
	ss.sent = append(ss.sent, m)
	ss.sentIn = append(ss.sentIn, ss.rpc)
	if ss.sentRPC == 0 {
		ss.firstRPC = m
	}
	ss.sentRPC++
	if ss.aofOn && m.GetCode() == pb.SyncResponse_CONTINUE {
		ss.aofBytes += m.GetSize()
	}
	if m.GetCode() == pb.SyncResponse_META && m.GetMeta().GetAof() {
		ss.aofOn = true
		ss.aofStart, ss.aofBytes = m.GetOffset(), 0
	}
	if m.GetCode() == pb.SyncResponse_META && !m.GetMeta().GetAof() && m.GetMeta().GetRunId() == "" {
		ss.rdbLeft = m.GetSize()
	}
	if m.GetCode() == pb.SyncResponse_META && m.GetMeta().GetRunId() == "" && ss.sentRPC == 1 {
		ss.xfers++
	}
	if !ss.aofOn && m.GetCode() == pb.SyncResponse_CONTINUE {
		ss.rdbLeft -= m.GetSize()
	}
	stopNow, relabelNow, fstopNow := false, false, false
	switch m.GetCode() {
	case pb.SyncResponse_CONTINUE:
		ss.contRPC++
		if ss.round.Stop > 0 && !ss.stopped && ss.contRPC == ss.round.Stop {
			ss.stopped, ss.stopRPC, stopNow = true, ss.rpc, true
		}
		if ss.round.Relabel > 0 && !ss.stopped && ss.aofOn && ss.contRPC == ss.round.Relabel {
			ss.stopped, ss.stopRPC, relabelNow, ss.relabel = true, ss.rpc, true, true
			ss.readsAt, ss.relOff = len(ss.reads[ss.rpc]), ss.aofStart
		}
		if ss.round.FStop > 0 && !ss.fstopped && ss.fstopFn != nil && ss.contRPC == ss.round.FStop && (ss.aofOn || ss.rdbLeft > 0) {
			// the follower's own syncer is stopped now: nothing more is delivered
			ss.fstopped, ss.fstopAt, fstopNow, ss.cutOn = true, len(ss.sent), true, true
		}
	case pb.SyncResponse_FAULT:
		ss.faultRPC = true
	case pb.SyncResponse_ERROR:
		if ss.stopped {
			ss.errRPC = true
		}
	}
	if ss.stopped {
		if ss.halts == nil {
			ss.halts = map[int]*c16Halt{}
		}
		ss.halts[ss.rpc] = &c16Halt{K: ss.contRPC, Fault: ss.faultRPC, Err: ss.errRPC}
	}
	ss.mu.Unlock()
	if err := w.ApiService_SyncServer.Send(m); err != nil {
		return err
	}
	if stopNow {
		// the leader steps down / is stopped: runLeader closes the wait every handler runs under
		ss.rt.sy.wait.Close(nil)
	}
	if fstopNow {
		// the follower has read the announcement of this transfer and opened its writer (explicit
		// condition: from here on, what it has not read yet is lost like bytes in its pipe); with Quiet
		// it has stored every sent byte
		if fc, ok := ss.fch.(*c16FChan); ok {
			ss.mu.Lock()
			want := ss.w0 + ss.xfers
			ss.mu.Unlock()
			if !c16Wait(func() bool { return fc.writersMade() >= want }, c16Patience) {
				ss.mu.Lock()
				ss.unsynced = true
				ss.mu.Unlock()
			}
		}
		ss.quiesce()
		ss.fstopFn()
		return nil
	}
	if relabelNow {
		// the source failed over (+CONTINUE <new id> on the input's reconnect) while this handler's
		// stream reader is open: syncer/input.go's order — setRunIds, SetRunId, new writer, new bytes
		n := ss.rt.failover()
		ss.mu.Lock()
		ss.lright += n // an unrepaired leader would go on streaming the new master's bytes: let them through
		ss.mu.Unlock()
	}
	ss.mu.Lock()
	done := ss.aofOn && ss.aofStart+ss.aofBytes >= ss.lright
	if done {
		ss.cutOn, ss.complete = true, true
		ss.stopped = false // everything was out before the stop took effect
	}
	ss.mu.Unlock()
	if done {
		// nothing more will come: end the request like a transport failure would
		ss.quiesce()
		go ss.rt.sy.wait.Close(nil)
	}
	return nil
}

func (w *c16Srv) Send(r *pb.SyncResponse) error {
	ss := w.ss
	if r.GetCode() == pb.SyncResponse_META && r.GetMeta().GetAof() {
		// the leader's stream reader is open: its input goes on writing
		ss.mu.Lock()
		tail := ss.rt.ls[ss.rt.cur].Tail
		grown := ss.tail != nil
		if !grown {
			ss.tail = tail
			if ss.rt.ls[ss.rt.cur].D != nil {
				ss.lright = ss.rt.ls[ss.rt.cur].D.right() + int64(len(tail))
				if ss.round.RelRead && !ss.stopped {
					ss.xright = ss.lright
					ss.lright += 97
				}
			}
		}
		ss.mu.Unlock()
		if !grown && len(tail) > 0 {
			if err := ss.rt.appendW(tail); err != nil && ss.rt.err == nil {
				ss.rt.err = err
			}
		}
	}
	if r.GetCode() == pb.SyncResponse_CONTINUE {
		ss.mu.Lock()
		if ss.reads == nil {
			ss.reads = map[int][]int{}
		}
		ss.reads[ss.rpc] = append(ss.reads[ss.rpc], int(r.GetSize()))
		ss.mu.Unlock()
	}
	if ss.round.Split != 0 && r.GetCode() == pb.SyncResponse_CONTINUE && len(r.GetData()) > 1 {
		// what sendData emits had ioReader.Read returned smaller pieces
		data := r.GetData()
		start := r.GetOffset() - int64(len(data))
		for len(data) > 0 {
			ss.mu.Lock()
			k := -ss.round.Split // Split < 0: pieces of exactly that many bytes (the last one shorter)
			if ss.round.Split > 0 {
				k = 1 + ss.rnd.Intn(ss.round.Split)
			}
			ss.mu.Unlock()
			if k > len(data) {
				k = len(data)
			}
			start += int64(k)
			if err := w.push(&pb.SyncResponse{Code: pb.SyncResponse_CONTINUE, Offset: start, Size: int64(k), Data: data[:k]}); err != nil {
				return err
			}
			data = data[k:]
		}
		return nil
	}
	return w.push(r)
}

// the request as cmd/syncer_api.go routes it: ServiceReplica of the input's syncer
func (ss *c16Sess) serve(req *pb.SyncRequest, stream pb.ApiService_SyncServer) error {
	ss.mu.Lock()
	ss.rpc++
	ss.runIds, ss.chanIds, ss.sentRPC, ss.firstRPC, ss.aofOn = 0, 0, 0, nil, false
	ss.contRPC, ss.faultRPC, ss.errRPC = 0, false, false
	rid := req.GetNode().GetRunId()
	if rid != "" && rid != "?" {
		if !ss.reqSeen {
			ss.reqSeen, ss.reqId, ss.reqOff = true, rid, req.GetOffset()
		}
		ss.metas++
		if ss.metas > c16Fuel { // a leader that keeps answering with its snapshot: stop here
			ss.fuelHit, ss.cutOn = true, true
		}
	}
	if ss.cutOn || len(ss.sent) >= ss.cut {
		ss.cutOn = true
		ss.mu.Unlock()
		return c16ErrCut
	}
	ss.inflight++
	ss.mu.Unlock()
	ss.hook(0)
	err := ss.rt.sy.ServiceReplica(req, &c16Srv{stream, ss})
	ss.mu.Lock()
	ss.inflight--
	if err != nil && ss.sentRPC == 0 && !ss.cutOn {
		ss.rpcErr = true
	}
	ss.mu.Unlock()
	return err
}

// one gRPC server per worker; the current session answers
type c16Server struct {
	pb.UnimplementedApiServiceServer
	mu   sync.Mutex
	sess *c16Sess
	addr string
	gs   *grpc.Server
}

func (s *c16Server) Sync(req *pb.SyncRequest, stream pb.ApiService_SyncServer) error {
	s.mu.Lock()
	ss := s.sess
	s.mu.Unlock()
	if ss == nil {
		return errors.New("vf: no session")
	}
	return ss.serve(req, stream)
}

func c16NewServer() (*c16Server, error) {
	lis, err := net.Listen("tcp", "127.0.0.1:0")
	if err != nil {
		return nil, err
	}
	s := &c16Server{addr: lis.Addr().String(), gs: grpc.NewServer()}
	pb.RegisterApiServiceServer(s.gs, s)
	go s.gs.Serve(lis)
	return s, nil
}

// c16StartSession builds the real leader in state r.Ls[0] and installs it on the server.
func (x *c16Ctx) startSession(t *testing.T, srv *c16Server, bk string, logSize int64, fch Channel, r c16Round, rnd *vfutil.Rand) (*c16Sess, error) {
	rt := &c16LeaderRT{bk: bk, logSize: logSize, dir: t.TempDir(), ls: r.Ls}
	rt.lch = c16NewChannel(bk, rt.dir, logSize)
	l0 := r.Ls[0]
	if l0.Cur != "" {
		if err := rt.lch.SetRunId(l0.Cur); err != nil {
			return nil, err
		}
	}
	var err error
	if rt.closeW, rt.appendW, err = c16FillW(rt.lch, l0.D, l0.WOpen); err != nil {
		return nil, err
	}
	cut := r.Cut
	if cut < 0 {
		cut = 1 << 30
	}
	ss := &c16Sess{rt: rt, round: r, cut: cut, rnd: rnd, fch: fch, lright: -1, xright: -1}
	if bk == "d" {
		hv := uint64(logSize)
		for _, b := range []byte(r.String()) {
			hv = c16Mix(hv ^ uint64(b))
		}
		ss.vcrc = hv%4 != 0
	}
	if l0.D != nil {
		ss.lright = l0.D.right()
	}
	rt.input = &c16Input{ids: l0.Ids}
	rt.input.hook = func() {
		ss.mu.Lock()
		ss.runIds++
		k := ss.runIds
		ss.mu.Unlock()
		if k == 2 { // Handle's own read of the input ids
			ss.hook(2)
		}
	}
	rt.leader = NewReplicaLeader(rt.input, &c16LChan{Channel: rt.lch, hook: ss.hook, ss: ss})
	if l0.Started {
		rt.leader.Start()
	}
	rt.sy = &syncer{logger: log.WithLogger("[vf-syncer] "), wait: usync.NewWaitCloser(nil), leader: rt.leader,
		role: SyncerRoleFollower, state: SyncerStateRun}
	if l0.Serving {
		rt.sy.role = SyncerRoleLeader
	}
	srv.mu.Lock()
	srv.sess = ss
	srv.mu.Unlock()
	return ss, nil
}

func (ss *c16Sess) stop() {
	ss.mu.Lock()
	ss.cutOn = true
	ss.mu.Unlock()
	ss.rt.sy.wait.Close(nil)
	ss.rt.closeW()
	ss.rt.lch.Close()
	os.RemoveAll(ss.rt.dir)
}

// ---------------------------------------------------------------- the follower: the real Run

// Run pauses after every error (3 s; 2 s before it returns a role error; 1 s inside
// handleResp on CLEAR). The long pauses are where one session ends: the harness is
// told, looks at the cache, and lets Run go on (next session) or stops it.
type c16FWait struct {
	usync.WaitCloser
	pauses chan time.Duration
	resume chan struct{}
}

func (w *c16FWait) Sleep(d time.Duration) {
	if d < 2*time.Second {
		return
	}
	select {
	case w.pauses <- d:
	case <-w.Done():
		return
	}
	select {
	case <-w.resume:
	case <-w.Done():
	}
}

// the error Run logs before it pauses
type c16FLog struct {
	log.Logger
	mu   sync.Mutex
	last error
}

func (l *c16FLog) Errorf(format string, v ...interface{}) {
	if strings.HasPrefix(format, "RunFollower error") && len(v) == 2 {
		if e, ok := v[1].(error); ok {
			l.mu.Lock()
			l.last = e
			l.mu.Unlock()
		}
	}
}
func (l *c16FLog) Infof(format string, v ...interface{}) {}
func (l *c16FLog) take() error {
	l.mu.Lock()
	defer l.mu.Unlock()
	e := l.last
	l.last = nil
	return e
}

type c16Follower struct {
	rf   *ReplicaFollower
	w    *c16FWait
	lg   *c16FLog
	done chan error
}

func c16StartFollower(fch Channel, addr string) *c16Follower {
	rf := NewReplicaFollower(1, "vf-addr", fch, &cluster.RoleInfo{Address: addr})
	f := &c16Follower{rf: rf, done: make(chan error, 1)}
	f.w = &c16FWait{WaitCloser: rf.wait, pauses: make(chan time.Duration), resume: make(chan struct{})}
	f.lg = &c16FLog{Logger: rf.logger}
	rf.wait = f.w
	rf.logger = f.lg
	go func() { f.done <- rf.Run() }()
	return f
}

type c16Result struct {
	msgs     []*pb.SyncResponse
	stage    string
	cls      string
	cutModel int
	lost     int64
	chunks   []int64
	runEnded bool
}

func c16CodeName(c pb.SyncResponse_Code) string {
	switch c {
	case pb.SyncResponse_META:
		return "META"
	case pb.SyncResponse_CONTINUE:
		return "CONTINUE"
	case pb.SyncResponse_HANDOVER:
		return "HANDOVER"
	case pb.SyncResponse_CLEAR:
		return "CLEAR"
	case pb.SyncResponse_FAULT:
		return "FAULT"
	case pb.SyncResponse_ERROR:
		return "ERROR"
	case pb.SyncResponse_FAILURE:
		return "FAILURE"
	}
	return fmt.Sprintf("CODE%d", int(c))
}

func c16MsgLine(m *pb.SyncResponse) string {
	return fmt.Sprintf("m %s id=%s aof=%s off=%d size=%d data=%s", c16CodeName(m.GetCode()), c16Id(m.GetMeta().GetRunId()),
		c16B(m.GetMeta().GetAof()), m.GetOffset(), m.GetSize(), vfutil.Hex(m.GetData()))
}

// the messages the follower read: it reads one message of the handshake request and one
// of a request whose first answer is not META (the rest of such an answer is sent into
// a stream nobody reads)
func (ss *c16Sess) read() []*pb.SyncResponse {
	ss.mu.Lock()
	defer ss.mu.Unlock()
	var out []*pb.SyncResponse
	first := map[int]*pb.SyncResponse{}
	for i, m := range ss.sent {
		n := ss.sentIn[i]
		f, seen := first[n]
		if !seen {
			first[n] = m
			out = append(out, m)
			continue
		}
		if n == 1 || f.GetCode() != pb.SyncResponse_META || f.GetMeta().GetRunId() != "" {
			continue
		}
		out = append(out, m)
	}
	return out
}

// outcome of the session: what the follower's Run reported, placed by what the server saw
func (ss *c16Sess) outcome(ferr error) (stage, cls string) {
	ss.mu.Lock()
	defer ss.mu.Unlock()
	switch {
	case ss.rpc <= 1:
		stage = "hs"
	case ss.sentRPC == 0 || ss.firstRPC.GetCode() != pb.SyncResponse_META:
		stage = "meta"
	case ss.firstRPC.GetMeta().GetAof():
		stage = "aof"
	default:
		stage = "rdb"
	}
	msg := ""
	if ferr != nil {
		msg = ferr.Error()
	}
	switch {
	case ferr == nil:
		cls = "nil"
	case errors.Is(ferr, ErrLeaderTakeover):
		cls = "takeover"
	case strings.Contains(msg, "empty run id"):
		cls = "emptyid"
	case strings.Contains(msg, "discontinuous"):
		cls = "discont"
	case strings.Contains(msg, "code is failure"):
		cls = "failure"
	case strings.Contains(msg, "code is fault"):
		cls = "fault"
	case strings.Contains(msg, "code is error") && ss.firstRPC.GetCode() == pb.SyncResponse_CLEAR:
		cls = "clear"
	case strings.Contains(msg, "code is error"):
		cls = "error"
	case ss.fuelHit:
		cls = "fuel"
	case ss.cutOn:
		cls = "cut"
	case ss.rpcErr:
		cls = "rpcerr"
	case errors.Is(ferr, io.EOF):
		cls = "eof"
	default:
		cls = "other:" + msg
	}
	return
}

// c16Await waits for the end of the session the follower is in (Run pauses or returns)
func (f *c16Follower) await() (ended bool, runErr error, ok bool) {
	select {
	case <-f.w.pauses:
		return false, nil, true
	case e := <-f.done:
		return true, e, true
	case <-time.After(c16Patience):
		return false, nil, false
	}
}

func (f *c16Follower) stop() {
	f.rf.Stop()
	select {
	case <-f.done:
	case <-time.After(5 * time.Second):
	}
}

// ---------------------------------------------------------------- monitors

// every byte under `id` in the final store is a byte some state of the leader held
// under (id, offset), or was stored under (id, offset) before the session; same for snapshots
func c16CheckFaithful(before, after c16Store, ls []c16Leader) (string, string) {
	for _, e := range after.Dirs {
		if e.D == nil {
			continue
		}
		old, _ := before.get(e.Id)
		var lds []*c16Data
		for _, l := range ls {
			if l.Cur == e.Id && l.D != nil {
				lds = append(lds, l.grown())
			}
		}
		for i, b := range e.D.Bytes {
			o := e.D.Base + int64(i)
			ok := false
			for _, ld := range lds {
				if o >= ld.Base && o < ld.right() && ld.Bytes[o-ld.Base] == b {
					ok = true
				}
			}
			if old != nil && o >= old.Base && o < old.right() && old.Bytes[o-old.Base] == b {
				ok = true
			}
			if !ok {
				return "follower-bytes-differ", fmt.Sprintf("byte %#02x stored under (%s,%d) is neither the leader's byte there nor was it stored there before", b, e.Id, o)
			}
		}
		if e.D.HasSnap {
			ok := false
			for _, ld := range lds {
				if ld.HasSnap && ld.Base == e.D.Base && bytes.Equal(ld.Snap, e.D.Snap) {
					ok = true
				}
			}
			if old != nil && old.HasSnap && old.Base == e.D.Base && bytes.Equal(old.Snap, e.D.Snap) {
				ok = true
			}
			if !ok {
				return "follower-phantom-snapshot", fmt.Sprintf("snapshot (%d, %d bytes) under %s is neither the leader's snapshot nor was it stored before", e.D.Base, len(e.D.Snap), e.Id)
			}
		}
	}
	return "", ""
}

// ---------------------------------------------------------------- running a case

type c16Ctx struct {
	s *vfutil.Session
}

// observeImage re-opens the directory image of a killed follower with a fresh StoreChannel (on a
// copy) and returns what it serves for every run-id directory. One `reopen` op per directory
// ties Model/ReplicaReopen.lean `dataOfReopened` (over C08's `reopen`) to the real re-open.
func (x *c16Ctx) observeImage(t *testing.T, c c16Case, image string) (c16Store, bool) {
	var st c16Store
	ents, _ := os.ReadDir(image)
	for _, e := range ents {
		if !e.IsDir() {
			continue
		}
		id := e.Name()
		files, _ := os.ReadDir(filepath.Join(image, id))
		var parts []string
		for _, f := range files {
			b, err := os.ReadFile(filepath.Join(image, id, f.Name()))
			if err != nil {
				return st, false
			}
			parts = append(parts, f.Name()+"="+vfutil.Hex(b))
		}
		sort.Strings(parts)
		img := "."
		if len(parts) > 0 {
			img = strings.Join(parts, ",")
		}
		tmp := t.TempDir()
		c16CopyTree(filepath.Join(image, id), filepath.Join(tmp, id))
		ch := c16NewChannel("d", tmp, c.LogSize)
		ch.StartPoint([]string{id})
		cur, d, problems, _ := c16ObserveAPI(ch)
		ch.Close()
		os.RemoveAll(tmp)
		if cur != id {
			return st, false
		}
		x.s.Op("reopen "+img, "D "+d.String())
		x.s.Count("reopen_ops")
		if strings.Contains(img, ".rdb.tmp=") {
			x.s.Count("reopen_with_tmp_snapshot")
		}
		for _, p := range problems {
			x.s.Violate("reopened-not-readable", p, map[string]interface{}{"case": c.String(), "image": img, "id": id})
		}
		st.Dirs = append(st.Dirs, c16Entry{id, d})
	}
	sort.Slice(st.Dirs, func(i, j int) bool { return st.Dirs[i].Id < st.Dirs[j].Id })
	return st, true
}

// per round: the number of messages the follower read, and the payload of the FIRST transfer of
// the session (what the CONTINUE messages after the first data META carried)
type c16Ran struct {
	msgs    int
	payload int
	rdb     bool // … it was a snapshot
}

func (x *c16Ctx) runCase(t *testing.T, srv *c16Server, c c16Case, src string) (uncutMsgs []c16Ran) {
	s := x.s
	rnd := vfutil.NewRand(c.Seed)
	dir := t.TempDir()
	fch, err := c16BuildFollower(c.Bk, dir, c.LogSize, c.F)
	if err != nil {
		s.Count("skip_build_follower")
		t.Logf("c16: cannot build follower %s: %v", c.F.String(), err)
		return
	}
	fw := &c16FChan{Channel: fch, dir: dir}
	imageDir := filepath.Join(t.TempDir(), "img")
	var fol *c16Follower
	defer func() {
		if fol != nil {
			fol.stop()
		}
		fch.Close()
		os.RemoveAll(dir)
		os.RemoveAll(imageDir)
	}()
	crashCase := false
	for _, r := range c.Rounds {
		crashCase = crashCase || r.Crash > 0
	}
	before, problems, _ := c16Observe(c.Bk, fch, dir, crashCase)
	if len(problems) > 0 || before.String() != c.F.String() {
		// the constructed state is not the requested one: not a statement about the follower
		s.Count("skip_initial_state_differs")
		t.Logf("c16: initial state %s != %s %v", before.String(), c.F.String(), problems)
		return
	}
	for ri, r := range c.Rounds {
		restart := r.Restart
		if r.Crash > 0 && c.Bk == "d" {
			if _, frozen := fw.state(); frozen {
				// the follower process is killed: nothing it does while stopping counts — the
				// directory tree is the image frozen in the middle of the previous transfer; a new
				// process (new Storer, new Run) starts over it
				if fol != nil {
					fol.stop()
					fol = nil
				}
				fch.Close()
				os.RemoveAll(dir)
				c16CopyTree(imageDir, dir)
				fch = c16NewChannel(c.Bk, dir, c.LogSize)
				fw.Channel = fch
				var ok bool
				if before, ok = x.observeImage(t, c, imageDir); !ok {
					s.Count("skip_image_not_observable")
					return
				}
				s.Count("crash_restart")
			} else {
				s.Count("crash_point_not_reached") // the transfer was shorter: a clean restart
				restart = true
			}
		}
		if restart && c.Bk == "d" {
			if fol != nil {
				fol.stop()
				fol = nil
			}
			fch.Close()
			fch = c16NewChannel(c.Bk, dir, c.LogSize)
			fw.Channel = fch
			before.Cur = ""
		}
		freeze := 0
		if ri+1 < len(c.Rounds) && c.Bk == "d" {
			freeze = c.Rounds[ri+1].Crash
		}
		if c.Bk == "d" {
			fw.arm(r.WFault, r.WRename, r.WSync, freeze, imageDir)
		} else {
			fw.arm(0, false, 0, 0, "")
		}
		ss, err := x.startSession(t, srv, c.Bk, c.LogSize, fw, r, rnd)
		if err != nil {
			s.Count("skip_build_leader")
			t.Logf("c16: cannot build leader %s: %v", r.lsString(), err)
			return
		}
		ss.mu.Lock()
		ss.w0 = fw.writersMade()
		ss.mu.Unlock()
		if fol == nil {
			fol = c16StartFollower(fw, srv.addr) // the real Run, from state 1
		} else {
			fol.w.resume <- struct{}{} // Run goes on after its pause
		}
		if r.FStop > 0 {
			f := fol
			ss.mu.Lock()
			ss.fstopFn = func() { go f.rf.Stop() } // ReplicaFollower.Stop: wait closed, connection closed, waits for Run
			ss.mu.Unlock()
		}
		ended, runErr, ok := fol.await()
		ss.mu.Lock()
		fstopped := ss.fstopped
		ss.mu.Unlock()
		if fstopped && ok && !ended {
			// Run was on its way into a pause when its wait was closed: it returns at once
			select {
			case runErr = <-fol.done:
				ended = true
			case <-time.After(c16Patience):
				ok = false
			}
		}
		if c.Bk == "d" && (r.WFault > 0 || r.WRename || r.WSync > 0) {
			// the follower's store failed in the middle of a transfer and its Run has given up: let the
			// leader's handler finish what it was sending (the transport is not cut in these rounds), so
			// that the messages of the session do not depend on who was faster
			c16Wait(func() bool {
				ss.mu.Lock()
				defer ss.mu.Unlock()
				return ss.inflight == 0 || ss.complete || ss.cutOn
			}, 10*time.Second)
		}
		ferr := fol.lg.take()
		if ended && ferr == nil {
			ferr = runErr
		}
		var res c16Result
		res.stage, res.cls = ss.outcome(ferr)
		ss.mu.Lock()
		res.cutModel = ss.cut
		if ss.complete {
			res.cutModel = len(ss.sent)
		}
		if ss.fstopped {
			// the follower stopped itself: for the model the session is cut after what was out by then
			res.cutModel = ss.fstopAt
			if ended && runErr == nil {
				res.cls = "cut"
			} else if ended {
				res.cls = "other:stop:" + runErr.Error()
			}
			s.Count("follower_stopped_mid_transfer")
			if ss.aofOn {
				s.Count("follower_stopped_aof")
			} else {
				s.Count("follower_stopped_rdb")
			}
			if ss.quiesced {
				s.Count("follower_stopped_quiescent")
			}
		}
		aofOn, aofStart, aofBytes := ss.aofOn, ss.aofStart, ss.aofBytes
		ss.mu.Unlock()
		ss.stop()
		res.msgs = ss.read()
		if ss.unsynced {
			s.Count("skip_fstop_not_synced")
			return
		}
		if !ok || ss.rt.err != nil {
			s.Count("skip_session_stuck")
			t.Logf("c16: session did not end / leader transition failed (%v): %s", ss.rt.err, c.String())
			return
		}
		if !ended && ferr != nil && (errors.Is(ferr, ErrBreak) || errors.Is(ferr, ErrRole)) {
			// Run returns this error after its pause (the syncer would restart / change role)
			fol.w.resume <- struct{}{}
			select {
			case <-fol.done:
			case <-time.After(5 * time.Second):
			}
			ended = true
		}
		if ended {
			fol = nil // the next session needs a new Run
		}
		for _, m := range res.msgs {
			if m.GetCode() == pb.SyncResponse_CONTINUE {
				res.chunks = append(res.chunks, m.GetSize())
			}
		}
		if aofOn && res.stage == "aof" {
			_, right := fch.GetOffsetRange(fch.RunId())
			if want := aofStart + aofBytes; right >= aofStart && right <= want {
				res.lost = want - right
			} else if right < 0 && aofBytes > 0 {
				res.lost = aofBytes
			}
		}
		fired, _ := fw.state()
		if fired && (res.stage == "rdb" || res.stage == "aof") {
			// the follower's own store failed (the transport's end may win the race for the error Run
			// logs: the class is taken from the injection, the stage from what the server saw)
			res.cls = "wfail"
			res.lost = 0 // the model cuts what the writer was handed at the fault itself
		}
		after, problems, stalls := c16Observe(c.Bk, fch, dir, crashCase)
		if stalls > 0 {
			// the bytes are there, but a reader does not get past a segment boundary (C05's claim
			// "a reader keeps following"): counted, not a C16 verdict
			s.Add("reader_stall_at_boundary", stalls)
		}
		ran := c16Ran{msgs: len(res.msgs)}
		for metas, i := 0, 1; i < len(res.msgs) && metas < 2; i++ { // (res.msgs[0] answers the handshake)
			switch res.msgs[i].GetCode() {
			case pb.SyncResponse_META:
				metas++
				if metas == 1 {
					ran.rdb = !res.msgs[i].GetMeta().GetAof()
				}
			case pb.SyncResponse_CONTINUE:
				ran.payload += int(res.msgs[i].GetSize())
			}
		}
		uncutMsgs = append(uncutMsgs, ran)

		replay := map[string]interface{}{"case": c.String(), "round": ri, "leader": r.lsString(), "views": r.viewsString(),
			"follower_before": before.String(), "follower_after": after.String(), "backend": c.Bk}
		// ---- model op
		ch := "."
		if len(res.chunks) > 0 {
			p := make([]string, len(res.chunks))
			for i, n := range res.chunks {
				p[i] = strconv.FormatInt(n, 10)
			}
			ch = strings.Join(p, ",")
		}
		// the leader was stopped during a transfer: that request read a leader that halts (observed:
		// how many CONTINUE messages still got out, whether its handler answered FAULT)
		rm := r
		ss.mu.Lock()
		if ss.stopped {
			var views [][6]int
			for i := 0; i < ss.rpc; i++ {
				views = append(views, r.view(i))
			}
			rm.Ls = append([]c16Leader(nil), r.Ls...)
			fault := false
			for n := ss.stopRPC - 1; n < ss.rpc; n++ {
				h := ss.halts[n+1]
				if h == nil {
					h = &c16Halt{} // a request after the stop: nothing gets out any more
				}
				hl := r.Ls[views[n][5]]
				hl.Halt = h
				rm.Ls = append(rm.Ls, hl)
				views[n][5] = len(rm.Ls) - 1
				fault = fault || h.Fault
			}
			rm.Views = views
			if ss.relabel {
				s.Count("leader_relabelled_mid_transfer")
				if r.RelRead {
					s.Count("leader_relabelled_at_read")
				}
			} else {
				s.Count("leader_stopped_mid_transfer")
				if fault {
					s.Count("leader_stopped_fault")
				}
			}
		}
		unquiet, quiesced := ss.unquiet, ss.quiesced && !ss.stopped
		ss.mu.Unlock()
		loss := strconv.FormatInt(res.lost, 10)
		if c.Bk == "d" && r.WFault > 0 {
			loss += fmt.Sprintf("w%d", r.WFault)
		} else if c.Bk == "d" && r.WSync > 0 && res.stage == "rdb" {
			loss += fmt.Sprintf("w%d", r.WSync) // lost writes reported by the fsync: as if the write had failed there
		}
		if c.Bk == "d" && r.WRename {
			loss += "r"
		}
		reqSeen, reqId, reqOff := ss.reqSeen, ss.reqId, ss.reqOff
		op := fmt.Sprintf("sess %s %s %s %s %s %d %s %d", c.Bk, rm.lsString(), rm.viewsString(), before.String(), ch, res.cutModel, loss, c16Fuel)
		var out []string
		for _, m := range res.msgs {
			out = append(out, c16MsgLine(m))
		}
		out = append(out, "end "+res.stage+" "+res.cls, "F "+after.String())
		s.Op(op, out...)
		// what the channel API says about the copy held under the current id (writers closed, as at a
		// promotion) against C06's query formulas on Props/C16Promote.lean's cacheOfData
		if cur := after.Cur; cur != "" && len(problems) == 0 {
			fd, _ := after.get(cur)
			rl, rs := fch.GetRdb(cur)
			gl, gr := fch.GetOffsetRange(cur)
			sp, _ := fch.StartPoint(nil)
			s.Op(fmt.Sprintf("cache %s %s %s", c.Bk, c16Id(cur), fd.String()),
				fmt.Sprintf("rdb=%d,%d range=%d,%d latest=%d", rl, rs, gl, gr, sp.Offset))
			s.Count("cache_ops")
		}
		// the repaired send loop against Props/C16Reader.lean's LState.run over C05's memory model
		// (mem_checked_send_serves_own_id): the request during which the leader's input failed over
		ss.mu.Lock()
		if l0 := r.Ls[0]; c.Bk == "m" && ss.relabel && r.static() && l0.D != nil && ss.stopRPC > 0 {
			var sentB []byte
			sawErr := false
			for i, m := range ss.sent {
				if ss.sentIn[i] != ss.stopRPC {
					continue
				}
				switch m.GetCode() {
				case pb.SyncResponse_CONTINUE:
					sentB = append(sentB, m.GetData()[:m.GetSize()]...)
				case pb.SyncResponse_ERROR:
					sawErr = true
				}
			}
			reads := "."
			if k := ss.readsAt; k > 0 && k <= len(ss.reads[ss.stopRPC]) {
				p := make([]string, k)
				for i, n := range ss.reads[ss.stopRPC][:k] {
					p[i] = strconv.Itoa(n)
				}
				reads = strings.Join(p, ",")
			}
			other := "idC"
			if l0.Cur == "idC" {
				other = "idD"
			}
			g := l0.grown()
			s.Op(fmt.Sprintf("lsend %d %s %s %d %s %d %s %s", c.LogSize, l0.Cur, other, g.Base, vfutil.Hex(g.Bytes), ss.relOff, reads,
				vfutil.Hex(c16HistSeg(other, g.right(), g.right()+97))),
				fmt.Sprintf("sent=%s stopped=%s", vfutil.Hex(sentB), c16B(sawErr)))
			s.Count("lsend_ops")
		}
		ss.mu.Unlock()

		// ---- monitors
		for _, p := range problems {
			s.Violate("follower-not-contiguous", p, replay)
		}
		if what, detail := c16CheckFaithful(before, after, r.Ls); what != "" {
			s.Violate(what, detail, replay)
		}
		l0 := r.Ls[0]
		fd, _ := before.get(l0.Cur)
		sameId0 := l0.Serving && l0.Started && len(l0.Ids) > 0 && l0.Ids[0] == l0.Cur && fd != nil &&
			(c.Bk == "d" || before.Cur == l0.Cur)
		sameId := sameId0 && r.static()
		lr := int64(-1)
		if l0.D != nil {
			lr = l0.D.right()
		}
		if sameId && fd.right() > lr {
			s.Count("ahead")
			untouched := c16SameData(fd, func() *c16Data { d, _ := after.get(l0.Cur); return d }())
			if !untouched || (r.Cut != 0 && r.Cut != 1 && res.cls != "takeover") {
				s.Violate("ahead-not-handover", fmt.Sprintf("follower holds %s up to %d, leader up to %d: outcome %s/%s, follower now %s",
					l0.Cur, fd.right(), lr, res.stage, res.cls, after.String()), replay)
			}
		}
		// the follower never resumes beyond what it durably holds: its first data request of a
		// session asks for the end of its own copy of that id, or for the offset the leader announced
		if reqSeen && len(res.msgs) > 0 && res.msgs[0].GetCode() == pb.SyncResponse_META {
			own := int64(-1)
			if fd, ok := before.get(reqId); ok && fd != nil && (c.Bk == "d" || before.Cur == reqId) {
				own = fd.right()
			}
			if reqOff != own && reqOff != res.msgs[0].GetOffset() {
				s.Violate("resume-beyond-durable", fmt.Sprintf("first data request (%s, %d): the follower's copy of %s ends at %d, the leader announced %d",
					reqId, reqOff, reqId, own, res.msgs[0].GetOffset()), replay)
			}
			s.Count("mon_resume_offset")
		}
		if fired {
			s.Count("store_fault_fired")
			s.Count("store_fault_" + res.stage)
			if r.WRename {
				s.Count("store_fault_rename")
			}
			if r.WSync > 0 {
				s.Count("store_fault_fsync")
			}
		} else if r.WFault > 0 || r.WRename || r.WSync > 0 {
			s.Count("store_fault_not_reached")
		}
		if unquiet {
			s.Count("quiescent_cut_not_awaited") // counted as an abrupt cut
		} else if quiesced && res.lost != 0 && !fired {
			// the cut was made only after the follower's channel reported every sent byte as stored
			s.Violate("lost-bytes-when-quiescent", fmt.Sprintf("%d bytes the follower had already stored are gone after the cut", res.lost), replay)
		}
		if sameId0 && fd.right() > lr && res.cls == "clear" {
			s.Count("ahead_answered_clear") // the copy is deleted, see clear_deletes_any
		}
		if res.lost > 0 {
			s.Count("cut_lost_bytes")
		}
		// ---- coverage
		s.Count("sessions")
		if ss.vcrc {
			s.Count("leader_verifycrc")
		}
		// ---- configuration dimensions drawn (DIMENSION_AUDIT): one counter per option value
		s.Count("cfg_follower_backend_" + c.Bk)
		s.Count("cfg_leader_backend_" + c.Bk)
		s.Count(fmt.Sprintf("cfg_logsize_%d", c.LogSize))
		if c.Bk == "d" {
			s.Count("cfg_verifycrc_" + c16B(ss.vcrc))
		}
		ss.mu.Lock()
		for k, v := range map[string]bool{"cfg_verifycrc_stream_reader": ss.vcrcAof, "cfg_verifycrc_snapshot_reader": ss.vcrcRdb,
			"verifycrc_stream_refused": ss.vcrcAofRefused, "verifycrc_snapshot_refused": ss.vcrcRdbRefused} {
			if v {
				s.Count(k)
			}
		}
		ss.mu.Unlock()
		if src == "metacut" && ri == 0 && len(res.msgs) == 2 && res.msgs[1].GetCode() == pb.SyncResponse_META {
			s.Count("cut_after_meta_then_restart")
		}
		switch {
		case r.Split == 0:
			s.Count("cfg_chunk_as_read")
		case r.Split > 0:
			s.Count(fmt.Sprintf("cfg_chunk_upto_%d", r.Split))
		case int64(-r.Split) == c.LogSize:
			s.Count("cfg_chunk_exact_logsize")
		case int64(-r.Split) == c.LogSize+1:
			s.Count("cfg_chunk_exact_logsize_plus_1")
		case int64(-r.Split) == c.LogSize-16:
			s.Count("cfg_chunk_exact_segment_payload")
		default:
			s.Count("cfg_chunk_exact_other")
		}
		s.Count("bk_" + c.Bk)
		s.Count("src_" + src)
		s.Count("end_" + res.stage + "_" + res.cls)
		for _, m := range res.msgs {
			s.Count("msg_" + c16CodeName(m.GetCode()))
		}
		s.Count("rel_" + c16Relation(before, l0))
		if !r.static() {
			s.Count("dynamic_leader")
		}
		if len(res.chunks) > 1 {
			s.Distinct(fmt.Sprintf("%s|%s|%s|%d|%s|%v", c.Bk, c16Relation(before, l0), res.stage+res.cls, len(res.msgs), c16Shape(l0), r.static()))
		}
		before = after
	}
	return
}

// the plain route of cmd/syncer_api.go: every request of every follower goes to the one syncer's ServiceReplica
type c16PlainSrv struct {
	pb.UnimplementedApiServiceServer
	sy *syncer
}

func (p *c16PlainSrv) Sync(req *pb.SyncRequest, stream pb.ApiService_SyncServer) error {
	return p.sy.ServiceReplica(req, stream)
}

// twoFollowers: one real leader (disk with verifyCrc readers, small LogSize, small MaxSize and collector passes; or
// memory), TWO real followers (one disk, one memory; one starting empty, one holding a prefix) running at the same
// time while the leader's input goes on appending. No model op: monitors only — whatever each follower holds under
// the id is the history's bytes at those offsets, and both reach the leader's end.
func (x *c16Ctx) twoFollowers(t *testing.T, r *vfutil.Rand, i int) {
	s := x.s
	bk := []string{"d", "m"}[i%2]
	logSize := int64(vfutil.Pick(r, []int{40, 64, 200}))
	base := int64(r.Range(100, 4000))
	n0, n1, n2 := int64(r.Range(300, 1500)), int64(r.Range(200, 1200)), int64(r.Range(200, 1200))
	id := "idA"
	replay := map[string]interface{}{"case": fmt.Sprintf("two-followers bk=%s logsize=%d base=%d n=%d+%d+%d", bk, logSize, base, n0, n1, n2)}
	ldir := t.TempDir()
	var lch Channel
	small := false
	if bk == "d" {
		small = i%4 == 0 || r.Bool() // (forced for the first disk leader of a run)
		max := int64(1 << 40)
		if small {
			max = 6 * logSize // the collector keeps about six segments: a follower that lags is cut off
		}
		lch = NewStoreChannel(StorerConf{InputId: "vf", Dir: ldir, MaxSize: max, LogSize: logSize})
	} else {
		lch = c16NewChannel(bk, ldir, logSize)
	}
	defer lch.Close()
	if err := lch.SetRunId(id); err != nil {
		s.Count("skip_two_followers")
		return
	}
	closeW, appendW, err := c16FillW(lch, c16MkData(id, base, base+n0, false), true)
	if err != nil {
		s.Count("skip_two_followers")
		return
	}
	defer closeW()
	input := &c16Input{ids: []string{id}}
	lss := &c16Sess{vcrc: bk == "d"}
	leader := NewReplicaLeader(input, &c16LChan{Channel: lch, hook: func(int) {}, ss: lss})
	leader.Start()
	sy := &syncer{logger: log.WithLogger("[vf-syncer2] "), wait: usync.NewWaitCloser(nil), leader: leader, role: SyncerRoleLeader, state: SyncerStateRun}
	lis, err := net.Listen("tcp", "127.0.0.1:0")
	if err != nil {
		s.Count("skip_two_followers")
		return
	}
	gs := grpc.NewServer()
	pb.RegisterApiServiceServer(gs, &c16PlainSrv{sy: sy})
	go gs.Serve(lis)
	defer gs.Stop()
	defer sy.wait.Close(nil)

	type fol struct {
		bk  string
		dir string
		ch  Channel
		f   *c16Follower
	}
	var fs []*fol
	for k, fbk := range []string{"d", "m"} {
		st := c16Store{}
		if k == i%2 { // one of the two already holds a prefix
			st = c16Store{Cur: id, Dirs: []c16Entry{{id, c16MkData(id, base, base+int64(r.Range(1, int(n0))), false)}}}
		}
		dir := t.TempDir()
		ch, err := c16BuildFollower(fbk, dir, logSize, st)
		if err != nil {
			s.Count("skip_two_followers")
			return
		}
		defer ch.Close()
		fs = append(fs, &fol{bk: fbk, dir: dir, ch: ch})
	}
	for _, f := range fs {
		f.f = c16StartFollower(f.ch, lis.Addr().String())
	}
	// Run pauses after an error (a follower cut off by the collector starts over): let it go on at once
	stopPump := make(chan struct{})
	for _, f := range fs {
		go func(f *c16Follower) {
			for {
				select {
				case <-f.w.pauses:
					select {
					case f.w.resume <- struct{}{}:
					case <-stopPump:
						return
					}
				case <-stopPump:
					return
				}
			}
		}(f.f)
	}
	reached := func(right int64) bool {
		return c16Wait(func() bool {
			for _, f := range fs {
				if _, rr := f.ch.GetOffsetRange(id); rr < right {
					return false
				}
			}
			return true
		}, c16Patience)
	}
	gc := func() {
		if sc, ok := lch.(*StoreChannel); ok && small {
			sc.storer.VerifGcLog()
			s.Count("leader_collector_pass_during_transfer")
		}
	}
	right := base + n0
	ok := true
	for _, more := range []int64{n1, n2} { // the input appends in pieces while both handlers tail; the collector runs in between
		for off := int64(0); off < more; {
			k := int64(r.Range(1, int(2*logSize)))
			if off+k > more {
				k = more - off
			}
			if err := appendW(c16HistSeg(id, right+off, right+off+k)); err != nil {
				s.Count("skip_two_followers")
				ok = false
				break
			}
			off += k
			if r.Chance(1, 3) {
				gc()
			}
		}
		if !ok {
			break
		}
		right += more
		gc()
		if !reached(right) {
			ok = false
			s.Count("skip_two_followers_not_reached") // infrastructure limit: not a verdict
			break
		}
	}
	close(stopPump)
	for _, f := range fs {
		f.f.stop()
	}
	if !ok {
		return
	}
	for _, f := range fs {
		st, problems, _ := c16Observe(f.bk, f.ch, f.dir, false)
		for _, p := range problems {
			s.Violate("follower-not-contiguous", "two followers: "+p, replay)
		}
		d, _ := st.get(id)
		if d == nil || d.right() != right {
			s.Violate("two-followers-not-at-leader-end", fmt.Sprintf("follower(%s) holds %v, the leader's end is %d", f.bk, d, right), replay)
			continue
		}
		if want := c16HistSeg(id, d.Base, d.right()); !bytes.Equal(d.Bytes, want) {
			s.Violate("follower-bytes-differ", fmt.Sprintf("two followers: follower(%s) [%d,%d) differs from the history", f.bk, d.Base, d.right()), replay)
		}
		for _, e := range st.Dirs {
			if e.Id != id && e.D != nil {
				s.Violate("follower-bytes-differ", fmt.Sprintf("two followers: follower(%s) holds data under another id %s", f.bk, e.Id), replay)
			}
		}
	}
	s.Count("two_followers_runs")
	s.Count("cfg_two_followers_leader_" + bk)
	if small {
		s.Count("cfg_leader_maxsize_small")
	}
}

func c16Shape(l c16Leader) string {
	if l.D == nil {
		return "empty"
	}
	s := ""
	if l.D.HasSnap {
		s += "snap"
	}
	if len(l.D.Bytes) > 0 {
		s += "aof"
	}
	if l.WOpen {
		s += "+w"
	}
	return s
}

// relation of the follower's cache to the leader's (coverage classes)
func c16Relation(f c16Store, l c16Leader) string {
	fd, has := f.get(l.Cur)
	if f.Cur != "" && f.Cur != l.Cur {
		od, _ := f.get(f.Cur)
		switch {
		case od == nil:
			return "otherid-empty"
		case has && fd != nil:
			return "otherid+own"
		case l.D == nil:
			return "otherid-leader-empty"
		case od.right() > l.D.right():
			return "otherid-above"
		case od.right() >= l.D.Base:
			return "otherid-within"
		default:
			return "otherid-below"
		}
	}
	if fd == nil {
		if len(f.Dirs) > 0 && !has {
			return "stale-dirs-only"
		}
		return "empty"
	}
	if l.D == nil {
		return "leader-empty"
	}
	switch {
	case fd.right() > l.D.right():
		return "ahead"
	case fd.right() == l.D.right():
		return "equal"
	case l.D.right()-fd.right() > 10*1024*1024:
		return "far-behind"
	case fd.right() < l.D.Base:
		if l.D.HasSnap {
			return "collected-snap"
		}
		return "collected"
	default:
		return "prefix"
	}
}

// ---------------------------------------------------------------- generators

func c16GenLeader(r *vfutil.Rand, id string) c16Leader {
	l := c16Leader{Serving: true, Started: true, Ids: []string{id}, Cur: id, WOpen: true}
	base := int64(r.Range(1, 3000))
	if r.Chance(1, 4) {
		base = int64(r.Range(4, 400)) * 5 // large snapshot (several 4 KiB reads)
	}
	n := int64(r.Range(0, 300))
	if r.Chance(1, 8) {
		n = int64(r.Range(4000, 12000))
	}
	switch r.Intn(10) {
	case 0: // nothing yet
		l.D = nil
		l.WOpen = r.Bool()
	case 1, 2: // snapshot only
		l.D = c16MkData(id, base, base, true)
	case 3, 4, 5: // snapshot + stream
		l.D = c16MkData(id, base, base+n, true)
	default: // stream only (snapshot collected)
		if n == 0 {
			n = 1
		}
		l.D = c16MkData(id, base, base+n, false)
	}
	if l.D != nil && r.Chance(1, 6) {
		l.WOpen = false
	}
	if l.D == nil && l.WOpen {
		l.D = &c16Data{Base: base}
	}
	if l.D != nil && l.WOpen && r.Chance(1, 2) { // a live leader: more stream arrives during the session
		l.Tail = c16HistSeg(id, l.D.right(), l.D.right()+int64(r.Range(1, 200)))
	}
	switch r.Intn(26) {
	case 25:
		l.Serving = false // the syncer is not (yet / any more) leader: ServiceReplica answers FAILURE
	case 0:
		l.Started = false
	case 1:
		l.Ids = nil
	case 2:
		l.Ids = []string{"idD", id} // the input already follows a newer id: "wait a moment"
	case 3, 4:
		l.Ids = []string{id, "idD"}
	}
	return l
}

func c16GenFollowerData(r *vfutil.Rand, id string, l c16Leader, rel int) *c16Data {
	lb, lr := int64(1000), int64(1000)
	if l.D != nil {
		lb, lr = l.D.Base, l.D.right()
	}
	pos := func(x int64) int64 {
		if x < 0 {
			return 0
		}
		return x
	}
	switch rel {
	case 0: // prefix: ends inside the leader's range
		fr := lb + int64(r.Intn(int(lr-lb)+1))
		fb := pos(fr - int64(r.Range(0, 200)))
		return c16MkData(id, fb, fr, r.Chance(1, 4))
	case 1: // equal
		fb := pos(lr - int64(r.Range(0, 200)))
		return c16MkData(id, fb, lr, r.Chance(1, 4))
	case 2: // ahead
		fr := lr + int64(r.Range(1, 300))
		fb := pos(fr - int64(r.Range(1, 400)))
		return c16MkData(id, fb, fr, r.Chance(1, 4))
	case 3: // already collected at the leader
		fr := pos(lb - int64(r.Range(1, 300)))
		fb := pos(fr - int64(r.Range(0, 200)))
		return c16MkData(id, fb, fr, r.Chance(1, 4))
	case 5: // ahead by one or two bytes
		fr := lr + int64(r.Range(1, 2))
		fb := pos(fr - int64(r.Range(1, 100)))
		return c16MkData(id, fb, fr, false)
	case 6: // ends right at the leader's first offset (one before, at, one after)
		fr := pos(lb + int64(r.Range(-1, 1)))
		fb := pos(fr - int64(r.Range(1, 100)))
		return c16MkData(id, fb, fr, r.Chance(1, 4))
	case 7: // the leader is 10 MiB - 1, 10 MiB, 10 MiB + 1 ahead (preSync's threshold)
		fr := pos(lr - 10*1024*1024 - int64(r.Range(-1, 1)))
		fb := pos(fr - int64(r.Range(1, 100)))
		return c16MkData(id, fb, fr, false)
	default: // anywhere around
		fb := pos(lb + int64(r.Range(-300, 300)))
		return c16MkData(id, fb, fb+int64(r.Range(0, 400)), r.Chance(1, 3))
	}
}

func c16GenCase(r *vfutil.Rand) c16Case {
	c := c16Case{Bk: "d", Seed: r.U64() >> 1}
	if r.Bool() {
		c.Bk = "m"
	}
	c.LogSize = int64(vfutil.Pick(r, []int{40, 64, 200, 1 << 20}))
	lid := "idA"
	l := c16GenLeader(r, lid)
	// follower
	var f c16Store
	k := r.Intn(12)
	switch {
	case k == 0: // nothing at all
	case k == 1: // empty directory / id adopted but no data
		f.Cur = lid
		f.Dirs = []c16Entry{{lid, nil}}
	case k <= 6: // same id
		if r.Chance(1, 6) && l.D != nil { // offsets large enough for the 10 MiB boundary
			sh := int64(11 * 1024 * 1024)
			l.D = c16MkData(lid, l.D.Base+sh, l.D.right()+sh, l.D.HasSnap)
			if len(l.Tail) > 0 {
				l.Tail = c16HistSeg(lid, l.D.right(), l.D.right()+int64(len(l.Tail)))
			}
		}
		d := c16GenFollowerData(r, lid, l, r.Intn(9))
		if len(d.Bytes) == 0 && !d.HasSnap {
			d = nil
		}
		f.Cur = lid
		f.Dirs = []c16Entry{{lid, d}}
	case k <= 9: // another id, current (the process was following the old id)
		d := c16GenFollowerData(r, "idB", l, r.Intn(5))
		if len(d.Bytes) == 0 && !d.HasSnap {
			d.Bytes = c16HistSeg("idB", d.Base, d.Base+7)
		}
		f.Cur = "idB"
		f.Dirs = []c16Entry{{"idB", d}}
	default: // disk: directories of both ids
		d1 := c16GenFollowerData(r, "idB", l, r.Intn(5))
		if len(d1.Bytes) == 0 && !d1.HasSnap {
			d1.Bytes = c16HistSeg("idB", d1.Base, d1.Base+5)
		}
		d2 := c16GenFollowerData(r, lid, l, r.Intn(5))
		if len(d2.Bytes) == 0 && !d2.HasSnap {
			d2 = nil
		}
		f.Cur = vfutil.Pick(r, []string{"idB", lid, ""})
		f.Dirs = []c16Entry{{lid, d2}, {"idB", d1}}
		if c.Bk == "m" {
			f.Cur = "idB"
			f.Dirs = f.Dirs[1:]
		}
	}
	if c.Bk == "d" && r.Chance(1, 6) {
		f.Cur = "" // fresh process over an existing directory tree
	}
	if c.Bk == "m" { // the memory backend has no directories: an id without data is just the id
		if f.Cur == "" {
			f.Dirs = nil
		}
		var keep []c16Entry
		for _, e := range f.Dirs {
			if e.D != nil {
				keep = append(keep, e)
			}
		}
		f.Dirs = keep
	}
	sort.Slice(f.Dirs, func(i, j int) bool { return f.Dirs[i].Id < f.Dirs[j].Id })
	c.F = f
	if r.Chance(1, 10) && l.D != nil { // the leader is more than 10 MiB ahead of anything the follower holds
		sh := int64(11 * 1024 * 1024)
		l.D = c16MkData(lid, l.D.Base+sh, l.D.right()+sh, l.D.HasSnap)
		if len(l.Tail) > 0 {
			l.Tail = c16HistSeg(lid, l.D.right(), l.D.right()+int64(len(l.Tail)))
		}
	}
	rd := c16Round{Ls: []c16Leader{l}, Cut: -1, Quiet: true}
	if r.Chance(1, 3) {
		rd.Split = vfutil.Pick(r, []int{1, 3, 17, 100})
	}
	c.Rounds = []c16Round{rd}
	return c
}

// a later state of the same leader: more stream, possibly an older part collected,
// a new snapshot, or another run id (fail-over / full resynchronisation at the source)
func c16Evolve(r *vfutil.Rand, l c16Leader) c16Leader {
	n := l
	if l.D == nil {
		return c16GenLeader(r, l.Cur)
	}
	id := l.Cur
	base, right, snap := l.D.Base, l.D.right(), l.D.HasSnap
	switch r.Intn(6) {
	case 0, 1: // grows
		right += int64(r.Range(1, 200))
	case 2: // grows, old part collected
		right += int64(r.Range(1, 200))
		base += int64(r.Intn(int(right-base) + 1))
		snap = false
	case 3: // new snapshot further on
		base = right + int64(r.Range(0, 100))
		right = base + int64(r.Range(0, 100))
		snap = true
	case 4: // the source now has another run id
		id = "idC"
		if l.Cur == "idC" {
			id = "idA"
		}
		if r.Bool() {
			base = int64(r.Range(1, 3000))
			right = base + int64(r.Range(0, 300))
			snap = r.Bool()
		}
		if right == base && !snap {
			right++
		}
	default: // unchanged
	}
	n.Cur = id
	n.Ids = []string{id}
	if id != l.Cur && r.Bool() {
		n.Ids = []string{id, l.Cur}
	}
	n.Serving = true
	n.Started = true
	n.WOpen = true
	n.D = c16MkData(id, base, right, snap)
	n.Tail = nil
	if r.Chance(1, 3) {
		n.Tail = c16HistSeg(id, right, right+int64(r.Range(1, 100)))
	}
	return n
}

// what the leader's own input does while followers are being served (syncer/input.go):
// the states it passes through, and the read of which request sees which
func c16GenDyn(r *vfutil.Rand, l0 c16Leader) ([]c16Leader, [][6]int) {
	seq := []c16Leader{l0}
	other := "idC"
	if l0.Cur == "idC" {
		other = "idA"
	}
	kind := r.Intn(4)
	if l0.D == nil || l0.Cur == "" {
		kind = 1
	}
	switch kind {
	case 0: // PSYNC2 fail-over: ids first, then the cache is relabelled, then the new master's stream
		s1 := l0
		s1.Tail = nil
		s1.Ids = []string{other, l0.Cur}
		s2 := s1
		s2.Cur = other
		s3 := s2
		d := *l0.D
		d.Bytes = append(append([]byte(nil), l0.D.Bytes...), c16HistSeg(other, l0.D.right(), l0.D.right()+int64(r.Range(1, 120)))...)
		s3.D = &d
		s2.WOpen, s3.WOpen = true, true
		seq = append(seq, s1, s2, s3)
	case 1: // full resynchronisation under a new id: setRunIds, DelRunId, SetRunId, snapshot + stream
		s1 := l0
		s1.Tail = nil
		s1.Ids = []string{other}
		s2 := c16Leader{Serving: l0.Serving, Started: l0.Started, Ids: []string{other}}
		s3 := s2
		s3.Cur = other
		s4 := s3
		base := int64(r.Range(1, 3000))
		if l0.D != nil && r.Bool() { // overlapping offsets: the stale offset of the old id is valid in the new one
			base = l0.D.Base + int64(r.Range(-50, 50))
			if base < 1 {
				base = 1
			}
		}
		s4.D = c16MkData(other, base, base+int64(r.Range(0, 300)), true)
		s4.WOpen = true
		seq = append(seq, s1, s2, s3, s4)
	default: // same id: grows / collects / takes a new snapshot
		s1 := c16Evolve(r, l0)
		for s1.Cur != l0.Cur {
			s1 = c16Evolve(r, l0)
		}
		s1.Serving, s1.Tail = l0.Serving, nil
		seq = append(seq, s1)
	}
	m := len(seq) - 1
	n := r.Intn(3)       // the request during which the input acts
	k := r.Intn(6)       // … before which of its reads
	j := 1 + r.Intn(m)   // … how far it gets there
	if r.Chance(1, 4) {
		// the whole switch lands inside a data request between Handle's read of the input ids and
		// StartPoint(nil): the request passed the id check, the channel position is the new id's
		n, k, j = 1, 3, m
		if last := &seq[m]; last.D != nil && last.WOpen && len(last.Tail) == 0 {
			last.Tail = c16HistSeg(last.Cur, last.D.right(), last.D.right()+int64(r.Range(1, 60)))
		}
	}
	var views [][6]int
	for i := 0; i < n; i++ {
		views = append(views, [6]int{})
	}
	var v [6]int
	for p := k; p < 6; p++ {
		v[p] = j
	}
	views = append(views, v, [6]int{m, m, m, m, m, m})
	return seq, views
}

// ---------------------------------------------------------------- the test

func TestVerifC16(t *testing.T) {
	config.GetSyncerConfig().Channel = &config.ChannelConfig{}
	s := vfutil.NewSession("C16")
	defer s.Close()
	x := &c16Ctx{s: s}
	r := vfutil.NewRand(c16Mix(vfutil.Seed())) // (NewRand(s) and NewRand(s+1) are the same stream shifted by one)
	srv0, err := c16NewServer()
	if err != nil {
		t.Fatal(err)
	}
	defer srv0.gs.Stop()

	if rp := os.Getenv("VERIF_REPLAY"); rp != "" {
		if b, err := os.ReadFile(rp); err == nil {
			if i := strings.Index(string(b), `"case": "`); i >= 0 {
				line := string(b)[i+9:]
				line = line[:strings.Index(line, `"`)]
				if c, err := c16ParseCase(line); err == nil {
					x.runCase(t, srv0, c, "replay")
				}
			}
		}
	}
	for _, line := range vfutil.Corpus("C16") {
		c, err := c16ParseCase(line)
		if err != nil {
			s.Violate("bad-corpus-line", err.Error(), map[string]interface{}{"line": line})
			continue
		}
		x.runCase(t, srv0, c, "corpus")
	}

	pairs := vfutil.Scale(70, 2500)
	maxCuts := vfutil.Scale(6, 40)
	// every family (one generated pair + its cuts + later / changing leader states) draws
	// from its own fork of the seed; families run concurrently, one gRPC server each
	type job struct {
		c c16Case
		r *vfutil.Rand
	}
	jobs := make(chan job)
	var wg sync.WaitGroup
	for w := 0; w < 12; w++ {
		srv, err := c16NewServer()
		if err != nil {
			t.Fatal(err)
		}
		defer srv.gs.Stop()
		wg.Add(1)
		go func() {
			defer wg.Done()
			for j := range jobs {
				x.family(t, srv, j.c, j.r, maxCuts)
			}
		}()
	}
	for i := 0; i < pairs; i++ {
		fr := r.Fork()
		jobs <- job{c16GenCase(fr), fr}
	}
	close(jobs)
	wg.Wait()

	// transfers larger than the follower's pipe (512 KiB stream) cut abruptly in the middle,
	// then continued: whatever was in flight is lost, never misplaced
	for i := 0; i < vfutil.Scale(2, 6); i++ {
		fr := r.Fork()
		c := c16Case{Bk: []string{"d", "m"}[i%2], LogSize: 1 << 20, Seed: fr.U64() >> 1}
		base := int64(fr.Range(1, 5000))
		right := base + int64(fr.Range(1100, 1500))*1024
		l := c16Leader{Serving: true, Started: true, Ids: []string{"idA"}, Cur: "idA", WOpen: true, D: c16MkData("idA", base, right, false)}
		if fr.Bool() {
			c.F = c16Store{Cur: "idA", Dirs: []c16Entry{{"idA", c16MkData("idA", base, base+int64(fr.Range(1, 3000)), false)}}}
		}
		c.Rounds = []c16Round{
			{Ls: []c16Leader{l}, Cut: fr.Range(150, 250), Quiet: false},
			{Ls: []c16Leader{l}, Cut: -1, Quiet: true},
		}
		x.runCase(t, srv0, c, "big")
		s.Count("big_transfer")
	}

	// two followers at once on ONE leader (one handler goroutine each over the same channel, the same process-global
	// metric vectors), the leader's input appending and rotating meanwhile, its collector running (small MaxSize)
	for i := 0; i < vfutil.Scale(3, 12); i++ {
		x.twoFollowers(t, r.Fork(), i)
	}

	// infrastructure / coverage conditions are not verdicts about the property: too many cases
	// that could not be built fail the harness (the check reports a broken tie), classes
	// that did not occur are evidence counters
	skips := 0
	for k, v := range s.Stats {
		if strings.HasPrefix(k, "skip_") {
			skips += v
		}
	}
	if skips*50 > s.Stats["sessions"] {
		t.Errorf("c16 harness: %d cases could not be built or did not end (sessions run: %d): %v", skips, s.Stats["sessions"], s.Stats)
	}
	for _, k := range []string{"rel_prefix", "rel_equal", "rel_ahead", "rel_collected", "rel_collected-snap", "rel_far-behind", "rel_otherid-within",
		"rel_leader-empty", "dynamic_leader", "end_meta_takeover", "end_meta_error", "end_rdb_cut", "end_aof_cut", "end_aof_eof", "end_rdb_eof",
		"msg_CLEAR", "msg_FAILURE", "msg_FAULT", "ahead_answered_clear", "big_transfer", "leader_relabelled_mid_transfer",
		"store_fault_rdb", "store_fault_aof", "store_fault_rename", "crash_restart", "reopen_with_tmp_snapshot", "end_rdb_wfail", "end_aof_wfail",
		"follower_stopped_aof", "follower_stopped_rdb", "follower_stopped_quiescent",
		"cfg_verifycrc_1", "cfg_verifycrc_0", "cfg_verifycrc_stream_reader", "cfg_verifycrc_snapshot_reader", "cfg_chunk_exact_logsize",
		"cfg_chunk_exact_logsize_plus_1", "cfg_chunk_exact_segment_payload", "cut_after_meta_then_restart", "two_followers_runs",
		"leader_collector_pass_during_transfer", "cfg_leader_maxsize_small"} {
		if s.Stats[k] == 0 {
			s.Count("class_not_generated_" + k)
			s.Stats["class_not_generated_"+k] = 1
			t.Logf("c16 harness: no session of class %s in this run", k)
		}
	}
}

func (x *c16Ctx) family(t *testing.T, srv *c16Server, c c16Case, r *vfutil.Rand, maxCuts int) {
	ms := x.runCase(t, srv, c, "gen")
	if len(ms) == 0 {
		return
	}
	m, pay0, rdb0 := ms[0].msgs, ms[0].payload, ms[0].rdb
	// cut after every message (all of them when few, a sample otherwise)
	var cuts []int
	for k := 0; k < m; k++ {
		cuts = append(cuts, k)
	}
	for len(cuts) > maxCuts {
		j := r.Intn(len(cuts))
		cuts = append(cuts[:j], cuts[j+1:]...)
	}
	for _, k := range cuts {
		cc := c
		r0 := c.Rounds[0]
		r0.Cut = k
		r0.Quiet = !r.Chance(1, 4)
		cc.Rounds = []c16Round{r0}
		// … and resynchronise afterwards (the same Run goes on) against a later state of the leader
		if r.Chance(1, 2) {
			l2 := c16Evolve(r, r0.Ls[0])
			r1 := c16Round{Ls: []c16Leader{l2}, Cut: -1, Quiet: true, Restart: r.Chance(1, 5)}
			if r.Chance(1, 3) {
				r1.Cut = r.Intn(6)
			}
			if r.Chance(1, 4) {
				r1.Split = vfutil.Pick(r, []int{2, 50})
			}
			if r.Chance(1, 4) {
				r1.Ls, r1.Views = c16GenDyn(r, l2)
			}
			cc.Rounds = append(cc.Rounds, r1)
			if r.Chance(1, 3) {
				cc.Rounds = append(cc.Rounds, c16Round{Ls: []c16Leader{c16Evolve(r, l2)}, Cut: -1, Quiet: true})
			}
		}
		x.runCase(t, srv, cc, "cut")
	}
	// the leader is stopped / steps down in the middle of a transfer (runLeader closes the wait
	// of every running handler: clean end of stream, or FAULT when its reader is closed first)
	for i := 0; i < 2; i++ {
		cc := c
		r0 := c.Rounds[0]
		r0.Cut, r0.Quiet = -1, true
		r0.Stop = 1 + r.Intn(4)
		r0.Split = vfutil.Pick(r, []int{1, 2, 7, 40})
		cc.Rounds = []c16Round{r0}
		if r.Chance(1, 2) { // … and the follower goes on with the next leader
			cc.Rounds = append(cc.Rounds, c16Round{Ls: []c16Leader{c16Evolve(r, r0.Ls[0])}, Cut: -1, Quiet: true})
		}
		x.runCase(t, srv, cc, "stop")
	}
	// forced (not left to chance): CONTINUE pieces of EXACTLY LogSize, LogSize+1 and LogSize-16 bytes (a piece that
	// fills the follower's segment to its limit / one byte over / exactly the payload a segment takes before it
	// rotates), and a follower process that is restarted between the announcement (META) and the first chunk
	if c.LogSize <= 200 {
		cc := c
		r0 := c.Rounds[0]
		r0.Cut, r0.Quiet = -1, true
		r0.Split = -int(vfutil.Pick(r, []int64{c.LogSize, c.LogSize + 1, c.LogSize - 16}))
		cc.Rounds = []c16Round{r0}
		x.runCase(t, srv, cc, "chunk")
	}
	if m > 2 {
		cc := c
		r0 := c.Rounds[0]
		r0.Cut, r0.Quiet = 2, true // the handshake answer and the announcement of the transfer, nothing else
		l2 := r0.Ls[0]
		l2.Tail = nil
		cc.Rounds = []c16Round{r0, {Ls: []c16Leader{l2}, Cut: -1, Quiet: true, Restart: c.Bk == "d"}}
		x.runCase(t, srv, cc, "metacut")
	}
	// the FOLLOWER's own Stop() in the middle of a transfer (runFollower's `<-sy.wait.Done(); follower.Stop()`:
	// the wait is closed, the connection closed, Stop waits for Run): Run returns nil, what was stored stays,
	// an incomplete snapshot is dropped; then a new process life / a new Run goes on
	for i := 0; i < 2; i++ {
		cc := c
		r0 := c.Rounds[0]
		r0.Cut, r0.Quiet = -1, r.Bool()
		r0.FStop = 1 + r.Intn(4)
		r0.Split = vfutil.Pick(r, []int{0, 2, 7, 40})
		cc.Rounds = []c16Round{r0}
		if r.Chance(1, 2) && c.Bk == "d" { // (a memory cache does not outlive its syncer)
			l2 := r0.Ls[0]
			if r.Bool() {
				l2 = c16Evolve(r, r0.Ls[0])
			}
			cc.Rounds = append(cc.Rounds, c16Round{Ls: []c16Leader{l2}, Cut: -1, Quiet: true, Restart: true})
		}
		x.runCase(t, srv, cc, "fstop")
	}
	// the follower's own store fails: a file write (anywhere in the first transfer, often inside the
	// last 8 KiB of a snapshot), the commit of a snapshot; and the follower process is killed in
	// the middle of a transfer and restarted over the directory image of that instant
	faults := func(c c16Case, pay0 int, rdb0 bool, tag string) {
		l0 := c.Rounds[0].Ls[0]
		if c.Bk != "d" || l0.D == nil || pay0 <= 0 {
			return
		}
		pick := func() int {
			// the first transfer of the uncut run carried pay0 bytes: a fault / kill inside it, often
			// inside its last 8 KiB (the last piece a snapshot writer takes from the stream)
			if pay0 <= 1 {
				return 1
			}
			if r.Chance(1, 2) {
				back := pay0 - 1
				if back > 8192 {
					back = 8192
				}
				return pay0 - r.Range(1, back)
			}
			return r.Range(1, pay0-1)
		}
		next := func(cc *c16Case, r0 c16Round) {
			if r.Chance(1, 2) { // … and the same Run goes on
				l2 := r0.Ls[0]
				if r.Bool() {
					l2 = c16Evolve(r, r0.Ls[0])
				}
				l2.Tail = nil
				cc.Rounds = append(cc.Rounds, c16Round{Ls: []c16Leader{l2}, Cut: -1, Quiet: true})
			}
		}
		for i := 0; i < 2; i++ {
			cc := c
			r0 := c.Rounds[0]
			r0.Cut, r0.Quiet = -1, true
			r0.WFault = pick()
			r0.Split = vfutil.Pick(r, []int{0, 3, 100})
			cc.Rounds = []c16Round{r0}
			next(&cc, r0)
			x.runCase(t, srv, cc, "wfault"+tag)
		}
		if rdb0 {
			cc := c
			r0 := c.Rounds[0]
			r0.Cut, r0.Quiet = -1, true
			r0.WSync = pick()
			cc.Rounds = []c16Round{r0}
			next(&cc, r0)
			x.runCase(t, srv, cc, "wsync"+tag)
		}
		if rdb0 {
			cc := c
			r0 := c.Rounds[0]
			r0.Cut, r0.Quiet = -1, true
			r0.WRename = true
			cc.Rounds = []c16Round{r0}
			next(&cc, r0)
			x.runCase(t, srv, cc, "wrename"+tag)
		}
		{
			cc := c
			r0 := c.Rounds[0]
			r0.Cut, r0.Quiet = -1, true
			l2 := r0.Ls[0]
			if r.Bool() {
				l2 = c16Evolve(r, r0.Ls[0])
			}
			l2.Tail = nil
			r1 := c16Round{Ls: []c16Leader{l2}, Cut: -1, Quiet: true, Crash: pick()}
			cc.Rounds = []c16Round{r0, r1}
			if r.Chance(1, 3) {
				cc.Rounds = append(cc.Rounds, c16Round{Ls: []c16Leader{c16Evolve(r, l2)}, Cut: -1, Quiet: true})
			}
			x.runCase(t, srv, cc, "crash"+tag)
		}
	}
	faults(c, pay0, rdb0, "")
	// … and the same for a follower of this leader whose first transfer is the SNAPSHOT (its copy
	// ends below everything the leader still holds): the snapshot writer's write / commit / kill
	if l0 := c.Rounds[0].Ls[0]; c.Bk == "d" && !rdb0 && l0.D != nil && l0.D.HasSnap && l0.D.Base > 40 && l0.Serving && l0.Started &&
		len(l0.Ids) > 0 && l0.Ids[0] == l0.Cur {
		cs := c
		cs.Seed = r.U64() >> 1
		fr := l0.D.Base - int64(r.Range(1, 20))
		cs.F = c16Store{Cur: l0.Cur, Dirs: []c16Entry{{l0.Cur, c16MkData(l0.Cur, fr-int64(r.Range(1, 20)), fr, false)}}}
		r0 := c.Rounds[0]
		r0.Cut, r0.Quiet = -1, true
		cs.Rounds = []c16Round{r0}
		if ms := x.runCase(t, srv, cs, "snapbase"); len(ms) > 0 {
			faults(cs, ms[0].payload, ms[0].rdb, "_snap")
		}
	}
	// the source fails over while the leader's stream reader of this follower is open: the
	// leader's input relabels the cache and goes on appending the new master's bytes
	if l0 := c.Rounds[0].Ls[0]; l0.D != nil && l0.Cur != "" {
		cc := c
		r0 := c.Rounds[0]
		r0.Cut, r0.Quiet = -1, true
		r0.Relabel = 1 + r.Intn(3)
		r0.Split = vfutil.Pick(r, []int{1, 2, 7, 40})
		cc.Rounds = []c16Round{r0}
		if r.Chance(1, 2) { // … and the follower goes on with the leader under its new id
			l2 := c16Evolve(r, r0.Ls[0])
			for l2.Cur == r0.Ls[0].Cur {
				l2 = c16Evolve(r, r0.Ls[0])
			}
			cc.Rounds = append(cc.Rounds, c16Round{Ls: []c16Leader{l2}, Cut: -1, Quiet: true})
		}
		x.runCase(t, srv, cc, "relabel")
	}
	// … the same fail-over at the read point inside sendData's loop: the read that follows the old
	// id's last byte returns the new master's bytes (the order read -> id check -> Send matters here)
	if l0 := c.Rounds[0].Ls[0]; l0.D != nil && l0.Cur != "" {
		cc := c
		r0 := c.Rounds[0]
		r0.Cut, r0.Quiet = -1, true
		r0.RelRead = true
		r0.Split = vfutil.Pick(r, []int{0, 2, 40})
		cc.Rounds = []c16Round{r0}
		x.runCase(t, srv, cc, "relread")
	}
	// a follower that is ahead meets a leader whose input has meanwhile moved to another run
	// id ("wait a moment" = CLEAR comes before the ahead test)
	if l0 := c.Rounds[0].Ls[0]; c16Relation(c.F, l0) == "ahead" && l0.Cur != "" {
		other := "idC"
		if l0.Cur == "idC" {
			other = "idB"
		}
		s1 := l0
		s1.Tail = nil
		s1.Ids = []string{other, l0.Cur}
		cc := c
		cc.Rounds = []c16Round{{Ls: []c16Leader{l0, s1}, Views: [][6]int{{}, {1, 1, 1, 1, 1, 1}}, Cut: -1, Quiet: true}}
		x.runCase(t, srv, cc, "aheadclear")
	}
	// the leader's own input acts during the session
	for i := 0; i < 2; i++ {
		cc := c
		r0 := c.Rounds[0]
		r0.Ls, r0.Views = c16GenDyn(r, r0.Ls[0])
		r0.Cut = -1
		if r.Chance(1, 3) {
			r0.Cut = r.Intn(m + 2)
		}
		r0.Quiet = true
		cc.Rounds = []c16Round{r0}
		if r.Chance(1, 2) {
			cc.Rounds = append(cc.Rounds, c16Round{Ls: []c16Leader{r0.Ls[len(r0.Ls)-1]}, Cut: -1, Quiet: true})
		}
		x.runCase(t, srv, cc, "dyn")
	}
}
