//go:build verif

package syncer

// C06, bisync mode: what a completed / an interrupted full resynchronisation
// leaves as the start point when the namespace still holds recovery state of
// the abandoned history (frontier snapshot in pipeline/parallel mode). Only
// the bookkeeping is exercised (the real RedisOutput on the target double):
// ResetStartPoint, SetRunId, setCheckpoint, StartPoint - the calls syncMeta,
// sendOutput and a completed SendRdb make, in their order.

import (
	"context"
	"testing"

	"github.com/mgtv-tech/redis-GunYu/config"
	"github.com/mgtv-tech/redis-GunYu/pkg/redis/checkpoint"
	"github.com/mgtv-tech/redis-GunYu/pkg/redis/client"
	"github.com/mgtv-tech/redis-GunYu/pkg/redis/client/conn"
	"github.com/mgtv-tech/redis-GunYu/pkg/vfdoubles"
	"github.com/mgtv-tech/redis-GunYu/pkg/vfutil"
)

func vf6BisyncOutput(tg *vfdoubles.Target, mode config.ReplayMode, runId string) *RedisOutput {
	cfg := RedisOutputConfig{InputName: "vf", CheckpointName: "vfcp", RunId: runId, BisyncEnabled: true,
		EnableResumeFromBreakPoint: true, ReplayMode: mode, Stats: config.OutputStats{DisableLog: true}}
	cfg.Redis.Type = config.RedisTypeStandalone
	cfg.Redis.Otype = config.RedisTypeStandalone
	cfg.Redis.Addresses = config.SliceString{"double:0"}
	ro := NewRedisOutput(cfg)
	rc := ro.cfg.Redis
	ro.newRedisConn = func(ctx context.Context) (client.Redis, error) {
		return conn.VerifNewRedisConn(tg.Dial(), rc), nil
	}
	return ro
}

// TestVerifC06Bisync: monitor only (session C06b, no ops).
func TestVerifC06Bisync(t *testing.T) {
	s := vfutil.NewSession("C06b")
	defer s.Close()
	ctx := context.Background()
	A, B := "aaaaaaaaaaaaaaaaaaaaaaaaaaaaaaaaaaaaaaaa", "bbbbbbbbbbbbbbbbbbbbbbbbbbbbbbbbbbbbbbbb"
	for _, mode := range []config.ReplayMode{config.ReplayModePipeline, config.ReplayModeSync} {
		for _, interrupted := range []bool{false, true} {
			tg := vfdoubles.NewTarget()
			tg.Lenient = true
			ro := vf6BisyncOutput(tg, mode, A)
			x, o := int64(250), int64(220)
			// the abandoned history A: root checkpoint and recovery state at X
			if err := ro.setCheckpoint(ctx, A, x, config.Version); err != nil {
				t.Fatal(err)
			}
			cli, _ := ro.NewRedisConn(ctx)
			checkpoint.SetCheckpointHash(cli, A, "vfcp")
			if mode.UsesFrontier() {
				if err := checkpoint.SaveBisyncFrontierSnapshot(cli, checkpoint.BisyncFrontierKey("vfcp"),
					&checkpoint.BisyncFrontierSnapshot{Version: config.Version, RunID: A, UnitSeq: 5, Offset: x, MTime: 1}); err != nil {
					t.Fatal(err)
				}
			} else {
				rec := &checkpoint.BisyncCommitRecord{RecordType: "latest", Version: config.Version, RunID: A, SyncerID: "vf", UnitSeq: 5,
					StartOffset: x - 10, EndOffset: x, Slot: 0, Digest: "d", MTime: 1}
				rec.Key = checkpoint.BisyncLatestCheckpointKey("vfcp", checkpoint.BisyncSlotTag(0))
				args := append([]interface{}{rec.Key}, rec.HashArgs()...)
				if _, err := cli.Do("hset", args...); err != nil {
					t.Fatal(err)
				}
			}
			cli.Close()
			ids := []string{B, A} // failover: A is B's previous id
			sp0, err := ro.StartPoint(ctx, ids)
			if err != nil {
				t.Fatal(err)
			}
			// FULLRESYNC B at O < X: syncMeta, then sendOutput, then (if completed) SendRdb's tail
			if err := ro.ResetStartPoint(ctx, ids); err != nil {
				t.Fatal(err)
			}
			if err := ro.SetRunId(ctx, B); err != nil {
				t.Fatal(err)
			}
			if err := ro.ResetStartPoint(ctx, []string{B, B, A}); err != nil {
				t.Fatal(err)
			}
			if !interrupted {
				if err := ro.setCheckpoint(ctx, B, o, config.Version); err != nil {
					t.Fatal(err)
				}
			}
			sp1, err := ro.StartPoint(ctx, ids)
			if err != nil {
				t.Fatal(err)
			}
			s.Count("bisync_probe_" + string(mode))
			what := ""
			if interrupted && !(sp1.RunId == "?" || sp1.Offset < 0) {
				what = "bisync-position-survives-interrupted-full-sync"
			}
			if !interrupted && !(sp1.RunId == B && sp1.Offset == o) {
				what = "bisync-position-after-full-sync"
			}
			if what != "" {
				s.Violate(what, vfutil.Sprintf("mode %s: before %s:%d; after FULLRESYNC %s at %d (replay completed=%v) StartPoint answers %s:%d",
					mode, sp0.RunId, sp0.Offset, B, o, !interrupted, sp1.RunId, sp1.Offset),
					map[string]interface{}{"mode": string(mode), "interrupted": interrupted, "before": vfutil.Sprintf("%s:%d", sp0.RunId, sp0.Offset), "after": vfutil.Sprintf("%s:%d", sp1.RunId, sp1.Offset)})
			}
			t.Logf("mode=%s interrupted=%v before=%s:%d after=%s:%d", mode, interrupted, sp0.RunId, sp0.Offset, sp1.RunId, sp1.Offset)
			tg.CloseAll()
		}
	}
}
