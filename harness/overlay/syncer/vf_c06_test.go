//go:build verif

package syncer

// C06 — each source (re)connection continues the stream gap-free or takes a
// snapshot.  The real RedisInput.run (fetchInput → syncMeta → pSync → syncData →
// readChannel → sendOutput) with the real channel backends (StoreChannel over
// pkg/store, MemoryChannel) runs against
//   * a source double on a loopback listener (INFO replication, REPLCONF,
//     PSYNC with Redis's admission rule, +CONTINUE [id], +FULLRESYNC id off,
//     $len snapshot, stream bytes),
//   * a recording Output (stored resume position in, run id / reader / bytes out),
//   * a recording proxy around the real Channel.
// Correspondence: one `sync …` op per connection, five output lines compared
// with the Lean model (GunYu.Model.Psync via Drive/C06).  Monitor: the bytes
// delivered must be the double's current history from the stored position, or
// a complete snapshot (the one just sent, or a cached one of the same history).

import (
	"bufio"
	"bytes"
	"context"
	"encoding/hex"
	"fmt"
	"io"
	"net"
	"os"
	"path/filepath"
	"strconv"
	"strings"
	"sync"
	"sync/atomic"
	"testing"
	"time"

	"github.com/mgtv-tech/redis-GunYu/config"
	"github.com/mgtv-tech/redis-GunYu/pkg/log"
	"github.com/mgtv-tech/redis-GunYu/pkg/redis/checkpoint"
	usync "github.com/mgtv-tech/redis-GunYu/pkg/sync"
	"github.com/mgtv-tech/redis-GunYu/pkg/vfc20"
	"github.com/mgtv-tech/redis-GunYu/pkg/vfdoubles"
	"github.com/mgtv-tech/redis-GunYu/pkg/vfutil"
)

// ---------------------------------------------------------------- world

func vf6Prf(seed uint64, n int64) byte {
	if n < 0 {
		n = 0
	}
	m := uint64(n)
	return byte(((seed + 31*m + 17*(m/7)) * 2654435761 / 65536) % 256)
}

func vf6PrfSnap(seed uint64, off int64, i int64) byte {
	if off < 0 {
		off = 0
	}
	return byte(((seed*3 + uint64(off)*131 + 7*uint64(i) + 5*(uint64(i)/3)) * 2654435761 / 65536) % 256)
}

type vf6World struct {
	id1, id2       string
	switchOff      int64
	sb, s1, s2, so uint64
	// cmd: the histories are real replication streams (fixed-length SET
	// commands) and the snapshots real RDB files, so that the real
	// RedisOutput.Send can replay them (schedules with send=real)
	cmd bool
	// a successor of id1 (attempt ops): history `b` is id1's below bSwitch, its own (seed sB) above
	b       string
	bSwitch int64
	sB      uint64
}

const vf6CmdLen = 41

func vf6Tag(seed uint64) byte { return 'a' + byte(seed%26) }

// command number i of the history with tag `tag` (41 bytes)
func vf6Cmd(tag byte, i int64) []byte {
	return []byte(fmt.Sprintf("*3\r\n$3\r\nSET\r\n$8\r\nk%07d\r\n$8\r\n%c%07d\r\n", i%10000000, tag, i%10000000))
}

func vf6SnapKey(tag byte, off int64, part string) string {
	return fmt.Sprintf("snap:%c:%d:%s", tag, off, part)
}

func (w *vf6World) tagAt(id string, n int64) byte {
	if (id == w.id1 || id == w.id2) && n < w.switchOff {
		return vf6Tag(w.sb)
	}
	return vf6Tag(w.seedOf(id))
}

func (w *vf6World) seedOf(id string) uint64 {
	if w.b != "" && id == w.b {
		return w.sB
	}
	if id == w.id1 {
		return w.s1
	}
	if id == w.id2 {
		return w.s2
	}
	return w.so
}

// hist(id)[n]: the byte consumed when going from offset n to n+1
func (w *vf6World) hist(id string, n int64) byte {
	if w.b != "" && id == w.b {
		if n < w.bSwitch {
			return w.hist(w.id1, n)
		}
		return vf6Prf(w.sB, n)
	}
	if w.cmd {
		if n < 0 {
			return 0
		}
		return vf6Cmd(w.tagAt(id, n), n/vf6CmdLen)[n%vf6CmdLen]
	}
	if (id == w.id1 || id == w.id2) && n < w.switchOff {
		return vf6Prf(w.sb, n)
	}
	return vf6Prf(w.seedOf(id), n)
}

func (w *vf6World) histRange(id string, from, to int64) []byte {
	if to <= from {
		return nil
	}
	b := make([]byte, to-from)
	for i := range b {
		b[i] = w.hist(id, from+int64(i))
	}
	return b
}

func (w *vf6World) snapBytes(id string, off int64, size int64) []byte {
	if w.cmd {
		tag := vf6Tag(w.seedOf(id))
		return vfc20.BuildRDB([]vfc20.KV{
			{DB: 0, Key: []byte(vf6SnapKey(tag, off, "a")), Type: 0, Str: []byte("1")},
			{DB: 0, Key: []byte(vf6SnapKey(tag, off, "b")), Type: 0, Str: []byte("2")},
		}, vfc20.Opts{Aux: true})
	}
	if size <= 0 {
		return nil
	}
	b := make([]byte, size)
	for i := range b {
		b[i] = vf6PrfSnap(w.seedOf(id), off, int64(i))
	}
	return b
}

// ---------------------------------------------------------------- source double

type vf6Source struct {
	id1, id2  string
	switchOff int64 // second_replid_offset - 1
	backlog   bool
	first     int64 // repl_backlog->offset
	blen      int64 // histlen
	master    int64 // master_repl_offset
	snapLen   int64
	capaId    bool
	k         int64 // bytes produced after the reply
	heartbeat bool
	w         *vf6World
	// attempt ops (vf_c06_att_test.go): PSYNC answered by another source than INFO
	// (fail-over in between), unusual snapshot headers, failing commands
	psyncBy  *vf6Source
	hdr      string        // "" = $<snapLen> (whatever its sign) ; "eof" = $EOF:<40 bytes> (diskless) ; "junk" = $abc
	failInfo bool          // INFO is answered with an error
	psyncErr string        // PSYNC is answered with this error line
	errFirst *atomic.Int32 // the first n PSYNCs are answered with an error (scripted loop)
	nInfo    *atomic.Int32 // INFO commands served (shared by copies)
	cutAfter int64         // >0: after a FULLRESYNC header only this many snapshot bytes are sent, then the connection ends

	mu     sync.Mutex
	psync  []string // "<id> <off>" as received
	reply  string   // canonical reply
	conns  int
	others []string
	cutNow atomic.Bool
}

// Redis replication.c masterTryPartialResynchronization (independent of the Lean text)
func (s *vf6Source) admit(reqId string, off int64) bool {
	if !strings.EqualFold(reqId, s.id1) &&
		(!strings.EqualFold(reqId, s.id2) || off > s.switchOff+1) {
		return false
	}
	if !s.backlog || off < s.first || off > s.first+s.blen {
		return false
	}
	return true
}

func vf6ReadCmd(br *bufio.Reader) ([]string, error) {
	line, err := br.ReadString('\n')
	if err != nil {
		return nil, err
	}
	line = strings.TrimRight(line, "\r\n")
	if line == "" {
		return []string{}, nil
	}
	if line[0] != '*' {
		return strings.Fields(line), nil
	}
	n, err := strconv.Atoi(line[1:])
	if err != nil {
		return nil, err
	}
	args := make([]string, 0, n)
	for i := 0; i < n; i++ {
		l, err := br.ReadString('\n')
		if err != nil {
			return nil, err
		}
		l = strings.TrimRight(l, "\r\n")
		if len(l) == 0 || l[0] != '$' {
			return nil, fmt.Errorf("bad bulk header %q", l)
		}
		sz, err := strconv.Atoi(l[1:])
		if err != nil {
			return nil, err
		}
		buf := make([]byte, sz+2)
		if _, err := io.ReadFull(br, buf); err != nil {
			return nil, err
		}
		args = append(args, string(buf[:sz]))
	}
	return args, nil
}

func (s *vf6Source) serve(c net.Conn) {
	defer c.Close()
	s.mu.Lock()
	s.conns++
	s.mu.Unlock()
	br := bufio.NewReader(c)
	bw := bufio.NewWriter(c)
	capaEof := false // this replica advertised `capa eof`: a diskless master (the default since Redis 7) answers $EOF:<40 bytes>
	for {
		args, err := vf6ReadCmd(br)
		if err != nil {
			return
		}
		if len(args) == 0 {
			continue
		}
		switch strings.ToLower(args[0]) {
		case "ping":
			bw.WriteString("+PONG\r\n")
		case "info":
			if s.nInfo != nil {
				s.nInfo.Add(1)
			}
			if s.failInfo {
				bw.WriteString("-ERR injected by the C06 harness\r\n")
				break
			}
			body := "# Replication\r\nrole:master\r\nconnected_slaves:0\r\n" +
				"master_failover_state:no-failover\r\n" +
				"master_replid:" + s.id1 + "\r\n" +
				"master_replid2:" + s.id2 + "\r\n" +
				"master_repl_offset:" + strconv.FormatInt(s.master, 10) + "\r\n" +
				"second_repl_offset:" + strconv.FormatInt(s.switchOff+1, 10) + "\r\n" +
				"repl_backlog_active:1\r\n"
			fmt.Fprintf(bw, "$%d\r\n%s\r\n", len(body), body)
		case "replconf":
			if len(args) > 1 && strings.ToLower(args[1]) == "ack" {
				continue // no reply
			}
			for i := 1; i+1 < len(args); i += 2 {
				if strings.ToLower(args[i]) == "capa" && strings.ToLower(args[i+1]) == "eof" {
					capaEof = true
				}
			}
			bw.WriteString("+OK\r\n")
		case "psync":
			if len(args) != 3 {
				bw.WriteString("-ERR wrong number of arguments\r\n")
				break
			}
			off, err := strconv.ParseInt(args[2], 10, 64)
			s.mu.Lock()
			s.psync = append(s.psync, args[1]+" "+args[2])
			s.mu.Unlock()
			if err != nil {
				bw.WriteString("-ERR value is not an integer or out of range\r\n")
				break
			}
			if s.psyncErr != "" || (s.errFirst != nil && s.errFirst.Add(-1) >= 0) {
				bw.WriteString("-ERR injected by the C06 harness " + s.psyncErr + "\r\n")
				break
			}
			if s.psyncBy != nil {
				// the source failed over after INFO: its successor answers
				s.psyncBy.servePsync(bw, args[1], off, s, capaEof)
				break
			}
			s.servePsync(bw, args[1], off, s, capaEof)
		default:
			s.mu.Lock()
			s.others = append(s.others, strings.Join(args, " "))
			s.mu.Unlock()
			bw.WriteString("-ERR unknown command\r\n")
		}
		if err := bw.Flush(); err != nil {
			return
		}
		if s.cutAfter > 0 && s.cutNow.Load() {
			return
		}
	}
}

// servePsync answers PSYNC with s's parameters and history; the reply is recorded on `rec`
// (the source the connection was accepted for)
func (s *vf6Source) servePsync(bw *bufio.Writer, reqId string, off int64, rec *vf6Source, capaEof bool) {
	final := s.master + s.k
	if s.admit(reqId, off) {
		if s.capaId {
			fmt.Fprintf(bw, "+CONTINUE %s\r\n", s.id1)
			rec.setReply("cont:" + vfutil.HexS(s.id1))
		} else {
			bw.WriteString("+CONTINUE\r\n")
			rec.setReply("cont:-")
		}
		bw.Flush()
		// backlog from the requested byte (number off = index off-1) to the end, then live bytes
		bw.Write(s.w.histRange(s.id1, off-1, final))
		return
	}
	if s.heartbeat {
		bw.WriteString("\n")
		bw.Flush()
	}
	fmt.Fprintf(bw, "+FULLRESYNC %s %d\r\n", s.id1, s.master)
	rec.setReply(fmt.Sprintf("full:%s:%d", vfutil.HexS(s.id1), s.master))
	bw.Flush()
	if s.heartbeat {
		bw.WriteString("\n")
	}
	snap := s.w.snapBytes(s.id1, s.master, s.snapLen)
	hdr := rec.hdr
	if capaEof && hdr == "" {
		hdr = "eof"
	}
	switch hdr {
	case "eof":
		// diskless transfer: $EOF:<40 random bytes>, payload, the same 40 bytes
		mark := strings.Repeat("7", 40)
		fmt.Fprintf(bw, "$EOF:%s\r\n", mark)
		bw.Write(snap)
		bw.WriteString(mark)
	case "junk":
		bw.WriteString("$abc\r\n")
		bw.Write(snap)
	default:
		fmt.Fprintf(bw, "$%d\r\n", s.snapLen)
		if rec.cutAfter > 0 && rec.cutAfter < int64(len(snap)) {
			bw.Write(snap[:rec.cutAfter])
			rec.cutNow.Store(true)
			return
		}
		bw.Write(snap)
	}
	bw.Flush()
	bw.Write(s.w.histRange(s.id1, s.master, final))
}

func (s *vf6Source) setReply(r string) { s.mu.Lock(); s.reply = r; s.mu.Unlock() }

type vf6Listener struct {
	ln  net.Listener
	cur atomic.Pointer[vf6Source]
}

func vf6NewListener() (*vf6Listener, error) {
	ln, err := net.Listen("tcp", "127.0.0.1:0")
	if err != nil {
		return nil, err
	}
	l := &vf6Listener{ln: ln}
	go func() {
		for {
			c, err := ln.Accept()
			if err != nil {
				return
			}
			s := l.cur.Load()
			if s == nil {
				c.Close()
				continue
			}
			go s.serve(c)
		}
	}()
	return l, nil
}

// ---------------------------------------------------------------- recording output

type vf6Output struct {
	sp        StartPoint
	final     int64 // last stream offset the source will have produced
	proxy     *vf6Chan
	incr      func() usync.WaitChannel // closed once the input's log writer phase has begun
	patience  *atomic.Int64            // hard limit (ms) of a wait on an explicit condition that normally holds within a millisecond
	missed    *atomic.Bool             // a wait hit the limit: the attempt is repeated, its outcome is not used
	mu        sync.Mutex
	spIds     [][]string
	setRunIds []string
	resets    int
	sent      bool
	kind      string // "aof" | "rdb"
	left      int64
	size      int64
	runId     string
	want      int64
	got       []byte
	readErr   string
	ingested  bool
	// failSnapshot: the snapshot replay "fails" (all bytes are read, then an
	// error is returned as a failing target would cause): nothing is stored
	failSnapshot bool
	interrupted  bool
	noWait       bool
	// fault injection: the n-th call (1-based) of the named bookkeeping method fails
	failReset    int
	failSetRunId int
	nSetRunId    int
	faulted      bool
}

func (o *vf6Output) StartPoint(ctx context.Context, ids []string) (StartPoint, error) {
	o.mu.Lock()
	o.spIds = append(o.spIds, append([]string(nil), ids...))
	o.mu.Unlock()
	return o.sp, nil
}

func (o *vf6Output) SetRunId(ctx context.Context, id string) error {
	o.mu.Lock()
	defer o.mu.Unlock()
	o.setRunIds = append(o.setRunIds, id)
	o.nSetRunId++
	if o.failSetRunId == o.nSetRunId {
		o.faulted = true
		return fmt.Errorf("injected by the C06 harness: output.SetRunId failed")
	}
	return nil
}

func (o *vf6Output) ResetStartPoint(ctx context.Context, ids []string) error {
	o.mu.Lock()
	defer o.mu.Unlock()
	o.resets++
	if o.failReset == o.resets {
		o.faulted = true
		return fmt.Errorf("injected by the C06 harness: output.ResetStartPoint failed")
	}
	return nil
}

func (o *vf6Output) Close() {}

func (o *vf6Output) Send(ctx context.Context, reader ChannelReader) error {
	o.mu.Lock()
	o.sent = true
	o.left = reader.Left()
	o.size = reader.Size()
	o.runId = reader.RunId()
	if reader.IsAof() {
		o.kind = "aof"
		o.want = o.final - o.left
	} else {
		o.kind = "rdb"
		o.want = o.size
	}
	if o.want < 0 {
		o.want = 0
	}
	want := o.want
	o.mu.Unlock()
	if o.noWait {
		// outside the theorems' hypotheses only the decision is compared: nothing to wait for
		return nil
	}

	buf := make([]byte, want)
	done := make(chan struct{})
	var n int
	var rerr error
	go func() {
		n, rerr = io.ReadFull(reader.IoReader(), buf)
		close(done)
	}()
	wait := func() time.Duration { return time.Duration(o.patience.Load()) * time.Millisecond }
	miss := func() { o.missed.Store(true) }
	select {
	case <-done:
	case <-time.After(wait()):
		miss()
		vf6MissNote.Store("read")
		reader.Close()
		<-done
		rerr = fmt.Errorf("timeout")
	}
	o.mu.Lock()
	o.got = buf[:n]
	if rerr != nil {
		o.readErr = rerr.Error()
	}
	o.mu.Unlock()

	// let the input reach its log-writer phase and the writer store everything
	// the source sent, so that the cache after the run is a function of the case
	// (ending the run earlier leaves the writer unstarted and unclosed)
	select {
	case <-o.incr():
	case <-time.After(wait()):
		miss()
		vf6MissNote.Store("writer-phase")
	}
	deadline := time.Now().Add(wait())
	for time.Now().Before(deadline) {
		if o.proxy.aofWriterSeen() {
			in := o.proxy.inner
			_, r := in.GetOffsetRange(in.RunId())
			if r == o.final || (o.final <= o.proxy.aofWriterOff() && r <= o.proxy.aofWriterOff()) {
				o.mu.Lock()
				o.ingested = true
				o.mu.Unlock()
				break
			}
		}
		time.Sleep(200 * time.Microsecond)
	}
	if !o.ingested {
		miss()
		vf6MissNote.Store("ingest")
	}
	if o.failSnapshot && o.kind == "rdb" {
		o.mu.Lock()
		o.interrupted = true
		o.mu.Unlock()
		return fmt.Errorf("injected by the C06 harness: snapshot replay failed")
	}
	return nil
}

// ---------------------------------------------------------------- recording channel proxy

type vf6Chan struct {
	inner Channel
	mu    sync.Mutex
	sp    []StartPoint
	valid []string // "<id>:<off>=<0|1>"
	rdbq  []string
	rngq  []string
	dels  []string
	sets  []string
	wr    []string // "rdb:off:size" | "aof:off"
	rd    []string // "<off>" requested
	rdErr []string
	aofW  atomic.Bool
	aofO  atomic.Int64
	// fault injection
	failDel bool
	failSet bool
	faulted atomic.Bool
}

func (p *vf6Chan) aofWriterSeen() bool { return p.aofW.Load() }
func (p *vf6Chan) aofWriterOff() int64 { return p.aofO.Load() }
func (p *vf6Chan) rec(f func())        { p.mu.Lock(); f(); p.mu.Unlock() }
func (p *vf6Chan) RunId() string       { return p.inner.RunId() }
func (p *vf6Chan) Close() error        { return nil }
func vf6B(b bool) string {
	if b {
		return "1"
	}
	return "0"
}

func (p *vf6Chan) StartPoint(ids []string) (StartPoint, error) {
	sp, err := p.inner.StartPoint(ids)
	p.rec(func() { p.sp = append(p.sp, sp) })
	return sp, err
}
func (p *vf6Chan) SetRunId(id string) error {
	p.rec(func() { p.sets = append(p.sets, id) })
	if p.failSet {
		p.faulted.Store(true)
		return fmt.Errorf("injected by the C06 harness: channel.SetRunId failed")
	}
	return p.inner.SetRunId(id)
}
func (p *vf6Chan) DelRunId(id string) error {
	p.rec(func() { p.dels = append(p.dels, id) })
	if p.failDel {
		p.faulted.Store(true)
		return fmt.Errorf("injected by the C06 harness: channel.DelRunId failed")
	}
	return p.inner.DelRunId(id)
}
func (p *vf6Chan) IsValidOffset(o Offset) bool {
	v := p.inner.IsValidOffset(o)
	p.rec(func() { p.valid = append(p.valid, fmt.Sprintf("%s:%d=%s", o.RunId, o.Offset, vf6B(v))) })
	return v
}
func (p *vf6Chan) GetOffsetRange(id string) (int64, int64) {
	l, r := p.inner.GetOffsetRange(id)
	p.rec(func() { p.rngq = append(p.rngq, fmt.Sprintf("%d,%d", l, r)) })
	return l, r
}
func (p *vf6Chan) GetRdb(id string) (int64, int64) {
	l, s := p.inner.GetRdb(id)
	p.rec(func() { p.rdbq = append(p.rdbq, fmt.Sprintf("%d,%d", l, s)) })
	return l, s
}
func (p *vf6Chan) NewRdbWriter(r io.Reader, off int64, size int64) (RdbChannelWriter, error) {
	p.rec(func() { p.wr = append(p.wr, fmt.Sprintf("rdb:%d:%d", off, size)) })
	return p.inner.NewRdbWriter(r, off, size)
}
func (p *vf6Chan) NewAofWritter(r io.Reader, off int64) (AofChannelWriter, error) {
	w, err := p.inner.NewAofWritter(r, off)
	p.rec(func() {
		if err != nil {
			p.wr = append(p.wr, "err")
		} else {
			p.wr = append(p.wr, fmt.Sprintf("aof:%d", off))
		}
	})
	if err == nil {
		p.aofO.Store(off)
		p.aofW.Store(true)
	}
	return w, err
}
func (p *vf6Chan) NewReader(o Offset) (ChannelReader, error) {
	r, err := p.inner.NewReader(o)
	p.rec(func() {
		p.rd = append(p.rd, fmt.Sprintf("%d", o.Offset))
		if err != nil {
			p.rdErr = append(p.rdErr, err.Error())
		}
	})
	if err != nil {
		return nil, err // avoid a typed-nil interface
	}
	return r, nil
}

// ---------------------------------------------------------------- case

type vf6Case struct {
	backend   string // "d" | "m"
	fresh     bool   // disk: reopen the store (process restart) before the round
	logSize   int64
	src       vf6Source // parameters only
	sp        StartPoint
	cRun      string
	hasRdb    bool
	rdbLeft   int64
	rdbSize   int64
	cmd       bool   // real streams / snapshots (send=real schedules)
	logId     string // ghost: history the cached log bytes were taken from when that is not the label's ("" = the label's)
	keepSrc   bool   // follow-up rounds keep the source's backlog and the stored position as they are
	nonContig bool
	extra     string // "<1|2> <resume> <done> <e>" when the real RedisOutput is used (2: its real Send too)
	tokId     string // history the cached snapshot was taken from (ghost; the cache label may have changed since)
	hasAof    bool
	aofL      int64
	aofR      int64
	sb        uint64
	s1        uint64
	s2        uint64
	so        uint64
}

func vf6Opt(has bool, v int64) string {
	if !has {
		return "x"
	}
	return strconv.FormatInt(v, 10)
}

func (c *vf6Case) opLine(tag string) string {
	s := &c.src
	return fmt.Sprintf("sync %s %s %s %s %d %s %d %d %d %d %s %d %s %d %s %s %s %s %s %s %d %d %d %d %s %d %s",
		tag, c.backend, vfutil.HexS(s.id1), vfutil.HexS(s.id2), s.switchOff, vf6B(s.backlog), s.first, s.blen, s.master,
		s.snapLen, vf6B(s.capaId), s.k, vfutil.HexS(c.sp.RunId), c.sp.Offset, vfutil.HexS(c.cRun),
		vf6Opt(c.hasRdb, c.rdbLeft), vf6Opt(c.hasRdb, c.rdbSize), vfutil.HexS(c.tokId), vf6Opt(c.hasAof, c.aofL), vf6Opt(c.hasAof, c.aofR),
		c.sb, c.s1, c.s2, c.so, vf6B(c.fresh), c.logSize, vf6B(s.heartbeat)) + c.extraTok()
}

func (c *vf6Case) extraTok() string {
	if c.extra == "" {
		return ""
	}
	return " " + c.extra
}

func vf6ParseCase(line string) (*vf6Case, error) {
	f := strings.Fields(line)
	if len(f) < 28 || f[0] != "sync" {
		return nil, fmt.Errorf("bad case line")
	}
	i64 := func(s string) int64 { v, _ := strconv.ParseInt(s, 10, 64); return v }
	u64 := func(s string) uint64 { v, _ := strconv.ParseUint(s, 10, 64); return v }
	c := &vf6Case{backend: f[2]}
	c.src = vf6Source{id1: string(vfutil.UnHex(f[3])), id2: string(vfutil.UnHex(f[4])), switchOff: i64(f[5]), backlog: f[6] == "1",
		first: i64(f[7]), blen: i64(f[8]), master: i64(f[9]), snapLen: i64(f[10]), capaId: f[11] == "1", k: i64(f[12])}
	c.sp = StartPoint{RunId: string(vfutil.UnHex(f[13])), Offset: i64(f[14])}
	c.cRun = string(vfutil.UnHex(f[15]))
	if f[16] != "x" && f[17] != "x" {
		c.hasRdb, c.rdbLeft, c.rdbSize = true, i64(f[16]), i64(f[17])
	}
	c.tokId = string(vfutil.UnHex(f[18]))
	if f[19] != "x" && f[20] != "x" {
		c.hasAof, c.aofL, c.aofR = true, i64(f[19]), i64(f[20])
	}
	c.sb, c.s1, c.s2, c.so = u64(f[21]), u64(f[22]), u64(f[23]), u64(f[24])
	c.fresh = f[25] == "1"
	c.logSize = i64(f[26])
	c.src.heartbeat = f[27] == "1"
	return c, nil
}

func (c *vf6Case) logHist() string {
	if c.logId != "" {
		return c.logId
	}
	return c.cRun
}

// wf: the hypotheses SourceWF and CacheWF of the theorems hold for this op
func (c *vf6Case) wf() bool {
	s := &c.src
	src := s.id1 != "" && s.id1 != "?" && s.id2 != "" && s.id2 != "?" && s.first >= 1 && s.blen >= 0 &&
		(!s.backlog || s.master+1 == s.first+s.blen) && s.master >= 0 && s.snapLen > 0
	ch := (!c.hasAof || (c.aofL >= 0 && c.aofL <= c.aofR)) && (!c.hasRdb || (c.rdbLeft >= 0 && c.rdbSize > 0)) &&
		(!c.hasAof || !c.hasRdb || c.aofL == c.rdbLeft || (c.backend == "m" && c.rdbLeft <= c.aofL)) && !((c.cRun == "" || c.cRun == "?") && (c.hasRdb || c.hasAof))
	return src && ch
}

func (c *vf6Case) world() *vf6World {
	return &vf6World{id1: c.src.id1, id2: c.src.id2, switchOff: c.src.switchOff, sb: c.sb, s1: c.s1, s2: c.s2, so: c.so, cmd: c.cmd}
}

// ---------------------------------------------------------------- harness

// vf6Sink buffers everything one case reports, so that a case whose run was
// aborted by a scheduling race inside the store can be repeated from scratch.
type vf6Viol struct {
	what, detail string
	rp           map[string]interface{}
}
type vf6Sink struct {
	ops      [][]string
	counts   []string
	dist     []string
	viols    []vf6Viol
	aborted  bool
	abortWhy string
}

func (b *vf6Sink) Op(op string, lines ...string) {
	b.ops = append(b.ops, append([]string{op}, lines...))
}
func (b *vf6Sink) Count(k string)    { b.counts = append(b.counts, k) }
func (b *vf6Sink) Distinct(k string) { b.dist = append(b.dist, k) }
func (b *vf6Sink) Violate(what, detail string, rp map[string]interface{}) {
	b.viols = append(b.viols, vf6Viol{what, detail, rp})
}
func (b *vf6Sink) commit(h *vf6H) {
	tags := []string{}
	for _, o := range b.ops {
		tag := fmt.Sprintf("#%d", h.nOps)
		h.nOps++
		tags = append(tags, tag)
		for i := range o {
			o[i] = strings.Replace(o[i], "#T", tag, 1)
		}
		h.s.Op(o[0], o[1:]...)
	}
	for _, k := range b.counts {
		h.s.Count(k)
	}
	for _, k := range b.dist {
		h.s.Distinct(k)
	}
	for _, v := range b.viols {
		// name the ops of this case by their final index
		for k, x := range v.rp {
			if str, ok := x.(string); ok && len(tags) > 0 {
				ri, _ := v.rp["round"].(int)
				if ri >= len(tags) {
					ri = len(tags) - 1
				}
				v.rp[k] = strings.ReplaceAll(str, "#T", tags[ri])
			}
		}
		h.s.Violate(v.what, v.detail, v.rp)
	}
}

type vf6H struct {
	t         *testing.T
	s         *vfutil.Session
	sink      *vf6Sink
	ln        *vf6Listener
	tmp       string
	nOps      int
	nCase     int
	inCfg     config.RedisConfig
	slowMs    int64
	fault     string // fault injected into the bookkeeping calls of the next round ("" = none)
	faultPlan string // the fault of the first round of the case being run
	// Waits are on explicit conditions (reader delivered, writer phase begun,
	// everything stored, position stored). `patience` is only their hard limit:
	// an attempt in which a wait hit the limit is discarded and the case is
	// repeated from scratch (a stalled goroutine on a loaded machine must never
	// become compared output). Only when the repeats hit the limit too the
	// outcome is taken as the code's behaviour (a broken build), and after three
	// such cases the limit is lowered so that a broken build does not take hours.
	patience    atomic.Int64
	missed      atomic.Bool
	lastAttempt bool
	confirmed   int
	seq         bool // nothing else in this process runs RedisInput.run meanwhile: process-global state can be judged
	noCrc       bool // this harness runs concurrently with another one: it leaves channel.verifyCrc alone
}

// begin starts an attempt of a case; again decides after it whether the case is repeated.
func (h *vf6H) begin(attempt int) {
	h.missed.Store(false)
	h.lastAttempt = attempt >= 1
	h.sink = &vf6Sink{}
}

var vf6MissNote atomic.Value

func (h *vf6H) again(attempt int) bool {
	s := h.sink
	if h.missed.Load() {
		if len(s.ops) > 0 {
			last := s.ops[len(s.ops)-1]
			h.t.Logf("wait limit hit (%v), attempt %d, faultPlan=%q, ops of the case=%d, first op: %s ; last: %s | %s", vf6MissNote.Load(), attempt, h.faultPlan, len(s.ops), s.ops[0][0], last[0], strings.Join(last[1:], " | "))
		} else {
			h.t.Logf("wait limit hit (%v), attempt %d, before any op of the case", vf6MissNote.Load(), attempt)
		}
		if attempt < 1 {
			// a wait hit its hard limit: stalled harness or broken build - the attempt is not used
			h.s.Count("stalled_attempts_repeated")
			return true
		}
		// the repeat hit the limit too: taken as the behaviour of the code under test
		h.s.Count("wait_limit_hit_on_every_attempt")
		if len(s.ops) > 0 {
			h.t.Logf("wait limit hit on every attempt: %v", s.ops[len(s.ops)-1])
		}
		h.confirmed++
		if h.confirmed >= 3 {
			h.patience.Store(1500)
		}
		return false
	}
	if s.aborted && attempt < 3 {
		// the run ended before anything was delivered; nothing was delivered, so the
		// property is not at stake: the case is repeated (a deterministic abort survives
		// the repeats and is reported as run-aborted). Counted by cause: the store's
		// snapshot reader losing the race against the writer's rename is C05's.
		h.s.Count("aborted_attempt_" + s.abortWhy)
		return true
	}
	return false
}

func (h *vf6H) newChannel(c *vf6Case, dir string) Channel {
	if c.backend == "m" {
		return NewMemoryChannel(MemoryConf{InputId: "vf", MaxSize: 0, LogSize: c.logSize})
	}
	return NewStoreChannel(StorerConf{InputId: "vf", Dir: dir, MaxSize: -1, LogSize: c.logSize})
}

// build the cache content through the channel's own writers
func (h *vf6H) populate(c *vf6Case, ch Channel, w *vf6World) error {
	if c.cRun == "" {
		return nil
	}
	if err := ch.SetRunId(c.cRun); err != nil {
		return err
	}
	ctx := context.Background()
	if c.hasRdb {
		rw, err := ch.NewRdbWriter(bytes.NewReader(w.snapBytes(c.tokId, c.rdbLeft, c.rdbSize)), c.rdbLeft, c.rdbSize)
		if err != nil {
			return err
		}
		rw.Start()
		if err := rw.Wait(ctx); err != nil {
			return fmt.Errorf("populate rdb: %w", err)
		}
		rw.Close()
	}
	if c.hasAof {
		aw, err := ch.NewAofWritter(bytes.NewReader(w.histRange(c.cRun, c.aofL, c.aofR)), c.aofL)
		if err != nil {
			return err
		}
		aw.Start()
		aw.Wait(ctx) // ends with "reader error: EOF" once everything is stored
		aw.Close()
		if aw.Right() != c.aofR {
			return fmt.Errorf("populate aof: right %d want %d", aw.Right(), c.aofR)
		}
	}
	return nil
}

type vf6Round struct {
	interrupted bool
	delivered   string // "stream" | "snapshot" | "none"
	left        int64
	size        int64
	runId       string
	final       int64
	full        bool
	after       vf6Case // cache fields describe the cache after the round
}

func vf6Last(xs []string, def string) string {
	if len(xs) == 0 {
		return def
	}
	return xs[len(xs)-1]
}

// drawCrc (dimension audit, session 5): channel.verifyCrc is DRAWN. The flag is read by StoreChannel.NewReader when a
// reader is created (cases run one after the other). It is on for the disk cases with an odd history seed - stable
// across the repeats of a case - provided every snapshot the connection can meet is legal for a verifying reader:
// a real RDB file (cmd worlds: CRC64 trailer) or at most 8 bytes (nothing to verify); a PRF snapshot of more than 8
// bytes has no valid trailer and a verifying reader rightly refuses it (counted, not drawn).
func (h *vf6H) drawCrc(c *vf6Case) {
	cfg := config.GetSyncerConfig()
	if cfg == nil || h.noCrc {
		return // lanes run beside the main sequence and must not touch the process-wide flag (their cases are legal under both values)
	}
	h.s.Count("cfg_channel_" + map[string]string{"d": "disk", "m": "memory"}[c.backend])
	if c.backend == "d" {
		h.s.Count("cfg_storer_logSize_" + map[bool]string{true: "small_rotating", false: "default"}[c.logSize > 0 && c.logSize < 1<<16])
		h.s.Count("cfg_process_restart_" + vf6B(c.fresh))
	}
	want := c.backend == "d" && c.s1%2 == 1
	legal := c.cmd || (c.src.snapLen <= 8 && (!c.hasRdb || c.rdbSize <= 8))
	cfg.Channel.VerifyCrc = want && legal
	h.s.Count(fmt.Sprintf("cfg_verifyCrc_%v_%s", cfg.Channel.VerifyCrc, c.backend))
	if want && !legal {
		h.s.Count("cfg_verifyCrc_not_drawn_prf_snapshot_over_8_bytes")
	}
}

// limiterCheck (dimension audit, session 5: process-global state). Every run() takes one slot of the process-wide
// snapshot limiter (config Input.RdbLimiter(), a buffered channel shared by all inputs of the process) in fetchInput and
// gives it back on one of seven paths; a slot that is not given back is lost for the life of the process (rdbParallel
// attempts later every input blocks in fetchInput), a slot given back twice blocks the releasing goroutine for ever.
// Judged only where no other run() is in flight in the process (seq).
func (h *vf6H) limiterCheck(before int, what string) {
	if !h.seq {
		return
	}
	lim := config.GetSyncerConfig().Input.RdbLimiter()
	for i := 0; i < 200 && len(lim) != before; i++ {
		time.Sleep(time.Millisecond) // the source goroutine gives the slot back as it ends
	}
	h.s.Count("global_rdb_limiter_checked")
	if n := len(lim); n != before {
		h.sink.Violate("rdb-limiter-leak", fmt.Sprintf("the process-wide snapshot limiter held %d slots before run() and %d after it (%s)", before, n, what),
			map[string]interface{}{"case": what})
	}
}

func (h *vf6H) round(c *vf6Case, inner Channel, replay map[string]interface{}, real *vf6RealOut, truth *vf6Truth) *vf6Round {
	s := h.sink
	tag := "#T"
	w := c.world()
	if c.cmd {
		c.src.snapLen = int64(len(w.snapBytes(c.src.id1, c.src.master, 0)))
	}
	h.drawCrc(c)
	src := c.src // copy of the parameters
	src.w = w
	srcp := &src
	h.ln.cur.Store(srcp)
	ids := []string{src.id1, src.id2}
	final := src.master + src.k
	if real != nil {
		// the stored position is whatever the real RedisOutput reads back
		sp0, err := real.ro.StartPoint(context.Background(), ids)
		if err != nil {
			h.t.Fatalf("real StartPoint: %v", err)
		}
		c.sp = StartPoint{RunId: sp0.RunId, Offset: sp0.Offset}
	}
	op := c.opLine(tag)

	// ---- q: the cache's query API before the round
	q0, _ := inner.StartPoint(ids)
	qv := inner.IsValidOffset(Offset{RunId: c.cRun, Offset: c.sp.Offset})
	qq := inner.IsValidOffset(Offset{RunId: "?", Offset: c.sp.Offset})
	ql, qs := inner.GetRdb(c.cRun)
	rl, rr := inner.GetOffsetRange(c.cRun)
	qline := fmt.Sprintf("%s q sp=%s:%d valid=%s validq=%s rdb=%d,%d range=%d,%d wf=%s", tag, vfutil.HexS(q0.RunId), q0.Offset,
		vf6B(qv), vf6B(qq), ql, qs, rl, rr, vf6B(c.wf()))

	// ---- the real input against double, proxy and recording output
	proxy := &vf6Chan{inner: inner}
	out := &vf6Output{sp: c.sp, final: final, proxy: proxy, patience: &h.patience, missed: &h.missed, noWait: !c.wf()}
	switch h.fault {
	case "reset1":
		out.failReset = 1
	case "reset2":
		out.failReset = 2
	case "out_setrunid":
		out.failSetRunId = 1
	case "chan_del":
		proxy.failDel = true
	case "chan_set":
		proxy.failSet = true
	case "info":
		// dimension audit: a TRANSIENT failure before the bookkeeping - INFO replication is answered with an error, the
		// run ends, and the next connection (judged as every connection) finds cache and position as they were
		srcp.failInfo = true
		proxy.faulted.Store(true)
	}
	ri := NewRedisInput(h.inCfg)
	ri.SetOutput(out)
	if real != nil {
		real.rec = out
		out.failSnapshot = real.failSnapshot
		ri.SetOutput(real)
	}
	ri.SetChannel(proxy)
	out.incr = func() usync.WaitChannel { return ri.StateNotify(SyncStateFullSynced) }
	logMark := 0
	if real != nil && real.realSend {
		logMark = real.tg.LogLen()
	}
	t0 := time.Now()
	lim0 := len(config.GetSyncerConfig().Input.RdbLimiter())
	runErr := ri.run()
	h.limiterCheck(lim0, op)
	if ms := time.Since(t0).Milliseconds(); ms > h.slowMs {
		h.slowMs = ms
	}
	if ms := time.Since(t0).Milliseconds(); ms > 2000 {
		h.s.Count("slow_rounds_over_2s")
		h.t.Logf("slow round %d ms: err=%v sent=%v ingested=%v readErr=%q writers=%v readerErr=%v op=%s", ms, runErr, out.sent, out.ingested,
			out.readErr, proxy.wr, proxy.rdErr, op)
	}

	srcp.mu.Lock()
	psyncs := append([]string(nil), srcp.psync...)
	reply := srcp.reply
	srcp.mu.Unlock()

	// ---- meta
	psy := "none"
	var reqId string
	var reqOff int64
	if len(psyncs) > 0 {
		f := strings.SplitN(psyncs[len(psyncs)-1], " ", 2)
		reqId = f[0]
		reqOff, _ = strconv.ParseInt(f[1], 10, 64)
		psy = vfutil.HexS(f[0]) + ":" + f[1]
	}
	if reply == "" {
		reply = "none"
	}
	full := strings.HasPrefix(reply, "full:")
	br := 0
	switch {
	case len(proxy.valid) > 0 && strings.HasSuffix(proxy.valid[0], "=1"):
		br = 1
	case len(proxy.valid) > 0:
		br = 2
	case len(proxy.rdbq) > 0 && !strings.HasPrefix(proxy.rdbq[0], "-1,") && !strings.HasSuffix(proxy.rdbq[0], ",-1"):
		br = 4
	case len(proxy.rdbq) > 0:
		br = 5
	case reqId == "?":
		br = 6
	default:
		br = 3
	}
	rid := vf6Last(proxy.sets, "")
	mline := fmt.Sprintf("%s meta br=%d psync=%s reply=%s full=%s del=%s rid=%s", tag, br, psy, reply, vf6B(full),
		vf6B(len(proxy.dels) > 0), vfutil.HexS(rid))
	if c.wf() {
		mline += fmt.Sprintf(" resets=%d", out.resets)
	}
	for _, got := range out.spIds {
		if len(got) != 2 || got[0] != src.id1 || got[1] != src.id2 {
			mline += fmt.Sprintf(" !StartPoint.ids=%v", got)
		}
	}
	if orid := vf6Last(out.setRunIds, ""); orid != rid {
		mline += " !output.SetRunId=" + vfutil.HexS(orid)
	}
	if len(psyncs) != 1 {
		mline += fmt.Sprintf(" !psyncs=%d", len(psyncs))
	}

	// ---- io
	wr := "err"
	if len(proxy.wr) > 0 {
		wr = proxy.wr[0]
	}
	rd := "none"
	if out.sent {
		if out.kind == "aof" {
			rd = fmt.Sprintf("aof:%d", out.left)
		} else {
			rd = fmt.Sprintf("rdb:%d:%d", out.left, out.size)
		}
	}
	ioline := fmt.Sprintf("%s io writer=%s reader=%s", tag, wr, rd)

	// ---- after
	arid := inner.RunId()
	al, as := inner.GetRdb(arid)
	cl, cr := inner.GetOffsetRange(arid)
	lsp, _ := inner.StartPoint(nil)
	aline := fmt.Sprintf("%s after runid=%s rdb=%d,%d range=%d,%d latest=%d", tag, vfutil.HexS(arid), al, as, cl, cr, lsp.Offset)

	if h.fault != "" {
		// a bookkeeping call failed: the run must end without delivering anything
		// (monitor only; the Lean model has no failing calls)
		res := &vf6Round{final: final, delivered: "none"}
		if out.faulted || proxy.faulted.Load() {
			h.s.Count("fault_" + h.fault)
			if out.sent {
				h.s.Violate("delivered-after-failed-bookkeeping", fmt.Sprintf("%s failed, yet the run went on and handed a %s reader (left %d) to the output", h.fault, out.kind, out.left),
					map[string]interface{}{"case": op, "fault": h.fault, "observed": fmt.Sprintf("psync=%v writers=%v runErr=%v", psyncs, proxy.wr, runErr)})
			}
			if runErr == nil {
				h.s.Violate("failed-bookkeeping-not-reported", fmt.Sprintf("%s failed, the run ended without error", h.fault),
					map[string]interface{}{"case": op, "fault": h.fault})
			}
		} else {
			h.s.Count("fault_not_reached_" + h.fault)
		}
		// the cache the failed run leaves behind (its bytes are still those the case put
		// there, whatever label they carry now): the next connection is judged on it
		arid := inner.RunId()
		al, as := inner.GetRdb(arid)
		cl, cr := inner.GetOffsetRange(arid)
		res.after = *c
		res.after.cRun = arid
		res.after.logId = c.logHist()
		res.after.hasRdb, res.after.rdbLeft, res.after.rdbSize = al >= 0 && as >= 0, al, as
		res.after.hasAof = false
		if cl >= 0 && cr >= 0 {
			if res.after.hasRdb {
				if cr > al {
					res.after.hasAof, res.after.aofL, res.after.aofR = true, al, cr
				}
			} else {
				res.after.hasAof, res.after.aofL, res.after.aofR = true, cl, cr
			}
		}
		if len(proxy.wr) > 0 && strings.HasPrefix(proxy.wr[0], "rdb:") {
			// the failing call came after the snapshot writer was created: what the cache
			// holds now is the source's snapshot (and log)
			res.after.logId, res.after.tokId = "", src.id1
		}
		if !res.after.hasRdb && !res.after.hasAof {
			res.after.logId, res.after.tokId = "", arid
		}
		res.after.fresh, res.after.extra = false, ""
		h.fault = "" // one failing call per case
		return res
	}

	// ---- what the target received (real Send): stream commands and snapshot keys of this round
	type vf6Applied struct {
		tag byte
		i   int64
	}
	var applied []vf6Applied
	snapKeys := map[string]bool{}
	realSend := real != nil && real.realSend
	if realSend {
		for _, le := range real.tg.LogCopy()[logMark:] {
			if len(le.Args) < 3 {
				continue
			}
			cmd, key := le.Cmd(), string(le.Args[1])
			switch {
			case strings.HasPrefix(key, "snap:") && (cmd == "set" || cmd == "restore"):
				snapKeys[key] = true
			case cmd == "set" && len(key) == 8 && key[0] == 'k' && len(le.Args[2]) == 8:
				n, _ := strconv.ParseInt(string(le.Args[2][1:]), 10, 64)
				applied = append(applied, vf6Applied{le.Args[2][0], n})
			}
		}
		if out.sent && out.kind == "aof" {
			out.got = make([]byte, len(applied)*vf6CmdLen) // length only; the content is judged on the log
		}
	}

	// ---- bytes
	var bline string
	res := &vf6Round{final: final, full: full, runId: out.runId, left: out.left, size: out.size, interrupted: out.interrupted}
	first := out.got
	if len(first) > 64 {
		first = first[:64]
	}
	switch {
	case out.sent && out.kind == "aof":
		res.delivered = "stream"
		bline = fmt.Sprintf("%s bytes kind=stream start=%d n=%d first=%s", tag, out.left, final-out.left, vfutil.Hex(first))
		if realSend {
			bline = fmt.Sprintf("%s bytes kind=stream start=%d n=%d", tag, out.left, final-out.left)
		}
	case out.sent:
		res.delivered = "snapshot"
		bline = fmt.Sprintf("%s bytes kind=snapshot left=%d n=%d first=%s", tag, out.left, out.size, vfutil.Hex(first))
		if realSend {
			bline = fmt.Sprintf("%s bytes kind=snapshot left=%d n=%d", tag, out.left, out.size)
		}
	default:
		res.delivered = "none"
		bline = fmt.Sprintf("%s bytes kind=none", tag)
	}
	if out.readErr != "" {
		s.Count("send_error_" + strings.SplitN(out.readErr, ":", 2)[0])
	}
	lines := []string{qline, mline, ioline, aline, bline}
	if !c.wf() {
		lines = []string{qline, mline} // outside the hypotheses: query API and decision only
	}
	if real != nil {
		// the position the real output holds after the round, against the model's `step`
		e := int64(0)
		if out.sent && out.kind == "aof" {
			e = out.left + int64(len(out.got))
		}
		mode := "1"
		if realSend {
			mode = "2"
		}
		c.extra = fmt.Sprintf("%s %s %s %d", mode, vf6B(real.ro.cfg.EnableResumeFromBreakPoint), vf6B(out.sent && !out.interrupted), e)
		op = c.opLine(tag)
		sp2, _ := real.ro.StartPoint(context.Background(), ids)
		lines = append(lines, fmt.Sprintf("%s tgt stored=%s:%d", tag, vfutil.HexS(sp2.RunId), sp2.Offset))
	} else {
		c.extra = ""
	}
	s.Op(op, lines...)

	// ---- coverage
	s.Count(fmt.Sprintf("branch_%d_%s_%s", br, map[bool]string{true: "full", false: "cont"}[full], c.backend))
	s.Count("delivered_" + res.delivered)
	s.Count("backend_" + c.backend)
	if c.fresh {
		s.Count("disk_reopened")
	}
	spk := "unknown"
	switch c.sp.RunId {
	case src.id1:
		spk = "id1"
	case src.id2:
		spk = "id2"
	case "?":
		spk = "initial"
	}
	ck := "other"
	switch c.cRun {
	case src.id1:
		ck = "id1"
	case src.id2:
		ck = "id2"
	case "":
		ck = "none"
	}
	shape := "empty"
	if c.hasRdb && c.hasAof {
		shape = "rdb+aof"
	} else if c.hasRdb {
		shape = "rdb"
	} else if c.hasAof {
		shape = "aof"
	}
	rel := "na"
	if c.sp.RunId != "?" && (c.hasAof || c.hasRdb) {
		lo, hi := c.aofL, c.aofR
		if !c.hasAof {
			lo, hi = c.rdbLeft, c.rdbLeft
		}
		switch {
		case c.sp.Offset < lo:
			rel = "before"
		case c.sp.Offset > hi:
			rel = "beyond"
		default:
			rel = "inside"
		}
	}
	blk := "lost"
	if src.backlog {
		if reqOff >= src.first && reqOff <= src.first+src.blen {
			blk = "has"
		} else {
			blk = "hasnot"
		}
	}
	s.Count("stored_" + spk)
	s.Count("cacheid_" + ck)
	s.Count("cache_" + shape)
	s.Count("stored_vs_cache_" + rel)
	s.Count("backlog_" + blk)
	s.Distinct(fmt.Sprintf("%s|%s|%s|%s|%s|%s|%d|%s|%s", c.backend, spk, ck, shape, rel, blk, br, vf6B(full), res.delivered))

	if !c.wf() {
		// outside the hypotheses of the theorems (e.g. a log that does not start at
		// the snapshot's offset, C08's subject): model and code are compared, the
		// property is not judged
		s.Count("outside_theorem_hypotheses")
		res.after = *c
		res.after.cRun = arid
		return res
	}
	// ---- monitor (independent of the Lean model)
	rp := func(extra string) map[string]interface{} {
		m := map[string]interface{}{"case": op, "observed": strings.Join([]string{mline, ioline, aline, bline}, " ; ")}
		for k, v := range replay {
			m[k] = v
		}
		if extra != "" {
			m["expected"] = extra
		}
		return m
	}
	inSrc := c.sp.RunId == src.id1 || c.sp.RunId == src.id2
	switch res.delivered {
	case "stream":
		if full {
			s.Violate("stream-without-continue", "log bytes delivered although the source answered FULLRESYNC", rp("snapshot"))
		}
		if !inSrc {
			s.Violate("continue-foreign-id", "stream continued for a stored position of an id the source does not serve", rp(""))
		}
		if out.left != c.sp.Offset {
			s.Violate("start-not-stored-position", fmt.Sprintf("reader starts at %d, stored position is %d", out.left, c.sp.Offset),
				rp(fmt.Sprintf("start=%d", c.sp.Offset)))
		}
		want := w.histRange(src.id1, c.sp.Offset, final)
		if realSend {
			// judged on the target's request log: exactly the commands of the current
			// history from the stored offset on, in order, none missing, none twice
			ok := int64(len(applied))*vf6CmdLen == final-c.sp.Offset && c.sp.Offset%vf6CmdLen == 0
			for j, a := range applied {
				i := c.sp.Offset/vf6CmdLen + int64(j)
				if a.i != i || a.tag != w.tagAt(src.id1, i*vf6CmdLen) {
					ok = false
				}
			}
			if !ok {
				got := []string{}
				for _, a := range applied {
					got = append(got, fmt.Sprintf("%c%d", a.tag, a.i))
					if len(got) >= 12 {
						break
					}
				}
				s.Violate("target-log-stream", fmt.Sprintf("the target received %d commands %v…, expected commands %d..%d of %s (tag %c)", len(applied), got,
					c.sp.Offset/vf6CmdLen, final/vf6CmdLen-1, src.id1, w.tagAt(src.id1, c.sp.Offset)), rp(""))
			}
		} else if !bytes.Equal(out.got, want) {
			s.Violate("stream-bytes", fmt.Sprintf("delivered %d bytes differ from hist(id1)[%d,%d) (%d bytes)", len(out.got), c.sp.Offset, final, len(want)),
				rp("first="+vfutil.Hex(want[:vfutil.Min(len(want), 64)])))
		}
		// the consumed prefix must belong to the current history
		if c.sp.RunId != src.id1 && c.sp.RunId == src.id2 && c.sp.Offset > src.switchOff {
			if c.cRun == src.id1 {
				// excluded by hypothesis StoredCompat (see Props/C06.lean): the
				// stored label is the previous id, the cache already the current one
				if truth != nil {
					s.Count("stale_label_judged_by_truth") // the ground-truth block below decides
				} else {
					// the label alone does not say what the target holds (stale label on the
					// current history, or really the previous history): not judged here
					s.Count("stored_label_only_unjudged")
				}
			} else {
				s.Violate("continue-other-history", fmt.Sprintf("stored %s:%d is beyond the switch offset %d of the previous id, yet the stream continued", c.sp.RunId, c.sp.Offset, src.switchOff), rp("snapshot"))
			}
		}
	case "snapshot":
		var want []byte
		if full {
			// the snapshot the source just sent
			want = w.snapBytes(src.id1, src.master, src.snapLen)
			if out.left != src.master || out.size != src.snapLen {
				s.Violate("snapshot-position", fmt.Sprintf("snapshot reader (%d,%d), source announced (%d,%d)", out.left, out.size, src.master, src.snapLen), rp(""))
			}
		} else {
			// a cached snapshot: only the one the harness stored, of a history
			// that agrees with the current one below its offset, and only when
			// the source granted continuation
			want = w.snapBytes(c.tokId, c.rdbLeft, c.rdbSize)
			ok := c.hasRdb && out.left == c.rdbLeft && out.size == c.rdbSize &&
				(c.tokId == src.id1 || (c.tokId == src.id2 && c.rdbLeft <= src.switchOff))
			if !ok {
				s.Violate("cached-snapshot-foreign", "a cached snapshot of another history / position was replayed", rp(""))
			}
			if !strings.HasPrefix(reply, "cont:") {
				s.Violate("cache-reuse-without-continue", "cached snapshot replayed without the source granting continuation", rp(""))
			}
			if len(proxy.dels) > 0 {
				s.Violate("cache-reuse-after-clear", "cache was cleared yet a cached snapshot was replayed", rp(""))
			}
		}
		if realSend {
			if !out.interrupted {
				tok := src.id1
				if !full {
					tok = c.tokId
				}
				tg := vf6Tag(w.seedOf(tok))
				if !snapKeys[vf6SnapKey(tg, out.left, "a")] || !snapKeys[vf6SnapKey(tg, out.left, "b")] || len(snapKeys) != 2 || len(applied) != 0 {
					s.Violate("target-log-snapshot", fmt.Sprintf("the target received snapshot keys %v and %d stream commands, expected the two keys of snapshot %c:%d only", snapKeys, len(applied), tg, out.left), rp(""))
				}
			}
		} else if !bytes.Equal(out.got, want) {
			s.Violate("snapshot-bytes", fmt.Sprintf("delivered snapshot (%d bytes) is not the complete expected one (%d bytes)", len(out.got), len(want)), rp(""))
		}
	default:
		s.aborted = true
		s.abortWhy = "other"
		if len(proxy.wr) > 0 && strings.HasPrefix(proxy.wr[0], "rdb:") && len(proxy.rdErr) > 0 &&
			(strings.Contains(proxy.rdErr[0], "no such file") || strings.Contains(proxy.rdErr[0], "file does not exist")) {
			s.abortWhy = "store_rdbreader_rename_race"
		}
		s.Violate("run-aborted", fmt.Sprintf("nothing delivered: err=%v writer=%v readerErr=%v", runErr, proxy.wr, proxy.rdErr), rp(""))
	}
	if !full && len(psyncs) == 1 {
		// continuation is relied on only with the +1 convention: the first
		// byte the writer stores is the one requested
		if wr != fmt.Sprintf("aof:%d", reqOff-1) {
			s.Violate("psync-offset-convention", fmt.Sprintf("PSYNC asked for byte %d but the writer stores from %s", reqOff, wr), rp(fmt.Sprintf("aof:%d", reqOff-1)))
		}
	}
	if full && len(proxy.wr) >= 2 && proxy.wr[1] != fmt.Sprintf("aof:%d", src.master) {
		s.Violate("stream-after-snapshot-offset", fmt.Sprintf("after FULLRESYNC at %d the log writer starts at %s", src.master, proxy.wr[1]), rp(""))
	}
	if out.sent && !out.ingested {
		s.Count("ingest_wait_timeout")
	}
	// the cache after the round holds only the current history
	if arid != "" && out.sent {
		if arid != src.id1 {
			s.Violate("cache-label", fmt.Sprintf("cache labelled %q after the round, source id is %q", arid, src.id1), rp(""))
		} else if cr > cl && cl >= 0 {
			from := cl
			if al >= 0 && cr > al {
				from = al // with a snapshot the log is read from its offset
			}
			if rdr, err := inner.NewReader(Offset{RunId: arid, Offset: from}); err == nil {
				if rdr.IsAof() {
					wc := vf6NewWait()
					rdr.Start(wc)
					buf := make([]byte, cr-from)
					done := make(chan error, 1)
					go func() { _, e := io.ReadFull(rdr.IoReader(), buf); done <- e }()
					select {
					case e := <-done:
						if e != nil || !bytes.Equal(buf, w.histRange(src.id1, from, cr)) {
							s.Violate("cache-bytes", fmt.Sprintf("cache [%d,%d) under %s differs from hist(id1) (err=%v)", from, cr, arid, e), rp(""))
						}
					case <-time.After(time.Duration(h.patience.Load()) * time.Millisecond):
						h.missed.Store(true)
						if h.lastAttempt {
							s.Violate("cache-bytes", "cache read-back did not deliver the cached range (confirmed on repeated attempts)", rp(""))
						}
					}
					wc.Close(nil)
					rdr.Close()
					wc.WgWait()
					s.Count("cache_readback")
				} else {
					rdr.Close()
				}
			}
		}
	}

	// ---- ground truth of the target's data (schedules with the real RedisOutput)
	if truth != nil {
		agrees := truth.id == src.id1 || (truth.id == src.id2 && truth.upto <= src.switchOff)
		switch {
		case res.delivered == "stream":
			switch {
			case truth.none:
				s.Violate("stream-onto-empty-target", "log bytes delivered to a target that holds no snapshot", rp("snapshot"))
			case truth.dirty:
				s.Violate("stream-after-interrupted-snapshot", fmt.Sprintf("the last snapshot replay did not complete, yet the log of %s is continued from %d (stored position %s:%d)",
					src.id1, out.left, c.sp.RunId, c.sp.Offset), rp("snapshot"))
			case out.left != truth.upto || !agrees:
				s.Violate("continue-other-history", fmt.Sprintf("the target holds history %s up to %d (switch offset %d); the log of %s is continued from %d (stored position %s:%d)",
					truth.id, truth.upto, src.switchOff, src.id1, out.left, c.sp.RunId, c.sp.Offset), rp("snapshot"))
			}
			if int64(len(out.got)) == final-out.left && final > out.left {
				*truth = vf6Truth{id: src.id1, upto: final}
			}
		case res.delivered == "snapshot" && out.interrupted:
			truth.dirty, truth.none = true, false
		case res.delivered == "snapshot":
			*truth = vf6Truth{id: src.id1, upto: out.left}
		}
	}

	// describe the cache after the round for a follow-up round
	res.after = *c
	res.after.cRun = arid
	res.after.hasRdb, res.after.rdbLeft, res.after.rdbSize = al >= 0 && as >= 0, al, as
	if full || !res.after.hasRdb {
		res.after.tokId = src.id1 // the snapshot just received (or none)
	}
	res.after.hasAof = false
	if cl >= 0 && cr >= 0 {
		if res.after.hasRdb {
			if cr > al {
				res.after.hasAof, res.after.aofL, res.after.aofR = true, al, cr
			}
		} else {
			res.after.hasAof, res.after.aofL, res.after.aofR = true, cl, cr
		}
	}
	res.after.fresh = false
	res.after.extra = ""
	return res
}

// ---------------------------------------------------------------- schedules with the real RedisOutput

// vf6Truth is what the target's data really is: history `id` applied up to
// `upto` (none: nothing yet; dirty: a snapshot replay was interrupted).
type vf6Truth struct {
	none  bool
	dirty bool
	id    string
	upto  int64
}

// vf6RealOut: StartPoint and SetRunId are the real RedisOutput's (checkpoint
// bookkeeping on the shared target double); Send records the bytes and then
// stores the position exactly where the real SendRdb / sendAof store it.
type vf6RealOut struct {
	ro           *RedisOutput
	rec          *vf6Output
	failSnapshot bool
	// realSend: Send is the real RedisOutput.Send (SendRdb / SendAof) replaying
	// onto the target double; otherwise the bytes are recorded and the position
	// is stored the way SendRdb / sendAof store it
	realSend bool
	tg       *vfdoubles.Target
	patience *atomic.Int64
	missed   *atomic.Bool
	onSend   func() // called when Send is entered (request-level cut schedules: where the replay begins in the target's log)
}

// storedOffset reads the position the output currently holds for run id `id`
func (o *vf6RealOut) storedOffset(id string) int64 {
	if !o.ro.cfg.EnableResumeFromBreakPoint {
		o.ro.cpGuard.RLock()
		defer o.ro.cpGuard.RUnlock()
		return o.ro.checkpointInMem.Offset
	}
	for db := 0; db < 16; db++ {
		if f := o.tg.HashFields(db, o.ro.cfg.CheckpointName); f != nil {
			if v, ok := f[id+"_offset"]; ok {
				n, _ := strconv.ParseInt(v, 10, 64)
				return n
			}
		}
	}
	return -1
}

// sendReal runs the real RedisOutput.Send. A snapshot reader is replayed to the
// end (or made to fail: every request of the replay is refused); a log reader
// is replayed until the target has received everything the source produced and
// the output has stored that position, then cancelled (as a closing run does).
func (o *vf6RealOut) sendReal(ctx context.Context, reader ChannelReader) error {
	rec := o.rec
	rec.mu.Lock()
	rec.sent = true
	rec.left, rec.size, rec.runId = reader.Left(), reader.Size(), reader.RunId()
	rec.kind = "rdb"
	if reader.IsAof() {
		rec.kind = "aof"
	}
	rec.mu.Unlock()
	wait := func() time.Duration { return time.Duration(o.patience.Load()) * time.Millisecond }
	miss := func() { o.missed.Store(true) }
	var err error
	if !reader.IsAof() {
		if o.failSnapshot {
			n0 := o.tg.LogLen()
			for i := 0; i < 400; i++ {
				o.tg.FailAt[n0+i] = "ERR injected by the C06 harness"
			}
			err = o.ro.Send(ctx, reader)
			for i := 0; i < 400; i++ {
				delete(o.tg.FailAt, n0+i)
			}
			if err == nil {
				err = fmt.Errorf("injected failure did not stop the snapshot replay")
				rec.readErr = "snapshot-replay-survived-failures"
			}
			rec.interrupted = true
		} else {
			err = o.ro.Send(ctx, reader)
			if err != nil {
				rec.interrupted = true
				rec.readErr = "SendRdb:" + strings.ReplaceAll(err.Error(), " ", "_")
			}
		}
	} else {
		ctx2, cancel := context.WithCancel(ctx)
		done := make(chan error, 1)
		go func() { done <- o.ro.Send(ctx2, reader) }()
		want := rec.final
		deadline := time.Now().Add(wait())
		reached := false
		for time.Now().Before(deadline) {
			if want <= rec.left || o.storedOffset(reader.RunId()) == want {
				reached = true
				break
			}
			select {
			case e := <-done:
				done <- e
				deadline = time.Now()
			default:
			}
			time.Sleep(300 * time.Microsecond)
		}
		if !reached {
			miss()
			vf6MissNote.Store("position-stored")
		}
		if want <= rec.left {
			time.Sleep(3 * time.Millisecond) // nothing to replay: let the sender idle a moment
		}
		cancel()
		select {
		case <-done:
		case <-time.After(wait()):
			miss()
			vf6MissNote.Store("sendaof-stop")
			rec.readErr = "SendAof-did-not-stop"
		}
	}
	// let the input reach its log-writer phase and the writer store everything
	select {
	case <-rec.incr():
	case <-time.After(wait()):
		miss()
		vf6MissNote.Store("writer-phase")
	}
	deadline := time.Now().Add(wait())
	for time.Now().Before(deadline) {
		if rec.proxy.aofWriterSeen() {
			in := rec.proxy.inner
			_, r := in.GetOffsetRange(in.RunId())
			if r == rec.final || (rec.final <= rec.proxy.aofWriterOff() && r <= rec.proxy.aofWriterOff()) {
				rec.ingested = true
				break
			}
		}
		time.Sleep(200 * time.Microsecond)
	}
	if !rec.ingested {
		miss()
		vf6MissNote.Store("ingest")
	}
	return err
}

func (o *vf6RealOut) StartPoint(ctx context.Context, ids []string) (StartPoint, error) {
	sp, err := o.ro.StartPoint(ctx, ids)
	o.rec.mu.Lock()
	o.rec.spIds = append(o.rec.spIds, append([]string(nil), ids...))
	o.rec.mu.Unlock()
	return sp, err
}
func (o *vf6RealOut) SetRunId(ctx context.Context, id string) error {
	o.rec.mu.Lock()
	o.rec.setRunIds = append(o.rec.setRunIds, id)
	o.rec.mu.Unlock()
	return o.ro.SetRunId(ctx, id)
}
func (o *vf6RealOut) ResetStartPoint(ctx context.Context, ids []string) error {
	o.rec.mu.Lock()
	o.rec.resets++
	o.rec.mu.Unlock()
	return o.ro.ResetStartPoint(ctx, ids)
}
func (o *vf6RealOut) Close() {}
func (o *vf6RealOut) Send(ctx context.Context, reader ChannelReader) error {
	if o.onSend != nil {
		o.onSend()
	}
	if o.realSend {
		return o.sendReal(ctx, reader)
	}
	if err := o.rec.Send(ctx, reader); err != nil {
		return err
	}
	bg := context.Background()
	if !reader.IsAof() {
		// SendRdb's last statement
		return o.ro.setCheckpoint(bg, reader.RunId(), reader.Left(), config.Version)
	}
	if int64(len(o.rec.got)) == 0 {
		return nil // nothing consumed: sendFuncOnce stores nothing
	}
	end := reader.Left() + int64(len(o.rec.got))
	if o.ro.cfg.EnableResumeFromBreakPoint {
		// sendCmdsBatch: run id fields + offset of the last command, under the reader's run id
		return o.ro.setCheckpoint(bg, reader.RunId(), end, config.Version)
	}
	o.ro.cpGuard.Lock()
	o.ro.checkpointInMem.Offset = end
	o.ro.cpGuard.Unlock()
	return nil
}

// vf6Bridge makes the in-memory target double reachable by address (newOutput
// and UpdateCheckpoint dial the output by its configured address).
type vf6Bridge struct {
	ln  net.Listener
	cur atomic.Pointer[vfdoubles.Target]
}

func vf6NewBridge() (*vf6Bridge, error) {
	ln, err := net.Listen("tcp", "127.0.0.1:0")
	if err != nil {
		return nil, err
	}
	b := &vf6Bridge{ln: ln}
	go func() {
		for {
			c, err := ln.Accept()
			if err != nil {
				return
			}
			tg := b.cur.Load()
			if tg == nil {
				c.Close()
				continue
			}
			p := tg.Dial()
			go func() { io.Copy(p, c); p.Close() }()
			go func() { io.Copy(c, p); c.Close() }()
		}
	}()
	return b, nil
}

// vf6Window: a schedule around a change of history.
//
//	kind "full-interrupted": the target follows history A up to X; the source
//	  turns into B (failover with switch offset S, or unrelated) and answers
//	  FULLRESYNC at O; the snapshot replay fails; the run restarts.
//	kind "restart-rekey": the target follows A up to X; the source fails over
//	  to B (switch offset S); the syncer restarts (newOutput) with the cache
//	  lost / behind, then connects.
type vf6Window struct {
	send     string // "rec": bytes recorded, position stored as SendRdb/sendAof do; "real": the real RedisOutput.Send replays onto the target double
	kind     string
	backend  string
	resume   bool
	failover bool  // B exposes A as its previous id
	restart  bool  // full-interrupted: the syncer (output) is re-created before the last round
	oA       int64 // A's offset at the first full sync
	x        int64 // position the target reaches in A
	s        int64 // switch offset (failover)
	o        int64 // B's offset when the tool connects
	k1       int64 // bytes B produces during the interrupted round
	k2       int64 // bytes B produces in the last round
	snap     int64
	seedA    uint64
	seedB    uint64
}

func (wd *vf6Window) String() string {
	return fmt.Sprintf("window send=%s kind=%s backend=%s resume=%v failover=%v restart=%v oA=%d x=%d s=%d o=%d k1=%d k2=%d snap=%d seedA=%d seedB=%d",
		wd.send, wd.kind, wd.backend, wd.resume, wd.failover, wd.restart, wd.oA, wd.x, wd.s, wd.o, wd.k1, wd.k2, wd.snap, wd.seedA, wd.seedB)
}

func vf6ParseWindow(l string) (*vf6Window, error) {
	wd := &vf6Window{send: "rec"}
	f := strings.Fields(l)
	if len(f) < 2 || f[0] != "window" {
		return nil, fmt.Errorf("not a window line")
	}
	for _, kv := range f[1:] {
		p := strings.SplitN(kv, "=", 2)
		if len(p) != 2 {
			return nil, fmt.Errorf("bad field %q", kv)
		}
		i64, _ := strconv.ParseInt(p[1], 10, 64)
		switch p[0] {
		case "send":
			wd.send = p[1]
		case "kind":
			wd.kind = p[1]
		case "backend":
			wd.backend = p[1]
		case "resume":
			wd.resume = p[1] == "true"
		case "failover":
			wd.failover = p[1] == "true"
		case "restart":
			wd.restart = p[1] == "true"
		case "oA":
			wd.oA = i64
		case "x":
			wd.x = i64
		case "s":
			wd.s = i64
		case "o":
			wd.o = i64
		case "k1":
			wd.k1 = i64
		case "k2":
			wd.k2 = i64
		case "snap":
			wd.snap = i64
		case "seedA":
			wd.seedA = uint64(i64)
		case "seedB":
			wd.seedB = uint64(i64)
		}
	}
	return wd, nil
}

// gcLoop: the collector is ON (MaxSize > 0, small segments). The cache holds a
// snapshot at `left` and more log than fits; the target has nothing stored. The
// cached snapshot is replayed (branch 4); the next connection, with (id,left)
// stored, must deliver the log from `left` on - or, when the cache no longer
// holds those bytes, must not offer that snapshot in the first place. A cache
// that keeps offering the snapshot while having dropped the log behind it makes
// every connection replay the snapshot again: it is never followed by the stream.
func (h *vf6H) gcLoop(backend string, r *vfutil.Rand, tmp string, fixed []int64) {
	s := h.s
	id := vf6HexId(r)
	left, size := int64(r.Range(100, 2000)), int64(r.Range(4, 24))
	maxSize, logSize := int64(r.Range(48, 96)), int64(r.Range(8, 24))
	n := maxSize + int64(r.Range(16, 80)) // more log than fits beside the snapshot
	if len(fixed) == 5 {
		maxSize, logSize, left, size, n = fixed[0], fixed[1], fixed[2], fixed[3], fixed[4]
	}
	w := &vf6World{id1: id, id2: vf6ZeroId, switchOff: -2, sb: 1, s1: uint64(r.Range(1, 99999)), s2: 2, so: 3}
	h.nCase++
	dir := filepath.Join(tmp, fmt.Sprintf("g%d", h.nCase))
	os.MkdirAll(dir, 0o777)
	defer os.RemoveAll(dir)
	var ch Channel
	if backend == "m" {
		ch = NewMemoryChannel(MemoryConf{InputId: "vf", MaxSize: maxSize, LogSize: logSize})
	} else {
		ch = NewStoreChannel(StorerConf{InputId: "vf", Dir: dir, MaxSize: maxSize, LogSize: logSize})
	}
	defer ch.Close()
	gc := func() {
		if sc, ok := ch.(*StoreChannel); ok {
			sc.storer.VerifGcLog()
		}
	}
	c := &vf6Case{backend: backend, cRun: id, tokId: id, hasRdb: true, rdbLeft: left, rdbSize: size, hasAof: true, aofL: left, aofR: left + n}
	c.src.id1, c.src.id2, c.src.switchOff = id, vf6ZeroId, -2
	c.s1 = w.s1
	if err := h.populate(c, ch, w); err != nil {
		s.Count("gcloop_populate_failed")
		return
	}
	gc()
	rl, rs := ch.GetRdb(id)
	gl, gr := ch.GetOffsetRange(id)
	state := fmt.Sprintf("backend=%s maxSize=%d logSize=%d snapshot=(%d,%d) log written=[%d,%d) -> GetRdb=(%d,%d) range=[%d,%d]", backend, maxSize, logSize, left, size, left, left+n, rl, rs, gl, gr)
	s.Count("gcloop_" + backend)
	if rl >= 0 && gl > rl {
		s.Count("gcloop_snapshot_offered_without_its_log_" + backend)
	}
	sp := StartPoint{RunId: "?", Offset: -1}
	master := left + n
	var hist []string
	for round := 0; round < 4; round++ {
		k := int64(r.Range(4, 20))
		src := &vf6Source{id1: id, id2: vf6ZeroId, switchOff: -2, backlog: true, first: 1, blen: master, master: master, snapLen: size, capaId: true, k: k, w: w}
		h.ln.cur.Store(src)
		h.missed.Store(false)
		proxy := &vf6Chan{inner: ch}
		out := &vf6Output{sp: sp, final: master + k, proxy: proxy, patience: &h.patience, missed: &h.missed}
		ri := NewRedisInput(h.inCfg)
		ri.SetOutput(out)
		ri.SetChannel(proxy)
		out.incr = func() usync.WaitChannel { return ri.StateNotify(SyncStateFullSynced) }
		runErr := ri.run()
		gc()
		if h.missed.Load() {
			s.Count("gcloop_wait_limit") // e.g. the writer waits for space: not judged
			return
		}
		hist = append(hist, fmt.Sprintf("stored %s:%d -> %s left=%d full=%v err=%v", sp.RunId, sp.Offset, out.kind, out.left, len(proxy.wr) > 0 && strings.HasPrefix(proxy.wr[0], "rdb"), runErr != nil))
		if !out.sent {
			s.Count("gcloop_nothing_delivered")
			return
		}
		if out.kind == "rdb" {
			if sp.RunId != "?" && out.left == sp.Offset && int64(len(out.got)) == out.size {
				s.Violate("snapshot-replayed-again-at-stored-position",
					fmt.Sprintf("the snapshot at %d was replayed completely and %s:%d stored; the next connection replays the same snapshot instead of the log from %d (%s)", out.left, sp.RunId, sp.Offset, out.left, state),
					map[string]interface{}{"scenario": state, "rounds": strings.Join(hist, " | ")})
				return
			}
			if int64(len(out.got)) == out.size {
				sp = StartPoint{RunId: out.runId, Offset: out.left}
			}
		} else {
			if !bytes.Equal(out.got, w.histRange(id, out.left, master+k)) || out.left != sp.Offset {
				s.Violate("stream-bytes", fmt.Sprintf("collector on: delivered log from %d differs from the history (%s)", out.left, state),
					map[string]interface{}{"scenario": state, "rounds": strings.Join(hist, " | ")})
				return
			}
			sp = StartPoint{RunId: out.runId, Offset: master + k}
			s.Count("gcloop_stream_followed")
		}
		master += k
	}
}

func vf6NewWait() usync.WaitCloser { return usync.NewWaitCloser(nil) }

func vf6HexId(r *vfutil.Rand) string { return hex.EncodeToString(r.Bytes(20)) }

const vf6ZeroId = "0000000000000000000000000000000000000000"

func vf6Clamp(v int64) int64 {
	if v < 0 {
		return 0
	}
	return v
}

// generated (Source, stored position, cache) triple
func vf6GenCase(r *vfutil.Rand) *vf6Case {
	c := &vf6Case{backend: "d"}
	if r.Bool() {
		c.backend = "m"
	}
	c.logSize = 1 << 20
	if r.Chance(1, 4) {
		c.logSize = int64(r.Range(40, 200)) // several log segments
	}
	c.sb, c.s1, c.s2, c.so = uint64(r.Range(1, 99999)), uint64(r.Range(1, 99999)), uint64(r.Range(1, 99999)), uint64(r.Range(1, 99999))
	s := &c.src
	s.id1 = vf6HexId(r)
	s.capaId = !r.Chance(1, 10)
	s.heartbeat = r.Chance(1, 6)
	s.snapLen = int64(r.Range(1, 300))
	s.k = int64(r.Intn(120))
	if r.Chance(1, 5) {
		s.k = 0
	}
	base := int64(r.Range(0, 1500))
	if r.Chance(1, 8) {
		base = int64(r.Range(0, 3))
	}
	if r.Chance(2, 5) { // failover: previous id valid up to switchOff
		s.id2 = vf6HexId(r)
		s.switchOff = base + int64(r.Intn(400))
	} else {
		s.id2 = vf6ZeroId
		s.switchOff = -2 // second_replid_offset = -1
	}
	s.master = vf6Clamp(s.switchOff) + int64(r.Intn(600))
	if s.master < base {
		s.master = base + int64(r.Intn(600))
	}
	s.backlog = !r.Chance(1, 12)
	// backlog [first, master+1)
	switch r.Intn(4) {
	case 0:
		s.first = 1
	case 1:
		s.first = s.master + 1 // empty backlog
	default:
		s.first = 1 + int64(r.Intn(int(s.master)+1))
	}
	if s.first > s.master+1 {
		s.first = s.master + 1
	}
	s.blen = s.master + 1 - s.first

	other := vf6HexId(r)
	// cache
	switch r.Intn(10) {
	case 0:
		c.cRun = "" // nothing at all
	case 1, 2:
		c.cRun = other
	case 3, 4, 5:
		if s.id2 != vf6ZeroId {
			c.cRun = s.id2
		} else {
			c.cRun = s.id1
		}
	default:
		c.cRun = s.id1
	}
	points := []int64{0, 1, s.switchOff - 1, s.switchOff, s.switchOff + 1, s.first - 2, s.first - 1, s.first,
		s.master - 1, s.master, s.master + 1, s.master + 40, base, base + 100}
	pick := func() int64 {
		if r.Chance(1, 3) {
			return vf6Clamp(int64(r.Range(0, int(s.master)+60)))
		}
		return vf6Clamp(vfutil.Pick(r, points) + int64(r.Range(-2, 2))*int64(r.Intn(2)))
	}
	if c.cRun != "" {
		switch r.Intn(8) {
		case 0: // label only
		case 1: // snapshot only
			c.hasRdb = true
		case 2, 3: // log only
			c.hasAof = true
		default:
			c.hasRdb, c.hasAof = true, true
		}
		a, b := pick(), pick()
		if a > b {
			a, b = b, a
		}
		if a == b {
			b = a + 1 + int64(r.Intn(50))
		}
		if b-a > 700 {
			a = b - 700
		}
		c.aofL, c.aofR = a, b
		c.rdbLeft, c.rdbSize = a, int64(r.Range(1, 250))
		if !c.hasAof {
			c.aofL, c.aofR = 0, 0
		}
		if !c.hasRdb {
			c.rdbLeft, c.rdbSize = 0, 0
		}
	}
	c.tokId = c.cRun
	if c.hasRdb && c.hasAof && r.Chance(1, 10) {
		// outside CacheWF: the log does not start at the snapshot's offset
		d := int64(r.Range(1, 60))
		if r.Bool() && c.rdbLeft >= d {
			c.rdbLeft -= d
		} else {
			c.rdbLeft += d
		}
		c.nonContig = true
	}
	// stored position
	switch r.Intn(10) {
	case 0, 1:
		c.sp = StartPoint{RunId: "?", Offset: -1}
	case 2:
		c.sp.RunId = other
		if r.Bool() {
			c.sp.RunId = vf6HexId(r)
		}
	case 3, 4, 5:
		c.sp.RunId = s.id2
		if s.id2 == vf6ZeroId {
			c.sp.RunId = s.id1
		}
	default:
		c.sp.RunId = s.id1
	}
	if c.sp.RunId != "?" {
		pts := append([]int64{}, points...)
		if c.hasAof {
			pts = append(pts, c.aofL-1, c.aofL, c.aofL+1, (c.aofL+c.aofR)/2, c.aofR-1, c.aofR, c.aofR+1, c.aofR, c.aofR)
		}
		if c.hasRdb {
			pts = append(pts, c.rdbLeft-1, c.rdbLeft, c.rdbLeft+1, c.rdbLeft-c.rdbSize)
		}
		if r.Chance(1, 4) {
			c.sp.Offset = vf6Clamp(int64(r.Range(0, int(s.master)+60)))
		} else {
			c.sp.Offset = vf6Clamp(vfutil.Pick(r, pts))
		}
	}
	if c.backend == "d" && r.Chance(1, 3) && !c.nonContig {
		c.fresh = true // (a reopened store truncates a gap: C08)
	}
	if c.backend == "d" && c.s1%2 == 1 && r.Chance(2, 3) {
		// a verifying reader (drawCrc): snapshots of at most 8 bytes, so that channel.verifyCrc = true is drawn
		// with cached and with fresh snapshots, not only without any
		if c.src.snapLen > 8 {
			c.src.snapLen = 1 + c.src.snapLen%8
		}
		if c.hasRdb && c.rdbSize > 8 {
			c.rdbSize = 1 + c.rdbSize%8
		}
	}
	return c
}

// follow-up connection in the same process: same source lineage, advanced
func vf6NextCase(r *vfutil.Rand, prev *vf6Case, res *vf6Round) *vf6Case {
	c := res.after // copy
	s := &c.src
	s.master = res.final
	if s.backlog {
		s.blen = s.master + 1 - s.first
	}
	pick := r.Intn(6)
	if c.keepSrc {
		pick = 5
	}
	switch pick {
	case 0: // backlog trimmed
		s.first = 1 + int64(r.Intn(int(s.master)+1))
		s.blen = s.master + 1 - s.first
		s.backlog = true
	case 1: // backlog lost (master restarted replication backlog)
		s.backlog = false
	}
	s.k = int64(r.Intn(100))
	s.snapLen = int64(r.Range(1, 300))
	s.heartbeat = r.Chance(1, 6)
	// what the target stored: after a snapshot its offset, after a stream some
	// position between the start and the end
	switch res.delivered {
	case "snapshot":
		c.sp = StartPoint{RunId: res.runId, Offset: res.left}
	case "stream":
		c.sp = StartPoint{RunId: res.runId, Offset: res.left + int64(r.Intn(int(res.final-res.left)+1))}
	default:
		c.sp = prev.sp
	}
	j1, j2 := r.Chance(1, 8), r.Chance(1, 12)
	if j1 && !c.keepSrc {
		c.sp.Offset = vf6Clamp(c.sp.Offset + int64(r.Range(-30, 30)))
	}
	if j2 && !c.keepSrc {
		c.sp = StartPoint{RunId: "?", Offset: -1}
	}
	return &c
}

func TestVerifC06(t *testing.T) {
	s := vfutil.NewSession("C06")
	defer s.Close()
	r := vfutil.NewRand(vfutil.Seed())

	tmp, err := os.MkdirTemp("", "vfc06-")
	if err != nil {
		t.Fatal(err)
	}
	defer os.RemoveAll(tmp)

	ln, err := vf6NewListener()
	if err != nil {
		t.Fatal(err)
	}
	defer ln.ln.Close()

	bridge, err := vf6NewBridge()
	if err != nil {
		t.Fatal(err)
	}
	defer bridge.ln.Close()

	// the input reads its limiter / listen port / crc flag from the global config
	yml := fmt.Sprintf("input:\n  redis:\n    addresses: [\"%s\"]\noutput:\n  redis:\n    addresses: [\""+bridge.ln.Addr().String()+"\"]\nchannel:\n  storer:\n    dirPath: %s\nlog:\n  level: panic\n",
		ln.ln.Addr().String(), filepath.Join(tmp, "cfgdir"))
	yp := filepath.Join(tmp, "cfg.yaml")
	if err := os.WriteFile(yp, []byte(yml), 0o644); err != nil {
		t.Fatal(err)
	}
	if err := config.InitSyncerConfig(yp); err != nil {
		t.Fatal(err)
	}
	log.InitLog(*config.GetSyncerConfig().Log)

	config.GetSyncerConfig().Output.Replay.BatchTicker = 2 * time.Millisecond
	config.GetSyncerConfig().Output.Replay.UpdateCheckpointTicker = 3 * time.Millisecond
	config.GetSyncerConfig().Output.Replay.Stats.DisableLog = true
	h := &vf6H{t: t, s: s, ln: ln, tmp: tmp, inCfg: *config.GetSyncerConfig().Input.Redis, seq: true}
	h.patience.Store(10000)

	runCase := func(c0 *vf6Case, srcTag string, rounds int) {
		// follow-up rounds draw from a per-case generator so that a repeated
		// attempt replays the same rounds
		rseed := r.U64()
		for attempt := 0; ; attempt++ {
			c := *c0
			rr := vfutil.NewRand(rseed)
			h.begin(attempt)
			h.fault = h.faultPlan
			s := h.sink
			h.nCase++
			dir := filepath.Join(tmp, fmt.Sprintf("c%d", h.nCase))
			os.MkdirAll(dir, 0o777)
			w := c.world()
			ch := h.newChannel(&c, dir)
			if err := h.populate(&c, ch, w); err != nil {
				ch.Close()
				os.RemoveAll(dir)
				h.s.Count("populate_failed")
				t.Logf("populate failed: %v (%s)", err, c.opLine("-"))
				return
			}
			if c.fresh && c.backend == "d" {
				ch.Close()
				ch = h.newChannel(&c, dir)
				if c.cRun != c.src.id1 && c.cRun != c.src.id2 {
					// a directory of another id is invisible to the new process
					c.cRun, c.tokId, c.hasRdb, c.hasAof = "", "", false, false
				}
			}
			s.Count("src_" + srcTag)
			cur := &c
			for i := 0; i < rounds; i++ {
				res := h.round(cur, ch, map[string]interface{}{"round": i}, nil, nil)
				if s.aborted {
					break
				}
				if i+1 < rounds {
					cur = vf6NextCase(rr, cur, res)
					s.Count("followup_rounds")
				}
			}
			ch.Close()
			os.RemoveAll(dir)
			if h.again(attempt) {
				continue
			}
			s.commit(h)
			return
		}
	}

	// ---- schedules around a change of history, with the real RedisOutput
	// (newOutput / StartPoint / SetRunId / setCheckpoint on the target double)
	idOf := func(seed uint64, tag byte) string {
		return strings.Repeat(string([]byte{tag}), 8) + fmt.Sprintf("%032x", seed)
	}
	runWindow := func(wd *vf6Window, srcTag string) {
		for attempt := 0; ; attempt++ {
			h.begin(attempt)
			s := h.sink
			h.nCase++
			dir := filepath.Join(tmp, fmt.Sprintf("w%d", h.nCase))
			os.MkdirAll(dir, 0o777)
			tg := vfdoubles.NewTarget()
			tg.Lenient = true
			bridge.cur.Store(tg)
			*config.GetSyncerConfig().Output.Replay.ResumeFromBreakPoint = wd.resume
			A, B := idOf(wd.seedA, 'a'), idOf(wd.seedB, 'b')
			sy := &syncer{cfg: SyncerConfig{Input: h.inCfg, Output: *config.GetSyncerConfig().Output.Redis},
				logger: log.WithLogger("[vf6] "), wait: usync.NewWaitCloser(nil)}
			newOut := func(src vf6Source) *vf6RealOut {
				h.ln.cur.Store(&src) // newOutput asks the source for its ids
				ro, err := sy.newOutput()
				if err != nil {
					t.Fatalf("newOutput: %v", err)
				}
				return &vf6RealOut{ro: ro, realSend: wd.send == "real", tg: tg, patience: &h.patience, missed: &h.missed}
			}
			unit := int64(1)
			if wd.send == "real" {
				unit = vf6CmdLen
			}
			truth := &vf6Truth{none: true}
			rpl := map[string]interface{}{"schedule": wd.String(), "round": 0}
			base := &vf6Case{backend: wd.backend, logSize: 1 << 20, tokId: "", cmd: wd.send == "real"}
			ch := h.newChannel(base, dir)

			if wd.kind == "cached-interrupted" {
				// the target follows A at x; the cache holds a snapshot of A at oA > x (+ log);
				// the cached snapshot replay fails; the cache is lost; the run restarts
				master := wd.oA + wd.k1
				srcA := vf6Source{id1: A, id2: vf6ZeroId, switchOff: -2, backlog: true, first: 1, blen: master, master: master, snapLen: wd.snap, capaId: true, k: wd.k2}
				// failover=true (session 5): A has a previous id B (shared up to x) and an interrupted relabel left a stale
				// LOWER record under B in another database. sendOutput's ResetStartPoint must delete the records of ALL the
				// source's labels before the cached snapshot is replayed: a record left under B is what the restarted process
				// reads (PSYNC B low+1 is granted) after the replay failed
				stalePrev := wd.failover && wd.resume && wd.x >= 2*unit
				if stalePrev {
					srcA.id2, srcA.switchOff = B, wd.x
				}
				real := newOut(srcA)
				bg := context.Background()
				if wd.resume {
					if err := real.ro.setCheckpoint(bg, A, wd.x, config.Version); err != nil {
						t.Fatalf("seed checkpoint: %v", err)
					}
					if stalePrev {
						cli, err := real.ro.NewRedisConn(bg)
						if err != nil {
							t.Fatal(err)
						}
						if _, err := cli.Do("select", 5); err != nil {
							t.Fatal(err)
						}
						low := (wd.x / unit / 2) * unit
						if err := checkpoint.SetCheckpoint(cli, &checkpoint.CheckpointInfo{Key: real.ro.cfg.CheckpointName, RunId: B, Offset: low, Version: config.Version}); err != nil {
							t.Fatal(err)
						}
						cli.Close()
						s.Count("window_cached_interrupted_stale_prev_label")
					}
				} else {
					real.ro.checkpointInMem = checkpoint.CheckpointInfo{Key: real.ro.cfg.CheckpointName, RunId: A, Offset: wd.x, Version: config.Version}
				}
				*truth = vf6Truth{id: A, upto: wd.x}
				c := *base
				c.src, c.s1, c.sb, c.s2, c.so = srcA, wd.seedA, 1, 2, 3
				c.cRun, c.tokId, c.hasRdb, c.rdbLeft, c.rdbSize = A, A, true, wd.oA, wd.snap
				if c.cmd {
					c.rdbSize = int64(len(c.world().snapBytes(A, wd.oA, 0)))
				}
				if wd.k1 > 0 {
					c.hasAof, c.aofL, c.aofR = true, wd.oA, wd.oA+wd.k1
				}
				if err := h.populate(&c, ch, c.world()); err != nil {
					t.Fatalf("populate: %v", err)
				}
				real.failSnapshot = true
				res := h.round(&c, ch, rpl, real, truth)
				real.failSnapshot = false
				if !s.aborted {
					ch.Close()
					dir2 := dir + "-2"
					os.MkdirAll(dir2, 0o777)
					ch = h.newChannel(base, dir2)
					n := res.after
					n.cRun, n.tokId, n.hasRdb, n.hasAof = "", "", false, false
					n.src.master, n.src.blen, n.src.k = res.final, res.final, 9*unit
					rpl = map[string]interface{}{"schedule": wd.String(), "round": 1}
					res = h.round(&n, ch, rpl, real, truth)
					os.RemoveAll(dir2)
				}
				ch.Close()
				os.RemoveAll(dir)
				if h.again(attempt) {
					continue
				}
				s.Count("src_" + srcTag)
				s.Count("window_" + wd.kind + map[bool]string{true: "_resume", false: "_inmem"}[wd.resume])
				s.commit(h)
				return
			}

			// history A alone: full sync at oA, then the stream up to x
			srcA := vf6Source{id1: A, id2: vf6ZeroId, switchOff: -2, backlog: true, first: 1, blen: wd.oA, master: wd.oA, snapLen: wd.snap, capaId: true}
			c := *base
			c.src, c.s1, c.sb, c.s2, c.so = srcA, wd.seedA, 1, 2, 3
			real := newOut(srcA)
			res := h.round(&c, ch, rpl, real, truth)
			step := 1
			next := func(src vf6Source, failover bool) *vf6Case {
				n := res.after
				n.src = src
				if src.id1 == A {
					n.s1, n.sb, n.s2, n.so = wd.seedA, 1, 2, 3
				} else if failover {
					n.s1, n.sb, n.s2, n.so = wd.seedB, wd.seedA, wd.seedA, 3
				} else {
					n.s1, n.sb, n.s2, n.so = wd.seedB, 1, 2, wd.seedA
				}
				rpl = map[string]interface{}{"schedule": wd.String(), "round": step}
				step++
				return &n
			}
			if !s.aborted {
				srcA.k = wd.x - wd.oA
				res = h.round(next(srcA, false), ch, rpl, real, truth)
			}
			srcB := vf6Source{id1: B, id2: vf6ZeroId, switchOff: -2, backlog: true, first: 1, blen: wd.o, master: wd.o, snapLen: wd.snap, capaId: true}
			if wd.failover {
				srcB.id2, srcB.switchOff = A, wd.s
			}
			switch {
			case s.aborted:
			case wd.kind == "full-interrupted":
				srcB.k = wd.k1
				real.failSnapshot = true
				res = h.round(next(srcB, wd.failover), ch, rpl, real, truth)
				real.failSnapshot = false
				if s.aborted {
					break
				}
				srcB.master, srcB.blen, srcB.k = wd.o+wd.k1, wd.o+wd.k1, wd.k2
				if wd.restart {
					// process restart: the output is re-created; a memory cache is gone, a disk cache reopened
					ch.Close()
					ch = h.newChannel(base, dir)
					real = newOut(srcB)
					if wd.backend == "m" {
						res.after.cRun, res.after.tokId, res.after.hasRdb, res.after.hasAof = "", "", false, false
					}
				}
				res = h.round(next(srcB, wd.failover), ch, rpl, real, truth)
				if !s.aborted {
					srcB.master, srcB.blen, srcB.k = res.final, res.final, 7*unit
					res = h.round(next(srcB, wd.failover), ch, rpl, real, truth)
				}
			case wd.kind == "failover-continue":
				// failover inside the shared prefix, same process: CONTINUE is granted, the
				// cache is relabelled; in in-memory mode the stored position keeps the previous
				// id while the log carries it beyond the switch offset (the ¬StoredCompat state)
				srcB.k = wd.k1
				res = h.round(next(srcB, true), ch, rpl, real, truth)
				for _, k := range []int64{wd.k2, 7 * unit} {
					if s.aborted {
						break
					}
					srcB.master, srcB.blen, srcB.k = res.final, res.final, k
					res = h.round(next(srcB, true), ch, rpl, real, truth)
				}
			case wd.kind == "restart-rekey":
				// the syncer is restarted towards the new master (typology change)
				srcB.k = wd.k2
				ch.Close()
				if wd.restart || wd.backend == "m" {
					// cache lost (memory channel, or another instance taking over)
					dir2 := dir + "-2"
					os.MkdirAll(dir2, 0o777)
					defer os.RemoveAll(dir2)
					ch = h.newChannel(base, dir2)
					res.after.cRun, res.after.tokId, res.after.hasRdb, res.after.hasAof = "", "", false, false
				} else {
					ch = h.newChannel(base, dir)
				}
				real = newOut(srcB)
				res = h.round(next(srcB, true), ch, rpl, real, truth)
				if !s.aborted {
					srcB.master, srcB.blen, srcB.k = res.final, res.final, 7*unit
					res = h.round(next(srcB, true), ch, rpl, real, truth)
				}
			}
			ch.Close()
			os.RemoveAll(dir)
			if h.again(attempt) {
				continue
			}
			s.Count("src_" + srcTag)
			s.Count("window_" + wd.kind + map[bool]string{true: "_resume", false: "_inmem"}[wd.resume])
			s.Count("window_send_" + wd.send)
			s.commit(h)
			return
		}
	}
	genWindow := func() *vf6Window {
		wd := &vf6Window{kind: "full-interrupted", backend: "d", resume: r.Bool(), failover: r.Chance(2, 3), restart: r.Chance(1, 3),
			snap: int64(r.Range(1, 200)), seedA: uint64(r.Range(1, 99999)), seedB: uint64(r.Range(1, 99999))}
		if r.Bool() {
			wd.backend = "m"
		}
		if r.Chance(1, 3) {
			wd.kind, wd.failover = "restart-rekey", true
		} else if r.Chance(1, 4) {
			wd.kind, wd.failover = "cached-interrupted", false
		} else if r.Chance(1, 4) {
			wd.kind, wd.failover = "failover-continue", true
		}
		wd.oA = int64(r.Range(1, 400))
		wd.x = wd.oA + int64(r.Range(1, 300))
		wd.s = wd.x - int64(r.Range(-20, 120)) // mostly: the old master was ahead of the new one
		if wd.s < 0 {
			wd.s = 0
		}
		lo := wd.s
		if !wd.failover {
			lo = int64(r.Intn(int(wd.x) + 50))
		}
		wd.o = lo + int64(r.Intn(int(vf6Clamp(wd.x-lo))+40))
		wd.k1 = int64(r.Intn(int(vf6Clamp(wd.x-wd.o)) + 60))
		wd.k2 = int64(r.Intn(80))
		if wd.kind == "failover-continue" {
			wd.s = wd.x + int64(r.Intn(40))
			wd.o = wd.s + int64(r.Intn(60))
			wd.k1 = 8 + int64(r.Intn(100))
		}
		if wd.kind == "cached-interrupted" {
			// x = stored position, oA = offset of the cached snapshot (mostly beyond x)
			wd.x = int64(r.Range(0, 300))
			wd.oA = wd.x + int64(r.Range(-3, 120))
			if wd.oA < 0 {
				wd.oA = 0
			}
			wd.k1 = int64(r.Intn(60))
			wd.failover = wd.resume && r.Bool() // a stale lower record under the previous id (see runWindow)
		}
		wd.send = "rec"
		if r.Bool() {
			// real streams and snapshots: every offset is a command boundary
			wd.send = "real"
			for _, p := range []*int64{&wd.oA, &wd.x, &wd.s, &wd.o, &wd.k1, &wd.k2} {
				*p = (*p / 8) * vf6CmdLen
			}
			if wd.kind != "cached-interrupted" && wd.x <= wd.oA {
				wd.x = wd.oA + vf6CmdLen
			}
		}
		return wd
	}

	for _, l := range vfutil.Corpus("C06") {
		if strings.HasPrefix(l, "att ") || strings.HasPrefix(l, "cut ") || strings.HasPrefix(l, "gcp ") {
			continue // sessions C06c (vf_c06_att_test.go) and C06d (vf_c06_gc_test.go)
		}
		if strings.HasPrefix(l, "fault ") {
			// fault <plan> <rounds> sync … : the first round's bookkeeping call <plan> fails, then <rounds>-1 more connections
			f := strings.SplitN(l, " ", 4)
			c, err := vf6ParseCase(f[3])
			if err != nil {
				t.Fatalf("corpus line: %v: %s", err, l)
			}
			c.keepSrc = true
			nr, _ := strconv.Atoi(f[2])
			h.faultPlan = f[1]
			runCase(c, "corpus", nr)
			h.faultPlan, h.fault = "", ""
			continue
		}
		if strings.HasPrefix(l, "gcloop ") {
			// gcloop <m|d> <maxSize> <logSize> <left> <size> <n>
			f := strings.Fields(l)
			var v []int64
			for _, x := range f[2:] {
				n, _ := strconv.ParseInt(x, 10, 64)
				v = append(v, n)
			}
			h.gcLoop(f[1], r, tmp, v)
			continue
		}
		if strings.HasPrefix(l, "window ") {
			wd, err := vf6ParseWindow(l)
			if err != nil {
				t.Fatalf("corpus line: %v: %s", err, l)
			}
			runWindow(wd, "corpus")
			continue
		}
		c, err := vf6ParseCase(l)
		if err != nil {
			t.Fatalf("corpus line: %v: %s", err, l)
		}
		runCase(c, "corpus", 1)
	}
	if rp := os.Getenv("VERIF_REPLAY_CASE"); strings.HasPrefix(rp, "window ") {
		wd, err := vf6ParseWindow(rp)
		if err != nil {
			t.Fatal(err)
		}
		runWindow(wd, "replay")
		return
	}
	if rp := os.Getenv("VERIF_REPLAY_CASE"); strings.HasPrefix(rp, "gcp ") || strings.HasPrefix(rp, "att ") {
		return // replayed by the session the case belongs to
	}
	if rp := os.Getenv("VERIF_REPLAY_CASE"); rp != "" {
		c, err := vf6ParseCase(rp)
		if err != nil {
			t.Fatal(err)
		}
		runCase(c, "replay", 1)
		return
	}
	n := vfutil.Scale(900, 8000) // session 5: the collector x reconnection sampling moved to the enumeration of session C06d
	for i := 0; i < n; i++ {
		if len(s.Viol) >= 30 {
			s.Count("stopped_after_30_violations")
			break // the failing inputs are found; no need to keep a broken build running
		}
		if i%8 == 7 {
			runWindow(genWindow(), "generated")
			continue
		}
		c := vf6GenCase(r)
		if i%32 == 5 {
			// collector on (MaxSize > 0): is a replayed cached snapshot followed by the stream?
			h.gcLoop(vfutil.Pick(r, []string{"m", "m", "d"}), r, tmp, nil)
			continue
		}
		if i%16 == 3 {
			// fault injection: one bookkeeping call of the first round fails; the next
			// connection(s) are judged on whatever the failed run left behind
			h.faultPlan = vfutil.Pick(r, []string{"reset1", "reset2", "reset1", "out_setrunid", "chan_del", "chan_set", "info", "info"})
			if r.Bool() {
				// a source with a brand-new id whose backlog covers the end of the old cache:
				// FULLRESYNC, the failure hits after the channel was relabelled
				c.backend = vfutil.Pick(r, []string{"d", "m"})
				c.fresh, c.nonContig, c.keepSrc = false, false, true
				old := vf6HexId(r)
				c.cRun, c.tokId = old, old
				c.hasRdb, c.hasAof = true, true
				c.rdbLeft, c.rdbSize = int64(r.Range(0, 600)), int64(r.Range(1, 200))
				c.aofL, c.aofR = c.rdbLeft, c.rdbLeft+int64(r.Range(1, 300))
				c.src.id2, c.src.switchOff = vf6ZeroId, -2
				c.src.master = c.aofR + int64(r.Range(0, 400))
				c.src.backlog, c.src.first, c.src.blen = true, 1, c.src.master
				c.sp = StartPoint{RunId: "?", Offset: -1}
				if r.Chance(1, 3) {
					c.sp = StartPoint{RunId: old, Offset: c.aofL + int64(r.Intn(int(c.aofR-c.aofL)+1))}
				}
				h.faultPlan = vfutil.Pick(r, []string{"reset1", "out_setrunid", "chan_del"})
				s.Count("fault_template_newid_over_old_cache")
			}
			// follow-up connections only where the failing call precedes the creation of
			// writer and reader (syncMeta's own calls on the template): the state a run
			// aborted later leaves in the channel (unstarted writer, started reader) is the
			// cache's business, and outside CacheWF the cache after the round is not described
			if h.faultPlan == "info" && !c.nonContig {
				c.keepSrc = true // a transient failure: the same source, the same position, connect again
			}
			nr := 1
			if c.keepSrc && !c.nonContig {
				nr = 2 + r.Intn(2)
			}
			runCase(c, "fault", nr)
			h.faultPlan, h.fault = "", ""
			continue
		}
		rounds := 1
		if r.Chance(1, 3) && !c.nonContig {
			rounds = 2 + r.Intn(2)
		}
		runCase(c, "generated", rounds)
	}
	s.Add("slowest_round_ms", int(h.slowMs))
}
