//go:build verif

package config

// C15 (lease / renew bounds): the real (*ClusterConfig).fix on generated
// durations, compared with the Lean `fixCfg` / `ttlSeconds`, plus a direct
// check of the bounds the property relies on.

import (
	"fmt"
	"math"
	"testing"
	"time"

	"github.com/mgtv-tech/redis-GunYu/pkg/vfutil"
)

func TestVerifC15Fix(t *testing.T) {
	s := vfutil.NewSession("C15fix")
	defer s.Close()
	r := vfutil.NewRand(vfutil.Seed())
	idx := 0

	one := func(lease, renew time.Duration, src string) {
		cc := &ClusterConfig{GroupName: "g", LeaseTimeout: lease, LeaseRenewInterval: renew}
		err := cc.fix()
		replay := map[string]interface{}{"lease_ns": int64(lease), "renew_ns": int64(renew)}
		if err != nil {
			s.Violate("fix-error", "ClusterConfig.fix returned "+err.Error(), replay)
		}
		// cmd/syncer.go: ttl := int(LeaseTimeout / time.Second)
		ttl := int(cc.LeaseTimeout / time.Second)
		s.Op(fmt.Sprintf("fix %d %d %d", idx, int64(lease), int64(renew)),
			fmt.Sprintf("#%d %d %d %d", idx, int64(cc.LeaseTimeout), int64(cc.LeaseRenewInterval), ttl))
		idx++
		s.Count("src_" + src)
		switch {
		case lease == 0:
			s.Count("lease_default")
		case lease < 3*time.Second:
			s.Count("lease_clamped_low")
		case lease > 600*time.Second:
			s.Count("lease_clamped_high")
		default:
			s.Count("lease_kept")
		}
		switch {
		case renew == 0:
			s.Count("renew_default")
		case renew < time.Second:
			s.Count("renew_clamped_low")
		case renew > cc.LeaseTimeout/3:
			s.Count("renew_clamped_high")
		default:
			s.Count("renew_kept")
			s.Distinct(fmt.Sprintf("%d/%d", lease, renew))
		}
		// the property's bounds, checked directly on the real output
		if cc.LeaseTimeout < 3*time.Second || cc.LeaseTimeout > 600*time.Second {
			s.Violate("lease-out-of-bounds", fmt.Sprintf("lease=%v", cc.LeaseTimeout), replay)
		}
		if cc.LeaseRenewInterval < time.Second || 3*cc.LeaseRenewInterval > cc.LeaseTimeout {
			s.Violate("renew-out-of-bounds", fmt.Sprintf("lease=%v renew=%v", cc.LeaseTimeout, cc.LeaseRenewInterval), replay)
		}
		if ttl < 3 || ttl > 600 || 2*cc.LeaseRenewInterval >= time.Duration(ttl)*time.Second {
			s.Violate("ttl-out-of-bounds", fmt.Sprintf("lease=%v renew=%v ttl=%d", cc.LeaseTimeout, cc.LeaseRenewInterval, ttl), replay)
		}
	}

	sec := int64(time.Second)
	marks := []int64{math.MinInt64, math.MinInt64 + 1, -600 * sec, -sec, -1, 0, 1, 999999999, sec, sec + 1,
		2*sec - 1, 3*sec - 1, 3 * sec, 3*sec + 1, 3*sec + 2, 3*sec + 3, 4 * sec, 10 * sec, 10*sec/3 - 1, 10 * sec / 3, 10*sec/3 + 1,
		199 * sec, 200*sec - 1, 200 * sec, 200*sec + 1, 599 * sec, 600*sec - 1, 600 * sec, 600*sec + 1, 1800 * sec,
		math.MaxInt64 - 1, math.MaxInt64}
	for _, l := range marks {
		for _, rv := range marks {
			one(time.Duration(l), time.Duration(rv), "marks")
		}
	}
	pick := func() int64 {
		switch r.Intn(8) {
		case 0:
			return marks[r.Intn(len(marks))]
		case 1:
			return marks[r.Intn(len(marks))] + int64(r.Range(-3, 3))
		case 2:
			return int64(r.U64()) // anything
		case 3:
			return int64(r.Intn(700)) * sec
		case 4:
			return int64(r.Intn(700000)) * int64(time.Millisecond)
		default:
			return int64(r.U64() % uint64(700*sec))
		}
	}
	for i := 0; i < vfutil.Scale(20000, 1000000); i++ {
		l := pick()
		rv := pick()
		if r.Chance(1, 4) && l > 0 { // around lease/3
			rv = l/3 + int64(r.Range(-2, 2))
		}
		one(time.Duration(l), time.Duration(rv), "gen")
	}
}
