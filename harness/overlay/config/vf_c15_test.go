//go:build verif

package config

// C15 (lease / renew bounds): the real (*ClusterConfig).fix on generated
// durations, compared with the Lean `fixCfg` / `ttlSeconds`, plus a direct
// check of the bounds the property relies on.

import (
	"fmt"
	"math"
	"os"
	"path/filepath"
	"strings"
	"testing"
	"time"

	"github.com/mgtv-tech/redis-GunYu/pkg/vfutil"
)

func TestVerifC15Fix(t *testing.T) {
	s := vfutil.NewSession("C15fix")
	defer s.Close()
	r := vfutil.NewRand(vfutil.Seed())
	idx := 0

	one := func(lease, renew time.Duration, src string) {
		cc := &ClusterConfig{GroupName: "g", LeaseTimeout: lease, LeaseRenewInterval: renew}
		err := cc.fix()
		replay := map[string]interface{}{"lease_ns": int64(lease), "renew_ns": int64(renew)}
		if err != nil { // refusing a configuration is safe; the model diff shows it
			s.Count("fix_error")
			s.Op(fmt.Sprintf("fix %d %d %d", idx, int64(lease), int64(renew)), fmt.Sprintf("#%d error", idx))
			idx++
			return
		}
		// cmd/syncer.go: ttl := int(LeaseTimeout / time.Second)
		ttl := int(cc.LeaseTimeout / time.Second)
		s.Op(fmt.Sprintf("fix %d %d %d", idx, int64(lease), int64(renew)),
			fmt.Sprintf("#%d %d %d %d", idx, int64(cc.LeaseTimeout), int64(cc.LeaseRenewInterval), ttl))
		idx++
		s.Count("src_" + src)
		// one counter per option value class (dimension audit): every clamp boundary of fix() by force (marks)
		secD := time.Second
		lc := "kept"
		switch {
		case lease == 0:
			lc = "unset"
		case lease < 0:
			lc = "negative"
		case lease < secD:
			lc = "below_1s"
		case lease < 3*secD:
			lc = "below_3s"
		case lease == 3*secD:
			lc = "3s"
		case lease == 600*secD:
			lc = "600s"
		case lease > 600*secD && lease <= 601*secD:
			lc = "601s"
		case lease > 601*secD:
			lc = "above_601s"
		case lease%secD != 0:
			lc = "fractional_seconds"
		}
		s.Count("cfg_leaseTimeout_" + lc)
		rc := "kept"
		switch {
		case renew == 0:
			rc = "unset"
		case renew < 0:
			rc = "negative"
		case renew < secD:
			rc = "below_1s"
		case renew == secD:
			rc = "1s"
		case renew == cc.LeaseTimeout/3:
			rc = "exactly_third"
		case renew > cc.LeaseTimeout/3:
			rc = "above_third"
		case renew%secD != 0:
			rc = "fractional_seconds"
		}
		s.Count("cfg_leaseRenewInterval_" + rc)
		switch {
		case lease == 0:
			s.Count("lease_default")
		case lease < 3*time.Second:
			s.Count("lease_clamped_low")
		case lease > 600*time.Second:
			s.Count("lease_clamped_high")
		default:
			s.Count("lease_kept")
		}
		switch {
		case renew == 0:
			s.Count("renew_default")
		case renew < time.Second:
			s.Count("renew_clamped_low")
		case renew > cc.LeaseTimeout/3:
			s.Count("renew_clamped_high")
		default:
			s.Count("renew_kept")
			s.Distinct(fmt.Sprintf("%d/%d", lease, renew))
		}
		// What C15 needs from the configuration, checked directly on the real
		// output (the particular limits 3 s / 600 s / 1 s are the code's choice
		// and are compared with the model in the op line only):
		//  - the ttl handed to the store is a positive number of seconds,
		//  - the renew period is positive and at most a third of the lease
		//    (the mechanism the property names),
		//  - the lease as the store counts it (whole seconds) outlasts a renew period.
		if ttl < 1 {
			s.Violate("lease-ttl-not-positive", fmt.Sprintf("lease=%v gives ttl=%d s", cc.LeaseTimeout, ttl), replay)
		}
		if cc.LeaseRenewInterval <= 0 || 3*cc.LeaseRenewInterval > cc.LeaseTimeout {
			s.Violate("renew-exceeds-third-of-lease", fmt.Sprintf("lease=%v renew=%v", cc.LeaseTimeout, cc.LeaseRenewInterval), replay)
		}
		if cc.LeaseRenewInterval >= time.Duration(ttl)*time.Second {
			s.Violate("lease-ends-before-next-renewal", fmt.Sprintf("lease=%v renew=%v ttl=%d s", cc.LeaseTimeout, cc.LeaseRenewInterval, ttl), replay)
		}
	}

	sec := int64(time.Second)
	marks := []int64{math.MinInt64, math.MinInt64 + 1, -600 * sec, -sec, -1, 0, 1, 999999999, sec, sec + 1,
		2*sec - 1, 3*sec - 1, 3 * sec, 3*sec + 1, 3*sec + 2, 3*sec + 3, 4 * sec, 10 * sec, 10*sec/3 - 1, 10 * sec / 3, 10*sec/3 + 1,
		199 * sec, 200*sec - 1, 200 * sec, 200*sec + 1, 599 * sec, 600*sec - 1, 600 * sec, 600*sec + 1, 601 * sec, 3*sec + sec/2, sec + sec/2, 1800 * sec,
		math.MaxInt64 - 1, math.MaxInt64}
	for _, l := range marks {
		for _, rv := range marks {
			one(time.Duration(l), time.Duration(rv), "marks")
		}
	}
	pick := func() int64 {
		switch r.Intn(8) {
		case 0:
			return marks[r.Intn(len(marks))]
		case 1:
			return marks[r.Intn(len(marks))] + int64(r.Range(-3, 3))
		case 2:
			return int64(r.U64()) // anything
		case 3:
			return int64(r.Intn(700)) * sec
		case 4:
			return int64(r.Intn(700000)) * int64(time.Millisecond)
		default:
			return int64(r.U64() % uint64(700*sec))
		}
	}
	// ---- the WHOLE configuration through InitSyncerConfig (yaml -> (*SyncConfig).fix):
	// whenever a cluster section survives (runCluster is reachable) it must
	// have gone through ClusterConfig.fix.
	dir := t.TempDir()
	whole := func(group string, etcd bool, leaseSet, renewSet bool, lease, renew int64, src string) {
		var sb strings.Builder
		sb.WriteString("server:\n  listen: 10.0.0.1:18001\n")
		sb.WriteString("input:\n  redis:\n    addresses: [127.0.0.1:1]\n")
		sb.WriteString("output:\n  redis:\n    addresses: [127.0.0.1:2]\n")
		sb.WriteString("channel:\n  type: memory\nlog:\n  level: error\n")
		sb.WriteString("cluster:\n")
		if group != "" {
			fmt.Fprintf(&sb, "  groupName: %s\n", group)
		}
		if leaseSet {
			fmt.Fprintf(&sb, "  leaseTimeout: %dns\n", lease)
		} else {
			lease = 0
		}
		if renewSet {
			fmt.Fprintf(&sb, "  leaseRenewInterval: %dns\n", renew)
		} else {
			renew = 0
		}
		if etcd {
			sb.WriteString("  metaEtcd:\n    endpoints: [127.0.0.1:2379]\n")
		}
		path := filepath.Join(dir, "c.yaml")
		if err := os.WriteFile(path, []byte(sb.String()), 0o644); err != nil {
			t.Fatal(err)
		}
		*syncCfg = SyncConfig{}
		err := InitSyncerConfig(path)
		replay := map[string]interface{}{"yaml": sb.String()}
		g := 0
		if group != "" {
			g = 1
		}
		out := "error"
		switch {
		case err != nil: // refusing is safe; shows in the model diff
			s.Count("whole_refused")
		case syncCfg.Cluster == nil:
			out = "nocluster"
			s.Count("whole_nocluster")
		default:
			cc := syncCfg.Cluster
			ttl := int(cc.LeaseTimeout / time.Second) // cmd/syncer.go
			out = fmt.Sprintf("%d %d %d", int64(cc.LeaseTimeout), int64(cc.LeaseRenewInterval), ttl)
			s.Count("whole_cluster")
			if ttl < 1 || cc.LeaseRenewInterval <= 0 || 3*cc.LeaseRenewInterval > cc.LeaseTimeout ||
				cc.LeaseRenewInterval >= time.Duration(ttl)*time.Second {
				s.Violate("cluster-section-not-fixed", fmt.Sprintf("cluster mode reachable with lease=%v renew=%v ttl=%d s (needs ttl >= 1, 0 < renew <= lease/3, renew < ttl)", cc.LeaseTimeout, cc.LeaseRenewInterval, ttl), replay)
			}
			if etcd && (cc.MetaEtcd == nil || cc.MetaEtcd.Ttl != ttl) {
				s.Count("etcd_ttl_differs") // another backend; recorded only
			}
		}
		s.Op(fmt.Sprintf("cfgfix %d %d %d %d", idx, g, lease, renew), fmt.Sprintf("#%d %s", idx, out))
		idx++
		s.Count("src_" + src)
	}
	small := []int64{-sec, 0, 1, sec - 1, sec, 2 * sec, 3*sec - 1, 3 * sec, 9 * sec, 10 * sec, 200 * sec, 600 * sec, 601 * sec}
	for _, group := range []string{"g1", ""} {
		for _, etcd := range []bool{false, true} {
			for _, l := range small {
				for _, rv := range small {
					whole(group, etcd, true, true, l, rv, "whole_marks")
				}
			}
			for _, ls := range []bool{false, true} {
				for _, rs := range []bool{false, true} {
					whole(group, etcd, ls, rs, 9*sec, 2*sec, "whole_optional")
				}
			}
		}
	}

	for i := 0; i < vfutil.Scale(20000, 1000000); i++ {
		l := pick()
		rv := pick()
		if r.Chance(1, 4) && l > 0 { // around lease/3
			rv = l/3 + int64(r.Range(-2, 2))
		}
		one(time.Duration(l), time.Duration(rv), "gen")
	}
}
