//go:build verif

package config

// C10: the configured filter must reach the output unchanged. The REAL
// (*SyncConfig).fix runs on generated configurations (standalone / cluster
// target × TargetDb × resume × filter lists); the filter section afterwards is
// compared with the one configured.

import (
	"fmt"
	"os"
	"path/filepath"
	"strconv"
	"strings"
	"testing"

	"github.com/mgtv-tech/redis-GunYu/pkg/vfc10"
	"github.com/mgtv-tech/redis-GunYu/pkg/vfutil"
)

func vfC10ToFilter(c vfc10.Cfg, r *vfutil.Rand) FilterConfig {
	fc := FilterConfig{DbBlacklist: SliceInt(c.DB), CmdBlacklist: SliceString(c.CB)}
	if len(c.PW)+len(c.PB) > 0 || r.Bool() {
		fc.KeyFilter = &FilterKeyConfig{PrefixKeyWhitelist: SliceString(c.PW), PrefixKeyBlacklist: SliceString(c.PB)}
	}
	if len(c.SW)+len(c.SB) > 0 || r.Bool() {
		fc.SlotFilter = &FilterSlotConfig{KeySlotWhitelist: DoubleSliceUint16(c.SW), KeySlotBlacklist: DoubleSliceUint16(c.SB)}
	}
	return fc
}

func vfC10FromFilter(fc FilterConfig) vfc10.Cfg {
	c := vfc10.Cfg{DB: []int(fc.DbBlacklist), CB: []string(fc.CmdBlacklist)}
	if fc.KeyFilter != nil {
		c.PW, c.PB = []string(fc.KeyFilter.PrefixKeyWhitelist), []string(fc.KeyFilter.PrefixKeyBlacklist)
	}
	if fc.SlotFilter != nil {
		c.SW, c.SB = [][]uint16(fc.SlotFilter.KeySlotWhitelist), [][]uint16(fc.SlotFilter.KeySlotBlacklist)
	}
	return c
}

func TestVerifC10(t *testing.T) {
	s := vfutil.NewSession("C10cfg")
	defer s.Close()
	r := vfutil.NewRand(vfutil.Seed() ^ 0xC10F)

	one := func(c vfc10.Cfg, cluster bool, tdb int, resume bool, src string) {
		c.CW = nil
		typ := RedisTypeStandalone
		if cluster {
			typ = RedisTypeCluster
		}
		res, tdbv := resume, tdb
		sc := &SyncConfig{
			Input:   &InputConfig{Redis: &RedisConfig{Addresses: SliceString{"127.0.0.1:6379"}}},
			Output:  &OutputConfig{Redis: &RedisConfig{Addresses: SliceString{"127.0.0.1:6380"}, Type: typ}, Filter: vfC10ToFilter(c, r)},
			Channel: &ChannelConfig{Type: ChannelTypeMemory},
		}
		sc.Output.Replay.ResumeFromBreakPoint = &res
		sc.Output.Replay.TargetDbCfg = &tdbv
		err := sc.fix()
		b := func(x bool) string {
			if x {
				return "1"
			}
			return "0"
		}
		line := fmt.Sprintf("c10 fix O %s %s %d %s", c.Fields(), b(cluster), tdb, b(resume))
		s.Count("fix_" + src)
		if err != nil {
			s.Op(line, "err")
			s.Count("fix_err")
			return
		}
		after := vfC10FromFilter(sc.Output.Filter)
		s.Op(line, "ok "+after.Fields())
		s.Count("fix_ok_cluster" + b(cluster))
		if after.Fields() != c.Fields() {
			what := "config-fix-changes-filter"
			if len(c.DB) > 0 && len(after.DB) == 0 {
				what = "db-blacklist-dropped"
			}
			s.Violate(what, fmt.Sprintf("SyncConfig.fix rewrote the configured filter (cluster=%v targetDb=%d): configured %q, in effect %q",
				cluster, tdb, c.Fields(), after.Fields()),
				map[string]interface{}{"op": line, "cluster": cluster, "targetDb": tdb, "resume": resume, "cfg": c.Fields(), "after": after.Fields()})
		} else if len(c.DB) > 0 {
			s.Distinct(line)
		}
	}

	for _, l := range vfutil.Corpus("C10") {
		f := strings.Fields(l)
		if len(f) == 13 && f[0] == "c10" && f[1] == "fix" {
			c, err := vfc10.ParseCfg(f[3:10])
			if err != nil {
				panic(err)
			}
			var tdb int
			fmt.Sscanf(f[11], "%d", &tdb)
			one(c, f[10] == "1", tdb, f[12] == "1", "corpus")
		}
	}
	// ---- the same through the YAML loader (InitSyncerConfig = yaml.Unmarshal + fix) for
	// configurations that YAML can spell (printable ASCII), and through the flag setters
	printable := func(l []string) bool {
		for _, x := range l {
			for i := 0; i < len(x); i++ {
				if x[i] < 0x20 || x[i] > 0x7e {
					return false
				}
			}
		}
		return true
	}
	q := func(l []string) string {
		p := make([]string, len(l))
		for i, x := range l {
			p[i] = strconv.Quote(x)
		}
		return "[" + strings.Join(p, ", ") + "]"
	}
	ints := func(l []int) string {
		p := make([]string, len(l))
		for i, x := range l {
			p[i] = strconv.Itoa(x)
		}
		return "[" + strings.Join(p, ", ") + "]"
	}
	slots := func(l [][]uint16) string {
		p := make([]string, len(l))
		for i, e := range l {
			q := make([]string, len(e))
			for j, v := range e {
				q[j] = strconv.Itoa(int(v))
			}
			p[i] = "[" + strings.Join(q, ", ") + "]"
		}
		return "[" + strings.Join(p, ", ") + "]"
	}
	dir := t.TempDir()
	yamlOne := func(c vfc10.Cfg, cluster bool, tdb int, resume bool) {
		c.CW = nil
		if !printable(c.CB) || !printable(c.PW) || !printable(c.PB) {
			s.Count("yaml_skipped_nonprintable")
			return
		}
		typ := "standalone"
		if cluster {
			typ = "cluster"
		}
		y := "input:\n  redis:\n    addresses: [127.0.0.1:6379]\noutput:\n  redis:\n    addresses: [127.0.0.1:6380]\n    type: " + typ + "\n" +
			"  replay:\n    resumeFromBreakPoint: " + strconv.FormatBool(resume) + "\n    targetDb: " + strconv.Itoa(tdb) + "\n  filter:\n"
		if len(c.DB) > 0 {
			y += "    dbBlacklist: " + ints(c.DB) + "\n"
		}
		if len(c.CB) > 0 {
			y += "    commandBlacklist: " + q(c.CB) + "\n"
		}
		if len(c.PW)+len(c.PB) > 0 {
			y += "    keyFilter:\n      prefixKeyWhitelist: " + q(c.PW) + "\n      prefixKeyBlacklist: " + q(c.PB) + "\n"
		}
		if len(c.SW)+len(c.SB) > 0 {
			y += "    slotFilter:\n      keySlotWhitelist: " + slots(c.SW) + "\n      keySlotBlacklist: " + slots(c.SB) + "\n"
		}
		y += "channel:\n  type: memory\n"
		path := filepath.Join(dir, "c10.yaml")
		if err := os.WriteFile(path, []byte(y), 0o644); err != nil {
			panic(err)
		}
		syncCfg = &SyncConfig{}
		err := InitSyncerConfig(path)
		b := func(x bool) string {
			if x {
				return "1"
			}
			return "0"
		}
		line := fmt.Sprintf("c10 fix O %s %s %d %s", c.Fields(), b(cluster), tdb, b(resume))
		s.Count("yaml")
		if err != nil {
			s.Op(line, "err")
			s.Count("yaml_err")
			return
		}
		after := vfC10FromFilter(syncCfg.Output.Filter)
		s.Op(line, "ok "+after.Fields())
		if after.Fields() != c.Fields() {
			s.Violate("config-yaml-changes-filter", fmt.Sprintf("the YAML loader + fix hand the output another filter than configured: configured %q, in effect %q", c.Fields(), after.Fields()),
				map[string]interface{}{"op": line, "yaml": y, "cfg": c.Fields(), "after": after.Fields()})
		} else {
			s.Distinct("y:" + line)
		}
	}
	// flag setters (the -cmd=rdb command line): Set(String-rendering) must give back the list
	flagOne := func(c vfc10.Cfg) {
		var si SliceInt
		if len(c.DB) > 0 {
			if err := si.Set(strings.Trim(strings.ReplaceAll(ints(c.DB), " ", ""), "[]")); err != nil || fmt.Sprint([]int(si)) != fmt.Sprint(c.DB) {
				s.Violate("flag-dbBlacklist", fmt.Sprintf("SliceInt.Set(%v) = %v (%v)", c.DB, si, err), map[string]interface{}{"db": fmt.Sprint(c.DB)})
			}
			s.Count("flag_sliceint")
		}
		for _, l := range [][][]uint16{c.SW, c.SB} {
			ok := len(l) > 0
			for _, e := range l {
				if len(e) == 0 {
					ok = false // the flag syntax cannot spell an empty entry
				}
			}
			if !ok {
				continue
			}
			var d DoubleSliceUint16
			in := strings.ReplaceAll(slots(l), " ", "")
			in = in[1 : len(in)-1] // [a,b],[c]
			err := d.Set(in)
			if err != nil || fmt.Sprint([][]uint16(d)) != fmt.Sprint(l) {
				s.Violate("flag-slotlist", fmt.Sprintf("DoubleSliceUint16.Set(%q) = %v (%v), want %v", in, d, err, l), map[string]interface{}{"flag": in})
			}
			s.Count("flag_slots")
		}
	}

	n := vfutil.Scale(400, 20000)
	for i := 0; i < n; i++ {
		c := vfc10.GenCfg(r, "O")
		if r.Chance(2, 3) && len(c.DB) == 0 {
			c.DB = []int{r.Intn(16), r.Intn(16)}
		}
		tdb := vfutil.Pick(r, []int{-1, -1, -1, 0, 0, 3})
		cl, rs := r.Bool(), r.Chance(1, 2)
		one(c, cl, tdb, rs, "gen")
		yamlOne(c, cl, tdb, rs)
		flagOne(c)
	}
}
