//go:build verif

package config

// C10: the configured filter must reach the output unchanged. The REAL
// (*SyncConfig).fix runs on generated configurations (standalone / cluster
// target × TargetDb × resume × filter lists); the filter section afterwards is
// compared with the one configured.

import (
	"fmt"
	"strings"
	"testing"

	"github.com/mgtv-tech/redis-GunYu/pkg/vfc10"
	"github.com/mgtv-tech/redis-GunYu/pkg/vfutil"
)

func vfC10ToFilter(c vfc10.Cfg, r *vfutil.Rand) FilterConfig {
	fc := FilterConfig{DbBlacklist: SliceInt(c.DB), CmdBlacklist: SliceString(c.CB)}
	if len(c.PW)+len(c.PB) > 0 || r.Bool() {
		fc.KeyFilter = &FilterKeyConfig{PrefixKeyWhitelist: SliceString(c.PW), PrefixKeyBlacklist: SliceString(c.PB)}
	}
	if len(c.SW)+len(c.SB) > 0 || r.Bool() {
		fc.SlotFilter = &FilterSlotConfig{KeySlotWhitelist: DoubleSliceUint16(c.SW), KeySlotBlacklist: DoubleSliceUint16(c.SB)}
	}
	return fc
}

func vfC10FromFilter(fc FilterConfig) vfc10.Cfg {
	c := vfc10.Cfg{DB: []int(fc.DbBlacklist), CB: []string(fc.CmdBlacklist)}
	if fc.KeyFilter != nil {
		c.PW, c.PB = []string(fc.KeyFilter.PrefixKeyWhitelist), []string(fc.KeyFilter.PrefixKeyBlacklist)
	}
	if fc.SlotFilter != nil {
		c.SW, c.SB = [][]uint16(fc.SlotFilter.KeySlotWhitelist), [][]uint16(fc.SlotFilter.KeySlotBlacklist)
	}
	return c
}

func TestVerifC10(t *testing.T) {
	s := vfutil.NewSession("C10cfg")
	defer s.Close()
	r := vfutil.NewRand(vfutil.Seed() ^ 0xC10F)

	one := func(c vfc10.Cfg, cluster bool, tdb int, resume bool, src string) {
		c.CW = nil
		typ := RedisTypeStandalone
		if cluster {
			typ = RedisTypeCluster
		}
		res, tdbv := resume, tdb
		sc := &SyncConfig{
			Input:   &InputConfig{Redis: &RedisConfig{Addresses: SliceString{"127.0.0.1:6379"}}},
			Output:  &OutputConfig{Redis: &RedisConfig{Addresses: SliceString{"127.0.0.1:6380"}, Type: typ}, Filter: vfC10ToFilter(c, r)},
			Channel: &ChannelConfig{Type: ChannelTypeMemory},
		}
		sc.Output.Replay.ResumeFromBreakPoint = &res
		sc.Output.Replay.TargetDbCfg = &tdbv
		err := sc.fix()
		b := func(x bool) string {
			if x {
				return "1"
			}
			return "0"
		}
		line := fmt.Sprintf("c10 fix O %s %s %d %s", c.Fields(), b(cluster), tdb, b(resume))
		s.Count("fix_" + src)
		if err != nil {
			s.Op(line, "err")
			s.Count("fix_err")
			return
		}
		after := vfC10FromFilter(sc.Output.Filter)
		s.Op(line, "ok "+after.Fields())
		s.Count("fix_ok_cluster" + b(cluster))
		if after.Fields() != c.Fields() {
			what := "config-fix-changes-filter"
			if len(c.DB) > 0 && len(after.DB) == 0 {
				what = "db-blacklist-dropped"
			}
			s.Violate(what, fmt.Sprintf("SyncConfig.fix rewrote the configured filter (cluster=%v targetDb=%d): configured %q, in effect %q",
				cluster, tdb, c.Fields(), after.Fields()),
				map[string]interface{}{"op": line, "cluster": cluster, "targetDb": tdb, "resume": resume, "cfg": c.Fields(), "after": after.Fields()})
		} else if len(c.DB) > 0 {
			s.Distinct(line)
		}
	}

	for _, l := range vfutil.Corpus("C10") {
		f := strings.Fields(l)
		if len(f) == 13 && f[0] == "c10" && f[1] == "fix" {
			c, err := vfc10.ParseCfg(f[3:10])
			if err != nil {
				panic(err)
			}
			var tdb int
			fmt.Sscanf(f[11], "%d", &tdb)
			one(c, f[10] == "1", tdb, f[12] == "1", "corpus")
		}
	}
	n := vfutil.Scale(400, 20000)
	for i := 0; i < n; i++ {
		c := vfc10.GenCfg(r, "O")
		if r.Chance(2, 3) && len(c.DB) == 0 {
			c.DB = []int{r.Intn(16), r.Intn(16)}
		}
		tdb := vfutil.Pick(r, []int{-1, -1, -1, 0, 0, 3})
		one(c, r.Bool(), tdb, r.Chance(1, 2), "gen")
	}
}
