//go:build verif

package config

// VerifFixReplay runs the REAL (unexported) ReplayConfig.fix — the only place
// where the key-exists policy string is normalised (lower-cased, unknown →
// "replace") before RdbReplay / the bisync builder switch on it.
func VerifFixReplay(rc *ReplayConfig) error { return rc.fix() }
