//go:build verif

package store

// Verification shims (build tag `verif`, overlay only).

// VerifGcLog runs one pass of the size-triggered collector synchronously (the
// production code runs it from a 30 s ticker in gcLogJob).
func (s *Storer) VerifGcLog() { s.gcLog() }

// VerifStopCollector stops the background collector goroutine; nothing else in
// the Storer depends on s.closer.
func (s *Storer) VerifStopCollector() { s.closer.Close(nil) }
