//go:build verif

package store

// Verification shims (build tag `verif`, overlay only).

// VerifGcLog runs one pass of the size-triggered collector synchronously (the
// production code runs it from a 30 s ticker in gcLogJob).
func (s *Storer) VerifGcLog() { s.gcLog() }

// VerifStopCollector stops the background collector goroutine; nothing else in
// the Storer depends on s.closer.
func (s *Storer) VerifStopCollector() { s.closer.Close(nil) }

// VerifRefs returns the reference counts of the indexed stream segments
// (left -> rwRef) and of the snapshot (-1 -> rwRef), for leak checks by
// harnesses outside this package.
func (s *Storer) VerifRefs() map[int64]int32 {
	ds := s.getDataSet()
	ds.mux.RLock()
	defer ds.mux.RUnlock()
	m := map[int64]int32{}
	for _, a := range ds.aofSegs {
		m[a.left] = a.Ref()
	}
	if ds.rdb != nil {
		m[-1] = ds.rdb.Ref()
	}
	return m
}
