//go:build verif

package store

import "os"

// Verification shims (build tag `verif`, overlay only).

// VerifGcLog runs one pass of the size-triggered collector synchronously (the
// production code runs it from a 30 s ticker in gcLogJob).
func (s *Storer) VerifGcLog() { s.gcLog() }

// VerifStopCollector stops the background collector goroutine; nothing else in
// the Storer depends on s.closer.
func (s *Storer) VerifStopCollector() { s.closer.Close(nil) }

// VerifRefs returns the reference counts of the indexed stream segments
// (left -> rwRef) and of the snapshot (-1 -> rwRef), for leak checks by
// harnesses outside this package.
func (s *Storer) VerifRefs() map[int64]int32 {
	ds := s.getDataSet()
	ds.mux.RLock()
	defer ds.mux.RUnlock()
	m := map[int64]int32{}
	for _, a := range ds.aofSegs {
		m[a.left] = a.Ref()
	}
	if ds.rdb != nil {
		m[-1] = ds.rdb.Ref()
	}
	return m
}

// VerifRotateInSteps performs the rotation that AofRotater.write performs when the
// size limit is exceeded — closeAof(), then openFile(right), both under w.mux —
// with a stop in the middle of openFile: window() runs at the instant at which
// the next file exists (created, header written, synced: exactly the first half
// of openFile) but openFile's Open observer has not yet added it to the index.
// The second half is the real openFile (O_TRUNC re-creates the same file).
func VerifRotateInSteps(w *AofWriter, window func()) error {
	w.mux.Lock()
	defer w.mux.Unlock()
	if err := w.closeAof(); err != nil {
		return err
	}
	fp := aofFilePath(w.dir, w.right.Load())
	f, err := os.OpenFile(fp, os.O_WRONLY|os.O_CREATE|os.O_TRUNC, 0777)
	if err != nil {
		return err
	}
	f.Write(fixHeader[:])
	f.Sync()
	f.Close()
	window()
	return w.openFile(w.right.Load())
}
