//go:build verif

package store

import (
	"os"
	"syscall"
)

// Verification shims for C16 (build tag `verif`, overlay only): faults of the FOLLOWER's own
// store underneath the real ReplicaFollower. The harness wraps the io.Reader a writer ingests
// from; between two reads (= between two writes of ingest()) it calls one of these.

// VerifBreakFile closes the file descriptor underneath a snapshot / stream writer: the
// writer's next file write fails with n = 0 (stands for EIO / ENOSPC / EDQUOT).
func VerifBreakFile(w interface{}) bool {
	switch x := w.(type) {
	case *RdbWriter:
		if x == nil {
			return false
		}
		x.mux.Lock()
		defer x.mux.Unlock()
		return x.writer.Close() == nil
	case *AofWriter:
		if x == nil {
			return false
		}
		x.mux.Lock()
		defer x.mux.Unlock()
		if x.file == nil {
			return false
		}
		return x.file.Close() == nil
	}
	return false
}

// VerifLoseRdbTmp unlinks the temporary file of a snapshot writer: every write still
// succeeds (the descriptor stays valid), the commit `rename(x.rdb.tmp, x.rdb)` fails.
func VerifLoseRdbTmp(w interface{}) bool {
	x, ok := w.(*RdbWriter)
	if !ok || x == nil {
		return false
	}
	return os.Remove(x.fn) == nil
}

// VerifLoseSync makes the rest of a snapshot writer's output vanish and its fsync fail: a pipe
// is dup2'ed over the writer's descriptor, so every further write "succeeds" (into the pipe,
// nothing reaches the file) and Sync returns EINVAL — writes lost by the kernel and reported
// by fsync only. Returns the pipe's read end (keep it open: no EPIPE).
func VerifLoseSync(w interface{}) *os.File {
	x, ok := w.(*RdbWriter)
	if !ok || x == nil {
		return nil
	}
	x.mux.Lock()
	defer x.mux.Unlock()
	r, wp, err := os.Pipe()
	if err != nil {
		return nil
	}
	if err := syscall.Dup2(int(wp.Fd()), int(x.writer.Fd())); err != nil {
		r.Close()
		wp.Close()
		return nil
	}
	wp.Close()
	return r
}
