//go:build verif

package store

// C05 (disk backend) — sequential correspondence + monitor.
//
// Generated operation sequences are executed against the real Storer on a
// temporary directory. The background collector is stopped and invoked
// synchronously through VerifGcLog. AOF writers are driven through the real
// AofRotater.write (the mutex-protected step of AofWriter.ingest), snapshot
// writers through the real RdbWriter.Start/ingest fed by a step reader, readers
// through the real AofRotateReader.read / RdbReader.read (the steps of pump).
// Every answer and every byte is written to the line protocol (compared with
// the Lean model) and checked against independent Go bookkeeping (monitor).

import (
	"math"
	"encoding/binary"
	"errors"
	"fmt"
	"io"
	"os"
	"path/filepath"
	"sort"
	"strconv"
	"strings"
	"testing"
	"time"

	"github.com/mgtv-tech/redis-GunYu/config"
	"github.com/mgtv-tech/redis-GunYu/pkg/common"
	"github.com/mgtv-tech/redis-GunYu/pkg/digest"
	"github.com/mgtv-tech/redis-GunYu/pkg/vfutil"
)

// ---------------------------------------------------------------- step reader

// vfStepReader hands chunks to a writer's ingest loop one at a time.
type vfStepReader struct {
	req  chan struct{}
	data chan []byte
}

func newVfStepReader() *vfStepReader {
	return &vfStepReader{req: make(chan struct{}, 1), data: make(chan []byte)}
}

func (r *vfStepReader) Read(p []byte) (int, error) {
	select {
	case r.req <- struct{}{}:
	default:
	}
	d, ok := <-r.data
	if !ok {
		return 0, io.EOF
	}
	if len(d) > len(p) {
		panic("vfStepReader: chunk larger than buffer")
	}
	return copy(p, d), nil
}

// ---------------------------------------------------------------- harness state

type vfDReader struct {
	rd       *Reader
	isAof    bool
	start    int64
	pos      int64 // aof: next logical offset; rdb: bytes delivered
	left     int64 // rdb: snapshot offset
	size     int64
	gen      int  // reset generation at open
	wgen     int  // aof-writer generation at open
	sgen     int  // snapshot generation at open
	closed   bool // closed by the harness
	switched bool // the replication id was switched while it was open
	crc      bool // opened with verifyCrc
}

// vfHist is the oracle's record of one cache generation (between two resets).
type vfHist struct {
	hbase int64
	hist  []byte
	snap  []byte
}

// vfSaved: what the oracle knows a parked directory holds.
type vfSaved struct {
	haveHist           bool
	hbase              int64
	hist               []byte
	haveSnap           bool
	snapLeft, snapSize int64
	snap               []byte
}

type vfDisk struct {
	restarted bool  // a restart happened in this case (dimension counter: reopen after restart)
	sticky    int64 // an offset re-used for writers / snapshots under DIFFERENT ids of one case (equal left offsets in two directories)
	s       *vfutil.Session
	r       *vfutil.Rand
	root    string
	st      *Storer
	logSize int64
	maxSize int64
	nextId  int
	runId   string
	// independent bookkeeping (the oracle)
	gen      int    // incremented by every cache reset
	wgen     int    // incremented by every aof writer creation
	haveHist bool   // an aof byte history exists since the last reset
	hbase    int64  // offset of hist[0]
	hist     []byte // every aof byte appended since the last reset
	snapLeft int64
	snapSize int64
	snap     []byte // snapshot bytes appended so far
	snapDone bool   // snapshot completely written (and writer finished)
	snapLive bool   // snapshot writer still open
	haveSnap bool
	snapPlan []byte          // bytes the generator will feed to the snapshot writer
	sgen     int             // incremented when a snapshot is created or lost
	past     map[int]*vfHist // histories of earlier generations (readers opened then)
	// the oracle's record of the OTHER run-id directories of this store (several ids in one
	// base directory: left by a restart, or by DelRunId of a foreign id)
	others map[string]*vfSaved
	// live objects
	aofW                   *AofWriter
	rdbW                   *RdbWriter
	rdbSR                  *vfStepReader
	readers                map[int]*vfDReader
	nextRid                int
	opIdx                  int
	stalls                 int  // reads that stalled (each costs its deadline): the run stops after a few
	manySegs, pinnedClosed bool // coverage: the case had >= 3 segments / a reader on a closed segment
	caseNo                 int
	trace                  []string // op lines of the current case (for replays)
	dead                   bool     // storer abandoned after a hang
}

func vfErrClass(err error) string {
	switch {
	case err == nil:
		return "ok"
	case errors.Is(err, common.ErrCorrupted):
		return "corrupt"
	case errors.Is(err, os.ErrNotExist):
		return "notexist"
	case errors.Is(err, io.EOF):
		return "eof"
	default:
		return "other"
	}
}

// emit records one op and the implementation's answer lines (prefixed with the
// op index so that the runner can name the op of the first difference).
func (d *vfDisk) emit(op string, out ...string) {
	idx := d.opIdx
	d.opIdx++
	d.trace = append(d.trace, op)
	lines := make([]string, len(out))
	for i, o := range out {
		lines[i] = fmt.Sprintf("#%d %s", idx, o)
	}
	d.s.Op(op, lines...)
}

func (d *vfDisk) replay(extra map[string]interface{}) map[string]interface{} {
	m := map[string]interface{}{"backend": "disk", "ops": strings.Join(d.trace, " ; ")}
	for k, v := range extra {
		m[k] = v
	}
	return m
}

// guard runs f with a watchdog; a hang is a monitor violation (the cache must
// never block a caller forever) and the storer is abandoned.
func (d *vfDisk) guard(what string, f func()) bool {
	t0 := time.Now()
	defer func() { d.s.Add("us_"+what, int(time.Since(t0).Microseconds())) }()
	done := make(chan struct{})
	go func() {
		defer close(done)
		f()
	}()
	if vfutil.Wait(done, 5*time.Second) {
		return true
	}
	d.dead = true
	d.stalls++
	return false
}

func (d *vfDisk) right() int64 { return d.hbase + int64(len(d.hist)) }

// ---------------------------------------------------------------- observations

func (d *vfDisk) query(probes []int64) {
	ps := make([]string, len(probes))
	for i, p := range probes {
		ps[i] = strconv.FormatInt(p, 10)
	}
	st := d.st
	l, r := st.GetOffsetRange()
	rl, rs := st.GetRdb()
	bits := make([]byte, len(probes))
	for i, p := range probes {
		if st.IsValidOffset(p) {
			bits[i] = '1'
		} else {
			bits[i] = '0'
		}
	}
	v := string(bits)
	if v == "" {
		v = "-"
	}
	d.emit("dq "+strings.Join(ps, ","),
		fmt.Sprintf("run=%s range=%d,%d rdb=%d,%d latest=%d valid=%s", vfDash(st.RunId()), l, r, rl, rs, st.LatestOffset(), v))

	// ---- monitor: "an offset is reported valid only if such a read is possible"
	for i, p := range probes {
		if bits[i] != '1' {
			continue
		}
		d.s.Count("mon_valid_probe")
		ok := false
		if d.haveHist && p >= d.hbaseHeld() && p <= d.right() {
			ok = true
		}
		if d.haveSnap && (d.snapDone || d.snapLive) && p <= d.snapLeft {
			ok = true
		}
		if !ok {
			d.s.Violate("valid-not-readable", fmt.Sprintf("IsValidOffset(%d)=true but no held bytes/snapshot cover it (held aof [%d,%d], snapshot have=%v left=%d done=%v live=%v)",
				p, d.hbaseHeld(), d.right(), d.haveSnap, d.snapLeft, d.snapDone, d.snapLive), d.replay(map[string]interface{}{"offset": p}))
		}
	}
	// ---- monitor (dimension audit): offset -1 (the callers' "nothing yet") is not a line of the
	// model (offsets are naturals); it is valid only through an offered snapshot
	if st.IsValidOffset(-1) {
		d.s.Count("probe_minus_one_valid")
		if !(d.haveSnap && (d.snapDone || d.snapLive)) {
			d.s.Violate("valid-not-readable", "IsValidOffset(-1)=true but no snapshot is offered", d.replay(map[string]interface{}{"offset": -1}))
		}
	} else {
		d.s.Count("probe_minus_one_invalid")
	}
	// ---- monitor: "a cached snapshot is offered only while all its bytes are present"
	if rl != -1 || rs != -1 {
		d.s.Count("mon_rdb_offered")
		if !(d.haveSnap && (d.snapDone || d.snapLive) && rl == d.snapLeft && rs == d.snapSize) {
			d.s.Violate("snapshot-offered-incomplete", fmt.Sprintf("GetRdb()=(%d,%d) but snapshot have=%v done=%v live=%v bytes=%d/%d",
				rl, rs, d.haveSnap, d.snapDone, d.snapLive, len(d.snap), d.snapSize), d.replay(nil))
		}
	}
}

// hbaseHeld: the oldest aof offset still held according to the index (the
// collector may drop a prefix; dropping is allowed, serving wrong bytes is not).
func (d *vfDisk) hbaseHeld() int64 {
	ds := d.st.getDataSet()
	ds.mux.RLock()
	defer ds.mux.RUnlock()
	if len(ds.aofSegs) == 0 {
		return d.right() + 1
	}
	return ds.aofSegs[0].left
}

// vfFooterOk: RDB files of more than 8 bytes end with the little-endian CRC64
// of everything before.
func vfFooterOk(b []byte) bool {
	if len(b) <= 8 {
		return true
	}
	c := digest.New()
	c.Write(b[:len(b)-8])
	return binary.LittleEndian.Uint64(b[len(b)-8:]) == c.Sum64()
}

func vfUndash(s string) string {
	if s == "-" {
		return ""
	}
	return s
}

func vfDash(s string) string {
	if s == "" {
		return "-"
	}
	return s
}

func (d *vfDisk) dump() {
	ds := d.st.getDataSet()
	ds.mux.RLock()
	var segs []string
	for _, a := range ds.aofSegs {
		segs = append(segs, fmt.Sprintf("%d:%d:%d:%d", a.left, a.rtSize.Load(), a.size, a.Ref()))
		if a.Ref() > 0 && a.size != -1 {
			d.pinnedClosed = true // a reader holds a closed segment
		}
	}
	if len(ds.aofSegs) >= 3 {
		d.manySegs = true
	}
	rdb := "-"
	if ds.rdb != nil {
		rdb = fmt.Sprintf("%d:%d:%d", ds.rdb.left, ds.rdb.rdbSize, ds.rdb.Ref())
	}
	ds.mux.RUnlock()
	var files []string
	if d.st.dir != "" {
		ents, _ := os.ReadDir(d.st.dir)
		for _, e := range ents {
			fi, err := e.Info()
			if err == nil {
				files = append(files, fmt.Sprintf("%s:%d", e.Name(), fi.Size()))
			}
		}
	}
	sort.Strings(files)
	sl := strings.Join(segs, ",")
	if sl == "" {
		sl = "-"
	}
	fl := strings.Join(files, ",")
	if fl == "" {
		fl = "-"
	}
	// the directories of the other ids under the same base directory
	var dirs []string
	if ents, err := os.ReadDir(d.root); err == nil {
		for _, e := range ents {
			if !e.IsDir() || (d.st.dir != "" && filepath.Join(d.root, e.Name()) == d.st.dir) {
				continue
			}
			var fs []string
			if sub, err := os.ReadDir(filepath.Join(d.root, e.Name())); err == nil {
				for _, f := range sub {
					if fi, err := f.Info(); err == nil {
						fs = append(fs, fmt.Sprintf("%s:%d", f.Name(), fi.Size()))
					}
				}
			}
			sort.Strings(fs)
			x := strings.Join(fs, ",")
			if x == "" {
				x = "-"
			}
			dirs = append(dirs, fmt.Sprintf("%s[%s]", e.Name(), x))
		}
	}
	sort.Strings(dirs)
	dl := strings.Join(dirs, ";")
	if dl == "" {
		dl = "-"
	}
	d.emit("ddump", fmt.Sprintf("segs=%s rdb=%s files=%s dirs=%s", sl, rdb, fl, dl))
}

// probes: offsets around every boundary the oracle knows about.
func (d *vfDisk) probes() []int64 {
	set := map[int64]struct{}{}
	add := func(x int64) {
		for _, y := range []int64{x - 1, x, x + 1} {
			if y >= 0 {
				set[y] = struct{}{}
			}
		}
	}
	if d.haveHist {
		add(d.hbase)
		add(d.right())
		add(d.hbase + int64(d.r.Intn(len(d.hist)+1)))
	}
	if d.haveSnap {
		add(d.snapLeft)
	}
	l, r := d.st.GetOffsetRange()
	if l >= 0 {
		add(l)
		add(r)
	}
	add(int64(d.r.Intn(3000)))
	// dimension audit: the extreme offsets, every time
	set[0] = struct{}{}
	set[1] = struct{}{}
	set[math.MaxInt64-1] = struct{}{}
	out := make([]int64, 0, len(set))
	for k := range set {
		out = append(out, k)
	}
	sort.Slice(out, func(i, j int) bool { return out[i] < out[j] })
	return out
}

func (d *vfDisk) observe() {
	if d.dead {
		return
	}
	d.query(d.probes())
	d.dump()
}

// ---------------------------------------------------------------- operations

func (d *vfDisk) opNew(logSize, maxSize int64) {
	d.root, _ = os.MkdirTemp(d.root0(), "c")
	d.st = NewStorer("vf", d.root, maxSize, logSize, config.FlushPolicy{})
	d.st.VerifStopCollector()
	d.logSize, d.maxSize = logSize, maxSize
	d.runId = ""
	d.gen, d.wgen, d.sgen = 0, 0, 0
	d.past = nil
	d.others = map[string]*vfSaved{}
	d.haveHist, d.hist, d.snap = false, nil, nil
	d.resetOracle()
	d.aofW, d.rdbW, d.rdbSR = nil, nil, nil
	d.readers = map[int]*vfDReader{}
	d.nextRid = 0
	d.trace = nil
	d.dead = false
	mm := maxSize
	if mm < 0 {
		mm = 0 // the configuration's "unlimited" is -1 (0 is replaced by the default there); the model's is 0
	}
	d.emit(fmt.Sprintf("dnew %d %d", logSize, mm), "ok")
}

var vfRoot0 string

func (d *vfDisk) root0() string { return vfRoot0 }

func (d *vfDisk) resetOracle() {
	if d.past == nil {
		d.past = map[int]*vfHist{}
	}
	d.past[d.gen] = &vfHist{d.hbase, d.hist, d.snap}
	d.gen++
	d.sgen++
	d.haveHist, d.hbase, d.hist = false, 0, nil
	d.haveSnap, d.snap, d.snapDone, d.snapLive = false, nil, false, false
	d.aofW = nil
}

// parkCur: the current directory joins the others (the oracle's account: the stream bytes
// appended under it, and its snapshot if it was committed).
func (d *vfDisk) parkCur() {
	if d.runId == "" {
		return
	}
	sv := &vfSaved{haveHist: d.haveHist, hbase: d.hbase, hist: d.hist}
	if d.haveSnap && d.snapDone {
		sv.haveSnap, sv.snapLeft, sv.snapSize, sv.snap = true, d.snapLeft, d.snapSize, d.snap
	}
	d.others[d.runId] = sv
}

// loadDir: the index is rebuilt from the directory of id (a new generation of the oracle:
// every reader handed out before is invalidated).
func (d *vfDisk) loadDir(id string) {
	sv := d.others[id]
	delete(d.others, id)
	d.resetOracle()
	d.rdbW, d.rdbSR = nil, nil
	if sv != nil {
		d.haveHist, d.hbase, d.hist = sv.haveHist, sv.hbase, sv.hist
		if sv.haveSnap {
			d.haveSnap, d.snapLeft, d.snapSize, d.snap, d.snapDone = true, sv.snapLeft, sv.snapSize, sv.snap, true
		}
	}
	d.runId = id
}

// switchedTo: the oracle follows a successful SetRunId(id) with id != current
func (d *vfDisk) switchedTo(id string) {
	if id == "" || id == "?" || id == d.runId {
		return
	}
	for _, vr := range d.readers {
		vr.switched = true
	}
	_, exists := d.others[id]
	switch {
	case d.runId == "":
		d.loadDir(id) // an existing directory, or a fresh one
	case exists:
		d.parkCur()
		d.loadDir(id)
	default:
		d.runId = id // the directory is renamed: the same bytes under a new label
	}
}

func (d *vfDisk) opSetRun(id string) {
	var err error
	same := id == d.runId && id != ""
	if !d.guard("setrun", func() {
		if same {
			// what StoreChannel.StartPoint(ids) does at every source reconnect
			_, err = d.st.VerifyRunId([]string{"", "?", id})
		} else {
			err = d.st.SetRunId(id)
		}
	}) {
		d.s.Violate("hang", "SetRunId did not return", d.replay(nil))
		return
	}
	if err == nil && !same {
		d.switchedTo(id)
	}
	d.emit("dsetrun "+vfDash(id), vfErrClass(err))
}

func (d *vfDisk) opDelRun() { d.opDelRunId(d.runId) }

// opDelRunId: DelRunId(id) — of the current id (the cache is reset), or of a FOREIGN id whose
// directory exists (that directory goes; the store forgets its current id, whose directory stays)
func (d *vfDisk) opDelRunId(id string) {
	var err error
	if !d.guard("delrun", func() { err = d.st.DelRunId(id) }) {
		d.emit("ddelrun "+vfDash(id), "hang")
		d.s.Violate("hang", "DelRunId did not return (cache reset with open readers/writers)", d.replay(nil))
		return
	}
	_, foreign := d.others[id]
	switch {
	case id == "" || id == "?":
	case id == d.runId:
		d.resetOracle()
		d.rdbW, d.rdbSR = nil, nil
		d.runId = ""
	case foreign:
		delete(d.others, id)
		d.parkCur()
		d.resetOracle()
		d.rdbW, d.rdbSR = nil, nil
		d.runId = ""
	}
	d.emit("ddelrun "+vfDash(id), vfErrClass(err))
}

// opVerify: Storer.VerifyRunId(ids) — the first id whose directory exists and holds something
// becomes the current one. The oracle follows the store's answer for WHICH id that is (the
// model computes it independently and is compared through dq/ddump); what each directory
// holds is the oracle's own account.
func (d *vfDisk) opVerify(ids []string) {
	var off int64
	var err error
	if !d.guard("verify", func() { off, err = d.st.VerifyRunId(ids) }) {
		d.s.Violate("hang", "VerifyRunId did not return", d.replay(nil))
		return
	}
	if cur := d.st.RunId(); cur != d.runId {
		if _, ok := d.others[cur]; ok || d.runId == "" {
			d.switchedTo(cur)
		}
	}
	// ---- monitor: what VerifyRunId answers (StoreChannel.StartPoint hands it to the input as
	// the offset to continue the stream at, the `ask` of the callers' protocol) is the latest
	// offset of the id it made current — not of the id that was current before
	if err == nil && off != 0 {
		d.s.Count("mon_startpoint_checked")
		if lo := d.st.LatestOffset(); lo != off {
			d.s.Violate("startpoint-not-latest", fmt.Sprintf("VerifyRunId(%v) made %q current and answered offset %d, but LatestOffset() of that id is %d: a stream writer created at the answer would not continue the held stream",
				ids, d.st.RunId(), off, lo), d.replay(nil))
		}
	}
	out := vfErrClass(err)
	if err == nil {
		out = fmt.Sprintf("ok %d", off)
	}
	ds := make([]string, len(ids))
	for i, x := range ids {
		ds[i] = vfDash(x)
	}
	d.emit("dverify "+strings.Join(ds, ","), out)
}

// opRestart: a clean stop (readers closed, no writer open) and a new Storer on the same base
// directory: no current id, the directory of the old one stays.
func (d *vfDisk) opRestart() {
	for _, id := range d.liveReaders() {
		vr := d.readers[id]
		if vr.isAof {
			vr.rd.aof.Close()
		} else {
			vr.rd.rdb.Close()
		}
		vr.rd.Close()
		vr.closed = true
	}
	d.st.Close()
	d.st = NewStorer("vf", d.root, d.maxSize, d.logSize, config.FlushPolicy{})
	d.st.VerifStopCollector()
	d.parkCur()
	d.resetOracle()
	d.rdbW, d.rdbSR = nil, nil
	d.runId = ""
	d.restarted = true
	d.emit("drestart", "ok")
}

func (d *vfDisk) opRdbWriter(off, size int64) {
	sr := newVfStepReader()
	var w *RdbWriter
	var err error
	if !d.guard("rdbw", func() { w, err = d.st.GetRdbWriter(sr, off, size) }) {
		d.emit(fmt.Sprintf("drdbw %d %d", off, size), "hang")
		d.s.Violate("hang", "GetRdbWriter did not return (cache reset with open readers/writers)", d.replay(nil))
		return
	}
	if d.rdbSR != nil {
		close(d.rdbSR.data)
	}
	d.resetOracle()
	d.rdbW, d.rdbSR = nil, nil
	if err == nil {
		d.rdbW, d.rdbSR = w, sr
		d.haveSnap, d.snapLeft, d.snapSize, d.snapLive = true, off, size, true
		w.Start()
		<-sr.req
	}
	d.emit(fmt.Sprintf("drdbw %d %d", off, size), vfErrClass(err))
}

func (d *vfDisk) opRdbAppend(chunk []byte) {
	w, sr := d.rdbW, d.rdbSR
	sr.data <- chunk
	res := "ok"
	select {
	case <-sr.req:
	case <-w.wait.Context().Done():
		res = "done"
	}
	d.snap = append(d.snap, chunk...)
	if res == "done" {
		d.snapLive = false
		d.snapDone = int64(len(d.snap)) == d.snapSize
		close(sr.data)
		d.rdbW, d.rdbSR = nil, nil
	}
	d.emit("drdba "+vfutil.Hex(chunk), res)
}

func (d *vfDisk) opRdbClose() {
	w, sr := d.rdbW, d.rdbSR
	if !d.guard("rdbc", func() { w.Close() }) {
		d.s.Violate("hang", "RdbWriter.Close did not return", d.replay(nil))
		return
	}
	close(sr.data)
	d.rdbW, d.rdbSR = nil, nil
	d.snapLive = false
	d.snapDone = int64(len(d.snap)) == d.snapSize // false: an early close loses the snapshot
	if !d.snapDone {
		d.sgen++
	}
	d.emit("drdbc", "ok")
}

func (d *vfDisk) opAofWriter(off int64) {
	var w *AofWriter
	var err error
	if !d.guard("aofw", func() { w, err = d.st.GetAofWritter(nil, off) }) {
		d.emit(fmt.Sprintf("daofw %d", off), "hang")
		d.s.Violate("hang", "GetAofWritter did not return", d.replay(nil))
		return
	}
	d.wgen++
	if err == nil {
		d.aofW = w
		if !d.haveHist {
			d.haveHist, d.hbase, d.hist = true, off, nil
		}
	} else {
		d.aofW = nil
	}
	d.emit(fmt.Sprintf("daofw %d", off), vfErrClass(err))
}

func (d *vfDisk) opAofAppend(chunk []byte) {
	err := d.aofW.write(chunk)
	if err == nil {
		d.hist = append(d.hist, chunk...)
	}
	d.emit("daofa "+vfutil.Hex(chunk), vfErrClass(err))
}

func (d *vfDisk) opAofClose() {
	w := d.aofW
	if !d.guard("aofc", func() { w.Close() }) {
		d.s.Violate("hang", "AofWriter.Close did not return", d.replay(nil))
		return
	}
	d.aofW = nil
	d.emit("daofc", "ok")
}

func (d *vfDisk) opGc() {
	if !d.guard("gc", func() { d.st.VerifGcLog() }) {
		d.s.Violate("hang", "gcLog did not return", d.replay(nil))
		return
	}
	d.emit("dgc", "ok")
}

func (d *vfDisk) opOpen(off int64, crc bool) {
	rid := d.nextRid
	d.nextRid++
	c := 0
	if crc {
		c = 1
	}
	op := fmt.Sprintf("dopen %d %d %d", rid, off, c)
	valid := d.st.IsValidOffset(off)
	var rd *Reader
	var err error
	if !d.guard("open", func() { rd, err = d.st.GetReader(off, crc) }) {
		d.emit(op, "hang")
		d.s.Violate("hang", "GetReader did not return", d.replay(nil))
		return
	}
	if err != nil {
		d.emit(op, "err "+vfErrClass(err))
		if crc && errors.Is(err, common.ErrCorrupted) && d.haveSnap && d.snapDone && !vfFooterOk(d.snap) {
			// checksum verification refuses a snapshot without a correct footer
			d.s.Count("open_rdb_crc_refused")
		} else if valid {
			// both observations are taken back to back, no operation of the harness in
			// between. If the case's directory itself is gone (another process cleaning
			// /tmp), that is the machine, not the store.
			if _, serr := os.Stat(d.st.dir); serr != nil {
				vfutil.Infra(fmt.Sprintf("the case directory %s vanished under the running harness: %v", d.st.dir, serr))
				d.dead = true
				return
			}
			var names []string
			if ents, rerr := os.ReadDir(d.st.dir); rerr == nil {
				for _, e := range ents {
					names = append(names, e.Name())
				}
			}
			l, r := d.st.GetOffsetRange()
			rl, rs := d.st.GetRdb()
			d.s.Violate("valid-not-readable", fmt.Sprintf("IsValidOffset(%d)=true but GetReader(%d,crc=%v) failed: %v", off, off, crc, err),
				d.replay(map[string]interface{}{"offset": off, "crc": crc, "dir": fmt.Sprint(names),
					"after": fmt.Sprintf("valid=%v range=[%d,%d] rdb=(%d,%d) refs=%v", d.st.IsValidOffset(off), l, r, rl, rs, d.st.VerifRefs())}))
		}
		return
	}
	vr := &vfDReader{rd: rd, isAof: rd.IsAof(), start: off, gen: d.gen, wgen: d.wgen, sgen: d.sgen, left: rd.Left(), size: rd.Size(), crc: crc}
	d.readers[rid] = vr
	kind := "stream"
	if !vr.isAof {
		kind = "snapshot"
	}
	d.s.Count(fmt.Sprintf("cfg_verifyCrc_%v_first_open_%s", crc, kind))
	if d.restarted {
		d.s.Count(fmt.Sprintf("cfg_verifyCrc_%v_open_after_restart_%s", crc, kind))
	}
	if vr.isAof && d.aofW != nil && rd.aof.left == d.st.lastSeg() {
		d.s.Count(fmt.Sprintf("cfg_verifyCrc_%v_first_open_on_live_segment", crc))
	}
	if vr.isAof {
		vr.pos = off
		d.emit(op, fmt.Sprintf("aof %d", rd.Left()))
		d.s.Count("open_aof")
	} else {
		d.emit(op, fmt.Sprintf("rdb %d %d", rd.Left(), rd.Size()))
		d.s.Count("open_rdb")
		if !(d.haveSnap && rd.Left() == d.snapLeft && rd.Size() == d.snapSize) {
			d.s.Violate("snapshot-reader-mismatch", "snapshot reader does not describe the snapshot that was written", d.replay(nil))
		}
	}
	if !valid {
		d.s.Violate("reader-for-invalid-offset", fmt.Sprintf("GetReader(%d) succeeded although IsValidOffset is false", off), d.replay(nil))
	}
}

// invalidated: by the oracle's own account of the property's invalidation
// events (cache reset; for stream readers also writer replacement).
func (d *vfDisk) invalidated(vr *vfDReader) bool {
	if vr.closed || vr.switched || vr.gen != d.gen {
		return true
	}
	if vr.isAof && vr.wgen != d.wgen {
		return true
	}
	if !vr.isAof && vr.sgen != d.sgen {
		return true
	}
	return false
}

// histOf: the oracle's history of the generation reader vr was opened in.
func (d *vfDisk) histOf(vr *vfDReader) *vfHist {
	if vr.gen == d.gen {
		return &vfHist{d.hbase, d.hist, d.snap}
	}
	return d.past[vr.gen]
}

func (d *vfDisk) opRead(rid int, n int) { d.opReadX(rid, n, false) }

// opReadX with gcInWindow: the collector pass is forced into the reader's
// rotation step, right after the reader's close observer for the old segment
// ran (the interleaving of D17: in the unrepaired order the reader holds no
// reference at that instant).
func (d *vfDisk) opReadX(rid int, n int, gcInWindow bool) {
	vr := d.readers[rid]
	op := fmt.Sprintf("dread %d %d", rid, n)
	if gcInWindow && vr.isAof {
		op = fmt.Sprintf("dreadgc %d %d", rid, n)
		rr := vr.rd.aof
		orig := *rr.observer.Load()
		rr.SetObserver(&observerProxy{open: orig.Open, close: func(a ...interface{}) {
			orig.Close(a...)
			d.st.VerifGcLog()
			d.s.Count("gc_forced_into_rotation_step")
		}})
		defer rr.SetObserver(orig)
	}
	buf := make([]byte, n)
	var got int
	var err error
	var leftBefore int64
	if vr.isAof {
		leftBefore = vr.rd.aof.left
	}
	inval := d.invalidated(vr)
	done := make(chan struct{})
	go func() {
		defer close(done)
		if vr.isAof {
			got, err = vr.rd.aof.read(buf)
		} else {
			got, err = vr.rd.rdb.read(buf)
		}
	}()
	// a read the oracle says can make progress needs at most a few 10 ms polls of
	// the reader. The budget is NOT wall-clock time: it is 2 x 150 polls of a
	// reference goroutine with the same sleep/wake pattern (vfutil.Wait), so a loaded
	// machine slows the budget like it slows the reader
	if !vfutil.Wait(done, 1500*time.Millisecond) {
		// release the stuck goroutine: closing the reader ends its polling loop
		if vr.isAof {
			vr.rd.aof.Close()
		} else {
			vr.rd.rdb.Close()
		}
		<-done
		vr.closed = true
		d.emit(op, "hang")
		if inval {
			d.s.Violate("invalidated-reader-hangs", fmt.Sprintf("reader %d (start %d, pos %d) was invalidated (reset/writer replacement) but neither ends nor fails: read blocks", rid, vr.start, vr.pos),
				d.replay(map[string]interface{}{"reader": rid}))
		} else {
			d.s.Violate("reader-stalls-behind-writer", fmt.Sprintf("reader %d (opened at %d, now at %d) neither delivers nor fails although bytes up to %d are held: it stalls behind the writer", rid, vr.start, vr.pos, d.right()),
				d.replay(map[string]interface{}{"reader": rid}))
			d.stalls++
			d.dead = true // the case ends here: further reads of this history would stall the same way
		}
		return
	}
	if vr.isAof && vr.rd.aof.left != leftBefore {
		if d.aofW != nil && vr.rd.aof.left == d.st.lastSeg() {
			d.s.Count(fmt.Sprintf("cfg_verifyCrc_%v_follow_into_live", vr.crc))
		} else {
			d.s.Count(fmt.Sprintf("cfg_verifyCrc_%v_follow_into_closed", vr.crc))
		}
	}
	if got > 0 {
		b := buf[:got]
		// ---- monitor: bytes read == bytes written at that offset (in the
		// generation the reader was opened in)
		var want []byte
		h := d.histOf(vr)
		if h != nil {
			if vr.isAof {
				if vr.pos >= h.hbase && vr.pos+int64(got) <= h.hbase+int64(len(h.hist)) {
					want = h.hist[vr.pos-h.hbase : vr.pos-h.hbase+int64(got)]
				}
			} else if vr.pos+int64(got) <= int64(len(h.snap)) {
				want = h.snap[vr.pos : vr.pos+int64(got)]
			}
		}
		d.s.Add("mon_bytes_checked", got)
		if want == nil || string(want) != string(b) {
			d.s.Violate("wrong-bytes", fmt.Sprintf("reader %d at %d delivered %x, written there: %x (invalidated=%v)", rid, vr.pos, b, want, inval),
				d.replay(map[string]interface{}{"reader": rid, "offset": vr.pos}))
		}
		if inval {
			d.s.Count("inval_reader_drained_old_bytes")
		}
		vr.pos += int64(got)
		d.emit(op, "data "+vfutil.Hex(b))
		return
	}
	if err == nil || errors.Is(err, io.EOF) {
		d.emit(op, "eof")
	} else {
		d.emit(op, "err")
		if !inval {
			d.s.Violate("reader-failed", fmt.Sprintf("reader %d (start %d, pos %d) failed without being invalidated: %v", rid, vr.start, vr.pos, err),
				d.replay(map[string]interface{}{"reader": rid}))
		}
	}
}

func (d *vfDisk) opClose(rid int) {
	vr := d.readers[rid]
	ok := d.guard("close", func() {
		if vr.isAof {
			vr.rd.aof.Close()
		} else {
			vr.rd.rdb.Close()
		}
		vr.rd.Close()
	})
	if !ok {
		d.s.Violate("hang", "reader Close did not return", d.replay(nil))
		return
	}
	vr.closed = true
	d.emit(fmt.Sprintf("dclose %d", rid), "ok")
}

// readable: how many bytes the oracle says reader vr can still be given now.
func (d *vfDisk) readable(vr *vfDReader) int64 {
	if d.invalidated(vr) {
		return 0
	}
	if vr.isAof {
		return d.right() - vr.pos
	}
	return int64(len(d.snap)) - vr.pos
}

// ---------------------------------------------------------------- generator

func (d *vfDisk) liveReaders() []int {
	var ids []int
	for id, vr := range d.readers {
		if !vr.closed {
			ids = append(ids, id)
		}
	}
	sort.Ints(ids)
	return ids
}

func (d *vfDisk) chunk(max int) []byte {
	n := 1 + d.r.Intn(max)
	if d.r.Chance(1, 6) {
		n = 1 + d.r.Intn(4)
	}
	return d.r.Bytes(n)
}

// step executes one randomly chosen operation that the callers' protocol
// allows in the current state (weights favour long stream histories with
// rotation, collection and readers following the writer).
func (d *vfDisk) step() bool {
	r := d.r
	if d.runId == "" {
		// no current id (start, DelRunId, restart): a fresh id, or — when other directories
		// exist — one of them, by SetRunId or through VerifyRunId
		var oth []string
		for id := range d.others {
			oth = append(oth, id)
		}
		sort.Strings(oth)
		switch {
		case len(oth) > 0 && r.Chance(1, 3):
			d.opSetRun(vfutil.Pick(r, oth))
			d.s.Count("op_existing_dir_from_no_id")
		case len(oth) > 0 && r.Chance(1, 3):
			d.opVerify([]string{"zz", vfutil.Pick(r, oth), vfutil.Pick(r, oth)})
			d.s.Count("op_verify_from_no_id")
		default:
			d.nextId++
			d.opSetRun(fmt.Sprintf("id%d", d.nextId))
		}
		return true
	}
	live := d.liveReaders()
	var readable, quiet []int
	for _, id := range live {
		if d.readable(d.readers[id]) > 0 {
			readable = append(readable, id)
		} else if d.invalidated(d.readers[id]) || !d.readers[id].isAof {
			quiet = append(quiet, id)
		}
	}
	type cand struct {
		w int
		f func()
	}
	var cs []cand
	add := func(w int, f func()) { cs = append(cs, cand{w, f}) }

	if d.aofW != nil {
		add(35, func() {
			max := int(d.logSize) / 2
			if r.Chance(1, 5) {
				max = int(d.logSize) * 2
			}
			d.opAofAppend(d.chunk(max))
			d.s.Count("op_aof_append")
		})
		add(2, func() { d.opAofClose(); d.s.Count("op_aof_close") })
		add(2, func() { d.opAofWriter(d.right()); d.s.Count("op_aof_replace") })
		add(2, func() {
			// dimension audit: the writer replaced at the SAME offset while its live segment is EMPTY
			// (replace, a reader opened at that very offset, replace again, then bytes)
			d.opAofWriter(d.right())
			d.observe()
			d.opOpen(d.right(), r.Chance(1, 2))
			d.observe()
			d.opAofWriter(d.right())
			d.observe()
			d.opAofAppend(d.chunk(int(d.logSize) / 2))
			d.s.Count("op_aof_replace_on_empty_live_with_reader")
		})
	} else if d.rdbW == nil {
		add(12, func() {
			off := d.drawOff()
			if d.haveHist {
				off = d.right()
			} else if d.haveSnap {
				off = d.snapLeft
			}
			if l, rr := d.st.GetOffsetRange(); l >= 0 && d.haveHist {
				off = rr
			}
			d.opAofWriter(off)
			d.s.Count("op_aof_writer")
		})
	}
	if d.rdbW != nil {
		add(30, func() {
			rem := d.snapSize - int64(len(d.snap))
			n := int64(1 + r.Intn(int(rem)))
			if r.Chance(1, 3) {
				n = rem
			}
			at := int64(len(d.snap))
			d.opRdbAppend(d.snapPlan[at : at+n])
			d.s.Count("op_rdb_append")
		})
		add(2, func() { d.opRdbClose(); d.s.Count("op_rdb_close_early") })
	}
	add(2, func() {
		if d.aofW != nil && r.Chance(1, 2) {
			d.opAofClose()
			d.observe()
		}
		size := 1 + r.Intn(120)
		if r.Chance(1, 10) {
			size = 1 + r.Intn(2) // a snapshot of one / two bytes (complete after a single chunk)
			d.s.Count("cfg_snapshot_size_1_or_2")
		}
		d.opRdbWriter(d.drawOff(), int64(size))
		// two thirds of the snapshots carry a correct RDB checksum footer
		d.snapPlan = r.Bytes(size)
		if size >= 9 && r.Chance(2, 3) {
			c := digest.New()
			c.Write(d.snapPlan[:size-8])
			binary.LittleEndian.PutUint64(d.snapPlan[size-8:], c.Sum64())
		}
		d.s.Count("op_rdb_writer")
	})
	add(8, func() {
		for _, id := range live {
			if !d.readers[id].isAof {
				d.s.Count("op_gc_with_open_snapshot_reader")
				break
			}
		}
		if d.rdbW != nil {
			d.s.Count("op_gc_with_live_snapshot_writer")
		}
		d.opGc()
		d.s.Count("op_gc")
	})
	if len(live) < 6 {
		add(8, func() {
			var off int64
			l, rr := d.st.GetOffsetRange()
			switch {
			case l >= 0 && r.Chance(7, 10):
				off = l + int64(r.Intn(int(rr-l+1)))
				if r.Chance(1, 4) {
					off = rr
				}
			case d.haveSnap && r.Chance(1, 2):
				off = d.snapLeft - int64(r.Intn(3))
			default:
				off = int64(r.Intn(2500))
			}
			if off < 0 {
				off = 0
			}
			d.opOpen(off, r.Chance(1, 3))
		})
	}
	if len(readable) > 0 {
		add(30, func() {
			rid := vfutil.Pick(r, readable)
			n := 1 + r.Intn(int(d.logSize)+8)
			if r.Chance(1, 8) {
				n = 1 // one-byte reads, forced (bufio never reads with an empty buffer: zero-byte reads are not drawn)
				d.s.Count("cfg_read_one_byte")
			}
			d.opReadX(rid, n, r.Chance(1, 4))
			d.s.Count("op_read")
		})
	}
	if len(quiet) > 0 {
		add(3, func() {
			// ended, failed or at the end of a snapshot: must not deliver anything else
			d.opRead(vfutil.Pick(r, quiet), 1+r.Intn(16))
			d.s.Count("op_read_dead_or_eof")
		})
	}
	if len(live) > 0 {
		add(3, func() { d.opClose(vfutil.Pick(r, live)); d.s.Count("op_reader_close") })
	}
	add(1, func() { d.opDelRun(); d.s.Count("op_delrun") })
	// the same id again (StartPoint at every source reconnect): any time, with
	// readers and writers open
	add(5, func() {
		d.opSetRun(d.runId)
		d.s.Count("op_same_id_again")
		if len(live) > 0 {
			d.s.Count("op_same_id_again_with_open_readers")
		}
	})
	// replication-id switch: between two runs of the input (no writer), readers may be open
	if d.aofW == nil && d.rdbW == nil {
		add(3, func() {
			d.nextId++
			d.opSetRun(fmt.Sprintf("id%d", d.nextId))
			d.s.Count("op_switch_id")
			if len(live) > 0 {
				d.s.Count("op_switch_id_with_open_readers")
			}
		})
	}
	// several run-id directories in one store (between two runs of the input: no writer open)
	if d.aofW == nil && d.rdbW == nil {
		var oth []string
		for id := range d.others {
			oth = append(oth, id)
		}
		sort.Strings(oth)
		if len(oth) > 0 {
			add(6, func() {
				d.opSetRun(vfutil.Pick(r, oth))
				d.s.Count("op_switch_to_existing_dir")
				if len(live) > 0 {
					d.s.Count("op_switch_to_existing_dir_with_open_readers")
				}
			})
			add(2, func() { d.opDelRunId(vfutil.Pick(r, oth)); d.s.Count("op_delrun_foreign") })
		}
		add(1, func() { d.opDelRunId("zz"); d.s.Count("op_delrun_missing") })
		// SetRunId("?") / SetRunId(""): newRunId ignores both ids — nothing may happen to the cache
		add(1, func() { d.opSetRun(vfutil.Pick(r, []string{"?", "?", ""})); d.s.Count("op_setrun_placeholder_id") })
		add(2, func() { d.opRestart(); d.s.Count("op_restart") })
		add(2, func() {
			// VerifyRunId over a mix of missing ids, "?", "", the other directories and the current id
			pool := append([]string{"zz", "?", "", d.runId}, oth...)
			n := 1 + r.Intn(4)
			ids := make([]string, n)
			for i := range ids {
				ids[i] = vfutil.Pick(r, pool)
			}
			d.opVerify(ids)
			d.s.Count("op_verify")
		})
	}
	tot := 0
	for _, c := range cs {
		tot += c.w
	}
	k := r.Intn(tot)
	for _, c := range cs {
		if k < c.w {
			c.f()
			return true
		}
		k -= c.w
	}
	return false
}

// drawOff: the offset of a writer / snapshot on a cache that holds nothing. Half of the draws
// re-use the case's sticky offset, so that the directories of DIFFERENT ids hold segments and
// snapshots with EQUAL left offsets (file names equal across directories).
func (d *vfDisk) drawOff() int64 {
	if d.r.Chance(1, 2) {
		d.s.Count("cfg_offset_sticky_across_ids")
		return d.sticky
	}
	d.s.Count("cfg_offset_fresh")
	return int64(100 + d.r.Intn(900))
}

func (d *vfDisk) runCase(nops int) {
	ls := int64(vfutil.Pick(d.r, []int{32, 48, 64, 128, 256}))
	// dimension audit (session 5): LogSize AT the header size (every append rotates, a segment
	// holds exactly one chunk) and one byte above it - forced, not left to chance
	switch d.caseNo % 10 {
	case 3:
		ls = 16
	case 7:
		ls = 17
	}
	ms := ls * int64(2+d.r.Intn(5))
	msKind := "n_segments"
	if d.r.Chance(1, 8) {
		ms = 0 // collector disabled
		msKind = "0"
		if d.r.Chance(1, 2) {
			ms = -1 // what the configuration file says for "unlimited"
			msKind = "minus_1"
		}
	} else if d.caseNo%5 == 1 {
		// MaxSize BELOW one segment: every closed segment alone is over the budget
		ms = vfutil.Pick(d.r, []int64{1, ls / 2, ls - 16 + 1})
		if ms < 1 {
			ms = 1
		}
		msKind = "below_one_segment"
	}
	d.s.Count(fmt.Sprintf("cfg_LogSize_%d", ls))
	d.s.Count("cfg_MaxSize_" + msKind)
	d.restarted = false
	d.sticky = int64(100 + d.r.Intn(900))
	d.opNew(ls, ms)
	// a third of the cases starts with one or two directories left by an earlier process
	if d.r.Chance(1, 3) {
		for k := 0; k < 1+d.r.Intn(2) && !d.dead; k++ {
			d.nextId++
			d.opSetRun(fmt.Sprintf("id%d", d.nextId))
			d.observe()
			if d.r.Chance(1, 3) {
				size := 9 + d.r.Intn(40)
				d.opRdbWriter(d.drawOff(), int64(size))
				d.snapPlan = d.r.Bytes(size)
				d.observe()
				d.opRdbAppend(d.snapPlan)
				d.observe()
			}
			off := d.drawOff()
			if d.haveSnap {
				off = d.snapLeft
			}
			d.opAofWriter(off)
			d.observe()
			for j := 0; j < 1+d.r.Intn(6); j++ {
				d.opAofAppend(d.chunk(int(ls)))
				d.observe()
			}
			d.opAofClose()
			d.observe()
			d.opRestart()
			d.observe()
			d.s.Count("prologue_dirs")
		}
	}
	for i := 0; i < nops && !d.dead; i++ {
		if d.step() {
			d.observe()
		}
	}
	d.finishCase()
}

func (d *vfDisk) finishCase() {
	d.caseNo++
	if d.manySegs && d.pinnedClosed {
		d.s.Distinct(fmt.Sprintf("disk-%d-%d", vfutil.Seed(), d.caseNo))
	}
	d.manySegs, d.pinnedClosed = false, false
	if d.dead {
		return
	}
	for _, id := range d.liveReaders() {
		vr := d.readers[id]
		if vr.isAof {
			vr.rd.aof.Close()
		} else {
			vr.rd.rdb.Close()
		}
		vr.rd.Close()
	}
	if d.aofW != nil {
		d.aofW.Close()
	}
	if d.rdbW != nil {
		d.rdbW.Close()
		close(d.rdbSR.data)
	}
	os.RemoveAll(d.root)
}

// runScript replays a recorded case ("op ; op ; …" as stored in replays and
// corpus files) against the real code.
func (d *vfDisk) runScript(script string) {
	for _, op := range strings.Split(script, ";") {
		f := strings.Fields(op)
		if len(f) == 0 || (d.dead && f[0] != "dnew") {
			continue
		}
		num := func(i int) int64 { v, _ := strconv.ParseInt(f[i], 10, 64); return v }
		switch f[0] {
		case "dnew":
			d.opNew(num(1), num(2))
			continue
		case "dq", "ddump":
			continue
		case "dsetrun":
			d.opSetRun(vfUndash(f[1]))
		case "ddelrun":
			d.opDelRunId(vfUndash(f[1]))
		case "dverify":
			ids := strings.Split(f[1], ",")
			for i := range ids {
				ids[i] = vfUndash(ids[i])
			}
			d.opVerify(ids)
		case "drestart":
			d.opRestart()
		case "drdbw":
			d.opRdbWriter(num(1), num(2))
		case "drdba":
			if d.rdbW != nil {
				d.opRdbAppend(vfutil.UnHex(f[1]))
			}
		case "drdbc":
			if d.rdbW != nil {
				d.opRdbClose()
			}
		case "daofw":
			d.opAofWriter(num(1))
		case "daofa":
			if d.aofW != nil {
				d.opAofAppend(vfutil.UnHex(f[1]))
			}
		case "daofc":
			if d.aofW != nil {
				d.opAofClose()
			}
		case "dgc":
			d.opGc()
		case "dopen":
			d.nextRid = int(num(1))
			d.opOpen(num(2), num(3) == 1)
		case "dread", "dreadgc":
			if _, ok := d.readers[int(num(1))]; ok {
				d.opReadX(int(num(1)), int(num(2)), f[0] == "dreadgc")
			}
		case "dclose":
			if _, ok := d.readers[int(num(1))]; ok {
				d.opClose(int(num(1)))
			}
		default:
			continue
		}
		d.observe()
	}
	d.finishCase()
}

// vfWatchdog ends the whole test process when it runs longer than limit: the
// summary (with the op that was running) is written first, so that no behaviour
// of the code under test can make the check wait for go test's own timeout.
// ---------------------------------------------------------------- the rotation window

// vfRotationWindow drives the instant inside a rotation at which the next file
// already exists but is not yet in the index (AofRotater.openFile: create + header +
// fsync, THEN the Open observer). A reader polling at the tail during that
// instant must not leave its segment (it would hold no reference on the new one:
// the collector then removes segments ahead of it). Monitor only: afterwards the
// writer goes on for several segments with collector passes while the reader
// rests; then the reader must deliver every byte written, in order.
func vfRotationWindow(s *vfutil.Session, r *vfutil.Rand, dir string, verify bool) {
	const logSize = 64
	replay := map[string]interface{}{"scenario": "rotation-window", "verify": verify}
	st := NewStorer("vf", dir, 2*logSize, logSize, config.FlushPolicy{})
	st.VerifStopCollector()
	if err := st.SetRunId("rw"); err != nil {
		return
	}
	salt := r.U64() % 100000
	src := func(from int64, n int) []byte {
		b := make([]byte, n)
		for i := range b {
			x := salt*0x9E3779B97F4A7C15 + uint64(from) + uint64(i)
			x ^= x >> 31
			x *= 0xff51afd7ed558ccd
			b[i] = byte(x >> 24)
		}
		return b
	}
	start := int64(100 + r.Intn(900))
	w, err := st.GetAofWritter(nil, start)
	if err != nil {
		return
	}
	defer w.Close()
	right := start
	write := func(n int) bool {
		if err := w.write(src(right, n)); err != nil {
			return false
		}
		right += int64(n)
		return true
	}
	write(10 + r.Intn(30)) // stays inside the first segment
	rd, err := st.GetReader(start, verify)
	if err != nil || rd.aof == nil {
		s.Violate("valid-not-readable", fmt.Sprintf("rotation window: GetReader(%d, verify=%v) failed: %v", start, verify, err), replay)
		return
	}
	defer rd.aof.Close()
	// the reader's consumer: reads when told to, up to a target offset
	var got []byte
	var rerr error
	pos := func() int64 { return start + int64(len(got)) }
	readTo := func(target int64, budget time.Duration) bool {
		done := make(chan struct{})
		go func() {
			defer close(done)
			buf := make([]byte, 4096)
			for pos() < target {
				n, err := rd.aof.read(buf)
				got = append(got, buf[:n]...)
				if err != nil {
					rerr = err
					return
				}
			}
		}()
		if vfutil.Wait(done, budget) {
			return rerr == nil
		}
		return false
	}
	if !readTo(right, 3*time.Second) {
		return
	}
	// the reader polls at the tail (one read in flight) while the writer rotates in two steps
	polled := make(chan struct{})
	go func() {
		defer close(polled)
		buf := make([]byte, 4096)
		n, err := rd.aof.read(buf)
		got = append(got, buf[:n]...)
		if err != nil {
			rerr = err
		}
	}()
	if err := VerifRotateInSteps(w, func() {
		time.Sleep(35 * time.Millisecond) // at least three polls of the reader
		st.VerifGcLog()
		time.Sleep(15 * time.Millisecond)
	}); err != nil {
		return
	}
	write(10 + r.Intn(20)) // the poll in flight returns these bytes
	if !vfutil.Wait(polled, 3*time.Second) {
		s.Violate("reader-stalls-behind-writer", fmt.Sprintf("rotation window (verify=%v): the reader polling at %d during the rotation does not deliver the bytes appended after it (writer at %d)", verify, pos(), right), replay)
		return
	}
	// the reader rests; the writer fills several segments, the collector runs
	for i := 0; i < 6 && rerr == nil; i++ {
		write(40 + r.Intn(20))
		st.VerifGcLog()
	}
	if rerr == nil && !readTo(right, 3*time.Second) && rerr == nil {
		s.Violate("reader-stalls-behind-writer", fmt.Sprintf("rotation window (verify=%v): reader opened at %d is at %d, the writer at %d: it neither delivers nor fails (held range %v)", verify, start, pos(), right, fmt.Sprint(st.GetOffsetRange())), replay)
		return
	}
	if rerr != nil {
		s.Violate("reader-failed", fmt.Sprintf("rotation window (verify=%v): reader opened at %d failed at %d without being invalidated: %v", verify, start, pos(), rerr), replay)
		return
	}
	want := src(start, len(got))
	for i := range got {
		if got[i] != want[i] {
			s.Violate("wrong-bytes", fmt.Sprintf("rotation window (verify=%v): offset %d delivered as %02x, written %02x", verify, start+int64(i), got[i], want[i]), replay)
			break
		}
	}
	s.Add("mon_bytes_checked", len(got))
	s.Count("rotation_windows")
}

func vfWatchdog(s *vfutil.Session, limit time.Duration, cur func() string) *time.Timer {
	// a harness that does not finish is an infrastructure failure (broken tie), not a violation
	return time.AfterFunc(limit, func() {
		vfutil.WatchdogExit(s, fmt.Sprintf("the harness did not finish within %v; last op: %s", limit, cur()))
	})
}

func TestVerifC05(t *testing.T) {
	s := vfutil.NewSession("C05")
	defer s.Close()
	vfRoot0 = t.TempDir()
	d := &vfDisk{s: s, r: vfutil.NewRand(vfutil.Seed())}
	// thorough tier: the binary is built with -race; reports of the race runtime become results
	rl := vfutil.StartRaceLog("C05")
	defer rl.Finish(s, func() map[string]interface{} {
		tr := d.trace
		if len(tr) > 40 {
			tr = tr[len(tr)-40:]
		}
		return map[string]interface{}{"backend": "disk", "steps": strings.Join(tr, " ; ")}
	})
	wd := vfWatchdog(s, time.Duration(vfutil.Scale(150, 1500))*time.Second, func() string {
		tr := d.trace
		if len(tr) > 40 {
			tr = tr[len(tr)-40:]
		}
		return strings.Join(tr, " ; ")
	})
	defer wd.Stop()

	for _, l := range vfutil.Corpus("C05") {
		if strings.HasPrefix(l, "dnew") {
			d.runScript(l)
			s.Count("corpus_cases")
		}
	}
	if p := os.Getenv("VERIF_REPLAY"); p != "" {
		if b, err := os.ReadFile(p); err == nil {
			if i := strings.Index(string(b), "dnew "); i >= 0 {
				sc := string(b)[i:]
				if j := strings.Index(sc, "\""); j >= 0 {
					sc = sc[:j]
				}
				d.runScript(sc)
			}
		}
	}
	cases := vfutil.Scale(100, 600)
	if v, err := strconv.Atoi(os.Getenv("VERIF_CASES")); err == nil {
		cases = v
	}
	for c := 0; c < cases && d.stalls < 4; c++ {
		d.runCase(vfutil.Scale(150, 250))
		s.Count("cases")
	}
	if d.stalls >= 4 {
		s.Count("run_cut_short_after_stalls")
	}
	for i := 0; i < vfutil.Scale(6, 40); i++ {
		vfRotationWindow(s, d.r, t.TempDir(), i%2 == 1)
	}
	for _, m := range vfutil.InfraFailures() {
		t.Errorf("C05 harness infrastructure (no statement about the cache): %s", m)
	}
	_ = filepath.Join
}
