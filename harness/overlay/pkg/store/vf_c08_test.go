//go:build verif

package store

// C08 — after an unclean stop the disk cache serves only bytes it truly holds.
//
// The real writers (RdbWriter, AofRotater, resetDataSet, gcLogs) are run in a
// child process (this test binary re-executed with VERIF_C08_CHILD=1) under
// strace; the file-level syscalls on the cache directory are the ground truth
// of "what the code does to the directory". The parent
//   (1) compares the syscall list op for op with the Lean model's `scriptOps`
//       for the same script, and
//   (2) materialises every prefix of it (= every instant at which the process
//       could have died) plus the last write torn to shorter lengths, as a fresh
//       directory, re-opens it with the real NewStorer/SetRunId/GetReader and
//       compares every answer and every byte with the model (`reopen`/`serve`)
//       and with the source bytes (monitor), with checksum verification off and on;
//   (3) alters closed segments of the final image (data byte, recorded size,
//       recorded checksum, length) and checks that a verifying reader refuses them.

import (
	"bufio"
	"context"
	"go/ast"
	"go/parser"
	"go/token"
	"encoding/binary"
	"encoding/json"
	"errors"
	"fmt"
	"io"
	"os"
	"os/exec"
	"os/signal"
	"path/filepath"
	"regexp"
	"sort"
	"strconv"
	"strings"
	"syscall"
	"testing"
	"testing/synctest"
	"time"
	"unsafe"

	"github.com/mgtv-tech/redis-GunYu/config"
	"github.com/mgtv-tech/redis-GunYu/pkg/common"
	"github.com/mgtv-tech/redis-GunYu/pkg/digest"
	"github.com/mgtv-tech/redis-GunYu/pkg/vfutil"
)

const c08RunId = "idc8"

// ---------------------------------------------------------------- the source

func c08Mix(x uint64) uint64 {
	x ^= x >> 33
	x *= 0xff51afd7ed558ccd
	x ^= x >> 33
	x *= 0xc4ceb9fe1a85ec53
	x ^= x >> 33
	return x
}

// c08Src: the byte the source sent at a stream offset (one replication id).
func c08Src(salt uint64, off int64) byte { return byte(c08Mix(salt*0x9E3779B97F4A7C15 + uint64(off))) }

func c08SrcSeg(salt uint64, from int64, n int) []byte {
	b := make([]byte, n)
	for i := range b {
		b[i] = c08Src(salt, from+int64(i))
	}
	return b
}

// c08Snap: the bytes of the snapshot announced as (left, size).
func c08Snap(salt uint64, left, size int64) []byte {
	b := make([]byte, size)
	for i := range b {
		b[i] = byte(c08Mix(salt ^ uint64(left)*31 ^ uint64(size)*131 ^ uint64(i)*0x1234567))
	}
	// two thirds of the snapshots end with the RDB checksum footer (CRC64 of all
	// before, little endian), so that a verifying reader accepts them
	if size >= 9 && (salt+uint64(left)+uint64(size))%3 != 0 {
		c := digest.New()
		c.Write(b[:size-8])
		binary.LittleEndian.PutUint64(b[size-8:], c.Sum64())
	}
	return b
}

func c08FooterOk(b []byte) bool {
	if len(b) <= 8 {
		return true
	}
	c := digest.New()
	c.Write(b[:len(b)-8])
	return binary.LittleEndian.Uint64(b[len(b)-8:]) == c.Sum64()
}

func c08Crc(b []byte) uint64 {
	c := digest.New()
	c.Write(b)
	return c.Sum64()
}

// c08RuntimeEnd: at RUNTIME (no death) after a fault the cache must not claim stream bytes that
// are in no file: the end it reports is the end of what the newest segment file holds.
func c08RuntimeEnd(st *Storer, root, what string) {
	dir := filepath.Join(root, c08RunId)
	ents, _ := os.ReadDir(dir)
	held, found := int64(-1), false
	for _, e := range ents {
		if !strings.HasSuffix(e.Name(), ".aof") {
			continue
		}
		l, err := strconv.ParseInt(strings.TrimSuffix(e.Name(), ".aof"), 10, 64)
		fi, err2 := e.Info()
		if err != nil || err2 != nil || fi.Size() < headerSize {
			continue
		}
		if end := l + fi.Size() - headerSize; !found || end > held {
			held, found = end, true
		}
	}
	_, r := st.GetOffsetRange()
	if ll, _ := st.GetRdb(); r < 0 || (!found && ll >= 0) {
		return
	}
	if !found || r > held {
		os.WriteFile(filepath.Join(root, "violation.txt"), []byte(fmt.Sprintf(
			"range-claims-unwritten-bytes|after %s the cache reports its end at %d, the files hold stream bytes up to %d", what, r, held)), 0o644)
	}
}

// ---------------------------------------------------------------- child: run the real writers

func TestVerifC08Child(t *testing.T) {
	if os.Getenv("VERIF_C08_CHILD") == "" {
		t.Skip("only run as a child of TestVerifC08")
	}
	root := os.Getenv("VERIF_C08_ROOT")
	sb, err := os.ReadFile(os.Getenv("VERIF_C08_SCRIPT_FILE"))
	if err != nil {
		t.Fatal(err)
	}
	script := string(sb)
	var st *Storer
	var aofW *AofWriter
	var rdbW *RdbWriter
	var sr *vfStepReader
	var flushPol config.FlushPolicy
	for _, op := range strings.Split(script, ";") {
		f := strings.Fields(op)
		if len(f) == 0 {
			continue
		}
		num := func(i int) int64 { v, _ := strconv.ParseInt(f[i], 10, 64); return v }
		switch f[0] {
		case "dflush":
			// channel.storer.flush: fsync after every write / after a dirty size / after a duration (fsync is
			// not a directory operation: the syscall list compared with the model is the same)
			switch f[1] {
			case "e":
				flushPol = config.FlushPolicy{EveryWrite: true}
			case "d":
				flushPol = config.FlushPolicy{DirtySize: 8}
			case "t":
				flushPol = config.FlushPolicy{Duration: time.Nanosecond}
			}
		case "dnew":
			st = NewStorer("vf", root, num(2), num(1), flushPol)
			st.VerifStopCollector()
		case "dsetrun":
			old := st.RunId()
			if err := st.SetRunId(f[1]); err != nil {
				t.Fatal(err)
			}
			if st.RunId() != old {
				aofW = nil // a writer left open was closed by the switch (old.Close())
			}
		case "dverify":
			if _, err := st.VerifyRunId(strings.Split(f[1], ",")); err != nil {
				t.Fatal(err)
			}
		case "ddel":
			if err := st.DelRunId(f[1]); err != nil {
				t.Fatal(err)
			}
			if st.RunId() == "" {
				aofW = nil // closed by the reset
			}
		case "drdbw":
			if sr != nil {
				close(sr.data)
			}
			sr = newVfStepReader()
			w, err := st.GetRdbWriter(sr, num(1), num(2))
			if err != nil {
				t.Fatal(err)
			}
			rdbW, aofW = w, nil
			w.Start()
			<-sr.req
		case "drdba":
			sr.data <- vfutil.UnHex(f[1])
			select {
			case <-sr.req:
			case <-rdbW.wait.Context().Done():
				close(sr.data)
				sr, rdbW = nil, nil
			}
		case "drdbc":
			rdbW.Close()
			close(sr.data)
			sr, rdbW = nil, nil
		case "drdbx":
			// the chunk is RECEIVED (Read returns it) but the writer is stopped
			// before it is written: write() and close() both need rdbW.mux, which the
			// harness holds until Close() has marked the writer closed — whichever of
			// the two then runs first, the chunk never reaches the file
			rdbW.mux.Lock()
			sr.data <- vfutil.UnHex(f[1])
			w := rdbW
			go w.Close()
			for !w.wait.IsClosed() {
				time.Sleep(100 * time.Microsecond)
			}
			time.Sleep(2 * time.Millisecond)
			w.mux.Unlock()
			<-w.wait.Context().Done()
			close(sr.data)
			sr, rdbW = nil, nil
		case "drdbf":
			// the chunk is received but its file write fails (descriptor closed
			// underneath the writer — stands for EIO/ENOSPC)
			rdbW.writer.Close()
			w := rdbW
			sr.data <- vfutil.UnHex(f[1])
			<-w.wait.Context().Done()
			close(sr.data)
			sr, rdbW = nil, nil
		case "drdbaf":
			// the COMMIT of a completely received snapshot fails (closeRdb: Sync, Close, Rename must all
			// succeed before the index is told — 45f65ae). The fault is planted right after the LAST data
			// write, inside write(), through the writer's own byte counter:
			//   s: a pipe is dup2'ed over the descriptor -> fsync fails (EINVAL), no rename is attempted;
			//   c: the fsync succeeds, close(2) fails (EIO, a seccomp filter on that descriptor number);
			//   S: the same, and the directory is immutable: os.Remove(tmp) fails as well;
			//   r: the directory is immutable until the index has been told (the writer's observer clears
			//      it): the rename fails (EPERM), the removal of the temporary file succeeds;
			//   R: immutable until the writer is done: rename and removal both fail.
			stage := f[1]
			dir := filepath.Join(root, c08RunId)
			w := rdbW
			left, size := w.left, w.rdbSize
			var pipeR *os.File
			immut := func(on bool) {
				if e := c08SetImmutable(dir, on); e != nil && on {
					os.WriteFile(filepath.Join(root, "violation.txt"), []byte("fault-not-injected|immutable attribute: "+e.Error()), 0o644)
				}
			}
			restoreCnt := c08HookRdbWrite(func() bool {
				if w.offset-w.left != w.rdbSize {
					return false // not the last write yet
				}
				switch stage {
				case "s", "S":
					if pipeR = c08LoseSync(w); pipeR == nil {
						os.WriteFile(filepath.Join(root, "violation.txt"), []byte("fault-not-injected|dup2 over the snapshot writer's descriptor failed"), 0o644)
					}
					if stage == "S" {
						immut(true)
					}
				case "c":
					// the fsync succeeds, the close(2) of the descriptor reports an error
					if e := c08FailClose(int(w.writer.Fd())); e != nil {
						os.WriteFile(filepath.Join(root, "violation.txt"), []byte("fault-not-injected|seccomp filter: "+e.Error()), 0o644)
					}
				case "r", "R":
					immut(true)
				}
				return true
			})
			if stage == "r" {
				old := *w.observer.Load()
				var obs Observer = &observerProxy{open: old.Open, read: old.Read, write: old.Write,
					close: func(a ...interface{}) { old.Close(a...); immut(false) }}
				w.observer.Store(&obs)
			}
			sr.data <- vfutil.UnHex(f[2])
			<-w.wait.Context().Done()
			restoreCnt()
			immut(false)
			if pipeR != nil {
				pipeR.Close()
			}
			close(sr.data)
			sr, rdbW = nil, nil
			// at RUNTIME, before any death: the failure reaches the caller and the snapshot is not offered
			if err := w.Wait(context.Background()); err == nil {
				os.WriteFile(filepath.Join(root, "violation.txt"), []byte(fmt.Sprintf(
					"commit-failure-not-reported|the commit of snapshot %d_%d failed (stage %s) and Wait returned nil", left, size, stage)), 0o644)
			}
			if l, sz := st.GetRdb(); l == left && sz == size {
				os.WriteFile(filepath.Join(root, "violation.txt"), []byte(fmt.Sprintf(
					"failed-commit-offered|the commit of snapshot %d_%d failed (stage %s) and the cache offers it", left, size, stage)), 0o644)
			}
		case "daofw":
			w, err := st.GetAofWritter(nil, num(1))
			if err != nil {
				t.Fatal(err)
			}
			aofW = w
		case "daofa":
			if err := aofW.write(vfutil.UnHex(f[1])); err != nil {
				t.Fatal(err)
			}
		case "daofc":
			aofW.Close()
			aofW = nil
		case "daofx":
			// the disk fills up under the stream writer: only the first k bytes of the
			// chunk reach the file (RLIMIT_FSIZE stands for ENOSPC: write returns k,
			// then fails), the writer ends as ingest() ends it
			k := num(1)
			signal.Ignore(syscall.SIGXFSZ)
			var old syscall.Rlimit
			syscall.Getrlimit(syscall.RLIMIT_FSIZE, &old)
			lim := old
			lim.Cur = uint64(aofW.filesize + k)
			syscall.Setrlimit(syscall.RLIMIT_FSIZE, &lim)
			err := aofW.write(vfutil.UnHex(f[2]))
			syscall.Setrlimit(syscall.RLIMIT_FSIZE, &old)
			if err == nil {
				os.WriteFile(filepath.Join(root, "violation.txt"), []byte("fault-not-injected|the short write was not injected"), 0o644)
			}
			// at RUNTIME, before any death: the range must not claim bytes that are in no file
			if fi, e := os.Stat(aofW.filepath); e == nil {
				_, r := st.GetOffsetRange()
				if held := aofW.left + fi.Size() - headerSize; r != held {
					os.WriteFile(filepath.Join(root, "violation.txt"), []byte(fmt.Sprintf(
						"range-claims-unwritten-bytes|after a short write (%d of %d bytes) the cache reports its end at %d, the files hold bytes up to %d",
						k, len(vfutil.UnHex(f[2])), r, held)), 0o644)
				}
			}
			aofW.Close()
			aofW = nil
		case "dgc":
			st.VerifGcLog()

		// ---- faults. Header rewrite: RLIMIT_FSIZE = k makes the rewrite at offset 0 write k
		// bytes and fail (EFBIG) — set before Close(), or by the writer's own observer between
		// the data write and the rotation. Directory operations: the immutable attribute on the
		// directory makes create / unlink / rename fail (EPERM).
		case "daofcf":
			k := num(1)
			signal.Ignore(syscall.SIGXFSZ)
			var old syscall.Rlimit
			syscall.Getrlimit(syscall.RLIMIT_FSIZE, &old)
			lim := old
			lim.Cur = uint64(k)
			syscall.Setrlimit(syscall.RLIMIT_FSIZE, &lim)
			aofW.Close()
			syscall.Setrlimit(syscall.RLIMIT_FSIZE, &old)
			aofW = nil
			c08RuntimeEnd(st, root, "a close whose header rewrite failed")
		case "daofaf":
			k := num(1)
			signal.Ignore(syscall.SIGXFSZ)
			var old syscall.Rlimit
			syscall.Getrlimit(syscall.RLIMIT_FSIZE, &old)
			restore := c08HookWrite(aofW, func() {
				lim := old
				lim.Cur = uint64(k)
				syscall.Setrlimit(syscall.RLIMIT_FSIZE, &lim)
			})
			err := aofW.write(vfutil.UnHex(f[2]))
			syscall.Setrlimit(syscall.RLIMIT_FSIZE, &old)
			restore()
			if err != nil { // the rotation failed: the writer ends as ingest() ends it
				aofW.Close()
				aofW = nil
			}
			c08RuntimeEnd(st, root, "a rotation whose header rewrite failed")
		case "daofao":
			dir := filepath.Join(root, c08RunId)
			restore := c08HookWrite(aofW, func() {
				if e := c08SetImmutable(dir, true); e != nil {
					os.WriteFile(filepath.Join(root, "violation.txt"), []byte("fault-not-injected|immutable attribute: "+e.Error()), 0o644)
				}
			})
			err := aofW.write(vfutil.UnHex(f[1]))
			c08SetImmutable(dir, false)
			restore()
			if err != nil {
				aofW.Close()
				aofW = nil
			}
			c08RuntimeEnd(st, root, "a rotation whose next segment could not be opened")
		case "dgcp":
			// a collector pass in which the removal of SOME segments fails (their files immutable)
			dir := filepath.Join(root, c08RunId)
			var stuck []string
			for _, l := range strings.Split(f[1], ",") {
				fn := filepath.Join(dir, l+".aof")
				if _, err := os.Stat(fn); err == nil {
					if e := c08SetImmutable(fn, true); e != nil {
						os.WriteFile(filepath.Join(root, "violation.txt"), []byte("fault-not-injected|immutable attribute: "+e.Error()), 0o644)
					}
					stuck = append(stuck, fn)
				}
			}
			st.VerifGcLog()
			for _, fn := range stuck {
				c08SetImmutable(fn, false)
			}
		case "daofcr", "drdbcr", "dgcr":
			dir := filepath.Join(root, c08RunId)
			if e := c08SetImmutable(dir, true); e != nil {
				os.WriteFile(filepath.Join(root, "violation.txt"), []byte("fault-not-injected|immutable attribute: "+e.Error()), 0o644)
			}
			switch f[0] {
			case "daofcr":
				aofW.Close()
				aofW = nil
			case "drdbcr":
				w := rdbW
				w.Close()
				<-w.wait.Context().Done()
				close(sr.data)
				sr, rdbW = nil, nil
			case "dgcr":
				st.VerifGcLog()
			}
			c08SetImmutable(dir, false)
			if f[0] == "daofcr" {
				c08RuntimeEnd(st, root, "a close whose removal of the empty segment failed")
			}
		}
	}
	// the process "dies" here: nothing is closed
}

// ---------------------------------------------------------------- file-level operations

type c08Op struct {
	kind  string // create | append | pwrite | truncate | rename | remove (fail: create | remove | rename | write)
	name  string
	to    string
	off   int64 // append / pwrite: file offset; truncate: new length
	data  []byte
	flags string // create: the open flags (w|rw|r, c = O_CREAT, t = O_TRUNC, a = O_APPEND, x = O_EXCL)
	fail  bool   // the syscall failed: attempted, no effect on the directory
}

// String: everything the model states about the operation — name(s), open flags,
// offset, bytes (hence length), outcome; the order of the lines is the order of the syscalls.
func (o c08Op) String() string {
	if o.fail {
		switch o.kind {
		case "rename":
			return "fail rename " + o.name + " " + o.to
		case "create":
			return "fail create " + o.name + " " + o.flags
		case "write":
			return fmt.Sprintf("fail write %s @%d %s", o.name, o.off, vfutil.Hex(o.data))
		}
		return "fail " + o.kind + " " + o.name
	}
	switch o.kind {
	case "mkdir", "rmdir":
		return o.kind + " " + o.name
	case "rendir":
		return "rendir " + o.name + " " + o.to
	case "create":
		return "create " + o.name + " " + o.flags
	case "remove":
		return "remove " + o.name
	case "rename":
		return "rename " + o.name + " " + o.to
	case "truncate":
		return fmt.Sprintf("truncate %s %d", o.name, o.off)
	default: // append | pwrite
		return fmt.Sprintf("%s %s @%d %s", o.kind, o.name, o.off, vfutil.Hex(o.data))
	}
}

// c08OpenFlags renders the access mode and the flags that matter for the content of the file.
func c08OpenFlags(args string) string {
	f := "r"
	if strings.Contains(args, "O_WRONLY") {
		f = "w"
	} else if strings.Contains(args, "O_RDWR") {
		f = "rw"
	}
	for _, kv := range [][2]string{{"O_CREAT", "c"}, {"O_TRUNC", "t"}, {"O_APPEND", "a"}, {"O_EXCL", "x"}} {
		if strings.Contains(args, kv[0]) {
			f += kv[1]
		}
	}
	return f
}

// c08SetImmutable sets / clears the immutable attribute of a directory (chattr +i):
// while it is set, creating, unlinking and renaming entries of the directory fail
// with EPERM (also for root); files that are already open are written as before.
func c08SetImmutable(dir string, on bool) error {
	f, err := os.Open(dir)
	if err != nil {
		return err
	}
	defer f.Close()
	var flags int64
	if _, _, e := syscall.Syscall(syscall.SYS_IOCTL, f.Fd(), 0x80086601, uintptr(unsafe.Pointer(&flags))); e != 0 {
		return e
	}
	if on {
		flags |= 0x10
	} else {
		flags &^= 0x10
	}
	if _, _, e := syscall.Syscall(syscall.SYS_IOCTL, f.Fd(), 0x40086602, uintptr(unsafe.Pointer(&flags))); e != 0 {
		return e
	}
	return nil
}

// c08ImmutableWorks probes whether the file system under tmp supports the attribute.
func c08ImmutableWorks(tmp string) bool {
	d := filepath.Join(tmp, "probe")
	os.MkdirAll(d, 0o777)
	defer os.RemoveAll(d)
	os.WriteFile(filepath.Join(d, "a"), []byte("x"), 0o644)
	if err := c08SetImmutable(d, true); err != nil {
		return false
	}
	defer c08SetImmutable(d, false)
	if err := os.WriteFile(filepath.Join(d, "b"), []byte("x"), 0o644); err == nil {
		return false
	}
	if err := os.Remove(filepath.Join(d, "a")); err == nil {
		return false
	}
	return true
}

// c08CountHook wraps the snapshot writer's byte counter (a package variable of interface type):
// Add is called inside RdbWriter.write right after a successful file write, with the writer's
// mutex held — the only point between the LAST data write and closeRdb the code offers.
type c08CountHook struct {
	inner interface {
		Inc(labels ...string)
		Add(v float64, labels ...string)
		Close() bool
	}
	f func() bool
}

func (h *c08CountHook) Inc(l ...string) { h.inner.Inc(l...) }
func (h *c08CountHook) Close() bool     { return h.inner.Close() }
func (h *c08CountHook) Add(v float64, l ...string) {
	h.inner.Add(v, l...)
	if h.f != nil && h.f() {
		h.f = nil
	}
}

// c08HookRdbWrite runs f after every data write of a snapshot writer until f returns true.
func c08HookRdbWrite(f func() bool) (restore func()) {
	old := rdbWriteDataCounter
	rdbWriteDataCounter = &c08CountHook{inner: old, f: f}
	return func() { rdbWriteDataCounter = old }
}

// c08LoseSync dup2's a pipe over the snapshot writer's descriptor (called with the writer's mutex
// held, after the last data write: every byte is in the file): the fsync of the commit fails with
// EINVAL, the close succeeds. Returns the pipe's read end.
func c08LoseSync(w *RdbWriter) *os.File {
	r, wp, err := os.Pipe()
	if err != nil {
		return nil
	}
	defer wp.Close()
	if err := syscall.Dup2(int(wp.Fd()), int(w.writer.Fd())); err != nil {
		r.Close()
		return nil
	}
	return r
}

// c08FailClose makes close(2) of ONE descriptor number fail with EIO in every thread of this
// process, from now on (a seccomp filter, SECCOMP_FILTER_FLAG_TSYNC; the child process only): a
// close that reports an error AFTER a successful fsync — what NFS / FUSE / a quota do — cannot be
// had from a local file system otherwise. The descriptor stays open (the syscall is not executed),
// so its number is never reused.
func c08FailClose(fd int) error {
	const (
		ld    = 0x00 | 0x00 | 0x20 // BPF_LD | BPF_W | BPF_ABS
		jeq   = 0x05 | 0x10 | 0x00 // BPF_JMP | BPF_JEQ | BPF_K
		ret   = 0x06 | 0x00        // BPF_RET | BPF_K
		allow = 0x7fff0000
		errno = 0x00050000
	)
	prog := []syscall.SockFilter{
		{Code: ld, K: 0}, // seccomp_data.nr
		{Code: jeq, K: uint32(syscall.SYS_CLOSE), Jt: 0, Jf: 3},
		{Code: ld, K: 16}, // seccomp_data.args[0], low word
		{Code: jeq, K: uint32(fd), Jt: 0, Jf: 1},
		{Code: ret, K: errno | uint32(syscall.EIO)},
		{Code: ret, K: allow},
	}
	fprog := syscall.SockFprog{Len: uint16(len(prog)), Filter: &prog[0]}
	if _, _, e := syscall.Syscall6(syscall.SYS_PRCTL, 38 /* PR_SET_NO_NEW_PRIVS */, 1, 0, 0, 0, 0); e != 0 {
		return e
	}
	if _, _, e := syscall.Syscall(317 /* SYS_SECCOMP */, 1 /* SET_MODE_FILTER */, 1 /* TSYNC */, uintptr(unsafe.Pointer(&fprog))); e != 0 {
		return e
	}
	return nil
}

// c08HookWrite runs f right after the writer's next data write (inside write(), before
// the rotation: closeAof + openFile), through the writer's own observer.
func c08HookWrite(w *AofWriter, f func()) (restore func()) {
	old := w.getObserver()
	var obs Observer = &observerProxy{open: old.Open, close: old.Close, read: old.Read,
		write: func(a ...interface{}) { old.Write(a...); f() }}
	w.observer.Store(&obs)
	return func() { o := old; w.observer.Store(&o) }
}

type c08Image map[string][]byte

func (im c08Image) clone() c08Image {
	c := c08Image{}
	for k, v := range im {
		c[k] = append([]byte(nil), v...)
	}
	return c
}

func (im c08Image) apply(o c08Op) {
	if o.fail {
		return
	}
	switch o.kind {
	case "create":
		im[o.name] = []byte{}
	case "append":
		if c, ok := im[o.name]; ok {
			im[o.name] = append(append([]byte(nil), c...), o.data...)
		}
	case "pwrite":
		if c, ok := im[o.name]; ok {
			n := append([]byte(nil), c...)
			for int64(len(n)) < o.off+int64(len(o.data)) {
				n = append(n, 0)
			}
			copy(n[o.off:], o.data)
			im[o.name] = n
		}
	case "truncate":
		if c, ok := im[o.name]; ok {
			n := append([]byte(nil), c...)
			for int64(len(n)) < o.off {
				n = append(n, 0)
			}
			im[o.name] = n[:o.off]
		}
	case "rename":
		if c, ok := im[o.name]; ok {
			delete(im, o.name)
			im[o.to] = c
		}
	case "remove":
		delete(im, o.name)
	}
}

func (im c08Image) String() string {
	var names []string
	for n := range im {
		names = append(names, n)
	}
	sort.Strings(names)
	var parts []string
	for _, n := range names {
		parts = append(parts, n+"="+vfutil.Hex(im[n]))
	}
	if len(parts) == 0 {
		return "."
	}
	return strings.Join(parts, ",")
}

// c08Root: the base directory, one image per replication-id directory.
type c08Root map[string]c08Image

func (r c08Root) apply(o c08Op) {
	if o.fail {
		return
	}
	switch o.kind {
	case "mkdir":
		if _, ok := r[o.name]; !ok {
			r[o.name] = c08Image{}
		}
	case "rendir":
		if im, ok := r[o.name]; ok {
			if _, there := r[o.to]; !there {
				r[o.to] = im
				delete(r, o.name)
			}
		}
	case "rmdir":
		if im, ok := r[o.name]; ok && len(im) == 0 {
			delete(r, o.name)
		}
	default:
		id, file, ok := strings.Cut(o.name, "/")
		if !ok {
			return
		}
		if im, there := r[id]; there {
			q := o
			q.name = file
			if _, tf, ok2 := strings.Cut(o.to, "/"); ok2 {
				q.to = tf
			}
			im.apply(q)
		}
	}
}

func (r c08Root) ids() []string {
	var ids []string
	for id := range r {
		ids = append(ids, id)
	}
	sort.Strings(ids)
	return ids
}

func (r c08Root) String() string {
	var parts []string
	for _, id := range r.ids() {
		parts = append(parts, id+":"+r[id].String())
	}
	if len(parts) == 0 {
		return "."
	}
	return strings.Join(parts, ";")
}

func (r c08Root) clone() c08Root {
	c := c08Root{}
	for id, im := range r {
		c[id] = im.clone()
	}
	return c
}

// ---------------------------------------------------------------- strace

var (
	c08LineRe  = regexp.MustCompile(`^(\d+)\s+(.*)$`)
	c08FdRe    = regexp.MustCompile(`^(\d+)<([^>]*)>`)
	c08RetFdRe = regexp.MustCompile(`=\s*(\d+)<([^>]*)>\s*$`)
	c08RetNRe  = regexp.MustCompile(`\)\s*=\s*(\d+)\s*$`)
	c08OkRe    = regexp.MustCompile(`\)\s*=\s*\d+(<[^>]*>)?\s*$`)
	c08FailRe  = regexp.MustCompile(`\)\s*=\s*-1 E`)
	c08RelFdRe = regexp.MustCompile(`^\d+<([^>]*)>`)
)

func c08Unescape(s string) []byte {
	var out []byte
	for i := 0; i < len(s); {
		if s[i] == '\\' && i+3 < len(s) && s[i+1] == 'x' {
			v, _ := strconv.ParseUint(s[i+2:i+4], 16, 8)
			out = append(out, byte(v))
			i += 4
		} else {
			out = append(out, s[i])
			i++
		}
	}
	return out
}

// c08Strings returns the quoted string arguments of a syscall line.
func c08Strings(args string) [][]byte {
	var res [][]byte
	for {
		i := strings.IndexByte(args, '"')
		if i < 0 {
			return res
		}
		j := strings.IndexByte(args[i+1:], '"')
		if j < 0 {
			return res
		}
		res = append(res, c08Unescape(args[i+1:i+1+j]))
		args = args[i+2+j:]
	}
}

// c08ParseTrace turns the strace log into file-level operations on dir.
// multi: dir is the BASE directory; files are named "<id>/<file>", and the directory-level
// syscalls on the id directories (mkdir, rename, rmdir) are operations of their own.
func c08ParseTrace(path, dir string, multi bool) ([]c08Op, error) {
	f, err := os.Open(path)
	if err != nil {
		return nil, err
	}
	defer f.Close()
	sc := bufio.NewScanner(f)
	sc.Buffer(make([]byte, 1<<20), 1<<26)
	pending := map[string]string{}
	type fdState struct {
		name   string
		off    int64
		append bool
	}
	fds := map[int]*fdState{}
	sizes := map[string]int64{}
	var ops []c08Op
	inDir := func(p string) (string, bool) {
		if multi {
			if filepath.Dir(filepath.Dir(p)) == dir {
				return filepath.Base(filepath.Dir(p)) + "/" + filepath.Base(p), true
			}
			return "", false
		}
		if filepath.Dir(p) == dir {
			return filepath.Base(p), true
		}
		return "", false
	}
	idDir := func(p string) (string, bool) { // an id directory of the base directory
		if multi && filepath.Dir(p) == dir {
			return filepath.Base(p), true
		}
		return "", false
	}
	// whatever write syscall the code uses: the bytes land at an offset of a file
	writeAt := func(st *fdState, off int64, data []byte) {
		if off == sizes[st.name] {
			ops = append(ops, c08Op{kind: "append", name: st.name, off: off, data: data})
		} else {
			ops = append(ops, c08Op{kind: "pwrite", name: st.name, off: off, data: data})
		}
		if end := off + int64(len(data)); end > sizes[st.name] {
			sizes[st.name] = end
		}
	}
	for sc.Scan() {
		m := c08LineRe.FindStringSubmatch(sc.Text())
		if m == nil {
			continue
		}
		pid, rest := m[1], m[2]
		if strings.HasSuffix(rest, "<unfinished ...>") {
			pending[pid] = strings.TrimSuffix(rest, "<unfinished ...>")
			continue
		}
		if strings.HasPrefix(rest, "<... ") {
			i := strings.Index(rest, "resumed>")
			if i < 0 {
				continue
			}
			rest = pending[pid] + rest[i+len("resumed>"):]
			delete(pending, pid)
		}
		p := strings.IndexByte(rest, '(')
		if p < 0 {
			continue
		}
		name, args := rest[:p], rest[p+1:]
		// successful calls ("= <n>" or "= <fd><path>"; resumed lines pad with blanks) change the
		// directory; FAILED attempts on the directory (= -1 E…) are recorded as such: one entry per
		// attempted operation (os.Remove / os.RemoveAll try unlink, rmdir, unlinkat again)
		ok := c08OkRe.MatchString(rest)
		if !ok {
			if !c08FailRe.MatchString(rest) {
				continue
			}
			addFail := func(o c08Op) {
				o.fail = true
				if n := len(ops); n > 0 && ops[n-1].fail && ops[n-1].kind == o.kind && ops[n-1].name == o.name && ops[n-1].to == o.to {
					return
				}
				ops = append(ops, o)
			}
			switch name {
			case "openat":
				if strs := c08Strings(args); len(strs) >= 1 && strings.Contains(args, "O_CREAT") {
					if b, in := inDir(string(strs[0])); in {
						addFail(c08Op{kind: "create", name: b, flags: c08OpenFlags(args)})
					}
				}
			case "write", "writev", "pwrite64", "pwritev", "pwritev2":
				if fm := c08FdRe.FindStringSubmatch(args); fm != nil {
					fd, _ := strconv.Atoi(fm[1])
					if st := fds[fd]; st != nil {
						var data []byte
						for _, b := range c08Strings(args[len(fm[0]):]) {
							data = append(data, b...)
						}
						off := st.off
						if st.append {
							off = sizes[st.name]
						}
						addFail(c08Op{kind: "write", name: st.name, off: off, data: data})
					}
				}
			case "renameat", "renameat2", "rename":
				if strs := c08Strings(args); len(strs) >= 2 {
					a, ina := inDir(string(strs[0]))
					b, inb := inDir(string(strs[1]))
					if ina && inb {
						addFail(c08Op{kind: "rename", name: a, to: b})
					}
				}
			case "unlinkat", "unlink":
				if strs := c08Strings(args); len(strs) >= 1 {
					p := string(strs[0])
					if !filepath.IsAbs(p) {
						if fm := c08RelFdRe.FindStringSubmatch(args); fm != nil {
							p = filepath.Join(string(c08Unescape(fm[1])), p)
						}
					}
					if a, in := inDir(p); in {
						addFail(c08Op{kind: "remove", name: a})
					}
				}
			}
			continue
		}
		retN := int64(-1)
		if rm := c08RetNRe.FindStringSubmatch(rest); rm != nil {
			retN, _ = strconv.ParseInt(rm[1], 10, 64)
		}
		// the last plain argument (offset of pwrite64/pwritev, length of ftruncate)
		lastArg := func() int64 {
			q := strings.LastIndexByte(rest, ')')
			if q < 0 {
				return -1
			}
			parts := strings.Split(rest[p+1:q], ",")
			v, err := strconv.ParseInt(strings.TrimSpace(parts[len(parts)-1]), 10, 64)
			if err != nil {
				return -1
			}
			return v
		}
		fdOf := func() *fdState {
			fm := c08FdRe.FindStringSubmatch(args)
			if fm == nil {
				return nil
			}
			fd, _ := strconv.Atoi(fm[1])
			return fds[fd]
		}
		payload := func() []byte { // all buffers of the call, cut to what was written
			fm := c08FdRe.FindStringSubmatch(args)
			var data []byte
			for _, b := range c08Strings(args[len(fm[0]):]) {
				data = append(data, b...)
			}
			if retN >= 0 && retN < int64(len(data)) {
				data = data[:retN] // short write
			}
			return data
		}
		switch name {
		case "openat":
			rm := c08RetFdRe.FindStringSubmatch(rest)
			if rm == nil {
				continue
			}
			fd, _ := strconv.Atoi(rm[1])
			base, in := inDir(string(c08Unescape(rm[2])))
			if !in {
				delete(fds, fd)
				continue
			}
			fds[fd] = &fdState{name: base, append: strings.Contains(args, "O_APPEND")}
			_, exists := sizes[base]
			if strings.Contains(args, "O_TRUNC") && (exists || strings.Contains(args, "O_CREAT")) ||
				strings.Contains(args, "O_CREAT") && !exists {
				ops = append(ops, c08Op{kind: "create", name: base, flags: c08OpenFlags(args)})
				sizes[base] = 0
			}
		case "write", "writev":
			st := fdOf()
			if st == nil {
				continue
			}
			data := payload()
			if len(data) == 0 {
				continue
			}
			if st.append {
				st.off = sizes[st.name]
			}
			writeAt(st, st.off, data)
			st.off += int64(len(data))
		case "pwrite64", "pwritev", "pwritev2":
			st := fdOf()
			if st == nil {
				continue
			}
			data := payload()
			off := lastArg()
			if name == "pwritev2" { // (fd, iov, cnt, offset, flags)
				q := strings.LastIndexByte(rest, ')')
				parts := strings.Split(rest[p+1:q], ",")
				if len(parts) >= 2 {
					off, _ = strconv.ParseInt(strings.TrimSpace(parts[len(parts)-2]), 10, 64)
				}
			}
			if len(data) == 0 || off < 0 {
				continue
			}
			writeAt(st, off, data)
		case "ftruncate":
			st := fdOf()
			if st == nil {
				continue
			}
			if n := lastArg(); n >= 0 && n != sizes[st.name] {
				ops = append(ops, c08Op{kind: "truncate", name: st.name, off: n})
				sizes[st.name] = n
			}
		case "lseek":
			if st := fdOf(); st != nil && retN >= 0 {
				st.off = retN // the resulting position, whatever the whence
			}
		case "close":
			fm := c08FdRe.FindStringSubmatch(args)
			if fm != nil {
				fd, _ := strconv.Atoi(fm[1])
				delete(fds, fd)
			}
		case "mkdir", "mkdirat":
			if strs := c08Strings(args); len(strs) >= 1 {
				if id, ok := idDir(string(strs[0])); ok {
					ops = append(ops, c08Op{kind: "mkdir", name: id})
				}
			}
		case "renameat", "renameat2", "rename":
			strs := c08Strings(args)
			if len(strs) >= 2 {
				a, ina := inDir(string(strs[0]))
				b, inb := inDir(string(strs[1]))
				if ina && inb {
					ops = append(ops, c08Op{kind: "rename", name: a, to: b})
					sizes[b] = sizes[a]
					delete(sizes, a)
				}
				da, oka := idDir(string(strs[0]))
				db, okb := idDir(string(strs[1]))
				if oka && okb {
					ops = append(ops, c08Op{kind: "rendir", name: da, to: db})
					for k, v := range sizes {
						if strings.HasPrefix(k, da+"/") {
							sizes[db+"/"+strings.TrimPrefix(k, da+"/")] = v
							delete(sizes, k)
						}
					}
					// an OPEN descriptor follows its file into the renamed directory
					for _, st := range fds {
						if strings.HasPrefix(st.name, da+"/") {
							st.name = db + "/" + strings.TrimPrefix(st.name, da+"/")
						}
					}
				}
			}
		case "unlinkat", "unlink":
			strs := c08Strings(args)
			if len(strs) >= 1 {
				p := string(strs[0])
				if !filepath.IsAbs(p) {
					if fm := regexp.MustCompile(`^\d+<([^>]*)>`).FindStringSubmatch(args); fm != nil {
						p = filepath.Join(string(c08Unescape(fm[1])), p)
					}
				}
				if a, in := inDir(p); in {
					ops = append(ops, c08Op{kind: "remove", name: a})
					delete(sizes, a)
					// a descriptor still open on the unlinked file writes to an inode no name leads to:
					// no effect on the directory
					for fd, st := range fds {
						if st.name == a {
							delete(fds, fd)
						}
					}
				}
				if id, ok := idDir(p); ok && strings.Contains(args, "AT_REMOVEDIR") {
					ops = append(ops, c08Op{kind: "rmdir", name: id})
				}
			}
		}
	}
	return ops, nil
}

// ---------------------------------------------------------------- re-opening an image with the real code

type c08Seen struct {
	l, r, rl, rs int64
	valid        string
	reads        []string
}

func c08ErrClass(err error) string {
	switch {
	case err == nil:
		return "ok"
	case errors.Is(err, common.ErrCorrupted):
		return "corrupt"
	case errors.Is(err, os.ErrNotExist):
		return "notexist"
	default:
		return "other"
	}
}

// c08ReadAll reads from an AOF reader until `right` is reached or it fails.
func c08ReadAll(rd *Reader, from, right int64) ([]byte, string) {
	var out []byte
	pos := from
	buf := make([]byte, 4096)
	for pos < right {
		n, err := rd.aof.read(buf)
		if n > 0 {
			out = append(out, buf[:n]...)
			pos += int64(n)
		}
		if err != nil {
			return out, c08ErrClass(err)
		}
	}
	return out, "eof"
}

type c08Parent struct {
	immutable   bool // the file system supports the immutable attribute (faults on directory operations)
	s           *vfutil.Session
	r           *vfutil.Rand
	tmp         string
	n           int
	salt        uint64
	snap        map[string][]byte // name of every snapshot completely written -> bytes
	big         bool              // production-size script: sample the crash instants
	light       bool              // long fault script: two torn lengths per write instead of three
	saltsStr    string            // id scripts: the sources of the id families, for the replay
	alteredSnap string            // name of the snapshot file altered in the image being re-opened
	opIdx       int
}

// reopen materialises the image, opens it with the real Storer and records
// what it answers; the monitor checks the answers against the source.
func (p *c08Parent) reopen(im c08Image, verify bool, what string, script string) {
	p.reopenAlt(im, verify, what, script, -1, -1)
}

// reopenAlt: alteredLeft >= 0 names the segment whose file was altered (a
// verifying reader must not deliver a single byte of it).
func (p *c08Parent) reopenAlt(im c08Image, verify bool, what string, script string, alteredLeft, alteredRight int64) {
	alteredSnap := p.alteredSnap
	p.n++
	root := filepath.Join(p.tmp, fmt.Sprintf("i%d", p.n))
	dir := filepath.Join(root, c08RunId)
	os.MkdirAll(dir, 0o777)
	for n, b := range im {
		os.WriteFile(filepath.Join(dir, n), b, 0o666)
	}
	defer os.RemoveAll(root)
	st := NewStorer("vf", root, 0, 1<<20, config.FlushPolicy{})
	st.VerifStopCollector()
	if err := st.SetRunId(c08RunId); err != nil {
		p.s.Violate("reopen-failed", err.Error(), map[string]interface{}{"image": im.String(), "script": script})
		return
	}
	l, r := st.GetOffsetRange()
	rl, rs := st.GetRdb()
	v := 0
	if verify {
		v = 1
	}
	replay := map[string]interface{}{"image": im.String(), "verify": v, "at": what, "script": script, "salt": p.salt, "salts": p.saltsStr}
	// the files initDataSet unlinked (TruncateGap's leftovers): what is gone from the directory
	var removed []string
	{
		left := map[string]bool{}
		ents, _ := os.ReadDir(dir)
		for _, e := range ents {
			left[e.Name()] = true
		}
		for n := range im {
			if !left[n] {
				removed = append(removed, n)
			}
		}
		sort.Strings(removed)
		p.s.Add("reopen_unlinked_files", len(removed))
	}

	// probes: edges of the range, one inside, around the snapshot
	set := map[int64]struct{}{}
	add := func(x int64) {
		for _, y := range []int64{x - 1, x, x + 1} {
			if y >= 0 {
				set[y] = struct{}{}
			}
		}
	}
	if l >= 0 {
		add(l)
		add(r)
		add((l + r) / 2)
	}
	if rl >= 0 {
		add(rl)
	}
	var probes []int64
	for k := range set {
		probes = append(probes, k)
	}
	sort.Slice(probes, func(i, j int) bool { return probes[i] < probes[j] })
	bits := make([]byte, len(probes))
	ps := make([]string, len(probes))
	for i, o := range probes {
		ps[i] = strconv.FormatInt(o, 10)
		bits[i] = '0'
		if st.IsValidOffset(o) {
			bits[i] = '1'
		}
	}
	lines := []string{fmt.Sprintf("range=%d,%d rdb=%d,%d valid=%s removed=%s", l, r, rl, rs, vfDash(string(bits)), vfDash(strings.Join(removed, ",")))}

	// ---- a SECOND re-opening after a first one that deleted files: the same answers, nothing more deleted
	if len(removed) > 0 {
		before, _ := os.ReadDir(dir)
		st2 := NewStorer("vf", root, 0, 1<<20, config.FlushPolicy{})
		st2.VerifStopCollector()
		if err := st2.SetRunId(c08RunId); err == nil {
			l2, r2 := st2.GetOffsetRange()
			rl2, rs2 := st2.GetRdb()
			after, _ := os.ReadDir(dir)
			if l2 != l || r2 != r || rl2 != rl || rs2 != rs || len(after) != len(before) {
				p.s.Violate("reopen-not-idempotent", fmt.Sprintf("first re-opening: range [%d,%d] snapshot (%d,%d), %d files left; a second one: range [%d,%d] snapshot (%d,%d), %d files left",
					l, r, rl, rs, len(before), l2, r2, rl2, rs2, len(after)), replay)
			}
		}
		p.s.Count("second_reopen_after_deletion")
	}
	if verify {
		p.s.Count("cfg_verifyCrc_true")
	} else {
		p.s.Count("cfg_verifyCrc_false")
	}
	// ---- monitor: a snapshot is offered only if it was completely received
	if rl != -1 || rs != -1 {
		name := fmt.Sprintf("%d_%d.rdb", rl, rs)
		want, ok := p.snap[name]
		got, have := im[name]
		if p.alteredSnap == name {
			// deliberately altered: offered (by name), must be refused by verification
		} else if !ok || !have || string(got) != string(want) || int64(len(got)) != rs {
			p.s.Violate("incomplete-snapshot-offered", fmt.Sprintf("GetRdb()=(%d,%d) but the image holds %d bytes of it (completely written: %v)", rl, rs, len(got), ok), replay)
		}
		p.s.Count("mon_snapshot_offered")
	}
	// ---- readers at every probe that is valid and inside the stream range
	for i, o := range probes {
		if bits[i] != '1' {
			continue
		}
		rd, err := st.GetReader(o, verify)
		if err != nil {
			lines = append(lines, fmt.Sprintf("read %d err %s", o, c08ErrClass(err)))
			if !(verify && errors.Is(err, common.ErrCorrupted)) {
				p.s.Violate("valid-not-readable", fmt.Sprintf("IsValidOffset(%d)=true after re-opening, GetReader(%d,verify=%v) failed: %v", o, o, verify, err), replay)
			}
			continue
		}
		if !rd.IsAof() {
			// read the snapshot through the real RdbReader, to its announced size
			var sb []byte
			buf := make([]byte, 8192)
			for int64(len(sb)) < rd.Size() {
				if rem := rd.Size() - int64(len(sb)); rem < int64(len(buf)) {
					buf = buf[:rem]
				}
				n, err := rd.rdb.read(buf)
				sb = append(sb, buf[:n]...)
				if err != nil || n == 0 {
					break
				}
			}
			lines = append(lines, fmt.Sprintf("read %d rdb %d %d got %d crc %d", o, rd.Left(), rd.Size(), len(sb), c08Crc(sb)))
			rd.rdb.Close()
			rd.Close()
			name := fmt.Sprintf("%d_%d.rdb", rd.Left(), rd.Size())
			if want, ok := p.snap[name]; !ok || string(want) != string(sb) {
				p.s.Violate("snapshot-bytes-wrong", fmt.Sprintf("snapshot reader for %s delivered %d bytes that are not the %d bytes received (completely written: %v)", name, len(sb), len(want), ok), replay)
			}
			if verify && alteredSnap != "" && name == alteredSnap {
				p.s.Violate("altered-snapshot-accepted", fmt.Sprintf("%s was altered (%s) but a verifying reader accepted it", name, what), replay)
			}
			p.s.Add("mon_snapshot_bytes_checked", len(sb))
			continue
		}
		data, end := c08ReadAll(rd, o, r)
		rd.aof.Close()
		rd.Close()
		lines = append(lines, fmt.Sprintf("read %d %s %s", o, end, vfutil.Hex(data)))
		p.s.Add("mon_bytes_checked", len(data))
		// ---- monitor: every byte served at offset x is the source's byte at x
		for k, b := range data {
			if b != c08Src(p.salt, o+int64(k)) {
				p.s.Violate("served-wrong-byte", fmt.Sprintf("after re-opening, offset %d is served as %02x, the source sent %02x", o+int64(k), b, c08Src(p.salt, o+int64(k))), replay)
				break
			}
		}
		// ---- monitor: a verifying reader delivers nothing from an altered closed segment
		if verify && alteredLeft >= 0 && o < alteredRight && o+int64(len(data)) > alteredLeft && len(data) > 0 {
			p.s.Violate("altered-segment-accepted", fmt.Sprintf("segment %d.aof was altered (%s) but a verifying reader opened at %d delivered %d bytes reaching into it", alteredLeft, what, o, len(data)), replay)
		}
		// ---- monitor: with verification on, nothing is delivered from a segment whose file does
		// not match its recorded size / CRC64 (a new process: no segment has a writer)
		if verify && len(data) > 0 {
			gone := map[string]bool{}
			for _, n := range removed {
				gone[n] = true // cut off by TruncateGap: not in the index, nothing is served from it
			}
			for name, b := range im {
				if !strings.HasSuffix(name, ".aof") || len(b) <= headerSize || c08SegOk(b) || gone[name] {
					continue
				}
				sl, err := strconv.ParseInt(strings.TrimSuffix(name, ".aof"), 10, 64)
				if err != nil {
					continue
				}
				if sr := sl + int64(len(b)-headerSize); o < sr && o+int64(len(data)) > sl {
					p.s.Violate("mismatching-segment-served", fmt.Sprintf("segment %s does not match its recorded size/checksum, a verifying reader opened at %d delivered %d bytes reaching into it", name, o, len(data)), replay)
					break
				}
			}
		}
		// ---- monitor: the reported range is one contiguous range of held bytes
		if !verify && (end != "eof" || int64(len(data)) != r-o) {
			p.s.Violate("range-not-contiguous", fmt.Sprintf("range [%d,%d] reported, reading from %d gave %d bytes and ended with %s", l, r, o, len(data), end), replay)
		}
	}
	for i := range lines {
		lines[i] = fmt.Sprintf("#%d %s", p.opIdx, lines[i])
	}
	p.opIdx++
	p.s.Op(fmt.Sprintf("c8r %d %s %s", v, vfDash(strings.Join(ps, ",")), im.String()), lines...)
	p.s.Count("images_" + what)
	if len(im) >= 2 {
		p.s.Distinct(im.String())
	}
}

// ---------------------------------------------------------------- scripts

type c08Script struct {
	ops []string
}

// genBigScript: production-size pieces — a snapshot of more than 3 x 8 KiB with
// a checksum footer, segments of more than 3 x 4 KiB (every 4096/8192-byte loop of
// the code runs several iterations), closed segments and the snapshot in the final image.
func (p *c08Parent) genBigScript(r *vfutil.Rand) string {
	logSize := int64(12500 + r.Intn(4000))
	ops := []string{fmt.Sprintf("dnew %d 0", logSize), "dsetrun " + c08RunId}
	p.snap = map[string][]byte{}
	left := int64(1000 + r.Intn(9000))
	size := int64(25000 + r.Intn(9000))
	for (p.salt+uint64(left)+uint64(size))%3 == 0 {
		size++
	}
	b := c08Snap(p.salt, left, size)
	ops = append(ops, fmt.Sprintf("drdbw %d %d", left, size))
	for at := int64(0); at < size; {
		c := int64(2000 + r.Intn(6000))
		if at+c > size {
			c = size - at
		}
		ops = append(ops, "drdba "+vfutil.Hex(b[at:at+c]))
		at += c
	}
	p.snap[fmt.Sprintf("%d_%d.rdb", left, size)] = b
	ops = append(ops, fmt.Sprintf("daofw %d", left))
	right := left
	for i := 0; i < 7; i++ {
		c := 3000 + r.Intn(3000)
		ops = append(ops, "daofa "+vfutil.Hex(c08SrcSeg(p.salt, right, c)))
		right += int64(c)
	}
	ops = append(ops, "daofc")
	return strings.Join(ops, " ; ")
}

// genFaultScript: every kind of fault at least once per script, each followed by further
// steps of the writers (the orphans and pinned segments a fault leaves must not disturb them).
func (p *c08Parent) genFaultScript(r *vfutil.Rand) string {
	logSize := int64(vfutil.Pick(r, []int{32, 48, 64}))
	ops := []string{fmt.Sprintf("dnew %d %d", logSize, logSize), "dsetrun " + c08RunId}
	p.snap = map[string][]byte{}
	right := int64(100 + r.Intn(900))
	room := int(logSize - headerSize) // data bytes a segment takes without rotating
	seg := func(n int) string {
		h := vfutil.Hex(c08SrcSeg(p.salt, right, n))
		right += int64(n)
		return h
	}
	open := func() { ops = append(ops, fmt.Sprintf("daofw %d", right)) }
	// rotations, then a collector pass in which SOME removals fail, one in which all fail, then
	// one that works (before any header fault: a segment whose close observer never ran pins
	// the collector for ever)
	open()
	lefts := []string{strconv.FormatInt(right, 10)}
	for i := 0; i < 4; i++ {
		ops = append(ops, "daofa "+seg(room+1))
		lefts = append(lefts, strconv.FormatInt(right, 10))
	}
	if p.immutable {
		var stuck []string
		for _, l := range lefts[:3] {
			if r.Bool() {
				stuck = append(stuck, l)
			}
		}
		if len(stuck) == 0 {
			stuck = lefts[1:2]
		}
		ops = append(ops, "dgcp "+strings.Join(stuck, ","))
		p.s.Count("fault_gc_remove_partial")
		ops = append(ops, "daofa "+seg(room+1), "dgcr")
	}
	ops = append(ops, "daofa "+seg(room+1), "dgc")
	// a rotation whose header rewrite fails after k bytes; the stream goes on with a new writer
	ops = append(ops, "daofa "+seg(1+r.Intn(room/2)))
	ops = append(ops, fmt.Sprintf("daofaf %d %s", r.Intn(16), seg(room)))
	open()
	ops = append(ops, "daofa "+seg(1+r.Intn(room/2)))
	if p.immutable {
		// a rotation whose next segment cannot be opened
		ops = append(ops, "daofao "+seg(room))
		// an empty live segment whose removal fails; the next writer re-creates the file
		open()
		ops = append(ops, "daofcr")
	} else {
		ops = append(ops, "daofc")
	}
	// the pinned segment: the collector removes nothing any more
	open()
	ops = append(ops, "daofa "+seg(room+1), "daofa "+seg(room+1), "dgc")
	// a close whose header rewrite fails
	ops = append(ops, "daofa "+seg(1+r.Intn(room/2)), fmt.Sprintf("daofcf %d", r.Intn(16)))
	// a short write
	open()
	c := 2 + r.Intn(room/2)
	ops = append(ops, fmt.Sprintf("daofx %d %s", 1+r.Intn(c-1), vfutil.Hex(c08SrcSeg(p.salt, right, c))))
	// (right is not advanced by the short write's bytes: a new snapshot follows)
	// a snapshot cut short whose temporary file cannot be removed, then the same snapshot complete
	left := right + int64(r.Intn(50))
	size := int64(9 + r.Intn(40))
	b := c08Snap(p.salt, left, size)
	// (the attempts that fail carry OTHER bytes than the snapshot finally committed under the same name: what
	// a leftover temporary file holds must not show up in it)
	b2 := c08Snap(p.salt+1, left, size)
	ops = append(ops, fmt.Sprintf("drdbw %d %d", left, size), "drdba "+vfutil.Hex(b2[:size/2]))
	if p.immutable {
		ops = append(ops, "drdbcr")
	} else {
		ops = append(ops, "drdbc")
	}
	// the same snapshot received completely, its COMMIT failing: at the fsync, then (immutable directory) at
	// the rename with the temporary file removed / left behind; each time it is received again
	stages := []string{"s", "c"}
	if p.immutable {
		stages = []string{vfutil.Pick(r, []string{"s", "S"}), "c", "r", "R"}
	}
	for _, stg := range stages {
		ops = append(ops, fmt.Sprintf("drdbw %d %d", left, size), "drdba "+vfutil.Hex(b2[:size/2]), "drdbaf "+stg+" "+vfutil.Hex(b2[size/2:]))
		p.s.Count("fault_commit_" + stg)
	}
	ops = append(ops, fmt.Sprintf("drdbw %d %d", left, size), "drdba "+vfutil.Hex(b[:size/2]), "drdba "+vfutil.Hex(b[size/2:]))
	p.snap[fmt.Sprintf("%d_%d.rdb", left, size)] = b
	right = left
	open()
	ops = append(ops, "daofa "+seg(1+r.Intn(room/2)), "daofa "+seg(room), "dgc")
	if r.Bool() {
		ops = append(ops, "daofc")
	}
	return strings.Join(ops, " ; ")
}

// genEdgeScripts: the degenerate-but-legal corners, FORCED on every run (not left to the random draw):
// a rotation limit at / just above the header size, snapshots of 1 / 8 bytes (never verified: no room
// for a footer), of 9 bytes with and without a valid footer, an empty live segment at the death, a
// writer replaced on an empty live segment, a size limit of one byte with a snapshot held.
func (p *c08Parent) genEdgeScripts() []string {
	var out []string
	seg := func(right *int64, n int) string {
		h := vfutil.Hex(c08SrcSeg(p.salt, *right, n))
		*right += int64(n)
		return h
	}
	for _, logSize := range []int64{16, 17} {
		right := int64(100)
		ops := []string{fmt.Sprintf("dnew %d 0", logSize), "dsetrun " + c08RunId, "daofw 100"}
		for i := 0; i < 3; i++ {
			ops = append(ops, "daofa "+seg(&right, 1))
		}
		ops = append(ops, "daofa "+seg(&right, 3), "daofc")
		out = append(out, strings.Join(ops, " ; "))
		p.s.Count(fmt.Sprintf("cfg_logSize_%d", logSize))
	}
	snapCase := func(tag string, b []byte) {
		left := int64(500)
		right := left
		name := fmt.Sprintf("%d_%d.rdb", left, len(b))
		ops := []string{"dnew 48 0", "dsetrun " + c08RunId, fmt.Sprintf("drdbw %d %d", left, len(b)), "drdba " + vfutil.Hex(b),
			fmt.Sprintf("daofw %d", left), "daofa " + seg(&right, 5)}
		out = append(out, "SNAP "+name+" "+vfutil.Hex(b)+" | "+strings.Join(ops, " ; "))
		p.s.Count("edge_snapshot_" + tag)
	}
	snapCase("1_byte", []byte{0x52})
	snapCase("8_bytes", []byte{0x52, 0x45, 0x44, 0x49, 0x53, 0x30, 0x30, 0x31})
	withFooter := func(payload []byte) []byte {
		return binary.LittleEndian.AppendUint64(append([]byte(nil), payload...), c08Crc(payload))
	}
	snapCase("9_bytes_footer", withFooter([]byte{0x52}))
	snapCase("9_bytes_no_footer", []byte{0x52, 1, 2, 3, 4, 5, 6, 7, 8})
	snapCase("9_bytes_zero", make([]byte, 9))
	{ // the process dies with an EMPTY live segment; a writer replaced on an empty live segment
		right := int64(100)
		out = append(out, strings.Join([]string{"dnew 32 0", "dsetrun " + c08RunId, "daofw 100", "daofa " + seg(&right, 4), "daofc", fmt.Sprintf("daofw %d", right)}, " ; "))
		out = append(out, strings.Join([]string{"dnew 32 0", "dsetrun " + c08RunId, "daofw 100", "daofw 100", "daofw 100"}, " ; "))
		p.s.Count("edge_empty_live_segment_at_death")
	}
	{ // offset 0: a snapshot announced at offset 0, the stream continuing from 0; a stream alone from 0
		right := int64(0)
		b := withFooter([]byte{9, 8, 7})
		ops := []string{"dnew 32 0", "dsetrun " + c08RunId, fmt.Sprintf("drdbw 0 %d", len(b)), "drdba " + vfutil.Hex(b), "daofw 0",
			"daofa " + seg(&right, 20), "daofa " + seg(&right, 3), "daofc"}
		out = append(out, "SNAP "+fmt.Sprintf("0_%d.rdb", len(b))+" "+vfutil.Hex(b)+" | "+strings.Join(ops, " ; "))
		right = 0
		out = append(out, strings.Join([]string{"dnew 32 0", "dsetrun " + c08RunId, "daofw 0", "daofa " + seg(&right, 20), "daofa " + seg(&right, 3)}, " ; "))
		p.s.Count("edge_offset_0")
	}
	{ // a size limit of ONE byte, a snapshot held: the collector drops the snapshot and all but the newest segment
		right := int64(700)
		b := withFooter([]byte{1, 2, 3})
		ops := []string{"dnew 24 1", "dsetrun " + c08RunId, fmt.Sprintf("drdbw 700 %d", len(b)), "drdba " + vfutil.Hex(b), "daofw 700"}
		for i := 0; i < 3; i++ {
			ops = append(ops, "daofa "+seg(&right, 9))
		}
		ops = append(ops, "dgc", "daofa "+seg(&right, 2), "dgc")
		out = append(out, "SNAP "+fmt.Sprintf("700_%d.rdb", len(b))+" "+vfutil.Hex(b)+" | "+strings.Join(ops, " ; "))
		p.s.Count("cfg_maxSize_1")
	}
	return out
}

// genIdScript: two independent histories (ids a*, b*), lives of the writers in their
// directories, a new process choosing among several ids, an id change (directory renamed),
// switches between existing ids, deletions, a directory re-created.
func (p *c08Parent) genIdScript(r *vfutil.Rand) (string, map[byte]uint64) {
	salts := map[byte]uint64{'a': r.U64() % 1000000, 'b': r.U64() % 1000000}
	logSize := vfutil.Pick(r, []int{32, 48, 64})
	var ops []string
	rights := map[string]int64{}
	leaveOpen := false // the next stream's writer is NOT closed: the id-level operation that follows finds it open
	stream := func(id string, n int) {
		right := rights[id]
		ops = append(ops, fmt.Sprintf("daofw %d", right))
		for i := 0; i < n; i++ {
			c := 3 + r.Intn(logSize)
			ops = append(ops, "daofa "+vfutil.Hex(c08SrcSeg(salts[id[0]], right, c)))
			right += int64(c)
		}
		switch k := r.Intn(4); {
		case leaveOpen:
			// nothing closed: SetRunId / DelRunId find the writer open and close it AFTER their
			// directory-level syscalls (open_writer_switch_crash_true / open_writer_del_crash_true)
			p.s.Count(fmt.Sprintf("id_op_finds_writer_open_empty_%v", n == 0))
		case k == 0:
			ops = append(ops, fmt.Sprintf("daofcf %d", r.Intn(16)))
		default:
			ops = append(ops, "daofc")
		}
		leaveOpen = false
		rights[id] = right
	}
	newProc := func() { ops = append(ops, fmt.Sprintf("dnew %d 0", logSize)) }
	newProc()
	ops = append(ops, "dsetrun a")
	rights["a"] = int64(100 + r.Intn(900))
	stream("a", 2+r.Intn(3))
	newProc()
	ops = append(ops, "dsetrun b")
	rights["b"] = int64(5000 + r.Intn(900))
	stream("b", 2+r.Intn(3))
	newProc()
	ops = append(ops, "dverify ?,zz,a,b") // a is taken
	leaveOpen = r.Bool()
	if leaveOpen && r.Chance(1, 3) {
		stream("a", 1)
		leaveOpen = true
		stream("a", 0) // an EMPTY live segment is left open across the rename
	} else {
		stream("a", 1+r.Intn(2))
	}
	// a placeholder id with a current directory: ignored before anything else (02e084c; before it the
	// current directory was renamed to <base>/?) — placeholder_id_ignored
	ops = append(ops, "dsetrun "+vfutil.Pick(r, []string{"?", "?", "a"}))
	ops = append(ops, "dsetrun a2") // the id changes: directory a renamed to a2
	rights["a2"] = rights["a"]
	delete(rights, "a")
	leaveOpen = r.Bool()
	stream("a2", 1+r.Intn(2))
	ops = append(ops, "dsetrun b") // an existing id: switch, re-scan
	stream("b", 1+r.Intn(2))
	ops = append(ops, "dsetrun a2")
	if r.Bool() {
		leaveOpen = r.Bool()
		stream("a2", r.Intn(2))
	}
	ops = append(ops, "ddel a2") // the current id's directory goes, entry by entry
	ops = append(ops, "dsetrun a") // no current id: a new directory
	rights["a"] = int64(100 + r.Intn(900))
	stream("a", 1+r.Intn(2))
	newProc()
	ops = append(ops, "dverify zz,b,a") // b is taken
	leaveOpen = r.Bool()
	stream("b", 1)
	ops = append(ops, "ddel zz", "ddel a") // a missing id: nothing happens; ANOTHER id's directory: the current index is reset too
	return strings.Join(ops, " ; "), salts
}

// idCrashImages: every prefix of the syscalls on the base directory is a base directory a new
// process may find; every id directory of it is re-opened by the real code (compared with the
// model, monitored against ITS id's source), and VerifyRunId picks among the ids.
func (p *c08Parent) idCrashImages(ops []c08Op, script string, salts map[byte]uint64) {
	root := c08Root{}
	step := 0
	check := func(what string) {
		for _, id := range root.ids() {
			p.salt = salts[id[0]]
			p.reopen(root[id].clone(), false, what, script)
			if step%2 == 0 {
				p.reopen(root[id].clone(), true, what, script)
			}
		}
		if len(root) >= 2 && step%3 == 0 {
			p.verifyIds(root, script)
		}
		step++
	}
	for _, o := range ops {
		if o.fail {
			continue
		}
		if (o.kind == "append" || o.kind == "pwrite") && len(o.data) > 1 {
			torn := root.clone()
			q := o
			q.data = o.data[:len(o.data)/2]
			torn.apply(q)
			saved := root
			root = torn
			check("id_torn")
			root = saved
		}
		root.apply(o)
		check("id_prefix")
		if o.kind == "rendir" || o.kind == "rmdir" || o.kind == "mkdir" {
			p.s.Count("id_sys_" + o.kind)
		}
	}
}

// verifyIds: a new process calls VerifyRunId with several ids on a copy of the base directory.
func (p *c08Parent) verifyIds(root c08Root, script string) {
	p.n++
	base := filepath.Join(p.tmp, fmt.Sprintf("v%d", p.n))
	for id, im := range root {
		os.MkdirAll(filepath.Join(base, id), 0o777)
		for n, b := range im {
			os.WriteFile(filepath.Join(base, id, n), b, 0o666)
		}
	}
	defer os.RemoveAll(base)
	ids := root.ids()
	if p.r.Bool() { // the order of the ids asked for decides
		for i, j := 0, len(ids)-1; i < j; i, j = i+1, j-1 {
			ids[i], ids[j] = ids[j], ids[i]
		}
	}
	ask := append([]string{"?", "zz"}, ids...)
	st := NewStorer("vf", base, 0, 1<<20, config.FlushPolicy{})
	st.VerifStopCollector()
	off, err := st.VerifyRunId(ask)
	if err != nil {
		p.s.Violate("verify-runid-failed", err.Error(), map[string]interface{}{"root": root.String(), "ids": strings.Join(ask, ","), "script": script})
		return
	}
	chosen := "-"
	if off != 0 {
		chosen = st.RunId()
	}
	line := fmt.Sprintf("#%d chosen=%s cur=%s latest=%d", p.opIdx, chosen, vfDash(st.RunId()), off)
	p.opIdx++
	p.s.Op(fmt.Sprintf("c8V - %s %s", strings.Join(ask, ","), root.String()), line)
	p.s.Count("verify_run_ids")
	// the id taken is one that was asked for and has a directory
	if chosen != "-" {
		if _, ok := root[chosen]; !ok {
			p.s.Violate("verify-runid-wrong-id", fmt.Sprintf("VerifyRunId(%s) took %q, which has no directory", strings.Join(ask, ","), chosen), map[string]interface{}{"root": root.String(), "script": script})
		}
	}
}

func (p *c08Parent) genScript(r *vfutil.Rand) (string, int64, int64) {
	logSize := int64(vfutil.Pick(r, []int{24, 32, 48, 64}))
	maxSize := logSize * int64(2+r.Intn(4))
	if r.Chance(1, 5) {
		maxSize = 0
	}
	var ops []string
	fl := vfutil.Pick(r, []string{"-", "-", "e", "d", "t"})
	if fl != "-" {
		ops = append(ops, "dflush "+fl)
	}
	p.s.Count("cfg_flush_" + fl)
	p.s.Count(fmt.Sprintf("cfg_logSize_%d", logSize))
	p.s.Count(fmt.Sprintf("cfg_maxSize_zero_%v", maxSize == 0))
	ops = append(ops, fmt.Sprintf("dnew %d %d", logSize, maxSize), "dsetrun "+c08RunId)
	p.snap = map[string][]byte{}
	var right int64 = -1 // end of the held stream; -1: nothing held
	var snapLeft int64 = -1
	aofOpen := false
	var fill int64 // data bytes in the live segment
	n := 6 + r.Intn(18)
	for i := 0; i < n; i++ {
		switch k := r.Intn(100); {
		case k < 12 || (right < 0 && snapLeft < 0 && k < 40): // snapshot
			left := int64(100 + r.Intn(900))
			size := int64(1 + r.Intn(60))
			ops = append(ops, fmt.Sprintf("drdbw %d %d", left, size))
			b := c08Snap(p.salt, left, size)
			// how the snapshot ends: 0 complete; 1 cut short and closed; 2 the LAST
			// chunk is received but the writer is stopped before writing it; 3 the
			// last chunk's file write fails; 4/5 the same for an earlier chunk
			// 6: cut short and closed while the temporary file cannot be removed
			mode := 0
			if r.Chance(1, 2) {
				mode = 1 + r.Intn(5)
				if p.immutable && r.Chance(1, 4) {
					mode = 6
				}
				if r.Chance(1, 4) {
					mode = 7 // completely received, the COMMIT fails
				}
			}
			var chunks [][]byte
			for at := int64(0); at < size; {
				c := int64(1 + r.Intn(int(size-at)))
				chunks = append(chunks, b[at:at+c])
				at += c
			}
			done := false
			for i, c := range chunks {
				last := i == len(chunks)-1
				switch {
				case (mode == 1 || mode == 6) && last:
					if len(c) > 1 {
						ops = append(ops, "drdba "+vfutil.Hex(c[:len(c)-1]))
					}
					if mode == 6 {
						ops = append(ops, "drdbcr")
					} else {
						ops = append(ops, "drdbc")
					}
					done = true
				case mode == 2 && last, mode == 4 && (i == len(chunks)/2):
					ops = append(ops, "drdbx "+vfutil.Hex(c))
					done = true
				case mode == 3 && last, mode == 5 && (i == len(chunks)/2):
					ops = append(ops, "drdbf "+vfutil.Hex(c))
					done = true
				case mode == 7 && last:
					stage := vfutil.Pick(r, []string{"s", "c"})
					if p.immutable {
						stage = vfutil.Pick(r, []string{"s", "c", "S", "r", "R"})
					}
					ops = append(ops, "drdbaf "+stage+" "+vfutil.Hex(c))
					p.s.Count("fault_commit_" + stage)
					done = true
				default:
					ops = append(ops, "drdba "+vfutil.Hex(c))
				}
				if done {
					break
				}
			}
			if !done {
				p.snap[fmt.Sprintf("%d_%d.rdb", left, size)] = b
				snapLeft = left
			} else {
				snapLeft = -1
				p.s.Count(fmt.Sprintf("snapshot_end_mode_%d", mode))
			}
			right = -1
			aofOpen = false
		case k < 70: // stream bytes
			if !aofOpen {
				off := right
				if off < 0 {
					off = snapLeft
				}
				if off < 0 {
					off = int64(100 + r.Intn(900))
				}
				ops = append(ops, fmt.Sprintf("daofw %d", off))
				right = off
				aofOpen = true
				fill = 0
			}
			c := 1 + r.Intn(int(logSize))
			if room := logSize - headerSize - fill; c >= 2 && room >= 1 && r.Chance(1, 7) {
				// short write (the disk fills up): k < c bytes reach the file, no rotation
				k := int64(1 + r.Intn(c-1))
				if k > room {
					k = room
				}
				ops = append(ops, fmt.Sprintf("daofx %d %s", k, vfutil.Hex(c08SrcSeg(p.salt, right, c))))
				right += k
				aofOpen = false
				p.s.Count("aof_short_writes")
				break
			}
			if r.Chance(1, 6) {
				// a fault at the rotation: the header rewrite fails after hk bytes, or the next
				// segment cannot be opened; half of the chunks cross the limit (the fault
				// strikes, the writer ends), the others do not (an ordinary append)
				room := logSize - headerSize - fill
				c = int(room) + 1 + r.Intn(5)
				cross := true
				if room >= 1 && r.Chance(1, 3) {
					c = 1 + r.Intn(int(room))
					cross = false
				}
				if p.immutable && r.Bool() {
					ops = append(ops, "daofao "+vfutil.Hex(c08SrcSeg(p.salt, right, c)))
					p.s.Count(fmt.Sprintf("fault_rotation_open_cross_%v", cross))
				} else {
					ops = append(ops, fmt.Sprintf("daofaf %d %s", r.Intn(16), vfutil.Hex(c08SrcSeg(p.salt, right, c))))
					p.s.Count(fmt.Sprintf("fault_rotation_header_cross_%v", cross))
				}
				right += int64(c)
				if cross {
					aofOpen = false
					fill = 0
				} else {
					fill += int64(c)
				}
				break
			}
			ops = append(ops, "daofa "+vfutil.Hex(c08SrcSeg(p.salt, right, c)))
			right += int64(c)
			fill += int64(c)
			if headerSize+fill > logSize {
				fill = 0
			}
		case k < 80:
			if aofOpen {
				switch f := r.Intn(6); {
				case f == 0:
					ops = append(ops, fmt.Sprintf("daofcf %d", r.Intn(16)))
					p.s.Count(fmt.Sprintf("fault_close_header_empty_%v", fill == 0))
				case f == 1 && p.immutable:
					ops = append(ops, "daofcr")
					p.s.Count(fmt.Sprintf("fault_close_remove_empty_%v", fill == 0))
				default:
					ops = append(ops, "daofc")
				}
				aofOpen = false
			}
		default:
			if p.immutable && r.Chance(1, 3) {
				ops = append(ops, "dgcr")
				p.s.Count("fault_gc_remove")
			} else {
				ops = append(ops, "dgc")
			}
		}
	}
	return strings.Join(ops, " ; "), logSize, maxSize
}

func TestVerifC08(t *testing.T) {
	s := vfutil.NewSession("C08")
	defer s.Close()
	if _, err := exec.LookPath("strace"); err != nil {
		t.Fatalf("C08 harness infrastructure (no statement about the cache): strace is not available, the syscall-level tie cannot run")
	}
	p := &c08Parent{s: s, r: vfutil.NewRand(vfutil.Seed() + 8), tmp: t.TempDir()}
	p.immutable = c08ImmutableWorks(p.tmp)
	if p.immutable {
		s.Count("fault_injection_immutable_dir")
	} else {
		s.Count("note_fault_injection_immutable_dir_unsupported")
	}
	// process-global state of the package (source fact): none of its package-level variables is written
	if vars, written, err := c08GlobalsWritten(); err != nil {
		t.Errorf("C08 harness infrastructure (no statement about the cache): package source not parsed: %v", err)
	} else {
		s.Add("fact_pkg_store_global_vars", len(vars))
		s.Add("fact_pkg_store_global_vars_written", len(written))
		if len(vars) == 0 || len(written) > 0 {
			t.Errorf("C08 source fact (broken tie, no statement about the cache): package-level variables of pkg/store %v, written after init: %v (the models assume none)", vars, written)
		}
	}
	cur := ""
	wd := vfWatchdog(s, time.Duration(vfutil.Scale(150, 1500))*time.Second, func() string { return cur })
	defer wd.Stop()

	// runChild runs the script with the real writers under strace and returns the
	// file operations of the trace. Everything that can go wrong HERE is a failure
	// of the harness' infrastructure (strace, the child process, the trace parser),
	// never a behaviour of the cache: it is retried and then reported as a broken
	// tie (test failure), not as a violation with a failing input.
	runChild := func(script string, multi bool) (ops []c08Op, viol string, err error) {
		top := filepath.Join(p.tmp, fmt.Sprintf("w%d", p.n))
		p.n++
		root := filepath.Join(top, "base") // the store's base directory (nothing else lives in it)
		os.MkdirAll(root, 0o777)
		defer os.RemoveAll(top)
		defer func() { // a child that died in the middle of a fault: nothing may stay immutable
			c08SetImmutable(filepath.Join(root, c08RunId), false)
			if ents, err := os.ReadDir(filepath.Join(root, c08RunId)); err == nil {
				for _, e := range ents {
					c08SetImmutable(filepath.Join(root, c08RunId, e.Name()), false)
				}
			}
		}()
		trace := filepath.Join(top, "trace.txt")
		scriptFile := filepath.Join(top, "script.txt") // not in the environment: one env string is limited to 128 KiB
		if err := os.WriteFile(scriptFile, []byte(script), 0o644); err != nil {
			return nil, "", err
		}
		cmd := exec.Command("strace", "-f", "-y", "-s", "1000000", "-xx",
			"-e", "trace=openat,write,writev,pwrite64,pwritev,pwritev2,ftruncate,lseek,close,rename,renameat,renameat2,unlink,unlinkat,mkdir,mkdirat",
			"-o", trace, os.Args[0], "-test.run", "^TestVerifC08Child$")
		cmd.Env = append(os.Environ(), "VERIF_C08_CHILD=1", "VERIF_C08_ROOT="+root, "VERIF_C08_SCRIPT_FILE="+scriptFile,
			"VERIF_OUT="+filepath.Join(top, "out"))
		if out, err := cmd.CombinedOutput(); err != nil {
			return nil, "", fmt.Errorf("child failed: %v: %s", err, out)
		}
		if b, err := os.ReadFile(filepath.Join(root, "violation.txt")); err == nil {
			viol = string(b)
		}
		if multi {
			ops, err = c08ParseTrace(trace, root, true)
			if err != nil {
				return nil, "", fmt.Errorf("trace not parsed: %v", err)
			}
			// sanity of trace and parser, for the whole base directory
			rim := c08Root{}
			for _, o := range ops {
				rim.apply(o)
			}
			real := c08Root{}
			ents, _ := os.ReadDir(root)
			for _, e := range ents {
				if !e.IsDir() {
					continue
				}
				im := c08Image{}
				fents, _ := os.ReadDir(filepath.Join(root, e.Name()))
				for _, fe := range fents {
					b, _ := os.ReadFile(filepath.Join(root, e.Name(), fe.Name()))
					im[fe.Name()] = b
				}
				real[e.Name()] = im
			}
			if rim.String() != real.String() {
				if keep := os.Getenv("VERIF_C08_KEEP"); keep != "" {
					b, _ := os.ReadFile(trace)
					os.WriteFile(keep, b, 0o644)
				}
				return nil, "", fmt.Errorf("the parsed trace does not reproduce the base directory the child left: trace %d directories, real %d", len(rim), len(real))
			}
			return ops, viol, nil
		}
		dir := filepath.Join(root, c08RunId)
		ops, err = c08ParseTrace(trace, dir, false)
		if err != nil {
			return nil, "", fmt.Errorf("trace not parsed: %v", err)
		}
		// sanity of trace and parser: the operations of the trace, applied to an empty
		// directory, must give exactly the directory the child left behind — a write
		// that strace did not show or the parser did not understand (a lost line, a
		// syscall outside the filter) must not pass as a behaviour of the code
		im := c08Image{}
		for _, o := range ops {
			im.apply(o)
		}
		ents, _ := os.ReadDir(dir)
		real := c08Image{}
		for _, e := range ents {
			b, _ := os.ReadFile(filepath.Join(dir, e.Name()))
			real[e.Name()] = b
		}
		if im.String() != real.String() {
			if keep := os.Getenv("VERIF_C08_KEEP"); keep != "" {
				b, _ := os.ReadFile(trace)
				os.WriteFile(keep, b, 0o644)
			}
			var bad []string
			for n := range real {
				if string(im[n]) != string(real[n]) {
					bad = append(bad, fmt.Sprintf("%s (trace %d bytes, directory %d bytes)", n, len(im[n]), len(real[n])))
				}
			}
			for n := range im {
				if _, ok := real[n]; !ok {
					bad = append(bad, n+" (in the trace only)")
				}
			}
			sort.Strings(bad)
			return nil, "", fmt.Errorf("the parsed trace does not reproduce the directory the child left: %s", strings.Join(bad, ", "))
		}
		return ops, viol, nil
	}

	runCase := func(script string, salt uint64, src string) {
		cur = script
		p.salt = salt
		var ops []c08Op
		var viol string
		var err error
		for attempt := 0; attempt < 3; attempt++ {
			if ops, viol, err = runChild(script, false); err == nil {
				break
			}
			s.Count("infra_retries")
		}
		if err != nil {
			s.Count("infra_failures")
			t.Errorf("C08 harness infrastructure (no statement about the cache): %v", err)
			return
		}
		if viol != "" {
			kv := strings.SplitN(viol, "|", 2)
			if kv[0] == "fault-not-injected" {
				s.Count("infra_failures")
				t.Errorf("C08 harness infrastructure (no statement about the cache): %s", kv[1])
				return
			}
			s.Violate(kv[0], kv[1], map[string]interface{}{"script": script, "salt": salt})
		}
		// (1) the writers' file operations, op for op
		lines := make([]string, len(ops))
		for i, o := range ops {
			lines[i] = o.String()
		}
		// the model checks that the script meets the theorems' hypotheses (wfX, SrcOkX for this source)
		lines = append(lines, "hyp wf=1 src=1", "end")
		s.Count("scripts_hypotheses_checked")
		for i := range lines {
			lines[i] = fmt.Sprintf("#%d %s", p.opIdx, lines[i])
		}
		p.opIdx++
		s.Op(fmt.Sprintf("c8w %d %s", salt, script), lines...)
		s.Add("file_ops", len(ops))
		s.Count("scripts_" + src)
		// (2) every crash instant — inside a synctest bubble: the reader's 10 ms
		// sleeps at every segment change are virtual there
		synctest.Test(t, func(t *testing.T) { p.crashImages(ops, script) })
	}

	// several replication-id directories: SetRunId (mkdir / rename / switch), VerifyRunId, DelRunId
	runIdCase := func(script string, salts map[byte]uint64) {
		cur = script
		var ops []c08Op
		var err error
		for attempt := 0; attempt < 3; attempt++ {
			if ops, _, err = runChild(script, true); err == nil {
				break
			}
			s.Count("infra_retries")
		}
		if err != nil {
			s.Count("infra_failures")
			t.Errorf("C08 harness infrastructure (no statement about the cache): %v", err)
			return
		}
		// RemoveAll unlinks in readdir order: the run of removals before a rmdir is compared as a set
		lines := make([]string, len(ops))
		for i, o := range ops {
			lines[i] = o.String()
		}
		for i, o := range ops {
			if o.kind == "rmdir" && !o.fail {
				j := i
				for j > 0 && ops[j-1].kind == "remove" && !ops[j-1].fail && strings.HasPrefix(ops[j-1].name, o.name+"/") {
					j--
				}
				sort.Strings(lines[j:i])
			}
		}
		lines = append(lines, "hyp wf=1 src=1", "end")
		s.Count("scripts_hypotheses_checked")
		for i := range lines {
			lines[i] = fmt.Sprintf("#%d %s", p.opIdx, lines[i])
		}
		p.opIdx++
		s.Op(fmt.Sprintf("c8d a=%d,b=%d %s", salts['a'], salts['b'], script), lines...)
		s.Add("id_file_ops", len(ops))
		s.Count("scripts_ids")
		p.snap = map[string][]byte{}
		p.saltsStr = fmt.Sprintf("a=%d,b=%d", salts['a'], salts['b'])
		synctest.Test(t, func(t *testing.T) { p.idCrashImages(ops, script, salts) })
		p.saltsStr = ""
	}
	// ./check C08 --replay FILE: the script of the replay only (with its source function)
	if rp := os.Getenv("VERIF_REPLAY"); rp != "" {
		var doc struct {
			Replay map[string]interface{} `json:"replay"`
		}
		b, _ := os.ReadFile(rp)
		json.Unmarshal(b, &doc)
		script, _ := doc.Replay["script"].(string)
		if script == "" {
			t.Fatalf("replay %s carries no script", rp)
		}
		if ss, _ := doc.Replay["salts"].(string); ss != "" {
			salts := map[byte]uint64{}
			for _, kv := range strings.Split(ss, ",") {
				if k, v, ok := strings.Cut(kv, "="); ok && len(k) == 1 {
					salts[k[0]], _ = strconv.ParseUint(v, 10, 64)
				}
			}
			runIdCase(script, salts)
			return
		}
		salt := uint64(0)
		if f, ok := doc.Replay["salt"].(float64); ok {
			salt = uint64(f)
		}
		p.snap = map[string][]byte{}
		c08ScanSnaps(script, p.snap)
		runCase(script, salt, "replay")
		return
	}
	for _, l := range vfutil.Corpus("C08") {
		f := strings.SplitN(l, " ", 2)
		if len(f) == 2 {
			salt, _ := strconv.ParseUint(f[0], 10, 64)
			// corpus scripts carry their own bytes; snapshots completely written are recomputed
			p.snap = map[string][]byte{}
			c08ScanSnaps(f[1], p.snap)
			runCase(f[1], salt, "corpus")
		}
	}
	cases := vfutil.Scale(10, 150)
	if v, err := strconv.Atoi(os.Getenv("VERIF_CASES")); err == nil {
		cases = v
	}
	for c := 0; c < cases; c++ {
		salt := p.r.U64() % 1000000
		p.salt = salt
		script, _, _ := p.genScript(p.r)
		runCase(script, salt, "gen")
	}
	{
		salt := p.r.U64() % 1000000
		p.salt = salt
		for _, sc := range p.genEdgeScripts() {
			p.snap = map[string][]byte{}
			if rest, ok := strings.CutPrefix(sc, "SNAP "); ok {
				hd, script, _ := strings.Cut(rest, " | ")
				f := strings.Fields(hd)
				p.snap[f[0]] = vfutil.UnHex(f[1])
				sc = script
			}
			runCase(sc, salt, "edge")
		}
	}
	for c := 0; c < vfutil.Scale(2, 12); c++ {
		salt := p.r.U64() % 1000000
		p.salt = salt
		p.light = true
		runCase(p.genFaultScript(p.r), salt, "faults")
		p.light = false
	}
	for c := 0; c < vfutil.Scale(2, 12); c++ {
		script, salts := p.genIdScript(p.r)
		runIdCase(script, salts)
	}
	for c := 0; c < vfutil.Scale(1, 6); c++ {
		salt := p.r.U64() % 1000000
		p.salt = salt
		p.big = true
		runCase(p.genBigScript(p.r), salt, "big")
		p.big = false
	}
	_ = io.EOF
}

// modelImage: the MODEL's crash image for the same instant (n operations took effect, the
// last one torn after k bytes) must be the directory image built from the real syscalls.
func (p *c08Parent) modelImage(n, k int, im c08Image, script string) {
	p.s.Op(fmt.Sprintf("c8i %d %d", n, k), fmt.Sprintf("#%d %s", p.opIdx, im.String())) // of the last c8w script
	p.opIdx++
	p.s.Count("model_crash_images")
}

func (p *c08Parent) crashImages(ops []c08Op, script string) {
	s := p.s
	{
		im := c08Image{}
		p.reopen(im.clone(), false, "prefix", script)
		okN := 0
		for i, o := range ops {
			if o.fail {
				s.Count("failed_attempts_" + o.kind)
				continue
			}
			okN++
			if (o.kind == "append" || o.kind == "pwrite") && len(o.data) > 1 {
				cuts := []int{1, len(o.data) / 2, len(o.data) - 1}
				if p.big {
					cuts = []int{len(o.data) / 2}
				} else if p.light {
					cuts = []int{1, len(o.data) / 2}
				}
				for _, k := range cuts {
					if k <= 0 || k >= len(o.data) {
						continue
					}
					torn := im.clone()
					torn.apply(c08Op{kind: o.kind, name: o.name, off: o.off, data: o.data[:k]})
					if o.kind == "pwrite" {
						s.Count("torn_header_rewrites")
					}
					if !p.big || okN%7 == 0 {
						p.modelImage(okN, k, torn, script)
					}
					p.reopen(torn, false, "torn", script)
					p.reopen(torn, true, "torn", script)
				}
			}
			im.apply(o)
			if !p.big || okN%7 == 0 || i == len(ops)-1 {
				p.modelImage(okN, 1<<30, im, script)
			}
			p.reopen(im.clone(), false, "prefix", script)
			if !p.big || i%3 == 0 || i == len(ops)-1 {
				p.reopen(im.clone(), true, "prefix", script)
			}
		}
		// (3) alterations of closed segments of the final image (sorted: the draws from
		// the seeded generator must not depend on map order)
		var imNames []string
		for n := range im {
			imNames = append(imNames, n)
		}
		sort.Strings(imNames)
		for _, name := range imNames {
			b := im[name]
			if !strings.HasSuffix(name, ".aof") || len(b) <= headerSize || b[9] == 0 && b[10] == 0 && b[1] == 0 {
				continue // not a closed segment
			}
			alter := func(what string, f func(c []byte) []byte) {
				a := im.clone()
				a[name] = f(append([]byte(nil), b...))
				left, _ := strconv.ParseInt(strings.TrimSuffix(name, ".aof"), 10, 64)
				p.reopenAlt(a, true, "altered_"+what, script, left, left+int64(len(b)-headerSize))
				s.Count("alterations")
			}
			alter("data", func(c []byte) []byte { c[headerSize+p.r.Intn(len(c)-headerSize)] ^= byte(1 << p.r.Intn(8)); return c })
			// in the LAST piece of the verification loop (4096-byte reads)
			alter("data_last_piece", func(c []byte) []byte {
				tail := (len(c) - headerSize - 1) % 4096
				c[len(c)-1-p.r.Intn(tail+1)] ^= byte(1 << p.r.Intn(8))
				return c
			})
			alter("size", func(c []byte) []byte {
				binary.LittleEndian.PutUint32(c[9:], binary.LittleEndian.Uint32(c[9:])+1)
				return c
			})
			alter("crc", func(c []byte) []byte { c[1+p.r.Intn(8)] ^= byte(1 << p.r.Intn(8)); return c })
			alter("truncated", func(c []byte) []byte { return c[:len(c)-1] })
			alter("extended", func(c []byte) []byte { return append(c, 0x5a) })
			// the tail / the payload / the whole file reads back as zeros (lost blocks), the file cut to its header
			zero := func(from int) func(c []byte) []byte {
				return func(c []byte) []byte {
					for i := from; i < len(c); i++ {
						c[i] = 0
					}
					return c
				}
			}
			if !c08AllZero(b[headerSize:]) {
				alter("tail_zero", zero(len(b)-1-p.r.Intn(len(b)-headerSize)))
				alter("payload_zero", zero(headerSize))
				alter("all_zero", zero(0))
			}
			alter("header_only", func(c []byte) []byte { return c[:headerSize] })
			alter("half", func(c []byte) []byte { return c[:headerSize+(len(c)-headerSize)/2] })
			// BENIGN alterations: the version byte and the reserved bytes are read by nobody
			// (version_reserved_ignored): accepted, and every byte served is still the source's
			benign := func(what string, f func(c []byte) []byte) {
				a := im.clone()
				a[name] = f(append([]byte(nil), b...))
				p.reopenAlt(a, true, "benign_"+what, script, -1, -1)
				s.Count("alterations_benign")
			}
			benign("reserved", func(c []byte) []byte { c[13+p.r.Intn(3)] ^= byte(1 << p.r.Intn(8)); return c })
			benign("version", func(c []byte) []byte { c[0] ^= byte(1 << p.r.Intn(8)); return c })
			// the position of the altered segment in the chain
			var lefts []int64
			for _, n2 := range imNames {
				if strings.HasSuffix(n2, ".aof") && len(im[n2]) > headerSize {
					l2, _ := strconv.ParseInt(strings.TrimSuffix(n2, ".aof"), 10, 64)
					lefts = append(lefts, l2)
				}
			}
			sort.Slice(lefts, func(i, j int) bool { return lefts[i] < lefts[j] })
			myLeft, _ := strconv.ParseInt(strings.TrimSuffix(name, ".aof"), 10, 64)
			switch {
			case len(lefts) == 1:
				s.Count("altered_segment_position_only")
			case myLeft == lefts[0]:
				s.Count("altered_segment_position_oldest")
			case myLeft == lefts[len(lefts)-1]:
				s.Count("altered_segment_position_newest")
			default:
				s.Count("altered_segment_position_middle")
			}
		}
		// (3c) segments a crash left LIVE (header never rewritten: recorded size 0) — with data or empty:
		// served without verification, refused with it; an empty one is not indexed at all
		for _, name := range imNames {
			b := im[name]
			if !strings.HasSuffix(name, ".aof") || len(b) < headerSize || !(b[9] == 0 && b[10] == 0 && b[1] == 0) {
				continue
			}
			if len(b) == headerSize {
				s.Count("final_image_live_segment_empty")
			} else {
				s.Count("final_image_live_segment_with_data")
				a := im.clone()
				c := append([]byte(nil), b...)
				c[headerSize+p.r.Intn(len(c)-headerSize)] ^= 1
				a[name] = c
				left, _ := strconv.ParseInt(strings.TrimSuffix(name, ".aof"), 10, 64)
				p.reopenAlt(a, true, "altered_live_data", script, left, left+int64(len(b)-headerSize))
				s.Count("alterations")
			}
		}
		// (4) alterations of a committed snapshot that carries a checksum footer
		for _, name := range imNames {
			b := im[name]
			if !strings.HasSuffix(name, ".rdb") || len(b) <= 8 || !c08FooterOk(b) {
				continue
			}
			alterSnap := func(what string, f func(c []byte) []byte) {
				a := im.clone()
				a[name] = f(append([]byte(nil), b...))
				p.alteredSnap = name
				p.reopenAlt(a, true, "altered_snapshot_"+what, script, -1, -1)
				p.alteredSnap = ""
				s.Count("snapshot_alterations")
			}
			alterSnap("data", func(c []byte) []byte { c[p.r.Intn(len(c)-8)] ^= byte(1 << p.r.Intn(8)); return c })
			alterSnap("data_last_piece", func(c []byte) []byte {
				tail := (len(c) - 8 - 1) % 4096
				c[len(c)-9-p.r.Intn(tail+1)] ^= byte(1 << p.r.Intn(8))
				return c
			})
			alterSnap("footer", func(c []byte) []byte { c[len(c)-1-p.r.Intn(8)] ^= byte(1 << p.r.Intn(8)); return c })
			// right name, right LENGTH, the tail reads back as zeros (a lost last block after a power loss,
			// a zero-filled / cut copy): the trailer itself is gone — altered_snapshot_never_served
			zeroFrom := func(from int) func(c []byte) []byte {
				return func(c []byte) []byte {
					if from < 0 {
						from = 0
					}
					for i := from; i < len(c); i++ {
						c[i] = 0
					}
					return c
				}
			}
			if !c08AllZero(b[:len(b)-8]) {
				alterSnap("trailer_zero", zeroFrom(len(b)-8))
				alterSnap("tail_zero", zeroFrom(len(b)-8-1-p.r.Intn(len(b)-8)))
				alterSnap("last_block_zero", zeroFrom((len(b)-1)/4096*4096))
				alterSnap("all_zero", zeroFrom(0))
			}
		}
		// (4b) a committed snapshot NAME whose file has another size than announced (power loss after
		// the rename reached the disk before the data, a copy cut short): not a crash image of the
		// writers, but covered since initDataSet compares the size — it must not be offered (monitor
		// incomplete-snapshot-offered; compared with the model: wrong_size_snapshot_not_offered)
		for _, name := range imNames {
			b := im[name]
			if !strings.HasSuffix(name, ".rdb") || len(b) == 0 {
				continue
			}
			for _, alt := range []struct {
				what string
				f    func(c []byte) []byte
			}{
				{"short", func(c []byte) []byte { return c[:len(c)-1] }},
				{"half", func(c []byte) []byte { return c[:len(c)/2] }},
				{"extended", func(c []byte) []byte { return append(c, 0x5a) }},
			} {
				a := im.clone()
				a[name] = alt.f(append([]byte(nil), b...))
				p.reopen(a, false, "wrong_size_snapshot_"+alt.what, script)
				s.Count("snapshot_wrong_size_images")
			}
		}
		// (4c) leftovers and strangers: a temporary file NEXT TO the committed snapshot of the same offsets
		// (other bytes, shorter), files no writer produces — the answers and the bytes must not change
		{
			a := im.clone()
			for _, name := range imNames {
				if strings.HasSuffix(name, ".rdb") {
					a[name+".tmp"] = []byte{0xde, 0xad}
					s.Count("image_tmp_beside_committed")
				}
			}
			a["stray.txt"] = []byte("not a cache file")
			a["12x.aof"] = append(make([]byte, headerSize), 1, 2, 3)
			a["7_.rdb"] = []byte{1}
			a["_7.rdb"] = []byte{1}
			a["1_2_3.rdb"] = []byte{1, 2, 3}
			p.reopen(a, false, "strangers", script)
			p.reopen(a, true, "strangers", script)
			s.Count("image_stray_files")
		}
		// (5) files removed in ANY order (DelRunId = os.RemoveAll in readdir order; any
		// subset of the final image may survive a death during it)
		var names []string
		for n := range im {
			names = append(names, n)
		}
		sort.Strings(names)
		for k := 0; k < 6 && len(names) > 1; k++ {
			sub := c08Image{}
			for _, n := range names {
				if p.r.Bool() {
					sub[n] = im[n]
				}
			}
			p.reopen(sub, false, "subset", script)
			p.reopen(sub, true, "subset", script)
		}
		// (6) life goes on after the restart: resume the writer, collect, die again
		p.resume(im.clone(), script)
	}
}

// c08GlobalsWritten: process-global state of pkg/store as a SOURCE FACT (dimension audit, session 5):
// the package-level variables of the package's non-test files and those of them that some function
// assigns, increments, takes the address of or stores into. The models treat the package as free of
// mutable global state (every Storer / writer / reader is its own object); a variable that becomes
// written makes that a question again -> broken tie, not a violation.
func c08GlobalsWritten() (vars []string, written []string, err error) {
	fset := token.NewFileSet()
	pkgs, err := parser.ParseDir(fset, ".", func(fi os.FileInfo) bool {
		return !strings.HasSuffix(fi.Name(), "_test.go") && !strings.HasPrefix(fi.Name(), "vf_")
	}, 0)
	if err != nil {
		return nil, nil, err
	}
	global := map[string]bool{}
	var files []*ast.File
	for _, pk := range pkgs {
		for _, f := range pk.Files {
			files = append(files, f)
			for _, d := range f.Decls {
				if gd, ok := d.(*ast.GenDecl); ok && gd.Tok == token.VAR {
					for _, sp := range gd.Specs {
						for _, n := range sp.(*ast.ValueSpec).Names {
							if n.Name != "_" {
								global[n.Name] = true
							}
						}
					}
				}
			}
		}
	}
	isGlobal := func(e ast.Expr) (string, bool) {
		for {
			switch x := e.(type) {
			case *ast.ParenExpr:
				e = x.X
				continue
			case *ast.IndexExpr:
				e = x.X
				continue
			case *ast.SliceExpr:
				e = x.X
				continue
			case *ast.SelectorExpr:
				e = x.X
				continue
			case *ast.StarExpr:
				e = x.X
				continue
			case *ast.Ident:
				if !global[x.Name] {
					return "", false
				}
				if x.Obj != nil {
					if _, ok := x.Obj.Decl.(*ast.ValueSpec); !ok {
						return "", false // a local of the same name (parameter, :=)
					}
					// a ValueSpec inside a function is a local `var`
					for _, f := range files {
						for _, d := range f.Decls {
							if fd, ok := d.(*ast.FuncDecl); ok && fd.Body != nil && fd.Body.Pos() <= x.Obj.Pos() && x.Obj.Pos() <= fd.Body.End() {
								return "", false
							}
						}
					}
				}
				return x.Name, true
			}
			return "", false
		}
	}
	w := map[string]bool{}
	for _, f := range files {
		for _, d := range f.Decls {
			fd, ok := d.(*ast.FuncDecl)
			if !ok || fd.Body == nil {
				continue
			}
			ast.Inspect(fd.Body, func(n ast.Node) bool {
				switch x := n.(type) {
				case *ast.AssignStmt:
					if x.Tok != token.DEFINE {
						for _, l := range x.Lhs {
							if name, ok := isGlobal(l); ok {
								w[name] = true
							}
						}
					}
				case *ast.IncDecStmt:
					if name, ok := isGlobal(x.X); ok {
						w[name] = true
					}
				case *ast.UnaryExpr:
					if x.Op == token.AND {
						if name, ok := isGlobal(x.X); ok {
							w[name] = true
						}
					}
				}
				return true
			})
		}
	}
	for n := range global {
		vars = append(vars, n)
	}
	for n := range w {
		written = append(written, n)
	}
	sort.Strings(vars)
	sort.Strings(written)
	return vars, written, nil
}

func c08AllZero(b []byte) bool {
	for _, x := range b {
		if x != 0 {
			return false
		}
	}
	return true
}

// c08SegOk: the recorded size and CRC64 of a segment file match its content.
func c08SegOk(b []byte) bool {
	if len(b) < headerSize {
		return false
	}
	return int64(binary.LittleEndian.Uint32(b[9:13])) == int64(len(b)-headerSize) &&
		binary.LittleEndian.Uint64(b[1:9]) == c08Crc(b[headerSize:])
}

// verifyLive: verifying readers on the LIVE index (writer w attached): closed segments are
// verified wherever the reader meets them, the writer's segment is not. Compared with the model
// (serveFromL) on the directory as it is; alteredLeft >= 0 names a closed segment that was altered.
func (p *c08Parent) verifyLive(st *Storer, w *AofWriter, dir, script, what string, alteredLeft int64, zombies ...int64) {
	l, r := st.GetOffsetRange()
	if l < 0 || r <= l {
		return
	}
	im := c08Image{}
	ents, _ := os.ReadDir(dir)
	for _, e := range ents {
		b, _ := os.ReadFile(filepath.Join(dir, e.Name()))
		im[e.Name()] = b
	}
	replay := map[string]interface{}{"image": im.String(), "at": what, "script": script, "live": w.left, "salt": p.salt}
	set := map[int64]struct{}{}
	cand := []int64{l, l + 1, (l + r) / 2, r - 1, w.left - 1, w.left, w.left + 1, alteredLeft - 1, alteredLeft, alteredLeft + 1}
	for _, z := range zombies {
		cand = append(cand, z-1, z, z+1)
	}
	for _, o := range cand {
		if o >= l && o < r {
			set[o] = struct{}{}
		}
	}
	var probes []int64
	for o := range set {
		probes = append(probes, o)
	}
	sort.Slice(probes, func(i, j int) bool { return probes[i] < probes[j] })
	var lines, ps []string
	for _, o := range probes {
		ps = append(ps, strconv.FormatInt(o, 10))
		rd, err := st.GetReader(o, true)
		if err != nil {
			lines = append(lines, fmt.Sprintf("read %d err %s", o, c08ErrClass(err)))
			continue
		}
		if !rd.IsAof() {
			rd.rdb.Close()
			rd.Close()
			lines = append(lines, fmt.Sprintf("read %d err notexist", o))
			continue
		}
		data, end := c08ReadAll(rd, o, r)
		rd.aof.Close()
		rd.Close()
		lines = append(lines, fmt.Sprintf("read %d %s %s", o, end, vfutil.Hex(data)))
		for k, b := range data {
			if b != c08Src(p.salt, o+int64(k)) {
				p.s.Violate("served-wrong-byte", fmt.Sprintf("%s: a verifying reader on the live index serves offset %d as %02x, the source sent %02x", what, o+int64(k), b, c08Src(p.salt, o+int64(k))), replay)
				break
			}
		}
		if alteredLeft >= 0 && o+int64(len(data)) > alteredLeft && len(data) > 0 && o < alteredLeft+int64(len(im[fmt.Sprintf("%d.aof", alteredLeft)])-headerSize) {
			p.s.Violate("altered-segment-accepted", fmt.Sprintf("%s: closed segment %d.aof was altered while the writer is at %d, a verifying reader opened at %d delivered %d bytes reaching into it", what, alteredLeft, w.left, o, len(data)), replay)
		}
		p.s.Add("mon_bytes_checked", len(data))
	}
	for i := range lines {
		lines[i] = fmt.Sprintf("#%d %s", p.opIdx, lines[i])
	}
	p.opIdx++
	var zs []string
	for _, z := range zombies {
		zs = append(zs, strconv.FormatInt(z, 10))
	}
	p.s.Op(fmt.Sprintf("c8v %d %s %s %s", w.left, vfDash(strings.Join(zs, ",")), vfDash(strings.Join(ps, ",")), im.String()), lines...)
	p.s.Count("live_verify_" + what)
}

// resume re-opens the image, continues the stream where the cache ends, runs
// the collector with a small limit, and re-opens once more: at every stage every
// byte served must be the source's byte (monitor only).
func (p *c08Parent) resume(im c08Image, script string) {
	p.n++
	root := filepath.Join(p.tmp, fmt.Sprintf("r%d", p.n))
	dir := filepath.Join(root, c08RunId)
	os.MkdirAll(dir, 0o777)
	for n, b := range im {
		os.WriteFile(filepath.Join(dir, n), b, 0o666)
	}
	defer os.RemoveAll(root)
	replay := map[string]interface{}{"image": im.String(), "at": "resume", "script": script, "salt": p.salt}
	check := func(st *Storer, stage string) {
		l, r := st.GetOffsetRange()
		if l < 0 || r <= l {
			return
		}
		rl, _ := st.GetRdb()
		from := l
		if rl == l && r > l { // a reader at the snapshot offset is a stream reader when a segment starts there
			from = l
		}
		rd, err := st.GetReader(from, false)
		if err != nil {
			p.s.Violate("valid-not-readable", fmt.Sprintf("%s: range [%d,%d], GetReader(%d) failed: %v", stage, l, r, from, err), replay)
			return
		}
		if !rd.IsAof() {
			rd.rdb.Close()
			rd.Close()
			return
		}
		data, end := c08ReadAll(rd, from, r)
		rd.aof.Close()
		rd.Close()
		if end != "eof" || int64(len(data)) != r-from {
			p.s.Violate("range-not-contiguous", fmt.Sprintf("%s: range [%d,%d], reading from %d gave %d bytes, end %s", stage, l, r, from, len(data), end), replay)
		}
		for k, b := range data {
			if b != c08Src(p.salt, from+int64(k)) {
				p.s.Violate("served-wrong-byte", fmt.Sprintf("%s: offset %d served as %02x, the source sent %02x", stage, from+int64(k), b, c08Src(p.salt, from+int64(k))), replay)
				break
			}
		}
		p.s.Add("mon_bytes_checked", len(data))
	}
	logSize := int64(48)
	st := NewStorer("vf", root, 3*logSize, logSize, config.FlushPolicy{})
	st.VerifStopCollector()
	if err := st.SetRunId(c08RunId); err != nil {
		return
	}
	off := st.LatestOffset()
	if off < 0 {
		return
	}
	w, err := st.GetAofWritter(nil, off)
	if err != nil {
		p.s.Count("note_resume_failed") // liveness of the writer is not C08's statement
		return
	}
	right := off
	for i := 0; i < 6; i++ {
		n := 1 + p.r.Intn(40)
		if err := w.write(c08SrcSeg(p.salt, right, n)); err != nil {
			p.s.Count("note_resume_failed")
			return
		}
		right += int64(n)
		if i%2 == 1 {
			st.VerifGcLog()
		}
		check(st, "resumed")
	}
	// verifying readers while the resumed writer is attached: segments it closed pass, what
	// the crash left torn is refused, its own segment is not verified; then a segment it closed
	// is altered on disk
	p.verifyLive(st, w, dir, script, "resumed", -1)
	{
		ents, _ := os.ReadDir(dir)
		var closed []string
		for _, e := range ents {
			if b, err := os.ReadFile(filepath.Join(dir, e.Name())); err == nil && strings.HasSuffix(e.Name(), ".aof") &&
				len(b) > headerSize && c08SegOk(b) && e.Name() != fmt.Sprintf("%d.aof", w.left) {
				closed = append(closed, e.Name())
			}
		}
		sort.Strings(closed)
		if len(closed) > 0 {
			name := closed[p.r.Intn(len(closed))]
			fn := filepath.Join(dir, name)
			orig, _ := os.ReadFile(fn)
			alt := append([]byte(nil), orig...)
			alt[headerSize+p.r.Intn(len(alt)-headerSize)] ^= byte(1 << p.r.Intn(8))
			os.WriteFile(fn, alt, 0o666)
			left, _ := strconv.ParseInt(strings.TrimSuffix(name, ".aof"), 10, 64)
			p.verifyLive(st, w, dir, script, "resumed_altered", left)
			os.WriteFile(fn, orig, 0o666)
		}
	}
	// a segment whose header rewrite FAILED while the process lives (descriptor closed underneath
	// the writer at its close: Seek fails, the close observer never runs): the index keeps
	// answering hasWriter for it, a verifying reader passes through it; a new writer goes on
	if p.r.Chance(1, 2) {
		zl := w.left
		if fi, err := os.Stat(w.filepath); err == nil && fi.Size() > headerSize {
			w.file.Close()
			w.Close()
			if w2, err := st.GetAofWritter(nil, right); err == nil {
				w = w2
				n := 1 + p.r.Intn(20)
				if err := w.write(c08SrcSeg(p.salt, right, n)); err == nil {
					right += int64(n)
					p.verifyLive(st, w, dir, script, "resumed_zombie", -1, zl)
					check(st, "after failed header rewrite")
				}
			}
		}
	}
	// the disk fails under the resumed writer (descriptor closed underneath it —
	// stands for EIO): nothing of the chunk is written, and the range must not grow
	if p.r.Chance(1, 2) {
		w.file.Close()
		n := 1 + p.r.Intn(40)
		if err := w.write(c08SrcSeg(p.salt, right, n)); err != nil {
			if _, rr := st.GetOffsetRange(); rr != right {
				p.s.Violate("range-claims-unwritten-bytes", fmt.Sprintf("a write of %d bytes at %d failed (%v), the cache reports its end at %d", n, right, err, rr), replay)
			}
			check(st, "after write fault")
			p.s.Count("aof_write_faults")
		}
	}
	// the process dies again (nothing closed); a third process opens the directory
	st2 := NewStorer("vf", root, 0, logSize, config.FlushPolicy{})
	st2.VerifStopCollector()
	if err := st2.SetRunId(c08RunId); err == nil {
		check(st2, "second restart")
		// C08 is a safety statement: discarding is allowed, claiming bytes that were
		// never written is not (retention is only noted)
		if _, r2 := st2.GetOffsetRange(); r2 > right {
			p.s.Violate("range-claims-unwritten-bytes", fmt.Sprintf("the resumed writer appended up to %d, after the second restart the cache reports its end at %d", right, r2), replay)
		} else if r2 != right {
			p.s.Count("note_resume_discarded_bytes")
		}
		// above the run-id directory: the source continues under a NEW replication id
		// (the directory is renamed), a further process finds it among several ids,
		// then the id is deleted: nothing of it may be served any more
		if p.r.Chance(1, 2) {
			newId := c08RunId + "b"
			if err := st2.SetRunId(newId); err != nil {
				p.s.Count("note_resume_failed")
			} else {
				check(st2, "renamed id")
				if _, r3 := st2.GetOffsetRange(); r3 > right {
					p.s.Violate("range-claims-unwritten-bytes", fmt.Sprintf("after the id change the cache reports its end at %d, it held bytes up to %d", r3, right), replay)
				} else if r3 != right {
					p.s.Count("note_resume_discarded_bytes")
				}
				st3 := NewStorer("vf", root, 0, logSize, config.FlushPolicy{})
				st3.VerifStopCollector()
				if off3, err := st3.VerifyRunId([]string{c08RunId, "?", newId}); err == nil {
					check(st3, "third restart")
					if off3 > right {
						p.s.Violate("range-claims-unwritten-bytes", fmt.Sprintf("VerifyRunId finds the renamed cache ending at %d, it held bytes up to %d", off3, right), replay)
					} else if off3 != right {
						p.s.Count("note_resume_discarded_bytes")
					}
				}
				st3.DelRunId(newId)
				for _, id := range []string{c08RunId, newId} {
					st4 := NewStorer("vf", root, 0, logSize, config.FlushPolicy{})
					st4.VerifStopCollector()
					if err := st4.SetRunId(id); err != nil {
						continue
					}
					l4, r4 := st4.GetOffsetRange()
					rl4, rs4 := st4.GetRdb()
					if r4 > l4 || rl4 >= 0 {
						// that a deleted cache is gone is C06/C16's statement, not C08's: noted only
						_ = rs4
						p.s.Count("note_deleted_cache_still_served")
					}
				}
				p.s.Count("id_changes")
			}
		}
	}
	w.Close()
	p.s.Count("resumed_images")
}

// c08ScanSnaps finds the snapshots a script writes completely.
func c08ScanSnaps(script string, out map[string][]byte) {
	var cur []byte
	var left, size int64 = -1, -1
	for _, op := range strings.Split(script, ";") {
		f := strings.Fields(op)
		if len(f) == 0 {
			continue
		}
		switch f[0] {
		case "drdbw":
			left, _ = strconv.ParseInt(f[1], 10, 64)
			size, _ = strconv.ParseInt(f[2], 10, 64)
			cur = nil
		case "drdba":
			cur = append(cur, vfutil.UnHex(f[1])...)
			if int64(len(cur)) == size {
				out[fmt.Sprintf("%d_%d.rdb", left, size)] = cur
			}
		}
	}
}
