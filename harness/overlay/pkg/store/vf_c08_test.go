//go:build verif

package store

// C08 — after an unclean stop the disk cache serves only bytes it truly holds.
//
// The real writers (RdbWriter, AofRotater, resetDataSet, gcLogs) are run in a
// child process (this test binary re-executed with VERIF_C08_CHILD=1) under
// strace; the file-level syscalls on the cache directory are the ground truth
// of "what the code does to the directory". The parent
//   (1) compares the syscall list op for op with the Lean model's `scriptOps`
//       for the same script, and
//   (2) materialises every prefix of it (= every instant at which the process
//       could have died) plus the last write torn to shorter lengths, as a fresh
//       directory, re-opens it with the real NewStorer/SetRunId/GetReader and
//       compares every answer and every byte with the model (`reopen`/`serve`)
//       and with the source bytes (monitor), with checksum verification off and on;
//   (3) alters closed segments of the final image (data byte, recorded size,
//       recorded checksum, length) and checks that a verifying reader refuses them.

import (
	"bufio"
	"encoding/binary"
	"errors"
	"fmt"
	"io"
	"os"
	"os/exec"
	"os/signal"
	"path/filepath"
	"regexp"
	"sort"
	"strconv"
	"strings"
	"syscall"
	"testing"
	"testing/synctest"
	"time"

	"github.com/mgtv-tech/redis-GunYu/config"
	"github.com/mgtv-tech/redis-GunYu/pkg/common"
	"github.com/mgtv-tech/redis-GunYu/pkg/digest"
	"github.com/mgtv-tech/redis-GunYu/pkg/vfutil"
)

const c08RunId = "idc8"

// ---------------------------------------------------------------- the source

func c08Mix(x uint64) uint64 {
	x ^= x >> 33
	x *= 0xff51afd7ed558ccd
	x ^= x >> 33
	x *= 0xc4ceb9fe1a85ec53
	x ^= x >> 33
	return x
}

// c08Src: the byte the source sent at a stream offset (one replication id).
func c08Src(salt uint64, off int64) byte { return byte(c08Mix(salt*0x9E3779B97F4A7C15 + uint64(off))) }

func c08SrcSeg(salt uint64, from int64, n int) []byte {
	b := make([]byte, n)
	for i := range b {
		b[i] = c08Src(salt, from+int64(i))
	}
	return b
}

// c08Snap: the bytes of the snapshot announced as (left, size).
func c08Snap(salt uint64, left, size int64) []byte {
	b := make([]byte, size)
	for i := range b {
		b[i] = byte(c08Mix(salt ^ uint64(left)*31 ^ uint64(size)*131 ^ uint64(i)*0x1234567))
	}
	// two thirds of the snapshots end with the RDB checksum footer (CRC64 of all
	// before, little endian), so that a verifying reader accepts them
	if size >= 9 && (salt+uint64(left)+uint64(size))%3 != 0 {
		c := digest.New()
		c.Write(b[:size-8])
		binary.LittleEndian.PutUint64(b[size-8:], c.Sum64())
	}
	return b
}

func c08FooterOk(b []byte) bool {
	if len(b) <= 8 {
		return true
	}
	c := digest.New()
	c.Write(b[:len(b)-8])
	return binary.LittleEndian.Uint64(b[len(b)-8:]) == c.Sum64()
}

func c08Crc(b []byte) uint64 {
	c := digest.New()
	c.Write(b)
	return c.Sum64()
}

// ---------------------------------------------------------------- child: run the real writers

func TestVerifC08Child(t *testing.T) {
	if os.Getenv("VERIF_C08_CHILD") == "" {
		t.Skip("only run as a child of TestVerifC08")
	}
	root := os.Getenv("VERIF_C08_ROOT")
	sb, err := os.ReadFile(os.Getenv("VERIF_C08_SCRIPT_FILE"))
	if err != nil {
		t.Fatal(err)
	}
	script := string(sb)
	var st *Storer
	var aofW *AofWriter
	var rdbW *RdbWriter
	var sr *vfStepReader
	for _, op := range strings.Split(script, ";") {
		f := strings.Fields(op)
		if len(f) == 0 {
			continue
		}
		num := func(i int) int64 { v, _ := strconv.ParseInt(f[i], 10, 64); return v }
		switch f[0] {
		case "dnew":
			st = NewStorer("vf", root, num(2), num(1), config.FlushPolicy{})
			st.VerifStopCollector()
		case "dsetrun":
			if err := st.SetRunId(f[1]); err != nil {
				t.Fatal(err)
			}
		case "drdbw":
			if sr != nil {
				close(sr.data)
			}
			sr = newVfStepReader()
			w, err := st.GetRdbWriter(sr, num(1), num(2))
			if err != nil {
				t.Fatal(err)
			}
			rdbW, aofW = w, nil
			w.Start()
			<-sr.req
		case "drdba":
			sr.data <- vfutil.UnHex(f[1])
			select {
			case <-sr.req:
			case <-rdbW.wait.Context().Done():
				close(sr.data)
				sr, rdbW = nil, nil
			}
		case "drdbc":
			rdbW.Close()
			close(sr.data)
			sr, rdbW = nil, nil
		case "drdbx":
			// the chunk is RECEIVED (Read returns it) but the writer is stopped
			// before it is written: write() and close() both need rdbW.mux, which the
			// harness holds until Close() has marked the writer closed — whichever of
			// the two then runs first, the chunk never reaches the file
			rdbW.mux.Lock()
			sr.data <- vfutil.UnHex(f[1])
			w := rdbW
			go w.Close()
			for !w.wait.IsClosed() {
				time.Sleep(100 * time.Microsecond)
			}
			time.Sleep(2 * time.Millisecond)
			w.mux.Unlock()
			<-w.wait.Context().Done()
			close(sr.data)
			sr, rdbW = nil, nil
		case "drdbf":
			// the chunk is received but its file write fails (descriptor closed
			// underneath the writer — stands for EIO/ENOSPC)
			rdbW.writer.Close()
			w := rdbW
			sr.data <- vfutil.UnHex(f[1])
			<-w.wait.Context().Done()
			close(sr.data)
			sr, rdbW = nil, nil
		case "daofw":
			w, err := st.GetAofWritter(nil, num(1))
			if err != nil {
				t.Fatal(err)
			}
			aofW = w
		case "daofa":
			if err := aofW.write(vfutil.UnHex(f[1])); err != nil {
				t.Fatal(err)
			}
		case "daofc":
			aofW.Close()
			aofW = nil
		case "daofx":
			// the disk fills up under the stream writer: only the first k bytes of the
			// chunk reach the file (RLIMIT_FSIZE stands for ENOSPC: write returns k,
			// then fails), the writer ends as ingest() ends it
			k := num(1)
			signal.Ignore(syscall.SIGXFSZ)
			var old syscall.Rlimit
			syscall.Getrlimit(syscall.RLIMIT_FSIZE, &old)
			lim := old
			lim.Cur = uint64(aofW.filesize + k)
			syscall.Setrlimit(syscall.RLIMIT_FSIZE, &lim)
			err := aofW.write(vfutil.UnHex(f[2]))
			syscall.Setrlimit(syscall.RLIMIT_FSIZE, &old)
			if err == nil {
				os.WriteFile(filepath.Join(root, "violation.txt"), []byte("fault-not-injected|the short write was not injected"), 0o644)
			}
			// at RUNTIME, before any death: the range must not claim bytes that are in no file
			if fi, e := os.Stat(aofW.filepath); e == nil {
				_, r := st.GetOffsetRange()
				if held := aofW.left + fi.Size() - headerSize; r != held {
					os.WriteFile(filepath.Join(root, "violation.txt"), []byte(fmt.Sprintf(
						"range-claims-unwritten-bytes|after a short write (%d of %d bytes) the cache reports its end at %d, the files hold bytes up to %d",
						k, len(vfutil.UnHex(f[2])), r, held)), 0o644)
				}
			}
			aofW.Close()
			aofW = nil
		case "dgc":
			st.VerifGcLog()
		}
	}
	// the process "dies" here: nothing is closed
}

// ---------------------------------------------------------------- file-level operations

type c08Op struct {
	kind string // create | append | pwrite | truncate | rename | remove
	name string
	to   string
	off  int64 // pwrite: file offset; truncate: new length
	data []byte
}

func (o c08Op) String() string {
	switch o.kind {
	case "create", "remove":
		return o.kind + " " + o.name
	case "rename":
		return "rename " + o.name + " " + o.to
	case "truncate":
		return fmt.Sprintf("truncate %s %d", o.name, o.off)
	case "pwrite":
		if o.off != 0 { // the model knows header rewrites (offset 0) only: anything else is a DIFF of the tie
			return fmt.Sprintf("pwriteat %s %d %s", o.name, o.off, vfutil.Hex(o.data))
		}
		return "pwrite " + o.name + " " + vfutil.Hex(o.data)
	default:
		return o.kind + " " + o.name + " " + vfutil.Hex(o.data)
	}
}

type c08Image map[string][]byte

func (im c08Image) clone() c08Image {
	c := c08Image{}
	for k, v := range im {
		c[k] = append([]byte(nil), v...)
	}
	return c
}

func (im c08Image) apply(o c08Op) {
	switch o.kind {
	case "create":
		im[o.name] = []byte{}
	case "append":
		if c, ok := im[o.name]; ok {
			im[o.name] = append(append([]byte(nil), c...), o.data...)
		}
	case "pwrite":
		if c, ok := im[o.name]; ok {
			n := append([]byte(nil), c...)
			for int64(len(n)) < o.off+int64(len(o.data)) {
				n = append(n, 0)
			}
			copy(n[o.off:], o.data)
			im[o.name] = n
		}
	case "truncate":
		if c, ok := im[o.name]; ok {
			n := append([]byte(nil), c...)
			for int64(len(n)) < o.off {
				n = append(n, 0)
			}
			im[o.name] = n[:o.off]
		}
	case "rename":
		if c, ok := im[o.name]; ok {
			delete(im, o.name)
			im[o.to] = c
		}
	case "remove":
		delete(im, o.name)
	}
}

func (im c08Image) String() string {
	var names []string
	for n := range im {
		names = append(names, n)
	}
	sort.Strings(names)
	var parts []string
	for _, n := range names {
		parts = append(parts, n+"="+vfutil.Hex(im[n]))
	}
	if len(parts) == 0 {
		return "."
	}
	return strings.Join(parts, ",")
}

// ---------------------------------------------------------------- strace

var (
	c08LineRe  = regexp.MustCompile(`^(\d+)\s+(.*)$`)
	c08FdRe    = regexp.MustCompile(`^(\d+)<([^>]*)>`)
	c08RetFdRe = regexp.MustCompile(`=\s*(\d+)<([^>]*)>\s*$`)
	c08RetNRe  = regexp.MustCompile(`\)\s*=\s*(\d+)\s*$`)
	c08OkRe    = regexp.MustCompile(`\)\s*=\s*\d+(<[^>]*>)?\s*$`)
)

func c08Unescape(s string) []byte {
	var out []byte
	for i := 0; i < len(s); {
		if s[i] == '\\' && i+3 < len(s) && s[i+1] == 'x' {
			v, _ := strconv.ParseUint(s[i+2:i+4], 16, 8)
			out = append(out, byte(v))
			i += 4
		} else {
			out = append(out, s[i])
			i++
		}
	}
	return out
}

// c08Strings returns the quoted string arguments of a syscall line.
func c08Strings(args string) [][]byte {
	var res [][]byte
	for {
		i := strings.IndexByte(args, '"')
		if i < 0 {
			return res
		}
		j := strings.IndexByte(args[i+1:], '"')
		if j < 0 {
			return res
		}
		res = append(res, c08Unescape(args[i+1:i+1+j]))
		args = args[i+2+j:]
	}
}

// c08ParseTrace turns the strace log into file-level operations on dir.
func c08ParseTrace(path, dir string) ([]c08Op, error) {
	f, err := os.Open(path)
	if err != nil {
		return nil, err
	}
	defer f.Close()
	sc := bufio.NewScanner(f)
	sc.Buffer(make([]byte, 1<<20), 1<<26)
	pending := map[string]string{}
	type fdState struct {
		name   string
		off    int64
		append bool
	}
	fds := map[int]*fdState{}
	sizes := map[string]int64{}
	var ops []c08Op
	inDir := func(p string) (string, bool) {
		if filepath.Dir(p) == dir {
			return filepath.Base(p), true
		}
		return "", false
	}
	// whatever write syscall the code uses: the bytes land at an offset of a file
	writeAt := func(st *fdState, off int64, data []byte) {
		if off == sizes[st.name] {
			ops = append(ops, c08Op{kind: "append", name: st.name, data: data})
		} else {
			ops = append(ops, c08Op{kind: "pwrite", name: st.name, off: off, data: data})
		}
		if end := off + int64(len(data)); end > sizes[st.name] {
			sizes[st.name] = end
		}
	}
	for sc.Scan() {
		m := c08LineRe.FindStringSubmatch(sc.Text())
		if m == nil {
			continue
		}
		pid, rest := m[1], m[2]
		if strings.HasSuffix(rest, "<unfinished ...>") {
			pending[pid] = strings.TrimSuffix(rest, "<unfinished ...>")
			continue
		}
		if strings.HasPrefix(rest, "<... ") {
			i := strings.Index(rest, "resumed>")
			if i < 0 {
				continue
			}
			rest = pending[pid] + rest[i+len("resumed>"):]
			delete(pending, pid)
		}
		p := strings.IndexByte(rest, '(')
		if p < 0 {
			continue
		}
		name, args := rest[:p], rest[p+1:]
		// successful calls only ("= <n>" or "= <fd><path>"; resumed lines pad with blanks)
		ok := c08OkRe.MatchString(rest)
		if !ok {
			continue
		}
		retN := int64(-1)
		if rm := c08RetNRe.FindStringSubmatch(rest); rm != nil {
			retN, _ = strconv.ParseInt(rm[1], 10, 64)
		}
		// the last plain argument (offset of pwrite64/pwritev, length of ftruncate)
		lastArg := func() int64 {
			q := strings.LastIndexByte(rest, ')')
			if q < 0 {
				return -1
			}
			parts := strings.Split(rest[p+1:q], ",")
			v, err := strconv.ParseInt(strings.TrimSpace(parts[len(parts)-1]), 10, 64)
			if err != nil {
				return -1
			}
			return v
		}
		fdOf := func() *fdState {
			fm := c08FdRe.FindStringSubmatch(args)
			if fm == nil {
				return nil
			}
			fd, _ := strconv.Atoi(fm[1])
			return fds[fd]
		}
		payload := func() []byte { // all buffers of the call, cut to what was written
			fm := c08FdRe.FindStringSubmatch(args)
			var data []byte
			for _, b := range c08Strings(args[len(fm[0]):]) {
				data = append(data, b...)
			}
			if retN >= 0 && retN < int64(len(data)) {
				data = data[:retN] // short write
			}
			return data
		}
		switch name {
		case "openat":
			rm := c08RetFdRe.FindStringSubmatch(rest)
			if rm == nil {
				continue
			}
			fd, _ := strconv.Atoi(rm[1])
			base, in := inDir(string(c08Unescape(rm[2])))
			if !in {
				delete(fds, fd)
				continue
			}
			fds[fd] = &fdState{name: base, append: strings.Contains(args, "O_APPEND")}
			_, exists := sizes[base]
			if strings.Contains(args, "O_TRUNC") && (exists || strings.Contains(args, "O_CREAT")) ||
				strings.Contains(args, "O_CREAT") && !exists {
				ops = append(ops, c08Op{kind: "create", name: base})
				sizes[base] = 0
			}
		case "write", "writev":
			st := fdOf()
			if st == nil {
				continue
			}
			data := payload()
			if len(data) == 0 {
				continue
			}
			if st.append {
				st.off = sizes[st.name]
			}
			writeAt(st, st.off, data)
			st.off += int64(len(data))
		case "pwrite64", "pwritev", "pwritev2":
			st := fdOf()
			if st == nil {
				continue
			}
			data := payload()
			off := lastArg()
			if name == "pwritev2" { // (fd, iov, cnt, offset, flags)
				q := strings.LastIndexByte(rest, ')')
				parts := strings.Split(rest[p+1:q], ",")
				if len(parts) >= 2 {
					off, _ = strconv.ParseInt(strings.TrimSpace(parts[len(parts)-2]), 10, 64)
				}
			}
			if len(data) == 0 || off < 0 {
				continue
			}
			writeAt(st, off, data)
		case "ftruncate":
			st := fdOf()
			if st == nil {
				continue
			}
			if n := lastArg(); n >= 0 && n != sizes[st.name] {
				ops = append(ops, c08Op{kind: "truncate", name: st.name, off: n})
				sizes[st.name] = n
			}
		case "lseek":
			if st := fdOf(); st != nil && retN >= 0 {
				st.off = retN // the resulting position, whatever the whence
			}
		case "close":
			fm := c08FdRe.FindStringSubmatch(args)
			if fm != nil {
				fd, _ := strconv.Atoi(fm[1])
				delete(fds, fd)
			}
		case "renameat", "renameat2", "rename":
			strs := c08Strings(args)
			if len(strs) >= 2 {
				a, ina := inDir(string(strs[0]))
				b, inb := inDir(string(strs[1]))
				if ina && inb {
					ops = append(ops, c08Op{kind: "rename", name: a, to: b})
					sizes[b] = sizes[a]
					delete(sizes, a)
				}
			}
		case "unlinkat", "unlink":
			strs := c08Strings(args)
			if len(strs) >= 1 {
				p := string(strs[0])
				if !filepath.IsAbs(p) {
					if fm := regexp.MustCompile(`^\d+<([^>]*)>`).FindStringSubmatch(args); fm != nil {
						p = filepath.Join(string(c08Unescape(fm[1])), p)
					}
				}
				if a, in := inDir(p); in {
					ops = append(ops, c08Op{kind: "remove", name: a})
					delete(sizes, a)
				}
			}
		}
	}
	return ops, nil
}

// ---------------------------------------------------------------- re-opening an image with the real code

type c08Seen struct {
	l, r, rl, rs int64
	valid        string
	reads        []string
}

func c08ErrClass(err error) string {
	switch {
	case err == nil:
		return "ok"
	case errors.Is(err, common.ErrCorrupted):
		return "corrupt"
	case errors.Is(err, os.ErrNotExist):
		return "notexist"
	default:
		return "other"
	}
}

// c08ReadAll reads from an AOF reader until `right` is reached or it fails.
func c08ReadAll(rd *Reader, from, right int64) ([]byte, string) {
	var out []byte
	pos := from
	buf := make([]byte, 4096)
	for pos < right {
		n, err := rd.aof.read(buf)
		if n > 0 {
			out = append(out, buf[:n]...)
			pos += int64(n)
		}
		if err != nil {
			return out, c08ErrClass(err)
		}
	}
	return out, "eof"
}

type c08Parent struct {
	s           *vfutil.Session
	r           *vfutil.Rand
	tmp         string
	n           int
	salt        uint64
	snap        map[string][]byte // name of every snapshot completely written -> bytes
	big         bool              // production-size script: sample the crash instants
	alteredSnap string            // name of the snapshot file altered in the image being re-opened
	opIdx       int
}

// reopen materialises the image, opens it with the real Storer and records
// what it answers; the monitor checks the answers against the source.
func (p *c08Parent) reopen(im c08Image, verify bool, what string, script string) {
	p.reopenAlt(im, verify, what, script, -1, -1)
}

// reopenAlt: alteredLeft >= 0 names the segment whose file was altered (a
// verifying reader must not deliver a single byte of it).
func (p *c08Parent) reopenAlt(im c08Image, verify bool, what string, script string, alteredLeft, alteredRight int64) {
	alteredSnap := p.alteredSnap
	p.n++
	root := filepath.Join(p.tmp, fmt.Sprintf("i%d", p.n))
	dir := filepath.Join(root, c08RunId)
	os.MkdirAll(dir, 0o777)
	for n, b := range im {
		os.WriteFile(filepath.Join(dir, n), b, 0o666)
	}
	defer os.RemoveAll(root)
	st := NewStorer("vf", root, 0, 1<<20, config.FlushPolicy{})
	st.VerifStopCollector()
	if err := st.SetRunId(c08RunId); err != nil {
		p.s.Violate("reopen-failed", err.Error(), map[string]interface{}{"image": im.String(), "script": script})
		return
	}
	l, r := st.GetOffsetRange()
	rl, rs := st.GetRdb()
	v := 0
	if verify {
		v = 1
	}
	replay := map[string]interface{}{"image": im.String(), "verify": v, "at": what, "script": script}

	// probes: edges of the range, one inside, around the snapshot
	set := map[int64]struct{}{}
	add := func(x int64) {
		for _, y := range []int64{x - 1, x, x + 1} {
			if y >= 0 {
				set[y] = struct{}{}
			}
		}
	}
	if l >= 0 {
		add(l)
		add(r)
		add((l + r) / 2)
	}
	if rl >= 0 {
		add(rl)
	}
	var probes []int64
	for k := range set {
		probes = append(probes, k)
	}
	sort.Slice(probes, func(i, j int) bool { return probes[i] < probes[j] })
	bits := make([]byte, len(probes))
	ps := make([]string, len(probes))
	for i, o := range probes {
		ps[i] = strconv.FormatInt(o, 10)
		bits[i] = '0'
		if st.IsValidOffset(o) {
			bits[i] = '1'
		}
	}
	lines := []string{fmt.Sprintf("range=%d,%d rdb=%d,%d valid=%s", l, r, rl, rs, vfDash(string(bits)))}

	// ---- monitor: a snapshot is offered only if it was completely received
	if rl != -1 || rs != -1 {
		name := fmt.Sprintf("%d_%d.rdb", rl, rs)
		want, ok := p.snap[name]
		got, have := im[name]
		if p.alteredSnap == name {
			// deliberately altered: offered (by name), must be refused by verification
		} else if !ok || !have || string(got) != string(want) || int64(len(got)) != rs {
			p.s.Violate("incomplete-snapshot-offered", fmt.Sprintf("GetRdb()=(%d,%d) but the image holds %d bytes of it (completely written: %v)", rl, rs, len(got), ok), replay)
		}
		p.s.Count("mon_snapshot_offered")
	}
	// ---- readers at every probe that is valid and inside the stream range
	for i, o := range probes {
		if bits[i] != '1' {
			continue
		}
		rd, err := st.GetReader(o, verify)
		if err != nil {
			lines = append(lines, fmt.Sprintf("read %d err %s", o, c08ErrClass(err)))
			if !(verify && errors.Is(err, common.ErrCorrupted)) {
				p.s.Violate("valid-not-readable", fmt.Sprintf("IsValidOffset(%d)=true after re-opening, GetReader(%d,verify=%v) failed: %v", o, o, verify, err), replay)
			}
			continue
		}
		if !rd.IsAof() {
			// read the snapshot through the real RdbReader, to its announced size
			var sb []byte
			buf := make([]byte, 8192)
			for int64(len(sb)) < rd.Size() {
				if rem := rd.Size() - int64(len(sb)); rem < int64(len(buf)) {
					buf = buf[:rem]
				}
				n, err := rd.rdb.read(buf)
				sb = append(sb, buf[:n]...)
				if err != nil || n == 0 {
					break
				}
			}
			lines = append(lines, fmt.Sprintf("read %d rdb %d %d got %d crc %d", o, rd.Left(), rd.Size(), len(sb), c08Crc(sb)))
			rd.rdb.Close()
			rd.Close()
			name := fmt.Sprintf("%d_%d.rdb", rd.Left(), rd.Size())
			if want, ok := p.snap[name]; !ok || string(want) != string(sb) {
				p.s.Violate("snapshot-bytes-wrong", fmt.Sprintf("snapshot reader for %s delivered %d bytes that are not the %d bytes received (completely written: %v)", name, len(sb), len(want), ok), replay)
			}
			if verify && alteredSnap != "" && name == alteredSnap {
				p.s.Violate("altered-snapshot-accepted", fmt.Sprintf("%s was altered (%s) but a verifying reader accepted it", name, what), replay)
			}
			p.s.Add("mon_snapshot_bytes_checked", len(sb))
			continue
		}
		data, end := c08ReadAll(rd, o, r)
		rd.aof.Close()
		rd.Close()
		lines = append(lines, fmt.Sprintf("read %d %s %s", o, end, vfutil.Hex(data)))
		p.s.Add("mon_bytes_checked", len(data))
		// ---- monitor: every byte served at offset x is the source's byte at x
		for k, b := range data {
			if b != c08Src(p.salt, o+int64(k)) {
				p.s.Violate("served-wrong-byte", fmt.Sprintf("after re-opening, offset %d is served as %02x, the source sent %02x", o+int64(k), b, c08Src(p.salt, o+int64(k))), replay)
				break
			}
		}
		// ---- monitor: a verifying reader delivers nothing from an altered closed segment
		if verify && alteredLeft >= 0 && o < alteredRight && o+int64(len(data)) > alteredLeft && len(data) > 0 {
			p.s.Violate("altered-segment-accepted", fmt.Sprintf("segment %d.aof was altered (%s) but a verifying reader opened at %d delivered %d bytes reaching into it", alteredLeft, what, o, len(data)), replay)
		}
		// ---- monitor: the reported range is one contiguous range of held bytes
		if !verify && (end != "eof" || int64(len(data)) != r-o) {
			p.s.Violate("range-not-contiguous", fmt.Sprintf("range [%d,%d] reported, reading from %d gave %d bytes and ended with %s", l, r, o, len(data), end), replay)
		}
	}
	for i := range lines {
		lines[i] = fmt.Sprintf("#%d %s", p.opIdx, lines[i])
	}
	p.opIdx++
	p.s.Op(fmt.Sprintf("c8r %d %s %s", v, vfDash(strings.Join(ps, ",")), im.String()), lines...)
	p.s.Count("images_" + what)
	if len(im) >= 2 {
		p.s.Distinct(im.String())
	}
}

// ---------------------------------------------------------------- scripts

type c08Script struct {
	ops []string
}

// genBigScript: production-size pieces — a snapshot of more than 3 x 8 KiB with
// a checksum footer, segments of more than 3 x 4 KiB (every 4096/8192-byte loop of
// the code runs several iterations), closed segments and the snapshot in the final image.
func (p *c08Parent) genBigScript(r *vfutil.Rand) string {
	logSize := int64(12500 + r.Intn(4000))
	ops := []string{fmt.Sprintf("dnew %d 0", logSize), "dsetrun " + c08RunId}
	p.snap = map[string][]byte{}
	left := int64(1000 + r.Intn(9000))
	size := int64(25000 + r.Intn(9000))
	for (p.salt+uint64(left)+uint64(size))%3 == 0 {
		size++
	}
	b := c08Snap(p.salt, left, size)
	ops = append(ops, fmt.Sprintf("drdbw %d %d", left, size))
	for at := int64(0); at < size; {
		c := int64(2000 + r.Intn(6000))
		if at+c > size {
			c = size - at
		}
		ops = append(ops, "drdba "+vfutil.Hex(b[at:at+c]))
		at += c
	}
	p.snap[fmt.Sprintf("%d_%d.rdb", left, size)] = b
	ops = append(ops, fmt.Sprintf("daofw %d", left))
	right := left
	for i := 0; i < 7; i++ {
		c := 3000 + r.Intn(3000)
		ops = append(ops, "daofa "+vfutil.Hex(c08SrcSeg(p.salt, right, c)))
		right += int64(c)
	}
	ops = append(ops, "daofc")
	return strings.Join(ops, " ; ")
}

func (p *c08Parent) genScript(r *vfutil.Rand) (string, int64, int64) {
	logSize := int64(vfutil.Pick(r, []int{24, 32, 48, 64}))
	maxSize := logSize * int64(2+r.Intn(4))
	if r.Chance(1, 5) {
		maxSize = 0
	}
	ops := []string{fmt.Sprintf("dnew %d %d", logSize, maxSize), "dsetrun " + c08RunId}
	p.snap = map[string][]byte{}
	var right int64 = -1 // end of the held stream; -1: nothing held
	var snapLeft int64 = -1
	aofOpen := false
	var fill int64 // data bytes in the live segment
	n := 6 + r.Intn(18)
	for i := 0; i < n; i++ {
		switch k := r.Intn(100); {
		case k < 12 || (right < 0 && snapLeft < 0 && k < 40): // snapshot
			left := int64(100 + r.Intn(900))
			size := int64(1 + r.Intn(60))
			ops = append(ops, fmt.Sprintf("drdbw %d %d", left, size))
			b := c08Snap(p.salt, left, size)
			// how the snapshot ends: 0 complete; 1 cut short and closed; 2 the LAST
			// chunk is received but the writer is stopped before writing it; 3 the
			// last chunk's file write fails; 4/5 the same for an earlier chunk
			mode := 0
			if r.Chance(1, 2) {
				mode = 1 + r.Intn(5)
			}
			var chunks [][]byte
			for at := int64(0); at < size; {
				c := int64(1 + r.Intn(int(size-at)))
				chunks = append(chunks, b[at:at+c])
				at += c
			}
			done := false
			for i, c := range chunks {
				last := i == len(chunks)-1
				switch {
				case mode == 1 && last:
					if len(c) > 1 {
						ops = append(ops, "drdba "+vfutil.Hex(c[:len(c)-1]))
					}
					ops = append(ops, "drdbc")
					done = true
				case mode == 2 && last, mode == 4 && (i == len(chunks)/2):
					ops = append(ops, "drdbx "+vfutil.Hex(c))
					done = true
				case mode == 3 && last, mode == 5 && (i == len(chunks)/2):
					ops = append(ops, "drdbf "+vfutil.Hex(c))
					done = true
				default:
					ops = append(ops, "drdba "+vfutil.Hex(c))
				}
				if done {
					break
				}
			}
			if !done {
				p.snap[fmt.Sprintf("%d_%d.rdb", left, size)] = b
				snapLeft = left
			} else {
				snapLeft = -1
				p.s.Count(fmt.Sprintf("snapshot_end_mode_%d", mode))
			}
			right = -1
			aofOpen = false
		case k < 70: // stream bytes
			if !aofOpen {
				off := right
				if off < 0 {
					off = snapLeft
				}
				if off < 0 {
					off = int64(100 + r.Intn(900))
				}
				ops = append(ops, fmt.Sprintf("daofw %d", off))
				right = off
				aofOpen = true
				fill = 0
			}
			c := 1 + r.Intn(int(logSize))
			if room := logSize - headerSize - fill; c >= 2 && room >= 1 && r.Chance(1, 7) {
				// short write (the disk fills up): k < c bytes reach the file, no rotation
				k := int64(1 + r.Intn(c-1))
				if k > room {
					k = room
				}
				ops = append(ops, fmt.Sprintf("daofx %d %s", k, vfutil.Hex(c08SrcSeg(p.salt, right, c))))
				right += k
				aofOpen = false
				p.s.Count("aof_short_writes")
				break
			}
			ops = append(ops, "daofa "+vfutil.Hex(c08SrcSeg(p.salt, right, c)))
			right += int64(c)
			fill += int64(c)
			if headerSize+fill > logSize {
				fill = 0
			}
		case k < 80:
			if aofOpen {
				ops = append(ops, "daofc")
				aofOpen = false
			}
		default:
			ops = append(ops, "dgc")
		}
	}
	return strings.Join(ops, " ; "), logSize, maxSize
}

func TestVerifC08(t *testing.T) {
	s := vfutil.NewSession("C08")
	defer s.Close()
	if _, err := exec.LookPath("strace"); err != nil {
		t.Fatalf("C08 harness infrastructure (no statement about the cache): strace is not available, the syscall-level tie cannot run")
	}
	p := &c08Parent{s: s, r: vfutil.NewRand(vfutil.Seed() + 8), tmp: t.TempDir()}
	cur := ""
	wd := vfWatchdog(s, time.Duration(vfutil.Scale(150, 1500))*time.Second, func() string { return cur })
	defer wd.Stop()

	// runChild runs the script with the real writers under strace and returns the
	// file operations of the trace. Everything that can go wrong HERE is a failure
	// of the harness' infrastructure (strace, the child process, the trace parser),
	// never a behaviour of the cache: it is retried and then reported as a broken
	// tie (test failure), not as a violation with a failing input.
	runChild := func(script string) (ops []c08Op, viol string, err error) {
		root := filepath.Join(p.tmp, fmt.Sprintf("w%d", p.n))
		p.n++
		os.MkdirAll(root, 0o777)
		defer os.RemoveAll(root)
		trace := filepath.Join(root, "trace.txt")
		scriptFile := filepath.Join(root, "script.txt") // not in the environment: one env string is limited to 128 KiB
		if err := os.WriteFile(scriptFile, []byte(script), 0o644); err != nil {
			return nil, "", err
		}
		cmd := exec.Command("strace", "-f", "-y", "-s", "1000000", "-xx",
			"-e", "trace=openat,write,writev,pwrite64,pwritev,pwritev2,ftruncate,lseek,close,rename,renameat,renameat2,unlink,unlinkat",
			"-o", trace, os.Args[0], "-test.run", "^TestVerifC08Child$")
		cmd.Env = append(os.Environ(), "VERIF_C08_CHILD=1", "VERIF_C08_ROOT="+root, "VERIF_C08_SCRIPT_FILE="+scriptFile,
			"VERIF_OUT="+filepath.Join(root, "out"))
		if out, err := cmd.CombinedOutput(); err != nil {
			return nil, "", fmt.Errorf("child failed: %v: %s", err, out)
		}
		if b, err := os.ReadFile(filepath.Join(root, "violation.txt")); err == nil {
			viol = string(b)
		}
		dir := filepath.Join(root, c08RunId)
		ops, err = c08ParseTrace(trace, dir)
		if err != nil {
			return nil, "", fmt.Errorf("trace not parsed: %v", err)
		}
		// sanity of trace and parser: the operations of the trace, applied to an empty
		// directory, must give exactly the directory the child left behind — a write
		// that strace did not show or the parser did not understand (a lost line, a
		// syscall outside the filter) must not pass as a behaviour of the code
		im := c08Image{}
		for _, o := range ops {
			im.apply(o)
		}
		ents, _ := os.ReadDir(dir)
		real := c08Image{}
		for _, e := range ents {
			b, _ := os.ReadFile(filepath.Join(dir, e.Name()))
			real[e.Name()] = b
		}
		if im.String() != real.String() {
			if keep := os.Getenv("VERIF_C08_KEEP"); keep != "" {
				b, _ := os.ReadFile(trace)
				os.WriteFile(keep, b, 0o644)
			}
			var bad []string
			for n := range real {
				if string(im[n]) != string(real[n]) {
					bad = append(bad, fmt.Sprintf("%s (trace %d bytes, directory %d bytes)", n, len(im[n]), len(real[n])))
				}
			}
			for n := range im {
				if _, ok := real[n]; !ok {
					bad = append(bad, n+" (in the trace only)")
				}
			}
			sort.Strings(bad)
			return nil, "", fmt.Errorf("the parsed trace does not reproduce the directory the child left: %s", strings.Join(bad, ", "))
		}
		return ops, viol, nil
	}

	runCase := func(script string, salt uint64, src string) {
		cur = script
		p.salt = salt
		var ops []c08Op
		var viol string
		var err error
		for attempt := 0; attempt < 3; attempt++ {
			if ops, viol, err = runChild(script); err == nil {
				break
			}
			s.Count("infra_retries")
		}
		if err != nil {
			s.Count("infra_failures")
			t.Errorf("C08 harness infrastructure (no statement about the cache): %v", err)
			return
		}
		if viol != "" {
			kv := strings.SplitN(viol, "|", 2)
			if kv[0] == "fault-not-injected" {
				s.Count("infra_failures")
				t.Errorf("C08 harness infrastructure (no statement about the cache): %s", kv[1])
				return
			}
			s.Violate(kv[0], kv[1], map[string]interface{}{"script": script})
		}
		// (1) the writers' file operations, op for op
		lines := make([]string, len(ops))
		for i, o := range ops {
			lines[i] = o.String()
		}
		lines = append(lines, "end")
		for i := range lines {
			lines[i] = fmt.Sprintf("#%d %s", p.opIdx, lines[i])
		}
		p.opIdx++
		s.Op(fmt.Sprintf("c8w %d %s", salt, script), lines...)
		s.Add("file_ops", len(ops))
		s.Count("scripts_" + src)
		// (2) every crash instant — inside a synctest bubble: the reader's 10 ms
		// sleeps at every segment change are virtual there
		synctest.Test(t, func(t *testing.T) { p.crashImages(ops, script) })
	}

	for _, l := range vfutil.Corpus("C08") {
		f := strings.SplitN(l, " ", 2)
		if len(f) == 2 {
			salt, _ := strconv.ParseUint(f[0], 10, 64)
			// corpus scripts carry their own bytes; snapshots completely written are recomputed
			p.snap = map[string][]byte{}
			c08ScanSnaps(f[1], p.snap)
			runCase(f[1], salt, "corpus")
		}
	}
	cases := vfutil.Scale(12, 150)
	if v, err := strconv.Atoi(os.Getenv("VERIF_CASES")); err == nil {
		cases = v
	}
	for c := 0; c < cases; c++ {
		salt := p.r.U64() % 1000000
		p.salt = salt
		script, _, _ := p.genScript(p.r)
		runCase(script, salt, "gen")
	}
	for c := 0; c < vfutil.Scale(1, 6); c++ {
		salt := p.r.U64() % 1000000
		p.salt = salt
		p.big = true
		runCase(p.genBigScript(p.r), salt, "big")
		p.big = false
	}
	_ = io.EOF
}

func (p *c08Parent) crashImages(ops []c08Op, script string) {
	s := p.s
	{
		im := c08Image{}
		p.reopen(im.clone(), false, "prefix", script)
		for i, o := range ops {
			if (o.kind == "append" || o.kind == "pwrite") && len(o.data) > 1 {
				cuts := []int{1, len(o.data) / 2, len(o.data) - 1}
				if p.big {
					cuts = []int{len(o.data) / 2}
				}
				for _, k := range cuts {
					if k <= 0 || k >= len(o.data) {
						continue
					}
					torn := im.clone()
					torn.apply(c08Op{kind: o.kind, name: o.name, data: o.data[:k]})
					p.reopen(torn, false, "torn", script)
					p.reopen(torn, true, "torn", script)
				}
			}
			im.apply(o)
			p.reopen(im.clone(), false, "prefix", script)
			if !p.big || i%3 == 0 || i == len(ops)-1 {
				p.reopen(im.clone(), true, "prefix", script)
			}
		}
		// (3) alterations of closed segments of the final image (sorted: the draws from
		// the seeded generator must not depend on map order)
		var imNames []string
		for n := range im {
			imNames = append(imNames, n)
		}
		sort.Strings(imNames)
		for _, name := range imNames {
			b := im[name]
			if !strings.HasSuffix(name, ".aof") || len(b) <= headerSize || b[9] == 0 && b[10] == 0 && b[1] == 0 {
				continue // not a closed segment
			}
			alter := func(what string, f func(c []byte) []byte) {
				a := im.clone()
				a[name] = f(append([]byte(nil), b...))
				left, _ := strconv.ParseInt(strings.TrimSuffix(name, ".aof"), 10, 64)
				p.reopenAlt(a, true, "altered_"+what, script, left, left+int64(len(b)-headerSize))
				s.Count("alterations")
			}
			alter("data", func(c []byte) []byte { c[headerSize+p.r.Intn(len(c)-headerSize)] ^= byte(1 << p.r.Intn(8)); return c })
			// in the LAST piece of the verification loop (4096-byte reads)
			alter("data_last_piece", func(c []byte) []byte {
				tail := (len(c) - headerSize - 1) % 4096
				c[len(c)-1-p.r.Intn(tail+1)] ^= byte(1 << p.r.Intn(8))
				return c
			})
			alter("size", func(c []byte) []byte {
				binary.LittleEndian.PutUint32(c[9:], binary.LittleEndian.Uint32(c[9:])+1)
				return c
			})
			alter("crc", func(c []byte) []byte { c[1+p.r.Intn(8)] ^= byte(1 << p.r.Intn(8)); return c })
			alter("truncated", func(c []byte) []byte { return c[:len(c)-1] })
			alter("extended", func(c []byte) []byte { return append(c, 0x5a) })
		}
		// (4) alterations of a committed snapshot that carries a checksum footer
		for _, name := range imNames {
			b := im[name]
			if !strings.HasSuffix(name, ".rdb") || len(b) <= 8 || !c08FooterOk(b) {
				continue
			}
			alterSnap := func(what string, f func(c []byte) []byte) {
				a := im.clone()
				a[name] = f(append([]byte(nil), b...))
				p.alteredSnap = name
				p.reopenAlt(a, true, "altered_snapshot_"+what, script, -1, -1)
				p.alteredSnap = ""
				s.Count("snapshot_alterations")
			}
			alterSnap("data", func(c []byte) []byte { c[p.r.Intn(len(c)-8)] ^= byte(1 << p.r.Intn(8)); return c })
			alterSnap("data_last_piece", func(c []byte) []byte {
				tail := (len(c) - 8 - 1) % 4096
				c[len(c)-9-p.r.Intn(tail+1)] ^= byte(1 << p.r.Intn(8))
				return c
			})
			alterSnap("footer", func(c []byte) []byte { c[len(c)-1-p.r.Intn(8)] ^= byte(1 << p.r.Intn(8)); return c })
		}
		// (5) files removed in ANY order (DelRunId = os.RemoveAll in readdir order; any
		// subset of the final image may survive a death during it)
		var names []string
		for n := range im {
			names = append(names, n)
		}
		sort.Strings(names)
		for k := 0; k < 6 && len(names) > 1; k++ {
			sub := c08Image{}
			for _, n := range names {
				if p.r.Bool() {
					sub[n] = im[n]
				}
			}
			p.reopen(sub, false, "subset", script)
			p.reopen(sub, true, "subset", script)
		}
		// (6) life goes on after the restart: resume the writer, collect, die again
		p.resume(im.clone(), script)
	}
}

// resume re-opens the image, continues the stream where the cache ends, runs
// the collector with a small limit, and re-opens once more: at every stage every
// byte served must be the source's byte (monitor only).
func (p *c08Parent) resume(im c08Image, script string) {
	p.n++
	root := filepath.Join(p.tmp, fmt.Sprintf("r%d", p.n))
	dir := filepath.Join(root, c08RunId)
	os.MkdirAll(dir, 0o777)
	for n, b := range im {
		os.WriteFile(filepath.Join(dir, n), b, 0o666)
	}
	defer os.RemoveAll(root)
	replay := map[string]interface{}{"image": im.String(), "at": "resume", "script": script}
	check := func(st *Storer, stage string) {
		l, r := st.GetOffsetRange()
		if l < 0 || r <= l {
			return
		}
		rl, _ := st.GetRdb()
		from := l
		if rl == l && r > l { // a reader at the snapshot offset is a stream reader when a segment starts there
			from = l
		}
		rd, err := st.GetReader(from, false)
		if err != nil {
			p.s.Violate("valid-not-readable", fmt.Sprintf("%s: range [%d,%d], GetReader(%d) failed: %v", stage, l, r, from, err), replay)
			return
		}
		if !rd.IsAof() {
			rd.rdb.Close()
			rd.Close()
			return
		}
		data, end := c08ReadAll(rd, from, r)
		rd.aof.Close()
		rd.Close()
		if end != "eof" || int64(len(data)) != r-from {
			p.s.Violate("range-not-contiguous", fmt.Sprintf("%s: range [%d,%d], reading from %d gave %d bytes, end %s", stage, l, r, from, len(data), end), replay)
		}
		for k, b := range data {
			if b != c08Src(p.salt, from+int64(k)) {
				p.s.Violate("served-wrong-byte", fmt.Sprintf("%s: offset %d served as %02x, the source sent %02x", stage, from+int64(k), b, c08Src(p.salt, from+int64(k))), replay)
				break
			}
		}
		p.s.Add("mon_bytes_checked", len(data))
	}
	logSize := int64(48)
	st := NewStorer("vf", root, 3*logSize, logSize, config.FlushPolicy{})
	st.VerifStopCollector()
	if err := st.SetRunId(c08RunId); err != nil {
		return
	}
	off := st.LatestOffset()
	if off < 0 {
		return
	}
	w, err := st.GetAofWritter(nil, off)
	if err != nil {
		p.s.Count("note_resume_failed") // liveness of the writer is not C08's statement
		return
	}
	right := off
	for i := 0; i < 6; i++ {
		n := 1 + p.r.Intn(40)
		if err := w.write(c08SrcSeg(p.salt, right, n)); err != nil {
			p.s.Count("note_resume_failed")
			return
		}
		right += int64(n)
		if i%2 == 1 {
			st.VerifGcLog()
		}
		check(st, "resumed")
	}
	// the disk fails under the resumed writer (descriptor closed underneath it —
	// stands for EIO): nothing of the chunk is written, and the range must not grow
	if p.r.Chance(1, 2) {
		w.file.Close()
		n := 1 + p.r.Intn(40)
		if err := w.write(c08SrcSeg(p.salt, right, n)); err != nil {
			if _, rr := st.GetOffsetRange(); rr != right {
				p.s.Violate("range-claims-unwritten-bytes", fmt.Sprintf("a write of %d bytes at %d failed (%v), the cache reports its end at %d", n, right, err, rr), replay)
			}
			check(st, "after write fault")
			p.s.Count("aof_write_faults")
		}
	}
	// the process dies again (nothing closed); a third process opens the directory
	st2 := NewStorer("vf", root, 0, logSize, config.FlushPolicy{})
	st2.VerifStopCollector()
	if err := st2.SetRunId(c08RunId); err == nil {
		check(st2, "second restart")
		// C08 is a safety statement: discarding is allowed, claiming bytes that were
		// never written is not (retention is only noted)
		if _, r2 := st2.GetOffsetRange(); r2 > right {
			p.s.Violate("range-claims-unwritten-bytes", fmt.Sprintf("the resumed writer appended up to %d, after the second restart the cache reports its end at %d", right, r2), replay)
		} else if r2 != right {
			p.s.Count("note_resume_discarded_bytes")
		}
		// above the run-id directory: the source continues under a NEW replication id
		// (the directory is renamed), a further process finds it among several ids,
		// then the id is deleted: nothing of it may be served any more
		if p.r.Chance(1, 2) {
			newId := c08RunId + "b"
			if err := st2.SetRunId(newId); err != nil {
				p.s.Count("note_resume_failed")
			} else {
				check(st2, "renamed id")
				if _, r3 := st2.GetOffsetRange(); r3 > right {
					p.s.Violate("range-claims-unwritten-bytes", fmt.Sprintf("after the id change the cache reports its end at %d, it held bytes up to %d", r3, right), replay)
				} else if r3 != right {
					p.s.Count("note_resume_discarded_bytes")
				}
				st3 := NewStorer("vf", root, 0, logSize, config.FlushPolicy{})
				st3.VerifStopCollector()
				if off3, err := st3.VerifyRunId([]string{c08RunId, "?", newId}); err == nil {
					check(st3, "third restart")
					if off3 > right {
						p.s.Violate("range-claims-unwritten-bytes", fmt.Sprintf("VerifyRunId finds the renamed cache ending at %d, it held bytes up to %d", off3, right), replay)
					} else if off3 != right {
						p.s.Count("note_resume_discarded_bytes")
					}
				}
				st3.DelRunId(newId)
				for _, id := range []string{c08RunId, newId} {
					st4 := NewStorer("vf", root, 0, logSize, config.FlushPolicy{})
					st4.VerifStopCollector()
					if err := st4.SetRunId(id); err != nil {
						continue
					}
					l4, r4 := st4.GetOffsetRange()
					rl4, rs4 := st4.GetRdb()
					if r4 > l4 || rl4 >= 0 {
						// that a deleted cache is gone is C06/C16's statement, not C08's: noted only
						_ = rs4
						p.s.Count("note_deleted_cache_still_served")
					}
				}
				p.s.Count("id_changes")
			}
		}
	}
	w.Close()
	p.s.Count("resumed_images")
}

// c08ScanSnaps finds the snapshots a script writes completely.
func c08ScanSnaps(script string, out map[string][]byte) {
	var cur []byte
	var left, size int64 = -1, -1
	for _, op := range strings.Split(script, ";") {
		f := strings.Fields(op)
		if len(f) == 0 {
			continue
		}
		switch f[0] {
		case "drdbw":
			left, _ = strconv.ParseInt(f[1], 10, 64)
			size, _ = strconv.ParseInt(f[2], 10, 64)
			cur = nil
		case "drdba":
			cur = append(cur, vfutil.UnHex(f[1])...)
			if int64(len(cur)) == size {
				out[fmt.Sprintf("%d_%d.rdb", left, size)] = cur
			}
		}
	}
}
