//go:build verif && verifc15etcd

package cluster

// C15, etcd half: the REAL etcdElection.Campaign / Renew / Resign / Leader
// (through the real clientv3 KV/Txn code and the real concurrency.Session)
// against the in-process etcd double of vf_c15etcd_store_test.go.
//
//   * event lists (sessions granted, keep-alives that arrive or not, lease
//     expiry, Session.Close, campaigns / renewals / resigns with a request lost
//     before or after it was applied, a Campaign held between its transaction
//     and its Delete while others act): every result, the key space, the
//     revision, the fields e.key / e.rev of every election object and the set
//     of holders after every event are compared with the Lean model (`etrace`);
//   * monitors that check the property on the real code's answers,
//     independently of the Lean model.

import (
	"context"
	"encoding/json"
	"fmt"
	"os"
	"strconv"
	"strings"
	"testing"

	clientv3 "go.etcd.io/etcd/client/v3"
	"go.etcd.io/etcd/client/v3/concurrency"

	"github.com/mgtv-tech/redis-GunYu/pkg/vfutil"
)

type vfEEv struct {
	kind  string // g ka rv c ct cd r x l t | j = a foreign client puts key pfx = val (no lease); only at the head of a trace
	val   string
	pfx   string
	L     int64
	ttl   int
	fault int
	delta int64
}

type vfETrace struct {
	rev0, now0 int64
	ids        map[int64]string
	order      []int64 // lease ids in the order of the ids field
	evs        []vfEEv
}

func (tr *vfETrace) opLine(idx int) string {
	var sb strings.Builder
	fmt.Fprintf(&sb, "etrace %d %d %d ", idx, tr.rev0, tr.now0)
	if len(tr.order) == 0 {
		sb.WriteString(".")
	}
	for i, l := range tr.order {
		if i > 0 {
			sb.WriteByte(',')
		}
		fmt.Fprintf(&sb, "%d=%s", l, vfutil.HexS(tr.ids[l]))
	}
	for _, ev := range tr.evs {
		sb.WriteByte(' ')
		switch ev.kind {
		case "g":
			fmt.Fprintf(&sb, "g:%d:%d", ev.L, ev.ttl)
		case "ka", "rv":
			fmt.Fprintf(&sb, "%s:%d", ev.kind, ev.L)
		case "j":
			fmt.Fprintf(&sb, "j:%s:%s", vfutil.HexS(ev.pfx), vfutil.HexS(ev.val))
		case "t":
			fmt.Fprintf(&sb, "t:%d", ev.delta)
		case "l":
			fmt.Fprintf(&sb, "l:%s", vfutil.HexS(ev.pfx))
		default:
			fmt.Fprintf(&sb, "%s:%s:%d:%d", ev.kind, vfutil.HexS(ev.pfx), ev.L, ev.fault)
		}
	}
	return sb.String()
}

func vfEParse(line string) (*vfETrace, error) {
	f := strings.Fields(line)
	if len(f) < 5 || f[0] != "etrace" {
		return nil, fmt.Errorf("not an etrace line")
	}
	tr := &vfETrace{ids: map[int64]string{}}
	var err error
	if tr.rev0, err = strconv.ParseInt(f[2], 10, 64); err != nil {
		return nil, err
	}
	if tr.now0, err = strconv.ParseInt(f[3], 10, 64); err != nil {
		return nil, err
	}
	if f[4] != "." {
		for _, it := range strings.Split(f[4], ",") {
			kv := strings.Split(it, "=")
			if len(kv) != 2 {
				return nil, fmt.Errorf("bad ids %q", it)
			}
			l, err := strconv.ParseInt(kv[0], 10, 64)
			if err != nil {
				return nil, err
			}
			tr.ids[l] = string(vfutil.UnHex(kv[1]))
			tr.order = append(tr.order, l)
		}
	}
	num := func(s string) int64 {
		v, e := strconv.ParseInt(s, 10, 64)
		if e != nil && err == nil {
			err = e
		}
		return v
	}
	for _, tok := range f[5:] {
		p := strings.Split(tok, ":")
		ev := vfEEv{kind: p[0]}
		switch {
		case p[0] == "g" && len(p) == 3:
			ev.L, ev.ttl = num(p[1]), int(num(p[2]))
		case (p[0] == "ka" || p[0] == "rv") && len(p) == 2:
			ev.L = num(p[1])
		case p[0] == "t" && len(p) == 2:
			ev.delta = num(p[1])
		case p[0] == "l" && len(p) == 2:
			ev.pfx = string(vfutil.UnHex(p[1]))
		case p[0] == "j" && len(p) == 3:
			ev.pfx, ev.val = string(vfutil.UnHex(p[1])), string(vfutil.UnHex(p[2]))
			if len(tr.evs) > 0 && tr.evs[len(tr.evs)-1].kind != "j" {
				return nil, fmt.Errorf("junk event %q not at the head of the trace", tok)
			}
			for _, e := range tr.evs {
				if e.pfx == ev.pfx {
					return nil, fmt.Errorf("junk key %q twice", tok)
				}
			}
			if ev.pfx == "" || ev.pfx == "\x00" {
				return nil, fmt.Errorf("junk key %q is not a key an etcd server holds", tok)
			}
		case (p[0] == "c" || p[0] == "ct" || p[0] == "cd" || p[0] == "r" || p[0] == "x") && len(p) == 4:
			ev.pfx, ev.L, ev.fault = string(vfutil.UnHex(p[1])), num(p[2]), int(num(p[3]))
		default:
			return nil, fmt.Errorf("bad event %q", tok)
		}
		if err != nil {
			return nil, err
		}
		tr.evs = append(tr.evs, ev)
	}
	return tr, nil
}

type vfERes struct {
	role     ClusterRole
	err      error
	addr     string
	panicked bool
}

func vfEErrClass(err error) string {
	switch {
	case err == nil:
		return "ok"
	case err == ErrNotLeader:
		return "err-notleader"
	case err == ErrNoLeader:
		return "err-noleader"
	}
	return "err-other"
}

func vfEOut(kind string, res vfERes) string {
	if res.panicked {
		return "panic"
	}
	switch kind {
	case "c":
		return res.role.String() + " " + vfEErrClass(res.err)
	case "l":
		return vfutil.HexS(res.addr) + " " + vfEErrClass(res.err)
	}
	return vfEErrClass(res.err)
}

func vfECall(kind string, el Election) (res vfERes) {
	defer func() {
		if r := recover(); r != nil {
			res = vfERes{panicked: true}
		}
	}()
	ctx := context.Background()
	switch kind {
	case "c":
		role, err := el.Campaign(ctx)
		return vfERes{role: role, err: err}
	case "r":
		return vfERes{err: el.Renew(ctx)}
	case "x":
		return vfERes{err: el.Resign(ctx)}
	default:
		ri, err := el.Leader(ctx)
		addr := ""
		if ri != nil {
			addr = ri.Address
		}
		return vfERes{err: err, addr: addr}
	}
}

type vfEInst struct {
	no      int
	L       int64
	id      string
	cli     *clientv3.Client
	cl      Cluster
	els     map[string]*etcdElection
	pending *vfEPending
}

type vfEPending struct {
	pfx  string
	done chan vfERes
	n    int
}

type vfEElKey struct {
	L   int64
	pfx string
}

type vfERunner struct {
	t    *testing.T
	s    *vfutil.Session
	nOps int
}

func vfEPfxOk(p string) bool { return strings.HasSuffix(p, "/") }

// runTrace executes one event list on the real code
func (rn *vfERunner) runTrace(tr *vfETrace, src string) {
	s := rn.s
	idx := rn.nOps
	rn.nOps++
	op := tr.opLine(idx)
	replay := map[string]interface{}{"etrace": op}
	st := vfNewEtcdStore(tr.rev0, tr.now0)
	insts := map[int64]*vfEInst{}
	defer func() {
		for _, in := range insts {
			if in.pending != nil {
				close(st.releaseCh)
				<-in.pending.done
				in.pending = nil
				st.releaseCh = make(chan struct{})
			}
			if in.cli != nil {
				in.cli.Close()
			}
		}
	}()

	// election objects in the order the events mention them
	var elOrder []vfEElKey
	seenEl := map[vfEElKey]bool{}
	monitors := true
	for _, ev := range tr.evs {
		switch ev.kind {
		case "c", "ct", "cd", "r", "x":
			k := vfEElKey{ev.L, ev.pfx}
			if !seenEl[k] {
				seenEl[k] = true
				elOrder = append(elOrder, k)
			}
			if !vfEPfxOk(ev.pfx) {
				monitors = false // colliding keys of two prefixes: correspondence only
			}
		}
	}
	// the monitor's own bookkeeping: prefix -> lease -> create revision of the key it was told about
	told := map[string]map[int64]int64{}
	setTold := func(p string, l int64, rev int64) {
		if told[p] == nil {
			told[p] = map[int64]int64{}
		}
		told[p][l] = rev
	}
	clearTold := func(p string, l int64) {
		if told[p] != nil {
			delete(told[p], l)
		}
	}
	keyOf := func(p string, l int64) string { return fmt.Sprintf("%s%x", p, l) }
	find := func(snap []vfEKV, k string) *vfEKV {
		for i := range snap {
			if snap[i].key == k {
				return &snap[i]
			}
		}
		return nil
	}
	first := func(snap []vfEKV, p string) *vfEKV {
		for i := range snap { // snapshot is sorted by create revision
			if strings.HasPrefix(snap[i].key, p) {
				return &snap[i]
			}
		}
		return nil
	}
	election := func(in *vfEInst, p string) *etcdElection {
		e, ok := in.els[p]
		if !ok {
			e = in.cl.NewElection(context.Background(), p, in.id).(*etcdElection)
			in.els[p] = e
		}
		return e
	}
	// the per-call clauses of the property
	settle := func(n int, kind, p string, in *vfEInst, res vfERes, fault int, post []vfEKV) {
		own := find(post, keyOf(p, in.L))
		fc := first(post, p)
		switch kind {
		case "c":
			s.Count("etcd_campaign_" + vfEOut("c", res))
			if res.err == nil && res.role == RoleLeader {
				if fault != 0 && fault <= 2 {
					s.Violate("etcd-told-leader-without-answer", fmt.Sprintf("event %d: campaign whose transaction answer was lost returned leader", n), replay)
				}
				if monitors {
					if own == nil {
						s.Violate("etcd-success-without-key", fmt.Sprintf("event %d: lease %d told leader of %q but its key is not in the store", n, in.L, p), replay)
					} else if fc == nil || fc.key != own.key {
						s.Violate("etcd-success-over-foreign-key", fmt.Sprintf("event %d: lease %d told leader of %q while %q (create %d) is first-created", n, in.L, p, fc.key, fc.create), replay)
					}
				}
				if own != nil {
					setTold(p, in.L, own.create)
				} else {
					setTold(p, in.L, -1)
				}
			} else if res.role == RoleFollower {
				clearTold(p, in.L)
			}
		case "r":
			s.Count("etcd_renew_" + vfEErrClass(res.err))
			if res.err == nil {
				if monitors && (own == nil || fc == nil || fc.key != own.key) {
					s.Violate("etcd-failed-renew-not-reported", fmt.Sprintf("event %d: Renew of lease %d on %q returned nil but its key is not the first-created one", n, in.L, p), replay)
				}
				if own != nil {
					setTold(p, in.L, own.create)
				} else {
					setTold(p, in.L, -1)
				}
			} else if res.err == ErrNotLeader || res.err == ErrNoLeader {
				clearTold(p, in.L)
			}
		case "x":
			s.Count("etcd_resign_" + vfEErrClass(res.err))
			clearTold(p, in.L)
		case "l":
			s.Count("etcd_leader_" + vfEErrClass(res.err))
		}
	}
	// a call by the instance of lease L changes no key attached to another lease
	foreign := func(n int, kind string, L int64, pre, post []vfEKV) {
		if !monitors {
			return
		}
		for i := range pre {
			if pre[i].lease == L {
				continue
			}
			q := find(post, pre[i].key)
			if q == nil || *q != pre[i] {
				what := "etcd-foreign-key-changed"
				if kind == "x" {
					what = "etcd-resign-released-foreign-key"
				}
				s.Violate(what, fmt.Sprintf("event %d (%s by lease %d): key %q of lease %d became %+v", n, kind, L, pre[i].key, pre[i].lease, q), replay)
			}
		}
		for i := range post {
			if post[i].lease != L && find(pre, post[i].key) == nil {
				s.Violate("etcd-foreign-key-changed", fmt.Sprintf("event %d (%s by lease %d): key %q of lease %d appeared", n, kind, L, post[i].key, post[i].lease), replay)
			}
		}
	}

	var lines []string
	for n, ev := range tr.evs {
		out := "-"
		pre := st.snapshot()
		switch ev.kind {
		case "j": // a key somebody else wrote (no lease), there before any session of the trace: one new revision
			st.putForeign(ev.pfx, ev.val)
			s.Count("etcd_ev_junk_key")
		case "t":
			st.tick(ev.delta)
			s.Count("etcd_ev_tick")
		case "g":
			if _, ok := insts[ev.L]; ok || ev.L == 0 {
				s.Count("etcd_ev_grant_ignored")
				break
			}
			in := &vfEInst{no: len(insts), L: ev.L, id: tr.ids[ev.L], els: map[string]*etcdElection{}}
			st.mu.Lock()
			st.nextID = ev.L
			st.mu.Unlock()
			// what NewEtcdCluster does after its availability probe (source fact etcd_newcluster_calls)
			cli := clientv3.NewCtxClient(context.Background())
			cli.KV = clientv3.NewKVFromKVClient(&vfEtcdKVClient{st: st, inst: in.no}, nil)
			cli.Lease = &vfEtcdLease{st: st}
			sess, err := concurrency.NewSession(cli, concurrency.WithTTL(ev.ttl))
			if err != nil {
				rn.t.Fatalf("NewSession: %v", err)
			}
			if int64(sess.Lease()) != ev.L {
				rn.t.Fatalf("session got lease %d, wanted %d", sess.Lease(), ev.L)
			}
			in.cli = cli
			in.cl = &etcdCluster{cli: cli, sess: sess}
			insts[ev.L] = in
			s.Count("etcd_ev_grant")
		case "ka":
			st.keepAlive(ev.L)
			s.Count("etcd_ev_keepalive")
		case "rv":
			if in, ok := insts[ev.L]; ok && in.cl != nil {
				in.cl.Close() // Session.Close (orphan + revoke) and client close
				in.cli = nil
				s.Count("etcd_ev_revoke")
			}
		case "c", "r", "x":
			in := insts[ev.L]
			if in == nil {
				rn.t.Fatalf("trace %q: event %d uses lease %d before its grant", op, n, ev.L)
			}
			if in.pending != nil {
				rn.t.Fatalf("trace %q: event %d uses lease %d while its call is held", op, n, ev.L)
			}
			el := election(in, ev.pfx)
			st.mu.Lock()
			st.reqs[in.no] = 0
			st.failInst = -1
			if ev.fault != 0 {
				st.failInst, st.failReq, st.failMode = in.no, (ev.fault+1)/2, 2-ev.fault%2
			}
			st.mu.Unlock()
			res := vfECall(ev.kind, el)
			st.mu.Lock()
			st.failInst = -1
			st.mu.Unlock()
			out = vfEOut(ev.kind, res)
			post := st.snapshot()
			settle(n, ev.kind, ev.pfx, in, res, ev.fault, post)
			foreign(n, ev.kind, in.L, pre, post)
			if ev.fault != 0 {
				s.Count(fmt.Sprintf("etcd_ev_fault_%s_%d", ev.kind, ev.fault))
			}
		case "ct":
			in := insts[ev.L]
			if in == nil || in.pending != nil {
				rn.t.Fatalf("trace %q: event %d: bad held call", op, n)
			}
			el := election(in, ev.pfx)
			st.mu.Lock()
			st.reqs[in.no] = 0
			st.failInst = -1
			if ev.fault != 0 {
				st.failInst, st.failReq, st.failMode = in.no, (ev.fault+1)/2, 2-ev.fault%2
			}
			st.pauseInst, st.pauseReq = in.no, 2
			st.mu.Unlock()
			done := make(chan vfERes, 1)
			go func() { done <- vfECall("c", el) }()
			select {
			case res := <-done:
				st.mu.Lock()
				st.pauseInst = -1
				st.failInst = -1
				st.mu.Unlock()
				out = vfEOut("c", res)
				post := st.snapshot()
				settle(n, "c", ev.pfx, in, res, ev.fault, post)
				foreign(n, "c", in.L, pre, post)
				s.Count("etcd_hold_not_reached")
			case <-st.pausedCh:
				in.pending = &vfEPending{pfx: ev.pfx, done: done, n: n}
				out = "pending"
				clearTold(ev.pfx, in.L) // inside a Campaign that found another owner
				post := st.snapshot()
				foreign(n, "c", in.L, pre, post)
				s.Count("etcd_call_held")
			}
		case "cd":
			in := insts[ev.L]
			if in != nil && in.pending != nil && in.pending.pfx == ev.pfx {
				pd := in.pending
				in.pending = nil
				st.mu.Lock()
				st.failInst = -1
				if ev.fault != 0 {
					st.failInst, st.failReq, st.failMode = in.no, (ev.fault+1)/2, 2-ev.fault%2
				}
				st.mu.Unlock()
				st.releaseCh <- struct{}{}
				res := <-pd.done
				st.mu.Lock()
				st.failInst = -1
				st.mu.Unlock()
				out = vfEOut("c", res)
				post := st.snapshot()
				settle(n, "c", ev.pfx, in, res, ev.fault, post)
				foreign(n, "c", in.L, pre, post)
			}
		case "l":
			// Leader uses the client and the prefix only: a client of its own
			cli := clientv3.NewCtxClient(context.Background())
			cli.KV = clientv3.NewKVFromKVClient(&vfEtcdKVClient{st: st, inst: 1 << 20}, nil)
			probe := &etcdElection{cli: cli, keyPrefix: ev.pfx}
			res := vfECall("l", probe)
			cli.Close()
			out = vfEOut("l", res)
			in := &vfEInst{}
			settle(n, "l", ev.pfx, in, res, 0, pre)
		}

		post := st.snapshot()
		// every election key carries the lease of the session that wrote it
		if monitors {
			for i := range post {
				for _, k := range elOrder {
					if post[i].key == keyOf(k.pfx, k.L) && post[i].lease != k.L {
						s.Violate("etcd-key-without-lease", fmt.Sprintf("after event %d: election key %q of lease %d is attached to lease %d", n, post[i].key, k.L, post[i].lease), replay)
					}
				}
			}
		}
		// holders by the monitor's own bookkeeping
		var hs []string
		cnt := map[string]int{}
		for _, k := range elOrder {
			rev, ok := told[k.pfx][k.L]
			if !ok {
				continue
			}
			if kv := find(post, keyOf(k.pfx, k.L)); kv != nil && kv.create == rev {
				hs = append(hs, fmt.Sprintf("%s/%d", vfutil.HexS(k.pfx), k.L))
				cnt[k.pfx]++
			}
		}
		for p, c := range cnt {
			if c > 1 && monitors {
				s.Violate("etcd-two-holders", fmt.Sprintf("after event %d: %d sessions believe to lead %q with their key in the store: %v", n, c, p, hs), replay)
			}
			if c == 1 {
				s.Count("etcd_state_one_holder")
			}
		}
		h := "."
		if len(hs) > 0 {
			h = strings.Join(hs, ",")
		}
		// key space
		sv := "."
		if len(post) > 0 {
			items := make([]string, len(post))
			for i, kv := range post {
				items[i] = fmt.Sprintf("%s=%s@%d/%d", vfutil.HexS(kv.key), vfutil.HexS(kv.val), kv.create, kv.lease)
			}
			sv = strings.Join(items, ",")
		}
		// election objects: the REAL fields e.key / e.rev
		ev2 := "."
		if len(elOrder) > 0 {
			items := make([]string, len(elOrder))
			for i, k := range elOrder {
				key, rev, pend := "", int64(0), 0
				if in, ok := insts[k.L]; ok {
					if e, ok := in.els[k.pfx]; ok {
						if in.pending != nil && in.pending.pfx == k.pfx {
							// the object is in use by the held call: its fields after `try`
							// are what the model shows; read them (the call is blocked in the store)
							pend = 1
						}
						key, rev = e.key, e.rev
					}
				}
				items[i] = fmt.Sprintf("%d/%s:%s:%d:%d", k.L, vfutil.HexS(k.pfx), vfutil.HexS(key), rev, pend)
			}
			ev2 = strings.Join(items, ",")
		}
		st.mu.Lock()
		rev := st.rev
		st.mu.Unlock()
		lines = append(lines, fmt.Sprintf("#%d %d %s %s R=%d S=%s E=%s H=%s", idx, n, ev.kind, out, rev, sv, ev2, h))
	}
	s.Op(op, lines...)
	s.Count("etcd_trace_" + src)
	s.Add("etcd_events", len(tr.evs))
	if len(tr.order) >= 2 && len(tr.evs) >= 6 {
		s.Distinct(op)
	}
}

// ------------------------------------------------------------ generator

var vfELeasePool = []int64{1, 2, 3, 10, 15, 16, 26, 31, 255, 256, 4095, 7587862094507290626, 9223372036854775807}
var vfEPfxPool = []string{"redis-gunyu/g1/input-election/127.0.0.1:6379/", "redis-gunyu/g1/input-election/127.0.0.1:6380/", "k/", "/"}
var vfEIDPool = []string{"10.0.0.1:18001", "10.0.0.2:18001", "10.0.0.3:18001", "a", "", "10.0.0.1:18001"}

func vfEGen(r *vfutil.Rand) *vfETrace {
	tr := &vfETrace{rev0: int64(r.Intn(50)), now0: int64(r.Intn(100000)), ids: map[int64]string{}}
	n := r.Range(1, 4)
	perm := r.Intn(len(vfELeasePool))
	ttls := map[int64]int{}
	for i := 0; i < n; i++ {
		l := vfELeasePool[(perm+i*5)%len(vfELeasePool)]
		if _, dup := tr.ids[l]; dup {
			continue
		}
		tr.ids[l] = vfEIDPool[r.Intn(len(vfEIDPool))]
		tr.order = append(tr.order, l)
		ttls[l] = r.Range(3, 6)
		if r.Chance(1, 10) {
			ttls[l] = r.Range(1, 600)
		}
	}
	pfxs := []string{vfEPfxPool[r.Intn(len(vfEPfxPool))]}
	if r.Chance(1, 4) {
		pfxs = append(pfxs, vfEPfxPool[r.Intn(len(vfEPfxPool))])
	}
	if r.Chance(1, 25) { // keys of two prefixes that collide ("k/1"+"f" = "k/"+"1f"): correspondence only
		pfxs = []string{"k/", "k/1", "k/f"}
	}
	// foreign junk that is there before any session: under an election prefix (sorts anywhere: "0…", "zz") or elsewhere;
	// never a name of the form <prefix><hex of a lease of the trace> (the server grants a lease id once: assumption)
	if r.Chance(1, 4) {
		seen := map[string]bool{}
		for j := r.Range(1, 2); j > 0; j-- {
			k := vfutil.Pick(r, pfxs) + vfutil.Pick(r, []string{"zz", "0-", "junk/x", "~"})
			if r.Chance(1, 4) {
				k = vfutil.Pick(r, []string{"other/key", "j", "redis-gunyu/g1/registry/x"})
			}
			if seen[k] {
				continue
			}
			seen[k] = true
			tr.evs = append(tr.evs, vfEEv{kind: "j", pfx: k, val: vfutil.Pick(r, []string{"x", "", "10.0.0.9:18001"})})
		}
	}
	granted := map[int64]bool{}
	dl := map[int64]int64{}
	now := tr.now0
	held := int64(-1)
	heldPfx := ""
	window := 0
	nextG := 0
	ne := r.Range(2, 40)
	for i := 0; i < ne; i++ {
		// sessions come up early
		if nextG < len(tr.order) && (nextG == 0 || r.Chance(1, 2)) {
			l := tr.order[nextG]
			nextG++
			granted[l] = true
			dl[l] = now + int64(ttls[l])*1000
			tr.evs = append(tr.evs, vfEEv{kind: "g", L: l, ttl: ttls[l]})
			continue
		}
		if held >= 0 && window == 0 {
			tr.evs = append(tr.evs, vfEEv{kind: "cd", pfx: heldPfx, L: held, fault: pickFault(r, 3, 4)})
			held = -1
			continue
		}
		var live []int64
		for _, l := range tr.order {
			if granted[l] && l != held {
				live = append(live, l)
			}
		}
		l := int64(-1)
		if len(live) > 0 {
			l = live[r.Intn(len(live))]
		}
		p := pfxs[r.Intn(len(pfxs))]
		if held >= 0 {
			window--
		}
		x := r.Intn(100)
		switch {
		case l < 0 || x >= 68 && x < 88:
			ev := vfEEv{kind: "t"}
			who := tr.order[r.Intn(len(tr.order))]
			ttl := int64(ttls[who]) * 1000
			switch r.Intn(10) {
			case 0:
				ev.delta = 0
			case 1, 2: // land on / just before / just after a lease deadline
				ev.delta = dl[who] - now + int64(r.Range(-1, 1))
			case 3, 4, 5:
				ev.delta = ttl / 3
			default:
				ev.delta = int64(r.Intn(int(ttl)/3 + 2))
			}
			if ev.delta < 0 {
				ev.delta = 0
			}
			now += ev.delta
			tr.evs = append(tr.evs, ev)
		case x < 26:
			if held < 0 && r.Chance(1, 4) {
				held, heldPfx, window = l, p, r.Range(1, 4)
				tr.evs = append(tr.evs, vfEEv{kind: "ct", pfx: p, L: l, fault: pickFault(r, 1, 2)})
			} else {
				tr.evs = append(tr.evs, vfEEv{kind: "c", pfx: p, L: l, fault: pickFault(r, 1, 4)})
			}
		case x < 46:
			f := 0
			if r.Chance(1, 12) {
				f = 1
			}
			tr.evs = append(tr.evs, vfEEv{kind: "r", pfx: p, L: l, fault: f})
		case x < 54:
			tr.evs = append(tr.evs, vfEEv{kind: "x", pfx: p, L: l, fault: pickFault(r, 1, 2)})
		case x < 60:
			tr.evs = append(tr.evs, vfEEv{kind: "l", pfx: p})
		case x < 68:
			if dl[l] >= now {
				dl[l] = now + int64(ttls[l])*1000
			}
			tr.evs = append(tr.evs, vfEEv{kind: "ka", L: l})
		default:
			if r.Chance(1, 4) && len(live) > 1 {
				delete(granted, l) // closed for good; its id is not granted again
				tr.evs = append(tr.evs, vfEEv{kind: "rv", L: l})
			} else { // the lessor's keep-alives of every live session
				for _, k := range live {
					if dl[k] >= now {
						dl[k] = now + int64(ttls[k])*1000
					}
					tr.evs = append(tr.evs, vfEEv{kind: "ka", L: k})
				}
			}
		}
	}
	if held >= 0 {
		tr.evs = append(tr.evs, vfEEv{kind: "cd", pfx: heldPfx, L: held})
	}
	return tr
}

func pickFault(r *vfutil.Rand, lo, hi int) int {
	if r.Chance(1, 6) {
		return r.Range(lo, hi)
	}
	return 0
}

// ------------------------------------------------------------ test

func TestVerifC15Etcd(t *testing.T) {
	s := vfutil.NewSession("C15etcd")
	defer s.Close()
	r := vfutil.NewRand(vfutil.Seed() ^ 0xe7cd)
	rn := &vfERunner{t: t, s: s}

	if p := os.Getenv("VERIF_REPLAY"); p != "" {
		var rec struct {
			Replay map[string]interface{} `json:"replay"`
		}
		if b, err := os.ReadFile(p); err == nil && json.Unmarshal(b, &rec) == nil {
			if op, ok := rec.Replay["etrace"].(string); ok {
				tr, err := vfEParse(op)
				if err != nil {
					t.Fatalf("replay: %v", err)
				}
				rn.runTrace(tr, "replay")
			}
		}
		return
	}

	for _, l := range vfutil.Corpus("C15") {
		if !strings.HasPrefix(l, "etrace ") {
			continue
		}
		tr, err := vfEParse(l)
		if err != nil {
			t.Fatalf("corpus line %q: %v", l, err)
		}
		rn.runTrace(tr, "corpus")
	}

	// the requests each kind of call issues (the model: Campaign = Txn [+ DeleteRange], Renew = Range, …)
	{
		st := vfNewEtcdStore(1, 0)
		mk := func(no int, l int64, id string) Cluster {
			st.nextID = l
			cli := clientv3.NewCtxClient(context.Background())
			cli.KV = clientv3.NewKVFromKVClient(&vfEtcdKVClient{st: st, inst: no}, nil)
			cli.Lease = &vfEtcdLease{st: st}
			sess, err := concurrency.NewSession(cli, concurrency.WithTTL(5))
			if err != nil {
				t.Fatal(err)
			}
			return &etcdCluster{cli: cli, sess: sess}
		}
		a, b := mk(0, 1, "a"), mk(1, 2, "b")
		ea, eb := a.NewElection(context.Background(), "p/", "a"), b.NewElection(context.Background(), "p/", "b")
		reqs := func(f func()) string {
			st.mu.Lock()
			st.reqLog = nil
			st.mu.Unlock()
			f()
			st.mu.Lock()
			defer st.mu.Unlock()
			if len(st.reqLog) == 0 {
				return "none"
			}
			return strings.Join(st.reqLog, "+")
		}
		cw := reqs(func() { ea.Campaign(context.Background()) })
		cl := reqs(func() { eb.Campaign(context.Background()) })
		rr := reqs(func() { ea.Renew(context.Background()) })
		rl := reqs(func() { ea.Leader(context.Background()) })
		rx := reqs(func() { ea.Resign(context.Background()) })
		for _, q := range []string{"campaign_won=" + cw, "campaign_lost=" + cl, "renew=" + rr, "leader=" + rl, "resign=" + rx} {
			s.Count("etcd_requests_" + q)
		}
		// tie, not a clause of the property: the model is of Campaign = Txn [+ DeleteRange], Renew / Leader = Range,
		// Resign = Txn; a difference shows as a correspondence diff of this op
		s.Op(fmt.Sprintf("erequests %d", rn.nOps), fmt.Sprintf("#%d campaign_won=%s campaign_lost=%s renew=%s leader=%s resign=%s", rn.nOps, cw, cl, rr, rl, rx))
		rn.nOps++
		a.Close()
		b.Close()
	}

	// exhaustive small scope: two sessions (ttl 3 s) on one prefix, all event lists of length <= N
	{
		p := "k/"
		alpha := []vfEEv{
			{kind: "c", pfx: p, L: 1}, {kind: "c", pfx: p, L: 2}, {kind: "r", pfx: p, L: 1}, {kind: "r", pfx: p, L: 2},
			{kind: "x", pfx: p, L: 1}, {kind: "x", pfx: p, L: 2},
			{kind: "t", delta: 1500}, {kind: "t", delta: 3001}, {kind: "ka", L: 1},
			{kind: "c", pfx: p, L: 2, fault: 2}, {kind: "c", pfx: p, L: 2, fault: 3}, {kind: "x", pfx: p, L: 1, fault: 2},
		}
		maxLen := vfutil.Scale(3, 4)
		var rec func(prefix []vfEEv)
		rec = func(prefix []vfEEv) {
			if len(prefix) > 0 {
				evs := []vfEEv{{kind: "g", L: 1, ttl: 3}, {kind: "g", L: 2, ttl: 3}}
				evs = append(evs, prefix...)
				rn.runTrace(&vfETrace{rev0: 7, now0: 11, ids: map[int64]string{1: "a", 2: "b"}, order: []int64{1, 2}, evs: evs}, "exhaustive")
			}
			if len(prefix) == maxLen {
				return
			}
			for _, e := range alpha {
				rec(append(prefix, e))
			}
		}
		rec(nil)
	}

	// request-level windows: session 2's Campaign is held between its transaction and its
	// Delete while 1 resigns / expires / renews and 3 campaigns; ALL windows of length <= W
	{
		p := "k/"
		pres := [][]vfEEv{
			{{kind: "c", pfx: p, L: 1}},
			{{kind: "c", pfx: p, L: 1}, {kind: "t", delta: 1500}, {kind: "ka", L: 2}, {kind: "ka", L: 3}},
			{{kind: "c", pfx: p, L: 3}, {kind: "c", pfx: p, L: 1}},
		}
		wa := []vfEEv{{kind: "x", pfx: p, L: 1}, {kind: "t", delta: 1600}, {kind: "r", pfx: p, L: 1}, {kind: "c", pfx: p, L: 3},
			{kind: "ka", L: 2}, {kind: "rv", L: 1}, {kind: "x", pfx: p, L: 3}}
		posts := [][]vfEEv{
			{{kind: "c", pfx: p, L: 3}, {kind: "r", pfx: p, L: 2}},
			{{kind: "c", pfx: p, L: 2}, {kind: "r", pfx: p, L: 3}},
			{{kind: "r", pfx: p, L: 2}, {kind: "t", delta: 3001}, {kind: "l", pfx: p}},
		}
		maxW := vfutil.Scale(2, 3)
		var windows [][]vfEEv
		var rec func(w []vfEEv)
		rec = func(w []vfEEv) {
			if len(w) > 0 {
				windows = append(windows, append([]vfEEv{}, w...))
			}
			if len(w) == maxW {
				return
			}
			for _, e := range wa {
				rec(append(w, e))
			}
		}
		rec(nil)
		for _, pre := range pres {
			for _, w := range windows {
				for _, post := range posts {
					for _, f := range []int{0, 3, 4} {
						evs := []vfEEv{{kind: "g", L: 1, ttl: 3}, {kind: "g", L: 2, ttl: 3}, {kind: "g", L: 3, ttl: 3}}
						evs = append(evs, pre...)
						evs = append(evs, vfEEv{kind: "ct", pfx: p, L: 2})
						revoked := false
						for _, e := range w {
							if e.kind == "rv" {
								revoked = true
							}
							if revoked && e.L == 1 && e.kind != "rv" {
								continue
							}
							evs = append(evs, e)
						}
						evs = append(evs, vfEEv{kind: "cd", pfx: p, L: 2, fault: f})
						evs = append(evs, post...)
						rn.runTrace(&vfETrace{rev0: 7, now0: 11, ids: map[int64]string{1: "a", 2: "b", 3: "c"}, order: []int64{1, 2, 3}, evs: evs}, "windows")
					}
				}
			}
		}
	}

	for i := 0; i < vfutil.Scale(4000, 60000); i++ {
		rn.runTrace(vfEGen(r), "gen")
	}
}
