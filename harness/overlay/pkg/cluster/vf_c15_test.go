//go:build verif

package cluster

// C15 harness: the real NewRedisCluster / redisElection code (real RESP client
// over loopback TCP) against the lease-store double of vf_c15_store_test.go.
//
//   * generated event lists (campaign / renew / resign / leader / tick / lost
//     calls with either outcome) with 1–4 instances and 1–2 election keys,
//     from arbitrary initial store contents; every Campaign/Renew/Resign/
//     Leader result, the store and the set of holders after every event are
//     compared with the Lean model (`trace` op);
//   * the double's Lua interpreter vs Lean `evalLua` on the *generated* AST on
//     random stores and arguments, script text as received at run time
//     (`lua` op);
//   * monitors that check the property itself on the real code's answers,
//     independently of the Lean model.

import (
	"context"
	"encoding/json"
	"errors"
	"fmt"
	"os"
	"strings"
	"testing"

	"github.com/mgtv-tech/redis-GunYu/config"
	"github.com/mgtv-tech/redis-GunYu/pkg/redis/client/common"
	"github.com/mgtv-tech/redis-GunYu/pkg/vfutil"
)

type vfC15Ev struct {
	kind    string // c r x l t lc lx
	key     string
	inst    int
	delta   int64
	applied bool
	how     string // e = error reply, d = dropped connection
}

type vfC15Trace struct {
	now0  int64
	ids   []string
	ttls  []int
	initK []string
	initE []vfEntry
	evs   []vfC15Ev
}

func vfC15ErrClass(err error) string {
	switch {
	case err == nil:
		return "ok"
	case err == ErrNotLeader:
		return "err-notleader"
	case errors.Is(err, common.ErrNil):
		return "err-nil"
	}
	return "err-other"
}

func (tr *vfC15Trace) opLine(idx int) string {
	var sb strings.Builder
	fmt.Fprintf(&sb, "trace %d %d ", idx, tr.now0)
	if len(tr.ids) == 0 {
		sb.WriteString(".")
	}
	for i, id := range tr.ids {
		if i > 0 {
			sb.WriteByte(',')
		}
		fmt.Fprintf(&sb, "%s=%d", vfutil.HexS(id), tr.ttls[i])
	}
	sb.WriteByte(' ')
	if len(tr.initK) == 0 {
		sb.WriteString(".")
	}
	for i, k := range tr.initK {
		if i > 0 {
			sb.WriteByte(',')
		}
		fmt.Fprintf(&sb, "%s=%s@%d", vfutil.HexS(k), vfutil.HexS(tr.initE[i].val), tr.initE[i].exp)
	}
	for _, ev := range tr.evs {
		sb.WriteByte(' ')
		switch ev.kind {
		case "t":
			fmt.Fprintf(&sb, "t:%d", ev.delta)
		case "lc", "lx":
			a := 0
			if ev.applied {
				a = 1
			}
			fmt.Fprintf(&sb, "%s:%s:%s:%d:%s", ev.kind, vfutil.HexS(ev.key), vfutil.HexS(tr.ids[ev.inst]), a, ev.how)
		default:
			fmt.Fprintf(&sb, "%s:%s:%s", ev.kind, vfutil.HexS(ev.key), vfutil.HexS(tr.ids[ev.inst]))
		}
	}
	return sb.String()
}

func vfC15Dedup(xs []string) []string {
	var out []string
	seen := map[string]bool{}
	for _, x := range xs {
		if !seen[x] {
			seen[x] = true
			out = append(out, x)
		}
	}
	return out
}

type vfC15Runner struct {
	t     *testing.T
	s     *vfutil.Session
	st    *vfLeaseStore
	nOps  int
	cfg   config.RedisConfig
	campS string // campaign script text as received by the store
	resS  string
	pool  map[string]Cluster // (slot, ttl) -> connected client, reused across traces
}

type vfC15Inst struct {
	id   string
	ttl  int
	slot int
	cl   Cluster
	el   map[string]Election
}

func (rn *vfC15Runner) dial(in *vfC15Inst) {
	cl, err := NewRedisCluster(context.Background(), rn.cfg, in.ttl)
	if err != nil {
		rn.t.Fatalf("NewRedisCluster: %v", err)
	}
	in.cl = cl
	in.el = map[string]Election{}
}

// acquire gives the instance its own connection (one per instance, as in a
// deployment). Connections for the common ttls are kept across traces so a
// long run does not exhaust ephemeral ports.
func (rn *vfC15Runner) acquire(in *vfC15Inst) {
	k := fmt.Sprintf("%d/%d", in.slot, in.ttl)
	if cl, ok := rn.pool[k]; ok {
		delete(rn.pool, k)
		in.cl = cl
		in.el = map[string]Election{}
		return
	}
	rn.dial(in)
}

func (rn *vfC15Runner) release(in *vfC15Inst) {
	k := fmt.Sprintf("%d/%d", in.slot, in.ttl)
	if _, ok := rn.pool[k]; !ok && in.ttl <= 6 {
		rn.pool[k] = in.cl
		return
	}
	in.cl.Close()
}

func (in *vfC15Inst) election(key string) Election {
	e, ok := in.el[key]
	if !ok {
		e = in.cl.NewElection(context.Background(), key, in.id)
		in.el[key] = e
	}
	return e
}

func (rn *vfC15Runner) storeView(keys []string) string {
	rn.st.mu.Lock()
	defer rn.st.mu.Unlock()
	var items []string
	for _, k := range keys {
		if e, ok := rn.st.live(k); ok {
			items = append(items, fmt.Sprintf("%s=%s@%d", vfutil.HexS(k), vfutil.HexS(e.val), e.exp))
		}
	}
	if len(items) == 0 {
		return "."
	}
	return strings.Join(items, ",")
}

func (rn *vfC15Runner) snapshot() (int64, map[string]vfEntry) {
	rn.st.mu.Lock()
	defer rn.st.mu.Unlock()
	m := map[string]vfEntry{}
	for k := range rn.st.data {
		if e, ok := rn.st.live(k); ok {
			m[k] = e
		}
	}
	return rn.st.now, m
}

// runTrace executes one event list on the real code, records the op and the
// implementation's lines, and runs the monitors.
func (rn *vfC15Runner) runTrace(tr *vfC15Trace, src string) {
	s := rn.s
	idx := rn.nOps
	rn.nOps++
	op := tr.opLine(idx)
	replay := map[string]interface{}{"trace": op}

	rn.st.mu.Lock()
	rn.st.now = tr.now0
	rn.st.data = map[string]vfEntry{}
	for i, k := range tr.initK {
		rn.st.data[k] = tr.initE[i]
	}
	rn.st.fail = vfFailNone
	rn.st.mu.Unlock()

	insts := make([]*vfC15Inst, len(tr.ids))
	for i := range tr.ids {
		insts[i] = &vfC15Inst{id: tr.ids[i], ttl: tr.ttls[i], slot: i}
		rn.acquire(insts[i])
	}
	defer func() {
		for _, in := range insts {
			rn.release(in)
		}
	}()

	var keyList []string
	keyList = append(keyList, tr.initK...)
	for _, ev := range tr.evs {
		if ev.kind != "t" {
			keyList = append(keyList, ev.key)
		}
	}
	keys := vfC15Dedup(keyList)
	ids := vfC15Dedup(tr.ids)
	ttlOK := true
	distinctIDs := len(ids) == len(tr.ids)
	for _, t := range tr.ttls {
		if t < 1 {
			ttlOK = false
		}
	}

	// the monitor's own bookkeeping of who was told what (independent of Lean)
	told := map[string]map[string]int64{} // key -> id -> deadline
	setTold := func(key, id string, d int64) {
		if told[key] == nil {
			told[key] = map[string]int64{}
		}
		told[key][id] = d
	}
	clearTold := func(key, id string) {
		if told[key] != nil {
			delete(told[key], id)
		}
	}

	var lines []string
	ctx := context.Background()
	for n, ev := range tr.evs {
		now, pre := rn.snapshot()
		var out string
		switch ev.kind {
		case "t":
			rn.st.mu.Lock()
			rn.st.now += ev.delta
			rn.st.mu.Unlock()
			out = "-"
			s.Count("ev_tick")
		case "c", "r", "x", "l":
			in := insts[ev.inst]
			el := in.election(ev.key)
			cur, hasCur := pre[ev.key]
			switch ev.kind {
			case "c":
				role, err := el.Campaign(ctx)
				out = role.String() + " " + vfC15ErrClass(err)
				s.Count("campaign_" + role.String())
				if err == nil && role == RoleLeader {
					setTold(ev.key, in.id, now+int64(in.ttl)*1000)
					if hasCur && cur.val != in.id {
						s.Violate("success-over-foreign-lease", fmt.Sprintf("event %d: Campaign by %q returned leader while %q holds an unexpired lease", n, in.id, cur.val), replay)
					}
				} else if err == nil {
					clearTold(ev.key, in.id)
				}
			case "r":
				err := el.Renew(ctx)
				out = vfC15ErrClass(err)
				s.Count("renew_" + out)
				if err == nil {
					setTold(ev.key, in.id, now+int64(in.ttl)*1000)
					if hasCur && cur.val != in.id {
						s.Violate("success-over-foreign-lease", fmt.Sprintf("event %d: Renew by %q succeeded while %q holds an unexpired lease", n, in.id, cur.val), replay)
					}
				} else if err == ErrNotLeader {
					clearTold(ev.key, in.id)
				}
				if hasCur && cur.val != in.id && err == nil {
					s.Violate("failed-renew-not-reported", fmt.Sprintf("event %d: renewal of %q could not extend (lease of %q) but Renew returned nil", n, in.id, cur.val), replay)
				}
			case "x":
				err := el.Resign(ctx)
				out = vfC15ErrClass(err)
				s.Count("resign_" + out)
				clearTold(ev.key, in.id)
			case "l":
				ri, err := el.Leader(ctx)
				addr := ""
				if ri != nil {
					addr = ri.Address
				}
				out = vfutil.HexS(addr) + " " + vfC15ErrClass(err)
				s.Count("leader_" + vfC15ErrClass(err))
			}
			// success must leave a full-ttl lease of the caller in the store
			_, post := rn.snapshot()
			if (ev.kind == "c" || ev.kind == "r") && strings.HasSuffix(out, "ok") && (strings.HasPrefix(out, "leader") || out == "ok") {
				pe, ok := post[ev.key]
				if in.ttl >= 1 && (!ok || pe.val != in.id || pe.exp != now+int64(in.ttl)*1000) {
					s.Violate("success-without-full-lease", fmt.Sprintf("event %d: %q was told leader but the store holds %+v (want val=%q exp=%d)", n, in.id, pe, in.id, now+int64(in.ttl)*1000), replay)
				}
			}
			rn.foreignUntouched(n, ev, in.id, pre, post, replay)
			if ev.kind == "x" && hasCur && cur.val == in.id && ttlOK {
				if _, still := post[ev.key]; still {
					s.Violate("resign-keeps-own-lease", fmt.Sprintf("event %d: Resign by holder %q left the lease in place", n, in.id), replay)
				}
			}
		case "lc", "lx":
			in := insts[ev.inst]
			el := in.election(ev.key)
			mode := vfFailErrBefore
			switch {
			case ev.applied && ev.how == "e":
				mode = vfFailErrAfter
			case ev.applied && ev.how == "d":
				mode = vfFailDropAfter
			case !ev.applied && ev.how == "d":
				mode = vfFailDropBefore
			}
			rn.st.mu.Lock()
			rn.st.fail = mode
			rn.st.mu.Unlock()
			var err error
			if ev.kind == "lc" {
				var role ClusterRole
				role, err = el.Campaign(ctx)
				if err == nil || role != RoleCandidate {
					s.Violate("lost-call-not-an-error", fmt.Sprintf("event %d: lost campaign returned role=%v err=%v", n, role, err), replay)
				}
			} else {
				err = el.Resign(ctx)
				if err == nil {
					s.Violate("lost-call-not-an-error", fmt.Sprintf("event %d: lost resign returned nil", n), replay)
				}
				clearTold(ev.key, in.id)
			}
			out = "-"
			s.Count("ev_lost_" + ev.kind + "_" + ev.how)
			if ev.how == "d" {
				// the connection is gone: the instance reconnects (process restart)
				in.cl.Close()
				rn.dial(in)
			}
			_, post := rn.snapshot()
			rn.foreignUntouched(n, ev, in.id, pre, post, replay)
		}

		// holders by the monitor's own bookkeeping
		rn.st.mu.Lock()
		now2 := rn.st.now
		rn.st.mu.Unlock()
		var hs []string
		for _, k := range keys {
			cnt := 0
			for _, id := range ids {
				if d, ok := told[k][id]; ok && now2 <= d {
					hs = append(hs, fmt.Sprintf("%s/%s@%d", vfutil.HexS(k), vfutil.HexS(id), d))
					cnt++
				}
			}
			if cnt > 1 && ttlOK && distinctIDs {
				s.Violate("two-holders", fmt.Sprintf("after event %d: %d instances believe to lead key %q with unexpired lease at t=%d: %v", n, cnt, k, now2, hs), replay)
			}
			if cnt == 1 {
				s.Count("state_one_holder")
			}
		}
		h := "."
		if len(hs) > 0 {
			h = strings.Join(hs, ",")
		}
		lines = append(lines, fmt.Sprintf("#%d %d %s %s S=%s H=%s", idx, n, ev.kind, out, rn.storeView(keys), h))
	}
	s.Op(op, lines...)
	s.Count("trace_" + src)
	s.Add("events", len(tr.evs))
	if len(tr.ids) >= 2 && len(tr.evs) >= 4 {
		s.Distinct(op)
	}
}

// a call by `id` never changes an unexpired lease carrying another value,
// and never touches another key
func (rn *vfC15Runner) foreignUntouched(n int, ev vfC15Ev, id string, pre, post map[string]vfEntry, replay map[string]interface{}) {
	for k, e := range pre {
		if k == ev.key && e.val == id {
			continue
		}
		if pe, ok := post[k]; !ok || pe != e {
			what := "foreign-lease-changed"
			if ev.kind == "x" || ev.kind == "lx" {
				what = "resign-released-foreign-lease"
			}
			rn.s.Violate(what, fmt.Sprintf("event %d (%s by %q on %q): lease %q=%+v became %+v", n, ev.kind, id, ev.key, k, e, post[k]), replay)
		}
	}
	for k := range post {
		if _, ok := pre[k]; !ok && k != ev.key {
			rn.s.Violate("foreign-lease-changed", fmt.Sprintf("event %d: key %q appeared", n, k), replay)
		}
	}
}

// ------------------------------------------------------------ generators

var vfC15IDPool = []string{"10.0.0.1:18001", "10.0.0.2:18001", "10.0.0.3:18001", "a", "b", "", "false", "1", "\xff\x00id", "10.0.0.1:18002"}
var vfC15KeyPool = []string{"redis-gunyu/g1/input-election/127.0.0.1:6379/", "redis-gunyu/g1/input-election/127.0.0.1:6380/", "k", "{x}\r\n"}

func vfC15Gen(r *vfutil.Rand) *vfC15Trace {
	tr := &vfC15Trace{now0: int64(r.Intn(1000000))}
	n := r.Range(1, 4)
	perm := make([]int, len(vfC15IDPool))
	for i := range perm {
		perm[i] = i
	}
	for i := len(perm) - 1; i > 0; i-- {
		j := r.Intn(i + 1)
		perm[i], perm[j] = perm[j], perm[i]
	}
	plain := r.Chance(2, 3)
	for i := 0; i < n; i++ {
		id := vfC15IDPool[perm[i]]
		if plain {
			id = vfC15IDPool[i]
		}
		tr.ids = append(tr.ids, id)
		switch r.Intn(10) {
		case 0:
			tr.ttls = append(tr.ttls, r.Range(3, 600))
		case 1:
			tr.ttls = append(tr.ttls, 1)
		default:
			tr.ttls = append(tr.ttls, r.Range(3, 6))
		}
	}
	if r.Chance(1, 40) { // the ttl=0 corner (never produced by ClusterConfig.fix): correspondence only
		tr.ttls[r.Intn(n)] = 0
	}
	nk := 1
	if r.Chance(1, 4) {
		nk = 2
	}
	kp := r.Intn(len(vfC15KeyPool))
	keys := []string{vfC15KeyPool[kp]}
	if nk == 2 {
		keys = append(keys, vfC15KeyPool[(kp+1)%len(vfC15KeyPool)])
	}
	// initial store: leftovers of an earlier incarnation / foreign values
	for _, k := range keys {
		if r.Chance(1, 3) {
			val := "someone-else"
			if r.Bool() {
				val = vfutil.Pick(r, tr.ids)
			}
			exp := tr.now0 + int64(r.Range(-2000, 7000))
			if exp < 0 {
				exp = 0
			}
			tr.initK = append(tr.initK, k)
			tr.initE = append(tr.initE, vfEntry{val: val, exp: exp})
		}
	}
	// simulate the double's expiry to aim ticks at lease boundaries
	simExp := map[string]int64{}
	for i, k := range tr.initK {
		simExp[k] = tr.initE[i].exp
	}
	now := tr.now0
	ne := r.Range(1, 40)
	for i := 0; i < ne; i++ {
		k := vfutil.Pick(r, keys)
		in := r.Intn(n)
		ev := vfC15Ev{key: k, inst: in}
		switch x := r.Intn(100); {
		case x < 26:
			ev.kind = "c"
			simExp[k] = now + int64(tr.ttls[in])*1000 // approximate (as if it succeeded)
		case x < 50:
			ev.kind = "r"
			simExp[k] = now + int64(tr.ttls[in])*1000
		case x < 58:
			ev.kind = "x"
		case x < 65:
			ev.kind = "l"
		case x < 90:
			ev.kind = "t"
			ttl := int64(tr.ttls[in]) * 1000
			switch r.Intn(8) {
			case 0:
				ev.delta = 0
			case 1, 2: // land exactly on / just before / just after the expiry of a key
				rem := simExp[k] - now
				ev.delta = rem + int64(r.Range(-1, 1))
			case 3:
				ev.delta = ttl + int64(r.Range(0, 3))
			case 4:
				ev.delta = ttl / 3
			default:
				ev.delta = int64(r.Intn(int(ttl)/2 + 2))
			}
			if ev.delta < 0 {
				ev.delta = 0
			}
			now += ev.delta
		case x < 96:
			ev.kind = "lc"
			ev.applied = r.Bool()
			ev.how = "e"
			if r.Chance(1, 3) {
				ev.how = "d"
			}
		default:
			ev.kind = "lx"
			ev.applied = r.Bool()
			ev.how = "e"
			if r.Chance(1, 3) {
				ev.how = "d"
			}
		}
		tr.evs = append(tr.evs, ev)
	}
	return tr
}

// parse a corpus / replay line (the `trace …` op itself)
func vfC15ParseTrace(line string) (*vfC15Trace, error) {
	f := strings.Fields(line)
	if len(f) < 5 || f[0] != "trace" {
		return nil, fmt.Errorf("not a trace line")
	}
	tr := &vfC15Trace{}
	if _, err := fmt.Sscan(f[2], &tr.now0); err != nil {
		return nil, err
	}
	idIdx := map[string]int{}
	if f[3] != "." {
		for _, it := range strings.Split(f[3], ",") {
			kv := strings.Split(it, "=")
			if len(kv) != 2 {
				return nil, fmt.Errorf("bad cfg %q", it)
			}
			var t int
			if _, err := fmt.Sscan(kv[1], &t); err != nil {
				return nil, err
			}
			id := string(vfutil.UnHex(kv[0]))
			idIdx[id] = len(tr.ids)
			tr.ids = append(tr.ids, id)
			tr.ttls = append(tr.ttls, t)
		}
	}
	if f[4] != "." {
		for _, it := range strings.Split(f[4], ",") {
			kv := strings.Split(it, "=")
			if len(kv) != 2 {
				return nil, fmt.Errorf("bad init %q", it)
			}
			ve := strings.Split(kv[1], "@")
			if len(ve) != 2 {
				return nil, fmt.Errorf("bad init %q", it)
			}
			var e int64
			if _, err := fmt.Sscan(ve[1], &e); err != nil {
				return nil, err
			}
			tr.initK = append(tr.initK, string(vfutil.UnHex(kv[0])))
			tr.initE = append(tr.initE, vfEntry{val: string(vfutil.UnHex(ve[0])), exp: e})
		}
	}
	for _, tok := range f[5:] {
		p := strings.Split(tok, ":")
		ev := vfC15Ev{kind: p[0]}
		switch {
		case p[0] == "t" && len(p) == 2:
			if _, err := fmt.Sscan(p[1], &ev.delta); err != nil {
				return nil, err
			}
		case (p[0] == "c" || p[0] == "r" || p[0] == "x" || p[0] == "l") && len(p) == 3,
			(p[0] == "lc" || p[0] == "lx") && len(p) == 5:
			ev.key = string(vfutil.UnHex(p[1]))
			i, ok := idIdx[string(vfutil.UnHex(p[2]))]
			if !ok {
				return nil, fmt.Errorf("unknown instance in %q", tok)
			}
			ev.inst = i
			if len(p) == 5 {
				ev.applied = p[3] == "1"
				ev.how = p[4]
			}
		default:
			return nil, fmt.Errorf("bad event %q", tok)
		}
		tr.evs = append(tr.evs, ev)
	}
	return tr, nil
}

// ------------------------------------------------------------ lua ops

func vfC15HexList(xs []string) string {
	if len(xs) == 0 {
		return "."
	}
	p := make([]string, len(xs))
	for i, x := range xs {
		p[i] = vfutil.HexS(x)
	}
	return strings.Join(p, ",")
}

func (rn *vfC15Runner) luaOp(r *vfutil.Rand) {
	s := rn.s
	idx := rn.nOps
	rn.nOps++
	which, text := "c", rn.campS
	if r.Chance(2, 5) {
		which, text = "r", rn.resS
	}
	now := int64(r.Intn(100000))
	vals := []string{"a", "b", "", "false", "1", "10.0.0.1:18001"}
	keyPool := []string{"k", "k2", ""}
	var initK []string
	var initE []vfEntry
	for _, k := range keyPool {
		if r.Chance(1, 2) {
			initK = append(initK, k)
			initE = append(initE, vfEntry{val: vfutil.Pick(r, vals), exp: now + int64(r.Range(-3, 5000))})
			if initE[len(initE)-1].exp < 0 {
				initE[len(initE)-1].exp = 0
			}
		}
	}
	var keys, argv []string
	nkeys := 1
	if r.Chance(1, 8) {
		nkeys = r.Intn(3)
	}
	for i := 0; i < nkeys; i++ {
		keys = append(keys, vfutil.Pick(r, keyPool))
	}
	nargs := 2
	if r.Chance(1, 6) {
		nargs = r.Intn(4)
	}
	ttls := []string{"3", "10", "600", "1", "0", "", "abc", "-1", "3.5", " 3", "007", "99999"}
	for i := 0; i < nargs; i++ {
		if i == 1 {
			if r.Chance(2, 3) {
				argv = append(argv, fmt.Sprint(r.Range(1, 600)))
			} else {
				argv = append(argv, vfutil.Pick(r, ttls))
			}
		} else {
			argv = append(argv, vfutil.Pick(r, vals))
		}
	}
	// evaluate on a scratch store with the double's interpreter
	scratch := &vfLeaseStore{now: now, data: map[string]vfEntry{}, parsed: rn.st.parsed, parseErr: rn.st.parseErr}
	var initParts []string
	for i, k := range initK {
		scratch.data[k] = initE[i]
		initParts = append(initParts, fmt.Sprintf("%s=%s@%d", vfutil.HexS(k), vfutil.HexS(initE[i].val), initE[i].exp))
	}
	initS := "."
	if len(initParts) > 0 {
		initS = strings.Join(initParts, ",")
	}
	rn.st.mu.Lock()
	rp := scratch.evalScript(text, keys, argv)
	rn.st.mu.Unlock()
	var rs string
	switch rp.kind {
	case ':':
		rs = fmt.Sprintf("int:%d", rp.n)
	case '$':
		rs = "bulk:" + vfutil.HexS(rp.s)
	case '_':
		rs = "nil"
	case '+':
		rs = "status"
	default:
		rs = "err"
	}
	var items []string
	for _, k := range vfC15Dedup(append(append([]string{}, initK...), keys...)) {
		if e, ok := scratch.live(k); ok {
			items = append(items, fmt.Sprintf("%s=%s@%d", vfutil.HexS(k), vfutil.HexS(e.val), e.exp))
		}
	}
	view := "."
	if len(items) > 0 {
		view = strings.Join(items, ",")
	}
	s.Op(fmt.Sprintf("lua %d %s %d %s %s %s", idx, which, now, initS, vfC15HexList(keys), vfC15HexList(argv)),
		fmt.Sprintf("#%d %s S=%s", idx, rs, view))
	s.Count("lua_" + which + "_" + strings.SplitN(rs, ":", 2)[0])
}

// ------------------------------------------------------------ test

func TestVerifC15(t *testing.T) {
	s := vfutil.NewSession("C15")
	defer s.Close()
	r := vfutil.NewRand(vfutil.Seed())

	st, err := vfNewLeaseStore()
	if err != nil {
		t.Fatal(err)
	}
	defer st.Close()
	rn := &vfC15Runner{t: t, s: s, st: st, pool: map[string]Cluster{},
		cfg: config.RedisConfig{Addresses: []string{st.Addr()}, Type: config.RedisTypeStandalone}}

	// capture the two scripts as the real code sends them
	{
		in := &vfC15Inst{id: "probe", ttl: 5}
		rn.dial(in)
		el := in.election("probe-key")
		if _, err := el.Campaign(context.Background()); err != nil {
			s.Violate("campaign-script-unusable", "Campaign on an empty store failed: "+err.Error(), map[string]interface{}{"trace": "trace 0 0 70726f6265=5 . c:6b:70726f6265"})
		}
		rn.campS = st.lastScript
		if err := el.Resign(context.Background()); err != nil {
			s.Violate("resign-script-unusable", "Resign by the holder failed: "+err.Error(), map[string]interface{}{"trace": "trace 0 0 70726f6265=5 . c:6b:70726f6265 x:6b:70726f6265"})
		}
		rn.resS = st.lastScript
		in.cl.Close()
		if rn.campS == rn.resS {
			s.Count("scripts_identical")
		}
	}

	defer func() {
		for _, cl := range rn.pool {
			cl.Close()
		}
	}()

	// replay of a recorded failing event list
	if p := os.Getenv("VERIF_REPLAY"); p != "" {
		var rec struct {
			Replay map[string]interface{} `json:"replay"`
		}
		if b, err := os.ReadFile(p); err == nil && json.Unmarshal(b, &rec) == nil {
			if op, ok := rec.Replay["trace"].(string); ok {
				tr, err := vfC15ParseTrace(op)
				if err != nil {
					t.Fatalf("replay: %v", err)
				}
				rn.runTrace(tr, "replay")
				return
			}
		}
	}

	// corpus first
	for _, l := range vfutil.Corpus("C15") {
		tr, err := vfC15ParseTrace(l)
		if err != nil {
			t.Fatalf("corpus line %q: %v", l, err)
		}
		rn.runTrace(tr, "corpus")
	}

	// exhaustive small scope: two instances, one key, all event lists of
	// length <= L over {campaign a, campaign b, renew a, resign a, resign b,
	// tick ttl/2, tick ttl+1, lost-applied campaign b}
	{
		alpha := []vfC15Ev{
			{kind: "c", key: "k", inst: 0}, {kind: "c", key: "k", inst: 1}, {kind: "r", key: "k", inst: 0},
			{kind: "x", key: "k", inst: 0}, {kind: "x", key: "k", inst: 1},
			{kind: "t", delta: 1500}, {kind: "t", delta: 3001},
			{kind: "lc", key: "k", inst: 1, applied: true, how: "e"},
		}
		maxLen := vfutil.Scale(4, 5)
		var rec func(prefix []vfC15Ev)
		rec = func(prefix []vfC15Ev) {
			if len(prefix) > 0 {
				evs := append([]vfC15Ev{}, prefix...)
				rn.runTrace(&vfC15Trace{now0: 7, ids: []string{"a", "b"}, ttls: []int{3, 3}, evs: evs}, "exhaustive")
			}
			if len(prefix) == maxLen {
				return
			}
			for _, e := range alpha {
				rec(append(prefix, e))
			}
		}
		rec(nil)
	}

	// generated event lists
	for i := 0; i < vfutil.Scale(5000, 60000); i++ {
		rn.runTrace(vfC15Gen(r), "gen")
	}

	// the double's Lua interpreter vs Lean evalLua on the generated AST
	for i := 0; i < vfutil.Scale(6000, 100000); i++ {
		rn.luaOp(r)
	}
}
