//go:build verif

package cluster

// C15 harness: the real NewRedisCluster / redisElection code (real RESP client
// over loopback TCP) against the lease-store double of vf_c15_store_test.go.
//
//   * generated event lists (campaign / renew / resign / leader / tick / lost
//     calls with either outcome) with 1–4 instances and 1–2 election keys,
//     from arbitrary initial store contents; every Campaign/Renew/Resign/
//     Leader result, the store and the set of holders after every event are
//     compared with the Lean model (`trace` op);
//   * the double's Lua interpreter vs Lean `evalLua` on the *generated* AST on
//     random stores and arguments, script text as received at run time
//     (`lua` op);
//   * monitors that check the property itself on the real code's answers,
//     independently of the Lean model;
//   * request-level interleavings: `p:<call>:<key>:<id>:<k>` starts a call and
//     lets the lease store hold the (k+1)-th Redis REQUEST of that call (the
//     first k are served); other instances' events and clock ticks run in that
//     window; `g:<id>` releases the held request and collects the call's
//     result. A call that issues at most k requests simply completes at `p`
//     (the model: `p` = the plain call, `g` = nothing), so on code where every
//     call is one EVAL nothing changes; code that splits a call into several
//     round trips shows up as "paused" lines (correspondence) and is exposed
//     to the races between its requests (monitors).

import (
	"context"
	"encoding/json"
	"errors"
	"fmt"
	"os"
	"strings"
	"testing"
	"time"

	"github.com/mgtv-tech/redis-GunYu/config"
	"github.com/mgtv-tech/redis-GunYu/pkg/redis/client/common"
	"github.com/mgtv-tech/redis-GunYu/pkg/vfutil"
)

type vfC15Ev struct {
	kind    string // c r x l t lc lx
	key     string
	inst    int
	delta   int64
	applied bool
	how     string // e = error reply, d = dropped connection
	sub     string // kind p: the call that is started (c r x l)
	pk      int    // kind p: number of requests served before the next one is held
	timedOut bool  // kind late (sub = c r x): the call gave up at its deadline (else: it waited for the late answer)
}

type vfC15Trace struct {
	now0  int64
	ids   []string
	ttls  []int
	initK []string
	initE []vfEntry
	evs   []vfC15Ev
}

func vfC15ErrClass(err error) string {
	switch {
	case err == nil:
		return "ok"
	case err == ErrNotLeader:
		return "err-notleader"
	case errors.Is(err, common.ErrNil):
		return "err-nil"
	}
	return "err-other"
}

func (tr *vfC15Trace) opLine(idx int) string {
	var sb strings.Builder
	fmt.Fprintf(&sb, "trace %d %d ", idx, tr.now0)
	if len(tr.ids) == 0 {
		sb.WriteString(".")
	}
	for i, id := range tr.ids {
		if i > 0 {
			sb.WriteByte(',')
		}
		fmt.Fprintf(&sb, "%s=%d", vfutil.HexS(id), tr.ttls[i])
	}
	sb.WriteByte(' ')
	if len(tr.initK) == 0 {
		sb.WriteString(".")
	}
	for i, k := range tr.initK {
		if i > 0 {
			sb.WriteByte(',')
		}
		fmt.Fprintf(&sb, "%s=%s@%d", vfutil.HexS(k), vfutil.HexS(tr.initE[i].val), tr.initE[i].exp)
	}
	for _, ev := range tr.evs {
		sb.WriteByte(' ')
		switch ev.kind {
		case "t":
			fmt.Fprintf(&sb, "t:%d", ev.delta)
		case "lc", "lx":
			a := 0
			if ev.applied {
				a = 1
			}
			fmt.Fprintf(&sb, "%s:%s:%s:%d:%s", ev.kind, vfutil.HexS(ev.key), vfutil.HexS(tr.ids[ev.inst]), a, ev.how)
		case "p":
			fmt.Fprintf(&sb, "p:%s:%s:%s:%d", ev.sub, vfutil.HexS(ev.key), vfutil.HexS(tr.ids[ev.inst]), ev.pk)
		case "late":
			o := "d"
			if ev.timedOut {
				o = "t"
			}
			fmt.Fprintf(&sb, "late:%s:%s:%s:%s", ev.sub, vfutil.HexS(ev.key), vfutil.HexS(tr.ids[ev.inst]), o)
		case "can":
			o := "d"
			if ev.timedOut {
				o = "n"
			}
			fmt.Fprintf(&sb, "can:%s:%s:%s:%s", ev.sub, vfutil.HexS(ev.key), vfutil.HexS(tr.ids[ev.inst]), o)
		case "g":
			fmt.Fprintf(&sb, "g:%s", vfutil.HexS(tr.ids[ev.inst]))
		case "mv":
			fmt.Fprintf(&sb, "mv:%s:%d", vfutil.HexS(ev.key), ev.pk)
		case "mg":
			fmt.Fprintf(&sb, "mg:%s:%d", vfutil.HexS(ev.key), ev.pk)
		case "mk":
			fmt.Fprintf(&sb, "mk:%s", vfutil.HexS(ev.key))
		case "lm", "la":
			fmt.Fprintf(&sb, "%s:%s:%s:%d", ev.kind, vfutil.HexS(ev.key), vfutil.HexS(tr.ids[ev.inst]), ev.pk)
		default:
			fmt.Fprintf(&sb, "%s:%s:%s", ev.kind, vfutil.HexS(ev.key), vfutil.HexS(tr.ids[ev.inst]))
		}
	}
	return sb.String()
}

func vfC15Dedup(xs []string) []string {
	var out []string
	seen := map[string]bool{}
	for _, x := range xs {
		if !seen[x] {
			seen[x] = true
			out = append(out, x)
		}
	}
	return out
}

type vfC15Runner struct {
	t     *testing.T
	s     *vfutil.Session
	st    *vfLeaseStore
	nOps  int
	cfg   config.RedisConfig
	campS string // campaign script text as received by the store
	resS  string
	pool  map[string]vfC15Conn // (slot, ttl) -> connected client, reused across traces

	movedSeen int // cluster lease store: redirects counted so far
	refusedSeen int // requests refused because the event's redirection budget was spent
	askedSeen int // -ASK answers counted so far
	askSvSeen int // requests served by an importing node after ASKING, so far
}

type vfC15Conn struct {
	cl   Cluster
	conn int // the double's number of this client's connection
}

type vfC15Res struct {
	role ClusterRole
	err  error
	addr string
}

type vfC15Pending struct {
	ev    vfC15Ev
	n     int
	start int64 // store time when the call was started
	done  chan vfC15Res
}

type vfC15Inst struct {
	id      string
	ttl     int
	slot    int
	cl      Cluster
	conn    int
	el      map[string]Election
	pending *vfC15Pending
}

func (rn *vfC15Runner) dial(in *vfC15Inst) {
	cl, err := NewRedisCluster(context.Background(), rn.cfg, in.ttl)
	if err != nil {
		rn.t.Fatalf("NewRedisCluster: %v", err)
	}
	in.cl = cl
	rn.st.mu.Lock()
	in.conn = rn.st.lastPingConn // NewRedisConn's ping has been answered on the new connection
	rn.st.mu.Unlock()
	in.el = map[string]Election{}
}

// acquire gives the instance its own connection (one per instance, as in a
// deployment). Connections for the common ttls are kept across traces so a
// long run does not exhaust ephemeral ports.
func (rn *vfC15Runner) acquire(in *vfC15Inst) {
	k := fmt.Sprintf("%d/%d", in.slot, in.ttl)
	if c, ok := rn.pool[k]; ok {
		delete(rn.pool, k)
		in.cl, in.conn = c.cl, c.conn
		in.el = map[string]Election{}
		return
	}
	rn.dial(in)
}

func (rn *vfC15Runner) release(in *vfC15Inst) {
	k := fmt.Sprintf("%d/%d", in.slot, in.ttl)
	if _, ok := rn.pool[k]; !ok && in.ttl <= 6 {
		rn.pool[k] = vfC15Conn{in.cl, in.conn}
		return
	}
	in.cl.Close()
}

func (in *vfC15Inst) election(key string) Election {
	e, ok := in.el[key]
	if !ok {
		e = in.cl.NewElection(context.Background(), key, in.id)
		in.el[key] = e
	}
	return e
}

func (rn *vfC15Runner) storeView(keys []string) string {
	rn.st.mu.Lock()
	defer rn.st.mu.Unlock()
	var items []string
	for _, k := range keys {
		if e, ok := rn.st.live(k); ok {
			items = append(items, fmt.Sprintf("%s=%s@%d", vfutil.HexS(k), vfutil.HexS(e.val), e.exp))
		}
	}
	if len(items) == 0 {
		return "."
	}
	return strings.Join(items, ",")
}

func (rn *vfC15Runner) snapshot() (int64, map[string]vfEntry) {
	rn.st.mu.Lock()
	defer rn.st.mu.Unlock()
	m := map[string]vfEntry{}
	for k := range rn.st.data {
		if e, ok := rn.st.live(k); ok {
			m[k] = e
		}
	}
	return rn.st.now, m
}

// call performs one election call on the real code.
func vfC15Call(kind string, el Election) vfC15Res { return vfC15CallCtx(context.Background(), kind, el) }

func vfC15CallCtx(ctx context.Context, kind string, el Election) vfC15Res {
	switch kind {
	case "c":
		role, err := el.Campaign(ctx)
		return vfC15Res{role: role, err: err}
	case "r":
		return vfC15Res{err: el.Renew(ctx)}
	case "x":
		return vfC15Res{err: el.Resign(ctx)}
	default:
		ri, err := el.Leader(ctx)
		addr := ""
		if ri != nil {
			addr = ri.Address
		}
		return vfC15Res{err: err, addr: addr}
	}
}

func vfC15Out(kind string, res vfC15Res) string {
	switch kind {
	case "c":
		return res.role.String() + " " + vfC15ErrClass(res.err)
	case "l":
		return vfutil.HexS(res.addr) + " " + vfC15ErrClass(res.err)
	}
	return vfC15ErrClass(res.err)
}

// one running trace: the monitor's own bookkeeping of who was told what
// (independent of Lean)
type vfC15Run struct {
	rn     *vfC15Runner
	replay map[string]interface{}
	told   map[string]map[string]int64 // key -> id -> deadline
	ttlOK  bool
	keys   map[string]bool // the election keys of this trace
}

func (x *vfC15Run) setTold(key, id string, d int64) {
	if x.told[key] == nil {
		x.told[key] = map[string]int64{}
	}
	x.told[key][id] = d
}

func (x *vfC15Run) clearTold(key, id string) {
	if x.told[key] != nil {
		delete(x.told[key], id)
	}
}

// settle applies the result of a completed call (kind c r x l) of instance
// `in` to the monitor's bookkeeping and checks the per-call clauses of the
// property. start = store time when the call was issued; pre = live store
// just before the call (for a call that was held: just before its release);
// post = live store after it; split = the call's requests were interleaved
// with other events.
func (x *vfC15Run) settle(n int, kind, key string, in *vfC15Inst, start int64, pre, post map[string]vfEntry, res vfC15Res, split bool) {
	s := x.rn.s
	cur, hasCur := pre[key]
	told := false
	switch kind {
	case "c":
		s.Count("campaign_" + res.role.String())
		if res.err == nil && res.role == RoleLeader {
			told = true
		} else if res.err == nil {
			x.clearTold(key, in.id)
		}
	case "r":
		s.Count("renew_" + vfC15ErrClass(res.err))
		if res.err == nil {
			told = true
		} else if res.err == ErrNotLeader {
			x.clearTold(key, in.id)
		}
		if !split && hasCur && cur.val != in.id && res.err == nil {
			s.Violate("failed-renew-not-reported", fmt.Sprintf("event %d: renewal of %q could not extend (lease of %q) but Renew returned nil", n, in.id, cur.val), x.replay)
		}
	case "x":
		s.Count("resign_" + vfC15ErrClass(res.err))
		x.clearTold(key, in.id)
		if !split && hasCur && cur.val == in.id && x.ttlOK {
			if _, still := post[key]; still {
				s.Count("resign_kept_own_lease") // only delays takeover; visible in the model diff
			}
		}
	case "l":
		s.Count("leader_" + vfC15ErrClass(res.err))
	}
	if told {
		deadline := start + int64(in.ttl)*1000
		x.setTold(key, in.id, deadline)
		if !split && hasCur && cur.val != in.id {
			s.Violate("success-over-foreign-lease", fmt.Sprintf("event %d: %q was told leader while %q holds an unexpired lease", n, in.id, cur.val), x.replay)
		}
		// an instance that is told leader believes so for one ttl from the call:
		// the store must hold ITS value at least that long, otherwise the lease
		// can be taken while it still counts as holder. (The exact expiry is
		// compared with the model in the S= field of the op line, not here.)
		pe, ok := post[key]
		if in.ttl >= 1 && (!ok || pe.val != in.id || pe.exp < deadline) {
			s.Violate("success-without-lease", fmt.Sprintf("event %d: %q was told leader until %d but the store holds %+v", n, in.id, deadline, pe), x.replay)
		}
	}
}

// a request (or whole call) by `id` on `key` never changes an unexpired lease
// carrying another value, and never touches another key
func (x *vfC15Run) foreignUntouched(n int, kind, key, id string, pre, post map[string]vfEntry) {
	for k, e := range pre {
		if k == key && e.val == id {
			continue
		}
		if pe, ok := post[k]; !ok || pe != e {
			what := "foreign-lease-changed"
			if kind == "x" || kind == "lx" {
				what = "resign-released-foreign-lease"
			}
			x.rn.s.Violate(what, fmt.Sprintf("event %d (%s by %q on %q): lease %q=%+v became %+v", n, kind, id, key, k, e, post[k]), x.replay)
		}
	}
	for k := range post {
		if _, ok := pre[k]; !ok && k != key && x.keys[k] {
			x.rn.s.Violate("foreign-lease-changed", fmt.Sprintf("event %d: a lease for %q appeared through a call on %q", n, k, key), x.replay)
		}
	}
}

// runTrace executes one event list on the real code, records the op and the
// implementation's lines, and runs the monitors.
func (rn *vfC15Runner) runTrace(tr *vfC15Trace, src string) {
	s := rn.s
	idx := rn.nOps
	rn.nOps++
	op := tr.opLine(idx)
	x := &vfC15Run{rn: rn, replay: map[string]interface{}{"trace": op}, told: map[string]map[string]int64{}, ttlOK: true}

	rn.st.mu.Lock()
	rn.st.now = tr.now0
	rn.st.data = map[string]vfEntry{}
	for i, k := range tr.initK {
		rn.st.data[k] = tr.initE[i]
	}
	rn.st.fail = vfFailNone
	rn.st.pauseConn = -1
	rn.st.mu.Unlock()

	insts := make([]*vfC15Inst, len(tr.ids))
	for i := range tr.ids {
		insts[i] = &vfC15Inst{id: tr.ids[i], ttl: tr.ttls[i], slot: i}
		rn.acquire(insts[i])
	}
	defer func() {
		for _, in := range insts {
			if in.pending != nil { // a held call the schedule never released
				close(rn.st.releaseCh)
				<-in.pending.done
				in.pending = nil
			}
			rn.release(in)
		}
	}()

	var keyList []string
	keyList = append(keyList, tr.initK...)
	for _, ev := range tr.evs {
		if ev.kind != "t" && ev.kind != "g" {
			keyList = append(keyList, ev.key)
		}
	}
	keys := vfC15Dedup(keyList)
	x.keys = map[string]bool{}
	for _, k := range keys {
		x.keys[k] = true
	}
	ids := vfC15Dedup(tr.ids)
	distinctIDs := len(ids) == len(tr.ids)
	for _, t := range tr.ttls {
		if t < 1 {
			x.ttlOK = false
		}
	}

	var lines []string
	for n, ev := range tr.evs {
		if rn.st.clusterOn {
			rn.st.VerifResetRedirects() // counted budget of -MOVED / -ASK per event (a looping client cannot hang the check)
		}
		now, pre := rn.snapshot()
		out := "-"
		if ev.kind != "t" && ev.kind != "mv" && ev.kind != "mg" && ev.kind != "mk" && insts[ev.inst].pending != nil && ev.kind != "g" {
			rn.t.Fatalf("trace %q: event %d uses instance %q while its call is held", op, n, insts[ev.inst].id)
		}
		switch ev.kind {
		case "t":
			rn.st.mu.Lock()
			rn.st.now += ev.delta
			rn.st.mu.Unlock()
			s.Count("ev_tick")
		case "mv": // cluster lease store: the slot of the key (and its keys) now belongs to another node
			if rn.st.VerifOwnerOf(ev.key) != ev.pk {
				s.Count("ev_move_slot")
			} else {
				s.Count("ev_move_slot_same_owner")
			}
			rn.st.VerifMoveSlot(ev.key, ev.pk)
		case "mg": // the slot of the key starts MIGRATING to another node (IMPORTING there): -ASK for keys the owner has not
			if rn.st.VerifBeginMigrate(ev.key, ev.pk) {
				s.Count("ev_migrate_begin")
			} else {
				s.Count("ev_migrate_begin_noop")
			}
		case "mk": // MIGRATE of the key itself
			if rn.st.VerifMigrateKey(ev.key) {
				s.Count("ev_migrate_key")
			} else {
				s.Count("ev_migrate_key_noop")
			}
		case "lm", "la":
			// Leader() through the cluster client is TWO requests (COMMAND GETKEYS, then GET): between them the key's slot
			// moves to node pk (lm: the GET is answered -MOVED) or starts MIGRATING there with the key gone over (la: -ASK)
			in := insts[ev.inst]
			if rn.st.clusterOn {
				rn.st.VerifArmMidCall(ev.key, ev.pk, ev.kind == "la")
			}
			res := vfC15Call("l", in.election(ev.key))
			out = vfC15Out("l", res)
			if rn.st.clusterOn && rn.st.VerifMidCallFired() {
				s.Count("cluster_resharding_in_mid_call_" + ev.kind)
			} else {
				s.Count("cluster_mid_call_not_reached_" + ev.kind)
			}
			_, post := rn.snapshot()
			x.settle(n, "l", ev.key, in, now, pre, post, res, false)
			x.foreignUntouched(n, "l", ev.key, in.id, pre, post)
		case "c", "r", "x", "l":
			in := insts[ev.inst]
			res := vfC15Call(ev.kind, in.election(ev.key))
			out = vfC15Out(ev.kind, res)
			_, post := rn.snapshot()
			x.settle(n, ev.kind, ev.key, in, now, pre, post, res, false)
			x.foreignUntouched(n, ev.kind, ev.key, in.id, pre, post)
		case "can":
			// the call is made with a context that is ALREADY cancelled (runCluster's scope closed while the loop is
			// about to campaign / the ticker about to renew / Resign after a stop): an election that honours its
			// context must not have sent anything when it reports the error (n: nothing applied), one that ignores
			// it answers as usual (d); either way the election object is used on
			in := insts[ev.inst]
			el := in.election(ev.key)
			if ev.sub == "x" {
				x.clearTold(ev.key, in.id)
			}
			ctx, cancel := context.WithCancel(context.Background())
			cancel()
			evalsBefore := rn.st.VerifEvals()
			res := vfC15CallCtx(ctx, ev.sub, el)
			if res.err != nil && errors.Is(res.err, context.Canceled) || (res.err != nil && rn.st.VerifEvals() == evalsBefore) {
				tr.evs[n].timedOut = true
				x.replay["trace"] = tr.opLine(idx)
				out = "-"
				s.Count("cancelled_ctx_call_refused_" + ev.sub)
				if rn.st.VerifEvals() != evalsBefore {
					s.Count("cancelled_ctx_call_refused_but_sent_" + ev.sub) // then the model diff shows it (n = not applied)
				}
			} else {
				out = vfC15Out(ev.sub, res)
				s.Count("cancelled_ctx_call_answered_" + ev.sub)
				_, post := rn.snapshot()
				x.settle(n, ev.sub, ev.key, in, now, pre, post, res, false)
			}
			{
				_, post := rn.snapshot()
				x.foreignUntouched(n, ev.sub, ev.key, in.id, pre, post)
			}
		case "late":
			// The answer of this call comes AFTER the caller's deadline: the store holds the request, the caller's
			// context ends (cancelled by the harness = its deadline passing, no clock involved), then the store
			// executes and answers. cmd/syncer.go gives every election call a context with a deadline; whether
			// the election honours it is the code's choice: the call either waits for the late answer (ev "d") or
			// gives up (ev "t": the script still runs at the store = a lost-but-applied call). Either way the SAME
			// election object goes on being used afterwards: every later call must get the store's answer to
			// THAT call.
			in := insts[ev.inst]
			el := in.election(ev.key)
			if ev.sub == "x" {
				x.clearTold(ev.key, in.id)
			}
			rn.st.armPause(in.conn, 0)
			ctx, cancel := context.WithCancel(context.Background())
			done := make(chan vfC15Res, 1)
			go func() { done <- vfC15CallCtx(ctx, ev.sub, el) }()
			var res vfC15Res
			returned := false
			select {
			case res = <-done: // no request reached the store (cannot happen for these calls): an ordinary call
				rn.st.disarmPause()
				returned = true
				s.Count("late_pause_not_reached")
			case <-rn.st.pausedCh:
				evalsBefore := rn.st.VerifEvals()
				cancel()
				select { // an implementation that honours its context returns now; one that does not stays blocked
				case res = <-done:
					returned = true
					tr.evs[n].timedOut = res.err != nil
					x.replay["trace"] = tr.opLine(idx) // the replay says that the call gave up
				case <-time.After(3 * time.Millisecond):
				}
				close(rn.st.releaseCh)
				if !returned {
					res = <-done
				} else {
					// the store still executes and answers: wait until it has (counted, with a generous limit)
					for i := 0; i < 2000 && rn.st.VerifEvals() == evalsBefore; i++ {
						time.Sleep(time.Millisecond)
					}
					time.Sleep(2 * time.Millisecond) // let the abandoned answer reach whoever still waits for it
				}
			}
			cancel()
			if tr.evs[n].timedOut {
				out = "-"
				s.Count("late_call_gave_up_" + ev.sub)
			} else {
				out = vfC15Out(ev.sub, res)
				s.Count("late_call_waited_" + ev.sub)
				_, post := rn.snapshot()
				x.settle(n, ev.sub, ev.key, in, now, pre, post, res, false)
			}
			{
				_, post := rn.snapshot()
				x.foreignUntouched(n, ev.sub, ev.key, in.id, pre, post)
			}
		case "p":
			// start the call; the store serves its first pk requests and holds the next
			in := insts[ev.inst]
			el := in.election(ev.key)
			if ev.sub == "x" {
				x.clearTold(ev.key, in.id) // the instance stopped leading before it calls Resign
			}
			rn.st.armPause(in.conn, ev.pk)
			done := make(chan vfC15Res, 1)
			go func() { done <- vfC15Call(ev.sub, el) }()
			select {
			case res := <-done: // the call needed no more than pk requests: an ordinary call
				rn.st.disarmPause()
				out = vfC15Out(ev.sub, res)
				_, post := rn.snapshot()
				x.settle(n, ev.sub, ev.key, in, now, pre, post, res, false)
				x.foreignUntouched(n, ev.sub, ev.key, in.id, pre, post)
				s.Count("pause_not_reached")
			case <-rn.st.pausedCh:
				in.pending = &vfC15Pending{ev: ev, n: n, start: now, done: done}
				out = "paused"
				_, post := rn.snapshot()
				x.foreignUntouched(n, ev.sub, ev.key, in.id, pre, post)
				s.Count("call_held_" + ev.sub)
			}
		case "g":
			in := insts[ev.inst]
			if pd := in.pending; pd != nil {
				in.pending = nil
				close(rn.st.releaseCh)
				res := <-pd.done
				out = vfC15Out(pd.ev.sub, res)
				_, post := rn.snapshot()
				x.settle(n, pd.ev.sub, pd.ev.key, in, pd.start, pre, post, res, true)
				x.foreignUntouched(n, pd.ev.sub, pd.ev.key, in.id, pre, post)
			}
		case "lc", "lx":
			in := insts[ev.inst]
			el := in.election(ev.key)
			mode := vfFailErrBefore
			switch {
			case ev.applied && ev.how == "e":
				mode = vfFailErrAfter
			case ev.applied && ev.how == "d":
				mode = vfFailDropAfter
			case !ev.applied && ev.how == "d":
				mode = vfFailDropBefore
			}
			rn.st.mu.Lock()
			rn.st.fail = mode
			rn.st.mu.Unlock()
			if ev.kind == "lc" {
				role, err := el.Campaign(context.Background())
				if err == nil && role == RoleLeader { // an answer that never arrived must not make a leader
					s.Violate("told-leader-without-answer", fmt.Sprintf("event %d: campaign whose answer was lost returned role=%v err=%v", n, role, err), x.replay)
				} else if err == nil {
					s.Count("lost_campaign_returned_nil")
				}
			} else {
				err := el.Resign(context.Background())
				if err == nil {
					s.Count("lost_resign_returned_nil")
				}
				x.clearTold(ev.key, in.id)
			}
			rn.st.mu.Lock()
			rn.st.fail = vfFailNone
			rn.st.mu.Unlock()
			s.Count("ev_lost_" + ev.kind + "_" + ev.how)
			if ev.how == "d" {
				// the connection is gone: the instance reconnects (process restart)
				in.cl.Close()
				rn.dial(in)
			}
			_, post := rn.snapshot()
			x.foreignUntouched(n, ev.kind, ev.key, in.id, pre, post)
		}

		// holders by the monitor's own bookkeeping
		rn.st.mu.Lock()
		now2 := rn.st.now
		rn.st.mu.Unlock()
		var hs []string
		for _, k := range keys {
			cnt := 0
			for _, id := range ids {
				if d, ok := x.told[k][id]; ok && now2 <= d {
					hs = append(hs, fmt.Sprintf("%s/%s@%d", vfutil.HexS(k), vfutil.HexS(id), d))
					cnt++
				}
			}
			if cnt > 1 && x.ttlOK && distinctIDs {
				s.Violate("two-holders", fmt.Sprintf("after event %d: %d instances believe to lead key %q with unexpired lease at t=%d: %v", n, cnt, k, now2, hs), x.replay)
			}
			if cnt == 1 {
				s.Count("state_one_holder")
			}
		}
		h := "."
		if len(hs) > 0 {
			h = strings.Join(hs, ",")
		}
		lines = append(lines, fmt.Sprintf("#%d %d %s %s S=%s H=%s", idx, n, ev.kind, out, rn.storeView(keys), h))
	}
	if rn.st.clusterOn {
		mv := rn.st.VerifMoved()
		s.Add("cluster_requests_moved_and_reissued", mv-rn.movedSeen)
		if mv > rn.movedSeen {
			s.Count("cluster_trace_with_redirect")
		}
		rn.movedSeen = mv
		ak, sv := rn.st.VerifAsked()
		s.Add("cluster_requests_asked", ak-rn.askedSeen)
		s.Add("cluster_requests_served_after_asking", sv-rn.askSvSeen)
		if ak > rn.askedSeen {
			s.Count("cluster_trace_with_ask")
		}
		rn.askedSeen, rn.askSvSeen = ak, sv
		if rf := rn.st.VerifRedirectsRefused(); rf > rn.refusedSeen {
			s.Add("cluster_redirection_budget_spent", rf-rn.refusedSeen)
			rn.refusedSeen = rf
		}
	}
	op = tr.opLine(idx) // a `late` event now says whether the call gave up (t) or waited (d)
	s.Op(op, lines...)
	s.Count("trace_" + src)
	if rn.st.clusterOn {
		s.Count("cfg_redisType_cluster")
	} else {
		s.Count("cfg_redisType_standalone")
	}
	s.Add("events", len(tr.evs))
	if len(tr.ids) >= 2 && len(tr.evs) >= 4 {
		s.Distinct(op)
	}
}

// ------------------------------------------------------------ generators

var vfC15IDPool = []string{"10.0.0.1:18001", "10.0.0.2:18001", "10.0.0.3:18001", "a", "b", "", "false", "1", "\xff\x00id", "10.0.0.1:18002"}
var vfC15KeyPool = []string{"redis-gunyu/g1/input-election/127.0.0.1:6379/", "redis-gunyu/g1/input-election/127.0.0.1:6380/", "k", "{x}\r\n"}

func vfC15Gen(r *vfutil.Rand) *vfC15Trace {
	tr := &vfC15Trace{now0: int64(r.Intn(1000000))}
	n := r.Range(1, 4)
	perm := make([]int, len(vfC15IDPool))
	for i := range perm {
		perm[i] = i
	}
	for i := len(perm) - 1; i > 0; i-- {
		j := r.Intn(i + 1)
		perm[i], perm[j] = perm[j], perm[i]
	}
	plain := r.Chance(2, 3)
	for i := 0; i < n; i++ {
		id := vfC15IDPool[perm[i]]
		if plain {
			id = vfC15IDPool[i]
		}
		tr.ids = append(tr.ids, id)
		switch r.Intn(10) {
		case 0:
			tr.ttls = append(tr.ttls, r.Range(3, 600))
		case 1:
			tr.ttls = append(tr.ttls, 1)
		default:
			tr.ttls = append(tr.ttls, r.Range(3, 6))
		}
	}
	if r.Chance(1, 40) { // the ttl=0 corner (never produced by ClusterConfig.fix): correspondence only
		tr.ttls[r.Intn(n)] = 0
	}
	nk := 1
	if r.Chance(1, 4) {
		nk = 2
	}
	kp := r.Intn(len(vfC15KeyPool))
	keys := []string{vfC15KeyPool[kp]}
	if nk == 2 {
		keys = append(keys, vfC15KeyPool[(kp+1)%len(vfC15KeyPool)])
	}
	// initial store: leftovers of an earlier incarnation / foreign values
	for _, k := range keys {
		if r.Chance(1, 3) {
			val := "someone-else"
			if r.Bool() {
				val = vfutil.Pick(r, tr.ids)
			}
			exp := tr.now0 + int64(r.Range(-2000, 7000))
			if exp < 0 {
				exp = 0
			}
			tr.initK = append(tr.initK, k)
			tr.initE = append(tr.initE, vfEntry{val: val, exp: exp})
		}
	}
	// simulate the double's expiry to aim ticks at lease boundaries
	simExp := map[string]int64{}
	for i, k := range tr.initK {
		simExp[k] = tr.initE[i].exp
	}
	now := tr.now0
	ne := r.Range(1, 40)
	busy, window := -1, 0 // instance whose call is held, events left before it is released
	for i := 0; i < ne; i++ {
		if busy >= 0 && window == 0 {
			tr.evs = append(tr.evs, vfC15Ev{kind: "g", inst: busy})
			busy = -1
			continue
		}
		k := vfutil.Pick(r, keys)
		in := r.Intn(n)
		if busy >= 0 {
			window--
			if n == 1 {
				in = -1
			} else {
				for in == busy {
					in = r.Intn(n)
				}
			}
		}
		ev := vfC15Ev{key: k, inst: in}
		x := r.Intn(100)
		if in < 0 { // only the clock can move while the single instance is held
			x = 70
			ev.inst = busy
			in = busy
		}
		if busy < 0 && x < 65 && r.Chance(1, 5) {
			// a call whose (pk+1)-th request is held while others act
			ev.kind, ev.pk = "p", r.Range(1, 2)
			ev.sub = []string{"c", "r", "x", "x", "l"}[r.Intn(5)]
			busy, window = in, r.Range(1, 4)
			tr.evs = append(tr.evs, ev)
			continue
		}
		switch {
		case x < 26:
			ev.kind = "c"
			simExp[k] = now + int64(tr.ttls[in])*1000 // approximate (as if it succeeded)
		case x < 50:
			ev.kind = "r"
			simExp[k] = now + int64(tr.ttls[in])*1000
		case x < 58:
			ev.kind = "x"
		case x < 65:
			ev.kind = "l"
		case x < 90:
			ev.kind = "t"
			ttl := int64(tr.ttls[in]) * 1000
			switch r.Intn(8) {
			case 0:
				ev.delta = 0
			case 1, 2: // land exactly on / just before / just after the expiry of a key
				rem := simExp[k] - now
				ev.delta = rem + int64(r.Range(-1, 1))
			case 3:
				ev.delta = ttl + int64(r.Range(0, 3))
			case 4:
				ev.delta = ttl / 3
			default:
				ev.delta = int64(r.Intn(int(ttl)/2 + 2))
			}
			if ev.delta < 0 {
				ev.delta = 0
			}
			now += ev.delta
		case x < 96:
			ev.kind = "lc"
			ev.applied = r.Bool()
			ev.how = "e"
			if r.Chance(1, 3) {
				ev.how = "d"
			}
		default:
			ev.kind = "lx"
			ev.applied = r.Bool()
			ev.how = "e"
			if r.Chance(1, 3) {
				ev.how = "d"
			}
		}
		tr.evs = append(tr.evs, ev)
	}
	if busy >= 0 {
		tr.evs = append(tr.evs, vfC15Ev{kind: "g", inst: busy})
	}
	return tr
}

// parse a corpus / replay line (the `trace …` op itself)
func vfC15ParseTrace(line string) (*vfC15Trace, error) {
	f := strings.Fields(line)
	if len(f) < 5 || f[0] != "trace" {
		return nil, fmt.Errorf("not a trace line")
	}
	tr := &vfC15Trace{}
	if _, err := fmt.Sscan(f[2], &tr.now0); err != nil {
		return nil, err
	}
	idIdx := map[string]int{}
	if f[3] != "." {
		for _, it := range strings.Split(f[3], ",") {
			kv := strings.Split(it, "=")
			if len(kv) != 2 {
				return nil, fmt.Errorf("bad cfg %q", it)
			}
			var t int
			if _, err := fmt.Sscan(kv[1], &t); err != nil {
				return nil, err
			}
			id := string(vfutil.UnHex(kv[0]))
			idIdx[id] = len(tr.ids)
			tr.ids = append(tr.ids, id)
			tr.ttls = append(tr.ttls, t)
		}
	}
	if f[4] != "." {
		for _, it := range strings.Split(f[4], ",") {
			kv := strings.Split(it, "=")
			if len(kv) != 2 {
				return nil, fmt.Errorf("bad init %q", it)
			}
			ve := strings.Split(kv[1], "@")
			if len(ve) != 2 {
				return nil, fmt.Errorf("bad init %q", it)
			}
			var e int64
			if _, err := fmt.Sscan(ve[1], &e); err != nil {
				return nil, err
			}
			tr.initK = append(tr.initK, string(vfutil.UnHex(kv[0])))
			tr.initE = append(tr.initE, vfEntry{val: string(vfutil.UnHex(ve[0])), exp: e})
		}
	}
	for _, tok := range f[5:] {
		p := strings.Split(tok, ":")
		ev := vfC15Ev{kind: p[0]}
		switch {
		case p[0] == "t" && len(p) == 2:
			if _, err := fmt.Sscan(p[1], &ev.delta); err != nil {
				return nil, err
			}
		case (p[0] == "mv" || p[0] == "mg") && len(p) == 3:
			ev.key = string(vfutil.UnHex(p[1]))
			if _, err := fmt.Sscan(p[2], &ev.pk); err != nil || ev.pk < 0 {
				return nil, fmt.Errorf("bad slot move %q", tok)
			}
		case p[0] == "mk" && len(p) == 2:
			ev.key = string(vfutil.UnHex(p[1]))
		case (p[0] == "lm" || p[0] == "la") && len(p) == 4:
			ev.key = string(vfutil.UnHex(p[1]))
			i, ok := idIdx[string(vfutil.UnHex(p[2]))]
			if !ok {
				return nil, fmt.Errorf("unknown instance in %q", tok)
			}
			ev.inst = i
			if _, err := fmt.Sscan(p[3], &ev.pk); err != nil || ev.pk < 0 {
				return nil, fmt.Errorf("bad mid-call resharding %q", tok)
			}
		case p[0] == "g" && len(p) == 2:
			i, ok := idIdx[string(vfutil.UnHex(p[1]))]
			if !ok {
				return nil, fmt.Errorf("unknown instance in %q", tok)
			}
			ev.inst = i
		case p[0] == "can" && len(p) == 5:
			ev.sub = p[1]
			ev.key = string(vfutil.UnHex(p[2]))
			i, ok := idIdx[string(vfutil.UnHex(p[3]))]
			if !ok || (ev.sub != "c" && ev.sub != "r" && ev.sub != "x") || (p[4] != "d" && p[4] != "n") {
				return nil, fmt.Errorf("bad cancelled-context call %q", tok)
			}
			ev.inst = i
		case p[0] == "late" && len(p) == 5:
			ev.sub = p[1]
			ev.key = string(vfutil.UnHex(p[2]))
			i, ok := idIdx[string(vfutil.UnHex(p[3]))]
			if !ok || (ev.sub != "c" && ev.sub != "r" && ev.sub != "x") || (p[4] != "d" && p[4] != "t") {
				return nil, fmt.Errorf("bad late call %q", tok)
			}
			ev.inst = i
		case p[0] == "p" && len(p) == 5:
			ev.sub = p[1]
			ev.key = string(vfutil.UnHex(p[2]))
			i, ok := idIdx[string(vfutil.UnHex(p[3]))]
			if !ok || (ev.sub != "c" && ev.sub != "r" && ev.sub != "x" && ev.sub != "l") {
				return nil, fmt.Errorf("bad held call %q", tok)
			}
			ev.inst = i
			if _, err := fmt.Sscan(p[4], &ev.pk); err != nil || ev.pk < 0 {
				return nil, fmt.Errorf("bad held call %q", tok)
			}
		case (p[0] == "c" || p[0] == "r" || p[0] == "x" || p[0] == "l") && len(p) == 3,
			(p[0] == "lc" || p[0] == "lx") && len(p) == 5:
			ev.key = string(vfutil.UnHex(p[1]))
			i, ok := idIdx[string(vfutil.UnHex(p[2]))]
			if !ok {
				return nil, fmt.Errorf("unknown instance in %q", tok)
			}
			ev.inst = i
			if len(p) == 5 {
				ev.applied = p[3] == "1"
				ev.how = p[4]
			}
		default:
			return nil, fmt.Errorf("bad event %q", tok)
		}
		tr.evs = append(tr.evs, ev)
	}
	return tr, nil
}

// ------------------------------------------------------------ lua ops

func vfC15HexList(xs []string) string {
	if len(xs) == 0 {
		return "."
	}
	p := make([]string, len(xs))
	for i, x := range xs {
		p[i] = vfutil.HexS(x)
	}
	return strings.Join(p, ",")
}

func (rn *vfC15Runner) luaOp(r *vfutil.Rand) {
	s := rn.s
	idx := rn.nOps
	rn.nOps++
	which, text := "c", rn.campS
	if r.Chance(2, 5) {
		which, text = "r", rn.resS
	}
	if text == "" { // the call sends no script (any more): nothing to interpret; the `requests` op shows it
		s.Count("lua_skipped_no_script_" + which)
		rn.nOps--
		return
	}
	now := int64(r.Intn(100000))
	vals := []string{"a", "b", "", "false", "1", "10.0.0.1:18001"}
	keyPool := []string{"k", "k2", ""}
	var initK []string
	var initE []vfEntry
	for _, k := range keyPool {
		if r.Chance(1, 2) {
			initK = append(initK, k)
			initE = append(initE, vfEntry{val: vfutil.Pick(r, vals), exp: now + int64(r.Range(-3, 5000))})
			if initE[len(initE)-1].exp < 0 {
				initE[len(initE)-1].exp = 0
			}
		}
	}
	var keys, argv []string
	nkeys := 1
	if r.Chance(1, 8) {
		nkeys = r.Intn(3)
	}
	for i := 0; i < nkeys; i++ {
		keys = append(keys, vfutil.Pick(r, keyPool))
	}
	nargs := 2
	if r.Chance(1, 6) {
		nargs = r.Intn(4)
	}
	ttls := []string{"3", "10", "600", "1", "0", "", "abc", "-1", "3.5", " 3", "007", "99999"}
	for i := 0; i < nargs; i++ {
		if i == 1 {
			if r.Chance(2, 3) {
				argv = append(argv, fmt.Sprint(r.Range(1, 600)))
			} else {
				argv = append(argv, vfutil.Pick(r, ttls))
			}
		} else {
			argv = append(argv, vfutil.Pick(r, vals))
		}
	}
	// evaluate on a scratch store with the double's interpreter
	scratch := &vfLeaseStore{now: now, data: map[string]vfEntry{}, parsed: rn.st.parsed, parseErr: rn.st.parseErr}
	var initParts []string
	for i, k := range initK {
		scratch.data[k] = initE[i]
		initParts = append(initParts, fmt.Sprintf("%s=%s@%d", vfutil.HexS(k), vfutil.HexS(initE[i].val), initE[i].exp))
	}
	initS := "."
	if len(initParts) > 0 {
		initS = strings.Join(initParts, ",")
	}
	rn.st.mu.Lock()
	rp := scratch.evalScript(text, keys, argv)
	rn.st.mu.Unlock()
	var rs string
	switch rp.kind {
	case ':':
		rs = fmt.Sprintf("int:%d", rp.n)
	case '$':
		rs = "bulk:" + vfutil.HexS(rp.s)
	case '_':
		rs = "nil"
	case '+':
		rs = "status"
	default:
		rs = "err"
	}
	var items []string
	for _, k := range vfC15Dedup(append(append([]string{}, initK...), keys...)) {
		if e, ok := scratch.live(k); ok {
			items = append(items, fmt.Sprintf("%s=%s@%d", vfutil.HexS(k), vfutil.HexS(e.val), e.exp))
		}
	}
	view := "."
	if len(items) > 0 {
		view = strings.Join(items, ",")
	}
	s.Op(fmt.Sprintf("lua %d %s %d %s %s %s", idx, which, now, initS, vfC15HexList(keys), vfC15HexList(argv)),
		fmt.Sprintf("#%d %s S=%s", idx, rs, view))
	s.Count("lua_" + which + "_" + strings.SplitN(rs, ":", 2)[0])
}

// ------------------------------------------------------------ test

func TestVerifC15(t *testing.T) {
	s := vfutil.NewSession("C15")
	defer s.Close()
	r := vfutil.NewRand(vfutil.Seed())

	st, err := vfNewLeaseStore()
	if err != nil {
		t.Fatal(err)
	}
	defer st.Close()
	rn := &vfC15Runner{t: t, s: s, st: st, pool: map[string]vfC15Conn{},
		cfg: config.RedisConfig{Addresses: []string{st.Addr()}, Type: config.RedisTypeStandalone}}

	// capture the two scripts as the real code sends them, and the Redis
	// requests each kind of call issues
	{
		in := &vfC15Inst{id: "probe", ttl: 5}
		rn.dial(in)
		el := in.election("probe-key")
		reqs := func(f func()) string {
			st.mu.Lock()
			st.reqLog = nil
			st.lastScript = ""
			st.mu.Unlock()
			f()
			st.mu.Lock()
			defer st.mu.Unlock()
			if len(st.reqLog) == 0 {
				return "none"
			}
			return strings.Join(st.reqLog, "+")
		}
		rc := reqs(func() {
			if _, err := el.Campaign(context.Background()); err != nil {
				s.Count("probe_campaign_failed") // nobody can lead: not a safety clause; the trace ops show it
			}
		})
		rn.campS = st.lastScript
		rr := reqs(func() { el.Renew(context.Background()) })
		rl := reqs(func() { el.Leader(context.Background()) })
		rx := reqs(func() {
			if err := el.Resign(context.Background()); err != nil {
				s.Count("probe_resign_failed")
			}
		})
		rn.resS = st.lastScript
		in.cl.Close()
		// the model is of calls that are ONE atomic request each
		s.Op(fmt.Sprintf("requests %d", rn.nOps), fmt.Sprintf("#%d campaign=%s renew=%s leader=%s resign=%s", rn.nOps, rc, rr, rl, rx))
		rn.nOps++
		for _, q := range []string{rc, rr, rl, rx} {
			s.Count("requests_per_call_" + q)
		}
	}

	defer func() {
		for _, c := range rn.pool {
			c.cl.Close()
		}
	}()

	// replay of a recorded failing event list
	if p := os.Getenv("VERIF_REPLAY"); p != "" {
		var rec struct {
			Replay map[string]interface{} `json:"replay"`
		}
		if b, err := os.ReadFile(p); err == nil && json.Unmarshal(b, &rec) == nil {
			if op, ok := rec.Replay["trace"].(string); ok {
				tr, err := vfC15ParseTrace(op)
				if err != nil {
					t.Fatalf("replay: %v", err)
				}
				rn.runTrace(tr, "replay")
				return
			}
		}
	}

	// corpus first
	for _, l := range vfutil.Corpus("C15") {
		if !strings.HasPrefix(l, "trace ") { // other C15 harnesses' witnesses
			continue
		}
		tr, err := vfC15ParseTrace(l)
		if err != nil {
			t.Fatalf("corpus line %q: %v", l, err)
		}
		rn.runTrace(tr, "corpus")
	}

	// exhaustive small scope: two instances, one key, all event lists of
	// length <= L over {campaign a, campaign b, renew a, resign a, resign b,
	// tick ttl/2, tick ttl+1, lost-applied campaign b}
	{
		alpha := []vfC15Ev{
			{kind: "c", key: "k", inst: 0}, {kind: "c", key: "k", inst: 1}, {kind: "r", key: "k", inst: 0},
			{kind: "x", key: "k", inst: 0}, {kind: "x", key: "k", inst: 1},
			{kind: "t", delta: 1500}, {kind: "t", delta: 3001},
			{kind: "lc", key: "k", inst: 1, applied: true, how: "e"},
		}
		maxLen := vfutil.Scale(4, 5)
		var rec func(prefix []vfC15Ev)
		rec = func(prefix []vfC15Ev) {
			if len(prefix) > 0 {
				evs := append([]vfC15Ev{}, prefix...)
				rn.runTrace(&vfC15Trace{now0: 7, ids: []string{"a", "b"}, ttls: []int{3, 3}, evs: evs}, "exhaustive")
			}
			if len(prefix) == maxLen {
				return
			}
			for _, e := range alpha {
				rec(append(prefix, e))
			}
		}
		rec(nil)
	}

	// request-level windows: a's call is held after its k-th request while
	// its lease runs out / b acts, then released, then somebody campaigns.
	// ALL windows of length <= W over {tick ttl/2, tick ttl+1, campaign b,
	// renew b, resign b} for every kind of call, k, and a few prefixes.
	{
		k := "k"
		pres := [][]vfC15Ev{
			{},
			{{kind: "c", key: k, inst: 0}},
			{{kind: "c", key: k, inst: 0}, {kind: "t", delta: 1500}},
			{{kind: "c", key: k, inst: 0}, {kind: "t", delta: 3000}},
			{{kind: "c", key: k, inst: 1}, {kind: "t", delta: 2999}},
		}
		wa := []vfC15Ev{{kind: "t", delta: 1500}, {kind: "t", delta: 3001}, {kind: "c", key: k, inst: 1},
			{kind: "r", key: k, inst: 1}, {kind: "x", key: k, inst: 1}}
		posts := [][]vfC15Ev{
			{{kind: "c", key: k, inst: 2}, {kind: "r", key: k, inst: 1}},
			{{kind: "c", key: k, inst: 0}},
			{{kind: "r", key: k, inst: 1}, {kind: "t", delta: 3001}, {kind: "c", key: k, inst: 2}},
		}
		maxW := vfutil.Scale(2, 3)
		var windows [][]vfC15Ev
		var rec func(w []vfC15Ev)
		rec = func(w []vfC15Ev) {
			if len(w) > 0 {
				windows = append(windows, append([]vfC15Ev{}, w...))
			}
			if len(w) == maxW {
				return
			}
			for _, e := range wa {
				rec(append(w, e))
			}
		}
		rec(nil)
		for _, pre := range pres {
			for _, sub := range []string{"c", "r", "x", "l"} {
				for pk := 1; pk <= 2; pk++ {
					for _, w := range windows {
						for _, post := range posts {
							var evs []vfC15Ev
							evs = append(evs, pre...)
							evs = append(evs, vfC15Ev{kind: "p", sub: sub, key: k, inst: 0, pk: pk})
							evs = append(evs, w...)
							evs = append(evs, vfC15Ev{kind: "g", inst: 0})
							evs = append(evs, post...)
							rn.runTrace(&vfC15Trace{now0: 7, ids: []string{"a", "b", "c"}, ttls: []int{3, 3, 3}, evs: evs}, "windows")
						}
					}
				}
			}
		}
	}

	// generated event lists
	for i := 0; i < vfutil.Scale(5000, 60000); i++ {
		rn.runTrace(vfC15Gen(r), "gen")
	}

	// the double's Lua interpreter vs Lean evalLua on the generated AST
	for i := 0; i < vfutil.Scale(6000, 100000); i++ {
		rn.luaOp(r)
	}

	// ---- answers that come AFTER the caller's deadline (cmd/syncer.go gives every election call a context with a
	// deadline): a leads, one of its calls (renew / campaign / resign) is answered late, then ALL lists of
	// length <= 3 (quick) / <= 4 (thorough) of ordinary events on the SAME election object: every later call must
	// get the store's answer to that call (a stale answer kept from the abandoned call is told-leader-while-the-
	// store-names-another: monitors success-over-foreign-lease / success-without-lease / two-holders)
	{
		alpha := []vfC15Ev{
			{kind: "x", key: "k", inst: 0}, {kind: "c", key: "k", inst: 1}, {kind: "c", key: "k", inst: 0},
			{kind: "r", key: "k", inst: 0}, {kind: "t", delta: 3001}, {kind: "r", key: "k", inst: 1},
		}
		maxLen := vfutil.Scale(3, 4)
		for _, sub := range []string{"r", "c", "x"} {
			var rec func(suffix []vfC15Ev)
			rec = func(suffix []vfC15Ev) {
				if len(suffix) > 0 {
					evs := append([]vfC15Ev{{kind: "c", key: "k", inst: 0}, {kind: "late", sub: sub, key: "k", inst: 0}}, suffix...)
					rn.runTrace(&vfC15Trace{now0: 7, ids: []string{"a", "b"}, ttls: []int{3, 3}, evs: evs}, "late_answers")
				}
				if len(suffix) == maxLen {
					return
				}
				for _, e := range alpha {
					rec(append(append([]vfC15Ev{}, suffix...), e))
				}
			}
			rec(nil)
		}
	}

	// ---- DIMENSIONS drawn by force (session 5 audit), ALL lists of length <= 3 over the exhaustive alphabet each:
	//  noTTL-stranger : the key holds a stranger's value WITHOUT expiry (a PERSISTed / hand-written key): nobody may win, ever
	//  noTTL-own      : the key holds a's own value without expiry (an earlier incarnation's lease that was PERSISTed):
	//                   a's campaign must succeed AND give it an expiry (EXPIRE), b must lose
	//  prefix-ids     : instance ids "a" and "ab" (one a prefix of the other), the key holding "a" resp. "ab": Lua == is exact
	//  empty-id       : instance ids "" and "a"
	//  cancelled-ctx  : a call made with an already cancelled context in every position
	{
		const never = int64(1) << 62
		type variant struct {
			name string
			ids  []string
			k    []string
			e    []vfEntry
		}
		variants := []variant{
			{"noTTL_stranger", []string{"a", "b"}, []string{"k"}, []vfEntry{{val: "z", exp: never}}},
			{"noTTL_own", []string{"a", "b"}, []string{"k"}, []vfEntry{{val: "a", exp: never}}},
			{"prefix_ids_holder_short", []string{"ab", "a"}, []string{"k"}, []vfEntry{{val: "a", exp: 5000}}},
			{"prefix_ids_holder_long", []string{"a", "ab"}, []string{"k"}, []vfEntry{{val: "ab", exp: 5000}}},
			{"empty_id", []string{"", "a"}, nil, nil},
			{"cancelled_ctx", []string{"a", "b"}, nil, nil},
		}
		base := []vfC15Ev{
			{kind: "c", key: "k", inst: 0}, {kind: "c", key: "k", inst: 1}, {kind: "r", key: "k", inst: 0},
			{kind: "x", key: "k", inst: 0}, {kind: "x", key: "k", inst: 1},
			{kind: "t", delta: 1500}, {kind: "t", delta: 3001}, {kind: "l", key: "k", inst: 1},
		}
		for _, v := range variants {
			alpha := base
			if v.name == "cancelled_ctx" {
				alpha = append(append([]vfC15Ev{}, base...), vfC15Ev{kind: "can", sub: "c", key: "k", inst: 0},
					vfC15Ev{kind: "can", sub: "r", key: "k", inst: 0}, vfC15Ev{kind: "can", sub: "x", key: "k", inst: 0})
			}
			var rec func(prefix []vfC15Ev)
			rec = func(prefix []vfC15Ev) {
				if len(prefix) > 0 {
					rn.runTrace(&vfC15Trace{now0: 7, ids: v.ids, ttls: []int{3, 3}, initK: v.k, initE: v.e,
						evs: append([]vfC15Ev{}, prefix...)}, "dim_"+v.name)
				}
				if len(prefix) == 3 {
					return
				}
				for _, e := range alpha {
					rec(append(append([]vfC15Ev{}, prefix...), e))
				}
			}
			rec(nil)
		}
	}

	// ---- a CLUSTER-type input as lease store (cmd/syncer.go hands Input.Redis to NewRedisCluster as it is):
	// the same event lists through the REAL cluster client (EVAL / GET routed by the key's slot, -MOVED
	// handled by re-issuing the request on the node named) against a 3-node cluster double sharing the lease
	// key space; `mv:<key>:<node>` re-assigns the key's slot (its keys move with it). The model knows no nodes:
	// every answer, the store and the holders must be what the single-store model says, and the monitors apply.
	{
		cst, err := vfNewClusterLeaseStore(3)
		if err != nil {
			t.Fatal(err)
		}
		defer cst.Close()
		rnc := &vfC15Runner{t: t, s: s, st: cst, pool: map[string]vfC15Conn{}, nOps: rn.nOps, campS: rn.campS, resS: rn.resS,
			cfg: config.RedisConfig{Addresses: cst.ClusterAddrs(), Type: config.RedisTypeCluster}}
		defer func() {
			for _, c := range rnc.pool {
				c.cl.Close()
			}
		}()
		for _, l := range vfutil.Corpus("C15") {
			if !strings.HasPrefix(l, "ctrace ") {
				continue
			}
			tr, err := vfC15ParseTrace("trace " + strings.TrimPrefix(l, "ctrace "))
			if err != nil {
				t.Fatalf("corpus line %q: %v", l, err)
			}
			rnc.runTrace(tr, "cluster_corpus")
		}
		// exhaustive: two instances, one key, slot moves between two nodes
		alpha := []vfC15Ev{
			{kind: "c", key: "k", inst: 0}, {kind: "c", key: "k", inst: 1}, {kind: "r", key: "k", inst: 0},
			{kind: "x", key: "k", inst: 0}, {kind: "t", delta: 1500}, {kind: "t", delta: 3001},
			{kind: "lc", key: "k", inst: 1, applied: true, how: "e"},
			{kind: "mv", key: "k", pk: 0}, {kind: "mv", key: "k", pk: 1}, {kind: "l", key: "k", inst: 1},
			{kind: "mg", key: "k", pk: 2}, {kind: "mk", key: "k"},
			{kind: "lm", key: "k", inst: 1, pk: 1}, {kind: "la", key: "k", inst: 0, pk: 2},
		}
		maxLen := vfutil.Scale(3, 4)
		var rec func(prefix []vfC15Ev)
		rec = func(prefix []vfC15Ev) {
			if len(prefix) > 0 {
				rnc.runTrace(&vfC15Trace{now0: 7, ids: []string{"a", "b"}, ttls: []int{3, 3}, evs: append([]vfC15Ev{}, prefix...)}, "cluster_exhaustive")
			}
			if len(prefix) == maxLen {
				return
			}
			for _, e := range alpha {
				rec(append(prefix, e))
			}
		}
		rec(nil)
		for i := 0; i < vfutil.Scale(1500, 20000); i++ {
			rnc.runTrace(vfC15GenCluster(r, 3), "cluster_gen")
		}
		rn.nOps = rnc.nOps
	}
}

// vfC15GenCluster: a generated event list for the cluster lease store: held calls become plain calls, lost
// calls fail with an error reply, and slot moves of the election keys are mixed in.
func vfC15GenCluster(r *vfutil.Rand, nodes int) *vfC15Trace {
	tr := vfC15Gen(r)
	var keys []string
	for _, ev := range tr.evs {
		if ev.key != "" {
			keys = append(keys, ev.key)
		}
	}
	keys = vfC15Dedup(append(keys, tr.initK...))
	var evs []vfC15Ev
	for _, ev := range tr.evs {
		switch ev.kind {
		case "g":
			continue
		case "p":
			ev = vfC15Ev{kind: ev.sub, key: ev.key, inst: ev.inst}
		case "lc", "lx":
			ev.how = "e"
		}
		if len(keys) > 0 && r.Chance(1, 5) {
			evs = append(evs, vfC15Ev{kind: "mv", key: vfutil.Pick(r, keys), pk: r.Intn(nodes)})
		}
		if len(keys) > 0 && r.Chance(1, 5) {
			evs = append(evs, vfC15Ev{kind: "mg", key: vfutil.Pick(r, keys), pk: r.Intn(nodes)})
		}
		if len(keys) > 0 && r.Chance(1, 6) {
			evs = append(evs, vfC15Ev{kind: "mk", key: vfutil.Pick(r, keys)})
		}
		evs = append(evs, ev)
	}
	tr.evs = evs
	return tr
}
