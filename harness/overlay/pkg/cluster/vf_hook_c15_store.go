//go:build verif

package cluster

// Lease-store double for C15: a RESP server on 127.0.0.1 with string keys
// that expire on a harness-controlled logical clock (milliseconds), the
// commands the election code uses (PING GET SET..EX EXPIRE DEL EVAL), and a
// small interpreter of the Lua subset the election scripts are written in
// (independent of the extractor's parser and of the Lean evaluator; the three
// are diffed against each other). Fault injection: the next data request can
// be answered with an error or by dropping the connection, before or after it
// was executed. Request-level scheduling: the harness can have the (k+1)-th
// request of one connection held until it says so (armPause).
//
// Non-test file under tag `verif` (never part of a normal build) so that the
// harness in package cmd can use the same double (Verif* API at the end).

import (
	"bufio"
	"fmt"
	"io"
	"net"
	"strconv"
	"strings"
	"sync"

	"github.com/mgtv-tech/redis-GunYu/pkg/vfdoubles"
)

// ------------------------------------------------------------ store

type vfEntry struct {
	val string
	exp int64 // absolute expiry, ms; live while now <= exp
}

type vfFail int

const (
	vfFailNone vfFail = iota
	vfFailErrBefore
	vfFailErrAfter
	vfFailDropBefore
	vfFailDropAfter
)

type vfLeaseStore struct {
	mu         sync.Mutex
	now        int64
	data       map[string]vfEntry
	fail       vfFail
	lastScript string
	evals      int
	ln         net.Listener
	parsed     map[string]*vfLuaChunk
	parseErr   map[string]error

	// connections are numbered in accept order; lastPingConn is the
	// connection that most recently sent PING (NewRedisConn pings once, so
	// right after a dial it identifies the new client's connection)
	nextConn     int
	lastPingConn int
	reqLog       []string // data requests (upper-case command names) since the harness last cleared it

	// request-level scheduling: the harness arms a pause for one connection;
	// the first pauseAfter data requests on it are served normally, the next
	// one is HELD (not executed) until the harness releases it. A call that
	// issues at most pauseAfter requests is not affected at all.
	pauseConn  int // -1: none
	pauseAfter int
	pauseSeen  int
	pausedCh   chan struct{}
	releaseCh  chan struct{}

	lastEvalKeys  []string
	lastEvalArgv  []string
	lastEvalReply vfReply

	// hold the REPLY of the next EVAL (already executed) until released
	holdEval     bool
	evalHeldCh   chan struct{}
	evalReleaseC chan struct{}

	// cluster mode (vfNewClusterLeaseStore): several listeners = nodes of one Redis Cluster sharing
	// this key space; a slot has one owner; a data request for a key of a slot the receiving node
	// does not own is answered -MOVED <slot> <owner address> and NOT executed (cluster.c
	// getNodeByQuery); CLUSTER SLOTS describes the table. Re-assigning a slot (VerifMoveSlot)
	// moves its keys with it (a completed resharding as the client sees it: the keys are one
	// shared map). ASK / importing-migrating: below. Not transcribed: replicas, fail-over.
	clusterOn bool
	nodeLns   []net.Listener
	nodeAddrs []string
	slotOwner [16384]int16
	moved     int // requests answered with -MOVED
	movedLog  []string
	// ASK (session 5; Model/LeaseCluster.lean `serve`): a slot may be MIGRATING from its owner to another
	// node (IMPORTING there). The key space is one shared map; atTarget marks the keys that are at the
	// importing node (MIGRATEd there, or created there through ASKING). The owner serves a key it still
	// has and answers -ASK <slot> <importing node> (nothing executed) for one it has not; the importing
	// node serves a request only if the connection sent ASKING just before, else -MOVED <owner>.
	migTo    [16384]int16 // 0 = not migrating, else importing node + 1
	atTarget map[string]bool
	asking   map[int]bool // connection id -> ASKING received (applies to its next data request)
	asked    int          // requests answered with -ASK
	askServed int         // requests served by an importing node after ASKING
	// COUNTED budget of redirections (-MOVED / -ASK) between two harness events: a correct client needs at most
	// two per call (stale node -> owner -> importing node); a client that loops (ASKING forgotten, -ASK followed
	// like -MOVED, …) would otherwise hang the check. Once the budget is spent the node answers a plain error
	// (nothing executed): the call returns, the model diff names the trace. No clock involved.
	redirLeft  int
	redirSpent int // requests refused because the budget was spent
	// every EVAL in order: <C campaign script | X resign script>:<ARGV[1]>:<integer reply> (C15loop)
	evalLogOn bool
	evalLog   []string
	// resharding in the middle of a two-request call (VerifArmMidCall)
	midKey     string
	midNode    int
	midMigrate bool
	midArmed   bool
	midFired   bool
}

func (st *vfLeaseStore) VerifEvalLog(on bool) {
	st.mu.Lock()
	st.evalLogOn, st.evalLog = on, nil
	st.mu.Unlock()
}

func (st *vfLeaseStore) VerifEvalLogSnapshot() []string {
	st.mu.Lock()
	defer st.mu.Unlock()
	return append([]string(nil), st.evalLog...)
}

// VerifInject: ATOMICALLY (under the store's lock, so that its place among the EVALs is exact) the clock
// advances by `advance` ms and, if val != "", key = val is written with a lifetime of ttlMs (another
// contender won the key); returns the number of EVALs logged before it.
func (st *vfLeaseStore) VerifInject(advance int64, key, val string, ttlMs int64) int {
	st.mu.Lock()
	defer st.mu.Unlock()
	st.now += advance
	if val != "" {
		st.data[key] = vfEntry{val: val, exp: st.now + ttlMs}
	}
	return len(st.evalLog)
}

// VerifSetKey writes key = val with a lifetime of ttlMs on the store's clock (another contender's lease)
func (st *vfLeaseStore) VerifSetKey(key, val string, ttlMs int64) {
	st.mu.Lock()
	st.data[key] = vfEntry{val: val, exp: st.now + ttlMs}
	st.mu.Unlock()
}

const vfRedirBudget = 16

// VerifResetRedirects: a new harness event starts (the budget is per event)
func (st *vfLeaseStore) VerifResetRedirects() {
	st.mu.Lock()
	st.redirLeft = vfRedirBudget
	st.mu.Unlock()
}

func (st *vfLeaseStore) VerifRedirectsRefused() int {
	st.mu.Lock()
	defer st.mu.Unlock()
	return st.redirSpent
}

// redirectLocked: one more redirection; false = the budget is spent (st.mu held)
func (st *vfLeaseStore) redirectLocked() bool {
	if st.redirLeft <= 0 {
		st.redirSpent++
		return false
	}
	st.redirLeft--
	return true
}

var vfRedirRefused = vfReply{kind: '-', s: "ERR vf: redirection budget of this event is spent (client follows redirections in a loop)"}

func (st *vfLeaseStore) armPause(conn, after int) {
	st.mu.Lock()
	st.pauseConn, st.pauseAfter, st.pauseSeen = conn, after, 0
	st.pausedCh = make(chan struct{}, 1)
	st.releaseCh = make(chan struct{})
	st.mu.Unlock()
}

func (st *vfLeaseStore) disarmPause() {
	st.mu.Lock()
	st.pauseConn = -1
	st.mu.Unlock()
}

func vfNewLeaseStore() (*vfLeaseStore, error) {
	ln, err := net.Listen("tcp", "127.0.0.1:0")
	if err != nil {
		return nil, err
	}
	st := &vfLeaseStore{data: map[string]vfEntry{}, ln: ln, parsed: map[string]*vfLuaChunk{}, parseErr: map[string]error{}, pauseConn: -1}
	go st.acceptLoop()
	return st, nil
}

// vfNewClusterLeaseStore: n nodes; slots are dealt out evenly in contiguous ranges.
func vfNewClusterLeaseStore(n int) (*vfLeaseStore, error) {
	st := &vfLeaseStore{data: map[string]vfEntry{}, parsed: map[string]*vfLuaChunk{}, parseErr: map[string]error{}, pauseConn: -1, clusterOn: true,
		atTarget: map[string]bool{}, asking: map[int]bool{}, redirLeft: vfRedirBudget}
	for i := 0; i < n; i++ {
		ln, err := net.Listen("tcp", "127.0.0.1:0")
		if err != nil {
			return nil, err
		}
		st.nodeLns = append(st.nodeLns, ln)
		st.nodeAddrs = append(st.nodeAddrs, ln.Addr().String())
	}
	st.ln = st.nodeLns[0]
	for sl := 0; sl < 16384; sl++ {
		st.slotOwner[sl] = int16(sl * n / 16384)
	}
	for i, ln := range st.nodeLns {
		go st.acceptLoopOn(ln, i)
	}
	return st, nil
}

func (st *vfLeaseStore) acceptLoopOn(ln net.Listener, node int) {
	for {
		c, err := ln.Accept()
		if err != nil {
			return
		}
		st.mu.Lock()
		id := st.nextConn
		st.nextConn++
		st.mu.Unlock()
		go st.serveNode(c, id, node)
	}
}

// keys a data request names (for the slot check)
func vfKeysOf(args []string) []string {
	if len(args) < 2 {
		return nil
	}
	switch strings.ToUpper(args[0]) {
	case "GET", "SET", "EXPIRE", "DEL":
		return args[1:2]
	case "EVAL":
		if len(args) < 3 {
			return nil
		}
		nk, err := strconv.Atoi(args[2])
		if err != nil || nk < 0 || 3+nk > len(args) {
			return nil
		}
		return args[3 : 3+nk]
	}
	return nil
}

// movedLocked: the redirect a node gives for a request it must not serve (st.mu held)
func (st *vfLeaseStore) movedLocked(node int, conn int, args []string) (vfReply, bool) {
	if !st.clusterOn {
		return vfReply{}, false
	}
	keys := vfKeysOf(args)
	if len(keys) == 0 {
		return vfReply{}, false
	}
	asking := st.asking[conn]
	delete(st.asking, conn) // one-shot: the flag covers the next data request only
	slot := vfdoubles.ClusterSlot(keys[0])
	for _, k := range keys[1:] {
		if vfdoubles.ClusterSlot(k) != slot {
			return vfReply{kind: '-', s: "CROSSSLOT Keys in request don't hash to the same slot"}, true
		}
	}
	owner := int(st.slotOwner[slot])
	mig := int(st.migTo[slot]) - 1
	if owner == node {
		if mig >= 0 {
			if _, live := st.live(keys[0]); !live || st.atTarget[keys[0]] {
				if !st.redirectLocked() {
					return vfRedirRefused, true
				}
				st.asked++
				return vfReply{kind: '-', s: fmt.Sprintf("ASK %d %s", slot, st.nodeAddrs[mig])}, true
			}
		}
		return vfReply{}, false
	}
	if mig == node && asking {
		// served by the importing node: whatever key this request leaves behind is there
		st.atTarget[keys[0]] = true
		st.askServed++
		return vfReply{}, false
	}
	if !st.redirectLocked() {
		return vfRedirRefused, true
	}
	st.moved++
	st.movedLog = append(st.movedLog, strings.ToUpper(args[0]))
	return vfReply{kind: '-', s: fmt.Sprintf("MOVED %d %s", slot, st.nodeAddrs[owner])}, true
}

func (st *vfLeaseStore) clusterSlotsLocked() string {
	var sb strings.Builder
	type rng struct{ a, b, o int }
	var rs []rng
	start := 0
	for sl := 1; sl <= 16384; sl++ {
		if sl == 16384 || st.slotOwner[sl] != st.slotOwner[start] {
			rs = append(rs, rng{start, sl - 1, int(st.slotOwner[start])})
			start = sl
		}
	}
	fmt.Fprintf(&sb, "*%d\r\n", len(rs))
	for _, r := range rs {
		host, port, _ := net.SplitHostPort(st.nodeAddrs[r.o])
		id := fmt.Sprintf("%040d", r.o)
		fmt.Fprintf(&sb, "*3\r\n:%d\r\n:%d\r\n*3\r\n$%d\r\n%s\r\n:%s\r\n$%d\r\n%s\r\n", r.a, r.b, len(host), host, port, len(id), id)
	}
	return sb.String()
}

func (st *vfLeaseStore) Addr() string { return st.ln.Addr().String() }
func (st *vfLeaseStore) Close() {
	st.ln.Close()
	for _, ln := range st.nodeLns {
		ln.Close()
	}
}

func (st *vfLeaseStore) acceptLoop() {
	for {
		c, err := st.ln.Accept()
		if err != nil {
			return
		}
		st.mu.Lock()
		id := st.nextConn
		st.nextConn++
		st.mu.Unlock()
		go st.serve(c, id)
	}
}

// live returns the entry of key if it is unexpired at the store's clock
// (Redis keyIsExpired: expired iff now > when).
func (st *vfLeaseStore) live(key string) (vfEntry, bool) {
	e, ok := st.data[key]
	if !ok {
		return vfEntry{}, false
	}
	if st.now > e.exp {
		delete(st.data, key)
		return vfEntry{}, false
	}
	return e, true
}

// reply kinds
type vfReply struct {
	kind byte // ':' int, '$' bulk, '_' nil bulk, '+' status, '-' error
	n    int64
	s    string
}

func vfParseTTL(s string) (int64, bool) {
	if s == "" {
		return 0, false
	}
	for i := 0; i < len(s); i++ {
		if s[i] < '0' || s[i] > '9' {
			return 0, false
		}
	}
	if len(s) > 15 {
		return 0, false
	}
	n, err := strconv.ParseInt(s, 10, 64)
	if err != nil {
		return 0, false
	}
	return n, true
}

// exec runs one data command at the current clock. Caller holds st.mu.
func (st *vfLeaseStore) exec(args []string) vfReply {
	if len(args) == 0 {
		return vfReply{kind: '-', s: "ERR empty command"}
	}
	switch strings.ToUpper(args[0]) {
	case "PING":
		return vfReply{kind: '+', s: "PONG"}
	case "CLUSTER":
		if st.clusterOn && len(args) == 2 && strings.ToUpper(args[1]) == "SLOTS" {
			return vfReply{kind: 'R', s: st.clusterSlotsLocked()}
		}
		return vfReply{kind: '-', s: "ERR This instance has cluster support disabled"}
	case "COMMAND": // the cluster client asks a node where the keys of a command it has no table entry for are (GET)
		if len(args) >= 3 && strings.ToUpper(args[1]) == "GETKEYS" {
			keys := vfKeysOf(args[2:])
			if len(keys) == 0 {
				return vfReply{kind: '-', s: "ERR Invalid command specified"}
			}
			var sb strings.Builder
			fmt.Fprintf(&sb, "*%d\r\n", len(keys))
			for _, k := range keys {
				fmt.Fprintf(&sb, "$%d\r\n%s\r\n", len(k), k)
			}
			if st.midArmed {
				st.midArmed, st.midFired = false, true
				if st.midMigrate {
					if st.beginMigrateLocked(st.midKey, st.midNode) {
						if _, live := st.live(st.midKey); live {
							st.atTarget[st.midKey] = true
						}
					}
				} else {
					st.moveSlotLocked(st.midKey, st.midNode)
				}
			}
			return vfReply{kind: 'R', s: sb.String()}
		}
		return vfReply{kind: '-', s: "ERR double supports COMMAND GETKEYS only"}
	case "INFO": // enough for redis.GetRedisRoleOnline on a standalone input
		return vfReply{kind: '$', s: "# Server\r\nredis_version:7.0.0\r\n# Replication\r\nrole:master\r\nconnected_slaves:0\r\n"}
	case "GET":
		if len(args) != 2 {
			return vfReply{kind: '-', s: "ERR wrong number of arguments for 'get' command"}
		}
		if e, ok := st.live(args[1]); ok {
			return vfReply{kind: '$', s: e.val}
		}
		return vfReply{kind: '_'}
	case "SET":
		if len(args) == 5 && strings.ToUpper(args[3]) == "EX" {
			t, ok := vfParseTTL(args[4])
			if !ok {
				return vfReply{kind: '-', s: "ERR value is not an integer or out of range"}
			}
			if t == 0 {
				return vfReply{kind: '-', s: "ERR invalid expire time in 'set' command"}
			}
			st.data[args[1]] = vfEntry{val: args[2], exp: st.now + t*1000}
			return vfReply{kind: '+', s: "OK"}
		}
		return vfReply{kind: '-', s: "ERR syntax error (double supports SET key value EX seconds)"}
	case "EXPIRE":
		if len(args) != 3 {
			return vfReply{kind: '-', s: "ERR wrong number of arguments for 'expire' command"}
		}
		t, ok := vfParseTTL(args[2])
		if !ok {
			return vfReply{kind: '-', s: "ERR value is not an integer or out of range"}
		}
		e, live := st.live(args[1])
		if !live {
			return vfReply{kind: ':', n: 0}
		}
		if t == 0 {
			delete(st.data, args[1])
			return vfReply{kind: ':', n: 1}
		}
		st.data[args[1]] = vfEntry{val: e.val, exp: st.now + t*1000}
		return vfReply{kind: ':', n: 1}
	case "DEL":
		if len(args) != 2 {
			return vfReply{kind: '-', s: "ERR double supports DEL with one key"}
		}
		if _, live := st.live(args[1]); live {
			delete(st.data, args[1])
			return vfReply{kind: ':', n: 1}
		}
		return vfReply{kind: ':', n: 0}
	case "EVAL":
		if len(args) < 3 {
			return vfReply{kind: '-', s: "ERR wrong number of arguments for 'eval' command"}
		}
		nk, err := strconv.Atoi(args[2])
		if err != nil || nk < 0 || 3+nk > len(args) {
			return vfReply{kind: '-', s: "ERR Number of keys can't be greater than number of args"}
		}
		st.lastScript = args[1]
		st.evals++
		rp := st.evalScript(args[1], args[3:3+nk], args[3+nk:])
		st.lastEvalKeys = append([]string{}, args[3:3+nk]...)
		st.lastEvalArgv = append([]string{}, args[3+nk:]...)
		st.lastEvalReply = rp
		if st.evalLogOn {
			kind := "C" // campaign script (SET … EX / EXPIRE)
			if strings.Contains(args[1], "'DEL'") && !strings.Contains(args[1], "'SET'") {
				kind = "X" // resign script
			}
			id := ""
			if 3+nk < len(args) {
				id = args[3+nk]
			}
			st.evalLog = append(st.evalLog, fmt.Sprintf("%s:%s:%d", kind, id, rp.n))
		}
		return rp
	}
	return vfReply{kind: '-', s: "ERR unknown command '" + args[0] + "'"}
}

func (st *vfLeaseStore) evalScript(text string, keys, argv []string) vfReply {
	ch, ok := st.parsed[text]
	if !ok {
		if _, bad := st.parseErr[text]; !bad {
			c, err := vfLuaParse(text)
			if err != nil {
				st.parseErr[text] = err
			} else {
				st.parsed[text] = c
				ch = c
			}
		}
	}
	if ch == nil {
		return vfReply{kind: '-', s: "ERR Error compiling script: " + st.parseErr[text].Error()}
	}
	return vfLuaRun(ch, st, keys, argv)
}

// ------------------------------------------------------------ RESP server

func vfReadCommand(r *bufio.Reader) ([]string, error) {
	line, err := r.ReadString('\n')
	if err != nil {
		return nil, err
	}
	line = strings.TrimRight(line, "\r\n")
	if len(line) == 0 || line[0] != '*' {
		return nil, fmt.Errorf("double: expected array, got %q", line)
	}
	n, err := strconv.Atoi(line[1:])
	if err != nil || n < 0 {
		return nil, fmt.Errorf("double: bad array length %q", line)
	}
	args := make([]string, 0, n)
	for i := 0; i < n; i++ {
		h, err := r.ReadString('\n')
		if err != nil {
			return nil, err
		}
		h = strings.TrimRight(h, "\r\n")
		if len(h) == 0 || h[0] != '$' {
			return nil, fmt.Errorf("double: expected bulk, got %q", h)
		}
		l, err := strconv.Atoi(h[1:])
		if err != nil || l < 0 {
			return nil, fmt.Errorf("double: bad bulk length %q", h)
		}
		buf := make([]byte, l+2)
		if _, err := io.ReadFull(r, buf); err != nil {
			return nil, err
		}
		args = append(args, string(buf[:l]))
	}
	return args, nil
}

func vfWriteReply(w *bufio.Writer, rp vfReply) error {
	switch rp.kind {
	case ':':
		fmt.Fprintf(w, ":%d\r\n", rp.n)
	case '$':
		fmt.Fprintf(w, "$%d\r\n%s\r\n", len(rp.s), rp.s)
	case '_':
		w.WriteString("$-1\r\n")
	case '+':
		fmt.Fprintf(w, "+%s\r\n", rp.s)
	case 'R': // pre-rendered reply
		w.WriteString(rp.s)
	default:
		fmt.Fprintf(w, "-%s\r\n", rp.s)
	}
	return w.Flush()
}

func (st *vfLeaseStore) serve(c net.Conn, id int) { st.serveNode(c, id, 0) }

func (st *vfLeaseStore) serveNode(c net.Conn, id int, node int) {
	defer c.Close()
	r := bufio.NewReader(c)
	w := bufio.NewWriter(c)
	for {
		args, err := vfReadCommand(r)
		if err != nil {
			return
		}
		st.mu.Lock()
		if st.clusterOn && len(args) == 1 && strings.ToUpper(args[0]) == "ASKING" {
			st.asking[id] = true
			st.mu.Unlock()
			if err := vfWriteReply(w, vfReply{kind: '+', s: "OK"}); err != nil {
				return
			}
			continue
		}
		if mv, isMoved := st.movedLocked(node, id, args); isMoved {
			// a redirect: nothing is executed, no fault / hold applies to it (they wait for the re-issued request)
			st.mu.Unlock()
			if err := vfWriteReply(w, mv); err != nil {
				return
			}
			continue
		}
		mode := vfFailNone
		if len(args) > 0 {
			up := strings.ToUpper(args[0])
			if up == "PING" {
				st.lastPingConn = id
			} else if up != "AUTH" && up != "CLUSTER" && up != "COMMAND" {
				if st.pauseConn == id {
					if st.pauseSeen == st.pauseAfter {
						pch, rch := st.pausedCh, st.releaseCh
						st.pauseConn = -1
						st.mu.Unlock()
						pch <- struct{}{}
						<-rch
						st.mu.Lock()
					} else {
						st.pauseSeen++
					}
				}
				st.reqLog = append(st.reqLog, up)
			}
			if up != "PING" && up != "AUTH" && up != "CLUSTER" && up != "COMMAND" { // the cluster client's own housekeeping is never failed
				mode = st.fail
				st.fail = vfFailNone
			}
		}
		var rp vfReply
		switch mode {
		case vfFailErrBefore:
			rp = vfReply{kind: '-', s: "ERR injected failure (not executed)"}
		case vfFailDropBefore:
			st.mu.Unlock()
			return
		default:
			rp = st.exec(args)
		}
		var heldCh, relCh chan struct{}
		if st.holdEval && len(args) > 0 && strings.ToUpper(args[0]) == "EVAL" && mode == vfFailNone {
			st.holdEval = false
			heldCh, relCh = st.evalHeldCh, st.evalReleaseC
		}
		st.mu.Unlock()
		if heldCh != nil {
			heldCh <- struct{}{}
			<-relCh
		}
		switch mode {
		case vfFailErrAfter:
			rp = vfReply{kind: '-', s: "ERR injected failure (executed)"}
		case vfFailDropAfter:
			return
		}
		if err := vfWriteReply(w, rp); err != nil {
			return
		}
	}
}

// ------------------------------------------------------------ Lua subset: lexer

type vfLuaTok struct {
	kind string // id num str sym eof
	text string
}

func vfLuaLex(src string) ([]vfLuaTok, error) {
	var toks []vfLuaTok
	i := 0
	idStart := func(c byte) bool { return c == '_' || (c|0x20 >= 'a' && c|0x20 <= 'z') }
	digit := func(c byte) bool { return c >= '0' && c <= '9' }
	for i < len(src) {
		c := src[i]
		switch {
		case c == ' ' || c == '\t' || c == '\r' || c == '\n':
			i++
		case c == '-' && i+1 < len(src) && src[i+1] == '-':
			if strings.HasPrefix(src[i:], "--[") {
				return nil, fmt.Errorf("long comment")
			}
			for i < len(src) && src[i] != '\n' {
				i++
			}
		case idStart(c):
			j := i
			for j < len(src) && (idStart(src[j]) || digit(src[j])) {
				j++
			}
			toks = append(toks, vfLuaTok{"id", src[i:j]})
			i = j
		case digit(c):
			j := i
			for j < len(src) && digit(src[j]) {
				j++
			}
			if j < len(src) && (src[j] == '.' || idStart(src[j])) {
				return nil, fmt.Errorf("malformed number")
			}
			toks = append(toks, vfLuaTok{"num", src[i:j]})
			i = j
		case c == '\'' || c == '"':
			j := i + 1
			for j < len(src) && src[j] != c {
				if src[j] == '\\' || src[j] == '\n' {
					return nil, fmt.Errorf("unsupported string literal")
				}
				j++
			}
			if j >= len(src) {
				return nil, fmt.Errorf("unterminated string")
			}
			toks = append(toks, vfLuaTok{"str", src[i+1 : j]})
			i = j + 1
		case c == '=' && i+1 < len(src) && src[i+1] == '=':
			toks = append(toks, vfLuaTok{"sym", "=="})
			i += 2
		case strings.IndexByte("=()[],.;", c) >= 0:
			toks = append(toks, vfLuaTok{"sym", string(c)})
			i++
		default:
			return nil, fmt.Errorf("unexpected character %q", c)
		}
	}
	return append(toks, vfLuaTok{"eof", ""}), nil
}

// ------------------------------------------------------------ Lua subset: AST + parser

type vfLuaExpr struct {
	op   string // keys argv var num str false true nil eq
	n    int64
	s    string
	a, b *vfLuaExpr
}

type vfLuaStmt struct {
	op   string // local call if return
	name string
	e    *vfLuaExpr   // local rhs expr / if cond / return value
	call []*vfLuaExpr // redis.call arguments (local … = redis.call / statement)
	thn  []*vfLuaStmt
	els  []*vfLuaStmt
}

type vfLuaChunk struct{ body []*vfLuaStmt }

type vfLuaP struct {
	t []vfLuaTok
	p int
}

func (p *vfLuaP) sym(s string) bool { return p.t[p.p].kind == "sym" && p.t[p.p].text == s }
func (p *vfLuaP) kw(s string) bool  { return p.t[p.p].kind == "id" && p.t[p.p].text == s }
func (p *vfLuaP) want(kind, s string) error {
	if p.t[p.p].kind != kind || p.t[p.p].text != s {
		return fmt.Errorf("expected %q near %q", s, p.t[p.p].text)
	}
	p.p++
	return nil
}

var vfLuaReserved = map[string]bool{"local": true, "if": true, "then": true, "else": true, "end": true, "return": true,
	"elseif": true, "and": true, "or": true, "not": true, "function": true, "for": true, "while": true, "do": true,
	"repeat": true, "until": true, "break": true, "in": true, "goto": true, "redis": true}

func (p *vfLuaP) primary() (*vfLuaExpr, error) {
	t := p.t[p.p]
	p.p++
	switch t.kind {
	case "num":
		n, err := strconv.ParseInt(t.text, 10, 64)
		if err != nil {
			return nil, err
		}
		return &vfLuaExpr{op: "num", n: n}, nil
	case "str":
		return &vfLuaExpr{op: "str", s: t.text}, nil
	case "sym":
		if t.text == "(" {
			e, err := p.expr()
			if err != nil {
				return nil, err
			}
			return e, p.want("sym", ")")
		}
	case "id":
		switch t.text {
		case "false", "true", "nil":
			return &vfLuaExpr{op: t.text}, nil
		case "KEYS", "ARGV":
			if err := p.want("sym", "["); err != nil {
				return nil, err
			}
			if p.t[p.p].kind != "num" {
				return nil, fmt.Errorf("table index must be a literal")
			}
			n, _ := strconv.ParseInt(p.t[p.p].text, 10, 64)
			p.p++
			op := "keys"
			if t.text == "ARGV" {
				op = "argv"
			}
			return &vfLuaExpr{op: op, n: n}, p.want("sym", "]")
		}
		if !vfLuaReserved[t.text] {
			return &vfLuaExpr{op: "var", s: t.text}, nil
		}
	}
	return nil, fmt.Errorf("unexpected %q in expression", t.text)
}

func (p *vfLuaP) expr() (*vfLuaExpr, error) {
	a, err := p.primary()
	if err != nil {
		return nil, err
	}
	if p.sym("==") {
		p.p++
		b, err := p.primary()
		if err != nil {
			return nil, err
		}
		if p.sym("==") {
			return nil, fmt.Errorf("chained ==")
		}
		return &vfLuaExpr{op: "eq", a: a, b: b}, nil
	}
	return a, nil
}

func (p *vfLuaP) redisCall() ([]*vfLuaExpr, error) {
	p.p++ // redis
	if err := p.want("sym", "."); err != nil {
		return nil, err
	}
	if err := p.want("id", "call"); err != nil {
		return nil, err
	}
	if err := p.want("sym", "("); err != nil {
		return nil, err
	}
	var args []*vfLuaExpr
	for {
		e, err := p.expr()
		if err != nil {
			return nil, err
		}
		args = append(args, e)
		if p.sym(",") {
			p.p++
			continue
		}
		break
	}
	return args, p.want("sym", ")")
}

func (p *vfLuaP) blockEnd() bool { return p.kw("else") || p.kw("end") || p.t[p.p].kind == "eof" }

func (p *vfLuaP) block() ([]*vfLuaStmt, error) {
	var out []*vfLuaStmt
	for !p.blockEnd() {
		switch {
		case p.sym(";"):
			p.p++
		case p.kw("local"):
			p.p++
			name := p.t[p.p]
			if name.kind != "id" || vfLuaReserved[name.text] {
				return nil, fmt.Errorf("bad local name %q", name.text)
			}
			p.p++
			if err := p.want("sym", "="); err != nil {
				return nil, err
			}
			st := &vfLuaStmt{op: "local", name: name.text}
			if p.kw("redis") {
				c, err := p.redisCall()
				if err != nil {
					return nil, err
				}
				st.call = c
			} else {
				e, err := p.expr()
				if err != nil {
					return nil, err
				}
				st.e = e
			}
			out = append(out, st)
		case p.kw("redis"):
			c, err := p.redisCall()
			if err != nil {
				return nil, err
			}
			out = append(out, &vfLuaStmt{op: "call", call: c})
		case p.kw("return"):
			p.p++
			st := &vfLuaStmt{op: "return", e: &vfLuaExpr{op: "nil"}}
			if !p.blockEnd() && !p.sym(";") {
				e, err := p.expr()
				if err != nil {
					return nil, err
				}
				st.e = e
			}
			if p.sym(";") {
				p.p++
			}
			if !p.blockEnd() {
				return nil, fmt.Errorf("statement after return")
			}
			out = append(out, st)
		case p.kw("if"):
			p.p++
			c, err := p.expr()
			if err != nil {
				return nil, err
			}
			if err := p.want("id", "then"); err != nil {
				return nil, err
			}
			st := &vfLuaStmt{op: "if", e: c}
			if st.thn, err = p.block(); err != nil {
				return nil, err
			}
			if p.kw("else") {
				p.p++
				if st.els, err = p.block(); err != nil {
					return nil, err
				}
			}
			if err := p.want("id", "end"); err != nil {
				return nil, err
			}
			out = append(out, st)
		default:
			return nil, fmt.Errorf("unexpected %q", p.t[p.p].text)
		}
	}
	return out, nil
}

func vfLuaParse(src string) (*vfLuaChunk, error) {
	toks, err := vfLuaLex(src)
	if err != nil {
		return nil, err
	}
	p := &vfLuaP{t: toks}
	body, err := p.block()
	if err != nil {
		return nil, err
	}
	if p.t[p.p].kind != "eof" {
		return nil, fmt.Errorf("unexpected %q", p.t[p.p].text)
	}
	return &vfLuaChunk{body}, nil
}

// ------------------------------------------------------------ Lua subset: evaluator

// Lua values: nil -> nil, bool, int64, string, vfLuaStatus
type vfLuaStatus struct{ s string }

type vfLuaScope struct {
	vars   map[string]interface{}
	parent *vfLuaScope
}

func (sc *vfLuaScope) get(name string) interface{} {
	for s := sc; s != nil; s = s.parent {
		if v, ok := s.vars[name]; ok {
			return v
		}
	}
	return nil
}

type vfLuaCtx struct {
	st   *vfLeaseStore
	keys []string
	argv []string
}

func (cx *vfLuaCtx) eval(sc *vfLuaScope, e *vfLuaExpr) interface{} {
	switch e.op {
	case "keys", "argv":
		l := cx.keys
		if e.op == "argv" {
			l = cx.argv
		}
		if e.n >= 1 && int(e.n) <= len(l) {
			return l[e.n-1]
		}
		return nil
	case "var":
		return sc.get(e.s)
	case "num":
		return e.n
	case "str":
		return e.s
	case "false":
		return false
	case "true":
		return true
	case "nil":
		return nil
	case "eq":
		a, b := cx.eval(sc, e.a), cx.eval(sc, e.b)
		switch x := a.(type) {
		case nil:
			return b == nil
		case bool:
			y, ok := b.(bool)
			return ok && x == y
		case int64:
			y, ok := b.(int64)
			return ok && x == y
		case string:
			y, ok := b.(string)
			return ok && x == y
		case vfLuaStatus:
			// tables compare by reference; two status values never come
			// from the same call in this subset
			return false
		}
		return false
	}
	panic("vfLua: bad expr " + e.op)
}

func vfLuaTruthy(v interface{}) bool {
	if v == nil {
		return false
	}
	if b, ok := v.(bool); ok {
		return b
	}
	return true
}

// call evaluates redis.call(args…): ok=false means the script aborts.
func (cx *vfLuaCtx) call(sc *vfLuaScope, args []*vfLuaExpr) (interface{}, bool) {
	strs := make([]string, len(args))
	for i, a := range args {
		switch v := cx.eval(sc, a).(type) {
		case string:
			strs[i] = v
		case int64:
			strs[i] = strconv.FormatInt(v, 10)
		default:
			return nil, false // "Lua redis lib command arguments must be strings or integers"
		}
	}
	if len(strs) > 0 && strings.ToUpper(strs[0]) == "EVAL" {
		return nil, false
	}
	rp := cx.st.exec(strs)
	switch rp.kind {
	case ':':
		return rp.n, true
	case '$':
		return rp.s, true
	case '_':
		return false, true
	case '+':
		return vfLuaStatus{rp.s}, true
	}
	return nil, false
}

// run executes a block; returned=true when a return statement was executed.
func (cx *vfLuaCtx) run(sc *vfLuaScope, body []*vfLuaStmt) (val interface{}, returned bool, ok bool) {
	for _, s := range body {
		switch s.op {
		case "local":
			var v interface{}
			if s.call != nil {
				r, ok := cx.call(sc, s.call)
				if !ok {
					return nil, false, false
				}
				v = r
			} else {
				v = cx.eval(sc, s.e)
			}
			sc.vars[s.name] = v
		case "call":
			if _, ok := cx.call(sc, s.call); !ok {
				return nil, false, false
			}
		case "return":
			return cx.eval(sc, s.e), true, true
		case "if":
			br := s.els
			if vfLuaTruthy(cx.eval(sc, s.e)) {
				br = s.thn
			}
			v, ret, ok := cx.run(&vfLuaScope{vars: map[string]interface{}{}, parent: sc}, br)
			if !ok {
				return nil, false, false
			}
			if ret {
				return v, true, true
			}
		}
	}
	return nil, false, true
}

func vfLuaRun(ch *vfLuaChunk, st *vfLeaseStore, keys, argv []string) vfReply {
	cx := &vfLuaCtx{st: st, keys: keys, argv: argv}
	v, _, ok := cx.run(&vfLuaScope{vars: map[string]interface{}{}}, ch.body)
	if !ok {
		return vfReply{kind: '-', s: "ERR Error running script"}
	}
	switch x := v.(type) {
	case nil:
		return vfReply{kind: '_'}
	case bool:
		if x {
			return vfReply{kind: ':', n: 1}
		}
		return vfReply{kind: '_'}
	case int64:
		return vfReply{kind: ':', n: x}
	case string:
		return vfReply{kind: '$', s: x}
	case vfLuaStatus:
		return vfReply{kind: '+', s: x.s}
	}
	return vfReply{kind: '-', s: "ERR unsupported return value"}
}

// ------------------------------------------------------------ API for other packages' harnesses

type VerifLeaseStore = vfLeaseStore

func VerifNewLeaseStore() (*VerifLeaseStore, error) { return vfNewLeaseStore() }

func (st *vfLeaseStore) VerifReset(now int64) {
	st.mu.Lock()
	st.now = now
	st.data = map[string]vfEntry{}
	// a new trace starts from an empty key space: no key is at an importing node; a migration that is
	// under way stays (the next trace then starts inside it)
	if st.atTarget != nil {
		st.atTarget = map[string]bool{}
	}
	st.fail = vfFailNone
	st.pauseConn = -1
	st.mu.Unlock()
}

func (st *vfLeaseStore) VerifAdvance(ms int64) {
	st.mu.Lock()
	st.now += ms
	st.mu.Unlock()
}

func (st *vfLeaseStore) VerifNow() int64 {
	st.mu.Lock()
	defer st.mu.Unlock()
	return st.now
}

// VerifLive returns the unexpired value of key.
func (st *vfLeaseStore) VerifLive(key string) (val string, exp int64, ok bool) {
	st.mu.Lock()
	defer st.mu.Unlock()
	e, ok := st.live(key)
	return e.val, e.exp, ok
}

// VerifLiveKeys lists the unexpired keys (sorted by the caller if needed).
func (st *vfLeaseStore) VerifLiveKeys() []string {
	st.mu.Lock()
	defer st.mu.Unlock()
	var ks []string
	for k := range st.data {
		if _, ok := st.live(k); ok {
			ks = append(ks, k)
		}
	}
	return ks
}

// VerifHoldNext holds the next data request of the connection that most
// recently pinged (i.e. the client dialled last) until VerifRelease.
func (st *vfLeaseStore) VerifHoldNext() {
	st.mu.Lock()
	c := st.lastPingConn
	st.mu.Unlock()
	st.armPause(c, 0)
}

func (st *vfLeaseStore) VerifHeld() <-chan struct{} { return st.pausedCh }
func (st *vfLeaseStore) VerifRelease()              { close(st.releaseCh) }

// VerifHoldEvalReply: the next EVAL (from any connection) is executed, but its
// reply is held until the returned release function is called; the first
// channel is signalled once the script has run.
func (st *vfLeaseStore) VerifHoldEvalReply() (<-chan struct{}, func()) {
	st.mu.Lock()
	defer st.mu.Unlock()
	st.holdEval = true
	st.evalHeldCh = make(chan struct{}, 1)
	st.evalReleaseC = make(chan struct{})
	rel := st.evalReleaseC
	return st.evalHeldCh, func() { close(rel) }
}

// VerifLastEval: KEYS, ARGV and the integer reply (ok=false if the last EVAL
// did not answer an integer) of the most recent EVAL.
func (st *vfLeaseStore) VerifLastEval() (keys, argv []string, reply int64, ok bool) {
	st.mu.Lock()
	defer st.mu.Unlock()
	return st.lastEvalKeys, st.lastEvalArgv, st.lastEvalReply.n, st.lastEvalReply.kind == ':'
}

func (st *vfLeaseStore) VerifEvals() int {
	st.mu.Lock()
	defer st.mu.Unlock()
	return st.evals
}

// ------------------------------------------------------------ cluster mode API

func (st *vfLeaseStore) ClusterAddrs() []string { return append([]string(nil), st.nodeAddrs...) }

// VerifMoveSlot re-assigns the slot of key to node (its keys move with it); returns the slot.
func (st *vfLeaseStore) VerifMoveSlot(key string, node int) int {
	st.mu.Lock()
	defer st.mu.Unlock()
	return st.moveSlotLocked(key, node)
}

func (st *vfLeaseStore) moveSlotLocked(key string, node int) int {
	sl := vfdoubles.ClusterSlot(key)
	st.slotOwner[sl] = int16(node)
	// a migration of that slot is over (SETSLOT NODE everywhere): all its keys are at the owner
	st.migTo[sl] = 0
	for k := range st.atTarget {
		if vfdoubles.ClusterSlot(k) == sl {
			delete(st.atTarget, k)
		}
	}
	return sl
}

// VerifBeginMigrate: the slot of key is MIGRATING from its owner to node (IMPORTING there); false if node
// owns it or it is migrating already.
func (st *vfLeaseStore) VerifBeginMigrate(key string, node int) bool {
	st.mu.Lock()
	defer st.mu.Unlock()
	return st.beginMigrateLocked(key, node)
}

func (st *vfLeaseStore) beginMigrateLocked(key string, node int) bool {
	sl := vfdoubles.ClusterSlot(key)
	if int(st.slotOwner[sl]) == node || st.migTo[sl] != 0 || node < 0 || node >= len(st.nodeAddrs) {
		return false
	}
	st.migTo[sl] = int16(node + 1)
	return true
}

// VerifArmMidCall: right after the next COMMAND GETKEYS is answered (the first of the two requests of Leader()
// through the cluster client) the slot of key moves to node (migrate = false) or starts MIGRATING to it with the
// key already gone over (migrate = true): the resharding happens IN THE MIDDLE of the call.
func (st *vfLeaseStore) VerifArmMidCall(key string, node int, migrate bool) {
	st.mu.Lock()
	st.midKey, st.midNode, st.midMigrate, st.midArmed = key, node, migrate, true
	st.mu.Unlock()
}

func (st *vfLeaseStore) VerifMidCallFired() bool {
	st.mu.Lock()
	defer st.mu.Unlock()
	f := st.midFired
	st.midFired, st.midArmed = false, false
	return f
}

// VerifMigrateKey: MIGRATE of one key of a migrating slot (it is at the importing node from now on)
func (st *vfLeaseStore) VerifMigrateKey(key string) bool {
	st.mu.Lock()
	defer st.mu.Unlock()
	sl := vfdoubles.ClusterSlot(key)
	if st.migTo[sl] == 0 || st.atTarget[key] {
		return false
	}
	if _, live := st.live(key); !live {
		return false
	}
	st.atTarget[key] = true
	return true
}

func (st *vfLeaseStore) VerifAsked() (asked, served int) {
	st.mu.Lock()
	defer st.mu.Unlock()
	return st.asked, st.askServed
}

func (st *vfLeaseStore) VerifOwnerOf(key string) int {
	st.mu.Lock()
	defer st.mu.Unlock()
	return int(st.slotOwner[vfdoubles.ClusterSlot(key)])
}

func (st *vfLeaseStore) VerifMoved() int {
	st.mu.Lock()
	defer st.mu.Unlock()
	return st.moved
}
