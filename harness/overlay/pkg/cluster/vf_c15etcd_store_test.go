//go:build verif && verifc15etcd

package cluster

// In-process double of the etcd server surface the election code uses, for
// the etcd half of C15. There is no etcd binary in the sandbox; the REAL
// clientv3 KV / Txn code (Op -> protobuf request, response decoding) and the
// REAL concurrency.Session run on top of it:
//
//   cli := clientv3.NewCtxClient(ctx)
//   cli.KV    = clientv3.NewKVFromKVClient(<this double as pb.KVClient>, nil)
//   cli.Lease = <this double as clientv3.Lease>
//   sess, _   = concurrency.NewSession(cli, concurrency.WithTTL(ttl))
//   el        = (&etcdCluster{cli, sess}).NewElection(ctx, prefix, id)
//
// so the requests arrive here as the protobuf messages a real server would
// receive (RangeRequest with range_end / sort / limit, PutRequest with lease,
// TxnRequest with compare / success / failure).
//
// Transcribed etcd semantics (trusted, see checks/p/C15.py): one store
// revision; a request that writes gets revision rev+1, keys it creates carry
// it as create revision; a Txn is validated as a whole (empty key anywhere:
// "key is not provided"; a put on the executed branch with an unknown lease:
// "requested lease not found") and applied atomically, reads inside it see its
// earlier writes; Range with range_end = prefix range, sort by CREATE /
// ASCEND, limit; keys attached to a lease vanish when it expires (now >
// deadline on the double's logical clock) or is revoked. Not transcribed: the
// revision consumed by a lease expiry, watch, compaction, auth, nested txns.
//
// Keep-alives are NOT sent by a lessor loop: the harness delivers them as
// events (any schedule, incl. none). Fault injection: the n-th request of a
// call fails before / after it was applied; request-level scheduling: the
// n-th request of a call is held until released.

import (
	"context"
	"errors"
	"sort"
	"sync"

	pb "go.etcd.io/etcd/api/v3/etcdserverpb"
	"go.etcd.io/etcd/api/v3/mvccpb"
	"go.etcd.io/etcd/api/v3/v3rpc/rpctypes"
	clientv3 "go.etcd.io/etcd/client/v3"
	"google.golang.org/grpc"
)

type vfEKV struct {
	key, val        string
	create, mod, ve int64
	lease           int64
}

type vfELease struct {
	ttl  int64
	dl   int64 // live while now <= dl
	gone bool
}

type vfEtcdStore struct {
	mu     sync.Mutex
	kvs    map[string]*vfEKV
	rev    int64
	leases map[int64]*vfELease
	now    int64
	nextID int64

	reqs     map[int]int // requests seen from an instance since the harness reset it
	failInst int
	failReq  int // 1-based request number of the call
	failMode int // 1 = before it is applied, 2 = after
	pauseInst int
	pauseReq  int
	pausedCh  chan struct{}
	releaseCh chan struct{}
	reqLog    []string
}

var errVfInjected = errors.New("vf: injected etcd request failure")

func vfNewEtcdStore(rev, now int64) *vfEtcdStore {
	return &vfEtcdStore{kvs: map[string]*vfEKV{}, rev: rev, now: now, leases: map[int64]*vfELease{},
		reqs: map[int]int{}, failInst: -1, pauseInst: -1, pausedCh: make(chan struct{}), releaseCh: make(chan struct{})}
}

func (st *vfEtcdStore) leaseLive(id int64) bool {
	l, ok := st.leases[id]
	return ok && !l.gone && st.now <= l.dl
}

func (st *vfEtcdStore) expire() {
	for k, kv := range st.kvs {
		if kv.lease != 0 && !st.leaseLive(kv.lease) {
			delete(st.kvs, k)
		}
	}
}

func (st *vfEtcdStore) tick(d int64) {
	st.mu.Lock()
	st.now += d
	st.expire()
	st.mu.Unlock()
}

func (st *vfEtcdStore) keepAlive(id int64) {
	st.mu.Lock()
	if st.leaseLive(id) {
		l := st.leases[id]
		l.dl = st.now + l.ttl*1000
	}
	st.mu.Unlock()
}

// sorted snapshot (by create revision)
func (st *vfEtcdStore) snapshot() []vfEKV {
	st.mu.Lock()
	defer st.mu.Unlock()
	var out []vfEKV
	for _, kv := range st.kvs {
		out = append(out, *kv)
	}
	sort.Slice(out, func(i, j int) bool {
		if out[i].create != out[j].create {
			return out[i].create < out[j].create
		}
		return out[i].key < out[j].key
	})
	return out
}

// gate counts the request, holds it if the harness asked for that, and says
// whether it has to fail before / after being applied
func (st *vfEtcdStore) gate(inst int, what string) (before, after bool) {
	st.mu.Lock()
	st.reqs[inst]++
	n := st.reqs[inst]
	st.reqLog = append(st.reqLog, what)
	pause := st.pauseInst == inst && st.pauseReq == n
	if pause {
		st.pauseInst = -1
	}
	st.mu.Unlock()
	if pause {
		st.pausedCh <- struct{}{}
		<-st.releaseCh
	}
	st.mu.Lock()
	defer st.mu.Unlock()
	if st.failInst == inst && st.failReq == n {
		st.failInst = -1
		return st.failMode == 1, st.failMode == 2
	}
	return false, false
}

func vfEToPB(kv *vfEKV) *mvccpb.KeyValue {
	return &mvccpb.KeyValue{Key: []byte(kv.key), Value: []byte(kv.val), CreateRevision: kv.create,
		ModRevision: kv.mod, Version: kv.ve, Lease: kv.lease}
}

// rangeOn evaluates a RangeRequest on a key space (st.mu held)
func (st *vfEtcdStore) rangeOn(kvs map[string]*vfEKV, r *pb.RangeRequest) *pb.RangeResponse {
	var hit []*vfEKV
	key, end := string(r.Key), string(r.RangeEnd)
	if len(r.RangeEnd) == 0 {
		if kv, ok := kvs[key]; ok {
			hit = append(hit, kv)
		}
	} else {
		for k, kv := range kvs {
			if k >= key && (end == "\x00" || k < end) {
				hit = append(hit, kv)
			}
		}
	}
	less := func(a, b *vfEKV) bool { return a.key < b.key }
	switch r.SortTarget {
	case pb.RangeRequest_CREATE:
		less = func(a, b *vfEKV) bool {
			if a.create != b.create {
				return a.create < b.create
			}
			return a.key < b.key
		}
	case pb.RangeRequest_MOD:
		less = func(a, b *vfEKV) bool { return a.mod < b.mod }
	case pb.RangeRequest_VERSION:
		less = func(a, b *vfEKV) bool { return a.ve < b.ve }
	case pb.RangeRequest_VALUE:
		less = func(a, b *vfEKV) bool { return a.val < b.val }
	}
	if r.SortOrder == pb.RangeRequest_DESCEND {
		sort.Slice(hit, func(i, j int) bool { return less(hit[j], hit[i]) })
	} else {
		sort.Slice(hit, func(i, j int) bool { return less(hit[i], hit[j]) })
	}
	resp := &pb.RangeResponse{Header: &pb.ResponseHeader{Revision: st.rev}, Count: int64(len(hit))}
	if r.Limit > 0 && int64(len(hit)) > r.Limit {
		hit = hit[:r.Limit]
		resp.More = true
	}
	for _, kv := range hit {
		if r.CountOnly {
			break
		}
		p := vfEToPB(kv)
		if r.KeysOnly {
			p.Value = nil
		}
		resp.Kvs = append(resp.Kvs, p)
	}
	return resp
}

func vfECopy(kvs map[string]*vfEKV) map[string]*vfEKV {
	m := make(map[string]*vfEKV, len(kvs))
	for k, v := range kvs {
		c := *v
		m[k] = &c
	}
	return m
}

func (st *vfEtcdStore) putOn(kvs map[string]*vfEKV, r *pb.PutRequest, wrev int64) {
	k := string(r.Key)
	if old, ok := kvs[k]; ok {
		old.val, old.mod, old.lease = string(r.Value), wrev, r.Lease
		old.ve++
		return
	}
	kvs[k] = &vfEKV{key: k, val: string(r.Value), create: wrev, mod: wrev, ve: 1, lease: r.Lease}
}

// putForeign: a client that is no session of the trace writes key = val without a lease (one new revision)
func (st *vfEtcdStore) putForeign(key, val string) {
	st.mu.Lock()
	defer st.mu.Unlock()
	st.rev++
	st.putOn(st.kvs, &pb.PutRequest{Key: []byte(key), Value: []byte(val)}, st.rev)
}

func (st *vfEtcdStore) deleteOn(kvs map[string]*vfEKV, r *pb.DeleteRangeRequest) int64 {
	key, end := string(r.Key), string(r.RangeEnd)
	var n int64
	if len(r.RangeEnd) == 0 {
		if _, ok := kvs[key]; ok {
			delete(kvs, key)
			n++
		}
		return n
	}
	for k := range kvs {
		if k >= key && (end == "\x00" || k < end) {
			delete(kvs, k)
			n++
		}
	}
	return n
}

func (st *vfEtcdStore) cmpOn(kvs map[string]*vfEKV, c *pb.Compare) bool {
	kv := kvs[string(c.Key)]
	var have, want int64
	switch c.Target {
	case pb.Compare_CREATE:
		if kv != nil {
			have = kv.create
		}
		want = c.GetCreateRevision()
	case pb.Compare_MOD:
		if kv != nil {
			have = kv.mod
		}
		want = c.GetModRevision()
	case pb.Compare_VERSION:
		if kv != nil {
			have = kv.ve
		}
		want = c.GetVersion()
	case pb.Compare_LEASE:
		if kv != nil {
			have = kv.lease
		}
		want = c.GetLease()
	case pb.Compare_VALUE:
		v := ""
		if kv != nil {
			v = kv.val
		} else {
			return false // a value compare on a missing key fails
		}
		w := string(c.GetValue())
		switch c.Result {
		case pb.Compare_EQUAL:
			return v == w
		case pb.Compare_NOT_EQUAL:
			return v != w
		case pb.Compare_GREATER:
			return v > w
		default:
			return v < w
		}
	}
	switch c.Result {
	case pb.Compare_EQUAL:
		return have == want
	case pb.Compare_NOT_EQUAL:
		return have != want
	case pb.Compare_GREATER:
		return have > want
	default:
		return have < want
	}
}

func (st *vfEtcdStore) header() *pb.ResponseHeader { return &pb.ResponseHeader{Revision: st.rev} }

// ------------------------------------------------------------ pb.KVClient

type vfEtcdKVClient struct {
	st   *vfEtcdStore
	inst int
}

func (c *vfEtcdKVClient) Range(ctx context.Context, r *pb.RangeRequest, _ ...grpc.CallOption) (*pb.RangeResponse, error) {
	before, after := c.st.gate(c.inst, "Range")
	if before {
		return nil, errVfInjected
	}
	c.st.mu.Lock()
	defer c.st.mu.Unlock()
	if len(r.Key) == 0 {
		return nil, rpctypes.ErrGRPCEmptyKey
	}
	resp := c.st.rangeOn(c.st.kvs, r)
	if after {
		return nil, errVfInjected
	}
	return resp, nil
}

func (c *vfEtcdKVClient) Put(ctx context.Context, r *pb.PutRequest, _ ...grpc.CallOption) (*pb.PutResponse, error) {
	before, after := c.st.gate(c.inst, "Put")
	if before {
		return nil, errVfInjected
	}
	c.st.mu.Lock()
	defer c.st.mu.Unlock()
	if len(r.Key) == 0 {
		return nil, rpctypes.ErrGRPCEmptyKey
	}
	if r.Lease != 0 && !c.st.leaseLive(r.Lease) {
		return nil, rpctypes.ErrGRPCLeaseNotFound
	}
	c.st.putOn(c.st.kvs, r, c.st.rev+1)
	c.st.rev++
	if after {
		return nil, errVfInjected
	}
	return &pb.PutResponse{Header: c.st.header()}, nil
}

func (c *vfEtcdKVClient) DeleteRange(ctx context.Context, r *pb.DeleteRangeRequest, _ ...grpc.CallOption) (*pb.DeleteRangeResponse, error) {
	before, after := c.st.gate(c.inst, "DeleteRange")
	if before {
		return nil, errVfInjected
	}
	c.st.mu.Lock()
	defer c.st.mu.Unlock()
	if len(r.Key) == 0 {
		return nil, rpctypes.ErrGRPCEmptyKey
	}
	n := c.st.deleteOn(c.st.kvs, r)
	if n > 0 {
		c.st.rev++
	}
	if after {
		return nil, errVfInjected
	}
	return &pb.DeleteRangeResponse{Header: c.st.header(), Deleted: n}, nil
}

func (c *vfEtcdKVClient) Txn(ctx context.Context, r *pb.TxnRequest, _ ...grpc.CallOption) (*pb.TxnResponse, error) {
	before, after := c.st.gate(c.inst, "Txn")
	if before {
		return nil, errVfInjected
	}
	c.st.mu.Lock()
	defer c.st.mu.Unlock()
	st := c.st
	// validation of the whole request (v3rpc checkTxnRequest)
	for _, cm := range r.Compare {
		if len(cm.Key) == 0 {
			return nil, rpctypes.ErrGRPCEmptyKey
		}
	}
	for _, ops := range [][]*pb.RequestOp{r.Success, r.Failure} {
		for _, op := range ops {
			switch x := op.Request.(type) {
			case *pb.RequestOp_RequestRange:
				if len(x.RequestRange.Key) == 0 {
					return nil, rpctypes.ErrGRPCEmptyKey
				}
			case *pb.RequestOp_RequestPut:
				if len(x.RequestPut.Key) == 0 {
					return nil, rpctypes.ErrGRPCEmptyKey
				}
			case *pb.RequestOp_RequestDeleteRange:
				if len(x.RequestDeleteRange.Key) == 0 {
					return nil, rpctypes.ErrGRPCEmptyKey
				}
			default:
				return nil, errors.New("vf: nested transactions are not transcribed")
			}
		}
	}
	ok := true
	for _, cm := range r.Compare {
		if !st.cmpOn(st.kvs, cm) {
			ok = false
		}
	}
	ops := r.Failure
	if ok {
		ops = r.Success
	}
	// the executed branch is checked before anything is applied (apply: checkRequests)
	for _, op := range ops {
		if x, isPut := op.Request.(*pb.RequestOp_RequestPut); isPut {
			if x.RequestPut.Lease != 0 && !st.leaseLive(x.RequestPut.Lease) {
				return nil, rpctypes.ErrGRPCLeaseNotFound
			}
		}
	}
	work := vfECopy(st.kvs)
	wrote := false
	resp := &pb.TxnResponse{Succeeded: ok}
	for _, op := range ops {
		switch x := op.Request.(type) {
		case *pb.RequestOp_RequestRange:
			rr := st.rangeOn(work, x.RequestRange)
			resp.Responses = append(resp.Responses, &pb.ResponseOp{Response: &pb.ResponseOp_ResponseRange{ResponseRange: rr}})
		case *pb.RequestOp_RequestPut:
			st.putOn(work, x.RequestPut, st.rev+1)
			wrote = true
			resp.Responses = append(resp.Responses, &pb.ResponseOp{Response: &pb.ResponseOp_ResponsePut{ResponsePut: &pb.PutResponse{}}})
		case *pb.RequestOp_RequestDeleteRange:
			n := st.deleteOn(work, x.RequestDeleteRange)
			if n > 0 {
				wrote = true
			}
			resp.Responses = append(resp.Responses, &pb.ResponseOp{Response: &pb.ResponseOp_ResponseDeleteRange{ResponseDeleteRange: &pb.DeleteRangeResponse{Deleted: n}}})
		}
	}
	st.kvs = work
	if wrote {
		st.rev++
	}
	resp.Header = st.header()
	for _, ro := range resp.Responses {
		switch x := ro.Response.(type) {
		case *pb.ResponseOp_ResponseRange:
			x.ResponseRange.Header = st.header()
		case *pb.ResponseOp_ResponsePut:
			x.ResponsePut.Header = st.header()
		case *pb.ResponseOp_ResponseDeleteRange:
			x.ResponseDeleteRange.Header = st.header()
		}
	}
	if after {
		return nil, errVfInjected
	}
	return resp, nil
}

func (c *vfEtcdKVClient) Compact(ctx context.Context, r *pb.CompactionRequest, _ ...grpc.CallOption) (*pb.CompactionResponse, error) {
	return nil, errors.New("vf: compaction is not transcribed")
}

// ------------------------------------------------------------ clientv3.Lease

type vfEtcdLease struct {
	st *vfEtcdStore
}

func (l *vfEtcdLease) Grant(ctx context.Context, ttl int64) (*clientv3.LeaseGrantResponse, error) {
	l.st.mu.Lock()
	defer l.st.mu.Unlock()
	id := l.st.nextID
	if id == 0 {
		return nil, errors.New("vf: the harness did not choose a lease id")
	}
	if _, used := l.st.leases[id]; used {
		return nil, errors.New("vf: lease id already used")
	}
	l.st.nextID = 0
	l.st.leases[id] = &vfELease{ttl: ttl, dl: l.st.now + ttl*1000}
	return &clientv3.LeaseGrantResponse{ResponseHeader: l.st.header(), ID: clientv3.LeaseID(id), TTL: ttl}, nil
}

func (l *vfEtcdLease) Revoke(ctx context.Context, id clientv3.LeaseID) (*clientv3.LeaseRevokeResponse, error) {
	l.st.mu.Lock()
	defer l.st.mu.Unlock()
	le, ok := l.st.leases[int64(id)]
	if !ok || le.gone {
		return nil, rpctypes.ErrLeaseNotFound
	}
	le.gone = true
	l.st.expire()
	return &clientv3.LeaseRevokeResponse{Header: l.st.header()}, nil
}

func (l *vfEtcdLease) TimeToLive(ctx context.Context, id clientv3.LeaseID, opts ...clientv3.LeaseOption) (*clientv3.LeaseTimeToLiveResponse, error) {
	return nil, errors.New("vf: TimeToLive is not transcribed")
}

func (l *vfEtcdLease) Leases(ctx context.Context) (*clientv3.LeaseLeasesResponse, error) {
	return nil, errors.New("vf: Leases is not transcribed")
}

// KeepAlive: the channel concurrency.Session drains. Nothing is sent on it by
// itself (keep-alives are harness events); it is closed when the session's
// context ends, as the real lessor does.
func (l *vfEtcdLease) KeepAlive(ctx context.Context, id clientv3.LeaseID) (<-chan *clientv3.LeaseKeepAliveResponse, error) {
	ch := make(chan *clientv3.LeaseKeepAliveResponse)
	go func() {
		<-ctx.Done()
		close(ch)
	}()
	return ch, nil
}

func (l *vfEtcdLease) KeepAliveOnce(ctx context.Context, id clientv3.LeaseID) (*clientv3.LeaseKeepAliveResponse, error) {
	return nil, errors.New("vf: KeepAliveOnce is not transcribed")
}

func (l *vfEtcdLease) Close() error { return nil }
