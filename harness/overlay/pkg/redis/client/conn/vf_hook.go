//go:build verif

package conn

import (
	"net"

	"github.com/mgtv-tech/redis-GunYu/config"
	"github.com/mgtv-tech/redis-GunYu/pkg/redis/client/proto"
)

// VerifNewRedisConn builds the real RedisConn over an already established
// connection (the harness hands in one side of a net.Pipe served by a double).
func VerifNewRedisConn(c net.Conn, cfg config.RedisConfig) *RedisConn {
	r := &RedisConn{cfg: cfg, conn: c}
	r.protoReader = proto.NewReader(c, ReaderBufferSize)
	r.protoWriter = proto.NewWriter(c, WriterBufferSize)
	return r
}
