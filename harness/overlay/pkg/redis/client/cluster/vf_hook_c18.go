//go:build verif

package redis

import (
	"time"

	"github.com/mgtv-tech/redis-GunYu/config"
	"github.com/mgtv-tech/redis-GunYu/pkg/log"
	"github.com/mgtv-tech/redis-GunYu/pkg/redis/client/common"
	"github.com/mgtv-tech/redis-GunYu/pkg/util"
)

// C18 shims (verification build only).

// VerifNewStaticCluster builds a cluster client with a fixed slot map and no
// topology discovery: node i has address addrs[i]; owner(slot) is the index of
// the owning node or -1 (no owner known). getKeys replaces COMMAND GETKEYS.
// Everything else (routing, txn batcher, node pipelines, connections) is the
// real code.
func VerifNewStaticCluster(addrs []string, owner func(slot int) int,
	getKeys func(cmd string, args ...interface{}) ([]string, error)) *Cluster {
	c := &Cluster{
		nodes:        make(map[string]*redisNode),
		updateList:   make(chan updateMesg, 64),
		closeCh:      make(chan struct{}),
		connTimeout:  2 * time.Second,
		readTimeout:  5 * time.Second,
		writeTimeout: 5 * time.Second,
		keepAlive:    4,
		aliveTime:    time.Minute,
		logger:       log.WithLogger(config.LogModuleName("[verif-c18-cluster] ")),
		safeRand:     util.NewSafeRand(1),
	}
	c.pipeline = &batchPipeline{cluster: c}
	nodes := make([]*redisNode, len(addrs))
	for i, a := range addrs {
		nodes[i] = &redisNode{
			address:      a,
			connTimeout:  2 * time.Second,
			readTimeout:  5 * time.Second,
			writeTimeout: 5 * time.Second,
			keepAlive:    4,
			aliveTime:    time.Minute,
		}
		c.nodes[a] = nodes[i]
	}
	for s := 0; s < kClusterSlots; s++ {
		if i := owner(s); i >= 0 && i < len(nodes) {
			c.slots[s] = nodes[i]
		}
	}
	c.commandGetKeysFn = getKeys
	return c
}

// VerifTxnInfo is what a transaction batcher holds.
type VerifTxnInfo struct {
	Cmds      []string
	Args      [][]interface{}
	Slot      int // -1 when no command has been accepted yet
	Node      string
	Submitted bool // a request has been handed to the node pipeline
	Err       error
}

// VerifTxnState inspects a batcher returned by (*Cluster).NewTxnBatcher.
func VerifTxnState(b common.CmdBatcher) (VerifTxnInfo, bool) {
	tb, ok := b.(*txnBatcher)
	if !ok {
		return VerifTxnInfo{}, false
	}
	info := VerifTxnInfo{Cmds: tb.cmds, Args: tb.cmdArgs, Slot: -1, Submitted: tb.request != nil, Err: tb.err}
	if tb.slot != nil {
		info.Slot = int(*tb.slot)
	}
	if tb.node != nil {
		info.Node = tb.node.address
	}
	return info, true
}

// VerifTxnFlag: the cluster-level transaction flag and the node it pinned
// (chooseNodeWithCmdAndKeys: set by a literal MULTI, cleared by EXEC).
func VerifTxnFlag(c *Cluster) (bool, string) {
	if c.transactionNode != nil {
		return c.transactionEnable, c.transactionNode.address
	}
	return c.transactionEnable, ""
}
