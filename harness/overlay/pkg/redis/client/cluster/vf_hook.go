//go:build verif

package redis

// VerifHash exposes the unexported slot function used by routing and the
// transaction batcher.
func VerifHash(key string) uint16 { return hash(key) }
