//go:build verif

package redis

// C11 (session 5): the slot-USING sites of the cluster client driven dynamically: the node getNodeByKey chooses, the
// node batch a command lands in and the per-slot pin across a slot-map refresh (through Batch.Put), the slot and node a transaction batch (txnBatcher.Put) records, and which
// second command it admits - against the independent bitwise HASH_SLOT. Every slot has its own node (address = slot),
// so a wrong slot is a wrong node. Harness entry C11route. (multiSet / multiGet have no caller in the repository.)

import (
	"bytes"
	"fmt"
	"strconv"
	"testing"

	"github.com/mgtv-tech/redis-GunYu/pkg/vfutil"
)

func vfC11Crc(b []byte) uint16 {
	var crc uint16
	for _, c := range b {
		crc ^= uint16(c) << 8
		for i := 0; i < 8; i++ {
			if crc&0x8000 != 0 {
				crc = crc<<1 ^ 0x1021
			} else {
				crc <<= 1
			}
		}
	}
	return crc
}

func vfC11Slot(k []byte) uint16 {
	if s := bytes.IndexByte(k, '{'); s >= 0 {
		if e := bytes.IndexByte(k[s+1:], '}'); e > 0 {
			return vfC11Crc(k[s+1:s+1+e]) % 16384
		}
	}
	return vfC11Crc(k) % 16384
}

func vfC11AdvKey(r *vfutil.Rand) []byte {
	fixed := []string{" k", "k ", "\tk\n", "k\x00", "\x00k", "K", "k", "{a}{b}", "{}{b}", "{a{b}", "}a{b}", "a}b{tag}c", "{ }x", "{ tag }", "{TAG}", "{tag}",
		"user:{1} ", " user:{1}", "{\xff\xfe}", "\xc3{\xa9}", "{{a}}", "{a}}", "x{}", "{", "}", "{}", "foo{bar}{zap}", "foo{}{bar}", "{\x00}", "12", "-7"}
	switch r.Intn(4) {
	case 0:
		return []byte(vfutil.Pick(r, fixed))
	case 1:
		return append(append([]byte(vfutil.Pick(r, []string{"", " ", "\x00", "\n", "A"})), []byte(vfutil.Pick(r, fixed))...), vfutil.Pick(r, []string{"", " ", "\x00", "\r\n", "Z"})...)
	default:
		b := []byte{'k'}
		for i, n := 0, r.Intn(5); i <= n; i++ {
			for j, m := 0, r.Intn(4); j < m; j++ {
				b = append(b, vfutil.Pick(r, []byte{'a', 'B', ' ', 0, 0xff, 0xc3, byte(r.U64())}))
			}
			if i < n {
				b = append(b, vfutil.Pick(r, []byte{'{', '}'}))
			}
		}
		return b
	}
}

func TestVerifC11route(t *testing.T) {
	s := vfutil.NewSession("C11route")
	defer s.Close()
	r := vfutil.NewRand(vfutil.Seed() ^ 0xc1152)
	c := &Cluster{nodes: map[string]*redisNode{}}
	for i := range c.slots {
		n := &redisNode{address: strconv.Itoa(i)}
		c.slots[i] = n
		c.nodes[n.address] = n
	}
	addr := func(n *redisNode) int {
		if n == nil {
			return -1
		}
		v, _ := strconv.Atoi(n.address)
		return v
	}
	viol := func(site string, key []byte, got int, want uint16, more string) {
		s.Violate("site-slot", fmt.Sprintf("%s on key %q uses slot/node %d, HASH_SLOT = %d%s", site, key, got, want, more),
			map[string]interface{}{"site": site, "key_hex": vfutil.Hex(key), "got": got, "want": want})
	}
	n := vfutil.Scale(4000, 60000)
	for i := 0; i < n; i++ {
		key := vfC11AdvKey(r)
		want := vfC11Slot(key)
		hx := vfutil.Hex(key)
		// getNodeByKey: []byte and string
		n1, e1 := c.getNodeByKey(key)
		n2, e2 := c.getNodeByKey(string(key))
		if e1 != nil || e2 != nil || addr(n1) != int(want) || addr(n2) != int(want) {
			viol("getNodeByKey", key, addr(n1), want, fmt.Sprintf(" (string form: %d; errors %v %v)", addr(n2), e1, e2))
		}
		// the batch pin, observed through Batch.Put (not by calling the unexported helper: its signature is the code's
		// business): the first command lands in the node batch of HASH_SLOT(key); then the slot map is "refreshed" (the
		// slot moves to another node, as handleUpdate does between two Puts) and a second command follows: one of the SAME
		// slot stays in the first node's batch, one of another slot goes to its own slot's node
		key2 := vfC11AdvKey(r)
		if r.Chance(1, 2) {
			if s0 := bytes.IndexByte(key, '{'); s0 >= 0 {
				if e0 := bytes.IndexByte(key[s0+1:], '}'); e0 > 0 {
					key2 = append(append([]byte(vfutil.Pick(r, []string{"k", " ", "x}", "\x00"})), key[s0:s0+1+e0+1]...), vfutil.Pick(r, []string{"", " ", "{y}", "}"})...)
				}
			}
		}
		same := vfC11Slot(key2) == want
		bt := &Batch{cluster: c}
		if err := bt.Put("SET", key, []byte("v")); err != nil || len(bt.index) != 1 {
			s.Violate("site-unit-refused", fmt.Sprintf("Batch.Put refused SET %q: %v", key, err), map[string]interface{}{"site": "Batch.Put", "key_hex": hx})
		} else {
			first := bt.batches[bt.index[0]].node
			if addr(first) != int(want) {
				viol("Batch.Put", key, addr(first), want, "")
			}
			moved := &redisNode{address: "-2"}
			c.slots[want] = moved
			err := bt.Put("SET", key2, []byte("v"))
			c.slots[want] = n1
			s.Count(fmt.Sprintf("batch_pair_same_%v", same))
			if err != nil || len(bt.index) != 2 {
				s.Violate("site-unit-refused", fmt.Sprintf("Batch.Put refused SET %q after SET %q: %v", key2, key, err), map[string]interface{}{"site": "Batch.Put", "key_hex": hx, "key2_hex": vfutil.Hex(key2)})
			} else if second := bt.batches[bt.index[1]].node; (same && second != first) || (!same && addr(second) != int(vfC11Slot(key2))) {
				s.Violate("site-pair", fmt.Sprintf("Batch.Put: SET %q landed on node %d; after the slot moved, SET %q (same HASH_SLOT = %v, slot %d) landed on node %d: commands of one slot of one batch must stay on the first node, others go to their slot's node", key, addr(first), key2, same, vfC11Slot(key2), addr(second)),
					map[string]interface{}{"site": "Batch.Put", "key_hex": hx, "key2_hex": vfutil.Hex(key2), "same_slot": same, "first_node": addr(first), "second_node": addr(second)})
			}
		}
		// txnBatcher.Put: recorded slot and node; admission of a second command
		tb := &txnBatcher{cluster: c}
		got3 := -1
		if err := tb.Put("SET", key, []byte("v")); err != nil || tb.slot == nil {
			s.Violate("site-unit-refused", fmt.Sprintf("txnBatcher.Put refused SET %q: %v", key, err), map[string]interface{}{"site": "txnBatcher.Put", "key_hex": hx})
		} else {
			got3 = int(*tb.slot)
			if *tb.slot != want || addr(tb.node) != int(want) {
				viol("txnBatcher.Put", key, int(*tb.slot), want, fmt.Sprintf(" (node %d)", addr(tb.node)))
			}
			err := tb.Put("DEL", key, key2)
			s.Count(fmt.Sprintf("txn_pair_same_%v", same))
			if (err == nil) != same {
				s.Violate("site-pair", fmt.Sprintf("txnBatcher.Put DEL %q %q after SET %q: admitted=%v, the keys share HASH_SLOT=%v", key, key2, key, err == nil, same),
					map[string]interface{}{"site": "txnBatcher.Put", "key_hex": hx, "key2_hex": vfutil.Hex(key2), "admitted": err == nil, "same_slot": same})
			}
		}
		if got3 >= 0 {
			s.Op("slot "+hx, fmt.Sprintf("%d %d %d", addr(n1), got3, want))
		}
		if bytes.IndexByte(key, '{') >= 0 && bytes.IndexByte(key, '}') >= 0 {
			s.Distinct(string(key))
		}
	}
}
