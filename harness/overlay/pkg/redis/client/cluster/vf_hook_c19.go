//go:build verif

package redis

import (
	"errors"
	"net"
	"strings"
	"time"

	"github.com/mgtv-tech/redis-GunYu/pkg/redis/client/common"
)

// C19 shims (verification build only).

// VerifRoutes returns, for every command accepted by Put (in Put order), the
// address of the node the batcher routed it to. nil for unknown batcher types.
func VerifRoutes(b common.CmdBatcher) []string {
	switch t := b.(type) {
	case *Batch:
		out := make([]string, 0, len(t.index))
		for _, i := range t.index {
			out = append(out, t.batches[i].node.address)
		}
		return out
	case *batch2:
		out := make([]string, 0, len(t.index))
		for _, i := range t.index {
			out = append(out, t.batches[i].node.address)
		}
		return out
	case *txnBatcher:
		out := make([]string, 0, len(t.cmds))
		for range t.cmds {
			out = append(out, t.node.address)
		}
		return out
	}
	return nil
}

// VerifKickUpdate hands one update message to the real handleUpdate goroutine
// with a BLOCKING send: it returns once that goroutine has finished whatever
// refresh it was doing and has taken this message (so the previous refresh is
// fully applied to cluster.slots). The message makes the goroutine start one
// more refresh (a CLUSTER SLOTS request the cluster double can park).
func VerifKickUpdate(c *Cluster) bool {
	node, err := c.getRandomNode()
	if err != nil {
		return false
	}
	defer func() { recover() }() // closed channel on a closed cluster
	c.updateList <- updateMesg{node: node}
	return true
}

// VerifTryKickUpdate: as VerifKickUpdate, but gives up after `d` when the update goroutine does not take the
// message (it is parked inside a CLUSTER SLOTS request of its own).
func VerifTryKickUpdate(c *Cluster, d time.Duration) bool {
	node, err := c.getRandomNode()
	if err != nil {
		return false
	}
	defer func() { recover() }()
	select {
	case c.updateList <- updateMesg{node: node}:
		return true
	case <-time.After(d):
		return false
	}
}

// VerifSlotAddr reads the client-side slot map.
func VerifSlotAddr(c *Cluster, slot int) string {
	c.rwLock.RLock()
	defer c.rwLock.RUnlock()
	if n := c.slots[slot]; n != nil {
		return n.address
	}
	return ""
}

// VerifUnsent returns the Put positions (index into VerifRoutes) of the commands
// of a FAILED plain batch that were never written to a socket: the whole batch
// when a Put was refused (Exec/Dispatch return that error first), and every
// node-batch whose connection could not even be obtained (node object shut
// down by a topology refresh, or dial refused). Decided from the batcher's own
// state, not from timing.
func VerifUnsent(b common.CmdBatcher) []int {
	var index []int
	var batches []nodeBatch
	var berr error
	switch t := b.(type) {
	case *Batch:
		index, batches, berr = t.index, t.batches, t.err
	case *batch2:
		index, batches, berr = t.index, t.batches, t.err
	default:
		return nil
	}
	var out []int
	for p, i := range index {
		if berr != nil || verifNeverConnected(&batches[i]) {
			out = append(out, p)
		}
	}
	return out
}

func verifNeverConnected(nb *nodeBatch) bool {
	if nb.err == nil {
		return false
	}
	var oe *net.OpError
	if errors.As(nb.err, &oe) && oe.Op == "dial" {
		return true
	}
	return strings.Contains(nb.err.Error(), "getConn: connection has been closed")
}
