//go:build verif

package redis

// C19 harness: the real cluster client (NewCluster, Batch.Exec, batch2
// Dispatch/Receive, txnBatcher) against the cluster double on generated command
// streams and migration schedules.
//
//   tie    : the global trace of one scenario (server decisions, migration
//            events, client puts/dispatches/receives, refreshes) is one op line;
//            the Lean driver replays it through the model's transition system
//            (membership: is the observed run a run of the model?) and prints
//            the per-node sequences and per-key executed subsequences it derives;
//            the harness prints the same lines from the double's own logs.
//   search : an independent per-key monitor over the double's execution log.

import (
	"encoding/json"
	"errors"
	"fmt"
	"os"
	"regexp"
	"sort"
	"strings"
	"testing"
	"time"

	"github.com/mgtv-tech/redis-GunYu/pkg/redis/client/common"
	"github.com/mgtv-tech/redis-GunYu/pkg/vfdoubles"
	"github.com/mgtv-tech/redis-GunYu/pkg/vfutil"
)

type vfcCmd struct {
	ID   int    `json:"id"`
	Name string `json:"n"`
	Keys []int  `json:"k"`
}

type vfcAct struct {
	Refresh bool            `json:"r,omitempty"`
	Ev      vfdoubles.MigEv `json:"e,omitempty"`
}

type vfcScn struct {
	Name    string            `json:"name"`
	N       int               `json:"nodes"`
	Empty   bool              `json:"empty_last"`
	Keys    []string          `json:"keys"`
	Mode    string            `json:"mode"` // sync | pipe | txn | txnpipe
	Window  int               `json:"window"`
	Batches [][]vfcCmd        `json:"batches"`
	Between map[int][]vfcAct  `json:"between,omitempty"` // before the puts of batch i
	During  []vfdoubles.Sched `json:"during,omitempty"`  // before the At-th data request
	MidPut  map[string]bool   `json:"midput,omitempty"`  // "i.j": refresh lands before put j of batch i
	Adv     bool              `json:"adversarial,omitempty"`
	Stall   map[int]int       `json:"stall,omitempty"` // batch i: node held (slow) while the first Exec of batch i runs
}

type vfcAttempt struct {
	Batch  int
	Seg    int
	OK     bool
	Err    string
	Routes []int // per accepted put
	IDs    []int
	before map[int]int // arrivals at the nodes before this attempt
	putErr bool        // a Put was refused: Exec/Dispatch return that error before sending anything
	posIDs []int       // command id at every position of the batcher's index (-1: a ping, which has no id)
}

type vfcResult struct {
	Trace    []string
	NodeLog  [][]string
	Execs    []vfdoubles.ClusterExec
	Attempts []vfcAttempt
	Owner0   []int // initial owner per key
	Notes    []string
	Dropped  []int    // commands Put accepted without routing them anywhere
	InFlight []string // Exec returned while a node still held unprocessed commands of that batch
}

func vfcErrClass(err error) string {
	if err == nil {
		return "ok"
	}
	// the class the SENDER sees (errors.Is on the sentinels, as output.go sendFunc does): the sentinel
	// texts are "move" / "ask" / "cross slots", the upper-case words below are server reply texts
	switch {
	case errors.Is(err, common.ErrMove):
		return "moved"
	case errors.Is(err, common.ErrAsk):
		return "ask"
	case errors.Is(err, common.ErrCrossSlots):
		return "crossslot"
	}
	s := err.Error()
	switch {
	case strings.Contains(s, "TRYAGAIN"):
		return "tryagain"
	case strings.Contains(s, "CROSSSLOT"):
		return "crossslot"
	case strings.Contains(s, "redirected too many"):
		return "too-many-redirects"
	case strings.Contains(s, "MOVED"):
		return "moved"
	case strings.Contains(s, "ASK"):
		return "ask"
	case strings.Contains(s, "EXECABORT"):
		return "execabort"
	}
	return "other"
}

func vfcRun(scn *vfcScn) (*vfcResult, error) {
	d, err := vfdoubles.NewCluster(scn.N, scn.Keys)
	if err != nil {
		return nil, err
	}
	defer d.Close()
	m := scn.N
	if scn.Empty && m > 2 {
		m--
	}
	d.SetBaseLayout(m)
	res := &vfcResult{}
	for _, k := range scn.Keys {
		res.Owner0 = append(res.Owner0, d.OwnerOf(vfdoubles.ClusterSlot(k)))
	}
	// stxn / stxnpipe: the sender's transactional path (output.go sendFuncOnce): a plain
	// Batch / batch2 bracketed by Put("multi") … Put("exec") — which the cluster client does
	// not send, it only confines the batch to one node — with redirect following switched off
	senderTxn := scn.Mode == "stxn" || scn.Mode == "stxnpipe"
	noFollow := senderTxn || scn.Mode == "syncnf" // syncnf: plain blocking batches, handleMoveErr/handleAskErr off
	c, err := NewCluster(&Options{
		StartNodes: d.Addrs()[:m], ConnTimeout: 2 * time.Second, ReadTimeout: 30 * time.Second, WriteTimeout: 30 * time.Second,
		KeepAlive: 8, AliveTime: time.Minute, HandleMoveError: !noFollow, HandleAskError: !noFollow,
	})
	if err != nil {
		return nil, err
	}
	defer c.Close()
	// park the real handleUpdate goroutine inside a CLUSTER SLOTS request so
	// that asynchronous refreshes land exactly where the scenario says
	d.EnablePark(0)
	if !VerifKickUpdate(c) || !d.WaitParked(2*time.Second) {
		return nil, fmt.Errorf("could not park the update goroutine")
	}
	d.ResetTrace()
	sc := append([]vfdoubles.Sched(nil), scn.During...)
	sort.SliceStable(sc, func(i, j int) bool { return sc[i].At < sc[j].At })
	d.SetSchedule(sc)

	refresh := func() {
		if !d.ReleaseParked() {
			res.Notes = append(res.Notes, "refresh-not-parked")
			return
		}
		if !VerifKickUpdate(c) {
			return
		}
		d.Log("R")
		if !d.WaitParked(2 * time.Second) {
			res.Notes = append(res.Notes, "repark-timeout")
		}
	}
	between := func(i int) {
		for _, a := range scn.Between[i] {
			if a.Refresh {
				refresh()
			} else {
				d.Apply(a.Ev)
			}
		}
	}
	txn := scn.Mode == "txn" || scn.Mode == "txnpipe"
	build := func(i int, first bool) (common.CmdBatcher, *vfcAttempt) {
		var b common.CmdBatcher
		switch scn.Mode {
		case "sync", "stxn", "syncnf":
			b = c.NewBatcher(false)
		case "pipe", "stxnpipe":
			b = c.NewBatcher(true)
		default:
			b = c.NewTxnBatcher()
		}
		at := &vfcAttempt{Batch: i, Seg: d.Seg(), before: d.Arrivals()}
		if senderTxn {
			b.Put("multi")
		}
		for j, cm := range scn.Batches[i] {
			if first && scn.MidPut[fmt.Sprintf("%d.%d", i, j)] {
				refresh()
			}
			args := []interface{}{}
			switch cm.Name {
			case "select":
				args = append(args, "0")
			case "ping":
			case "publish":
				args = append(args, "chan", fmt.Sprintf("#%d", cm.ID))
			case "mset":
				for _, k := range cm.Keys {
					args = append(args, scn.Keys[k], fmt.Sprintf("#%d", cm.ID))
				}
			default:
				for _, k := range cm.Keys {
					args = append(args, scn.Keys[k])
				}
				if cm.Name == "hset" {
					args = append(args, "f")
				}
				args = append(args, fmt.Sprintf("#%d", cm.ID))
			}
			before := len(VerifRoutes(b))
			perr := b.Put(cm.Name, args...)
			rs := VerifRoutes(b)
			if cm.Name == "ping" {
				// routed to a random node, answered PONG; not part of the trace — but it does
				// occupy a position of the batcher's index (VerifRoutes / VerifUnsent positions)
				for len(at.posIDs) < len(rs) {
					at.posIDs = append(at.posIDs, -1)
				}
				continue
			}
			if perr != nil || len(rs) != before+1 {
				res.Notes = append(res.Notes, fmt.Sprintf("put-rejected:%d:%s:%s", cm.ID, vfcErrClass(perr), cm.Name))
				if perr != nil {
					at.putErr = true
				}
				if perr == nil && cm.Name != "select" {
					// neither routed nor refused: the command would vanish without a trace
					res.Dropped = append(res.Dropped, cm.ID)
				}
				continue
			}
			n := d.NodeOfAddr(rs[len(rs)-1])
			at.Routes = append(at.Routes, n)
			at.IDs = append(at.IDs, cm.ID)
			at.posIDs = append(at.posIDs, cm.ID)
			d.Log(fmt.Sprintf("P:%d:%d:%d:%d", i, cm.ID, cm.Keys[0], n))
		}
		if senderTxn {
			b.Put("exec")
		}
		return b, at
	}
	mtag := "b"
	if txn {
		mtag = "t"
	}
	// settle: wait until the nodes have consumed what the client sent for this
	// attempt. A successful attempt has read every reply, so everything was
	// processed. A failed one may never have sent a node-batch at all (getConn on
	// a node object closed by a refresh): after a short grace period what has
	// not arrived is recorded as unsent ("U").
	settle := func(at *vfcAttempt, b common.CmdBatcher, failed bool) {
		if !failed {
			if !d.WaitSeen(at.IDs, 2*time.Second) {
				res.Notes = append(res.Notes, "quiesce-timeout")
			}
			return
		}
		if txn {
			d.WaitSeen(at.IDs, 150*time.Millisecond)
			return
		}
		if b == nil {
			// abandoned in-flight batch of a failed pipelined run: nothing follows, only
			// let the nodes drain what was sent
			d.WaitProgress(at.IDs, at.before, 150*time.Millisecond)
			return
		}
		// which commands never left the client is read off the batcher (no timing);
		// everything else was flushed before the first reply was read and must arrive
		unsent := map[int]bool{}
		for _, p := range VerifUnsent(b) {
			if p < len(at.posIDs) && at.posIDs[p] >= 0 {
				unsent[at.posIDs[p]] = true
			}
		}
		var sent []int
		for _, id := range at.IDs {
			if unsent[id] {
				d.Log(fmt.Sprintf("U:%d:%d", at.Batch, id))
				res.Notes = append(res.Notes, "unsent")
			} else {
				sent = append(sent, id)
			}
		}
		if len(d.WaitProgress(sent, at.before, 5*time.Second)) > 0 {
			res.Notes = append(res.Notes, "quiesce-timeout")
		}
	}
	// session 5: the schedule may release the parked refresh WHILE a batch is in flight (event kind "p" at a request
	// count): the client's update goroutine installs the new slot map beside the running node batches (routes are
	// pinned, node objects may be closed under them), then waits for the next inform - which a MOVED answer of the
	// same batch may send at once (a refresh started by the batch itself, parked again by the double). When the
	// attempt has ended: wait until the released request was served (`r`), make sure its map is installed (the
	// goroutine is parked in a NEW request, or takes a kick), log `R` - before the next Put reads the map.
	handledReleases := 0
	settleInstall := func() {
		for d.ParkReleases() > handledReleases {
			handledReleases++
			cnt := func() (r, R int) {
				tr, _, _ := d.Snapshot()
				for _, e := range tr {
					switch e {
					case "r":
						r++
					case "R":
						R++
					}
				}
				return
			}
			served := false
			for i := 0; i < 2000 && !served; i++ {
				if r, R := cnt(); r > R {
					served = true
				} else {
					time.Sleep(time.Millisecond)
				}
			}
			if !served {
				res.Notes = append(res.Notes, "release-not-served")
				continue
			}
			ok := false
			for i := 0; i < 200 && !ok; i++ {
				if d.WaitParked(10 * time.Millisecond) {
					ok = true // parked in a new request: the released one was installed before it was sent
					if i == 0 {
						res.Notes = append(res.Notes, "refresh-started-by-the-batch") // a MOVED answer informed the idle goroutine
					}
				} else if VerifTryKickUpdate(c, 10*time.Millisecond) {
					ok = d.WaitParked(2 * time.Second)
				}
			}
			if !ok {
				res.Notes = append(res.Notes, "repark-timeout")
			}
			d.Log("R")
			res.Notes = append(res.Notes, "refresh-in-flight")
		}
	}
	finish := func(at *vfcAttempt, b common.CmdBatcher, err error) {
		at.OK = err == nil
		at.Err = vfcErrClass(err)
		if err == nil {
			settle(at, b, false)
			d.Log(fmt.Sprintf("E:%d:ok", at.Batch))
		} else {
			d.Log(fmt.Sprintf("E:%d:er", at.Batch))
			settle(at, b, true)
		}
		res.Attempts = append(res.Attempts, *at)
		settleInstall()
	}

	switch scn.Mode {
	case "sync", "txn", "stxn", "syncnf":
	outer:
		for i := range scn.Batches {
			between(i)
			for try := 0; ; try++ {
				b, at := build(i, try == 0)
				if len(at.IDs) == 0 {
					break
				}
				d.Log(fmt.Sprintf("D:%d:%s", i, mtag))
				var err error
				if node, ok := scn.Stall[i]; ok && try == 0 {
					// one node of the batch is slow: it holds what it receives. Exec must not
					// return while that node still holds commands of this batch. (The stall is
					// lifted after 300 ms if Exec is still waiting - what the unchanged code
					// does; the time only bounds how long a correct Exec is kept waiting.)
					d.Stall(node)
					ch := make(chan error, 1)
					go func() { _, e := b.Exec(); ch <- e }()
					select {
					case err = <-ch:
						if n := d.HeldCount(); n > 0 {
							res.InFlight = append(res.InFlight, fmt.Sprintf("batch %d: Exec returned (%s) while node %d still held %d unprocessed command(s) of it",
								i, vfcErrClass(err), node, n))
						}
						d.Unstall(node)
					case <-time.After(300 * time.Millisecond):
						d.Unstall(node)
						err = <-ch
					}
				} else {
					_, err = b.Exec()
				}
				finish(at, b, err)
				if err == nil {
					break
				}
				// sender: a plain batch is retried (output.go sendFunc, < 3 tries);
				// a transactional one ends the run
				if txn || senderTxn || try >= 2 {
					break outer
				}
				d.NextSegment()
			}
		}
	default: // pipe, txnpipe: Dispatch ahead, Receive in order
		type fl struct {
			b  common.CmdBatcher
			at *vfcAttempt
		}
		var inflight []fl
		w := scn.Window
		if w < 1 {
			w = 1
		}
		failed := false
		recv := func() {
			f := inflight[0]
			inflight = inflight[1:]
			_, err := f.b.Receive()
			finish(f.at, f.b, err)
			if err != nil {
				failed = true
			}
		}
		for i := range scn.Batches {
			if failed {
				break
			}
			between(i)
			b, at := build(i, true)
			if len(at.IDs) == 0 {
				continue
			}
			d.Log(fmt.Sprintf("D:%d:%s", i, mtag))
			if err := b.Dispatch(); err != nil {
				finish(at, b, err)
				failed = true
				break
			}
			inflight = append(inflight, fl{b, at})
			if len(inflight) >= w {
				recv()
			}
		}
		for len(inflight) > 0 && !failed {
			recv()
		}
		// a failed run: what is still in flight is never received (the sender
		// closes the run); wait until the servers have consumed what was sent
		for _, f := range inflight {
			settle(f.at, nil, true)
			f.at.Err = "abandoned"
			res.Attempts = append(res.Attempts, *f.at)
		}
	}
	res.Trace, res.Execs, res.NodeLog = d.Snapshot()
	return res, nil
}

// ---------------------------------------------------------------- monitor (independent of the Lean model)

type vfcViol struct{ what, detail, cause string }

func vfcMonitor(scn *vfcScn, res *vfcResult) []vfcViol {
	var out []vfcViol
	txn := scn.Mode == "txn" || scn.Mode == "txnpipe" || scn.Mode == "stxn" || scn.Mode == "stxnpipe"
	for _, m := range res.InFlight {
		out = append(out, vfcViol{"exec-returned-with-commands-in-flight", m, ""})
	}
	for _, id := range res.Dropped {
		out = append(out, vfcViol{"put-silently-dropped", fmt.Sprintf("Put of cmd %d returned nil but the command was not routed to any node", id), ""})
	}
	keysOf := map[int][]int{}
	for _, b := range scn.Batches {
		for _, cm := range b {
			keysOf[cm.ID] = cm.Keys
		}
	}
	idBatch, idRoute := map[int]int{}, map[int]int{}
	for _, at := range res.Attempts {
		for i, id := range at.IDs {
			idBatch[id], idRoute[id] = at.Batch, at.Routes[i]
		}
	}
	redirected := map[int]bool{} // batches that got a MOVED/ASK answer
	for _, e := range res.Trace {
		p := strings.Split(e, ":")
		if (p[0] == "q" || p[0] == "t") && len(p) == 5 && (p[4][0] == 'm' || p[4][0] == 'a') {
			var id int
			fmt.Sscan(p[2], &id)
			redirected[idBatch[id]] = true
		}
	}
	// positions in the global trace: of every execution (in the order of res.Execs) and of the
	// first MOVED/ASK answer to each command (a transaction's answer counts for all its commands)
	batchIDs := map[int][]int{}
	for _, at := range res.Attempts {
		batchIDs[at.Batch] = at.IDs
	}
	var execPos []int
	firstRedirect := map[int]int{}
	putPos, dispPos, recvPos := map[int]int{}, map[int]int{}, map[int]int{} // cmd -> P, batch -> D, batch -> E
	for i, ev := range res.Trace {
		p := strings.Split(ev, ":")
		switch p[0] {
		case "P":
			var id int
			fmt.Sscan(p[2], &id)
			putPos[id] = i
		case "D", "E":
			var b int
			fmt.Sscan(p[1], &b)
			if p[0] == "D" {
				dispPos[b] = i
			} else {
				recvPos[b] = i
			}
		}
		if (p[0] != "q" && p[0] != "t") || len(p) != 5 {
			continue
		}
		var id int
		fmt.Sscan(p[2], &id)
		ids := []int{id}
		if p[0] == "t" {
			ids = batchIDs[idBatch[id]]
		}
		switch p[4][0] {
		case 'x':
			for range ids {
				execPos = append(execPos, i)
			}
		case 'm', 'a':
			for _, x := range ids {
				if _, ok := firstRedirect[x]; !ok {
					firstRedirect[x] = i
				}
			}
		}
	}
	lastPos := map[[2]int]int{} // (seg,key) -> trace position of the execution of last[…]
	last := map[[2]int]int{}    // (seg,key) -> last executed id
	has := map[[2]int]bool{}
	execIn := map[[2]int]int{} // (seg,id) -> count
	for ei, e := range res.Execs {
		pos := -1
		if ei < len(execPos) {
			pos = execPos[ei]
		}
		for i, k := range e.Keys {
			if e.Holder[i] != e.Node {
				out = append(out, vfcViol{"exec-not-at-holder", fmt.Sprintf("cmd %d key %s executed at node %d, key lives at node %d", e.ID, k, e.Node, e.Holder[i]), ""})
			}
		}
		execIn[[2]int{e.Seg, e.ID}]++
		for _, ki := range keysOf[e.ID] {
			sk := [2]int{e.Seg, ki}
			if has[sk] {
				if e.ID == last[sk] {
					w := "double-exec"
					if txn {
						w = "txn-double-exec"
					}
					out = append(out, vfcViol{w, fmt.Sprintf("cmd %d (key %s) executed twice within one run", e.ID, scn.Keys[ki]), ""})
				} else if e.ID < last[sk] {
					// classify by cause: the two commands were routed to different node
					// queues while both unfinished (D21 same batch, D22 batch in flight)
					w := "per-key-inversion"
					lo, hi := e.ID, last[sk]
					pipelined := (scn.Mode == "pipe" || scn.Mode == "txnpipe" || scn.Mode == "stxnpipe") && scn.Window > 1
					if idRoute[lo] != idRoute[hi] && idBatch[lo] == idBatch[hi] {
						w = "batch-route-split"
					} else if pipelined && idBatch[lo] != idBatch[hi] && (idRoute[lo] != idRoute[hi] || redirected[idBatch[lo]]) {
						// the older command's batch was answered MOVED/ASK and is followed only
						// at Receive time, after the newer batch (already in flight) executed
						w = "pipelined-redirect-reorder"
					}
					// the mechanism of D22, read off the trace (not a label): the newer command was put
					// while the older one's batch was dispatched and not yet received, the older one was
					// answered MOVED/ASK and followed only after the newer one had executed
					cause := ""
					if p1, ok := firstRedirect[lo]; ok && w == "pipelined-redirect-reorder" {
						bl := idBatch[lo]
						rp, received := recvPos[bl]
						inFlight := dispPos[bl] < putPos[hi] && (!received || putPos[hi] < rp) // hi was put while lo's batch was dispatched, not yet received
						if inFlight && p1 < pos && lastPos[sk] < pos {
							cause = "redirect-followed-at-receive-while-newer-batch-in-flight"
						}
					}
					// session 5 (C19-F3): the older command's batch FAILED because the node pipeline it was pending on was reset by
					// a MOVED/ASK answer to ANOTHER batch (node_pipeline.go failPending: connection shut down, every pending request
					// completed with an error); its bytes were already on the aborted connection and the node executed them after a
					// newer batch, which went out on a new connection. Read off the trace: lo's batch ended with an error, was not
					// redirected itself, and its node had answered a redirect to another batch before lo executed.
					if w == "per-key-inversion" && pipelined && idBatch[lo] != idBatch[hi] && !redirected[idBatch[lo]] {
						failedLo := false
						for _, at := range res.Attempts {
							if at.Batch == idBatch[lo] && !at.OK {
								failedLo = true
							}
						}
						resetBy := -1
						for i, ev := range res.Trace {
							if i >= pos {
								break
							}
							p := strings.Split(ev, ":")
							if (p[0] == "q" || p[0] == "t") && len(p) == 5 && (p[4][0] == 'm' || p[4][0] == 'a') && p[1] == fmt.Sprint(idRoute[lo]) {
								var id int
								fmt.Sscan(p[2], &id)
								if idBatch[id] != idBatch[lo] {
									resetBy = idBatch[id]
								}
							}
						}
						if failedLo && resetBy >= 0 && lastPos[sk] < pos {
							w, cause = "pipelined-reset-reorder", "older-batch-failed-by-node-pipeline-reset-newer-batch-on-new-connection"
						}
					}
					out = append(out, vfcViol{w, fmt.Sprintf("key %s: cmd %d (batch %d, routed to node %d) took effect after cmd %d (batch %d, routed to node %d)",
						scn.Keys[ki], lo, idBatch[lo], idRoute[lo], hi, idBatch[hi], idRoute[hi]), cause})
				}
			}
			if !has[sk] || e.ID > last[sk] {
				last[sk] = e.ID
				lastPos[sk] = pos
			}
			has[sk] = true
		}
	}
	// never skips (Props.C19.exec_downward_closed / exec_never_skip, on the double's own log): when a
	// command of a key takes effect, every earlier command of that key has taken effect before - in
	// this attempt or an earlier one. Sequential use only (pipelining across batches is C19-F1), and
	// only when no node answered an error REPLY (see vfcErrorReply: commands pipelined behind such a
	// command execute all the same); lost connections and unfollowed / failed redirects are in.
	seqMode := scn.Mode == "sync" || scn.Mode == "syncnf" || scn.Mode == "stxn" ||
		((scn.Mode == "pipe" || scn.Mode == "stxnpipe") && scn.Window <= 1)
	if seqMode && !vfcErrorReply(res.Trace) {
		perKey := map[int][]int{}
		for _, b := range scn.Batches {
			for _, cm := range b {
				if _, put := idBatch[cm.ID]; !put {
					continue // refused by Put: it never entered a node queue (the batch reports that error)
				}
				for _, k := range cm.Keys {
					perKey[k] = append(perKey[k], cm.ID)
				}
			}
		}
		done := map[int]bool{}
		for _, e := range res.Execs {
			for _, ki := range keysOf[e.ID] {
				for _, id := range perKey[ki] {
					if id >= e.ID {
						break
					}
					if !done[id] {
						out = append(out, vfcViol{"per-key-skip", fmt.Sprintf("key %s: cmd %d took effect although the earlier cmd %d of that key had not (a later retry does not undo the gap)",
							scn.Keys[ki], e.ID, id), ""})
						break
					}
				}
			}
			done[e.ID] = true
		}
	}
	if txn {
		tot := map[int]int{}
		for _, e := range res.Execs {
			tot[e.ID]++
		}
		for id, n := range tot {
			if n > 1 {
				out = append(out, vfcViol{"txn-double-exec", fmt.Sprintf("cmd %d executed %d times in transactional mode", id, n), ""})
			}
		}
	}
	for _, at := range res.Attempts {
		if !at.OK {
			continue
		}
		for _, id := range at.IDs {
			if execIn[[2]int{at.Seg, id}] == 0 {
				out = append(out, vfcViol{"lost-command", fmt.Sprintf("batch %d acknowledged but cmd %d was never executed", at.Batch, id), ""})
			}
		}
	}
	return out
}

// vfcErrorReply: did a node answer an ERROR REPLY (not a redirect) to a data command? Commands
// pipelined behind such a command execute all the same, and the client goes on following later
// redirects of the queue (cluster.go handleReply hands an error reply back as a reply): the gap this
// leaves in a key is outside the property's fault alphabet (slot migrations, lost connections). An
// injected connection fault (F:cb / F:ac: the node closes the connection before / after applying the
// command) is not an error reply: the node stops there, and so must the client.
func vfcErrorReply(trace []string) bool {
	fault := ""
	for _, ev := range trace {
		p := strings.Split(ev, ":")
		switch {
		case p[0] == "F" && len(p) == 2:
			fault = p[1]
		case p[0] == "q" && len(p) == 5 && p[4] == "e":
			if fault != "cb" && fault != "ac" {
				return true
			}
			fault = ""
		}
	}
	return false
}

// ---------------------------------------------------------------- operational model (Model/ClusterExec.lean)

// vfcExecOp translates the observed run of a blocking plain scenario into the events of the
// operational model: B (Put… + Exec of the queue), x / r (the queue's node executed / refused a
// command), c (a followed redirect executed it elsewhere), A d (Exec returned nil), F (it returned an
// error), R (end of the run). The Lean driver replays them through ClusterExec.step (membership:
// node queues in order, a redirect followed only after the earlier replies of its queue, nil only
// after every command executed, a retry only after a redirect error) and prints the segment events,
// which are computed here from the attempts and the double's execution order.
func vfcExecOp(tag string, scn *vfcScn, res *vfcResult) (string, []string, string) {
	seq := scn.Mode == "sync" || scn.Mode == "syncnf" || scn.Mode == "stxn" ||
		((scn.Mode == "pipe" || scn.Mode == "stxnpipe") && scn.Window <= 1) // batch2 used one batch at a time
	if !seq {
		return "", nil, "mode"
	}
	// the group of a command: its key. A schedule without an ASK phase (no setMigrating) answers per
	// SLOT: then the group is the slot, and a command may have several keys of one slot
	bySlot := true
	for _, as := range scn.Between {
		for _, a := range as {
			if a.Ev.Kind == "g" {
				bySlot = false
			}
		}
	}
	for _, sc := range scn.During {
		if sc.Ev.Kind == "g" {
			bySlot = false
		}
	}
	pos := map[int]int{}
	var grp []string
	first := map[int]int{} // batch -> position of its first command
	size := map[int]int{}
	for bi, b := range scn.Batches {
		first[bi] = len(grp)
		for _, cm := range b {
			switch cm.Name {
			case "select", "ping":
				continue // no key: Put drops it / sends it to any node; it has no position in the stream of keyed commands
			case "set", "append", "lpush", "sadd", "hset", "vfgk", "vffb":
			case "mset", "smove":
				if !bySlot {
					return "", nil, "multi-key-under-ask"
				}
				for _, k := range cm.Keys {
					if vfdoubles.ClusterSlot(scn.Keys[k]) != vfdoubles.ClusterSlot(scn.Keys[cm.Keys[0]]) {
						return "", nil, "two-slot-command"
					}
				}
			default:
				return "", nil, "command-class"
			}
			if len(cm.Keys) < 1 || (!bySlot && len(cm.Keys) != 1) {
				return "", nil, "command-class"
			}
			pos[cm.ID] = len(grp)
			if bySlot {
				grp = append(grp, fmt.Sprint(vfdoubles.ClusterSlot(scn.Keys[cm.Keys[0]])))
			} else {
				grp = append(grp, fmt.Sprint(cm.Keys[0]))
			}
		}
		size[bi] = len(grp) - first[bi]
	}
	for _, n := range res.Notes {
		if strings.HasPrefix(n, "put-rejected") || n == "unsent" || n == "quiesce-timeout" || n == "refresh-not-parked" || n == "repark-timeout" {
			return "", nil, "note-" + strings.Split(n, ":")[0]
		}
	}
	if len(res.Dropped) > 0 || len(grp) == 0 {
		return "", nil, "dropped"
	}
	if _, split := vfcRouteSplit(scn, res); split {
		return "", nil, "route-split"
	}
	if vfcErrorReply(res.Trace) {
		return "", nil, "error-reply"
	}
	atoi := func(s string) int { n := 0; fmt.Sscan(s, &n); return n }
	var evs, log []string
	var segs []vfdoubles.ExecSeg
	var puts [][2]int
	answered, redirected, done := map[int]bool{}, map[int]bool{}, map[int]bool{}
	var app []int
	open, p0, q, ai, lastOK := false, 0, 0, 0, true
	quiet := true // no node executed a command of a group while an earlier one it refused was still unexecuted
	closeAtt := func() {
		if !open {
			return
		}
		kind := byte('c')
		if lastOK {
			kind = 'o'
		}
		segs = append(segs, vfdoubles.ExecSeg{Kind: kind, P: p0, Q: q, App: app})
		open = false
	}
	for _, ev := range res.Trace {
		p := strings.Split(ev, ":")
		switch p[0] {
		case "P":
			puts = append(puts, [2]int{atoi(p[2]), atoi(p[4])})
		case "D":
			bi := atoi(p[1])
			if open && lastOK {
				return "", nil, "attempt-order"
			}
			if open && (ai == 0 || (res.Attempts[ai-1].Err != "moved" && res.Attempts[ai-1].Err != "ask")) {
				// the harness retries every error, the blocking sender only redirects: after another error
				// its run ends and the next one starts from the stored position - which is 0 here
				if first[bi] != 0 {
					return "", nil, "retry-after-other"
				}
				closeAtt()
				evs, segs = append(evs, "R"), append(segs, vfdoubles.ExecSeg{Kind: 's'})
			}
			closeAtt()
			if len(puts) != size[bi] {
				return "", nil, "partial-put"
			}
			routes := make([]string, len(puts))
			for j, pu := range puts {
				if pos[pu[0]] != first[bi]+j {
					return "", nil, "put-order"
				}
				routes[j] = fmt.Sprint(pu[1])
			}
			puts = nil
			p0, q = first[bi], first[bi]+size[bi]
			evs = append(evs, fmt.Sprintf("B:%d:%d:0:%s", first[bi], q, strings.Join(routes, ",")))
			answered, redirected, done = map[int]bool{}, map[int]bool{}, map[int]bool{}
			app, open, lastOK = nil, true, false
		case "q":
			if len(p) != 5 || !open {
				return "", nil, "stray-answer"
			}
			i := pos[atoi(p[2])]
			switch {
			case !answered[i]:
				answered[i] = true
				switch p[4][0] {
				case 'x':
					for j := p0; j < i; j++ {
						if grp[j] == grp[i] && redirected[j] && !done[j] {
							quiet = false
						}
					}
					evs, done[i] = append(evs, fmt.Sprintf("x:%d", i)), true
					app, log = append(app, i), append(log, fmt.Sprint(i))
				case 'm', 'a':
					evs, redirected[i] = append(evs, fmt.Sprintf("r:%d", i)), true
				}
			case redirected[i] && !done[i]:
				if p[4] == "x" {
					evs, done[i] = append(evs, fmt.Sprintf("c:%d", i)), true
					app, log = append(app, i), append(log, fmt.Sprint(i))
				}
			default:
				return "", nil, "re-arrival"
			}
		case "E":
			if ai >= len(res.Attempts) {
				return "", nil, "attempt-count"
			}
			at := res.Attempts[ai]
			ai++
			if p[2] == "ok" {
				evs, lastOK = append(evs, "A", "d"), true
				closeAtt()
			} else if at.Err == "moved" || at.Err == "ask" {
				evs = append(evs, "F:rd")
			} else {
				evs = append(evs, "F:ot")
			}
		}
	}
	closeAtt()
	evs = append(evs, "R")
	segs = append(segs, vfdoubles.ExecSeg{Kind: 's'})
	l := "."
	if len(log) > 0 {
		l = strings.Join(log, ",")
	}
	if !quiet && !scn.Adv {
		return "", nil, "loud-generated-schedule" // the generator never lets a slot come back: counted, would be a generator bug
	}
	segLine, autoLine := vfdoubles.ExecExpect(grp, segs)
	op := fmt.Sprintf("c19x %s 1 %d %s %s", tag, len(grp), strings.Join(grp, ","), strings.Join(evs, " "))
	return op, []string{tag + " accept", fmt.Sprintf("%s quiet %v", tag, quiet), tag + " segs " + segLine,
		tag + " " + autoLine, tag + " log " + l, tag + " stored 0"}, ""
}

// ---------------------------------------------------------------- lines

func vfcLines(tag string, scn *vfcScn, res *vfcResult) (string, []string) {
	var sb strings.Builder
	hexKeys := make([][]byte, len(scn.Keys))
	for i, k := range scn.Keys {
		hexKeys[i] = []byte(k)
	}
	own := make([]string, len(res.Owner0))
	for i, o := range res.Owner0 {
		own[i] = fmt.Sprint(o)
	}
	mode := scn.Mode
	if scn.Adv {
		mode += "?" // adversarial schedule: the quiet line is not compared
	}
	fmt.Fprintf(&sb, "c19 %s %s %d %s %s", tag, mode, scn.N, vfutil.HexList(hexKeys), strings.Join(own, ","))
	// session 5: a multi-key command is put with ALL its keys (`P:<bid>:<cmd>:<k+k+…>:<node>`); the driver recomputes every
	// answer to it with ClusterMulti.answerM (CROSSSLOT, TRYAGAIN during a migration, ASK only when every key has gone)
	multi := map[string]string{}
	if scn.Mode != "txn" && scn.Mode != "txnpipe" {
		for _, b := range scn.Batches {
			for _, cm := range b {
				if len(cm.Keys) > 1 {
					var ks []string
					for _, k := range cm.Keys {
						ks = append(ks, fmt.Sprint(k))
					}
					multi[fmt.Sprint(cm.ID)] = strings.Join(ks, "+")
				}
			}
		}
	}
	for _, e := range res.Trace {
		sb.WriteByte(' ')
		if p := strings.Split(e, ":"); p[0] == "P" && len(p) == 5 && multi[p[2]] != "" {
			p[3] = multi[p[2]]
			e = strings.Join(p, ":")
		}
		sb.WriteString(e)
	}
	if id, split := vfcRouteSplit(scn, res); split {
		// the client routed a command differently from a not-yet-finished command
		// of the same slot: outside the (repaired) model; order is then a race
		return sb.String(), []string{fmt.Sprintf("%s reject route-split %d", tag, id)}
	}
	lines := []string{tag + " accept"}
	if !scn.Adv && scn.Mode != "txn" && scn.Mode != "txnpipe" {
		// the generator never lets a slot return to a node it left, so the run must
		// satisfy the theorem's QuietRun hypothesis (the model evaluates it on the trace)
		lines = append(lines, tag+" quiet true")
	}
	for n, l := range res.NodeLog {
		s := "."
		if len(l) > 0 {
			s = strings.Join(l, ",")
		}
		lines = append(lines, fmt.Sprintf("%s n%d %s", tag, n, s))
	}
	for ki := range scn.Keys {
		var ids []string
		for _, e := range res.Execs {
			if len(e.Keys) > 0 && e.Keys[0] == scn.Keys[ki] {
				ids = append(ids, fmt.Sprint(e.ID))
			}
		}
		s := "."
		if len(ids) > 0 {
			s = strings.Join(ids, ",")
		}
		lines = append(lines, fmt.Sprintf("%s k%d %s", tag, ki, s))
	}
	return sb.String(), lines
}

// vfcRouteSplit: is there a Put whose route differs from the route of a command
// of the same slot that is not finished yet (executed or answered with an
// error)? Computed from the trace alone (client puts + node answers).
func vfcRouteSplit(scn *vfcScn, res *vfcResult) (int, bool) {
	txn := scn.Mode == "txn" || scn.Mode == "txnpipe"
	type ent struct{ slot, node int }
	atoi := func(s string) int { n := 0; fmt.Sscan(s, &n); return n }
	out := map[int]ent{}
	if !txn {
		for _, e := range res.Trace {
			p := strings.Split(e, ":")
			switch p[0] {
			case "P":
				id, slot, n := atoi(p[2]), vfdoubles.ClusterSlot(scn.Keys[atoi(p[3])]), atoi(p[4])
				for _, o := range out {
					if o.slot == slot && o.node != n {
						return id, true
					}
				}
				out[id] = ent{slot, n}
			case "q":
				if o := p[4]; o == "x" || o == "e" {
					delete(out, atoi(p[2]))
				}
			case "U":
				delete(out, atoi(p[2]))
			case "X":
				out = map[int]ent{}
			}
		}
		return 0, false
	}
	tidOf := map[int]int{}
	var cur [][]string
	for _, e := range res.Trace {
		p := strings.Split(e, ":")
		switch p[0] {
		case "P":
			cur = append(cur, p)
		case "D":
			if len(cur) == 0 {
				continue
			}
			tid, slot, n := atoi(cur[0][2]), vfdoubles.ClusterSlot(scn.Keys[atoi(cur[0][3])]), atoi(cur[0][4])
			cur = nil
			for _, o := range out {
				if o.slot == slot && o.node != n {
					return tid, true
				}
			}
			out[tid] = ent{slot, n}
			tidOf[atoi(p[1])] = tid
		case "t":
			if o := p[4]; o == "x" || o == "e" {
				delete(out, atoi(p[2]))
			}
		case "E":
			if p[2] == "er" {
				delete(out, tidOf[atoi(p[1])])
			}
		}
	}
	return 0, false
}

// ---------------------------------------------------------------- generator

func vfcGen(r *vfutil.Rand, name string) *vfcScn {
	scn := &vfcScn{Name: name, N: r.Range(3, 4), Between: map[int][]vfcAct{}, MidPut: map[string]bool{}}
	scn.Empty = scn.N == 4 && r.Chance(1, 3)
	nt := r.Range(2, 4)
	tagKeys := make([][]int, nt)
	for t := 0; t < nt; t++ {
		nk := r.Range(1, 3)
		for j := 0; j < nk; j++ {
			tagKeys[t] = append(tagKeys[t], len(scn.Keys))
			scn.Keys = append(scn.Keys, fmt.Sprintf("k%d{t%d%s}", j, t, name))
		}
	}
	switch x := r.Intn(23); {
	case x < 8:
		scn.Mode = "sync"
	case x < 13:
		scn.Mode, scn.Window = "pipe", r.Range(1, 3)
	case x < 16:
		scn.Mode = "txn"
	case x < 20:
		scn.Mode, scn.Window = "txnpipe", r.Range(1, 4)
	case x < 22:
		scn.Mode = "stxn"
	default:
		scn.Mode, scn.Window = "stxnpipe", r.Range(1, 2)
	}
	realTxn := scn.Mode == "txn" || scn.Mode == "txnpipe"
	senderTxn := scn.Mode == "stxn" || scn.Mode == "stxnpipe"
	txn := realTxn || senderTxn
	// half of the scenarios have single-key commands only: those runs are also replayed through the
	// operational model (ClusterExec), whose groups are keys as soon as the schedule has an ASK phase
	single := r.Bool()
	multiHeavy := !single && !realTxn && r.Chance(1, 3)
	names := []string{"set", "append", "lpush", "sadd", "hset"}
	id := 1
	nb := r.Range(2, 6)
	total := 0
	for b := 0; b < nb; b++ {
		var batch []vfcCmd
		nc := r.Range(1, 8)
		if txn {
			nc = r.Range(1, 4)
		}
		tt := r.Intn(nt)
		for j := 0; j < nc; j++ {
			t := tt
			if !txn || (senderTxn && r.Chance(1, 6)) {
				t = r.Intn(nt)
			}
			ks := tagKeys[t]
			// command classes the router distinguishes (not for txnBatcher, whose Put is strict)
			if !realTxn {
				special := true
				switch x := r.Intn(120); {
				case x < 3:
					batch = append(batch, vfcCmd{id, "select", nil})
				case x < 6:
					batch = append(batch, vfcCmd{id, "ping", nil})
				case x < 7 && r.Chance(1, 3):
					batch = append(batch, vfcCmd{id, "publish", nil})
				case x < 8:
					special = false
				case x < 14:
					batch = append(batch, vfcCmd{id, "vfgk", []int{vfutil.Pick(r, ks)}}) // keys only via COMMAND GETKEYS
				case x < 20:
					batch = append(batch, vfcCmd{id, "vffb", []int{vfutil.Pick(r, ks)}}) // GETKEYS empty: args[0] fallback
				case x < 25 && len(ks) >= 2 && !single:
					mk := []int{ks[0], ks[1]}
					if len(ks) >= 3 && r.Bool() {
						mk = append(mk, ks[2]) // three keys of one slot
					}
					batch = append(batch, vfcCmd{id, "mset", mk}) // one slot
				case x < 26 && nt >= 2 && !single && r.Chance(1, 2):
					o := tagKeys[(t+1)%nt]
					batch = append(batch, vfcCmd{id, "mset", []int{ks[0], o[0]}}) // two slots: one node (server CROSSSLOT) or two (Put refuses)
				default:
					special = false
				}
				if special {
					id++
					total++
					continue
				}
			}
			if len(ks) >= 2 && multiHeavy && r.Chance(1, 2) {
				// session 5: scenarios dense in multi-key commands (MSET of 2-3 keys / SMOVE of one slot) so that they
				// meet the migration of their slot: TRYAGAIN at the owner and at the importing node, ASK with every key gone
				if r.Bool() {
					mk := []int{ks[0], ks[1]}
					if len(ks) >= 3 && r.Bool() {
						mk = append(mk, ks[2])
					}
					batch = append(batch, vfcCmd{id, "mset", mk})
				} else {
					a := r.Intn(len(ks))
					bb := (a + 1 + r.Intn(len(ks)-1)) % len(ks)
					batch = append(batch, vfcCmd{id, "smove", []int{ks[a], ks[bb]}})
				}
			} else if len(ks) >= 2 && !single && r.Chance(1, 12) {
				a := r.Intn(len(ks))
				bb := (a + 1 + r.Intn(len(ks)-1)) % len(ks)
				batch = append(batch, vfcCmd{id, "smove", []int{ks[a], ks[bb]}})
			} else {
				batch = append(batch, vfcCmd{id, vfutil.Pick(r, names), []int{vfutil.Pick(r, ks)}})
			}
			id++
			total++
		}
		scn.Batches = append(scn.Batches, batch)
	}
	// migration schedule. A slot never returns to a node it has left within one
	// scenario (the theorem's `Quiet` hypothesis); the adversarial corpus has
	// the ping-pong schedules.
	type sim struct {
		owner   int
		dst     int
		visited map[int]bool
		moved   map[int]bool
	}
	m := scn.N
	if scn.Empty {
		m--
	}
	sims := make([]*sim, nt)
	slots := make([]int, nt)
	for t := 0; t < nt; t++ {
		slots[t] = vfdoubles.ClusterSlot(scn.Keys[tagKeys[t][0]])
		o := slots[t] * m / 16384
		sims[t] = &sim{owner: o, dst: -1, visited: map[int]bool{o: true}, moved: map[int]bool{}}
	}
	nextEv := func() (vfdoubles.MigEv, bool) {
		t := r.Intn(nt)
		sm := sims[t]
		if sm.dst < 0 {
			var cand []int
			for n := 0; n < scn.N; n++ {
				if !sm.visited[n] {
					cand = append(cand, n)
				}
			}
			if len(cand) == 0 {
				return vfdoubles.MigEv{}, false
			}
			dst := vfutil.Pick(r, cand)
			sm.visited[dst] = true
			if r.Chance(1, 3) {
				sm.owner = dst
				return vfdoubles.MigEv{Kind: "v", Slot: slots[t], Dst: dst}, true
			}
			sm.dst = dst
			sm.moved = map[int]bool{}
			return vfdoubles.MigEv{Kind: "g", Slot: slots[t], Dst: dst}, true
		}
		var rest []int
		for _, k := range tagKeys[t] {
			if !sm.moved[k] {
				rest = append(rest, k)
			}
		}
		if len(rest) > 0 && r.Chance(2, 3) {
			k := vfutil.Pick(r, rest)
			sm.moved[k] = true
			return vfdoubles.MigEv{Kind: "k", Key: scn.Keys[k]}, true
		}
		sm.owner, sm.dst = sm.dst, -1
		return vfdoubles.MigEv{Kind: "f", Slot: slots[t]}, true
	}
	// events are generated in one global order and then placed either between
	// batches or at a request count; both placements preserve that order
	nev := r.Range(1, 7)
	pos := 0 // monotone position: batch index*1000 + request count
	cum := make([]int, nb+1)
	for b := 0; b < nb; b++ {
		cum[b+1] = cum[b] + len(scn.Batches[b])
	}
	bi := 0
	for e := 0; e < nev; e++ {
		ev, ok := nextEv()
		if !ok {
			continue
		}
		bi += r.Intn(2)
		if bi >= nb {
			bi = nb - 1
		}
		if r.Bool() {
			scn.Between[bi] = append(scn.Between[bi], vfcAct{Ev: ev})
		} else {
			at := cum[bi] + r.Intn(len(scn.Batches[bi])+2)
			if at < pos {
				at = pos
			}
			pos = at
			scn.During = append(scn.During, vfdoubles.Sched{At: at, Ev: ev})
		}
		if r.Chance(1, 3) {
			scn.Between[bi] = append(scn.Between[bi], vfcAct{Refresh: true})
		}
	}
	if !txn && r.Chance(1, 5) {
		b := r.Intn(nb)
		scn.MidPut[fmt.Sprintf("%d.%d", b, r.Intn(len(scn.Batches[b])))] = true
	}
	if !realTxn && multiHeavy && r.Chance(1, 2) {
		// a refresh between two Puts of a batch that is dense in multi-key commands: a multi-key command must follow, and
		// must record, the route its slot took earlier in the batch (seeded change C19-r2-m2)
		b := r.Intn(nb)
		if len(scn.Batches[b]) >= 2 {
			scn.MidPut[fmt.Sprintf("%d.%d", b, 1+r.Intn(len(scn.Batches[b])-1))] = true
		}
	}
	if !realTxn && scn.Window <= 1 && !scn.Empty && r.Chance(1, 4) {
		// (not with a node the client does not know: a MOVED to it makes the client refresh SYNCHRONOUSLY inside the
		// batch, and whether the released asynchronous map or that one is installed last cannot be read off the trace)
		// session 5: the parked refresh is released at a request count - while a batch is in flight (between route
		// pinning and the send of a later node batch, or between two answers); sequential use (window 1): with a
		// window the same refresh is C19-F1
		scn.During = append(scn.During, vfdoubles.Sched{At: r.Intn(total + 1), Ev: vfdoubles.MigEv{Kind: "p"}})
	}
	_ = total
	return scn
}

// vfcGenMidPutMulti (session 5, seeded change C19-r2-m2): the drawn form of corpus/C19/d21m-midput-multikey.txt - a slot has moved
// (the client's map is stale), and the refresh lands between two Puts of one batch of which one is a MULTI-KEY command of that slot
// (MSET of 2-3 keys / SMOVE) and the other a command on one of its keys, in either order; further commands around them.
func vfcGenMidPutMulti(r *vfutil.Rand, name string) *vfcScn {
	scn := &vfcScn{Name: name, N: 3, Between: map[int][]vfcAct{}, MidPut: map[string]bool{}}
	nk := r.Range(2, 3)
	for j := 0; j < nk; j++ {
		scn.Keys = append(scn.Keys, fmt.Sprintf("k%d{m%s}", j, name))
	}
	scn.Keys = append(scn.Keys, fmt.Sprintf("k0{n%s}", name)) // a key of another slot
	switch r.Intn(4) {
	case 0:
		scn.Mode, scn.Window = "pipe", 1
	case 1:
		scn.Mode = "stxn"
	default:
		scn.Mode = "sync"
	}
	slot := vfdoubles.ClusterSlot(scn.Keys[0])
	own := slot * 3 / 16384
	id := 1
	single := func(k int) vfcCmd {
		c := vfcCmd{id, vfutil.Pick(r, []string{"set", "sadd", "append"}), []int{k}}
		id++
		return c
	}
	multi := func() vfcCmd {
		var c vfcCmd
		if r.Bool() {
			ks := []int{0, 1}
			if nk == 3 && r.Bool() {
				ks = append(ks, 2)
			}
			c = vfcCmd{id, "mset", ks}
		} else {
			c = vfcCmd{id, "smove", []int{0, 1}}
		}
		id++
		return c
	}
	scn.Batches = append(scn.Batches, []vfcCmd{single(0)})
	var b []vfcCmd
	if scn.Mode != "stxn" && r.Bool() {
		b = append(b, single(nk)) // another slot first
	}
	at := len(b) + 1
	if r.Bool() {
		b = append(b, single(r.Intn(2)), multi())
	} else {
		b = append(b, multi(), single(r.Intn(2)))
	}
	if r.Bool() {
		b = append(b, single(0))
	}
	scn.Batches = append(scn.Batches, b)
	scn.Between[0] = []vfcAct{{Ev: vfdoubles.MigEv{Kind: "v", Slot: slot, Dst: (own + 1 + r.Intn(2)) % 3}}}
	scn.MidPut[fmt.Sprintf("1.%d", at)] = true
	return scn
}

// ---------------------------------------------------------------- Dispatch failure (ClusterSender.put / dispatch)

// vfcDispatchFault: the REAL batch2.Put / Dispatch with the node pipeline of one node batch closed
// beforehand (what a closed client leaves behind) or a Put that the router refuses (MSET over two
// nodes): which node batches were handed to their nodes although Dispatch returned an error? The
// sender dispatches the queue AGAIN after a non-redirect error of Dispatch (sendFunc, pipelined
// modes); in transactional mode that is only harmless because a failed Dispatch of a one-node batch
// has submitted nothing. Tie: ClusterSender.puts / dispatch on the same puts; monitor: a
// transactional batch (Put("multi") first) whose Dispatch failed reached no node.
func vfcDispatchFault(s *vfutil.Session, tag string, r *vfutil.Rand) {
	keyOn := func(node int, salt string) string {
		for i := 0; i < 100000; i++ {
			t := fmt.Sprintf("d%d%s", i, salt)
			if vfdoubles.ClusterSlot("{"+t+"}")*3/16384 == node {
				return "k{" + t + "}"
			}
		}
		return ""
	}
	keys := []string{keyOn(0, tag), keyOn(1, tag), keyOn(2, tag)}
	d, err := vfdoubles.NewCluster(3, keys)
	if err != nil {
		s.Op("c19d "+tag+" 0 . -", tag+" harness-error")
		return
	}
	defer d.Close()
	d.SetBaseLayout(3)
	c, err := NewCluster(&Options{StartNodes: d.Addrs(), ConnTimeout: 2 * time.Second, ReadTimeout: 30 * time.Second,
		WriteTimeout: 30 * time.Second, KeepAlive: 8, AliveTime: time.Minute})
	if err != nil {
		s.Op("c19d "+tag+" 0 . -", tag+" harness-error")
		return
	}
	defer c.Close()
	txn := r.Bool()
	b := c.NewBatcher(true).(*batch2)
	if txn {
		b.Put("multi")
	}
	var puts []string
	idsOn := map[int][]int{} // node -> ids routed there
	n := r.Range(1, 5)
	home := r.Intn(3)
	for id := 1; id <= n; id++ {
		nd := home
		if r.Chance(1, 3) {
			nd = r.Intn(3)
		}
		if r.Chance(1, 8) {
			// a command the router refuses: MSET over two nodes
			b.Put("mset", keys[nd], fmt.Sprintf("#%d", id), keys[(nd+1)%3], fmt.Sprintf("#%d", id))
			puts = append(puts, "r")
			continue
		}
		before := b.Len()
		b.Put("set", keys[nd], fmt.Sprintf("#%d", id))
		puts = append(puts, fmt.Sprint(nd))
		if b.Len() > before {
			idsOn[nd] = append(idsOn[nd], id)
		}
	}
	if txn {
		b.Put("exec")
	}
	closed := -1
	if len(b.batches) > 0 && r.Chance(2, 3) {
		closed = r.Intn(len(b.batches))
		c.pipeline.getNodePipeline(b.batches[closed].node).Close()
	}
	derr := b.Dispatch()
	// Submit on a closed node pipeline fails - or, when the queue has room, may still queue the request
	// (one select over both; such a request is never written): where Dispatch really stopped is read
	// off the batcher, the model gets that index
	failAt := "-"
	refused := false
	for _, p := range puts {
		if p == "r" {
			refused = true
		}
	}
	if txn && len(b.batches) == 1 {
		for _, p := range puts {
			if p != "r" && p != fmt.Sprint(d.NodeOfAddr(b.batches[0].node.address)) {
				refused = true // a second node in a transactional batch: refused with CROSSSLOT
			}
		}
	}
	if derr != nil && !refused {
		for i := range b.batches {
			if b.batches[i].request == nil || b.batches[i].err != nil { // Dispatch sets request before Submit, err when Submit failed
				failAt = fmt.Sprint(i)
				break
			}
		}
	}
	var submitted []string
	reached := false
	for i := range b.batches {
		nd := d.NodeOfAddr(b.batches[i].node.address)
		if b.batches[i].request != nil && b.batches[i].err == nil {
			submitted = append(submitted, fmt.Sprint(nd))
			if i != closed {
				// handed to a live node pipeline: it WILL be written
				if !d.WaitSeen(idsOn[nd], 3*time.Second) {
					s.Count("dispatch_fault_submitted_not_arrived")
				}
			}
		}
	}
	time.Sleep(5 * time.Millisecond)
	arr := d.Arrivals()
	for nd, ids := range idsOn {
		for _, id := range ids {
			if arr[id] > 0 {
				reached = true
				_ = nd
			}
		}
	}
	if closed >= 0 && derr == nil {
		s.Count("dispatch_fault_closed_pipeline_accepted") // the request sits in a dead queue
	}
	sub := "."
	if len(submitted) > 0 {
		sub = strings.Join(submitted, ",")
	}
	res := "ok"
	if derr != nil {
		res = "err"
	}
	tx := "0"
	if txn {
		tx = "1"
	}
	s.Op(fmt.Sprintf("c19d %s %s %s %s", tag, tx, strings.Join(puts, ","), failAt), fmt.Sprintf("%s submitted %s %s", tag, sub, res))
	s.Count("dispatch_fault_" + res)
	if txn {
		s.Count("dispatch_fault_txn")
	}
	if derr != nil && len(submitted) > 0 {
		s.Count("dispatch_fault_partial")
	}
	if txn && derr != nil && reached {
		s.Violate("txn-dispatch-failed-but-submitted", fmt.Sprintf("transactional batch: Dispatch returned an error (%v) but commands of it reached node(s) %s; the sender dispatches the queue again after such an error", derr, sub),
			map[string]interface{}{"puts": strings.Join(puts, ","), "failAt": failAt, "txn": txn})
	}
}

// ---------------------------------------------------------------- test

var vfcRetryRe = regexp.MustCompile(`F:rd( [xr]:\d+)* B:`)

func vfcOne(s *vfutil.Session, idx int, scn *vfcScn) (nops int) {
	nops = 1
	tag := fmt.Sprintf("#%d", idx)
	res, err := vfcRun(scn)
	if err != nil {
		s.Count("run_error")
		s.Op("c19 "+tag+" sync 0 . .", tag+" harness-error "+strings.ReplaceAll(err.Error(), " ", "_"))
		return
	}
	op, lines := vfcLines(tag, scn, res)
	s.Op(op, lines...)
	s.Count("mode_" + scn.Mode)
	if xop, xlines, why := vfcExecOp(fmt.Sprintf("#%d", idx+1), scn, res); xop != "" {
		s.Op(xop, xlines...)
		s.Count("exec_model_traces")
		// which branches of the operational model the run went through
		for _, w := range [][2]string{{" r:", "refused"}, {" c:", "followed"}, {" F:rd", "fail_redirect"}, {" F:ot", "fail_other"}, {" R B:", "restart_resend"}} {
			if strings.Contains(xop, w[0]) {
				s.Count("exec_model_" + w[1])
			}
		}
		for _, l := range xlines {
			if strings.HasSuffix(l, " quiet false") {
				s.Count("exec_model_quiet_false")
			}
			if strings.Contains(l, "prefix=false") {
				s.Count("exec_model_prefix_false")
			}
		}
		if vfcRetryRe.MatchString(xop) {
			s.Count("exec_model_retry")
		}
		nops = 2
	} else {
		s.Count("exec_model_skipped_" + why)
	}
	for _, n := range res.Notes {
		f := strings.Split(n, ":")
		if f[0] == "put-rejected" && len(f) == 4 {
			s.Count("put_" + f[3] + "_" + f[2]) // command name, error class ("ok" = dropped without error)
		} else {
			s.Count("note_" + f[0])
		}
	}
	multiIDs := map[string]bool{}
	for _, b := range scn.Batches {
		for _, cm := range b {
			if len(cm.Keys) > 1 {
				multiIDs[fmt.Sprint(cm.ID)] = true
			}
		}
	}
	redirects := 0
	for _, e := range res.Trace {
		p := strings.Split(e, ":")
		if p[0] == "q" && len(p) == 5 && multiIDs[p[2]] {
			s.Count("multikey_answer_" + map[byte]string{'x': "exec", 'm': "moved", 'a': "ask", 'e': "err"}[p[4][0]])
			if p[3] == "1" {
				s.Count("multikey_answer_under_asking")
			}
		}
		switch p[0] {
		case "q", "t":
			o := p[len(p)-1]
			switch o[0] {
			case 'x':
				s.Count("out_exec")
				if p[3] == "1" {
					s.Count("out_exec_asking")
				}
			case 'm':
				s.Count("out_moved")
				redirects++
			case 'a':
				s.Count("out_ask")
				redirects++
			case 'e':
				s.Count("out_err")
			}
		case "S":
			s.Count("refresh_sync")
		case "R":
			s.Count("refresh_async")
		case "X":
			s.Count("batch_retry")
		case "g", "k", "f", "v":
			s.Count("mig_" + p[0])
		}
	}
	for _, at := range res.Attempts {
		s.Count("attempt_" + at.Err)
	}
	if redirects > 0 {
		s.Distinct(strings.Join(res.Trace, " "))
	}
	viols := vfcMonitor(scn, res)
	if scn.Adv {
		// adversarial (ping-pong) schedules are outside the theorem's hypothesis:
		// recorded, not judged
		s.Add("adversarial_anomalies", len(viols))
		return nops
	}
	seen := map[string]bool{}
	for _, v := range viols {
		s.Count("viol_" + v.what)
		if seen[v.what] {
			continue
		}
		seen[v.what] = true
		js, _ := json.Marshal(scn)
		rp := map[string]interface{}{
			"scenario": string(js), "mode": scn.Mode, "window": scn.Window, "trace": strings.Join(res.Trace, " "),
		}
		rp["cause"] = v.cause // derived from the trace by the monitor ("" = mechanism not established)
		s.Violate(v.what, v.detail, rp)
	}
	return nops
}

func TestVerifC19(t *testing.T) {
	s := vfutil.NewSession("C19")
	defer s.Close()
	idx := 0
	if rp := os.Getenv("VERIF_REPLAY"); rp != "" {
		b, err := os.ReadFile(rp)
		if err == nil {
			var f struct {
				Replay struct {
					Scenario      string `json:"scenario"`
					FlushScenario string `json:"flush_scenario"`
				} `json:"replay"`
			}
			if json.Unmarshal(b, &f) == nil && f.Replay.FlushScenario != "" {
				var scn vfcFlushScn
				if json.Unmarshal([]byte(f.Replay.FlushScenario), &scn) == nil {
					vfcFlushOne(s, "#0", &scn)
					return
				}
			}
			if json.Unmarshal(b, &f) == nil && f.Replay.Scenario != "" {
				var scn vfcScn
				if json.Unmarshal([]byte(f.Replay.Scenario), &scn) == nil {
					vfcOne(s, idx, &scn)
					return
				}
			}
		}
		t.Fatalf("cannot load replay %s", rp)
	}
	for _, l := range vfutil.Corpus("C19") {
		// a client-harness scenario is ONE line `{"name":…,"batches":…}`; corpus/C19 also holds
		// witnesses of the sender harness (pretty-printed replays), which are not scenarios
		if !strings.HasPrefix(l, `{"name":`) {
			s.Count("corpus_line_skipped")
			continue
		}
		var scn vfcScn
		if err := json.Unmarshal([]byte(l), &scn); err != nil {
			t.Fatalf("bad corpus line: %v", err)
		}
		idx += vfcOne(s, idx, &scn)
		s.Count("src_corpus")
	}
	vfcFlushAll(s, &idx) // session 5: the verdict of a flush whose commands the router refuses (vf_c19flush_test.go)
	rd := vfutil.NewRand(vfutil.Seed() + 77)
	for i := 0; i < vfutil.Scale(40, 400); i++ {
		vfcDispatchFault(s, fmt.Sprintf("#%d", idx), rd.Fork())
		idx++
	}
	r := vfutil.NewRand(vfutil.Seed())
	n := vfutil.Scale(600, 12000)
	for i := 0; i < n; i++ {
		scn := vfcGen(r.Fork(), fmt.Sprintf("g%d", i))
		if i%20 == 19 {
			scn = vfcGenMidPutMulti(r.Fork(), fmt.Sprintf("m%d", i))
			s.Count("src_gen_midput_multikey")
		}
		idx += vfcOne(s, idx, scn)
		s.Count("src_gen")
	}
}
