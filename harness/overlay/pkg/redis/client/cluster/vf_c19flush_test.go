//go:build verif

package redis

// C19, session 5: the VERDICT OF A FLUSH whose commands the router refuses at Put.
//
// The sender (syncer/output.go sendFuncOnce) does not look at what Put returns: it puts the whole
// queue into a batcher and takes what Exec (blocking) or Dispatch + Receive (pipelined) return as the
// verdict of the flush - nil: acknowledged, the queue is dropped and the position moves past it. A
// multi-key command whose keys live on different nodes (DEL / UNLINK / MSET / MSETNX / SMOVE over two
// or three nodes) is refused by the router at Put and put in NO node batch; when it is the only
// command of its flush (batch ticker, BatchCmdCount = 1, a source transaction of its own) the batcher
// has no node batch at all. The recorded Put error must still be what the flush returns: otherwise
// the flush is acknowledged although no node executed the command - silent loss.
//
//   scenario : a stable three-node cluster double, 2-5 flushes of the real Batch (Exec) or batch2
//              (Dispatch, Receive), plain or sender-transactional (Put("multi") … Put("exec")); one or
//              two flushes consist of multi-key commands over different nodes only, the others of
//              single-key / one-slot commands. The replay stops at the first flush that reports an
//              error, as the sender does.
//   monitor  : lost-command - an ACKNOWLEDGED flush contains a command that no node executed
//              (the double's own execution log).
//   tie      : op c19f - the verdict of every flush vs Model/ClusterFlush.lean (ClusterSender.puts, then
//              the entry guards of Exec / Dispatch / Receive in the order the extractor read off the
//              source: Gen/C19Guards.lean).

import (
	"encoding/json"
	"fmt"
	"strings"
	"time"

	"github.com/mgtv-tech/redis-GunYu/pkg/vfdoubles"
	"github.com/mgtv-tech/redis-GunYu/pkg/vfutil"
)

type vfcFlushCmd struct {
	ID   int    `json:"id"`
	Name string `json:"n"`
	Keys []int  `json:"k"`
}

type vfcFlushScn struct {
	Name    string          `json:"fname"`
	Txn     bool            `json:"txn"`  // sender-transactional: Put("multi") first, Put("exec") last
	Pipe    bool            `json:"pipe"` // batch2: Dispatch + Receive; otherwise Batch: Exec
	Keys    []string        `json:"keys"`
	Flushes [][]vfcFlushCmd `json:"flushes"`
	// dimension audit: mixed use of ONE client - TxnPer[i] (when present) says whether flush i is bracketed by Put("multi") /
	// Put("exec") (the sender's keepalive ping is a plain flush on a transactional client): the client-global
	// transactionEnable / transactionNode of one flush must not leak into the next
	TxnPer []bool `json:"txn_per,omitempty"`
}

func (scn *vfcFlushScn) txnOf(i int) bool {
	if i < len(scn.TxnPer) {
		return scn.TxnPer[i]
	}
	return scn.Txn
}

func vfcFlushKeyNode(k string) int { return vfdoubles.ClusterSlot(k) * 3 / 16384 }

// vfcFlushArgs: the wire arguments of a command. set / mset / smove carry the id as `#id` (how the
// double identifies what it executed); del / unlink / msetnx have keys only - the harness generates
// them over different nodes only, where no node ever sees them.
func vfcFlushArgs(scn *vfcFlushScn, cm vfcFlushCmd) []interface{} {
	var args []interface{}
	switch cm.Name {
	case "mset", "msetnx":
		for _, k := range cm.Keys {
			args = append(args, scn.Keys[k], fmt.Sprintf("#%d", cm.ID))
		}
	case "del", "unlink":
		for _, k := range cm.Keys {
			args = append(args, scn.Keys[k])
		}
	default: // set, smove
		for _, k := range cm.Keys {
			args = append(args, scn.Keys[k])
		}
		args = append(args, fmt.Sprintf("#%d", cm.ID))
	}
	return args
}

// vfcFlushTok: what the model's Put sees: the node of a routable command, `r` for one whose keys live
// on different nodes (refused by the router)
func vfcFlushTok(scn *vfcFlushScn, cm vfcFlushCmd) string {
	nd := vfcFlushKeyNode(scn.Keys[cm.Keys[0]])
	for _, k := range cm.Keys[1:] {
		if vfcFlushKeyNode(scn.Keys[k]) != nd {
			return "r"
		}
	}
	return fmt.Sprint(nd)
}

func vfcFlushOne(s *vfutil.Session, tag string, scn *vfcFlushScn) {
	fail := func(why string) {
		s.Count("flush_harness_error")
		s.Op("c19f "+tag+" 0 0 .", tag+" harness-error "+why)
	}
	d, err := vfdoubles.NewCluster(3, scn.Keys)
	if err != nil {
		fail("double")
		return
	}
	defer d.Close()
	d.SetBaseLayout(3)
	c, err := NewCluster(&Options{StartNodes: d.Addrs(), ConnTimeout: 2 * time.Second, ReadTimeout: 30 * time.Second,
		WriteTimeout: 30 * time.Second, KeepAlive: 8, AliveTime: time.Minute, HandleMoveError: !scn.Txn, HandleAskError: !scn.Txn})
	if err != nil {
		fail("client")
		return
	}
	defer c.Close()

	var verdicts, flushToks []string
	type ackd struct {
		flush int
		cmds  []vfcFlushCmd
	}
	var acked []ackd
	putClass := map[int]string{}
	for fi, fl := range scn.Flushes {
		b := c.NewBatcher(scn.Pipe)
		if scn.txnOf(fi) {
			b.Put("multi")
		}
		var toks []string
		for _, cm := range fl {
			perr := b.Put(cm.Name, vfcFlushArgs(scn, cm)...) // like sendFuncOnce: the error is not looked at
			putClass[cm.ID] = vfcErrClass(perr)
			toks = append(toks, vfcFlushTok(scn, cm))
			if perr != nil {
				s.Count("flush_put_refused_" + cm.Name)
			}
		}
		if scn.txnOf(fi) {
			b.Put("exec")
		}
		if len(scn.TxnPer) > 0 {
			flushToks = append(flushToks, map[bool]string{true: "T", false: "N"}[scn.txnOf(fi)]+strings.Join(toks, ","))
		} else {
			flushToks = append(flushToks, strings.Join(toks, ","))
		}
		var ferr error
		if scn.Pipe {
			if ferr = b.Dispatch(); ferr == nil {
				_, ferr = b.Receive()
			}
		} else {
			_, ferr = b.Exec()
		}
		if ferr != nil {
			verdicts = append(verdicts, "err")
			s.Count("flush_reported_" + vfcErrClass(ferr))
			break // the sender reports it (retry, then ErrBreak / restart): nothing after it is sent by this run
		}
		verdicts = append(verdicts, "ok")
		acked = append(acked, ackd{fi, fl})
	}
	mode := "plain"
	if scn.Txn {
		mode = "txn"
	}
	if scn.Pipe {
		mode += "_pipe"
	} else {
		mode += "_block"
	}
	s.Count("flush_mode_" + mode)
	s.Op(fmt.Sprintf("c19f %s %d %d %s", tag, vfcB2i(scn.Txn), vfcB2i(scn.Pipe), strings.Join(flushToks, "/")),
		fmt.Sprintf("%s verdicts %s", tag, strings.Join(verdicts, ",")))

	// monitor: every command of an acknowledged flush was executed by a node (at the holder of its keys)
	_, execs, _ := d.Snapshot()
	done := map[int]bool{}
	for _, e := range execs {
		done[e.ID] = true
		for i := range e.Keys {
			if e.Holder[i] != e.Node {
				s.Violate("exec-not-at-holder", fmt.Sprintf("cmd %d executed at node %d, key %s lives at node %d", e.ID, e.Node, e.Keys[i], e.Holder[i]), nil)
			}
		}
	}
	// the sender's transactional path (Props.C19.txn_flush_ack_one_node): an acknowledged flush bracketed by
	// Put("multi") / Put("exec") was executed by ONE node, and the cluster client sent neither MULTI nor EXEC
	// (an execution inside a server-side transaction carries its id in Txn)
	if scn.Txn || len(scn.TxnPer) > 0 {
		nodeOf := map[int]int{}
		for _, e := range execs {
			nodeOf[e.ID] = e.Node
			if e.Txn >= 0 {
				s.Count("viol_txn-path-multi-on-the-wire")
				s.Violate("txn-path-multi-on-the-wire", fmt.Sprintf("cmd %d was executed inside a server-side MULTI/EXEC (transaction %d): the cluster client is expected to drop Put(\"multi\") / Put(\"exec\")", e.ID, e.Txn), nil)
			}
		}
		for _, a := range acked {
			if !scn.txnOf(a.flush) {
				continue
			}
			first := -1
			for _, cm := range a.cmds {
				if nd, ok := nodeOf[cm.ID]; ok {
					if first >= 0 && nd != first {
						js, _ := json.Marshal(scn)
						s.Count("viol_txn-flush-split-over-nodes")
						s.Violate("txn-flush-split-over-nodes", fmt.Sprintf("transactional flush %d was acknowledged with commands executed at node %d and node %d", a.flush, first, nd),
							map[string]interface{}{"flush_scenario": string(js), "mode": mode})
					}
					first = nd
				}
			}
			s.Count("flush_txn_acked_one_node")
		}
	}
	for _, a := range acked {
		for _, cm := range a.cmds {
			if done[cm.ID] {
				continue
			}
			var ks []string
			for _, k := range cm.Keys {
				ks = append(ks, fmt.Sprintf("%s@node%d", scn.Keys[k], vfcFlushKeyNode(scn.Keys[k])))
			}
			alone := ""
			if len(a.cmds) == 1 {
				alone = " (alone in its flush)"
			}
			js, _ := json.Marshal(scn)
			var log []string
			for _, e := range execs {
				log = append(log, fmt.Sprintf("node%d:cmd%d", e.Node, e.ID))
			}
			s.Count("viol_lost-command")
			s.Violate("lost-command", fmt.Sprintf("flush %d (%s) was ACKNOWLEDGED (nil from %s) but cmd %d `%s %s`%s was executed by no node: Put had refused it (%s) and the flush did not report that; "+
				"the sender drops the queue and moves the position past it",
				a.flush, mode, map[bool]string{false: "Exec", true: "Dispatch and Receive"}[scn.Pipe], cm.ID, cm.Name, strings.Join(ks, " "), alone, putClass[cm.ID]),
				map[string]interface{}{"flush_scenario": string(js), "mode": mode, "verdicts": strings.Join(verdicts, ","), "executed": strings.Join(log, " ")})
			return
		}
	}
}

func vfcB2i(b bool) int {
	if b {
		return 1
	}
	return 0
}

// vfcFlushTag: hash tags whose slot lives on `node` of the three-node base layout
func vfcFlushTags(node, n int, salt string) []string {
	var out []string
	for i := 0; len(out) < n && i < 100000; i++ {
		t := fmt.Sprintf("f%d%s", i, salt)
		if vfdoubles.ClusterSlot("{"+t+"}")*3/16384 == node {
			out = append(out, t)
		}
	}
	return out
}

// vfcFlushGen: kind = the multi-key command of the refused flush(es) ("" = random); lone = the refused
// command is alone in its flush
func vfcFlushGen(r *vfutil.Rand, name string, txn, pipe bool, kind string, lone bool) *vfcFlushScn {
	scn := &vfcFlushScn{Name: name, Txn: txn, Pipe: pipe}
	// per node: two keys of one slot and one key of another slot
	perNode := make([][]int, 3)
	for nd := 0; nd < 3; nd++ {
		tg := vfcFlushTags(nd, 2, name)
		for _, k := range []string{"k0{" + tg[0] + "}", "k1{" + tg[0] + "}", "k0{" + tg[1] + "}"} {
			perNode[nd] = append(perNode[nd], len(scn.Keys))
			scn.Keys = append(scn.Keys, k)
		}
	}
	id := 1
	crossCmd := func() vfcFlushCmd {
		k := kind
		if k == "" {
			k = vfutil.Pick(r, []string{"del", "unlink", "mset", "msetnx", "smove"})
		}
		a := r.Intn(3)
		b := (a + 1 + r.Intn(2)) % 3
		keys := []int{vfutil.Pick(r, perNode[a]), vfutil.Pick(r, perNode[b])}
		if k != "smove" && r.Chance(1, 3) {
			// three keys: over all three nodes, or two of them on one node
			keys = append(keys, vfutil.Pick(r, perNode[r.Intn(3)]))
		}
		if k != "smove" && r.Chance(1, 4) {
			// the first two keys on ONE node (the router follows the first key), the last elsewhere
			keys = []int{perNode[a][0], perNode[a][2], vfutil.Pick(r, perNode[b])}
		}
		cm := vfcFlushCmd{id, k, keys}
		id++
		return cm
	}
	plainFlush := func() []vfcFlushCmd {
		var fl []vfcFlushCmd
		home := r.Intn(3)
		for j, n := 0, r.Range(1, 3); j < n; j++ {
			nd := home
			if (!txn && r.Chance(1, 2)) || (txn && r.Chance(1, 8)) {
				nd = r.Intn(3) // transactional: a second node now and then (Put refuses it: CROSSSLOT, the flush is reported)
			}
			switch x := r.Intn(6); {
			case x == 0:
				fl = append(fl, vfcFlushCmd{id, "mset", []int{perNode[nd][0], perNode[nd][1]}}) // one slot
			case x == 1:
				fl = append(fl, vfcFlushCmd{id, "smove", []int{perNode[nd][0], perNode[nd][1]}})
			default:
				fl = append(fl, vfcFlushCmd{id, "set", []int{vfutil.Pick(r, perNode[nd])}})
			}
			id++
		}
		return fl
	}
	nf := r.Range(2, 5)
	bad := r.Intn(nf)
	bad2 := -1
	if r.Chance(1, 4) {
		bad2 = r.Intn(nf)
	}
	for f := 0; f < nf; f++ {
		switch {
		case f == bad || f == bad2:
			if lone {
				fl := []vfcFlushCmd{crossCmd()}
				if r.Chance(1, 4) {
					fl = append(fl, crossCmd()) // two refused commands, still no node batch
				}
				scn.Flushes = append(scn.Flushes, fl)
			} else {
				fl := plainFlush()
				p := r.Intn(len(fl) + 1)
				fl = append(fl[:p:p], append([]vfcFlushCmd{crossCmd()}, fl[p:]...)...)
				scn.Flushes = append(scn.Flushes, fl)
			}
		default:
			scn.Flushes = append(scn.Flushes, plainFlush())
		}
	}
	return scn
}

// vfcFlushAll: corpus line(s) `{"fname":…}`, every sender mode x every multi-key command alone in a
// flush, then generated scenarios.
func vfcFlushAll(s *vfutil.Session, idx *int) {
	run := func(scn *vfcFlushScn) {
		vfcFlushOne(s, fmt.Sprintf("#%d", *idx), scn)
		*idx++
	}
	for _, l := range vfutil.Corpus("C19") {
		if !strings.HasPrefix(l, `{"fname":`) {
			continue
		}
		var scn vfcFlushScn
		if json.Unmarshal([]byte(l), &scn) == nil && len(scn.Flushes) > 0 {
			run(&scn)
			s.Count("flush_corpus")
		}
	}
	// dimension audit: degenerate but legal keys - the EMPTY key "" (CRC16 of nothing: slot 0), a key of slot 16383, a key
	// with an empty hash tag `{}` (the whole key is hashed) - alone, in one-node flushes, and in a multi-key command over two nodes
	{
		last := ""
		for i := 0; i < 200000 && last == ""; i++ {
			if k := fmt.Sprintf("z%d", i); vfdoubles.ClusterSlot(k) == 16383 {
				last = k
			}
		}
		keys := []string{"", last, "{}x", "k{" + vfcFlushTags(0, 1, "deg")[0] + "}", "k{" + vfcFlushTags(2, 1, "deg")[0] + "}"}
		for mi, md := range [][2]bool{{false, false}, {false, true}, {true, false}, {true, true}} {
			scn := &vfcFlushScn{Name: fmt.Sprintf("deg%d", mi), Txn: md[0], Pipe: md[1], Keys: keys}
			scn.Flushes = [][]vfcFlushCmd{
				{{1, "set", []int{0}}},                           // the empty key alone
				{{2, "set", []int{0}}, {3, "set", []int{3}}},     // with a key of the same node (node 0)
				{{4, "set", []int{1}}},                           // slot 16383
				{{5, "set", []int{2}}},                           // `{}x`
				{{7, "del", []int{0, 1}}},                        // "" (node 0) and slot 16383 (node 2): refused at Put
			}
			run(scn)
			s.Count("flush_degenerate_keys")
		}
	}
	r := vfutil.NewRand(vfutil.Seed() + 1907)
	// mixed use of one client: transactional and plain flushes alternate; a transactional flush over two nodes (refused,
	// reported - the replay goes on here to see the NEXT flush: the harness restarts the replay with the following flushes on
	// the same client state is not possible, so the refused flush comes LAST or the flush before a plain two-node flush is an
	// accepted transactional one)
	for k := 0; k < vfutil.Scale(8, 80); k++ {
		for _, pipe := range []bool{false, true} {
			scn := vfcFlushGen(r.Fork(), fmt.Sprintf("x%d", k), false, pipe, "", true)
			// regenerate the flushes: T one-node, N two-node, T one-node, N lone refused / T two nodes
			keysOn := func(nd int) []int {
				var out []int
				for i, kk := range scn.Keys {
					if vfcFlushKeyNode(kk) == nd {
						out = append(out, i)
					}
				}
				return out
			}
			id := 1
			set := func(k int) vfcFlushCmd { c := vfcFlushCmd{id, "set", []int{k}}; id++; return c }
			a, b := r.Intn(3), 0
			b = (a + 1 + r.Intn(2)) % 3
			scn.Flushes = [][]vfcFlushCmd{
				{set(keysOn(a)[0]), set(keysOn(a)[1])},
				{set(keysOn(a)[0]), set(keysOn(b)[0])},
				{set(keysOn(b)[0]), set(keysOn(b)[2])},
				{set(keysOn(b)[1]), set(keysOn(a)[2])},
			}
			scn.TxnPer = []bool{true, false, true, r.Bool()}
			run(scn)
			s.Count("flush_mixed_client")
		}
	}
	i := 0
	for _, txn := range []bool{false, true} {
		for _, pipe := range []bool{false, true} {
			for _, kind := range []string{"del", "unlink", "mset", "msetnx", "smove"} {
				run(vfcFlushGen(r.Fork(), fmt.Sprintf("l%d", i), txn, pipe, kind, true))
				s.Count("flush_forced_lone")
				i++
			}
		}
	}
	for j := 0; j < vfutil.Scale(40, 600); j++ {
		lone := r.Chance(2, 3)
		run(vfcFlushGen(r.Fork(), fmt.Sprintf("h%d", j), r.Bool(), r.Bool(), "", lone))
		if lone {
			s.Count("flush_gen_lone")
		} else {
			s.Count("flush_gen_mixed")
		}
	}
}
