//go:build verif

package client

// C12 — stream decoding is lossless and its offsets equal the bytes consumed.
//
// The real Decoder / ParseArgs / Encode / proto.Writer.WriteArgs are run
// in-process; every case becomes one op line for the Lean driver
// (lean/GunYu/Drive/C12.lean documents the line protocol) and the
// implementation's answer lines. Independently of the model, the monitor
// checks the property itself: decoded args == sent args, offset == start +
// bytes up to and including the command, for every buffer size / read
// fragmentation tried.

import (
	"bufio"
	"bytes"
	"encoding/json"
	stderrors "errors"
	"fmt"
	"hash/fnv"
	"io"
	"math"
	"net"
	"os"
	"strconv"
	"strings"
	"testing"
	"time"

	"github.com/mgtv-tech/redis-GunYu/config"
	"github.com/mgtv-tech/redis-GunYu/pkg/redis/client/conn"
	"github.com/mgtv-tech/redis-GunYu/pkg/redis/client/proto"
	"github.com/mgtv-tech/redis-GunYu/pkg/vfutil"
)

// ------------------------------------------------------------ rendering

func vf12Render(b []byte) string {
	if len(b) <= 24 {
		return vfutil.Hex(b)
	}
	h := fnv.New64a()
	h.Write(b)
	return fmt.Sprintf("%d:%016x", len(b), h.Sum64())
}

func vf12RenderList(as [][]byte) string {
	if len(as) == 0 {
		return "."
	}
	p := make([]string, len(as))
	for i, a := range as {
		p[i] = vf12Render(a)
	}
	return strings.Join(p, ",")
}

// ------------------------------------------------------------ stream builder

// vf12Buf is a byte stream under construction together with its compact
// description for the ops file (h:<hex> / r:<byte>:<count> pieces).
type vf12Buf struct {
	data []byte
	toks []string
	pend []byte
}

func (b *vf12Buf) Lit(p []byte) {
	b.data = append(b.data, p...)
	b.pend = append(b.pend, p...)
}
func (b *vf12Buf) Str(s string) { b.Lit([]byte(s)) }
func (b *vf12Buf) flush() {
	if len(b.pend) > 0 {
		b.toks = append(b.toks, "h:"+vfutil.Hex(b.pend))
		b.pend = nil
	}
}
func (b *vf12Buf) Rep(c byte, n int) {
	if n < 64 {
		b.Lit(bytes.Repeat([]byte{c}, n))
		return
	}
	b.flush()
	b.toks = append(b.toks, fmt.Sprintf("r:%d:%d", c, n))
	b.data = append(b.data, bytes.Repeat([]byte{c}, n)...)
}
func (b *vf12Buf) Pieces() string {
	b.flush()
	return strings.Join(b.toks, " ")
}

// vf12Arg is one argument: literal bytes or one byte repeated.
type vf12Arg struct {
	data []byte
	rep  bool
	c    byte
	n    int
}

func (a vf12Arg) Len() int {
	if a.rep {
		return a.n
	}
	return len(a.data)
}
func (a vf12Arg) Bytes() []byte {
	if a.rep {
		return bytes.Repeat([]byte{a.c}, a.n)
	}
	return a.data
}

// vf12Encode is the harness's own RESP encoder (what the source sends).
func vf12Encode(b *vf12Buf, parts []vf12Arg) {
	b.Str("*" + strconv.Itoa(len(parts)) + "\r\n")
	for _, p := range parts {
		b.Str("$" + strconv.Itoa(p.Len()) + "\r\n")
		if p.rep {
			b.Rep(p.c, p.n)
		} else {
			b.Lit(p.data)
		}
		b.Str("\r\n")
	}
}

func vf12Lower(b []byte) []byte {
	o := make([]byte, len(b))
	for i, c := range b {
		if c >= 'A' && c <= 'Z' {
			c += 32
		}
		o[i] = c
	}
	return o
}

// ------------------------------------------------------------ strict oracle

// vf12Strict parses a stream of canonical multi-bulk commands (optionally
// separated by '\n' bytes) and returns each command's bulks and the number of
// stream bytes up to and including it. ok=false when the stream is not of
// that form (then the property's monitor does not apply, only the
// model/implementation comparison does).
func vf12Strict(data []byte) (cmds [][][]byte, ends []int, ok bool) {
	pos := 0
	num := func() (int, bool) { // canonical decimal followed by CRLF
		st := pos
		for pos < len(data) && data[pos] >= '0' && data[pos] <= '9' {
			pos++
		}
		if pos == st || pos-st > 9 || (data[st] == '0' && pos-st > 1) {
			return 0, false
		}
		v, _ := strconv.Atoi(string(data[st:pos]))
		if pos+2 > len(data) || data[pos] != '\r' || data[pos+1] != '\n' {
			return 0, false
		}
		pos += 2
		return v, true
	}
	for pos < len(data) {
		for pos < len(data) && data[pos] == '\n' {
			pos++
		}
		if pos == len(data) {
			return nil, nil, false // trailing newlines: no command ends there
		}
		if data[pos] != '*' {
			return nil, nil, false
		}
		pos++
		n, ok := num()
		if !ok || n < 1 {
			return nil, nil, false
		}
		var parts [][]byte
		for i := 0; i < n; i++ {
			if pos >= len(data) || data[pos] != '$' {
				return nil, nil, false
			}
			pos++
			l, ok := num()
			if !ok || pos+l+2 > len(data) || data[pos+l] != '\r' || data[pos+l+1] != '\n' {
				return nil, nil, false
			}
			parts = append(parts, data[pos:pos+l])
			pos += l + 2
		}
		if len(parts[0]) == 0 {
			return nil, nil, false
		}
		for _, c := range parts[0] {
			if c >= 0x80 {
				return nil, nil, false // non-ASCII names: strings.ToLower is not byte-wise
			}
		}
		cmds = append(cmds, parts)
		ends = append(ends, pos)
	}
	return cmds, ends, len(cmds) > 0
}

// ------------------------------------------------------------ running the real decoder

// vf12FragReader hands out the data in reads of 1..k bytes.
type vf12FragReader struct {
	data []byte
	pos  int
	k    int
	r    *vfutil.Rand
}

func (f *vf12FragReader) Read(p []byte) (int, error) {
	if f.pos >= len(f.data) {
		return 0, io.EOF
	}
	n := 1
	if f.k > 1 {
		n = 1 + f.r.Intn(f.k)
	}
	if n > len(p) {
		n = len(p)
	}
	if n > len(f.data)-f.pos {
		n = len(f.data) - f.pos
	}
	copy(p, f.data[f.pos:f.pos+n])
	f.pos += n
	return n, nil
}

type vf12Dec struct {
	cmd      string
	args     [][]byte
	off      int64 // startOffset + incrOffset
	consumed int64 // bytes of the stream really taken from the reader when the command was returned (independent of d.offset)
	inline   bool  // the command did not start with a RESP type byte (inline command: outside C12's quantifier)
}

func vf12ErrClass(err error) string {
	switch {
	case stderrors.Is(err, io.EOF):
		return "eof"
	case stderrors.Is(err, io.ErrUnexpectedEOF):
		return "ueof"
	default:
		return "bad"
	}
}

// vf12Run is the parser loop of syncer.parseAofCommand / parseAofReplayUnits
// reduced to its decoding part: NewDecoder once, then MustDecodeOpt +
// ParseArgs per command, offset = startOffset + incrOffset.
// preset is written into Decoder.offset before the first read (0 = the fresh
// decoder the parsers create; large values stand for a long-lived connection
// that has already consumed that many bytes — the int64 returned by
// MustDecodeOpt must still be exact there).
func vf12Run(data []byte, start, preset int64, bufSize, frag int, fseed uint64) (out []vf12Dec, errClass string) {
	fr := &vf12FragReader{data: data, k: frag, r: vfutil.NewRand(fseed)}
	return vf12RunOn(fr, func() int { return fr.pos }, nil, data, start, preset, bufSize)
}

// vf12RunOn: the loop over any underlying reader; pos() = bytes the reader has handed out so far;
// done (optional) is called after every command that was decoded AND parsed.
func vf12RunOn(rd io.Reader, pos func() int, done func(), data []byte, start, preset int64, bufSize int) (out []vf12Dec, errClass string) {
	defer func() {
		if p := recover(); p != nil {
			errClass = "panic"
		}
	}()
	d := NewDecoder(bufio.NewReaderSize(rd, bufSize))
	if preset != 0 {
		d.offset = preset
	}
	prev := 0
	for {
		resp, incr, err := MustDecodeOpt(d)
		if err != nil {
			return out, vf12ErrClass(err)
		}
		// what was really consumed: handed out by the reader minus what still sits in bufio
		cons := pos() - d.r.Buffered()
		p := prev
		for p < len(data) && data[p] == '\n' {
			p++
		}
		inline := p < len(data) && !strings.ContainsRune("+-:$*", rune(data[p]))
		prev = cons
		cmd, args, err := ParseArgs(resp)
		if err != nil {
			return out, "parse"
		}
		// keep the decoder's own slices, exactly as parseAofCommand does (the commands wait in
		// sendBuf / the batch queue while the parser decodes on): an argument must still hold
		// its bytes when the whole stream has been decoded, not only right after its decode
		out = append(out, vf12Dec{cmd, args, start + incr, int64(cons), inline})
		if done != nil {
			done()
		}
	}
}

func vf12Lines(idx int, out []vf12Dec, errClass string) []string {
	ls := make([]string, 0, len(out)+1)
	for _, c := range out {
		ls = append(ls, fmt.Sprintf("#%d c %s %s @%d", idx, vf12Render([]byte(c.cmd)), vf12RenderList(c.args), c.off))
	}
	return append(ls, fmt.Sprintf("#%d e %s", idx, errClass))
}

// vf12LinesX renders a stream outside the property's quantifier (`decx` op): the commands decoded
// before the decoder stops, offsets only as long as no inline command was met, and `e stop` for
// every error class — so that repairing how inline commands are counted, or reclassifying an
// error on a malformed stream, is not reported against C12.
func vf12LinesX(idx int, out []vf12Dec, errClass string) []string {
	ls := make([]string, 0, len(out)+1)
	tainted := false
	for _, c := range out {
		tainted = tainted || c.inline
		if tainted {
			ls = append(ls, fmt.Sprintf("#%d c %s %s @~", idx, vf12Render([]byte(c.cmd)), vf12RenderList(c.args)))
		} else {
			ls = append(ls, fmt.Sprintf("#%d c %s %s @%d", idx, vf12Render([]byte(c.cmd)), vf12RenderList(c.args), c.off))
		}
	}
	if errClass == "panic" {
		return append(ls, fmt.Sprintf("#%d e panic", idx))
	}
	return append(ls, fmt.Sprintf("#%d e stop", idx))
}

var vf12BufSizes = []int{16, 17, 31, 64, 100, 512, 4096, 65536, 1 << 20}
var vf12Frags = []int{1, 2, 3, 5, 16, 100, 4096, 1 << 16, 1 << 30}

type vf12T struct {
	s   *vfutil.Session
	r   *vfutil.Rand
	idx int
	t   *testing.T
}

func vf12Short(s string) string {
	if len(s) > 4000 {
		return s[:4000] + "…(truncated)"
	}
	return s
}

// vf12Replay describes a failing op: the op line itself when short, otherwise
// a preview plus a file under /verif/replays holding the complete line.
func vf12Replay(line string) map[string]interface{} {
	m := map[string]interface{}{"op": vf12Short(line)}
	if len(line) > 4000 {
		root := os.Getenv("VERIF_ROOT")
		if root == "" {
			root = "/verif"
		}
		h := fnv.New64a()
		h.Write([]byte(line))
		p := fmt.Sprintf("%s/replays/C12-op-%016x.txt", root, h.Sum64())
		os.MkdirAll(root+"/replays", 0o755)
		if os.WriteFile(p, []byte(line+"\n"), 0o644) == nil {
			m["op_file"] = p
		}
	}
	return m
}

// stream runs one stream through the real decoder under several buffer /
// fragmentation configurations, records the op, and applies the monitor.
// want != nil carries the generated commands (otherwise the strict oracle
// decides whether the monitor applies).
func (x *vf12T) stream(src string, start int64, b *vf12Buf, want [][][]byte, nconf int) {
	x.streamP(src, start, x.preset(&start), b, want, nconf)
}

var vf12Presets = []int64{1<<31 - 3, 1<<32 - 3, 1<<53 - 3, 1 << 62}

// preset picks the decoder's initial counter: mostly 0, sometimes just below
// 2^31 / 2^32 / 2^53 or at 2^62 (start is reduced so that the sum stays an int64).
func (x *vf12T) preset(start *int64) int64 {
	if !x.r.Chance(1, 4) {
		return 0
	}
	p := vfutil.Pick(x.r, vf12Presets)
	if p >= 1<<53 {
		*start %= 1 << 60
	}
	x.s.Count(fmt.Sprintf("decoder_offset_preset_%d", p))
	return p
}

func (x *vf12T) streamP(src string, start, preset int64, b *vf12Buf, want [][][]byte, nconf int) {
	s := x.s
	data := b.data
	pieces := b.Pieces()
	scmds, sends, sok := vf12Strict(data)
	if want != nil {
		// harness self-consistency: the oracle must read back what was generated
		if !sok || len(scmds) != len(want) {
			x.t.Fatalf("harness: strict oracle disagrees with generator (%s)", vf12Short(pieces))
		}
		for i := range want {
			if len(want[i]) != len(scmds[i]) {
				x.t.Fatalf("harness: strict oracle disagrees with generator (cmd %d)", i)
			}
			for j := range want[i] {
				if !bytes.Equal(want[i][j], scmds[i][j]) {
					x.t.Fatalf("harness: strict oracle disagrees with generator (cmd %d arg %d)", i, j)
				}
			}
		}
	}
	var first, firstOut []string
	var opLine string
	for c := 0; c < nconf; c++ {
		bs := vfutil.Pick(x.r, vf12BufSizes)
		fk := vfutil.Pick(x.r, vf12Frags)
		if len(data) > 1<<20 && fk < 16 && c > 0 {
			fk = 4096
		}
		fseed := x.r.U64() % 1000000
		out, ec := vf12Run(data, start, preset, bs, fk, fseed)
		lines := vf12Lines(x.idx, out, ec) // exact, compared between configurations of the same code
		opName := "dec"
		if !sok {
			opName = "decx" // outside the quantifier: compared with the model coarsely
		}
		line := fmt.Sprintf("%s %d %d %d %d %d %d %s", opName, x.idx, start, preset, bs, fk, fseed, pieces)
		s.Count(fmt.Sprintf("bufio_%d", bs))
		s.Count(fmt.Sprintf("cfg_readBufSize_%d", bs)) // the only option that reaches the decoder: the size of the bufio.Reader its callers build (store / memory channel readBufSize, 64 KiB in replica.go, 4096 in cmd/aof.go)
		s.Count(fmt.Sprintf("frag_%d", fk))
		// offset == bytes really consumed, for every command returned on ANY stream before the
		// first inline command (canonical or not): the counter against the reader, no oracle needed
		tainted := false
		for i, c := range out {
			if c.inline && !tainted {
				switch c.off - (start + preset + c.consumed) {
				case 1:
					s.Count("observation_inline_first_byte_counted_twice")
				case 0:
					s.Count("observation_inline_offset_exact")
				default:
					s.Count("observation_inline_offset_other")
				}
			}
			tainted = tainted || c.inline
			if !tainted && c.off != start+preset+c.consumed {
				m := vf12Replay(line)
				m["command_index"] = i
				m["got_offset"] = c.off
				m["want_offset"] = start + preset + c.consumed
				m["source"] = src
				s.Violate("offset-not-bytes-consumed", fmt.Sprintf("cmd %d: offset %d, but start %d + decoder offset before %d + bytes taken from the reader %d = %d",
					i, c.off, start, preset, c.consumed, start+preset+c.consumed), m)
			}
		}
		if c == 0 {
			first, opLine = lines, line
			if sok {
				firstOut = lines
			} else {
				firstOut = vf12LinesX(x.idx, out, ec)
			}
			s.Count("end_" + ec)
			s.Add("commands_decoded", len(out))
		} else if strings.Join(first, "\n") != strings.Join(lines, "\n") {
			m := vf12Replay(line)
			m["first_op"] = vf12Short(opLine)
			s.Violate("fragmentation-dependence", "the same stream decodes differently under another bufio size / read fragmentation", m)
		}
		if ec == "panic" {
			s.Violate("decoder-panic", "decoder panicked", vf12Replay(line))
		}
		if ov := vf12Overlap(out); ov != "" {
			m := vf12Replay(line)
			m["source"] = src
			s.Violate("args-share-memory", ov, m)
		}
		// ---------------- the property, checked directly
		if sok {
			rp := func(i int) map[string]interface{} {
				// shrink: the failing command alone, if it still fails on its own
				use := line
				if i < len(scmds) && len(scmds) > 1 {
					from := 0
					if i > 0 {
						from = sends[i-1]
					}
					sub := data[from:sends[i]]
					o2, e2 := vf12Run(sub, start, preset, bs, fk, fseed)
					bad := e2 != "eof" || len(o2) != 1 || o2[0].off != start+preset+int64(len(sub)) || len(o2[0].args) != len(scmds[i])-1
					for j := 0; !bad && j < len(o2[0].args); j++ {
						bad = !bytes.Equal(o2[0].args[j], scmds[i][j+1])
					}
					if bad {
						sb := &vf12Buf{}
						sb.Lit(sub)
						use = fmt.Sprintf("dec 0 %d %d %d %d %d %s", start, preset, bs, fk, fseed, sb.Pieces())
						i = 0
					}
				}
				m := vf12Replay(use)
				m["command_index"] = i
				m["source"] = src
				return m
			}
			if ec != "eof" {
				s.Violate("unexpected-error", fmt.Sprintf("well-formed stream ended with %q after %d of %d commands", ec, len(out), len(scmds)), rp(len(out)))
			}
			if len(out) != len(scmds) {
				s.Violate("command-count", fmt.Sprintf("decoded %d commands, sent %d", len(out), len(scmds)), rp(len(out)))
			}
			for i := 0; i < len(out) && i < len(scmds); i++ {
				w := scmds[i]
				if out[i].cmd != string(vf12Lower(w[0])) {
					s.Violate("command-name", fmt.Sprintf("cmd %d: name %q, sent %q", i, out[i].cmd, w[0]), rp(i))
				}
				okArgs := len(out[i].args) == len(w)-1
				for j := 0; okArgs && j < len(out[i].args); j++ {
					okArgs = bytes.Equal(out[i].args[j], w[j+1])
				}
				if !okArgs {
					m := rp(i)
					m["got_args"] = vf12Short(vf12RenderList(out[i].args))
					m["sent_args"] = vf12Short(vf12RenderList(w[1:]))
					s.Violate("args-not-lossless", fmt.Sprintf("cmd %d: decoded arguments differ from the bytes sent", i), m)
				}
				if out[i].off != start+preset+int64(sends[i]) {
					m := rp(i)
					m["got_offset"] = out[i].off
					m["want_offset"] = start + preset + int64(sends[i])
					m["decoder_offset_before"] = preset
					s.Violate("offset-not-bytes-consumed", fmt.Sprintf("cmd %d: offset %d, start + decoder offset before (%d) + bytes consumed = %d", i, out[i].off, preset, start+preset+int64(sends[i])), m)
				}
			}
		}
	}
	s.Op(opLine, firstOut...)
	s.Count("src_" + src)
	if sok {
		s.Count("streams_wellformed")
		if len(scmds) > 1 || len(data) > 128 {
			h := fnv.New64a()
			h.Write(data)
			s.Distinct(fmt.Sprintf("%x", h.Sum64()))
		}
	} else {
		s.Count("streams_malformed_or_noncanonical")
	}
	x.idx++
}

// ------------------------------------------------------------ generators

var vf12Sizes = []int{0, 1, 2, 127, 128, 129, 4095, 4096, 4097, 65535, 65536, 65537}

func vf12Content(r *vfutil.Rand, n int) []byte {
	b := make([]byte, n)
	switch r.Intn(7) {
	case 0, 1: // any bytes
		copy(b, r.Bytes(n))
	case 2: // protocol characters
		al := []byte("\r\n$*0123456789-+: ")
		for i := range b {
			b[i] = vfutil.Pick(r, al)
		}
	case 3:
		for i := range b {
			b[i] = '\n'
		}
	case 4:
		for i := range b {
			b[i] = "\r\n"[i%2]
		}
	case 5: // an embedded complete command
		p := []byte("*1\r\n$4\r\nPING\r\n")
		for i := range b {
			b[i] = p[i%len(p)]
		}
	default:
		for i := range b {
			b[i] = byte('a' + r.Intn(26))
		}
	}
	return b
}

func vf12Name(r *vfutil.Rand) []byte {
	switch r.Intn(6) {
	case 0: // any ASCII bytes, incl. control and protocol characters
		n := r.Range(1, 12)
		b := make([]byte, n)
		for i := range b {
			b[i] = byte(r.Intn(128))
		}
		return b
	case 1:
		return []byte(vfutil.Pick(r, []string{"\r", "\n", "$", "*", " ", "*1\r\n", "$-1", "A\r\nB"}))
	default:
		names := []string{"SET", "set", "SeT", "GET", "DEL", "PING", "SELECT", "MULTI", "EXEC", "HSET", "XADD", "PUBLISH", "RESTORE", "EVAL"}
		return []byte(vfutil.Pick(r, names))
	}
}

func (x *vf12T) size(big *int) int {
	r := x.r
	switch r.Intn(10) {
	case 0, 1:
		n := vfutil.Pick(r, vf12Sizes)
		if n > 60000 {
			if *big <= 0 {
				return r.Intn(300)
			}
			*big--
		}
		return n
	case 2:
		return r.Range(100, 1500)
	default:
		return r.Intn(40)
	}
}

type vf12Cmd struct{ parts []vf12Arg }

func vf12Want(cs []vf12Cmd) [][][]byte {
	w := make([][][]byte, len(cs))
	for i, c := range cs {
		for _, p := range c.parts {
			w[i] = append(w[i], p.Bytes())
		}
	}
	return w
}

func (x *vf12T) genCmd(big *int, maxArgs int) vf12Cmd {
	r := x.r
	na := r.Intn(5)
	if r.Chance(1, 12) {
		na = r.Range(0, maxArgs)
	}
	parts := []vf12Arg{{data: vf12Name(r)}}
	for i := 0; i < na; i++ {
		n := x.size(big)
		if na > 20 && n > 200 {
			n = r.Intn(200)
		}
		parts = append(parts, vf12Arg{data: vf12Content(r, n)})
		x.s.Count(vf12SizeClass(n))
	}
	return vf12Cmd{parts}
}

func vf12SizeClass(n int) string {
	switch {
	case n <= 2:
		return fmt.Sprintf("argsize_%d", n)
	case n >= 127 && n <= 129, n >= 4095 && n <= 4097, n >= 65535 && n <= 65537:
		return fmt.Sprintf("argsize_%d", n)
	case n >= 1<<20:
		return "argsize_multi_megabyte"
	case n < 127:
		return "argsize_3_126"
	case n < 4095:
		return "argsize_130_4094"
	default:
		return "argsize_4098_plus"
	}
}

func (x *vf12T) startOffset() int64 {
	r := x.r
	switch r.Intn(6) {
	case 0:
		return 0
	case 1:
		return int64(r.Intn(100000))
	case 2:
		return int64(1)<<31 - 5 + int64(r.Intn(10))
	case 3:
		return int64(1)<<32 - 5 + int64(r.Intn(10))
	case 4:
		return int64(1)<<40 + int64(r.Intn(1<<30))
	default:
		return int64(r.U64() >> 2 >> uint(r.Intn(40)))
	}
}

func (x *vf12T) emitCmds(cs []vf12Cmd, newlines bool) *vf12Buf {
	b := &vf12Buf{}
	for _, c := range cs {
		if newlines && x.r.Chance(1, 2) {
			b.Rep('\n', x.r.Range(1, 4))
			x.s.Count("newline_run_before_command")
		}
		vf12Encode(b, c.parts)
	}
	return b
}

// ------------------------------------------------------------ WriteArgs / Encode

// wargs runs proto.Writer.WriteArgs on the arguments, decodes the bytes with
// the real decoder, and records the op.
// vf12Sink is the target's side of a connection: it keeps what the tool writes.
type vf12Sink struct{ buf bytes.Buffer }

func (c *vf12Sink) Read(p []byte) (int, error)         { return 0, io.EOF }
func (c *vf12Sink) Write(p []byte) (int, error)        { return c.buf.Write(p) }
func (c *vf12Sink) Close() error                       { return nil }
func (c *vf12Sink) LocalAddr() net.Addr                { return &net.TCPAddr{} }
func (c *vf12Sink) RemoteAddr() net.Addr               { return &net.TCPAddr{} }
func (c *vf12Sink) SetDeadline(t time.Time) error      { return nil }
func (c *vf12Sink) SetReadDeadline(t time.Time) error  { return nil }
func (c *vf12Sink) SetWriteDeadline(t time.Time) error { return nil }

// wargs sends the command the way the tool does — the real conn.RedisConn.Send
// (send → proto.Writer.WriteArgs) + Flush over a connection whose other end keeps the
// bytes — and also through a bare proto.Writer; both must produce the same bytes. The
// bytes are decoded with the real decoder, and the op is recorded for the model.
// args[0] is the command name (a string, as Send takes it).
func (x *vf12T) wargs(args []interface{}, toks []string, payload [][]byte) {
	s := x.s
	toks = append([]string{}, toks...)
	payload = append([][]byte{}, payload...)
	var buf bytes.Buffer
	w := proto.NewWriter(&buf, vfutil.Pick(x.r, []int{16, 64, 4096, 65536}))
	if err := w.WriteArgs(args); err != nil {
		x.t.Fatalf("WriteArgs: %v", err)
	}
	w.Flush()
	wire := buf.Bytes()
	if name, ok := args[0].(string); ok {
		sink := &vf12Sink{}
		rc := conn.VerifNewRedisConn(sink, config.RedisConfig{})
		if err := rc.Send(name, args[1:]...); err != nil {
			x.t.Fatalf("RedisConn.Send: %v", err)
		}
		if err := rc.Flush(); err != nil {
			x.t.Fatalf("RedisConn.Flush: %v", err)
		}
		if !bytes.Equal(sink.buf.Bytes(), wire) {
			s.Violate("send-differs-from-writeargs", "RedisConn.Send puts other bytes on the connection than Writer.WriteArgs of (cmd, args…)",
				vf12Replay("wa 0 "+strings.Join(toks, " ")))
		}
		wire = append([]byte{}, sink.buf.Bytes()...) // what really goes to the target
		s.Count("writeargs_through_redisconn_send")
	}
	// float arguments (zset scores on the snapshot path): the property asks that the target
	// reads the same value, i.e. the decimal text on the wire parses back to exactly the
	// float64 passed. WHICH round-tripping text the writer chooses ('f', 'g', exponent) is not
	// C12's business: the op carries the writer's own text, the model frames it.
	if cmds, _, ok := vf12Strict(wire); ok && len(cmds) == 1 && len(cmds[0]) == len(args) {
		for i, a := range args {
			var f float64
			switch v := a.(type) {
			case float64:
				f = v
			case float32:
				f = float64(v)
			default:
				continue
			}
			txt := string(cmds[0][i])
			back, err := strconv.ParseFloat(txt, 64)
			same := err == nil && (math.Float64bits(back) == math.Float64bits(f) || (back != back && f != f))
			if !same {
				m := vf12Replay("wa 0 " + strings.Join(toks, " "))
				m["float_bits"] = fmt.Sprintf("%016x", math.Float64bits(f))
				m["wire_text"] = txt
				m["shortest_f_text"] = strconv.FormatFloat(f, 'f', -1, 64)
				s.Violate("wa-float-roundtrip", fmt.Sprintf("float argument %v written as %q, which does not read back as the same float64", f, txt), m)
			}
			if txt == strconv.FormatFloat(f, 'f', -1, 64) {
				s.Count("writeargs_float_text_is_shortest_f")
			} else {
				s.Count("writeargs_float_text_other_rendering")
			}
			if i < len(toks) && strings.HasPrefix(toks[i], "F:") && same {
				toks[i] = "F:" + vfutil.HexS(txt)
				payload[i] = []byte(txt)
			}
			s.Count("writeargs_float_checked")
		}
	}
	// second, independent reader of the same bytes: proto.Reader (the reply reader)
	if rep, err := proto.NewReader(bytes.NewReader(wire), 4096).ReadReply(); err != nil {
		s.Violate("wa-protoreader", fmt.Sprintf("proto.Reader cannot read WriteArgs output: %v", err), vf12Replay("wa 0 "+strings.Join(toks, " ")))
	} else {
		sl, ok := rep.([]interface{})
		ok = ok && len(sl) == len(payload)
		for i := 0; ok && i < len(sl); i++ {
			str, isStr := sl[i].(string)
			ok = isStr && str == string(payload[i])
		}
		if !ok {
			s.Violate("wa-protoreader", "proto.Reader reads different arguments from WriteArgs output", vf12Replay("wa 0 "+strings.Join(toks, " ")))
		}
		s.Count("writeargs_read_by_proto_reader")
	}
	x.back("wa", wire, toks, payload)
	s.Count("writeargs_cases")
}

var vf12Floats = []float64{0, 0.1, -0.1, 1, -1, 1.5, 0.30000000000000004, 1e21, 1e22, 1e-7, 5e-324, 2.2250738585072014e-308,
	1.7976931348623157e308, 9007199254740993, 9007199254740992, 16777217, 3.4028234663852886e38, 1.0000001, 123456.789,
	math.Inf(1), math.Inf(-1), math.Copysign(0, -1), 1700000000.123456}

func (x *vf12T) genFloat() float64 {
	r := x.r
	switch r.Intn(4) {
	case 0:
		return vfutil.Pick(r, vf12Floats)
	case 1: // any bit pattern except NaN (Redis rejects NaN scores; the text "NaN" is compared by the framing check only)
		f := math.Float64frombits(r.U64())
		if f != f {
			return 0.5
		}
		return f
	case 2: // timestamps / scores with fractions
		return float64(r.Intn(2000000000)) + float64(r.Intn(1000000))/1e6
	default: // integers around 2^53 and small ratios
		if r.Bool() {
			return float64(int64(1)<<53 + int64(r.Intn(9)) - 4)
		}
		return float64(r.Intn(1000)) / float64(1+r.Intn(1000))
	}
}

// back: bytes written by an encoder → real decoder → op + monitor.
func (x *vf12T) back(op string, wire []byte, toks []string, payload [][]byte) {
	s := x.s
	line := fmt.Sprintf("%s %d %s", op, x.idx, strings.Join(toks, " "))
	out, ec := vf12Run(wire, 0, 0, vfutil.Pick(x.r, vf12BufSizes), vfutil.Pick(x.r, vf12Frags[2:]), x.r.U64())
	lines := []string{fmt.Sprintf("#%d w %s", x.idx, vf12Render(wire))}
	if len(out) >= 1 {
		lines = append(lines, fmt.Sprintf("#%d c %s %s @%d", x.idx, vf12Render([]byte(out[0].cmd)), vf12RenderList(out[0].args), out[0].off))
	} else {
		lines = append(lines, fmt.Sprintf("#%d e %s", x.idx, ec))
	}
	rp := func() map[string]interface{} { return vf12Replay(line) } // lazily: a long op is written to replays/ only on failure
	// monitor: encoding for the target and decoding again returns the same arguments
	var b vf12Buf
	parts := make([]vf12Arg, len(payload))
	for i, p := range payload {
		parts[i] = vf12Arg{data: p}
	}
	vf12Encode(&b, parts)
	if !bytes.Equal(b.data, wire) {
		s.Violate(op+"-framing", "bytes written differ from the RESP framing of the arguments", rp())
	}
	if len(out) != 1 || ec != "eof" {
		s.Violate(op+"-roundtrip", fmt.Sprintf("decoding the written bytes gave %d commands, end %s", len(out), ec), rp())
	} else {
		ok := out[0].cmd == string(vf12Lower(payload[0])) && len(out[0].args) == len(payload)-1 && out[0].off == int64(len(wire))
		for j := 0; ok && j < len(out[0].args); j++ {
			ok = bytes.Equal(out[0].args[j], payload[j+1])
		}
		if !ok {
			s.Violate(op+"-roundtrip", "arguments or offset after encode→decode differ", rp())
		}
	}
	s.Op(line, lines...)
	x.idx++
}

func (x *vf12T) genWriteArgs() {
	r := x.r
	name := vf12Name(r)
	args := []interface{}{string(name)}
	toks := []string{"s:" + vfutil.Hex(name)}
	payload := [][]byte{name}
	na := r.Intn(6)
	if r.Chance(1, 20) {
		na = r.Range(20, 120)
	}
	i64s := []int64{0, 1, -1, 9, 10, -10, 1023, -1024, 1 << 31, -(1 << 31), 1<<63 - 1, -1 << 63, 1234567890123}
	u64s := []uint64{0, 1, 9, 10, 255, 65535, 1 << 32, 1<<63 - 1, 1 << 63, 1<<64 - 1}
	for i := 0; i < na; i++ {
		k := r.Intn(18)
		x.s.Count(fmt.Sprintf("writeargs_kind_%d", k))
		switch k {
		case 16: // float64 (ZADD score of a skiplist zset in the snapshot replay)
			f := x.genFloat()
			txt := strconv.FormatFloat(f, 'f', -1, 64)
			args = append(args, f)
			toks = append(toks, "F:"+vfutil.HexS(txt))
			payload = append(payload, []byte(txt))
		case 17: // float32 is widened to float64 before formatting
			f := float32(x.genFloat())
			txt := strconv.FormatFloat(float64(f), 'f', -1, 64)
			args = append(args, f)
			toks = append(toks, "F:"+vfutil.HexS(txt))
			payload = append(payload, []byte(txt))
		case 0, 1, 2:
			n := r.Intn(50)
			if r.Chance(1, 10) {
				n = vfutil.Pick(r, vf12Sizes[:9])
			}
			v := vf12Content(r, n)
			if v == nil {
				v = []byte{}
			}
			args = append(args, v)
			toks = append(toks, "b:"+vfutil.Hex(v))
			payload = append(payload, v)
		case 3, 4:
			v := vf12Content(r, r.Intn(50))
			args = append(args, string(v))
			toks = append(toks, "s:"+vfutil.Hex(v))
			payload = append(payload, v)
		case 5, 6:
			v := vfutil.Pick(r, i64s)
			if r.Bool() {
				v = int64(r.U64()) >> uint(r.Intn(64))
			}
			args = append(args, v)
			toks = append(toks, fmt.Sprintf("i:%d", v))
			payload = append(payload, []byte(fmt.Sprintf("%d", v)))
		case 7:
			v := vfutil.Pick(r, u64s)
			if r.Bool() {
				v = r.U64() >> uint(r.Intn(64))
			}
			args = append(args, v)
			toks = append(toks, fmt.Sprintf("u:%d", v))
			payload = append(payload, []byte(fmt.Sprintf("%d", v)))
		case 8: // narrower signed types
			v := int64(r.U64())
			var a interface{}
			switch r.Intn(5) {
			case 0:
				a, v = int(v), int64(int(v))
			case 1:
				a, v = int8(v), int64(int8(v))
			case 2:
				a, v = int16(v), int64(int16(v))
			case 3:
				a, v = int32(v), int64(int32(v))
			default:
				a = time.Duration(v)
			}
			args = append(args, a)
			toks = append(toks, fmt.Sprintf("i:%d", v))
			payload = append(payload, []byte(fmt.Sprintf("%d", v)))
		case 9: // narrower unsigned types
			v := r.U64()
			var a interface{}
			switch r.Intn(4) {
			case 0:
				a, v = uint(v), uint64(uint(v))
			case 1:
				a, v = uint8(v), uint64(uint8(v))
			case 2:
				a, v = uint16(v), uint64(uint16(v))
			default:
				a, v = uint32(v), uint64(uint32(v))
			}
			args = append(args, a)
			toks = append(toks, fmt.Sprintf("u:%d", v))
			payload = append(payload, []byte(fmt.Sprintf("%d", v)))
		case 10:
			v := r.Bool()
			args = append(args, v)
			if v {
				toks = append(toks, "t")
				payload = append(payload, []byte("1"))
			} else {
				toks = append(toks, "f")
				payload = append(payload, []byte("0"))
			}
		case 11:
			args = append(args, nil)
			toks = append(toks, "n")
			payload = append(payload, []byte{})
		case 12:
			v := net.IP(r.Bytes(4))
			args = append(args, v)
			toks = append(toks, "b:"+vfutil.Hex(v))
			payload = append(payload, []byte(v))
		default:
			v := []byte(vfutil.Pick(r, []string{"", "\r\n", "$", "*", "-1", "0", "key", "\x00\xff"}))
			args = append(args, v)
			toks = append(toks, "b:"+vfutil.Hex(v))
			payload = append(payload, v)
		}
	}
	x.wargs(args, toks, payload)
}

func (x *vf12T) genEncode() {
	r := x.r
	name := vf12Name(r)
	toks := []string{"b:" + vfutil.Hex(name)}
	payload := [][]byte{name}
	na := r.Intn(6)
	var big int
	argv := [][]byte{}
	for i := 0; i < na; i++ {
		n := x.size(&big)
		v := vf12Content(r, n)
		argv = append(argv, v)
		toks = append(toks, "b:"+vfutil.Hex(v))
		payload = append(payload, v)
	}
	wire, err := EncodeToBytes(ChangeArgsToResp(name, argv))
	if err != nil {
		x.t.Fatalf("EncodeToBytes: %v", err)
	}
	x.back("en", wire, toks, payload)
	x.s.Count("encode_cases")
}

// ------------------------------------------------------------ malformed / non-canonical streams

// vf12Safe rejects inputs on which the decoder would try to allocate an
// enormous slice from a corrupt length (it has no upper bound on `$n` / `*n`:
// outside C12, noted in the evidence). Runs of more than 6 digits are only
// allowed when longer than 19 digits (ParseInt range error).
func vf12Safe(data []byte) bool {
	run := 0
	for i := 0; i <= len(data); i++ {
		if i < len(data) && data[i] >= '0' && data[i] <= '9' {
			run++
			continue
		}
		if run > 6 && run <= 19 {
			return false
		}
		run = 0
	}
	return true
}

func (x *vf12T) raw(src string, start int64, data []byte, nconf int) {
	if !vf12Safe(data) {
		x.s.Count("skipped_unsafe_length")
		return
	}
	b := &vf12Buf{}
	b.Lit(data)
	x.stream(src, start, b, nil, nconf)
}

func (x *vf12T) soup() []byte {
	r := x.r
	voc := []string{"*", "$", "0", "1", "2", "3", "\r\n", "\r\n", "\n", "\r", "-1", "+", "-", ":", "a", "PING", " ", "*1\r\n", "$4\r\nPING\r\n", "$1\r\na\r\n", "*2\r\n", "$0\r\n\r\n"}
	var b []byte
	for i, n := 0, r.Range(1, 30); i < n; i++ {
		b = append(b, vfutil.Pick(r, voc)...)
	}
	return b
}

// replay re-runs one recorded op line (dec / wa / en) on the real code.
func (x *vf12T) replay(op string) bool {
	f := strings.Fields(op)
	if len(f) >= 7 && (f[0] == "fr" || f[0] == "frx") {
		return x.replayFrag(f)
	}
	if len(f) >= 1 && f[0] == "huge" {
		return x.replayHuge(f)
	}
	if len(f) >= 1 && f[0] == "used-reader" {
		return x.replayUsedReader(f)
	}
	if len(f) >= 7 && (f[0] == "dec" || f[0] == "decx") {
		st, _ := strconv.ParseInt(f[2], 10, 64)
		pre, _ := strconv.ParseInt(f[3], 10, 64)
		bf := &vf12Buf{}
		for _, tk := range f[7:] {
			q := strings.Split(tk, ":")
			if q[0] == "h" && len(q) == 2 {
				bf.Lit(vfutil.UnHex(q[1]))
			} else if q[0] == "r" && len(q) == 3 {
				c, _ := strconv.Atoi(q[1])
				n, _ := strconv.Atoi(q[2])
				bf.Rep(byte(c), n)
			} else {
				return false
			}
		}
		// the recorded configuration first, then others
		bs, _ := strconv.Atoi(f[4])
		fk, _ := strconv.Atoi(f[5])
		fseed, _ := strconv.ParseUint(f[6], 10, 64)
		out, ec := vf12Run(bf.data, st, pre, bs, fk, fseed)
		if _, _, sok := vf12Strict(bf.data); sok {
			x.s.Op(fmt.Sprintf("dec %d %d %d %d %d %d %s", x.idx, st, pre, bs, fk, fseed, bf.Pieces()), vf12Lines(x.idx, out, ec)...)
		} else {
			x.s.Op(fmt.Sprintf("decx %d %d %d %d %d %d %s", x.idx, st, pre, bs, fk, fseed, bf.Pieces()), vf12LinesX(x.idx, out, ec)...)
		}
		x.idx++
		x.streamP("replay", st, pre, bf, nil, 9)
		return true
	}
	if len(f) >= 3 && (f[0] == "wa" || f[0] == "en") {
		var args []interface{}
		var argv, payload [][]byte
		for _, tk := range f[2:] {
			q := strings.Split(tk, ":")
			switch {
			case q[0] == "b" && len(q) == 2:
				v := append([]byte{}, vfutil.UnHex(q[1])...)
				args, argv, payload = append(args, v), append(argv, v), append(payload, v)
			case q[0] == "s" && len(q) == 2:
				v := append([]byte{}, vfutil.UnHex(q[1])...)
				args, payload = append(args, string(v)), append(payload, v)
			case q[0] == "B" && len(q) == 3:
				c, _ := strconv.Atoi(q[1])
				n, _ := strconv.Atoi(q[2])
				v := bytes.Repeat([]byte{byte(c)}, n)
				args, argv, payload = append(args, v), append(argv, v), append(payload, v)
			case q[0] == "F" && len(q) == 2:
				txt := vfutil.UnHex(q[1])
				v, _ := strconv.ParseFloat(string(txt), 64)
				args, payload = append(args, v), append(payload, txt)
			case q[0] == "i" && len(q) == 2:
				v, _ := strconv.ParseInt(q[1], 10, 64)
				args, payload = append(args, v), append(payload, []byte(q[1]))
			case q[0] == "u" && len(q) == 2:
				v, _ := strconv.ParseUint(q[1], 10, 64)
				args, payload = append(args, v), append(payload, []byte(q[1]))
			case tk == "t":
				args, payload = append(args, true), append(payload, []byte("1"))
			case tk == "f":
				args, payload = append(args, false), append(payload, []byte("0"))
			case tk == "n":
				args, payload = append(args, nil), append(payload, []byte{})
			default:
				return false
			}
		}
		if f[0] == "wa" {
			x.wargs(args, f[2:], payload)
		} else {
			if len(argv) != len(payload) || len(argv) == 0 {
				return false
			}
			wire, err := EncodeToBytes(ChangeArgsToResp(argv[0], argv[1:]))
			if err != nil {
				return false
			}
			x.back("en", wire, f[2:], payload)
		}
		return true
	}
	return false
}

// ------------------------------------------------------------ the test

func TestVerifC12(t *testing.T) {
	s := vfutil.NewSession("C12")
	defer s.Close()
	x := &vf12T{s: s, r: vfutil.NewRand(vfutil.Seed()), t: t}
	r := x.r
	nconf := vfutil.Scale(3, 6)

	// ---- replay of a recorded failing op (./check C12 --replay FILE)
	if p := os.Getenv("VERIF_REPLAY"); p != "" {
		var rec struct {
			Replay map[string]interface{} `json:"replay"`
		}
		b, err := os.ReadFile(p)
		if err != nil || json.Unmarshal(b, &rec) != nil {
			t.Fatalf("cannot read replay %s", p)
		}
		op, _ := rec.Replay["op"].(string)
		if f, ok := rec.Replay["op_file"].(string); ok {
			if fb, err := os.ReadFile(f); err == nil {
				op = strings.TrimSpace(string(fb))
			}
		}
		if !x.replay(op) {
			t.Fatalf("replay: unsupported op %q", vf12Short(op))
		}
		return
	}

	// ---- corpus first: `raw <start> <hex>` lines
	for _, l := range vfutil.Corpus("C12") {
		f := strings.Fields(l)
		if len(f) == 3 && f[0] == "raw" {
			st, _ := strconv.ParseInt(f[1], 10, 64)
			x.raw("corpus", st, vfutil.UnHex(f[2]), nconf)
		}
	}

	// ---- observation (outside the property's quantifier): an inline command's
	// first byte is counted twice by the decoder
	if out, ec := vf12Run([]byte("PING\r\n"), 0, 0, 16, 1, 1); ec == "eof" && len(out) == 1 {
		if out[0].off == 7 {
			s.Count("observation_inline_first_byte_counted_twice")
		} else if out[0].off == 6 {
			s.Count("observation_inline_offset_exact")
		}
	}

	// ---- fragmentation: a piece boundary at every index, the bufio model's request sizes (fr / frx ops)
	x.fragSection()

	// ---- one argument above 512 MiB (monitor only; the Lean driver cannot hold it)
	x.hugeSection()

	// ---- values of identical size following each other, held until the end
	x.sameSizeSection(nconf)

	// ---- dimension audit: forced degenerate inputs, thresholds, every WriteArg type (vf_c12_dim_test.go)
	x.dimSection(nconf)

	// ---- single commands: every boundary size at every argument position 1..3
	for _, n := range vf12Sizes {
		if n > 60000 && !vfutil.Thorough() && n != 65536 {
			continue
		}
		for pos := 1; pos <= 3; pos++ {
			parts := []vf12Arg{{data: []byte("SET")}}
			for i := 1; i <= 3; i++ {
				if i == pos {
					parts = append(parts, vf12Arg{data: vf12Content(r, n)})
				} else {
					parts = append(parts, vf12Arg{data: vf12Content(r, r.Intn(4))})
				}
			}
			s.Count(vf12SizeClass(n))
			cs := []vf12Cmd{{parts}}
			x.stream("boundary_sizes", x.startOffset(), x.emitCmds(cs, false), vf12Want(cs), nconf)
		}
	}
	// 64 KiB boundary sizes as repeated bytes (cheap in the ops file), all three
	for _, n := range []int{65535, 65536, 65537} {
		for _, c := range []byte{'\n', '\r', 'x', 0} {
			cs := []vf12Cmd{{[]vf12Arg{{data: []byte("APPEND")}, {data: []byte("k")}, {rep: true, c: c, n: n}}}, {[]vf12Arg{{data: []byte("PING")}}}}
			s.Count(vf12SizeClass(n))
			x.stream("boundary_sizes_rep", x.startOffset(), x.emitCmds(cs, false), vf12Want(cs), nconf)
		}
	}
	// argument counts 1..300
	argCounts := []int{1, 2, 3, 9, 10, 11, 99, 100, 101, 299, 300, 1024, 1025, 65537} // MSET / SADD / DEL with very many keys
	if vfutil.Thorough() {
		argCounts = append(argCounts, 1023, 4096, 65535, 65536, 1<<20+1)
	}
	for _, na := range argCounts {
		parts := []vf12Arg{{data: []byte("MSET")}}
		for i := 1; i < na; i++ {
			parts = append(parts, vf12Arg{data: vf12Content(r, r.Intn(6))})
		}
		cs := []vf12Cmd{{parts}}
		s.Count(fmt.Sprintf("argcount_%d", na))
		x.stream("arg_counts", x.startOffset(), x.emitCmds(cs, false), vf12Want(cs), nconf)
	}

	// ---- generated sequences
	big := vfutil.Scale(40, 250)
	for i := 0; i < vfutil.Scale(500, 4000); i++ {
		nc := r.Range(1, 6)
		if r.Chance(1, 10) {
			nc = r.Range(7, vfutil.Scale(60, 300))
		}
		cs := make([]vf12Cmd, nc)
		for j := range cs {
			cs[j] = x.genCmd(&big, 300)
		}
		nl := r.Chance(1, 4)
		x.stream("generated", x.startOffset(), x.emitCmds(cs, nl), vf12Want(cs), nconf)
	}

	// ---- one multi-megabyte argument per run (more in thorough)
	for i := 0; i < vfutil.Scale(1, 4); i++ {
		n := r.Range(2<<20, 6<<20)
		if !vfutil.Thorough() {
			n = r.Range(2<<20, 3<<20) // quick: the Lean driver's byte lists dominate the wall time
		}
		c := vfutil.Pick(r, []byte{'a', '\n', '\r', 0, 0xff, '$'})
		cs := []vf12Cmd{
			{[]vf12Arg{{data: []byte("SET")}, {data: []byte("before")}, {data: vf12Content(r, 10)}}},
			{[]vf12Arg{{data: []byte("SET")}, {data: []byte("big")}, {rep: true, c: c, n: n}}},
			{[]vf12Arg{{data: []byte("DEL")}, {data: []byte("after")}}},
		}
		s.Count("argsize_multi_megabyte")
		x.stream("multi_megabyte", x.startOffset(), x.emitCmds(cs, i%2 == 1), vf12Want(cs), nconf)
	}

	// ---- several large arguments in flight together (decoded values are retained by the
	// consumer: a later large value must not disturb an earlier one)
	for i := 0; i < vfutil.Scale(1, 3); i++ {
		na, nb, nc := r.Range(3<<20, 4<<20), r.Range(2<<20, 3<<20), r.Range(1<<20, 2<<20)
		if !vfutil.Thorough() { // quick: all three still above 1 MiB, descending
			na, nb, nc = r.Range(1700000, 1900000), r.Range(1400000, 1600000), r.Range(1<<20, 1300000)
		}
		cs := []vf12Cmd{
			{[]vf12Arg{{data: []byte("SET")}, {data: []byte("big:a")}, {rep: true, c: 'a', n: na}}},
			{[]vf12Arg{{data: []byte("SET")}, {data: []byte("small")}, {data: vf12Content(r, 20)}}},
			{[]vf12Arg{{data: []byte("MSET")}, {data: []byte("big:b")}, {rep: true, c: 'b', n: nb}, {data: []byte("big:c")}, {rep: true, c: 0xfe, n: nc}}},
			{[]vf12Arg{{data: []byte("SET")}, {data: []byte("mid")}, {rep: true, c: 'm', n: r.Range(60000, 70000)}}},
		}
		s.Count("argsize_several_multi_megabyte")
		x.stream("several_multi_megabyte", x.startOffset(), x.emitCmds(cs, false), vf12Want(cs), nconf)
	}

	// ---- malformed and non-canonical streams (model/implementation comparison;
	// the monitor applies only where the strict oracle accepts the stream)
	base := [][]byte{
		[]byte("*3\r\n$3\r\nSET\r\n$1\r\nk\r\n$2\r\nv1\r\n*1\r\n$4\r\nPING\r\n"),
		[]byte("*2\r\n$3\r\nGET\r\n$0\r\n\r\n\n*2\r\n$6\r\nSELECT\r\n$2\r\n10\r\n"),
	}
	subs := []byte{'\r', '\n', '$', '*', '0', '9', '-', '+', ' ', 'a', ':'}
	for _, bsn := range base {
		for cut := 0; cut <= len(bsn); cut++ { // every truncation
			x.raw("truncation", 0, bsn[:cut], 2)
		}
		for i := range bsn { // every single-byte substitution / deletion / insertion
			for _, c := range subs {
				m := append([]byte{}, bsn...)
				m[i] = c
				x.raw("substitution", 7, m, 2)
				if vfutil.Thorough() {
					ins := append(append(append([]byte{}, bsn[:i]...), c), bsn[i:]...)
					x.raw("insertion", 7, ins, 2)
				}
			}
			del := append(append([]byte{}, bsn[:i]...), bsn[i+1:]...)
			x.raw("deletion", 7, del, 2)
		}
	}
	for i := 0; i < vfutil.Scale(3000, 60000); i++ {
		x.raw("token_soup", int64(r.Intn(1000)), x.soup(), 2)
	}
	for i := 0; i < vfutil.Scale(300, 10000); i++ { // corrupted generated streams
		var bg int
		cs := []vf12Cmd{x.genCmd(&bg, 8), x.genCmd(&bg, 8)}
		d := append([]byte{}, x.emitCmds(cs, r.Bool()).data...)
		if len(d) > 3000 {
			continue
		}
		for k, n := 0, r.Range(1, 3); k < n; k++ {
			p := r.Intn(len(d))
			switch r.Intn(3) {
			case 0:
				d[p] = vfutil.Pick(r, subs)
			case 1:
				d = append(d[:p], d[p+1:]...)
			default:
				d = d[:p]
			}
			if len(d) == 0 {
				break
			}
		}
		x.raw("corrupted_generated", int64(r.Intn(1000)), d, 2)
	}

	// ---- target framing: proto.Writer.WriteArgs → decoder; client.Encode → decoder
	fixed := [][]interface{}{
		{"SET", []byte("k"), []byte("v")},
		{"HSET", "cp", "runid_offset", int64(-1)},
		{"SELECT", 0}, {"SELECT", int64(15)},
		{"X", int64(-1 << 63), int64(1<<63 - 1), uint64(1<<64 - 1), true, false, nil, ""},
		{"ZADD", []byte("zs"), 0.1, []byte("m1")},
		{"ZADD", []byte("zs"), 9007199254740993.0, []byte("m2"), 1e21, []byte("m3"), 5e-324, []byte("m4"), 16777217.0, []byte("m5")},
	}
	for _, f := range vf12Floats { // the way ZSetParser.ExecCmd sends a score
		fixed = append(fixed, []interface{}{"ZADD", []byte("k"), f, []byte("member")})
	}
	for _, a := range fixed {
		var toks []string
		var payload [][]byte
		for _, v := range a {
			switch v := v.(type) {
			case string:
				toks, payload = append(toks, "s:"+vfutil.HexS(v)), append(payload, []byte(v))
			case []byte:
				toks, payload = append(toks, "b:"+vfutil.Hex(v)), append(payload, v)
			case int:
				toks, payload = append(toks, fmt.Sprintf("i:%d", v)), append(payload, []byte(strconv.Itoa(v)))
			case int64:
				toks, payload = append(toks, fmt.Sprintf("i:%d", v)), append(payload, []byte(fmt.Sprintf("%d", v)))
			case uint64:
				toks, payload = append(toks, fmt.Sprintf("u:%d", v)), append(payload, []byte(fmt.Sprintf("%d", v)))
			case bool:
				if v {
					toks, payload = append(toks, "t"), append(payload, []byte("1"))
				} else {
					toks, payload = append(toks, "f"), append(payload, []byte("0"))
				}
			case float64:
				txt := strconv.FormatFloat(v, 'f', -1, 64)
				toks, payload = append(toks, "F:"+vfutil.HexS(txt)), append(payload, []byte(txt))
			case nil:
				toks, payload = append(toks, "n"), append(payload, []byte{})
			}
		}
		x.wargs(a, toks, payload)
	}
	for i := 0; i < vfutil.Scale(600, 20000); i++ {
		x.genWriteArgs()
	}
	{ // one multi-megabyte []byte through WriteArgs
		n := r.Range(2<<20, 4<<20)
		if !vfutil.Thorough() {
			n = r.Range(1<<20+1, 1<<20+400000)
		}
		v := bytes.Repeat([]byte{'z'}, n)
		x.wargs([]interface{}{"SET", []byte("big"), v}, []string{"s:" + vfutil.HexS("SET"), "b:" + vfutil.HexS("big"), fmt.Sprintf("B:%d:%d", 'z', n)},
			[][]byte{[]byte("SET"), []byte("big"), v})
	}
	for i := 0; i < vfutil.Scale(300, 8000); i++ {
		x.genEncode()
	}
}
