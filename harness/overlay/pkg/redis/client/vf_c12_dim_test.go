//go:build verif

package client

// C12, dimension audit (session 5, last round): inputs the generators left to chance or did not draw at
// all are FORCED here, each with a coverage counter `dim_*` in the evidence.

import (
	"bufio"
	"fmt"
	"io"
	"math"
	"net"
	"strconv"
	"time"

	"github.com/mgtv-tech/redis-GunYu/config"
	"github.com/mgtv-tech/redis-GunYu/pkg/redis/client/conn"
	"github.com/mgtv-tech/redis-GunYu/pkg/vfutil"
)

type vf12Bin struct{ b []byte }

func (m vf12Bin) MarshalBinary() ([]byte, error) { return m.b, nil }

func (x *vf12T) dimSection(nconf int) {
	s, r := x.s, x.r
	x.usedReaderSection()

	// ---- (a) argument size against the buffer size: n and n+2 (payload + CRLF, what io.ReadFull asks for)
	// just below / at / just above len(b.buf) - the thresholds of Reader.Read's large-read bypass, of fill's
	// free space and of ReadSlice's ErrBufferFull; 1 KiB as a buffer size of its own
	for _, cp := range []int{16, 64, 1024, 4096, 65536} {
		for d := -3; d <= 1; d++ {
			n := cp + d
			cs := []vf12Cmd{
				{[]vf12Arg{{data: []byte("SET")}, {data: []byte("k")}, {rep: true, c: vfutil.Pick(r, []byte{'a', '\n', '\r'}), n: n}}},
				{[]vf12Arg{{data: []byte("PING")}}},
			}
			b := x.emitCmds(cs, false)
			var ref []string
			var refOp string
			x.fragOp("dim_size_vs_buffer", 3, 0, b, cp, nil, &ref, &refOp)
			// the value starts at every offset inside the buffer: the header is cut off in a read of its own,
			// then pieces of exactly the buffer size
			hdr := len(b.data) - (n + 2) - 14
			x.fragOp("dim_size_vs_buffer", 3, 0, b, cp, []int{hdr, cp, cp}, &ref, &refOp)
			x.fragOp("dim_size_vs_buffer", 3, 0, b, cp, []int{hdr + 1 + r.Intn(cp), 1}, &ref, &refOp)
			if cp <= 64 {
				ones := make([]int, len(b.data))
				for i := range ones {
					ones[i] = 1
				}
				x.fragOp("dim_size_vs_buffer", 3, 0, b, cp, ones, &ref, &refOp)
			}
			s.Count(fmt.Sprintf("dim_argsize_vs_buffer_%d_%+d", cp, d))
		}
	}
	for _, n := range []int{1023, 1024, 1025} { // 1 KiB through the other buffer sizes
		cs := []vf12Cmd{{[]vf12Arg{{data: []byte("SET")}, {data: []byte("k")}, {data: vf12Content(r, n)}}}}
		s.Count(fmt.Sprintf("dim_argsize_%d", n))
		x.stream("dim_1KiB", x.startOffset(), x.emitCmds(cs, false), vf12Want(cs), nconf)
	}

	// ---- (b) degenerate streams outside the strict form, inside the decoder's domain (frx: commands exactly,
	// offsets until the first inline command, any error = stop), each cut at every index
	for _, f := range []struct{ name, data string }{
		{"argcount_0", "*0\r\n*1\r\n$4\r\nPING\r\n"},
		{"null_array_command", "*-1\r\n*1\r\n$4\r\nPING\r\n"},
		{"integer_element", "*2\r\n$3\r\nGET\r\n:5\r\n*1\r\n$4\r\nPING\r\n"},
		{"simple_string_element", "*2\r\n$3\r\nGET\r\n+OK\r\n"},
		{"error_element", "*2\r\n$3\r\nGET\r\n-ERR x\r\n"},
		{"null_bulk_element", "*3\r\n$3\r\nSET\r\n$-1\r\n$1\r\nv\r\n*1\r\n$4\r\nPING\r\n"},
		{"null_bulk_name", "*1\r\n$-1\r\n"},
		{"nested_array_element", "*2\r\n$3\r\nGET\r\n*1\r\n$1\r\nk\r\n"},
		{"nested_null_array_element", "*2\r\n$3\r\nGET\r\n*-1\r\n"},
		{"toplevel_simple_string", "+OK\r\n*1\r\n$4\r\nPING\r\n"},
		{"toplevel_integer", ":12\r\n"},
		{"toplevel_bulk", "$4\r\nPING\r\n"},
		{"empty_line_between_commands", "*1\r\n$4\r\nPING\r\n\r\n*1\r\n$4\r\nPING\r\n"},
		{"empty_line_first", "\r\n*1\r\n$4\r\nPING\r\n"},
		{"only_newlines", "\n\n\n"},
		{"inline_only_spaces", "   \r\n*1\r\n$4\r\nPING\r\n"},
		{"inline_lf_only", "PING\n*1\r\n$4\r\nPING\r\n"},
		{"cr_without_lf_after_payload", "*1\r\n$4\r\nPING\rX*1\r\n$4\r\nPING\r\n"},
		{"cr_without_lf_in_length_line", "*1\r\n$4\rX\nPING\r\n"},
		{"cr_without_lf_at_end", "*1\r\n$4\r\nPING\r"},
		{"ends_after_bulk_length_line", "*2\r\n$3\r\nGET\r\n$5\r\n"},
		{"ends_after_array_length_line", "*1\r\n$4\r\nPING\r\n*2\r\n"},
		{"ends_after_type_byte", "*1\r\n$4\r\nPING\r\n$"},
		{"empty_name", "*2\r\n$0\r\n\r\n$1\r\nk\r\n"},
		{"length_plus_zero", "*1\r\n$+4\r\nPING\r\n*+1\r\n$04\r\nPING\r\n"},
		{"length_minus_two", "*1\r\n$-2\r\n"},
	} {
		x.fragAll("dim_"+f.name, 0, 0, []byte(f.data), len(f.data) <= 32)
		s.Count("dim_stream_" + f.name)
	}
	// inside the strict form: every argument empty but the name; a one-byte name; an all-LF keep-alive run
	// longer than the smallest buffer in front of a command
	for _, f := range []string{
		"*4\r\n$1\r\nX\r\n$0\r\n\r\n$0\r\n\r\n$0\r\n\r\n",
		"\n\n\n\n\n\n\n\n\n\n\n\n\n\n\n\n\n\n\n\n*1\r\n$4\r\nPING\r\n\n\n\n\n\n\n\n\n\n\n\n\n\n\n\n\n\n\n*1\r\n$4\r\nPING\r\n",
	} {
		x.fragAll("dim_degenerate_strict", x.startOffset(), 0, []byte(f), true)
		s.Count("dim_degenerate_strict_streams")
	}

	// ---- (c) offsets at the top of int64: the stream ends exactly at MaxInt64 (start, then preset)
	{
		cs := []vf12Cmd{{[]vf12Arg{{data: []byte("SET")}, {data: []byte("k")}, {data: []byte("v")}}}, {[]vf12Arg{{data: []byte("PING")}}}}
		b := x.emitCmds(cs, false)
		n := int64(len(b.data))
		x.streamP("dim_max_int64", math.MaxInt64-n, 0, b, vf12Want(cs), nconf)
		x.streamP("dim_max_int64", 0, math.MaxInt64-n, x.emitCmds(cs, false), vf12Want(cs), nconf)
		x.streamP("dim_max_int64", math.MaxInt64-n-1<<62, 1<<62, x.emitCmds(cs, false), vf12Want(cs), nconf)
		x.streamP("dim_max_int64", 0, 0, x.emitCmds(cs, false), vf12Want(cs), nconf)
		s.Count("dim_offset_ends_at_max_int64")
	}

	// ---- (d) the encoder on every Go type WriteArg accepts, boundary value of each
	type wa struct {
		v   interface{}
		tok string
		pay string
	}
	i := func(v interface{}, n int64) wa { return wa{v, fmt.Sprintf("i:%d", n), strconv.FormatInt(n, 10)} }
	u := func(v interface{}, n uint64) wa { return wa{v, fmt.Sprintf("u:%d", n), strconv.FormatUint(n, 10)} }
	f := func(v interface{}, g float64) wa {
		t := strconv.FormatFloat(g, 'f', -1, 64)
		return wa{v, "F:" + vfutil.HexS(t), t}
	}
	bt := func(v interface{}, p []byte) wa { return wa{v, "b:" + vfutil.Hex(p), string(p)} }
	now := time.Date(2026, 9, 25, 1, 2, 3, 456789012, time.UTC)
	all := []wa{
		i(int(math.MinInt64), math.MinInt64), i(int(math.MaxInt64), math.MaxInt64), i(int(0), 0),
		i(int8(math.MinInt8), math.MinInt8), i(int8(math.MaxInt8), math.MaxInt8),
		i(int16(math.MinInt16), math.MinInt16), i(int16(math.MaxInt16), math.MaxInt16),
		i(int32(math.MinInt32), math.MinInt32), i(int32(math.MaxInt32), math.MaxInt32),
		i(int64(math.MinInt64), math.MinInt64), i(int64(math.MaxInt64), math.MaxInt64), i(int64(-1), -1),
		u(uint(math.MaxUint64), math.MaxUint64), u(uint(0), 0), u(uint8(math.MaxUint8), math.MaxUint8),
		u(uint16(math.MaxUint16), math.MaxUint16), u(uint32(math.MaxUint32), math.MaxUint32), u(uint64(math.MaxUint64), math.MaxUint64),
		f(math.NaN(), math.NaN()), f(math.Inf(1), math.Inf(1)), f(math.Inf(-1), math.Inf(-1)), f(math.Copysign(0, -1), math.Copysign(0, -1)),
		f(float64(0), 0), f(math.MaxFloat64, math.MaxFloat64), f(math.SmallestNonzeroFloat64, math.SmallestNonzeroFloat64),
		f(float32(math.MaxFloat32), float64(float32(math.MaxFloat32))), f(float32(math.SmallestNonzeroFloat32), float64(float32(math.SmallestNonzeroFloat32))),
		f(float32(0.1), float64(float32(0.1))), f(float32(math.NaN()), math.NaN()), f(float32(math.Inf(-1)), math.Inf(-1)),
		{true, "t", "1"}, {false, "f", "0"}, {nil, "n", ""},
		bt([]byte(nil), nil), bt([]byte{}, nil), {"", "s:" + vfutil.HexS(""), ""}, bt([]byte{0}, []byte{0}),
		i(time.Duration(math.MinInt64), math.MinInt64), i(time.Duration(0), 0), i(time.Hour, int64(time.Hour)),
		bt(net.IP(nil), nil), bt(net.IPv4(10, 0, 0, 1), []byte(net.IPv4(10, 0, 0, 1))), bt(net.IPv4(10, 0, 0, 1).To4(), []byte{10, 0, 0, 1}),
		bt(now, []byte(now.Format(time.RFC3339Nano))), bt(time.Time{}, []byte(time.Time{}.Format(time.RFC3339Nano))),
		bt(vf12Bin{[]byte("\r\n$-1\r\n")}, []byte("\r\n$-1\r\n")), bt(vf12Bin{nil}, nil),
	}
	for k, a := range all { // each alone (as the last and as a middle argument), then all together
		x.wargs([]interface{}{"SET", a.v}, []string{"s:" + vfutil.HexS("SET"), a.tok}, [][]byte{[]byte("SET"), []byte(a.pay)})
		if k%2 == 0 {
			x.wargs([]interface{}{"SET", a.v, []byte("tail")}, []string{"s:" + vfutil.HexS("SET"), a.tok, "b:" + vfutil.HexS("tail")}, [][]byte{[]byte("SET"), []byte(a.pay), []byte("tail")})
		}
		s.Count(fmt.Sprintf("dim_writearg_type_%T", a.v))
	}
	{
		args, toks, pay := []interface{}{"MSET"}, []string{"s:" + vfutil.HexS("MSET")}, [][]byte{[]byte("MSET")}
		for _, a := range all {
			args, toks, pay = append(args, a.v), append(toks, a.tok), append(pay, []byte(a.pay))
		}
		x.wargs(args, toks, pay)
		s.Count("dim_writearg_all_types_in_one_command")
	}
	// a command name alone (argument count 1) and a type WriteArg refuses: the error must reach the caller,
	// nothing may be half written as a complete command
	x.wargs([]interface{}{"PING"}, []string{"s:" + vfutil.HexS("PING")}, [][]byte{[]byte("PING")})
	{
		sink := &vf12Sink{}
		rc := conn.VerifNewRedisConn(sink, config.RedisConfig{})
		err := rc.Send("SET", "k", struct{ A int }{1})
		rc.Flush()
		if err == nil {
			if _, _, ok := vf12Strict(sink.buf.Bytes()); ok {
				s.Violate("wa-unsupported-type-sent", "RedisConn.Send of a type WriteArg cannot marshal returned no error and put a complete command on the connection",
					map[string]interface{}{"op": "send SET k struct{A int}{1}", "wire": vfutil.Hex(sink.buf.Bytes())})
			}
		}
		s.Count("dim_writearg_unsupported_type")
	}
	// client.Encode (encoder.go): itos answers lengths up to 524287 from a table and larger ones through strconv
	for _, n := range []int{524286, 524287, 524288, 524289} {
		if !vfutil.Thorough() && (n == 524286 || n == 524289) {
			continue
		}
		v := make([]byte, n)
		for k := range v {
			v[k] = 'e'
		}
		var wire []byte
		var err error
		func() {
			defer func() {
				if p := recover(); p != nil {
					err = fmt.Errorf("panic: %v", p)
				}
			}()
			wire, err = EncodeToBytes(ChangeArgsToResp([]byte("SET"), [][]byte{[]byte("k"), v}))
		}()
		if err != nil {
			s.Violate("encode-fails", fmt.Sprintf("client.Encode of SET k <%d bytes> fails: %v", n, err),
				map[string]interface{}{"op": fmt.Sprintf("en 0 b:%s b:%s B:%d:%d", vfutil.HexS("SET"), vfutil.HexS("k"), 'e', n)})
			continue
		}
		x.back("en", wire, []string{"b:" + vfutil.HexS("SET"), "b:" + vfutil.HexS("k"), fmt.Sprintf("B:%d:%d", 'e', n)}, [][]byte{[]byte("SET"), []byte("k"), v})
		s.Count(fmt.Sprintf("dim_encode_bulk_length_%d", n))
	}
	// values around the connection writer's buffer (conn.WriterBufferSize): the bulk straddles it / fills it
	for _, n := range []int{conn.WriterBufferSize - 40, conn.WriterBufferSize} {
		if !vfutil.Thorough() && n == conn.WriterBufferSize {
			n = conn.WriterBufferSize - 23 // "*3 $3 SET $1 k $1048553" + payload ends exactly at the buffer's end... and one more byte
		}
		v := make([]byte, n)
		for k := range v {
			v[k] = 'w'
		}
		x.wargs([]interface{}{"SET", []byte("k"), v}, []string{"s:" + vfutil.HexS("SET"), "b:" + vfutil.HexS("k"), fmt.Sprintf("B:%d:%d", 'w', n)},
			[][]byte{[]byte("SET"), []byte("k"), v})
		s.Count("dim_writearg_value_at_writer_buffer_size")
	}
}

// usedReader: the decoder is created on a bufio.Reader that is NOT fresh - bytes in front of the stream were
// consumed through it before (the channel's reader is handed to the parser after other code used it), so b.r > 0,
// the stream's first bytes are already buffered, and (last case) the byte just read was pushed back with
// UnreadByte. Decoder.offset starts at 0 whatever the reader's past: offsets count from the first byte the
// decoder itself reads.
func (x *vf12T) usedReaderSection() {
	r := x.r
	stream := []byte("\n*3\r\n$3\r\nSET\r\n$1\r\nk\r\n$5\r\nv\r\n$1\r\n*1\r\n$4\r\nPING\r\n")
	for _, bs := range []int{16, 64, 4096} {
		for _, jl := range []int{1, bs - 1, bs, bs + 1, 3*bs + 5} {
			for _, unread := range []bool{false, true} {
				junk := r.Bytes(jl)
				if unread {
					junk[jl-1] = '\n' // the pushed-back byte is read again by the decoder: a keep-alive newline
				}
				data := append(append([]byte{}, junk...), stream...)
				var cuts []int
				for left := len(data); left > 0; {
					c := 1 + r.Intn(1+r.Intn(2*bs))
					cuts = append(cuts, c)
					left -= c
				}
				x.usedReader(bs, jl, unread, cuts, data)
			}
		}
	}
}

// usedReader: consume jl bytes of data through the bufio.Reader (optionally push the last one back), then decode the rest
func (x *vf12T) usedReader(bs, jl int, unread bool, cuts []int, data []byte) {
	s := x.s
	fr := &vf12CutReader{data: data, cuts: cuts}
	br := bufio.NewReaderSize(fr, bs)
	if _, err := io.ReadFull(br, make([]byte, jl)); err != nil {
		x.t.Fatalf("harness: cannot consume the prefix: %v", err)
	}
	base := jl
	if unread {
		if br.UnreadByte() != nil {
			return
		}
		base = jl - 1
	}
	scmds, sends, ok := vf12Strict(data[base:])
	if !ok {
		x.t.Fatalf("harness: used-reader stream is not of the strict form")
	}
	d := NewDecoder(br)
	var out []vf12Dec
	ec := ""
	for {
		resp, incr, err := MustDecodeOpt(d)
		if err != nil {
			ec = vf12ErrClass(err)
			break
		}
		cmd, args, err := ParseArgs(resp)
		if err != nil {
			ec = "parse"
			break
		}
		out = append(out, vf12Dec{cmd, args, 100 + incr, int64(fr.pos - br.Buffered() - base), false})
	}
	rp := map[string]interface{}{"op": fmt.Sprintf("used-reader %d %d %v %s %s", bs, jl, unread, vf12CutsText(cuts), vfutil.Hex(data)),
		"note": "bufio size, bytes consumed through the reader before NewDecoder, UnreadByte afterwards, pieces, prefix+stream"}
	if what, detail := vf12Check(out, ec, scmds, sends, 100, 0); what != "" {
		s.Violate(what, "decoder created on a reader that was used before: "+detail, rp)
	}
	for i, c := range out {
		if c.off != 100+c.consumed {
			s.Violate("offset-not-bytes-consumed", fmt.Sprintf("decoder on a used reader, cmd %d: offset %d, bytes taken by the decoder %d (+100)", i, c.off, c.consumed), rp)
		}
	}
	s.Count("dim_decoder_on_used_reader")
	if unread {
		s.Count("dim_decoder_on_used_reader_after_unreadbyte")
	}
}

func (x *vf12T) replayUsedReader(f []string) bool {
	if len(f) != 6 {
		return false
	}
	bs, _ := strconv.Atoi(f[1])
	jl, _ := strconv.Atoi(f[2])
	cuts, ok := vf12ParseCuts(f[4])
	if !ok {
		return false
	}
	x.usedReader(bs, jl, f[3] == "true", cuts, vfutil.UnHex(f[5]))
	return true
}
