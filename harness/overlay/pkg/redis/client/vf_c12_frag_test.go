//go:build verif

package client

// C12, fragmentation (session 5). The theorems of Props/C12Frag.lean quantify over a MODEL of
// bufio.Reader in front of a reader that returns the stream in arbitrary pieces
// (lean/GunYu/Model/RespFrag.lean). Here the real decoder reads through the real bufio.Reader
// over a reader that returns exactly the recorded pieces and records the len(p) of every Read
// call that returned data; the Lean driver runs the model on the same pieces (`fr` / `frx` ops).
// Compared: the decoded commands, offsets and final error (the decoder), and the sequence of
// request sizes up to the last complete command (the bufio model against the standard library).
// Deterministic fragmentations: a piece boundary at EVERY index of the stream (also inside a
// CRLF, inside a length line, between the type byte and its line), every single byte isolated
// in its own read, one byte per read, random piece lists - through buffer sizes 16 … 65536.

import (
	"fmt"
	"io"
	"sort"
	"strconv"
	"strings"
	"unsafe"

	"github.com/mgtv-tech/redis-GunYu/pkg/vfutil"
)

// vf12CutReader returns the data in the pieces `cuts` (a piece longer than len(p) is continued by
// the next call; a zero-length piece is a read that returns 0, nil; what the cuts do not cover is one last piece).
type vf12CutReader struct {
	data    []byte
	pos     int
	cuts    []int
	ci      int
	left    int
	reqs    []int
	eofData bool // the read that hands out the last byte returns (n, io.EOF) instead of (n, nil) followed by (0, io.EOF)
}

func (f *vf12CutReader) Read(p []byte) (int, error) {
	if f.pos >= len(f.data) {
		return 0, io.EOF
	}
	if len(p) == 0 {
		return 0, nil
	}
	if f.left == 0 {
		if f.ci < len(f.cuts) {
			f.left = f.cuts[f.ci]
			f.ci++
			if f.left == 0 {
				return 0, nil // a zero-length piece: the reader has nothing right now (bufio retries)
			}
		} else {
			f.left = len(f.data) - f.pos
		}
	}
	n := f.left
	if n > len(p) {
		n = len(p)
	}
	if n > len(f.data)-f.pos {
		n = len(f.data) - f.pos
	}
	copy(p, f.data[f.pos:f.pos+n])
	f.pos += n
	f.left -= n
	f.reqs = append(f.reqs, len(p))
	if f.eofData && f.pos >= len(f.data) {
		return n, io.EOF
	}
	return n, nil
}

func vf12CutsText(cuts []int) string {
	if len(cuts) == 0 {
		return "."
	}
	var sb strings.Builder
	for i := 0; i < len(cuts); {
		j := i
		for j < len(cuts) && cuts[j] == cuts[i] {
			j++
		}
		if sb.Len() > 0 {
			sb.WriteByte(',')
		}
		if j-i > 1 {
			fmt.Fprintf(&sb, "%d*%d", cuts[i], j-i)
		} else {
			fmt.Fprintf(&sb, "%d", cuts[i])
		}
		i = j
	}
	return sb.String()
}

func vf12ParseCuts(t string) ([]int, bool) {
	t = strings.TrimPrefix(t, "E")
	if t == "." {
		return nil, true
	}
	var cuts []int
	for _, q := range strings.Split(t, ",") {
		ab := strings.Split(q, "*")
		a, err := strconv.Atoi(ab[0])
		if err != nil || a < 0 || len(ab) > 2 {
			return nil, false
		}
		n := 1
		if len(ab) == 2 {
			if n, err = strconv.Atoi(ab[1]); err != nil || n < 0 || n > 1<<24 {
				return nil, false
			}
		}
		for i := 0; i < n; i++ {
			cuts = append(cuts, a)
		}
	}
	return cuts, true
}

func vf12ReqsText(reqs []int) string {
	if len(reqs) == 0 {
		return "."
	}
	p := make([]string, len(reqs))
	for i, v := range reqs {
		p[i] = strconv.Itoa(v)
	}
	return strings.Join(p, ",")
}

// vf12RunCuts: the parser loop over the cut reader; reqs = request sizes of the underlying reads
// that returned data, up to the last command that was decoded and parsed.
func vf12RunCuts(data []byte, start, preset int64, bufSize int, cuts []int, eofData bool) (out []vf12Dec, errClass string, reqs []int) {
	fr := &vf12CutReader{data: data, cuts: cuts, eofData: eofData}
	nreq := 0
	out, errClass = vf12RunOn(fr, func() int { return fr.pos }, func() { nreq = len(fr.reqs) }, data, start, preset, bufSize)
	return out, errClass, fr.reqs[:nreq]
}

// vf12Overlap: two decoded arguments (of any commands of the stream) must not share memory: the
// consumer holds them all while the decoder goes on (parseAofCommand's sendBuf / batch queue).
// Lengths count (not capacities): adjacent windows of one allocation are fine, windows that intersect are not.
func vf12Overlap(out []vf12Dec) string {
	type rg struct {
		lo, hi uintptr
		ci, ai int
	}
	var rs []rg
	for ci, c := range out {
		for ai, a := range c.args {
			if len(a) == 0 {
				continue // an empty argument occupies nothing
			}
			lo := uintptr(unsafe.Pointer(unsafe.SliceData(a)))
			rs = append(rs, rg{lo, lo + uintptr(len(a)), ci, ai})
		}
	}
	sort.Slice(rs, func(i, j int) bool { return rs[i].lo < rs[j].lo })
	for i := 1; i < len(rs); i++ {
		if rs[i-1].hi > rs[i].lo { // sorted by start, no empty range: any overlap shows between neighbours
			return fmt.Sprintf("argument %d of command %d and argument %d of command %d occupy overlapping memory", rs[i-1].ai, rs[i-1].ci, rs[i].ai, rs[i].ci)
		}
	}
	return ""
}

// vf12Check: the property on a stream the strict oracle accepts; "" when it holds.
func vf12Check(out []vf12Dec, ec string, scmds [][][]byte, sends []int, start, preset int64) (what, detail string) {
	if ec != "eof" {
		return "unexpected-error", fmt.Sprintf("well-formed stream ended with %q after %d of %d commands", ec, len(out), len(scmds))
	}
	if len(out) != len(scmds) {
		return "command-count", fmt.Sprintf("decoded %d commands, sent %d", len(out), len(scmds))
	}
	for i := range out {
		w := scmds[i]
		if out[i].cmd != string(vf12Lower(w[0])) {
			return "command-name", fmt.Sprintf("cmd %d: name %q, sent %q", i, out[i].cmd, w[0])
		}
		ok := len(out[i].args) == len(w)-1
		for j := 0; ok && j < len(out[i].args); j++ {
			ok = string(out[i].args[j]) == string(w[j+1])
		}
		if !ok {
			return "args-not-lossless", fmt.Sprintf("cmd %d: decoded arguments %s differ from the bytes sent %s", i, vf12Short(vf12RenderList(out[i].args)), vf12Short(vf12RenderList(w[1:])))
		}
		if out[i].off != start+preset+int64(sends[i]) {
			return "offset-not-bytes-consumed", fmt.Sprintf("cmd %d: offset %d, start + decoder offset before (%d) + bytes consumed = %d", i, out[i].off, preset, start+preset+int64(sends[i]))
		}
	}
	return "", ""
}

// fragOp: one configuration = one op. ref holds the first configuration's command lines of the stream.
func (x *vf12T) fragOp(src string, start, preset int64, b *vf12Buf, bufSize int, cuts []int, ref *[]string, refOp *string) {
	x.fragOpE(src, start, preset, b, bufSize, cuts, false, ref, refOp)
}

// eofData: the underlying reader reports io.EOF together with the last bytes (the model treats the end
// of the stream as a separate call; the commands and the data-returning requests must be the same)
func (x *vf12T) fragOpE(src string, start, preset int64, b *vf12Buf, bufSize int, cuts []int, eofData bool, ref *[]string, refOp *string) {
	s := x.s
	data := b.data
	scmds, sends, sok := vf12Strict(data)
	out, ec, reqs := vf12RunCuts(data, start, preset, bufSize, cuts, eofData)
	if eofData {
		s.Count("frag_reader_returns_eof_with_data")
	}
	for _, c := range cuts {
		if c == 0 {
			s.Count("frag_reader_returns_zero_bytes_without_error")
			break
		}
	}
	name := "fr"
	if !sok {
		name = "frx"
	}
	ct := vf12CutsText(cuts)
	if eofData {
		ct = "E" + ct
	}
	line := fmt.Sprintf("%s %d %d %d %d %s %s", name, x.idx, start, preset, bufSize, ct, b.Pieces())
	exact := vf12Lines(0, out, ec)
	var lines []string
	if sok {
		lines = vf12Lines(x.idx, out, ec)
	} else {
		lines = vf12LinesX(x.idx, out, ec)
	}
	lines = append(lines, fmt.Sprintf("#%d q %s", x.idx, vf12ReqsText(reqs)))
	if ec == "panic" {
		s.Violate("decoder-panic", "decoder panicked", vf12Replay(line))
	}
	if *ref == nil {
		*ref, *refOp = exact, line
	} else if strings.Join(*ref, "\n") != strings.Join(exact, "\n") {
		m := vf12Replay(line)
		m["first_op"] = vf12Short(*refOp)
		m["source"] = src
		s.Violate("fragmentation-dependence", "the same stream decodes differently when the underlying reads are cut elsewhere / under another bufio size", m)
	}
	if ov := vf12Overlap(out); ov != "" {
		m := vf12Replay(line)
		m["source"] = src
		s.Violate("args-share-memory", ov, m)
	}
	if sok {
		if what, detail := vf12Check(out, ec, scmds, sends, start, preset); what != "" {
			m := vf12Replay(line)
			m["source"] = src
			s.Violate(what, detail, m)
		}
	}
	tainted := false
	for i, c := range out { // offset == bytes really taken from the reader, on every stream
		tainted = tainted || c.inline
		if !tainted && c.off != start+preset+c.consumed {
			m := vf12Replay(line)
			m["command_index"] = i
			m["source"] = src
			s.Violate("offset-not-bytes-consumed", fmt.Sprintf("cmd %d: offset %d, but start %d + decoder offset before %d + bytes taken from the reader %d", i, c.off, start, preset, c.consumed), m)
		}
	}
	s.Op(line, lines...)
	s.Count("frag_ops")
	s.Count("frag_src_" + src)
	s.Count(fmt.Sprintf("frag_bufio_%d", bufSize))
	s.Add("frag_underlying_reads", len(reqs))
	for _, q := range reqs {
		if q < bufSize {
			s.Count("frag_fill_into_partly_filled_buffer")
			break
		}
	}
	for _, q := range reqs {
		if q > bufSize {
			s.Count("frag_large_read_bypassing_the_buffer")
			break
		}
	}
	x.idx++
}

var vf12FragBufs = []int{16, 17, 23, 64, 4096}

// fragAll: every two-piece cut, every isolated single byte, one byte per read, random piece lists.
func (x *vf12T) fragAll(src string, start, preset int64, data []byte, every bool) {
	b := &vf12Buf{}
	b.Lit(data)
	var ref []string
	var refOp string
	n := len(data)
	k := 0
	bs := func() int { k++; return vf12FragBufs[k%len(vf12FragBufs)] }
	x.fragOp(src, start, preset, b, 4096, nil, &ref, &refOp) // unfragmented
	ones := make([]int, n)
	for i := range ones {
		ones[i] = 1
	}
	x.fragOp(src, start, preset, b, 16, ones, &ref, &refOp)
	x.fragOp(src, start, preset, b, 4096, ones, &ref, &refOp)
	step := 1
	if !every && n > 64 {
		step = 1 + n/64
	}
	for i := 1; i < n; i += step {
		x.fragOp(src, start, preset, b, bs(), []int{i}, &ref, &refOp)
		x.fragOp(src, start, preset, b, bs(), []int{i, 1}, &ref, &refOp)
	}
	for j := 0; j < 4; j++ {
		var cuts []int
		for left := n; left > 0; {
			c := 1 + x.r.Intn(1+x.r.Intn(40))
			cuts = append(cuts, c)
			left -= c
		}
		x.fragOp(src, start, preset, b, bs(), cuts, &ref, &refOp)
	}
	// other reader behaviours io.Reader allows: (n, io.EOF) with the last bytes; (0, nil) reads (at most
	// three in a row - bufio gives up with io.ErrNoProgress after 100)
	x.fragOpE(src, start, preset, b, bs(), nil, true, &ref, &refOp)
	x.fragOpE(src, start, preset, b, 16, ones, true, &ref, &refOp)
	for j := 0; j < 4; j++ {
		var cuts []int
		for left := n; left > 0; {
			for z := x.r.Intn(4); z > 0; z-- {
				cuts = append(cuts, 0)
			}
			c := 1 + x.r.Intn(1+x.r.Intn(20))
			cuts = append(cuts, c)
			left -= c
		}
		x.fragOpE(src, start, preset, b, bs(), cuts, j%2 == 1, &ref, &refOp)
	}
}

// the fragmentation section of TestVerifC12
func (x *vf12T) fragSection() {
	r := x.r
	fixed := []string{
		"*3\r\n$3\r\nSET\r\n$1\r\nk\r\n$2\r\nv1\r\n*1\r\n$4\r\nPING\r\n",
		"*2\r\n$3\r\nGET\r\n$0\r\n\r\n\n*2\r\n$6\r\nSELECT\r\n$2\r\n10\r\n",
		"\n\n*3\r\n$3\r\nSET\r\n$3\r\n\r\n$\r\n$17\r\n\r\n*1\r\n$4\r\nPING\r\n\n\r\n\n*2\r\n$4\r\nECHO\r\n$20\r\n01234567890123456789\r\n",
		"*12\r\n$4\r\nMSET\r\n$1\r\na\r\n$0\r\n\r\n$1\r\n\n\r\n$1\r\n\r\r\n$2\r\n\r\n\r\n$1\r\nc\r\n$1\r\nd\r\n$1\r\ne\r\n$1\r\nf\r\n$1\r\ng\r\n$1\r\nh\r\n",
	}
	for i, f := range fixed {
		st := int64(0)
		if i%2 == 1 {
			st = x.startOffset()
		}
		// quick: a boundary at every index for the first two (every kind of position occurs in them:
		// inside CRLF, inside a length line, after the type byte, at a keep-alive LF), sampled for the longer two
		x.fragAll("fixed", st, 0, []byte(f), i < 2 || vfutil.Thorough())
	}
	// a preset counter across 2^32 while the stream is cut at every index
	x.fragAll("fixed_preset", 5, 1<<32-3, []byte(fixed[0]), true)
	// outside the strict form, inside the decoder's (and the model's) domain: length lines longer than
	// the smallest buffer (ReadBytes' ErrBufferFull rounds), signed lengths, null bulk, inline commands
	// whose line exceeds the buffer, a cut stream
	for _, f := range []string{
		"*0000000000000000002\r\n$0000000000000000003\r\nGET\r\n$+1\r\nk\r\n*1\r\n$4\r\nPING\r\n",
		"PING                          A  B\r\n*1\r\n$4\r\nPING\r\n",
		"*2\r\n$3\r\nGET\r\n$-1\r\n*1\r\n$4\r\nPI",
	} {
		x.fragAll("outside", 0, 0, []byte(f), true)
	}
	// generated short streams
	for i := 0; i < vfutil.Scale(6, 120); i++ {
		var bg int
		cs := make([]vf12Cmd, r.Range(1, 4))
		for j := range cs {
			cs[j] = x.genCmd(&bg, 6)
		}
		d := x.emitCmds(cs, r.Bool()).data
		if len(d) > 400 {
			continue
		}
		x.fragAll("generated", x.startOffset(), 0, append([]byte{}, d...), false)
	}
	// one argument larger than every buffer: io.ReadFull's large reads go past the buffer
	{
		n := r.Range(66000, 72000)
		cs := []vf12Cmd{
			{[]vf12Arg{{data: []byte("SET")}, {data: []byte("k")}, {rep: true, c: vfutil.Pick(r, []byte{'a', '\n', '\r'}), n: n}}},
			{[]vf12Arg{{data: []byte("PING")}}},
		}
		b := x.emitCmds(cs, false)
		var ref []string
		var refOp string
		for _, bs := range []int{16, 4096, 65536} {
			for j := 0; j < vfutil.Scale(1, 3); j++ {
				var cuts []int
				for left := len(b.data); left > 0; {
					c := 1 + r.Intn(1+r.Intn(30000))
					cuts = append(cuts, c)
					left -= c
				}
				x.fragOp("large", 11, 0, b, bs, cuts, &ref, &refOp)
			}
		}
	}
}

// replayFrag re-runs a recorded fr/frx op on the real code
func (x *vf12T) replayFrag(f []string) bool {
	if len(f) < 7 {
		return false
	}
	st, _ := strconv.ParseInt(f[2], 10, 64)
	pre, _ := strconv.ParseInt(f[3], 10, 64)
	bs, _ := strconv.Atoi(f[4])
	cuts, ok := vf12ParseCuts(f[5])
	if !ok {
		return false
	}
	eofData := strings.HasPrefix(f[5], "E")
	bf := &vf12Buf{}
	for _, tk := range f[6:] {
		q := strings.Split(tk, ":")
		if q[0] == "h" && len(q) == 2 {
			bf.Lit(vfutil.UnHex(q[1]))
		} else if q[0] == "r" && len(q) == 3 {
			c, _ := strconv.Atoi(q[1])
			n, _ := strconv.Atoi(q[2])
			bf.Rep(byte(c), n)
		} else {
			return false
		}
	}
	var ref []string
	var refOp string
	x.fragOp("replay", st, pre, bf, 4096, nil, &ref, &refOp)
	x.fragOpE("replay", st, pre, bf, bs, cuts, eofData, &ref, &refOp)
	return true
}

// ------------------------------------------------------------ an argument above 512 MiB (monitor only)

// vf12LazyReader delivers head ++ pattern-block repeated up to n bytes ++ tail without holding the stream.
type vf12LazyReader struct {
	head, block, tail []byte
	n                 int
	pos               int
	max               int
}

func (f *vf12LazyReader) total() int { return len(f.head) + f.n + len(f.tail) }

func (f *vf12LazyReader) Read(p []byte) (int, error) {
	if f.pos >= f.total() {
		return 0, io.EOF
	}
	if len(p) > f.max {
		p = p[:f.max]
	}
	done := 0
	for done < len(p) && f.pos < f.total() {
		var src []byte
		switch {
		case f.pos < len(f.head):
			src = f.head[f.pos:]
		case f.pos < len(f.head)+f.n:
			o := f.pos - len(f.head)
			src = f.block[o%len(f.block):]
			if rest := f.n - o; len(src) > rest {
				src = src[:rest]
			}
		default:
			src = f.tail[f.pos-len(f.head)-f.n:]
		}
		c := copy(p[done:], src)
		done += c
		f.pos += c
	}
	return done, nil
}

// huge: SET k <n bytes> ; PING with n above 512 MiB (Redis' default proto-max-bulk-len; the tool has
// MaxProtoBulkLen for larger values). Too large for the Lean driver's list representation: the theorems
// cover every length below 2^63, the real decoder is checked here by the monitor alone (argument
// bytes against the generator's pattern, offsets against the byte count, reader position).
func (x *vf12T) huge(start int64, n int, seed uint64, bufSize int) {
	s := x.s
	rr := vfutil.NewRand(seed)
	block := make([]byte, 65521) // prime length: the pattern does not line up with any power-of-two buffer
	for i := range block {
		block[i] = byte(rr.Intn(256))
	}
	head := []byte("*3\r\n$3\r\nSET\r\n$1\r\nk\r\n$" + strconv.Itoa(n) + "\r\n")
	tail := []byte("\r\n*1\r\n$4\r\nPING\r\n")
	fr := &vf12LazyReader{head: head, block: block, tail: tail, n: n, max: 1 + rr.Intn(8<<20)}
	op := fmt.Sprintf("huge %d %d %d %d", start, n, seed, bufSize)
	rp := map[string]interface{}{"op": op, "note": "SET k <n pattern bytes>; PING read through the real decoder; n, seed of the pattern, bufio size"}
	out, ec := vf12RunOn(fr, func() int { return fr.pos }, nil, nil, start, 0, bufSize)
	s.Count("argsize_above_512MiB")
	end1 := int64(len(head) + n + 2)
	switch {
	case ec != "eof" || len(out) != 2:
		s.Violate("unexpected-error", fmt.Sprintf("a stream with one %d-byte argument ended with %q after %d of 2 commands", n, ec, len(out)), rp)
	case out[0].cmd != "set" || len(out[0].args) != 2 || string(out[0].args[0]) != "k" || out[1].cmd != "ping" || len(out[1].args) != 0:
		s.Violate("args-not-lossless", "commands around the large argument differ from what was sent", rp)
	case out[0].off != start+end1 || out[1].off != start+int64(fr.total()) || out[0].consumed != end1:
		s.Violate("offset-not-bytes-consumed", fmt.Sprintf("offsets %d, %d; stream boundaries %d, %d", out[0].off, out[1].off, start+end1, start+int64(fr.total())), rp)
	default:
		a := out[0].args[1]
		ok := len(a) == n
		for o := 0; ok && o < n; o += len(block) {
			e := o + len(block)
			if e > n {
				e = n
			}
			ok = string(a[o:e]) == string(block[:e-o])
		}
		if !ok {
			s.Violate("args-not-lossless", fmt.Sprintf("the %d-byte argument differs from the bytes sent (got %d bytes)", n, len(a)), rp)
		}
	}
}

// sameSize: consecutive commands whose values have exactly the same size (a buffer kept for "a value
// of the same size as the one before" would be handed out twice), sizes up to above 1 MiB; all
// decoded values are held until the stream has ended, then compared and tested for shared memory.
func (x *vf12T) sameSizeSection(nconf int) {
	r := x.r
	sizes := []int{1, 14, 128, 4096, 65536, 1<<20 + 3}
	if !vfutil.Thorough() {
		sizes = []int{14, 4096, 65536, 1<<20 + 3}
	}
	for _, n := range sizes {
		var cs []vf12Cmd
		if n > 1<<20 && !vfutil.Thorough() { // quick: two values above 1 MiB are enough for the Lean driver
			cs = []vf12Cmd{
				{[]vf12Arg{{data: []byte("SET")}, {data: []byte("k0")}, {rep: true, c: 'p', n: n}}},
				{[]vf12Arg{{data: []byte("PING")}}},
				{[]vf12Arg{{data: []byte("SET")}, {data: []byte("k1")}, {rep: true, c: 'q', n: n}}},
			}
			x.s.Count("same_size_values_in_flight")
			x.stream("same_size", x.startOffset(), x.emitCmds(cs, false), vf12Want(cs), nconf)
			continue
		}
		for j, c := range []byte{'p', 'q', '\n', 'r'} {
			cs = append(cs, vf12Cmd{[]vf12Arg{{data: []byte("SET")}, {data: []byte(fmt.Sprintf("k%d", j))}, {rep: true, c: c, n: n}}})
			if j == 1 {
				cs = append(cs, vf12Cmd{[]vf12Arg{{data: []byte("PING")}}})
			}
		}
		cs = append(cs, vf12Cmd{[]vf12Arg{{data: []byte("MSET")}, {rep: true, c: 'x', n: n}, {rep: true, c: 'y', n: n}, {data: vf12Content(r, 3)}, {rep: true, c: 'z', n: n}}})
		x.s.Count("same_size_values_in_flight")
		x.stream("same_size", x.startOffset(), x.emitCmds(cs, false), vf12Want(cs), nconf)
	}
}

func (x *vf12T) hugeSection() {
	r := x.r
	x.huge(x.startOffset()%(1<<40), 512<<20+1+r.Intn(4096), r.U64()%1000000, vfutil.Pick(r, []int{16, 4096, 1 << 20}))
	if vfutil.Thorough() {
		x.huge(7, 768<<20+r.Intn(1<<20), r.U64()%1000000, 65536)
		x.huge(0, 512<<20, r.U64()%1000000, 4096) // exactly Redis' default proto-max-bulk-len: still legal
		x.s.Count("dim_argsize_exactly_512MiB")
	}
}

func (x *vf12T) replayHuge(f []string) bool {
	if len(f) != 5 {
		return false
	}
	st, _ := strconv.ParseInt(f[1], 10, 64)
	n, _ := strconv.Atoi(f[2])
	seed, _ := strconv.ParseUint(f[3], 10, 64)
	bs, _ := strconv.Atoi(f[4])
	x.huge(st, n, seed, bs)
	return true
}
