//go:build verif

package checkpoint

// C17 — resume bookkeeping maintenance never loses the live resume position.
//
// The real UpdateCheckpoint, and the real DelStaleCheckpoint / DelCheckpointHash
// driven by a transliteration of cmd/syncer.go's `gcStaleCp` closure, run over
// the real conn.RedisConn against the target double on generated bookkeeping
// states. Every write request the operation issued is a crash point: the
// request prefix is replayed into a fresh double (vfdoubles.Replay) and the
// real GetCheckpointHash + GetCheckpoint read the resume position back.
//
//   correspondence: the write requests (database, key, fields, values) and the
//     position after every prefix are compared with the Lean model
//     (lean/GunYu/Model/Checkpoint.lean through lean/GunYu/Drive/C17.lean);
//   monitor (independent of the model): on states satisfying the stated
//     preconditions (vfC17Sane) the position after any prefix is not smaller
//     than, and in the same database as, the position before; gc never
//     deletes in the database holding the newest entry of a live id.
//
// The migration of the bidirectional namespace lives in package syncer
// (harness/overlay/syncer/vf_c17_test.go).

import (
	"fmt"
	"os"
	"sort"
	"strconv"
	"strings"
	"testing"
	"testing/synctest"
	"time"

	"github.com/mgtv-tech/redis-GunYu/config"
	"github.com/mgtv-tech/redis-GunYu/pkg/redis/client"
	"github.com/mgtv-tech/redis-GunYu/pkg/vfdoubles"
	"github.com/mgtv-tech/redis-GunYu/pkg/vfutil"
)

type vfC17Case struct {
	kind   string // "u" UpdateCheckpoint | "g" gcStaleCp
	local  string
	ids    []string
	live   []string
	before int64 // gc: absolute threshold (ns)
	st     *VfState
}

// synctest bubbles start at 2000-01-01T00:00:00Z
const vfBubbleEpochNs = int64(946684800) * 1_000_000_000

// ------------------------------------------------------------ running the real code

func vfC17GcStaleCp(cli client.Redis, runIdMap map[string]struct{}, stale time.Duration) {
	VfGcStaleCp(cli, runIdMap, stale)
}

// vfC17Orders splits the operation's log at INFO requests: for each INFO the
// databases of the EXISTS requests (scan loops) and of the HDEL requests on
// keys other than the checkpoint hash (DelCheckpoint) that follow it.
func vfC17Orders(log []vfdoubles.LogEntry) (scan [][]int, dels [][]int, infoAt []int) {
	cur := -1
	for i, e := range log {
		switch e.Cmd() {
		case "info":
			scan = append(scan, nil)
			dels = append(dels, nil)
			infoAt = append(infoAt, i)
			cur++
		case "exists":
			if cur >= 0 {
				scan[cur] = append(scan[cur], e.DB)
			}
		case "hdel":
			if cur >= 0 && string(e.Args[1]) != config.CheckpointKeyHashKey {
				dels[cur] = append(dels[cur], e.DB)
			}
		}
	}
	return
}

func vfC17OrdersStr(os [][]int) string {
	if len(os) == 0 {
		return "."
	}
	p := make([]string, len(os))
	for i, o := range os {
		p[i] = vfInts(o)
	}
	return strings.Join(p, ";")
}

type vfC17Run struct {
	seedLen int
	log     []vfdoubles.LogEntry // whole log (seed + op)
	writes  []int                // indices (into log) of the op's write requests
	lines   []string             // rendered writes
	sp      []string             // sp[0] before, sp[i+1] after write i
	op      string
}

func vfC17Exec(t *testing.T, c *vfC17Case, tag int) *vfC17Run {
	tg := vfdoubles.NewTarget()
	c.st.Seed(tg)
	run := &vfC17Run{seedLen: tg.LogLen()}
	switch c.kind {
	case "u":
		cli := VfConn(tg)
		_ = UpdateCheckpoint(cli, c.local, c.ids)
		cli.Close()
	case "g":
		synctest.Test(t, func(t *testing.T) {
			cli := VfConn(tg)
			live := map[string]struct{}{}
			for _, id := range c.live {
				live[id] = struct{}{}
			}
			stale := time.Duration(time.Now().UnixNano() - c.before)
			vfC17GcStaleCp(cli, live, stale)
			cli.Close()
			tg.CloseAll()
			synctest.Wait()
		})
	}
	tg.CloseAll()
	run.log = tg.LogCopy()
	opLog := run.log[run.seedLen:]
	for i, e := range opLog {
		if l, ok := VfRenderWrite(e); ok {
			run.writes = append(run.writes, run.seedLen+i)
			run.lines = append(run.lines, l)
		}
	}
	run.sp = append(run.sp, VfStartPoint(vfdoubles.Replay(run.log[:run.seedLen], 0), c.ids))
	for _, w := range run.writes {
		run.sp = append(run.sp, VfStartPoint(vfdoubles.Replay(run.log[:w+1], 0), c.ids))
	}
	scan, dels, infoAt := vfC17Orders(opLog)
	ver := vfutil.HexS(config.Version)
	switch c.kind {
	case "u":
		o1, o2 := []int(nil), []int(nil)
		now := int64(0)
		firstWrite := len(opLog)
		if len(run.writes) > 0 {
			firstWrite = run.writes[0] - run.seedLen
			a := opLog[firstWrite].Args
			for i := 2; i+1 < len(a); i += 2 {
				if strings.HasSuffix(string(a[i]), CheckpointMtimeSuffix) {
					now, _ = strconv.ParseInt(string(a[i+1]), 10, 64)
				}
			}
		}
		for i, at := range infoAt {
			if at < firstWrite {
				o1 = scan[i]
			} else {
				o2 = dels[i]
			}
		}
		run.op = fmt.Sprintf("c17u %d %s %s %s %d %s %s %s", tag, ver, vfutil.HexS(c.local), VfHexList(c.ids),
			now, vfInts(o1), vfInts(o2), c.st.Encode())
	case "g":
		run.op = fmt.Sprintf("c17g %d %s %s %s %d %s %s", tag, ver, VfHexList(c.ids), VfHexList(c.live),
			c.before, vfC17OrdersStr(scan), c.st.Encode())
	}
	return run
}

func (run *vfC17Run) implLines(tag int) []string {
	out := []string{fmt.Sprintf("#%d n=%d sp=%s", tag, len(run.lines), run.sp[0])}
	for i, l := range run.lines {
		out = append(out, fmt.Sprintf("#%d %s sp=%s", tag, l, run.sp[i+1]))
	}
	return out
}

// ------------------------------------------------------------ independent oracle

type vfPos struct {
	ok  bool
	off int64
	db  int
}

func vfParsePos(s string) (p vfPos, err bool) {
	if s == "err" || s == "tie" {
		return p, true
	}
	if s == "none" {
		return p, false
	}
	ab := strings.Split(s, "@")
	p.ok = true
	p.off, _ = strconv.ParseInt(ab[0], 10, 64)
	p.db, _ = strconv.Atoi(ab[1])
	return p, false
}

var vfSuffixes = []string{CheckpointRunIdSuffix, CheckpointVersionSuffix, CheckpointOffsetSuffix, CheckpointMtimeSuffix}

// vfSplitField: "<rid>_<kind>" → (rid, suffix); suffix "" when none matches.
func vfSplitField(f string) (string, string) {
	for _, s := range vfSuffixes {
		if strings.HasSuffix(f, s) {
			return f[:len(f)-len(s)], s
		}
	}
	return f, ""
}

func vfIn(xs []string, x string) bool {
	for _, y := range xs {
		if x == y {
			return true
		}
	}
	return false
}

func vfResolve(hash [][2]string, ids []string) string {
	get := func(k string) string {
		for _, kv := range hash {
			if kv[0] == k {
				return kv[1]
			}
		}
		return ""
	}
	if n := get(ids[0]); n != "" {
		return n
	}
	if len(ids) > 1 {
		return get(ids[1])
	}
	return ""
}

// last value of a field kind among the entries of the given ids (the read
// rule of fetchCheckpoint), ok=false when there is none
func vfLast(fs [][2]string, ids []string, suffix string) (string, bool) {
	v, ok := "", false
	for _, f := range fs {
		rid, s := vfSplitField(f[0])
		if s == suffix && vfIn(ids, rid) {
			v, ok = f[1], true
		}
	}
	return v, ok
}

// vfC17Sane evaluates the preconditions under which C17 promises the position
// is kept (they mirror the hypotheses of the Lean theorems in Props/C17.lean):
//   - the two replication ids are distinct, non-empty, not "?";
//   - under the key the hash resolves to, every field of these ids parses, a
//     `_runid` field stores its own id, an id with an `_offset` field in a
//     database also has its `_runid` field there;
//   - one database d holds the strictly largest offset X >= 0: every `_offset`
//     field of these ids in any other database is smaller than X (C02: the
//     position written after a SELECT is strictly larger than the one left in
//     the previous database);
//   - (update) the new key, when different, holds no field of these ids; if
//     the hash does not map the new id but d already holds fields of it (left
//     by an interrupted re-key), the old id's fields in d alone give X.
//   - (gc) both ids are live; every `_runid` field under that key stores its own id.
func vfC17Sane(c *vfC17Case) (bool, string) {
	if len(c.ids) != 2 || c.ids[0] == c.ids[1] {
		return false, "ids"
	}
	for _, id := range c.ids {
		if id == "" || id == "?" || strings.Contains(id, "_") {
			return false, "ids"
		}
	}
	n := vfResolve(c.st.Hash, c.ids)
	if n == "" {
		return true, "none" // no position held: nothing to lose
	}
	type dbv struct {
		off    int64
		has    bool
		runid  string
		hasRid bool
	}
	per := map[int]*dbv{}
	maxOther := map[int]int64{}
	for _, it := range c.st.Items {
		if it.Key != n {
			continue
		}
		v := &dbv{off: -1}
		per[it.Db] = v
		seenOff := map[string]bool{}
		seenRid := map[string]bool{}
		mx := int64(-1 << 62)
		for _, f := range it.Fields {
			rid, s := vfSplitField(f[0])
			if s == CheckpointRunIdSuffix && f[1] != rid {
				if c.kind == "g" || vfIn(c.ids, rid) {
					return false, "runid-value"
				}
			}
			if !vfIn(c.ids, rid) {
				continue
			}
			switch s {
			case CheckpointOffsetSuffix:
				o, err := strconv.ParseInt(f[1], 10, 64)
				if err != nil {
					return false, "parse"
				}
				v.off, v.has = o, true
				seenOff[rid] = true
				if o > mx {
					mx = o
				}
			case CheckpointMtimeSuffix:
				if _, err := strconv.ParseInt(f[1], 10, 64); err != nil {
					return false, "parse"
				}
			case CheckpointRunIdSuffix:
				v.runid, v.hasRid = f[1], true
				seenRid[rid] = true
			}
		}
		for rid := range seenOff {
			if !seenRid[rid] {
				return false, "incomplete"
			}
		}
		maxOther[it.Db] = mx
	}
	best, X := -1, int64(-1)
	for d, v := range per {
		if v.has && v.off > X {
			best, X = d, v.off
		}
	}
	if best < 0 || X < 0 {
		return false, "no-position"
	}
	if !per[best].hasRid {
		return false, "no-runid"
	}
	for d, mx := range maxOther {
		if d != best && mx >= X {
			return false, "not-dominant"
		}
	}
	if c.kind == "g" {
		if !vfIn(c.live, c.ids[0]) || !vfIn(c.live, c.ids[1]) {
			return false, "not-live"
		}
		return true, "gc"
	}
	// update
	if n != c.local {
		// the new key is fresh, or holds what a rename cut after its first HSET left: fields of
		// the ids that read X in d (with a run id) and are smaller than X everywhere else
		cut := false
		for _, it := range c.st.Items {
			if it.Key != c.local {
				continue
			}
			has := false
			for _, f := range it.Fields {
				rid, sfx := vfSplitField(f[0])
				if sfx == CheckpointRunIdSuffix && f[1] != rid && vfIn(c.ids, rid) {
					return false, "local-not-fresh"
				}
				if !vfIn(c.ids, rid) {
					continue
				}
				has = true
				if sfx == CheckpointOffsetSuffix || sfx == CheckpointMtimeSuffix {
					v, err := strconv.ParseInt(f[1], 10, 64)
					if err != nil || (sfx == CheckpointOffsetSuffix && it.Db != best && v >= X) {
						return false, "local-not-fresh"
					}
				}
			}
			if has && it.Db == best {
				o, ok := vfLast(it.Fields, c.ids, CheckpointOffsetSuffix)
				r, ok2 := vfLast(it.Fields, c.ids, CheckpointRunIdSuffix)
				if !ok || !ok2 || o != strconv.FormatInt(X, 10) || r == "?" {
					return false, "local-not-fresh"
				}
			}
			cut = cut || has
		}
		if cut {
			return true, "rename-cut"
		}
		return true, "rename"
	}
	// same key: is the new id mapped?
	mapped := false
	for _, kv := range c.st.Hash {
		if kv[0] == c.ids[0] && kv[1] != "" {
			mapped = true
		}
	}
	if !mapped && per[best].runid == c.ids[0] {
		for _, it := range c.st.Items {
			if it.Key == n && it.Db == best {
				o, ok := vfLast(it.Fields, c.ids[1:], CheckpointOffsetSuffix)
				r, ok2 := vfLast(it.Fields, c.ids[1:], CheckpointRunIdSuffix)
				if !ok || !ok2 || o != strconv.FormatInt(X, 10) || r == "?" {
					// the new id's entry (not mapped by the hash) carries the position and the old id's own
					// entry does not read the same: since D34 (UpdateCheckpoint no longer deletes the entry
					// it has just written) no precondition excludes this state — it is judged like any other
					return true, "rekey-new-entry-ahead"
				}
			}
		}
	}
	return true, "rekey"
}

// ------------------------------------------------------------ one case

func vfC17Do(t *testing.T, s *vfutil.Session, c *vfC17Case, tag int, src string) {
	if src == "gen" {
		vfC17Untie(c)
	}
	run := vfC17Exec(t, c, tag)
	s.Op(run.op, run.implLines(tag)...)
	s.Count("case_" + c.kind)
	s.Count("src_" + src)
	s.Add("crash_points", len(run.sp))
	if len(run.lines) > 0 {
		s.Count("case_with_writes_" + c.kind)
	}
	sane, why := vfC17Sane(c)
	s.Count("pre_" + c.kind + "_" + why)
	p0, err0 := vfParsePos(run.sp[0])
	if p0.ok && len(run.lines) > 0 {
		s.Distinct(c.kind + "|" + why + "|" + strconv.Itoa(len(run.lines)) + "|" + strconv.Itoa(len(c.st.Items)) + "|" + strconv.Itoa(p0.db))
	}
	replay := map[string]interface{}{"op": run.op}
	if sane && !err0 {
		for k := 1; k < len(run.sp); k++ {
			pk, errk := vfParsePos(run.sp[k])
			bad := ""
			switch {
			case errk:
				bad = "read fails"
			case p0.ok && !pk.ok:
				bad = "position lost"
			case p0.ok && pk.off < p0.off:
				bad = "position smaller"
			case p0.ok && pk.db != p0.db:
				bad = "other database"
			}
			if bad != "" {
				what := "update-loses-position"
				if c.kind == "g" {
					what = "gc-loses-position"
				}
				replay["crash_after_request"] = k
				replay["request"] = run.lines[k-1]
				replay["before"] = run.sp[0]
				replay["after"] = run.sp[k]
				s.Violate(what, fmt.Sprintf("%s: resume position %s before, %s after request #%d (%s) [%s]", bad, run.sp[0], run.sp[k], k, run.lines[k-1], why), replay)
				break
			}
		}
		s.Count("monitored_" + c.kind)
	}
	if c.kind == "g" {
		vfC17GcSpare(s, c, run)
	}
	// whatever the state (also the ones the preconditions exclude): an operation must not turn "no
	// readable position" (e.g. an _offset field without its _runid field: GetCheckpoint answers run id
	// "?") into a position — a start would then continue the stream from an offset nobody vouches for,
	// in a database it was not written in. Offset -1 (the placeholder of a new key) is no position.
	localFresh := true
	resolved := ""
	if len(c.ids) > 0 {
		resolved = vfResolve(c.st.Hash, c.ids)
	}
	for _, it := range c.st.Items {
		if it.Key == c.local && resolved != c.local {
			for _, f := range it.Fields {
				if rid, _ := vfSplitField(f[0]); vfIn(c.ids, rid) {
					localFresh = false // (a stale position already stored under the new key is adopted: other class)
				}
			}
		}
	}
	if c.kind == "u" && !err0 && !p0.ok && len(c.ids) == 2 && c.ids[0] != c.ids[1] && localFresh {
		for k := 1; k < len(run.sp); k++ {
			pk, errk := vfParsePos(run.sp[k])
			if !errk && pk.ok && pk.off >= 0 {
				// a complete entry (offset stored WITH its own run id) that was there all the time, shadowed by an
				// unreadable larger one the operation replaced, is a position somebody vouches for: not invented
				vouched := false
				for _, it := range c.st.Items {
					if it.Db != pk.db || (it.Key != c.local && it.Key != resolved) {
						continue
					}
					for _, id := range c.ids {
						hasOff, hasRid := false, false
						for _, f := range it.Fields {
							hasOff = hasOff || (f[0] == id+"_offset" && f[1] == strconv.FormatInt(pk.off, 10))
							hasRid = hasRid || (f[0] == id+"_runid" && f[1] == id)
						}
						vouched = vouched || (hasOff && hasRid)
					}
				}
				if vouched {
					s.Count("no_position_unshadowed")
					break
				}
				s.Violate("update-invents-position", fmt.Sprintf("no readable position before (%s); after request #%d (%s) a start reads %s [%s]", run.sp[0], k, run.lines[k-1], run.sp[k], why),
					map[string]interface{}{"op": run.op, "crash_after_request": k, "after": run.sp[k]})
				break
			}
		}
		s.Count("no_position_checked")
	}
	if c.kind == "u" && sane && !err0 && p0.ok {
		// what the next start really does (syncer.updateCheckpoint + RedisOutput.StartPoint): order the
		// ids by the hash, run UpdateCheckpoint(local) TO COMPLETION on the crash state, read under LOCAL
		for k := 0; k <= len(run.writes); k++ {
			cut := run.seedLen
			if k > 0 {
				cut = run.writes[k-1] + 1
			}
			got := vfC17NextStart(vfdoubles.Replay(run.log[:cut], 0), c.local, c.ids)
			pk, errk := vfParsePos(got)
			if errk || !pk.ok || pk.off < p0.off || pk.db != p0.db {
				req := "-"
				if k > 0 {
					req = run.lines[k-1]
				}
				s.Violate("restart-after-update-loses-position", fmt.Sprintf("resume position %s before; stopped after request #%d (%s), the next start (UpdateCheckpoint re-run to completion, GetCheckpoint under the local key) reads %s [%s]", run.sp[0], k, req, got, why),
					map[string]interface{}{"op": run.op, "crash_after_request": k, "before": run.sp[0], "next_start": got})
				break
			}
			s.Count("next_start_checked")
		}
	}
}

func vfC17NextStart(tg *vfdoubles.Target, local string, ids []string) string {
	return VfNextStart(tg, local, ids)
}

// gc never deletes, for an id a source still reports, in the database that
// holds that id's largest offset (independent recomputation from the state).
func vfC17GcSpare(s *vfutil.Session, c *vfC17Case, run *vfC17Run) {
	for _, kv := range c.st.Hash {
		rid, cpn := kv[0], kv[1]
		if !vfIn(c.live, rid) {
			continue
		}
		// per database: the id's offset as fetchCheckpoint reads it
		max := int64(-2)
		offs := map[int]int64{}
		bad := false
		for _, it := range c.st.Items {
			if it.Key != cpn {
				continue
			}
			o := int64(-1)
			for _, f := range it.Fields {
				r, sfx := vfSplitField(f[0])
				if sfx == CheckpointRunIdSuffix && f[1] != r {
					bad = true // a `_runid` field naming another id: its owner's gc deletes that other id's fields
				}
				if r != rid {
					continue
				}
				if sfx == CheckpointOffsetSuffix || sfx == CheckpointMtimeSuffix {
					v, err := strconv.ParseInt(f[1], 10, 64)
					if err != nil {
						bad = true
					}
					if sfx == CheckpointOffsetSuffix {
						o = v
					}
				}
				if sfx == CheckpointRunIdSuffix && f[1] != rid {
					bad = true
				}
			}
			offs[it.Db] = o
			if o > max {
				max = o
			}
		}
		if bad || max <= 0 {
			continue
		}
		nmax := 0
		for _, o := range offs {
			if o == max {
				nmax++
			}
		}
		for i, l := range run.lines {
			p := strings.Fields(l)
			if p[0] != "hdel" || p[2] != vfutil.HexS(cpn) {
				continue
			}
			if !strings.Contains(p[3], vfutil.HexS(rid+CheckpointOffsetSuffix)) {
				continue
			}
			db, _ := strconv.Atoi(p[1])
			if offs[db] == max && nmax == 1 {
				s.Violate("gc-deletes-newest-of-live-id", fmt.Sprintf("request #%d %s deletes the newest checkpoint (offset %d) of live id %s", i+1, l, max, rid),
					map[string]interface{}{"op": run.op, "request": l})
			}
		}
		s.Count("gc_spare_checked")
	}
}

// ------------------------------------------------------------ generators

func vfHexId(r *vfutil.Rand) string { return fmt.Sprintf("%x", r.Bytes(20)) }

var vfC17Names = []string{config.CheckpointKey, config.CheckpointKey + "-{06S}", config.CheckpointKey + "-{Qi}",
	BisyncCheckpointKeyPrefix + ":0a1b2c3d4e5f60718293a4b5", "cp"}

// vfCpFields: mtime == vfNoMtime leaves the `_mtime` field out — what the replay path writes
// (syncer/output.go sendCmdsBatch: `_runid`, `_version`, `_offset` only; `_mtime` comes from
// SetCheckpoint alone), so fetchCheckpoint reads Mtime 0 there.
const vfNoMtime = int64(-1 << 62)

func vfCpFields(rid string, off int64, mtime int64, withRunId bool) [][2]string {
	fs := [][2]string{}
	if mtime != vfNoMtime {
		fs = append(fs, [2]string{rid + CheckpointMtimeSuffix, strconv.FormatInt(mtime, 10)})
	}
	if withRunId {
		fs = append(fs, [2]string{rid + CheckpointRunIdSuffix, rid})
	}
	fs = append(fs, [2]string{rid + CheckpointVersionSuffix, config.Version}, [2]string{rid + CheckpointOffsetSuffix, strconv.FormatInt(off, 10)})
	return fs
}

func vfShuffle(r *vfutil.Rand, fs [][2]string) {
	for i := len(fs) - 1; i > 0; i-- {
		j := r.Intn(i + 1)
		fs[i], fs[j] = fs[j], fs[i]
	}
}

// base state: `key` holds positions keyed by `rid` in 1–3 databases.
func vfC17Spread(r *vfutil.Rand, st *VfState, key string, rid string, top int64, mt int64, strict bool) (bestDb int) {
	dbs := []int{0, 1, 2, 3, 5, 9, 15}
	n := r.Range(1, 3)
	perm := make([]int, len(dbs))
	for i := range perm {
		perm[i] = i
	}
	for i := len(perm) - 1; i > 0; i-- {
		j := r.Intn(i + 1)
		perm[i], perm[j] = perm[j], perm[i]
	}
	bestDb = dbs[perm[0]]
	for i := 0; i < n; i++ {
		d := dbs[perm[i]]
		off := top
		if i > 0 {
			off = top - int64(r.Range(1, 500))
			if !strict && r.Chance(1, 3) {
				off = top // tie
			}
			if off < -1 {
				off = -1
			}
		}
		m := mt - int64(i)*7 - int64(r.Intn(5))
		if r.Chance(1, 3) {
			m = vfNoMtime
		} else if r.Chance(1, 12) {
			m = 0
		}
		fs := vfCpFields(rid, off, m, true)
		st.Items = append(st.Items, VfItem{Db: d, Key: key, Fields: fs})
	}
	return
}

func vfC17Noise(r *vfutil.Rand, st *VfState, ids []string, names []string) {
	// fields that do not belong to the ids, mode markers, busy databases
	for i := range st.Items {
		if r.Chance(1, 3) {
			st.Items[i].Fields = append(st.Items[i].Fields, [2]string{bisyncNamespaceFieldMode, "sync"}, [2]string{bisyncNamespaceFieldMTime, "12345"})
		}
		if r.Chance(1, 4) {
			o := vfHexId(r)
			st.Items[i].Fields = append(vfCpFields(o, int64(r.Range(0, 99999)), int64(r.Range(1, 1<<30)), true), st.Items[i].Fields...)
		}
	}
	if r.Chance(1, 2) {
		st.Busy = append(st.Busy, vfutil.Pick(r, []int{0, 4, 7, 12}))
	}
	if r.Chance(1, 3) {
		o := vfHexId(r)
		st.Hash = append(st.Hash, [2]string{o, vfutil.Pick(r, names)})
	}
}

func vfC17GenUpdate(r *vfutil.Rand) *vfC17Case {
	id1, id2 := vfHexId(r), vfHexId(r)
	c := &vfC17Case{kind: "u", ids: []string{id1, id2}, st: &VfState{}}
	c.local = vfutil.Pick(r, vfC17Names)
	old := vfutil.Pick(r, vfC17Names)
	top := int64(r.Range(0, 1_000_000))
	if r.Chance(1, 10) {
		top = int64(r.Range(0, 3))
	}
	mt := time.Now().UnixNano() - int64(r.Range(1, 1<<40))
	strict := !r.Chance(1, 6)
	switch r.Intn(8) {
	case 0: // nothing stored
	case 1: // rename, same id
		c.st.Hash = append(c.st.Hash, [2]string{id1, old})
		vfC17Spread(r, c.st, old, id1, top, mt, strict)
	case 2: // failover, same key
		c.st.Hash = append(c.st.Hash, [2]string{id2, c.local})
		vfC17Spread(r, c.st, c.local, id2, top, mt, strict)
	case 3: // failover and rename
		c.st.Hash = append(c.st.Hash, [2]string{id2, old})
		vfC17Spread(r, c.st, old, id2, top, mt, strict)
	case 4: // up to date (no-op) with leftovers of the old id
		c.st.Hash = append(c.st.Hash, [2]string{id1, c.local})
		vfC17Spread(r, c.st, c.local, id1, top, mt, strict)
		if r.Bool() {
			c.st.Hash = append(c.st.Hash, [2]string{id2, old})
		}
	case 5: // both ids mapped, possibly to different keys
		c.st.Hash = append(c.st.Hash, [2]string{id2, old}, [2]string{id1, vfutil.Pick(r, vfC17Names)})
		vfC17Spread(r, c.st, old, id2, top, mt, strict)
		vfC17Spread(r, c.st, c.st.Hash[1][1], id1, top+int64(r.Range(-50, 50)), mt, strict)
	case 6: // both ids' fields side by side in the databases of one key
		c.st.Hash = append(c.st.Hash, [2]string{id2, c.local})
		vfC17Spread(r, c.st, c.local, id2, top, mt, strict)
		for i := range c.st.Items {
			if r.Bool() {
				off, _ := strconv.ParseInt(c.st.Items[i].Fields[len(c.st.Items[i].Fields)-1][1], 10, 64)
				if r.Chance(1, 4) {
					off -= int64(r.Range(0, 40))
				}
				extra := vfCpFields(id1, off, mt+int64(r.Range(-100, 100)), r.Chance(5, 6))
				if r.Bool() {
					c.st.Items[i].Fields = append(c.st.Items[i].Fields, extra...)
				} else {
					c.st.Items[i].Fields = append(extra, c.st.Items[i].Fields...)
				}
			}
		}
	case 7: // wild: arbitrary fields / values
		c.st.Hash = append(c.st.Hash, [2]string{vfutil.Pick(r, c.ids), old})
		vfC17Spread(r, c.st, old, vfutil.Pick(r, c.ids), top, mt, false)
		for i := range c.st.Items {
			switch r.Intn(5) {
			case 0:
				c.st.Items[i].Fields = append(c.st.Items[i].Fields, [2]string{id1 + CheckpointOffsetSuffix, "x12"})
			case 1:
				c.st.Items[i].Fields = append(c.st.Items[i].Fields, [2]string{id2 + CheckpointRunIdSuffix, "?"})
			case 2:
				vfShuffle(r, c.st.Items[i].Fields)
			case 3:
				c.st.Items[i].Fields = c.st.Items[i].Fields[:r.Range(1, len(c.st.Items[i].Fields))]
			}
		}
		if r.Bool() { // new key already populated
			c.st.Items = append(c.st.Items, VfItem{Db: r.Intn(3), Key: c.local, Fields: vfCpFields(id1, top+int64(r.Range(-9, 9)), mt, true)})
		}
	}
	// a key may not appear twice in one database
	c.st.Items = vfDedupItems(c.st.Items)
	vfC17Noise(r, c.st, c.ids, vfC17Names)
	c.st.Items = vfDedupItems(c.st.Items)
	return c
}

func vfDedupItems(items []VfItem) []VfItem {
	seen := map[string]int{}
	var out []VfItem
	for _, it := range items {
		k := strconv.Itoa(it.Db) + "/" + it.Key
		if j, ok := seen[k]; ok {
			// merge, first occurrence of a field wins its place
			have := map[string]bool{}
			for _, f := range out[j].Fields {
				have[f[0]] = true
			}
			for _, f := range it.Fields {
				if !have[f[0]] {
					out[j].Fields = append(out[j].Fields, f)
					have[f[0]] = true
				}
			}
			continue
		}
		seen[k] = len(out)
		// fields unique within one hash
		have := map[string]bool{}
		var fs [][2]string
		for _, f := range it.Fields {
			if !have[f[0]] {
				fs = append(fs, f)
				have[f[0]] = true
			}
		}
		it.Fields = fs
		out = append(out, it)
	}
	return out
}

// crash-intermediate initial states: run the real operation on a generated
// state, cut it after a random request, take what is left on the target.
func vfC17Interrupted(r *vfutil.Rand, c *vfC17Case) *vfC17Case {
	tg := vfdoubles.NewTarget()
	c.st.Seed(tg)
	n0 := tg.LogLen()
	cli := VfConn(tg)
	_ = UpdateCheckpoint(cli, c.local, c.ids)
	cli.Close()
	tg.CloseAll()
	log := tg.LogCopy()
	var ws []int
	for i := n0; i < len(log); i++ {
		if _, ok := VfRenderWrite(log[i]); ok {
			ws = append(ws, i)
		}
	}
	if len(ws) == 0 {
		return c
	}
	k := ws[r.Intn(len(ws))]
	st := VfDumpState(vfdoubles.Replay(log[:k+1], 0))
	c2 := &vfC17Case{kind: "u", local: c.local, ids: c.ids, st: st}
	if r.Chance(1, 4) { // restart under another key name
		c2.local = vfutil.Pick(r, vfC17Names)
	}
	return c2
}

func vfC17GenGc(r *vfutil.Rand) *vfC17Case {
	id1, id2 := vfHexId(r), vfHexId(r)
	c := &vfC17Case{kind: "g", ids: []string{id1, id2}, st: &VfState{}}
	d := int64(vfutil.Pick(r, []int{1, 3600, 12 * 3600})) * 1_000_000_000
	c.before = vfBubbleEpochNs - d
	c.live = []string{id1, id2}
	if r.Chance(1, 8) {
		c.live = []string{id1}
	}
	mtime := func() int64 {
		switch r.Intn(6) {
		case 0:
			return c.before
		case 1:
			return c.before + 1
		case 2:
			return c.before - 1
		case 3:
			return c.before + int64(r.Range(2, 1<<30))
		default:
			return c.before - int64(r.Range(2, 1<<30))
		}
	}
	nPairs := r.Range(1, 4)
	strict := !r.Chance(1, 5)
	rids := []string{id1, id2, vfHexId(r), vfHexId(r)}
	if r.Bool() {
		rids[0], rids[1] = rids[1], rids[0]
	}
	vfShuffleS(r, rids[1:])
	keyOf := map[string]string{}
	for i := 0; i < nPairs; i++ {
		rid := rids[i]
		key := vfutil.Pick(r, vfC17Names[:3])
		if i > 0 && r.Chance(2, 3) {
			key = c.st.Hash[0][1]
		}
		keyOf[rid] = key
		c.st.Hash = append(c.st.Hash, [2]string{rid, key})
		top := int64(r.Range(1, 100000))
		if r.Chance(1, 12) {
			top = int64(r.Range(-1, 1))
		}
		st := &VfState{}
		vfC17Spread(r, st, key, rid, top, 0, strict)
		for j := range st.Items {
			fs := st.Items[j].Fields
			for k := range fs {
				_, sfx := vfSplitField(fs[k][0])
				switch sfx {
				case CheckpointMtimeSuffix:
					fs[k][1] = strconv.FormatInt(mtime(), 10)
					if r.Chance(1, 40) {
						fs[k][1] = "zz"
					}
				case CheckpointRunIdSuffix:
					if r.Chance(1, 25) {
						fs[k][1] = vfutil.Pick(r, rids) // runid value of another id
					}
				}
			}
			if r.Chance(1, 15) {
				st.Items[j].Fields = fs[:len(fs)-1] // no offset field
			}
		}
		c.st.Items = append(c.st.Items, st.Items...)
	}
	if !vfIn(c.live, id2) && r.Bool() {
		c.live = append(c.live, rids[3])
	}
	c.st.Items = vfDedupItems(c.st.Items)
	vfC17Noise(r, c.st, c.ids, vfC17Names[:3])
	c.st.Items = vfDedupItems(c.st.Items)
	return c
}

// vfC17Untie removes exact (offset, mtime) ties between databases of one
// key for the case's ids: GetCheckpoint then depends on Go's map order (the
// model takes the order as a parameter; a start has no recorded order).
func vfC17Untie(c *vfC17Case) {
	seen := map[string]bool{}
	for i := range c.st.Items {
		it := &c.st.Items[i]
		bump := int64(0)
		for {
			o, oko := vfLast(it.Fields, c.ids, CheckpointOffsetSuffix)
			m, okm := vfLast(it.Fields, c.ids, CheckpointMtimeSuffix)
			if !oko {
				o = "-1"
			}
			if !okm {
				m = "0"
			}
			k := it.Key + "|" + o + "|" + m
			if !seen[k] {
				seen[k] = true
				break
			}
			bump += 1000 + int64(i)*17
			if !okm {
				it.Fields = append(it.Fields, [2]string{c.ids[0] + CheckpointMtimeSuffix, strconv.FormatInt(bump, 10)})
				continue
			}
			for j := range it.Fields {
				rid, sfx := vfSplitField(it.Fields[j][0])
				if sfx == CheckpointMtimeSuffix && vfIn(c.ids, rid) {
					v, _ := strconv.ParseInt(it.Fields[j][1], 10, 64)
					it.Fields[j][1] = strconv.FormatInt(v+bump, 10)
				}
			}
		}
	}
}

func vfShuffleS(r *vfutil.Rand, xs []string) {
	for i := len(xs) - 1; i > 0; i-- {
		j := r.Intn(i + 1)
		xs[i], xs[j] = xs[j], xs[i]
	}
}

// ------------------------------------------------------------ corpus / replay

// a corpus line is an op line of an earlier run (c17u … / c17g …): the case is
// rebuilt from it, the observed parts (now, database orders) are re-derived.
func vfC17ParseOp(op string) *vfC17Case {
	f := strings.Fields(op)
	switch {
	case len(f) == 11 && f[0] == "c17u":
		return &vfC17Case{kind: "u", local: string(vfutil.UnHex(f[3])), ids: VfUnHexList(f[4]), st: VfParseState(f[8], f[9], f[10])}
	case len(f) == 10 && f[0] == "c17g":
		b, _ := strconv.ParseInt(f[5], 10, 64)
		return &vfC17Case{kind: "g", ids: VfUnHexList(f[3]), live: VfUnHexList(f[4]), before: b, st: VfParseState(f[7], f[8], f[9])}
	}
	return nil
}

func TestVerifC17(t *testing.T) {
	s := vfutil.NewSession("C17")
	defer s.Close()
	r := vfutil.NewRand(vfutil.Seed())
	tag := 0
	if rp := os.Getenv("VERIF_REPLAY"); rp != "" {
		b, _ := os.ReadFile(rp)
		op := string(b)
		for _, key := range []string{"c17u ", "c17g "} {
			if i := strings.Index(op, key); i >= 0 {
				op = op[i:]
				if j := strings.IndexAny(op, "\"\n"); j >= 0 {
					op = op[:j]
				}
				if c := vfC17ParseOp(op); c != nil {
					vfC17Do(t, s, c, 0, "replay")
				}
				return
			}
		}
		return
	}
	for _, l := range vfutil.Corpus("C17") {
		if c := vfC17ParseOp(l); c != nil {
			vfC17Do(t, s, c, tag, "corpus")
			tag++
		}
	}
	n := vfutil.Scale(700, 12000)
	for i := 0; i < n; i++ {
		rr := r.Fork()
		c := vfC17GenUpdate(rr)
		if rr.Chance(1, 3) {
			c = vfC17Interrupted(rr, c)
		}
		vfC17Do(t, s, c, tag, "gen")
		tag++
	}
	n = vfutil.Scale(500, 8000)
	for i := 0; i < n; i++ {
		c := vfC17GenGc(r.Fork())
		vfC17Do(t, s, c, tag, "gen")
		tag++
	}
	_ = sort.Ints
}
